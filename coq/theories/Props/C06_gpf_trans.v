(** C06 - tie of generalProtectionFaultHandler (kernel/mm/vmm/fault_amd64.go) to the source BY TRANSLATION.

    Gen/Trans_vmm_gpf.v is regenerated on every run by gen/gotrans ("memory as state" mode, config
    gen/gotrans/vmm_gpf.json).  readCR2Fn, kfmt.Printf (its format string as the list of its bytes), kfmt.GetOutputSink,
    regs.DumpTo and panic are recorded seams; panic never returns: its call ends the run, so the result shows the state
    at the panic.  For seams that do not touch the machine state ([G.o_pure]: printing and reading CR2 do not) the
    theorem says: for every fault address, register block, output sink and state the handler makes exactly the calls of
    [G.gpf_trace] - it prints the two messages and the registers - and ends in panic(errUnrecoverableFault) with the
    machine state unchanged; it never returns normally.  This is the model's outcome [PANIC + E_FAULT] of [OGpf]
    (C06_gpf_panics), second conjunct.  No hypotheses.
    Statements only; the proof is in Vmm/GpfTrans.v. *)
From Coq Require Import NArith String List Bool.
From FF Require Import Lib.Word Lib.GoOps Gen.Consts_mm_vmm Gen.Trans_vmm_gpf Vmm.Pt Vmm.PtAccess.
From FF Require Vmm.GpfTrans Vmm.PdtTrans.
Module G := FF.Vmm.GpfTrans.
Module T := FF.Vmm.PdtTrans.
Import ListNotations.
Local Open Scope N_scope.

Theorem C06_gpf_is_translation :
  forall (addr regs sink : N) (s : st) (tr0 : list gcall),
    go_vmm_generalProtectionFaultHandler (mk_go_vmm_world tr0 s) regs
      (G.o_pure sink) (G.o_pure tt) (G.o_pure tt) (G.o_pure addr) (G.o_pure tt)
    = GOk (mk_go_vmm_world
             ([GCall "panic" [err_arg (T.err_of E_FAULT)];
               GCall "regs.DumpTo" [GNum sink];
               GCall "kfmt.GetOutputSink" [];
               GCall "kfmt.Printf" [GBytes (G.bytes_of G.gpf_fmt2)];
               GCall "kfmt.Printf" [GBytes (G.bytes_of G.gpf_fmt1); GNum addr];
               GCall "readCR2Fn" []] ++ tr0) s, tt)
    /\ step (OGpf addr) s = Ok (s, PANIC + E_FAULT, 0).
Proof. exact G.gpf_is_translation. Qed.
Print Assumptions C06_gpf_is_translation.
