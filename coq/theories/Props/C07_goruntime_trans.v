(** C07 (goruntime part) - tie of sysReserve / sysMap / sysAlloc to the source BY TRANSLATION.
    Gen/Trans_goruntime_boot.v is regenerated on every run by gen/gotrans (extended mode, "world" functions) from
    kernel/goruntime/bootstrap.go.  The translation threads the trace of the calls through the seams
    earlyReserveRegionFn, mapFn, memsetFn, mm.AllocFrame and the runtime's mSysStatInc (most recent first;
    [GCall name [GNum arg ..]]), takes their results from oracles on that trace, treats unsafe.Pointer <-> uintptr
    conversions as identities, returns the value left in [*reserved] as an extra result and turns panic(..) into
    GPanic.  The hand-written model Goruntime/Boot.v (with [chk := true], the current code) fixes the
    environment: reservation by [early_reserve] from the cursor [last] ([T.o_reserve last]); mapFn failing at its
    call number [fail] ([T.o_map fail n0], n0 = mapFn calls already on the trace); mm.AllocFrame answering from
    the list [frames] ([T.o_alloc frames n0]); mSysStatInc adding to the caller's counter.  The theorems: for
    that environment, all 64-bit arguments and fuel above the page count, the translation makes exactly the
    model's seam calls in the model's order ([T.ev_of] maps the model's events; the reservation call comes
    first and the mSysStatInc call last, exactly when every page was mapped - [T.map_ok] / [T.alloc_ok] -
    which is also when the model adds the region size to the counter), returns the model's pointer (0 = nil),
    and panics exactly where the model does.
    Statements only; proofs are in Goruntime/BootTrans.v. *)
From Coq Require Import NArith String List.
From FF Require Import Lib.Word Lib.GoOps Gen.Consts_mm_vmm Gen.Trans_goruntime_boot Vmm.Region Goruntime.Boot.
From FF Require Goruntime.BootTrans.
Module T := FF.Goruntime.BootTrans.
Import ListNotations.
Local Open Scope N_scope.

(** sysReserve(_, size, &reserved): the region, [*reserved = true]; or panic(err) *)
Theorem C07_rt_sysReserve_is_translation :
  forall (last ptr size : N) (r0 : bool) (tr0 : list gcall),
    last < two64 ->
    go_goruntime_sysReserve (mk_go_goruntime_world tr0) ptr size r0 (T.o_reserve last) =
    match sys_reserve true last size with
    | (_, Ret a, fl) => GOk (mk_go_goruntime_world (T.ev_reserve (rt_round_up size) :: tr0), (a, fl))
    | (_, _, _) => GPanic
    end.
Proof. exact T.sysReserve_is_translation. Qed.
Print Assumptions C07_rt_sysReserve_is_translation.

Theorem C07_rt_sysMap_is_translation :
  forall (zf stat ptr addr size : N) (reserved : bool) (fail : option N) (tr0 : list gcall) (fuel : nat),
    addr < two64 -> (N.to_nat (N.shiftr (rt_round_up size) PageShift) < fuel)%nat ->
    let '(stat', out, t) := sys_map true zf stat addr size reserved fail in
    let ok := T.map_ok zf addr size fail in
    match out with
    | Ret p =>
        go_goruntime_sysMap fuel (mk_go_goruntime_world tr0) addr size reserved ptr zf
          (T.o_map fail (T.count_ev "mapFn" tr0)) =
          GOk (mk_go_goruntime_world
                 ((if ok then [T.ev_stat ptr (rt_round_up size)] else []) ++ rev (map T.ev_of t) ++ tr0), p) /\
        stat' = (if ok then add64 stat (rt_round_up size) else stat)
    | _ =>
        go_goruntime_sysMap fuel (mk_go_goruntime_world tr0) addr size reserved ptr zf
          (T.o_map fail (T.count_ev "mapFn" tr0)) = GPanic
    end.
Proof. exact T.sysMap_vs_model. Qed.
Print Assumptions C07_rt_sysMap_is_translation.

Theorem C07_rt_sysAlloc_is_translation :
  forall (last stat ptr size : N) (frames : list (option N)) (fail : option N) (tr0 : list gcall) (fuel : nat),
    last < two64 -> (N.to_nat (N.shiftr (rt_round_up size) PageShift) < fuel)%nat ->
    let '(l, stat', out, t, rsv) := sys_alloc true last stat size frames fail in
    let ok := T.alloc_ok last size frames fail in
    match out with
    | Ret p =>
        go_goruntime_sysAlloc fuel (mk_go_goruntime_world tr0) size ptr (T.o_reserve last)
          (T.o_map fail (T.count_ev "mapFn" tr0)) (T.o_alloc frames (T.count_ev "mm.AllocFrame" tr0)) =
          GOk (mk_go_goruntime_world
                 ((if ok then [T.ev_stat ptr (rt_round_up size)] else []) ++ rev (map T.ev_of t) ++
                  (if rt_round_up size <? size then [] else [T.ev_reserve (rt_round_up size)]) ++ tr0), p) /\
        stat' = (if ok then add64 stat (rt_round_up size) else stat)
    | _ => False
    end.
Proof. exact T.sysAlloc_vs_model. Qed.
Print Assumptions C07_rt_sysAlloc_is_translation.
