(** C14 — only checksum-valid ACPI tables are registered, found via the right root pointer.
    Statements only; every proof is [exact <lemma from Acpi/*Proofs.v>].

    Vocabulary (Acpi/Spec.v): [mem] firmware memory, a partial map address -> byte;
    [bytes_at m a bs] the image holds bytes bs at a, a+1, ...; [sums_to_zero m a len];
    [rsdp_accepted m a root useXSDT] / [rsdp_rejected m a] what an aligned slot holds (ACPI lengths:
    20 bytes for revision 0, 36 bytes otherwise; pointer RsdtAddress (32 bit) / XsdtAddress (64 bit));
    [tbl_good m t] the bytes of the table at t sum to 0 modulo 256, [tbl_bad m t len] they do not;
    [root_lists m root len useXSDT es] the root table lists es (4- or 8-byte entries);
    [candidate m rootRev es t] t is listed, or is the DSDT a checksum-valid listed FADT points to;
    [walk] (enumeration order).  The model (Acpi/Model.v) is the one the harness runs. *)
From Coq Require Import NArith List.
From FF Require Import Lib.Word Gen.Consts_device_acpi Acpi.Model Acpi.Spec
  Acpi.BytesProofs Acpi.ProbeProofs Acpi.EnumProofs Acpi.RegProofs Acpi.AbortProofs.
Import ListNotations.
Local Open Scope N_scope.

(** For every firmware memory, window and alignment (no wrap-around of the scan): what the probe
    returns is decided by the first aligned slot of the window that is not a rejected candidate.
    * it returns a root table iff that slot holds a root pointer whose signature matches and whose
      checksum over the length its revision dictates (20 bytes for revision 0, else the 36 bytes of
      the ACPI structure) is 0, and then it returns the 32-bit RsdtAddress with useXSDT = false for
      revision 0 and the 64-bit XsdtAddress with useXSDT = true otherwise; every aligned slot before
      it (decoys with a bad checksum, other data) was rejected;
    * it returns errMissingRSDP iff every aligned slot of the window is rejected;
    * a stray read is reported as such: it happens only at a slot that is neither (bytes missing). *)
Theorem C14_rsdp_found :
  forall (m : mem) (low hi align : N), 0 < align -> hi + align <= two64 ->
    match fst (fst (locateRSDT m low hi align None)) with
    | PFound root useXSDT =>
        exists a, in_window low hi align a /\ rsdp_accepted m a root useXSDT /\
                  forall a', in_window low hi align a' -> a' < a -> rsdp_rejected m a'
    | PMissing => forall a, in_window low hi align a -> rsdp_rejected m a
    | PStray _ =>
        exists a, in_window low hi align a /\
                  ~ rsdp_rejected m a /\ (forall root x, ~ rsdp_accepted m a root x) /\
                  forall a', in_window low hi align a' -> a' < a -> rsdp_rejected m a'
    | PMapErr | PFuel => False
    end.
Proof. exact rsdp_found_sound. Qed.
Print Assumptions C14_rsdp_found.

(** ... and conversely: a checksum-valid root pointer at an aligned slot, all earlier slots being
    rejected, IS found (wherever it sits), with the pointer width its revision dictates; a window
    without one yields errMissingRSDP. *)
Theorem C14_rsdp_found_complete :
  forall (m : mem) (low hi align : N), 0 < align -> hi + align <= two64 ->
    (forall a root useXSDT, in_window low hi align a -> rsdp_accepted m a root useXSDT ->
        (forall a', in_window low hi align a' -> a' < a -> rsdp_rejected m a') ->
        fst (fst (locateRSDT m low hi align None)) = PFound root useXSDT) /\
    ((forall a, in_window low hi align a -> rsdp_rejected m a) ->
        fst (fst (locateRSDT m low hi align None)) = PMissing).
Proof. exact rsdp_found_complete. Qed.
Print Assumptions C14_rsdp_found_complete.

(** validTable is the byte sum: true iff all [len] bytes are there and sum to 0 modulo 256. *)
Theorem C14_valid_table :
  forall (m : mem) (a len : N),
    (validTable m a len = Got true <-> sums_to_zero m a len) /\
    (validTable m a len = Got false <-> sums_to_nonzero m a len).
Proof. exact valid_table_spec. Qed.
Print Assumptions C14_valid_table.

(** After DriverInit succeeds (any firmware image, any number and order of tables, 4- or 8-byte
    entries): the root table is checksum-valid and lists [es]; [tableMap sg = Some t] only if t is a
    candidate (listed by the root table, or the DSDT a checksum-valid listed FADT points to) whose
    signature is sg and whose bytes sum to 0; with distinct signatures, if and only if.  The
    checksum-mismatch reports are exactly the candidates whose bytes do not sum to 0: each report
    names such a table, every such table is reported, once if the visited tables are pairwise
    different; all candidates are visited (a bad table does not stop the enumeration). *)
Theorem C14_registered_iff :
  forall (m : mem) (fail : N -> bool) (root : N) (useXSDT : bool) (s : state) (info : list event),
    bytes_ok m -> root < two64 -> no_seam_failure fail ->
    (forall len, tbl_len m root len -> 36 <= len) ->
    driverInit m fail root useXSDT = (s, IOk, info) ->
    exists len rootRev es vs ev,
      tbl_len m root len /\ sums_to_zero m root len /\ m (w64 (root + 8)) = Some rootRev /\
      root_lists m root len useXSDT es /\
      (forall sg t, lookup sg (st_tmap s) = Some t ->
                    candidate m rootRev es t /\ tbl_sig m t sg /\ tbl_good m t) /\
      (distinct_signatures m rootRev es ->
         forall sg t, lookup sg (st_tmap s) = Some t <->
                      (candidate m rootRev es t /\ tbl_sig m t sg /\ tbl_good m t)) /\
      st_events s = List.rev ev /\
      (forall t, In t vs <-> candidate m rootRev es t) /\
      (forall e, In e ev -> exists sg len, e = EvMismatch sg (ev_addr e) len /\ In (ev_addr e) vs /\
                                            tbl_bad m (ev_addr e) len /\ tbl_sig m (ev_addr e) sg) /\
      (forall t len, In t vs -> tbl_bad m t len -> In t (map ev_addr ev)) /\
      (NoDup vs -> NoDup (map ev_addr ev)).
Proof. exact driverInit_registered. Qed.
Print Assumptions C14_registered_iff.

(** The enumeration in order: success of enumerateTables yields a [walk] over the listed tables
    that accounts for every registration and every report, oldest first. *)
Theorem C14_enumeration_order :
  forall (m : mem) (fail : N -> bool) (root : N) (useXSDT : bool) (s : state),
    bytes_ok m -> root < two64 -> no_seam_failure fail ->
    enumerateTables m fail root useXSDT = (s, IOk) ->
    exists len rootRev es vs ev regs,
      tbl_len m root len /\ sums_to_zero m root len /\ m (w64 (root + 8)) = Some rootRev /\
      (36 <= len -> root_lists m root len useXSDT es) /\
      walk m rootRev es vs ev regs /\
      st_events s = List.rev ev /\ st_tmap s = List.rev regs.
Proof. exact enumerate_sound. Qed.
Print Assumptions C14_enumeration_order.

(** Bad tables are skipped without stopping: whenever the root table is checksum-valid and every
    table on the way is readable (a [walk] exists — tables with a bad sum included, at any position),
    enumerateTables succeeds, reports exactly the walk's mismatches and registers exactly its
    registrations. *)
Theorem C14_enumeration_continues :
  forall (m : mem) (fail : N -> bool) (root : N) (useXSDT : bool) len rootRev es vs ev regs,
    bytes_ok m -> root < two64 -> no_seam_failure fail ->
    tbl_len m root len -> sums_to_zero m root len -> 36 <= len ->
    m (w64 (root + 8)) = Some rootRev ->
    root_lists m root len useXSDT es -> walk m rootRev es vs ev regs ->
    exists s, enumerateTables m fail root useXSDT = (s, IOk) /\
              st_events s = List.rev ev /\ st_tmap s = List.rev regs.
Proof. exact enumerate_complete. Qed.
Print Assumptions C14_enumeration_continues.

(** The kernel's structs are the ACPI ones where the property depends on it: signature, revision
    and pointer offsets, 20 / 36 byte checksum lengths (the 36 is the named constant introduced by
    the fix; unsafe.Sizeof(ExtRSDPDescriptor{}) is 40), 16-byte alignment, the BIOS window. *)
Theorem C14_layout_constants :
  acpi_rsdpSignature = rsdp_signature /\ acpi_off_RSDP_Revision = 15 /\
  acpi_sizeof_RSDPDescriptor = 20 /\ acpi_extRSDPLength = 36 /\
  acpi_off_RSDP_RSDTAddr = 16 /\ acpi_off_ExtRSDP_XSDTAddr = 24 /\
  acpi_rsdpAlignment = 16 /\ acpi_rsdpLocationLow = 0xe0000 /\ acpi_rsdpLocationHi = 0xfffff /\
  acpi_sizeof_SDTHeader = 36 /\ acpi_off_SDT_Length = 4 /\ acpi_fadtSignature = FACP.
Proof. exact layout_constants. Qed.
Print Assumptions C14_layout_constants.

(** A mapping-seam failure aborts DriverInit with that error (whatever the failure pattern [fail]):
    the last identityMapFn call made is the first one that failed — nothing is mapped or visited
    after it — printTableInfo is not reached, and either the failure hit the root table (nothing
    registered, nothing reported) or it hit entry t of the root table (extra = []) or the DSDT of the
    checksum-valid FADT t (extra = [(FACP, t)]): the entries before t were walked exactly as in a
    successful enumeration, their registrations and reports stay as [walk] on that prefix says. *)
Theorem C14_map_error_aborts :
  forall (m : mem) (fail : N -> bool) (root : N) (useXSDT : bool) (s : state) (info : list event),
    bytes_ok m -> root < two64 ->
    driverInit m fail root useXSDT = (s, IErrMap, info) ->
    info = [] /\ seam_failed fail (st_seam s) /\
    ( (st_tmap s = [] /\ st_events s = [])
      \/
      exists len rootRev es pre t post vs ev regs extra,
        tbl_len m root len /\ sums_to_zero m root len /\ m (w64 (root + 8)) = Some rootRev /\
        (36 <= len -> root_lists m root len useXSDT es) /\
        es = pre ++ t :: post /\ walk m rootRev pre vs ev regs /\ aborted_at m rootRev t extra /\
        st_events s = List.rev ev /\ st_tmap s = List.rev (regs ++ extra) ).
Proof. exact driverInit_map_error. Qed.
Print Assumptions C14_map_error_aborts.

(** Conversely a successful enumeration made no identityMapFn call that failed. *)
Theorem C14_success_no_seam_failure :
  forall (m : mem) (fail : N -> bool) (root : N) (useXSDT : bool) (s : state),
    bytes_ok m -> root < two64 ->
    enumerateTables m fail root useXSDT = (s, IOk) -> seam_ok fail (st_seam s).
Proof. exact success_no_seam_failure. Qed.
Print Assumptions C14_success_no_seam_failure.

(** The reports: after a successful DriverInit the checksum-mismatch events are, in enumeration
    order, exactly one per visited table whose bytes do not sum to 0 — the listed tables in the
    root table's order, the DSDT directly after its checksum-valid FADT ([visits]) — each carrying
    that table's signature, address and length field, as the log line
    "<sig> at 0x<addr> <len> [checksum mismatch; skipping]" does; tables that sum to 0 produce none
    ([reports]); both lists are determined by the image. *)
Theorem C14_reports_in_order :
  forall (m : mem) (fail : N -> bool) (root : N) (useXSDT : bool) (s : state) (info : list event),
    bytes_ok m -> root < two64 -> no_seam_failure fail ->
    driverInit m fail root useXSDT = (s, IOk, info) ->
    exists rootRev es vs ev,
      m (w64 (root + 8)) = Some rootRev /\
      (forall len, tbl_len m root len -> 36 <= len -> root_lists m root len useXSDT es) /\
      visits m rootRev es vs /\ reports m vs ev /\ st_events s = List.rev ev /\
      (forall vs', visits m rootRev es vs' -> vs' = vs) /\
      (forall ev', reports m vs ev' -> ev' = ev).
Proof. exact reports_in_order. Qed.
Print Assumptions C14_reports_in_order.
