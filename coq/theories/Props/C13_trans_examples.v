(** Non-vacuity and concrete runs for Props/C13_trans.v.  The theorems there have no hypotheses beyond the types, so
    "non-vacuous" means: the regenerated translation really runs.  Below the translated functions of
    Gen/Trans_aml_tree.v are run by [vm_compute] on the history of Props/C13_examples.v (the ACPI specification's
    search-rule tree: built, edited, an object freed and its slot reused) and agree with the model step by step;
    three runs end in GPanic where Go panics (free of an object that still has arguments, append through a pointer
    beyond the pool, append through nil), and ObjectAt answers nil for a freed slot and beyond the pool. *)
From Coq Require Import NArith List Bool.
From FF Require Import Lib.GoOps Lib.GoPool Gen.Consts_aml_tree Gen.Trans_aml_tree Aml.Stream Aml.Tree Aml.TreeTrans
                       Props.C13_trans Props.C13_trans_find.
Import ListNotations.
Local Open Scope N_scope.

Definition nm4 (a b c d : N) : Name := (a, b, c, d).
(* slots: 0 = \ ; 1 = _SB_ ; 2 = PCI0 ; 3 = IDE0 ; 4 = _ADR ; 5 = _CRS *)
Definition ex_ops : list op :=
  [ OpNewNamed opScopeBlock 0 (nm4 0x5c 0 0 0);
    OpNewNamed opScopeBlock 0 (nm4 0x5f 0x53 0x42 0x5f);
    OpNewNamed opScopeBlock 0 (nm4 0x50 0x43 0x49 0x30);
    OpNewNamed opScopeBlock 0 (nm4 0x49 0x44 0x45 0x30);
    OpNewNamed opScopeBlock 0 (nm4 0x5f 0x41 0x44 0x52);
    OpNewNamed opScopeBlock 0 (nm4 0x5f 0x43 0x52 0x53);
    OpAppend 3 4; OpAppend 0 1; OpAppend 1 2; OpAppend 2 3;
    OpNew 0x10 7;              (* slot 6 *)
    OpAppend 2 6;
    OpAppendAfter 2 5 3;       (* PCI0: IDE0, _CRS, (6) *)
    OpDetach 2 6; OpFree 6;
    OpNewNamed opScopeBlock 0 (nm4 0x5f 0x48 0x49 0x44)   (* reuses slot 6 *) ].

Notation GTree := (@go_aml_ObjectTree N).

Definition drop {A} (r : gres (GTree * A)) : gres GTree :=
  match r with GOk (g, _) => GOk g | GPanic => GPanic | GFuel => GFuel end.

(** one step of a history, run by the TRANSLATION *)
Definition go_step (g : GTree) (o : op) : gres GTree :=
  match o with
  | OpNew opc th => drop (go_aml_ObjectTree_newObject g opc th table_oracle)
  | OpNewNamed opc th nm => drop (go_aml_ObjectTree_newNamedObject g opc th (name_bytes nm) table_oracle)
  | OpAppend a b => drop (go_aml_ObjectTree_append g (Some a) (Some b))
  | OpAppendAfter a b c => drop (go_aml_ObjectTree_appendAfter g (Some a) (Some b) (Some c))
  | OpDetach a b => drop (go_aml_ObjectTree_detach g (Some a) (Some b))
  | OpFree a => drop (go_aml_ObjectTree_free g (Some a))
  end.

Fixpoint go_run (g : GTree) (ops : list op) : gres GTree :=
  match ops with
  | [] => GOk g
  | o :: rest => match go_step g o with GOk g' => go_run g' rest | GPanic => GPanic | GFuel => GFuel end
  end.

Definition ex_tree : ObjectTree N :=
  match run NewObjectTree ex_ops with Ok t => t | _ => NewObjectTree end.

(** the model runs the history to the end *)
Example C13_trans_model_history_ok : run (V := N) NewObjectTree ex_ops = Ok ex_tree.
Proof. vm_compute. reflexivity. Qed.

(** ... and the translation, run on the translated empty tree, ends in exactly the translated model tree *)
Example C13_trans_run_history :
  go_run (tr_tree (V := N) NewObjectTree) ex_ops = GOk (tr_tree ex_tree).
Proof. vm_compute. reflexivity. Qed.

(** the slot freed by [OpFree 6] was reused (the pool has 7 entries, the free list is empty again) *)
Example C13_trans_run_reuse :
  match go_run (tr_tree (V := N) NewObjectTree) ex_ops with
  | GOk g => length (f_ObjectTree_objPool g) = 7%nat /\ f_ObjectTree_freeListHeadIndex g = tree_InvalidIndex /\
             option_map f_Object_name (nth_error (f_ObjectTree_objPool g) 6) = Some [0x5f; 0x48; 0x49; 0x44]
  | _ => False
  end.
Proof. vm_compute. repeat split. Qed.

(** the theorems instantiated at the example tree *)
Example C13_trans_append_at_example :
  go_aml_ObjectTree_append (tr_tree ex_tree) (Some 1) (Some 6) =
  lift (fun t' => (tr_tree t', tt)) (append ex_tree 1 6).
Proof. exact (C13_append_is_translation N ex_tree 1 6). Qed.

Example C13_trans_newObject_at_example :
  go_aml_ObjectTree_newObject (tr_tree ex_tree) 0x10 3 table_oracle =
  lift (fun '(t', p) => (tr_tree t', Some p)) (newObject ex_tree 0x10 3).
Proof. exact (C13_newObject_is_translation N ex_tree 0x10 3). Qed.

(** panics: free(PCI0) while it still has arguments is the explicit panic of free; a pointer beyond the pool and the
    nil pointer are dereferenced by append *)
Example C13_trans_run_free_with_args_panics :
  go_aml_ObjectTree_free (tr_tree ex_tree) (Some 2) = GPanic /\ free ex_tree 2 = Panic.
Proof. split; vm_compute; reflexivity. Qed.

Example C13_trans_run_append_beyond_pool_panics :
  go_aml_ObjectTree_append (tr_tree ex_tree) (Some 2) (Some 7) = GPanic /\ append ex_tree 2 7 = Panic.
Proof. split; vm_compute; reflexivity. Qed.

Example C13_trans_run_append_nil_panics :
  go_aml_ObjectTree_append (tr_tree ex_tree) None (Some 2) = GPanic /\
  go_aml_ObjectTree_append (tr_tree ex_tree) (Some 2) None = GPanic.
Proof. split; vm_compute; reflexivity. Qed.

(** ObjectAt: a live slot, beyond the pool, and a freed slot (after free(_CRS)) *)
Example C13_trans_run_ObjectAt :
  go_aml_ObjectTree_ObjectAt (tr_tree ex_tree) 5 = GOk (tr_tree ex_tree, Some 5) /\
  go_aml_ObjectTree_ObjectAt (tr_tree ex_tree) 7 = GOk (tr_tree ex_tree, None) /\
  match go_aml_ObjectTree_free (tr_tree ex_tree) (Some 5) with
  | GOk (g, _) => match go_aml_ObjectTree_ObjectAt g 5 with GOk (_, r) => r = None | _ => False end /\
                  f_ObjectTree_freeListHeadIndex g = 5
  | _ => False
  end.
Proof. vm_compute. repeat split. Qed.

(** NumArgs / ArgAt / ClosestNamedAncestor are translated too (their loops run on fuel); on the example tree the
    translation returns what the model returns: PCI0 has two arguments, the second is _CRS (slot 5), and the closest
    named ancestor of _ADR (slot 4) is IDE0 (slot 3) *)
Example C13_trans_run_queries :
  (match go_aml_ObjectTree_NumArgs 8 (tr_tree ex_tree) (Some 2) with GOk (_, n) => Ok n | GPanic => Panic | GFuel => OutOfFuel end)
    = NumArgs ex_tree (Some 2) /\
  NumArgs ex_tree (Some 2) = Ok 2 /\
  (match go_aml_ObjectTree_ArgAt 8 (tr_tree ex_tree) (Some 2) 1 with GOk (_, p) => Ok p | GPanic => Panic | GFuel => OutOfFuel end)
    = ArgAt ex_tree (Some 2) 1 /\
  ArgAt ex_tree (Some 2) 1 = Ok (Some 5) /\
  (match go_aml_ObjectTree_ClosestNamedAncestor 8 (tr_tree ex_tree) (Some 4) with GOk (_, i) => Ok i | GPanic => Panic | GFuel => OutOfFuel end)
    = ClosestNamedAncestor ex_tree (Some 4) /\
  ClosestNamedAncestor ex_tree (Some 4) = Ok 3.
Proof. vm_compute. repeat split. Qed.

(** Find / findRelative (nested labelled loops over the []byte expression; equality theorems in Props/C13_trans_find.v,
    instantiated at the end of this file).  On the example tree
    ( \ -> _SB_ -> PCI0 -> [IDE0 -> [_ADR], _CRS] ) the translation, run by vm_compute, returns exactly what the
    model's Find returns for absolute, ^-prefixed, single-segment (search upwards), multi-segment, dual / multi name
    prefix, too short, empty and stray-byte expressions, and panics where the model panics (a scope beyond the pool). *)
Definition ex_lookups : list (N * list N) :=
  [ (0, [0x5c; 0x5f;0x53;0x42;0x5f; 0x50;0x43;0x49;0x30; 0x49;0x44;0x45;0x30; 0x5f;0x41;0x44;0x52]);   (* \_SB_PCI0IDE0_ADR *)
    (3, [0x5e; 0x5f;0x43;0x52;0x53]);                     (* ^_CRS from IDE0 *)
    (3, [0x5e; 0x5e; 0x5e]); (3, [0x5e; 0x5e; 0x5e; 0x5e]);
    (4, [0x5f;0x43;0x52;0x53]);                           (* _CRS from _ADR: found two scopes up *)
    (4, [0x4e;0x4f;0x4e;0x45]);                           (* NONE *)
    (1, [0x2f; 0x02; 0x50;0x43;0x49;0x30; 0x49;0x44;0x45;0x30]);   (* multi-name prefix *)
    (1, [0x2e; 0x50;0x43;0x49;0x30; 0x5f;0x43;0x52;0x53]);         (* dual-name prefix *)
    (1, [0x50;0x43;0x49;0x30; 0x5f;0x43;0x52;0x53; 0x41]);         (* one stray byte behind the path *)
    (2, [0x5f;0x53;0x42]); (2, []); (2, [0x5c]); (2, [0x2f]); (2, [0x5c; 0x2f; 0x03; 0x3f]);
    (5, [0x49;0x44;0x45;0x30; 0x5f;0x41;0x44;0x52]);               (* IDE0._ADR from _CRS: multi-segment, downward only *)
    (7, [0x5f;0x43;0x52;0x53]);                                     (* a scope beyond the pool: nil dereference *)
    (0xffffffff, [0x5f;0x43;0x52;0x53]) ].

Example C13_trans_run_Find_agrees :
  map (fun '(s, e) => match go_aml_ObjectTree_Find 64 (tr_tree ex_tree) s e with
                      | GOk (_, r) => Ok r | GPanic => Panic | GFuel => OutOfFuel end) ex_lookups =
  map (fun '(s, e) => Find ex_tree s e) ex_lookups.
Proof. vm_compute. reflexivity. Qed.

Example C13_trans_run_Find_values :
  map (fun '(s, e) => Find ex_tree s e) ex_lookups =
  [Ok 4; Ok 5; Ok 0; Ok 0xffffffff; Ok 5; Ok 0xffffffff; Ok 3; Ok 5; Ok 0xffffffff;
   Ok 0xffffffff; Ok 0xffffffff; Ok 0; Ok 0xffffffff; Ok 0xffffffff; Ok 0xffffffff; Panic; Ok 0xffffffff].
Proof. vm_compute. reflexivity. Qed.

Example C13_trans_run_findRelative_agrees :
  map (fun '(s, e) => match go_aml_ObjectTree_findRelative 64 (tr_tree ex_tree) s e with
                      | GOk (_, r) => Ok r | GPanic => Panic | GFuel => OutOfFuel end) ex_lookups =
  map (fun '(s, e) => findRelative ex_tree s e) ex_lookups.
Proof. vm_compute. reflexivity. Qed.

(** the hypotheses of C13_find_is_translation / C13_findRelative_is_translation hold for every lookup of the list above on
    the example tree with fuel 64 (pool of 7 objects: chain_fuel = 8), and the theorems give the runs above *)
Example C13_trans_find_hypotheses_nonvacuous :
  Forall (fun '(s, e) => N.of_nat (length e) < 2 ^ 62 /\ (length e + 5 < 64)%nat /\ (chain_fuel ex_tree <= 64)%nat /\
                         Find ex_tree s e <> OutOfFuel /\ findRelative ex_tree s e <> OutOfFuel) ex_lookups.
Proof. repeat constructor; vm_compute; congruence. Qed.

Example C13_trans_find_at_example :
  go_aml_ObjectTree_Find 64 (tr_tree ex_tree) 4 [0x5f;0x43;0x52;0x53] = GOk (tr_tree ex_tree, 5).
Proof.
  rewrite (C13_find_is_translation N ex_tree 4 [0x5f;0x43;0x52;0x53] 64);
    [ reflexivity | reflexivity | vm_compute; repeat constructor | vm_compute; repeat constructor | vm_compute; discriminate ].
Qed.

Example C13_trans_findRelative_at_example :
  go_aml_ObjectTree_findRelative 64 (tr_tree ex_tree) 1 [0x2f; 0x02; 0x50;0x43;0x49;0x30; 0x49;0x44;0x45;0x30] = GOk (tr_tree ex_tree, 3).
Proof.
  rewrite (C13_findRelative_is_translation N ex_tree 1 [0x2f; 0x02; 0x50;0x43;0x49;0x30; 0x49;0x44;0x45;0x30] 64);
    [ reflexivity | reflexivity | vm_compute; repeat constructor | vm_compute; repeat constructor | vm_compute; discriminate ].
Qed.

(** CreateDefaultScopes run by the translation on the empty tree: six scopes, the root holds the other five in order *)
Example C13_trans_run_CreateDefaultScopes :
  match go_aml_ObjectTree_CreateDefaultScopes (tr_tree (V := N) NewObjectTree) 3 table_oracle with
  | GOk (g, _) =>
      map f_Object_name (f_ObjectTree_objPool g) =
        [[92; 0; 0; 0]; [95; 71; 80; 69]; [95; 80; 82; 95]; [95; 83; 66; 95]; [95; 83; 73; 95]; [95; 84; 90; 95]] /\
      map f_Object_parentIndex (f_ObjectTree_objPool g) = [0xffffffff; 0; 0; 0; 0; 0] /\
      map f_Object_nextSiblingIndex (f_ObjectTree_objPool g) = [0xffffffff; 2; 3; 4; 5; 0xffffffff] /\
      option_map f_Object_firstArgIndex (nth_error (f_ObjectTree_objPool g) 0) = Some 1 /\
      option_map f_Object_lastArgIndex (nth_error (f_ObjectTree_objPool g) 0) = Some 5 /\
      GOk (g, tt) = lift (fun t' => (tr_tree t', tt)) (CreateDefaultScopes (V := N) NewObjectTree 3)
  | _ => False
  end.
Proof. vm_compute. repeat split. Qed.
