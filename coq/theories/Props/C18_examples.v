(** Non-vacuity of the C18 theorems and concrete runs of the terminal + console composition. *)
From Coq Require Import NArith List Lia.
From FF Require Import Lib.Word Gen.Consts_device_tty Console.Grid
     Tty.Vt Tty.VtSpec Tty.VtProofs Tty.VtCons Tty.VtConsProofs Props.C18.
Import ListNotations.
Local Open Scope N_scope.

(** a history with writes while active, a deactivation, writes while inactive, a re-activation,
    out-of-range cursor moves *)
Definition ex18_ops : list op :=
  [OSetState 1; OWrite [97; 98; 99; 10; 100; 9; 101; 8]; OSetState 0; OWrite [10; 10; 120; 121; 13; 122];
   OSetCursor 0xffffffff 0; OSetState 1; OWrite [10; 10; 10; 113]].

Example C18_ops_nonvacuous : Forall op_wf ex18_ops.
Proof. repeat constructor; cbn; lia. Qed.

(** a console showing 'X' in yellow on red everywhere *)
Definition ex18_g0 (w h : N) : cgrid := mkGrid w h (fun _ _ => (88, 14, 4)).

(** the theorems instantiated on a 1x1 console without scrollback and on a 3x2 console *)
Example C18_sync_1x1 :
  exists v0 v, attach (new_vt 0 0) 1 1 7 0 = Ok v0 /\ run_ops v0 ex18_ops = Ok v /\
    forall g, calls_rel (ex18_g0 1 1) (rev (trace v)) g -> st v = tty_StateActive -> shows g v.
Proof. apply C18_sync_inv; try (unfold two32; lia); try reflexivity. exact C18_ops_nonvacuous. Qed.

Example C18_in_grid_3x2 :
  exists v0 v, attach (new_vt 2 1) 3 2 7 0 = Ok v0 /\ run_ops v0 ex18_ops = Ok v /\
    Forall (call_in_grid 3 2) (trace v).
Proof. apply C18_in_grid; try (unfold two32; lia). exact C18_ops_nonvacuous. Qed.

(** the hypothesis of C18_inactive_silent / C18_activate_redraws is reachable: after the first
    three calls of the history the terminal is inactive *)
Example C18_inactive_reachable :
  match attach (new_vt 2 1) 3 2 7 0 with
  | Ok v0 => match run_ops v0 (firstn 3 ex18_ops) with Ok v => st v <> tty_StateActive | PanicOOB => False end
  | PanicOOB => False
  end.
Proof. vm_compute. discriminate. Qed.

(** ---- concrete runs: the console content computed by the executable composition ---- *)
Definition run_grid w h sb tab fg bg ops : option (list (list cell) * list (list cell) * N) :=
  match attach (new_vt tab sb) w h fg bg with
  | Ok v0 =>
      match run_ops v0 ops with
      | Ok v => Some (table (apply_calls (ex18_g0 w h) (rev (trace v))),
                      map (fun y => map (fun x => v_cell v x y) (seqN 1 w)) (seqN 1 h), st v)
      | PanicOOB => None
      end
  | PanicOOB => None
  end.

(** 3x2 console, scrollback 1, tab 2: at the end the terminal is active, console = viewport *)
Example C18_run_3x2 :
  match run_grid 3 2 1 2 7 0 ex18_ops with
  | Some (console, viewport, state) => console = viewport /\ state = tty_StateActive /\
      viewport = [[(32, 7, 0); (32, 7, 0); (32, 7, 0)]; [(113, 7, 0); (32, 7, 0); (32, 7, 0)]]
  | None => False
  end.
Proof. vm_compute. repeat split; reflexivity. Qed.

(** while inactive the console keeps showing what it showed at deactivation, the viewport moves on *)
Example C18_run_inactive :
  match run_grid 3 2 1 2 7 0 (firstn 4 ex18_ops), run_grid 3 2 1 2 7 0 (firstn 2 ex18_ops) with
  | Some (console4, viewport4, state4), Some (console2, _, _) =>
      console4 = console2 /\ console4 <> viewport4 /\ state4 = tty_StateInactive
  | _, _ => False
  end.
Proof. vm_compute. repeat split; try reflexivity. discriminate. Qed.

(** an untouched console before the first activation *)
Example C18_run_untouched :
  match run_grid 2 2 0 4 7 0 [OWrite [97; 98; 99]] with
  | Some (console, _, _) => console = [[(88, 14, 4); (88, 14, 4)]; [(88, 14, 4); (88, 14, 4)]]
  | None => False
  end.
Proof. vm_compute. reflexivity. Qed.

(** ---- text mode, down to the framebuffer (Props/C18_text.v) ---- *)
From Coq Require Import FMapPositive Bool.
From FF Require Import Gen.Consts_device_video_console Console.Mem Console.Vga Console.VgaProofs Tty.VtVgaSync Props.C18_text.

(** a 3x2 text console whose framebuffer initially holds 'X' in yellow on red in every cell *)
Definition ex18_fb : fbuf := fresh 6 (fun _ => 0x4e58).

Example C18_sync_text_nonvacuous :
  vga_wf (mkVga 3 2) ex18_fb /\ (forall i, i < flen ex18_fb -> load ex18_fb i < two16).
Proof.
  split.
  - unfold vga_wf. repeat split; vm_compute; try reflexivity; discriminate.
  - intros i _. assert (E : load ex18_fb i = 0x4e58) by (unfold load, ex18_fb, fresh; cbn; now rewrite PositiveMap.gempty).
    rewrite E. reflexivity.
Qed.

Example C18_sync_text_3x2 :
  exists v0 v m,
    attach (new_vt 2 1) 3 2 vga_defaultFg vga_defaultBg = Vt.Ok v0 /\ run_ops v0 ex18_ops = Vt.Ok v /\
    vga_apply_calls (mkVga 3 2) ex18_fb (rev (trace v)) = Mem.Ok m /\
    (st v = tty_StateActive ->
     forall x y, 1 <= x <= 3 -> 1 <= y <= 2 -> load m (cell_idx (mkVga 3 2) x y) = enc (v_cell v x y)).
Proof.
  apply C18_sync_text; try (unfold two32; lia); try exact C18_ops_nonvacuous;
    apply C18_sync_text_nonvacuous.
Qed.

(** the driver model run on the terminal's trace: the framebuffer after the example history *)
Example C18_run_text_3x2 :
  match attach (new_vt 2 1) 3 2 vga_defaultFg vga_defaultBg with
  | Vt.Ok v0 =>
      match run_ops v0 ex18_ops with
      | Vt.Ok v =>
          match vga_apply_calls (mkVga 3 2) ex18_fb (rev (trace v)) with
          | Mem.Ok m => map (load m) [0; 1; 2; 3; 4; 5] = [0x0720; 0x0720; 0x0720; 0x0771; 0x0720; 0x0720]
          | _ => False
          end
      | PanicOOB => False
      end
  | PanicOOB => False
  end.
Proof. vm_compute. reflexivity. Qed.

(** ---- framebuffer console, down to the pixels (Props/C18_text.v: C18_sync_pixels_fb) ---- *)
From FF Require Import Console.Vesa Console.VesaSpec Console.VesaProofs Tty.VtVesaSync Tty.VtVesaProofs.

(** a small 16-bit console, 20x5 pixels with 3 bytes of padding per row, a synthetic 8x2 font whose
    space glyph is blank: a 2x2 text grid with a 4-pixel right margin and 1 pixel row below *)
Definition ex18_font : font :=
  mkFont 8 2 1 512 (fun i => if (64 <=? i) && (i <? 66) then 0 else i mod 256).
Definition ex18_vesa : option vesa :=
  set_font (new_vesa 20 5 16 43 (mkColorInfo 11 5 5 6 0 5) 256 (fun i => (i, 255 - i, i / 2))) ex18_font.

Example C18_sync_pixels_fb_nonvacuous :
  exists c, ex18_vesa = Some c /\ vesa_wf c ex18_font D16 (fresh 215 (fun i => i mod 256)) /\
            wchars c = 2 /\ hchars c = 2 /\
            (forall r q, r < f_gh ex18_font -> q < f_gw ex18_font -> glyph_bit ex18_font 32 r q = false).
Proof.
  eexists. split; [reflexivity|]. split; [|split; [reflexivity|split; [reflexivity|]]].
  - constructor; cbn; try reflexivity; unfold two32; try lia.
  - intros r q Hr Hq. cbn [f_gh f_gw ex18_font] in Hr, Hq. unfold glyph_bit.
    assert (Er : r = 0 \/ r = 1) by lia. replace (q / 8) with 0 by lia.
    destruct Er as [-> | ->]; reflexivity.
Qed.

Example C18_sync_pixels_fb_2x2 :
  exists c v0 v m,
    ex18_vesa = Some c /\
    attach (new_vt 2 1) 2 2 vesa_defaultFg vesa_defaultBg = Vt.Ok v0 /\ run_ops v0 ex18_ops = Vt.Ok v /\
    vesa_apply_calls c (fresh 215 (fun i => i mod 256)) (rev (trace v)) = Mem.Ok m /\
    (forall i, protected c i -> load m i = load (fresh 215 (fun i => i mod 256)) i) /\
    (st v = tty_StateActive -> forall i, byte_shows c ex18_font D16 m v i).
Proof.
  destruct C18_sync_pixels_fb_nonvacuous as (c & Ec & Hwf & Ew & Eh & Hsp).
  destruct (C18_sync_pixels_fb c ex18_font D16 (fresh 215 (fun i => i mod 256)) 1 2 ex18_ops Hwf)
    as (v0 & v & m & A1 & A2 & A3 & A4 & A5);
    [lia|rewrite Ew, Eh; unfold two32; lia|exact C18_ops_nonvacuous|exact Hsp|].
  rewrite Ew, Eh in A1. exists c, v0, v, m. auto 10.
Qed.
