(** C02 — early-boot allocator: ascending unique frames, never kernel or reserved RAM; replay.
    Statements only; every proof is [exact <lemma from Pmm/BootProofs.v>].

    [boot_run m ks ke n st] is the result list of [n] consecutive calls of the model of
    BootMemAllocator.AllocFrame ([Some frame] / [None] = out of memory); [successes] keeps the frames.
    [WFmap]: every region has addr+len <= 2^64-4096 and the list is sorted and non-overlapping; any
    number of regions, any alignment, any length (0 and < 1 page included), any type.
    [WFkernel]: page-aligned start, non-empty, inside one available region.
    [good_frame m kstart kend f]: the 4096 bytes of frame [f] lie inside one region of type
    available, and no byte of [kstart,kend) lies in frame [f]. *)
From Coq Require Import NArith List Sorted.
From FF Require Import Lib.Word Gen.Consts_mm_pmm Pmm.Boot Pmm.BootProofs.
Import ListNotations.
Local Open Scope N_scope.

(** For every well-formed map and kernel placement and EVERY number [n] of calls (beyond exhaustion
    too): every frame handed out is wholly inside available RAM and outside the kernel image, and
    each is strictly above all frames handed out before it. *)
Theorem C02_boot_alloc_sound :
  forall (m : memmap) (kstart kend : N) (n : nat),
    WFmap m -> WFkernel m kstart kend ->
    let fs := successes (snd (boot_run m (kernel_start_frame kstart) (kernel_end_frame kend) n boot_reset)) in
    Forall (good_frame m kstart kend) fs /\ StronglySorted N.lt fs.
Proof. intros m kstart kend n Hm Hk. exact (boot_alloc_sound m kstart kend Hm Hk n). Qed.
Print Assumptions C02_boot_alloc_sound.

(** After any number of calls: if no frame remains that is wholly inside available RAM, outside the
    kernel image and above every frame handed out so far, the next call reports out-of-memory
    (the model has no other outcome: a frame or out-of-memory, never a crash). *)
Theorem C02_boot_alloc_oom :
  forall (m : memmap) (kstart kend : N) (n : nat),
    WFmap m -> WFkernel m kstart kend ->
    let '(st, rs) := boot_run m (kernel_start_frame kstart) (kernel_end_frame kend) n boot_reset in
    (forall f, good_frame m kstart kend f -> Forall (fun g => g < f) (successes rs) -> False) ->
    snd (boot_alloc m (kernel_start_frame kstart) (kernel_end_frame kend) st) = None.
Proof. intros m kstart kend n Hm Hk. exact (boot_alloc_oom m kstart kend Hm Hk n). Qed.
Print Assumptions C02_boot_alloc_oom.

(** Out-of-memory is final: once a call fails every later call fails and the allocation counter
    stays what it was. *)
Theorem C02_boot_oom_sticky :
  forall (m : memmap) (kstart kend : N) (n k : nat),
    WFmap m -> WFkernel m kstart kend ->
    let ks := kernel_start_frame kstart in
    let ke := kernel_end_frame kend in
    let '(st, rs) := boot_run m ks ke n boot_reset in
    snd (boot_alloc m ks ke st) = None ->
    snd (boot_run m ks ke k (fst (boot_alloc m ks ke st))) = repeat None k /\
    b_count (fst (boot_alloc m ks ke st)) = b_count st.
Proof. intros m kstart kend n k Hm Hk. exact (boot_oom_sticky m kstart kend Hm Hk n k). Qed.
Print Assumptions C02_boot_oom_sticky.

(** Replay at hand-over: after any [n] calls the counter equals the number of frames handed out, and
    that many calls from the reset state (allocCount, lastAllocFrame := 0, 0 — what
    reserveEarlyAllocatorFrames does) return exactly those frames, in the same order, all
    successfully — also when failed scans had moved the cursor. *)
Theorem C02_boot_replay :
  forall (m : memmap) (kstart kend : N) (n : nat),
    WFmap m -> WFkernel m kstart kend ->
    let ks := kernel_start_frame kstart in
    let ke := kernel_end_frame kend in
    let '(st, rs) := boot_run m ks ke n boot_reset in
    b_count st = N.of_nat (length (successes rs)) /\
    snd (boot_run m ks ke (N.to_nat (b_count st)) boot_reset) = map Some (successes rs).
Proof. intros m kstart kend n Hm Hk. exact (boot_replay m kstart kend Hm Hk n). Qed.
Print Assumptions C02_boot_replay.

(** The kernel frames computed by BootMemAllocator.init are exactly the frames that hold a byte
    of the image. *)
Theorem C02_kernel_frames :
  forall kstart kend f,
    kstart mod 4096 = 0 -> kstart < kend -> kend + 4096 <= two64 ->
    (in_kernel kstart kend f <-> kernel_start_frame kstart <= f <= kernel_end_frame kend).
Proof. intros kstart kend f H1 H2 H3. exact (in_kernel_frames kstart kend H1 H2 H3 f). Qed.
Print Assumptions C02_kernel_frames.

(** The type rewriting of multiboot.VisitMemRegions (0 and out-of-range types become "reserved")
    never changes whether a region counts as available. *)
Theorem C02_type_normalisation :
  forall unknown t, multiboot_MemAvailable <= unknown ->
    (norm_type unknown t =? multiboot_MemAvailable) = (t =? multiboot_MemAvailable).
Proof. exact norm_type_avail. Qed.
Print Assumptions C02_type_normalisation.
