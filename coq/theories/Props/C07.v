(** C07 — kernel virtual-region reservations never overlap and never wrap.
    Statements only; every proof is [exact <lemma from Vmm/RegionProofs.v>]. *)
From Coq Require Import NArith List.
From Coq Require Import String.
From FF Require Import Lib.Word Lib.GoOps Gen.Consts_mm_vmm Gen.Trans_mm_vmm Vmm.Region Vmm.RegionProofs Vmm.RegionTrans.
Import ListNotations.
Local Open Scope N_scope.

(** For every history of reservation / region-mapping requests with any 64-bit sizes, started
    from any page-aligned cursor at or below the temporary-mapping page (the kernel starts at
    exactly that page): every successful reservation is page-aligned, a whole number of pages, at
    least as large as requested (and less than a page larger), lies below the temporary-mapping
    page, and lies entirely below every region reserved before it. *)
Theorem C07_reserve_history :
  forall (l0 : N) (ops : list op),
    WFstart l0 -> Forall WFop ops ->
    Forall region_ok (regions l0 ops) /\
    Forall (below l0) (regions l0 ops) /\
    ForallOrdPairs (fun earlier later => below (fst (fst earlier)) later) (regions l0 ops).
Proof. intros l0 ops H1 H2. exact (regions_inv ops l0 H2 H1). Qed.
Print Assumptions C07_reserve_history.

(** [regions] is what callers see: the address returned by a reservation is the region's address,
    and the cursor moves exactly to it; a failed request leaves the cursor where it was. *)
Theorem C07_reserve_result :
  forall last s, s < two64 -> last <= vmm_tempMappingAddr ->
    snd (step last (Reserve s)) =
      RReserve (match op_region last (Reserve s) with Some (a, _, _) => Some a | None => None end).
Proof. exact reserve_result. Qed.
Print Assumptions C07_reserve_result.

Theorem C07_cursor :
  forall last o, WFop o -> last <= vmm_tempMappingAddr ->
    fst (step last o) = match op_region last o with Some (a, _, _) => a | None => last end.
Proof. exact step_cursor. Qed.
Print Assumptions C07_cursor.

(** A request fails exactly when its page-rounded size (computed without wrap-around) does not
    fit below the cursor, and then reserves nothing. *)
Theorem C07_fail_iff_no_fit :
  forall last s, s < two64 -> last <= vmm_tempMappingAddr ->
    (snd (early_reserve last s) = None <-> last < ceil_pages s * 4096) /\
    (snd (early_reserve last s) = None -> fst (early_reserve last s) = last).
Proof. exact reserve_fail_iff. Qed.
Print Assumptions C07_fail_iff_no_fit.

(** Sizes within a page of 2^64 are rejected by all three entry points, nothing is mapped. *)
Theorem C07_wrap_rejected :
  forall last f s fl fail, s < two64 -> two64 <= s + 4095 ->
    early_reserve last s = (last, None) /\
    map_region last f s fl fail = (last, [], None) /\
    identity_map_region f s fl fail = ([], None).
Proof. exact region_wrap_rejected. Qed.
Print Assumptions C07_wrap_rejected.

(** MapRegion maps exactly ceil(size/4096) pages, consecutive pages to consecutive frames,
    starting at the page of the region it reserved. *)
Theorem C07_region_pages :
  forall last f s fl, s < two64 -> WFstart last ->
    match reserve_spec last s with
    | Some (a, len) =>
        map_region last f s fl None = (a, consecutive (a / 4096) f fl (ceil_pages s), Some (a / 4096))
        /\ (a / 4096) * 4096 = a /\ ceil_pages s * 4096 = len
    | None => map_region last f s fl None = (last, [], None)
    end.
Proof. exact map_region_ok. Qed.
Print Assumptions C07_region_pages.

Theorem C07_identity_pages :
  forall f s fl, s + 4095 < two64 -> f + ceil_pages s < two64 ->
    identity_map_region f s fl None = (consecutive f f fl (ceil_pages s), Some f).
Proof. exact identity_map_region_ok. Qed.
Print Assumptions C07_identity_pages.

(** If the mapping seam fails at call k, exactly k+1 calls were made. *)
Theorem C07_map_fail_stops :
  forall page frame flags count k, k < count ->
    map_loop page frame flags count (Some k) = (consecutive page frame flags (k + 1), false).
Proof. exact map_loop_fail. Qed.
Print Assumptions C07_map_fail_stops.

(** The tie to the source, by translation: the model of EarlyReserveRegion is equal to the Gallina term
    that gen/gotrans regenerates from kernel/mm/vmm/addr_space.go on every run (new cursor, returned
    address, error), for all 64-bit cursors and sizes; likewise mm.PageFromAddress / mm.FrameFromAddress. *)
Theorem C07_model_is_translation :
  forall last size, size < two64 -> last < two64 ->
    go_vmm_EarlyReserveRegion last size =
      match early_reserve last size with
      | (l', Some a) => (l', a, None)
      | (l', None) => (l', 0, Some "errEarlyReserveNoSpace"%string)
      end.
Proof. exact early_reserve_is_translation. Qed.
Print Assumptions C07_model_is_translation.

Theorem C07_page_of_addr_is_translation :
  forall a, a < two64 -> go_mm_PageFromAddress a = page_of_addr a /\ go_mm_FrameFromAddress a = page_of_addr a.
Proof. exact page_of_addr_is_translation. Qed.
Print Assumptions C07_page_of_addr_is_translation.
