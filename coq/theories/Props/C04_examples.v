(** Non-vacuity of the C04 theorems and concrete runs of the model. *)
From Coq Require Import NArith List Lia Bool.
From FF Require Import Lib.Word Gen.Consts_mm_vmm Vmm.Pt Vmm.PtArith Vmm.PtTree Vmm.PtMap Vmm.PtOps Vmm.PtTheorems Vmm.PtInit Vmm.PtPdt Vmm.PtTemp Vmm.PtHist Vmm.PtKernel Vmm.PtRegion Vmm.PtMem.
Import ListNotations.
Local Open Scope N_scope.

Definition LO : N := 0x200000000.
Definition boot : st := init_state LO 16 0 [LO + 1; LO + 2; LO + 3; 0; LO + 4].

(** the boot state of every generated case satisfies the invariant of all the per-operation theorems *)
Example C04_inv_nonvacuous : Inv boot LO LO (own_root LO).
Proof.
  apply Inv_init.
  - reflexivity.
  - unfold LO. change (2 ^ 40) with 1099511627776. lia.
  - unfold ofr, LO. cbn. repeat constructor; cbn; intuition discriminate.
  - intros f Hin Hz. unfold LO in *. cbn in Hin. intuition (subst; try lia).
Qed.

Example C04_map_ok_nonvacuous :
  Inv boot LO LO (own_root LO) /\ hw_idx 0x1234 0 <> 511 /\ zero_guard boot 0x777 3 = false.
Proof. split; [exact C04_inv_nonvacuous|]. split; [vm_compute; discriminate | reflexivity]. Qed.

(** Map(0x1234, 0x777, P|RW) on the boot state takes three frames for the new tables, writes 0x777003 *)
Example C04_map_run :
  match map_page 0x1234 0x777 3 boot with
  | Ok (s', err) => err = 0 /\ aspace s' LO 0x1234 = Some 0x777003 /\ orc s' = [0; LO + 4] /\ flog s' = [0x1234000] /\
                    translation s' LO 0x1234 = Some (0x777, 3) /\ translation s' LO 0x1235 = None /\
                    translate 0x1234abc s' = Ok (0, 0x777abc)
  | Stray => False
  end.
Proof. vm_compute. repeat split; reflexivity. Qed.

(** allocator failure at the 4th call: a second Map that needs a new table fails and changes nothing *)
Example C04_alloc_failure_run :
  match map_page 0x1234 0x777 3 boot with
  | Ok (s1, _) =>
      match map_page 0x40000000 0x888 3 s1 with
      | Ok (s2, err) => err = E_ALLOC /\ translation s2 LO 0x40000000 = None /\ translation s2 LO 0x1234 = Some (0x777, 3)
      | Stray => False
      end
  | Stray => False
  end.
Proof. vm_compute. repeat split; reflexivity. Qed.

(** outside the domain: a frame with bits above 2^40 spills into the flag bits (SetFrame ors it in) *)
Example C04_frame_domain_needed :
  hw_frame (set_flags (set_frame 0 (2 ^ 40 + 5)) 3) = 5 /\ N.testbit (set_flags (set_frame 0 (2 ^ 40 + 5)) 3) 52 = true.
Proof. vm_compute. split; reflexivity. Qed.

Example C04_recursive_entry_nonvacuous :
  N.shiftr (cr3 boot) 12 = LO /\ Rec boot LO LO /\ follow boot LO (firstn 0 (ixs (N.shiftr 0x1234000 12))) = Some LO /\
  resolve boot (walk_entry_addr 0x1234000 0) = Some (LO, 0).
Proof.
  split; [reflexivity|]. split; [exact (inv_rec _ _ _ _ C04_inv_nonvacuous)|]. split; [reflexivity|].
  vm_compute. reflexivity.
Qed.

(** an inactive address space exists: PageDirectoryTable.Init of frame LO+15 on the boot state *)
Example C04_inv2_nonvacuous :
  exists s' own1, pdt_init 0 (LO + 15) boot = Ok (s', 0) /\ Inv2 s' LO (LO + 15) own1 (own_root (LO + 15)) /\ pdts s' 0 = LO + 15.
Proof.
  destruct (pdt_init_spec boot LO (own_root LO) 0 (LO + 15) C04_inv_nonvacuous) as
      (s' & err & own1 & Hrun & _ & Hp & _ & _ & _ & _ & _ & _ & _ & _ & _ & Hok & _ & _ & _).
  - reflexivity.
  - reflexivity.
  - reflexivity.
  - unfold LO. cbn. intuition discriminate.
  - assert (E: match pdt_init 0 (LO + 15) boot with Ok (_, e) => e | Stray => 1 end = 0) by (vm_compute; reflexivity).
    rewrite Hrun in E. subst err. destruct (Hok eq_refl) as (HI2 & _).
    exists s', own1. split; [exact Hrun|]. split; assumption.
Qed.

(** ... and PageDirectoryTable.Map on it leaves the active root bit-for-bit unchanged *)
Definition boot2 : st := init_state LO 16 0 [LO + 1; LO + 2; LO + 3; LO + 4; LO + 5; LO + 6; LO + 7].

Example C04_pdt_inactive_run :
  match pdt_init 0 (LO + 15) boot2 with
  | Ok (s1, _) =>
      match pdt_map 0 0x1234 0x777 3 s1 with
      | Ok (s2, err) => err = 0 /\ translation s2 (LO + 15) 0x1234 = Some (0x777, 3) /\ translation s2 LO 0x1234 = None /\
                        ent s2 LO 511 = ent boot2 LO 511 /\ length (flog s2) = 5%nat
      | Stray => False
      end
  | Stray => False
  end.
Proof. vm_compute. repeat split; reflexivity. Qed.

(** the boot state refines the empty abstract map: hypotheses of histories and of the region theorems *)
Example C04_hst_nonvacuous : Hst boot2 LO (own_root LO) (fun _ => None) /\ Forall hdom [HMap 0x1234 0x777 3; HTranslate 0x1234abc; HUnmap 0x1234].
Proof.
  split.
  - split.
    + apply Inv_init.
      * reflexivity.
      * unfold LO. change (2 ^ 40) with 1099511627776. lia.
      * unfold ofr, LO. cbn. repeat constructor; cbn; intuition discriminate.
      * intros f Hin Hz. unfold LO in *. cbn in Hin. intuition (subst; try lia).
    + reflexivity.
    + intros q Hq. unfold translation.
      assert (Hz: forall i, i <> 511 -> ent boot2 LO i = 0).
      { intros i Hi. unfold boot2, init_state, ent. cbn [mem]. rewrite rd_wr, rd_zero, N.eqb_refl.
        destruct (N.eqb_spec i 511); [congruence | reflexivity]. }
      rewrite (empty_space boot2 LO Hz q Hq). reflexivity.
  - repeat constructor; cbn; try (vm_compute; discriminate); try reflexivity; change (2 ^ 40) with 1099511627776; lia.
Qed.

Example C04_history_run :
  match hrun [HMap 0x1234 0x777 3; HTranslate 0x1234abc; HUnmap 0x1234; HTranslate 0x1234abc; HMap 0x40000000 5 1] boot2 with
  | Ok (_, rs) => rs = [(0, 0); (0, 0x777abc); (0, 0); (E_INVALID, 0); (0, 0)]
  | Stray => False
  end.
Proof. vm_compute. reflexivity. Qed.

Example C04_region_run :
  match Pt.map_region 0x5000 8192 3 boot2 with
  | Ok (s', err, page) => err = 0 /\ page = 0xffffff7fffffd /\ last s' = vmm_tempMappingAddr - 8192 /\
                          translation s' LO 0xffffff7fffffd = Some (0x5000, 3) /\ translation s' LO 0xffffff7fffffe = Some (0x5001, 3)
  | Stray => False
  end.
Proof. vm_compute. repeat split; reflexivity. Qed.

(** * [C04_histories_full] / [C06_zero_frame_inv_boot]: a safe adaptive history from boot, and its run *)
From FF Require Import Vmm.Region Vmm.RegionProofs Vmm.PtFault Vmm.PtCow Vmm.PtZero Vmm.PtGlobal Vmm.PtHist2.

Definition xlo : N := 0x1000.
Definition xcnt : N := 0x100.
Definition xoracle : list N := map (fun k => xlo + k) [1; 2; 3; 4; 5; 6; 7; 8; 9; 10; 11; 12].
Definition xfree : list N := [0x1020].
Definition xboot : ast := a_boot xlo vmm_tempMappingAddr xfree xoracle.

(* reserve the zero frame; map it read-only; ask for it writable (refused); make a second address space,
   map the zero frame read-only there too, and switch to it *)
Definition xh : hist :=
  HOp QArm (fun r1 => if fst r1 =? 0 then
    HOp (QMap 0x5000 (snd r1) 1) (fun _ =>
    HOp (QMap 0x5001 (snd r1) P_RW) (fun _ =>
    HOp (QPdtInit 0 0x1020) (fun r4 => if fst r4 =? 0 then
      HOp (QPdtMap 0 0x5002 (snd r1) 1) (fun _ =>
      HOp (QActivate 0) (fun _ => HOp (QTranslate 0x5002000) (fun _ => HDone)))
    else HDone)))
  else HDone).

Lemma xpool_lt F : In F xoracle -> F < 2 ^ 40 /\ F <> 0x1020 /\ F <> 0.
Proof. intros H. unfold xoracle, xlo in H. cbn in H. repeat (destruct H as [<-|H]; [repeat split; try discriminate; reflexivity|]). contradiction. Qed.

Example C04_full_nonvacuous_safe : hsafe (fun o a => qdom o a /\ qavoid o a) xh xboot.
Proof.
  cbn [hsafe xh]. split; [split; [reflexivity | exact I]|].
  intros r1 a1 HA1. rewrite astep_arm in HA1.
  destruct HA1 as [(-> & ->) | (F & HF0 & HFp & _ & [(-> & ->) | (-> & ->)])]; cbn [fst snd N.eqb]; try exact I.
  change (apool xboot) with xoracle in HFp. destruct (xpool_lt F HFp) as (HF40 & HFne & _).
  assert (Hg1: forall a, aguard a F 1 = false) by (intros; unfold aguard; change (wants_rw 1) with false; apply andb_false_r).
  assert (Hpg: forall p, In p [0x5000; 0x5001; 0x5002] -> page_ok p F 1 /\ page_ok p F P_RW).
  { intros p Hp. cbn in Hp. repeat (destruct Hp as [<-|Hp]; [repeat split; try exact HF40; try discriminate; reflexivity|]). contradiction. }
  (* Map 0x5000 F read-only *)
  cbn [hsafe]. split.
  { split; [exact (proj1 (Hpg 0x5000 ltac:(cbn; tauto)))|]. change (~ In F (remove N.eq_dec F xoracle)). apply remove_In. }
  intros r2 a2 HA2. rewrite astep_map in HA2. apply amap_act_cases in HA2.
  destruct HA2 as [(Hg & _) | (_ & HA2)]; [rewrite Hg1 in Hg; discriminate|].
  assert (K2: aprot a2 = true /\ azf a2 = F /\ apool a2 = remove N.eq_dec F xoracle /\ afree a2 = [F; 0x1020] /\ aact a2 = xlo /\ aslot a2 0 = None /\ aroots a2 = [xlo]).
  { destruct HA2 as [(_ & ->) | (_ & ->)]; repeat split. }
  clear HA2. destruct K2 as (P2 & Z2 & O2 & F2 & A2 & S2 & R2).
  (* Map 0x5001 F writable: refused *)
  split.
  { split; [exact (proj2 (Hpg 0x5001 ltac:(cbn; tauto)))|]. cbn [qavoid]. rewrite O2. apply remove_In. }
  intros r3 a3 HA3. rewrite astep_map in HA3. apply amap_act_cases in HA3.
  assert (Hg3: aguard a2 F P_RW = true) by (unfold aguard; rewrite P2, Z2, N.eqb_refl; reflexivity).
  destruct HA3 as [(_ & -> & ->) | (Hg & _)]; [|rewrite Hg3 in Hg; discriminate].
  (* Init of the free frame 0x1020 *)
  split.
  { split; [|exact I]. cbn [qdom]. split; [reflexivity|]. split; [rewrite F2; right; left; reflexivity|].
    unfold aguard. rewrite Z2. destruct (N.eqb_spec 0x1020 F) as [E|_]; [exfalso; exact (HFne (eq_sym E))|]. rewrite andb_false_r. reflexivity. }
  intros r4 a4 HA4. rewrite astep_init in HA4. destruct HA4 as [(-> & ->) | (-> & ->)]; cbn [fst N.eqb]; [|exact I].
  (* Map 0x5002 F read-only in the new, inactive address space *)
  set (a4 := a_init a2 0 0x1020).
  assert (S4: aslot a4 0 = Some 0x1020) by reflexivity.
  cbn [hsafe]. split.
  { split; [cbn [qdom]; rewrite S4; split; [reflexivity|]; split; [discriminate | exact (proj1 (Hpg 0x5002 ltac:(cbn; tauto)))]|].
    change (~ In F (apool a2)). rewrite O2. apply remove_In. }
  intros r5 a5 HA5. rewrite (astep_pdt_map 0 0x1020 _ _ _ _ _ _ S4) in HA5.
  apply amap_inact_cases in HA5; [|change (aact a4) with (aact a2); rewrite A2; discriminate]. rewrite Hg1 in HA5.
  assert (S5: aslot a5 0 = Some 0x1020).
  { destruct HA5 as [(_ & _ & ->) | [(_ & _ & ->) | (_ & E & _)]]; [reflexivity | reflexivity | discriminate]. }
  clear HA5.
  (* Activate it, translate *)
  split.
  { split; [|exact I]. cbn [qdom]. rewrite S5. split; [reflexivity | discriminate]. }
  intros r6 a6 HA6. rewrite (astep_activate 0 0x1020 _ _ _ S5) in HA6. destruct HA6 as (-> & ->).
  split; [|intros; exact I].
  split; [|exact I]. cbn [qdom]. vm_compute. discriminate.
Qed.

(* so the model runs this history from the boot state without a stray access, the abstract machine follows it, and at
   the end either the guard is not armed or the zero frame is all zeroes and mapped writable nowhere *)
Example C04_full_nonvacuous_run :
  exists rs s' a' g',
    run_hist xh (init_state xlo xcnt 0 xoracle) = Ok (rs, s') /\
    Steps xh (init_state xlo xcnt 0 xoracle) xboot rs s' a' /\ Rel s' a' g' /\
    (prot s' = true ->
       (forall i, ent s' (zf s') i = 0) /\
       (forall R q fl, In R (aroots a') -> hw_idx q 0 <> 511 -> translation s' R q = Some (zf s', fl) -> N.testbit fl 1 = false)).
Proof.
  apply (boot_histories_zero xlo xcnt 0 xoracle xfree xoracle).
  - reflexivity.
  - vm_compute. discriminate.
  - unfold xoracle. vm_compute. repeat constructor; cbn; intuition discriminate.
  - intros f Hf _. unfold xoracle, xlo, xcnt in *. cbn in Hf. repeat (destruct Hf as [<-|Hf]; [split; reflexivity|]). contradiction.
  - intros F [<-|[]]. split; [reflexivity|]. split; [reflexivity|]. unfold xoracle, xlo. cbn. intuition discriminate.
  - split; [reflexivity | apply N.le_refl].
  - apply incl_refl.
  - exact C04_full_nonvacuous_safe.
Qed.

(* the answers the model actually gives: everything succeeds except the writable mapping of the zero frame *)
Example C04_full_nonvacuous_answers :
  match run_hist xh (init_state xlo xcnt 0 xoracle) with
  | Ok (rs, s') => map (fun x => fst (snd x)) rs = [0; 0; E_ZERO_RW; 0; 0; 0; 0] /\ prot s' = true /\ zf s' = 0x1001
  | Stray => False
  end.
Proof. vm_compute. repeat split. Qed.

