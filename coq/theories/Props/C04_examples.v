(** Non-vacuity of the C04 theorems and concrete runs of the model. *)
From Coq Require Import NArith List Lia Bool.
From FF Require Import Lib.Word Gen.Consts_mm_vmm Vmm.Pt Vmm.PtArith Vmm.PtTree Vmm.PtMap Vmm.PtOps Vmm.PtTheorems Vmm.PtInit Vmm.PtPdt Vmm.PtTemp Vmm.PtHist Vmm.PtKernel Vmm.PtRegion Vmm.PtMem.
Import ListNotations.
Local Open Scope N_scope.

Definition LO : N := 0x200000000.
Definition boot : st := init_state LO 16 0 [LO + 1; LO + 2; LO + 3; 0; LO + 4].

(** the boot state of every generated case satisfies the invariant of all the per-operation theorems *)
Example C04_inv_nonvacuous : Inv boot LO LO (own_root LO).
Proof.
  apply Inv_init.
  - reflexivity.
  - unfold LO. change (2 ^ 40) with 1099511627776. lia.
  - unfold ofr, LO. cbn. repeat constructor; cbn; intuition discriminate.
  - intros f Hin Hz. unfold LO in *. cbn in Hin. intuition (subst; try lia).
Qed.

Example C04_map_ok_nonvacuous :
  Inv boot LO LO (own_root LO) /\ hw_idx 0x1234 0 <> 511 /\ zero_guard boot 0x777 3 = false.
Proof. split; [exact C04_inv_nonvacuous|]. split; [vm_compute; discriminate | reflexivity]. Qed.

(** Map(0x1234, 0x777, P|RW) on the boot state takes three frames for the new tables, writes 0x777003 *)
Example C04_map_run :
  match map_page 0x1234 0x777 3 boot with
  | Ok (s', err) => err = 0 /\ aspace s' LO 0x1234 = Some 0x777003 /\ orc s' = [0; LO + 4] /\ flog s' = [0x1234000] /\
                    translation s' LO 0x1234 = Some (0x777, 3) /\ translation s' LO 0x1235 = None /\
                    translate 0x1234abc s' = Ok (0, 0x777abc)
  | Stray => False
  end.
Proof. vm_compute. repeat split; reflexivity. Qed.

(** allocator failure at the 4th call: a second Map that needs a new table fails and changes nothing *)
Example C04_alloc_failure_run :
  match map_page 0x1234 0x777 3 boot with
  | Ok (s1, _) =>
      match map_page 0x40000000 0x888 3 s1 with
      | Ok (s2, err) => err = E_ALLOC /\ translation s2 LO 0x40000000 = None /\ translation s2 LO 0x1234 = Some (0x777, 3)
      | Stray => False
      end
  | Stray => False
  end.
Proof. vm_compute. repeat split; reflexivity. Qed.

(** outside the domain: a frame with bits above 2^40 spills into the flag bits (SetFrame ors it in) *)
Example C04_frame_domain_needed :
  hw_frame (set_flags (set_frame 0 (2 ^ 40 + 5)) 3) = 5 /\ N.testbit (set_flags (set_frame 0 (2 ^ 40 + 5)) 3) 52 = true.
Proof. vm_compute. split; reflexivity. Qed.

Example C04_recursive_entry_nonvacuous :
  N.shiftr (cr3 boot) 12 = LO /\ Rec boot LO LO /\ follow boot LO (firstn 0 (ixs (N.shiftr 0x1234000 12))) = Some LO /\
  resolve boot (walk_entry_addr 0x1234000 0) = Some (LO, 0).
Proof.
  split; [reflexivity|]. split; [exact (inv_rec _ _ _ _ C04_inv_nonvacuous)|]. split; [reflexivity|].
  vm_compute. reflexivity.
Qed.

(** an inactive address space exists: PageDirectoryTable.Init of frame LO+15 on the boot state *)
Example C04_inv2_nonvacuous :
  exists s' own1, pdt_init 0 (LO + 15) boot = Ok (s', 0) /\ Inv2 s' LO (LO + 15) own1 (own_root (LO + 15)) /\ pdts s' 0 = LO + 15.
Proof.
  destruct (pdt_init_spec boot LO (own_root LO) 0 (LO + 15) C04_inv_nonvacuous) as
      (s' & err & own1 & Hrun & _ & Hp & _ & _ & _ & _ & _ & _ & _ & _ & _ & Hok & _ & _ & _).
  - reflexivity.
  - reflexivity.
  - reflexivity.
  - unfold LO. cbn. intuition discriminate.
  - assert (E: match pdt_init 0 (LO + 15) boot with Ok (_, e) => e | Stray => 1 end = 0) by (vm_compute; reflexivity).
    rewrite Hrun in E. subst err. destruct (Hok eq_refl) as (HI2 & _).
    exists s', own1. split; [exact Hrun|]. split; assumption.
Qed.

(** ... and PageDirectoryTable.Map on it leaves the active root bit-for-bit unchanged *)
Definition boot2 : st := init_state LO 16 0 [LO + 1; LO + 2; LO + 3; LO + 4; LO + 5; LO + 6; LO + 7].

Example C04_pdt_inactive_run :
  match pdt_init 0 (LO + 15) boot2 with
  | Ok (s1, _) =>
      match pdt_map 0 0x1234 0x777 3 s1 with
      | Ok (s2, err) => err = 0 /\ translation s2 (LO + 15) 0x1234 = Some (0x777, 3) /\ translation s2 LO 0x1234 = None /\
                        ent s2 LO 511 = ent boot2 LO 511 /\ length (flog s2) = 5%nat
      | Stray => False
      end
  | Stray => False
  end.
Proof. vm_compute. repeat split; reflexivity. Qed.

(** the boot state refines the empty abstract map: hypotheses of histories and of the region theorems *)
Example C04_hst_nonvacuous : Hst boot2 LO (own_root LO) (fun _ => None) /\ Forall hdom [HMap 0x1234 0x777 3; HTranslate 0x1234abc; HUnmap 0x1234].
Proof.
  split.
  - split.
    + apply Inv_init.
      * reflexivity.
      * unfold LO. change (2 ^ 40) with 1099511627776. lia.
      * unfold ofr, LO. cbn. repeat constructor; cbn; intuition discriminate.
      * intros f Hin Hz. unfold LO in *. cbn in Hin. intuition (subst; try lia).
    + reflexivity.
    + intros q Hq. unfold translation.
      assert (Hz: forall i, i <> 511 -> ent boot2 LO i = 0).
      { intros i Hi. unfold boot2, init_state, ent. cbn [mem]. rewrite rd_wr, rd_zero, N.eqb_refl.
        destruct (N.eqb_spec i 511); [congruence | reflexivity]. }
      rewrite (empty_space boot2 LO Hz q Hq). reflexivity.
  - repeat constructor; cbn; try (vm_compute; discriminate); try reflexivity; change (2 ^ 40) with 1099511627776; lia.
Qed.

Example C04_history_run :
  match hrun [HMap 0x1234 0x777 3; HTranslate 0x1234abc; HUnmap 0x1234; HTranslate 0x1234abc; HMap 0x40000000 5 1] boot2 with
  | Ok (_, rs) => rs = [(0, 0); (0, 0x777abc); (0, 0); (E_INVALID, 0); (0, 0)]
  | Stray => False
  end.
Proof. vm_compute. reflexivity. Qed.

Example C04_region_run :
  match Pt.map_region 0x5000 8192 3 boot2 with
  | Ok (s', err, page) => err = 0 /\ page = 0xffffff7fffffd /\ last s' = vmm_tempMappingAddr - 8192 /\
                          translation s' LO 0xffffff7fffffd = Some (0x5000, 3) /\ translation s' LO 0xffffff7fffffe = Some (0x5001, 3)
  | Stray => False
  end.
Proof. vm_compute. repeat split; reflexivity. Qed.
