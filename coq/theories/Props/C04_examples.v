From Coq Require Import NArith List.
From FF Require Import Lib.Word Gen.Consts_mm_vmm Vmm.Pt Vmm.PtProofs.
Import ListNotations.
Local Open Scope N_scope.
