(** C18 — an active terminal and its console always show the same thing.
    Statements only; every proof is [exact <lemma from Tty/VtConsProofs.v>].

    The terminal is the model of vt.go (Tty/Vt.v, the one C17 is about); the console is the
    cell-level console of Console/Grid.v ([g_write], [g_fill], [g_scroll] — the semantics C19
    states of the drivers).  [calls_rel g cs g'] : [g'] is a console content the calls [cs] can
    produce from [g], for ANY junk a driver leaves in the lines vacated by a scroll.
    [shows g v] : same dimensions and, in every cell of the grid, the console cell equals the
    terminal's viewport cell (character and both colours). *)
From Coq Require Import NArith List.
From FF Require Import Lib.Word Gen.Consts_device_tty Console.Grid
     Tty.Vt Tty.VtSpec Tty.VtProofs Tty.VtCons Tty.VtConsProofs.
Import ListNotations.
Local Open Scope N_scope.

(** For every geometry (as in C17), every history of Write / WriteByte / SetCursorPosition /
    SetState calls after NewVT + AttachTo — i.e. every byte stream and every interleaving of
    activations and deactivations with writes — and every initial console content [g0]: whatever
    content [g] the console can have after the calls the terminal made, if the terminal is active
    then the console shows exactly the terminal's viewport.  (Every prefix of a history is a
    history: this is "after every write".) *)
Theorem C18_sync_inv :
  forall w h sb tab fg bg (ops : list op) (g0 : cgrid),
    1 <= w -> 1 <= h -> tab <= 255 -> w * (h + sb) * 3 < two32 -> Forall op_wf ops ->
    gw g0 = w -> gh g0 = h ->
    exists v0 v, attach (new_vt tab sb) w h fg bg = Ok v0 /\ run_ops v0 ops = Ok v /\
      forall g, calls_rel g0 (rev (trace v)) g -> st v = tty_StateActive -> shows g v.
Proof. exact sync_inv_thm. Qed.
Print Assumptions C18_sync_inv.

(** While the terminal is inactive the console is not touched at all: from any reachable state
    [v1] that is not active, any further history [ops2] that does not activate the terminal
    makes no console call (the trace does not grow) and leaves the terminal inactive. *)
Theorem C18_inactive_silent :
  forall w h sb tab fg bg (ops1 ops2 : list op),
    1 <= w -> 1 <= h -> tab <= 255 -> w * (h + sb) * 3 < two32 ->
    Forall op_wf ops1 -> Forall op_wf ops2 ->
    (forall s', In (OSetState s') ops2 -> s' <> tty_StateActive) ->
    exists v0 v1 v2, attach (new_vt tab sb) w h fg bg = Ok v0 /\
      run_ops v0 ops1 = Ok v1 /\ run_ops v1 ops2 = Ok v2 /\
      (st v1 <> tty_StateActive -> trace v2 = trace v1 /\ st v2 <> tty_StateActive).
Proof. exact inactive_silent_thm. Qed.
Print Assumptions C18_inactive_silent.

(** Activation redraws: after any history that leaves the terminal inactive, SetState(Active)
    succeeds and the calls it makes turn ANY console content [g] of the right size — whatever
    was written while the terminal was inactive, whatever the console showed — into exactly the
    terminal's viewport. *)
Theorem C18_activate_redraws :
  forall w h sb tab fg bg (ops : list op),
    1 <= w -> 1 <= h -> tab <= 255 -> w * (h + sb) * 3 < two32 -> Forall op_wf ops ->
    exists v0 v, attach (new_vt tab sb) w h fg bg = Ok v0 /\ run_ops v0 ops = Ok v /\
      (st v <> tty_StateActive ->
       exists v' calls, set_state v tty_StateActive = Ok v' /\ st v' = tty_StateActive /\
         trace v' = rev calls ++ trace v /\
         forall g g' : cgrid, gw g = w -> gh g = h -> calls_rel g calls g' -> shows g' v').
Proof. exact activate_redraws_thm. Qed.
Print Assumptions C18_activate_redraws.

(** Nothing is drawn outside the grid: every console call the terminal ever makes addresses an
    area that lies inside the [w] x [h] grid without any clamping or clipping — Write at an
    in-grid cell, Fill of a rectangle inside the grid, Scroll up by at most [h] lines. *)
Theorem C18_in_grid :
  forall w h sb tab fg bg (ops : list op),
    1 <= w -> 1 <= h -> tab <= 255 -> w * (h + sb) * 3 < two32 -> Forall op_wf ops ->
    exists v0 v, attach (new_vt tab sb) w h fg bg = Ok v0 /\ run_ops v0 ops = Ok v /\
      Forall (call_in_grid w h) (trace v).
Proof. exact in_grid_thm. Qed.
Print Assumptions C18_in_grid.

(** The composition run by the correspondence driver ([apply_calls], junk = old content) is one
    of the console behaviours the theorems above quantify over. *)
Theorem C18_driver_instance :
  forall (cs : list ccall) (g : cgrid), calls_rel g cs (apply_calls g cs).
Proof. exact apply_calls_rel. Qed.
Print Assumptions C18_driver_instance.
