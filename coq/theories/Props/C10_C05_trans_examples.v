(** Non-vacuity of the composed C10 + C05 statement on the block of Props/C10_examples.v (sections: an empty one,
    .shstrtab of 17 bytes, .text of two pages with flags 0x10000000006) and the boot state of Props/C05_trans_examples.v
    (arena of 64 frames from 0x100), kernel offset 0. *)
From Coq Require Import String NArith List Bool Lia.
From FF Require Import Lib.Word Lib.GoOps Gen.Consts_multiboot Gen.Trans_multiboot Multiboot.Model Multiboot.Spec
  Multiboot.DecodeTrans Props.C10_examples Props.C10_C05_trans.
From FF Require Vmm.PtMem.
Import ListNotations.
Local Open Scope N_scope.

Definition ex_state : VP.st := VP.init_state 0x100 64 0 [0x101; 0x102; 0x103; 0x104; 0x105; 0x106; 0x107; 0x108; 0x109; 0x10a; 0x10b; 0x10c].

Example C10_C05_block_secs_example :
  TC5.block_secs ex_mb = [(0, 0, 0); (0, ex_saddr, 17); (6, 0x100000, 0x2000)] /\
  K.nonempty (TC5.block_secs ex_mb) = [(0, ex_saddr, 17); (6, 0x100000, 0x2000)].
Proof. vm_compute. auto. Qed.

Example C10_C05_setupPDT_through_visitElfSections_nonvacuous :
  exists tr : list gcall,
    go_multiboot_VisitElfSections mld (N.to_nat 65536) (mkw [] (mem_of ex_layout (encode ex_mb))) (l_info ex_layout) =
      GOk (mkw tr (mem_of ex_layout (encode ex_mb)), tt) /\
    TC5.delivered tr = [(0, ex_saddr, 17); (6, 0x100000, 0x2000)] /\
    match Trans_vmm_kernel.go_vmm_setupPDTForKernel 8 (Trans_vmm_kernel.mk_go_vmm_world [] ex_state) 0
            K.o_kactivate K.o_kinit K.o_kmap MT.o_alloc K.o_translate (TC5.delivered tr) with
    | GOk (w, e) => GOk (Trans_vmm_kernel.f_world_mem w, e)
    | GPanic => GPanic
    | GFuel => GFuel
    end =
    match VP.setup_kernel 0 (TC5.block_secs ex_mb) ex_state with
    | VP.Stray => GPanic
    | VP.Ok (s', e) => GOk (s', PT.err_of e)
    end.
Proof.
  destruct (C10_C05_setupPDT_through_visitElfSections ex_layout ex_mb (N.to_nat 65536) 0 ex_state [] 8
              C10_mbinfo_wf_nonvacuous C10_layout_wf_nonvacuous) as [tr [H1 [H2 [H3 H4]]]].
  - apply PeanoNat.Nat.leb_le. vm_compute. reflexivity.
  - apply PeanoNat.Nat.leb_le. vm_compute. reflexivity.
  - rewrite N2Nat.id. discriminate.
  - reflexivity.
  - reflexivity.
  - assert (En : K.nonempty (TC5.block_secs ex_mb) = [(0, ex_saddr, 17); (6, 0x100000, 0x2000)]) by (vm_compute; reflexivity).
    unfold K.fuel_ok, K.mapped. rewrite En. cbn [filter N.ltb N.compare negb]. split.
    + repeat constructor; cbv [K.sec_fuel];
        match goal with |- (N.to_nat ?x < _)%nat => let v := eval vm_compute in x in replace x with v by (vm_compute; reflexivity) end; lia.
    + match goal with |- (N.to_nat ?x < _)%nat => let v := eval vm_compute in x in replace x with v by (vm_compute; reflexivity) end; lia.
  - exists tr. split; [exact H1|]. split; [rewrite H2; vm_compute; reflexivity|].
    rewrite H3, <- H4. destruct (K.setup_kernel_tr 0 (TC5.block_secs ex_mb) ex_state []) as [[[s' e] tr']|]; reflexivity.
Qed.
