(** C09 - the task programs of [C09_concurrent_frames_exclusive] (Sync/AllocTasks.v: Acquire; one shared
    step [Pmm.Bitmap.step]; Release; return) are the TRANSLATION of the real AllocFrame / FreeFrame, not only
    a skeleton: for the functions regenerated on every run from kernel/mm/pmm/bitmap_allocator.go
    (Gen/Trans_pmm_bitmap.v), on every run that does not panic the mutex events are exactly one Acquire
    followed, last, by one Release (the trace lists the most recent call first), the allocator state goes from
    [a] to [fst (step a o)] and the caller receives [snd (step a o)]; a run that panics (index out of
    range, [RFree FreePanic], which ends the history in the model) is GPanic.  The side conditions
    [S.alloc_sizes] (int-sized slices; fuel above the number of pools, the bitmap lengths and 64) are kept
    by every operation, so this holds along whole histories.  Proofs: Sync/AllocTasksTrans.v on top of
    Props/C03_trans.v. *)
From Coq Require Import NArith String List.
From FF Require Import Lib.GoOps Gen.Consts_mm_pmm Gen.Trans_pmm_bitmap Pmm.Bitmap.
From FF Require Pmm.BitmapTrans Sync.AllocTasksTrans.
Module B := FF.Pmm.BitmapTrans.
Module S := FF.Sync.AllocTasksTrans.
Import ListNotations.
Local Open Scope N_scope.

Theorem C09_alloc_task_is_translation :
  forall (mtx : bool) (a : balloc) (tr : list gevent) (o : op) (fuel : nat),
    S.alloc_sizes a fuel ->
    match o with
    | OpAlloc => go_pmm_BitmapAllocator_AllocFrame fuel (B.to_ga mtx a tr)
    | OpFree f =>
        match go_pmm_BitmapAllocator_FreeFrame fuel (B.to_ga mtx a tr) f with
        | GOk (g', e) => GOk (g', (0, e))
        | GPanic => GPanic
        | GFuel => GFuel
        end
    end =
    match snd (step a o) with
    | RFree FreePanic => GPanic
    | r =>
        GOk (B.to_ga mtx (fst (step a o)) (GEv "Release" [] :: GEv "Acquire" [] :: tr),
             match r with
             | RAlloc (Some f) => (f, None)
             | RAlloc None => (mm_InvalidFrame, Some "errBitmapAllocOutOfMemory"%string)
             | RFree FreeNotManaged => (0, Some "errBitmapAllocFrameNotManaged"%string)
             | RFree FreeDoubleFree => (0, Some "errBitmapAllocDoubleFree"%string)
             | RFree _ => (0, None)
             end)
    end.
Proof. exact S.call_is_task_step_explicit. Qed.
Print Assumptions C09_alloc_task_is_translation.

Theorem C09_alloc_task_sizes_kept :
  forall (a : balloc) (o : op) (fuel : nat), S.alloc_sizes a fuel -> S.alloc_sizes (fst (step a o)) fuel.
Proof. exact S.step_keeps_sizes. Qed.
Print Assumptions C09_alloc_task_sizes_kept.
