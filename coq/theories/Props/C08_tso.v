(** C08 under x86-TSO — "tasks running truly in parallel on all cores", "work done inside the lock by
    one holder is visible to the next holder".
    Statements only; proofs are in Sync/TsoProofs.v.

    Machine: Sync/Tso.v — the instruction list regenerated from spinlock_amd64.s and the Go wrappers
    (Gen/SpinAsm.v, [C08_gen_matches]) run by any number of tasks, each with a FIFO store buffer:
    plain stores are buffered and reach memory at scheduler-chosen [TFlush] steps, a plain load sees
    the task's own newest buffered store else memory (the dirty read of the lock word returns an
    arbitrary value), XCHG / atomic.SwapUint32 execute only on an empty buffer and act on memory.
    [lr = true]: Release is the locked store atomic.StoreUint32 compiles to on amd64 (XCHG);
    [lr = false]: Release is a plain buffered MOVL (every run of the former is a run of the latter up
    to flush steps).  All theorems hold for both. *)
From Coq Require Import NArith List.
From FF Require Import Lib.Word Sync.Instr Gen.SpinAsm Sync.Machine Sync.MachineProofs Sync.Tso Sync.TsoProofs.
Import ListNotations.
Local Open Scope N_scope.

(** Mutual exclusion: for any number of tasks [n], yieldFn set or nil, either flavour of Release and
    every schedule of program steps and store-buffer flushes: at most one task is in its critical
    section, no task makes a stray access, and the lock word in memory is 1 exactly while some task owns
    the lock — is in its critical section, is past the successful exchange, or has released but its
    store of 0 has not reached memory yet. *)
Theorem C08_tso_mutex :
  forall n y lr s, TReachable n y lr s ->
    (tholders s <= 1)%nat /\ existsb (fun p => is_faulted (fst p)) (tthreads s) = false /\
    m_lock s = N.of_nat (count_own (tthreads s)) /\ (count_own (tthreads s) <= 1)%nat.
Proof. exact tso_mutex. Qed.
Print Assumptions C08_tso_mutex.

(** Visibility: in every reachable state, whatever is still sitting in anybody's store buffer, the task
    in its critical section reads the protected counter ([view]: own buffer, else memory) as the number
    of increments completed by ALL holders so far, and between its read and its write the value it
    holds is that number: the previous holder's work is visible to the next holder. *)
Theorem C08_tso_visibility :
  forall n y lr s tid t buf, TReachable n y lr s ->
    nth_error (tthreads s) tid = Some (t, buf) -> is_holding t = true ->
    view buf (m_counter s) = t_ndone s /\ match t with Holding (Some v) => v = t_ndone s | _ => True end.
Proof. exact tso_visibility. Qed.
Print Assumptions C08_tso_visibility.

(** No lost update: when all tasks are idle and all buffers drained, memory holds exactly the number
    of completed increments and the lock word is 0. *)
Theorem C08_tso_quiescent :
  forall n y lr s, TReachable n y lr s -> quiescent s -> m_counter s = t_ndone s /\ m_lock s = 0.
Proof. exact tso_quiescent. Qed.
Print Assumptions C08_tso_quiescent.

(** TryToAcquire: returns true exactly when the lock word in memory was 0 — the caller then is in its
    critical section, the word is 1, nothing else changed; when it returns false (somebody owns the
    lock, possibly with the releasing store still buffered) the whole state is unchanged. *)
Theorem C08_tso_try_exact :
  forall n y lr s tid, TReachable n y lr s -> nth_error (tthreads s) tid = Some (Idle, []) ->
    exists s', tstep gen_cfg y lr s (tid, TOp CTry) = Some (s', Some (m_lock s =? 0)) /\
      ((m_lock s = 0 /\ m_lock s' = 1 /\ nth_error (tthreads s') tid = Some (Holding None, []) /\
        (forall j, j <> tid -> nth_error (tthreads s') j = nth_error (tthreads s) j) /\
        m_counter s' = m_counter s /\ t_ndone s' = t_ndone s)
       \/ (m_lock s = 1 /\ s' = s)).
Proof. exact tso_try_exact. Qed.
Print Assumptions C08_tso_try_exact.

(** After a release the lock can be taken again: the releasing store is the LAST entry of the
    releaser's buffer; draining that buffer is always possible, and then the word is 0 and memory
    holds every increment made so far. *)
Theorem C08_tso_release_drains :
  forall n y lr s tid t buf, TReachable n y lr s ->
    nth_error (tthreads s) tid = Some (t, buf) -> existsb is_lockw buf = true ->
    exists s', trun gen_cfg y lr s (repeat (tid, TFlush) (length buf)) = Some s' /\
               m_lock s' = 0 /\ nth_error (tthreads s') tid = Some (t, []) /\ m_counter s' = t_ndone s'.
Proof. exact tso_release_drains. Qed.
Print Assumptions C08_tso_release_drains.

(** The interleaving machine of Props/C08.v is the TSO machine with every store flushed at once:
    each of its reachable states is reachable here, so the theorems above generalise C08_mutex and
    C08_no_lost_update and are not vacuous. *)
Theorem C08_tso_generalises_sc :
  forall n y s, Reachable n y s -> TReachable n y true (embed s).
Proof. exact sc_reachable_tso. Qed.
Print Assumptions C08_tso_generalises_sc.
