(** Non-vacuity: a concrete firmware image satisfying the hypotheses of the C14 theorems, and
    concrete runs of the model on it.  The image: a search window 0x1000..0x105f holding a decoy
    (matching signature, bad checksum) at 0x1000, a revision-2 root pointer at 0x1020 and a later
    valid revision-0 root pointer at 0x1050; an XSDT (revision 2) at 0x2000 listing APIC (valid),
    SSDT (one byte corrupted) and FACP (valid, pointing to a valid DSDT at 0x3400). *)
From Coq Require Import NArith List Lia Bool.
From FF Require Import Lib.Word Gen.Consts_device_acpi Acpi.Model Acpi.Spec
  Acpi.BytesProofs Acpi.ProbeProofs Acpi.EnumProofs Acpi.RegProofs Acpi.AbortProofs Props.C14.
Import ListNotations.
Local Open Scope N_scope.

Fixpoint seg_get (a base : N) (bs : list N) : option N :=
  match bs with [] => None | b :: r => if a =? base then Some b else seg_get a (base + 1) r end.
Fixpoint img (segs : list (N * list N)) (a : N) : option N :=
  match segs with
  | [] => None
  | (b, bs) :: r => match seg_get a b bs with Some v => Some v | None => img r a end
  end.

Definition ex_segs : list (N * list N) :=
  [(0x1000, [82; 83; 68; 32; 80; 84; 82; 32; 214; 86; 69; 82; 73; 70; 32; 0; 0; 112; 0; 0]);
   (0x1020, [82; 83; 68; 32; 80; 84; 82; 32; 211; 86; 69; 82; 73; 70; 32; 2; 0; 112; 0; 0; 36; 0; 0; 0; 0; 32; 0; 0; 0; 0; 0; 0; 188; 0; 0; 0]);
   (0x1050, [82; 83; 68; 32; 80; 84; 82; 32; 213; 86; 69; 82; 73; 70; 32; 0; 0; 112; 0; 0]);
   (0x2000, [88; 83; 68; 84; 60; 0; 0; 0; 2; 36; 86; 69; 82; 73; 70; 32; 69; 88; 65; 77; 80; 76; 69; 32; 0; 0; 0; 0; 0; 0; 0; 0; 0; 0; 0; 0; 0; 48; 0; 0; 0; 0; 0; 0; 0; 49; 0; 0; 0; 0; 0; 0; 0; 50; 0; 0; 0; 0; 0; 0]);
   (0x3000, [65; 80; 73; 67; 44; 0; 0; 0; 1; 210; 86; 69; 82; 73; 70; 32; 69; 88; 65; 77; 80; 76; 69; 32; 0; 0; 0; 0; 0; 0; 0; 0; 0; 0; 0; 0; 0; 1; 2; 3; 4; 5; 6; 7]);
   (0x3100, [83; 83; 68; 84; 36; 0; 0; 0; 2; 212; 86; 69; 82; 73; 70; 32; 69; 88; 65; 77; 5; 76; 69; 32; 0; 0; 0; 0; 0; 0; 0; 0; 0; 0; 0; 0]);
   (0x3200, [70; 65; 67; 80; 160; 0; 0; 0; 3; 223; 86; 69; 82; 73; 70; 32; 69; 88; 65; 77; 80; 76; 69; 32; 0; 0; 0; 0; 0; 0; 0; 0; 0; 0; 0; 0; 0; 0; 0; 0; 0; 52; 0; 0; 0; 0; 0; 0; 0; 0; 0; 0; 0; 0; 0; 0; 0; 0; 0; 0; 0; 0; 0; 0; 0; 0; 0; 0; 0; 0; 0; 0; 0; 0; 0; 0; 0; 0; 0; 0; 0; 0; 0; 0; 0; 0; 0; 0; 0; 0; 0; 0; 0; 0; 0; 0; 0; 0; 0; 0; 0; 0; 0; 0; 0; 0; 0; 0; 0; 0; 0; 0; 0; 0; 0; 0; 0; 0; 0; 0; 0; 0; 0; 0; 0; 0; 0; 0; 0; 0; 0; 0; 0; 0; 0; 0; 0; 0; 0; 0; 0; 52; 0; 0; 0; 0; 0; 0; 0; 0; 0; 0; 0; 52; 0; 0; 0; 0; 0; 0]);
   (0x3400, [68; 83; 68; 84; 40; 0; 0; 0; 2; 63; 86; 69; 82; 73; 70; 32; 69; 88; 65; 77; 80; 76; 69; 32; 0; 0; 0; 0; 0; 0; 0; 0; 0; 0; 0; 0; 16; 32; 48; 64])].
(* sigs: APIC 0x43495041 SSDT 0x54445353 FACP 0x50434146 DSDT 0x54445344 *)

Definition ex_mem : mem := img ex_segs.
Definition nofail : N -> bool := fun _ => false.
Definition APIC : N := 0x43495041.
Definition SSDT : N := 0x54445353.
Definition DSDT : N := 0x54445344.

Lemma seg_get_ok a : forall bs base v, forallb (fun b => b <? 256) bs = true -> seg_get a base bs = Some v -> v < 256.
Proof.
  induction bs as [|b r IH]; intros base v Hall H; simpl in *; [discriminate|].
  apply andb_prop in Hall. destruct Hall as [Hb Hr]. destruct (a =? base).
  - injection H as <-. apply N.ltb_lt. exact Hb.
  - eapply IH; eauto.
Qed.

Lemma img_ok segs : forallb (fun s => forallb (fun b => b <? 256) (snd s)) segs = true -> bytes_ok (img segs).
Proof.
  induction segs as [|[b bs] r IH]; intros Hall a v H; simpl in *; [discriminate|].
  apply andb_prop in Hall. destruct Hall as [Hb Hr].
  destruct (seg_get a b bs) as [v'|] eqn:Hg.
  - injection H as <-. eapply seg_get_ok; eauto.
  - eapply IH; eauto.
Qed.

Example C14_bytes_ok_nonvacuous : bytes_ok ex_mem.
Proof. apply img_ok. vm_compute. reflexivity. Qed.

(** ---- the probe ---- *)
Example C14_window_nonvacuous : 0 < 16 /\ 0x105f + 16 <= two64.
Proof. unfold two64. lia. Qed.

(* the decoy at 0x1000 is skipped, the root pointer at 0x1020 wins over the later one at 0x1050,
   the 64-bit pointer is taken; one page is mapped and unmapped *)
Example C14_probe_run : locateRSDT ex_mem 0x1000 0x105f 16 None = (PFound 0x2000 true, 1, 1).
Proof. vm_compute. reflexivity. Qed.

Example C14_rsdp_found_nonvacuous :
  in_window 0x1000 0x105f 16 0x1020 /\ rsdp_accepted ex_mem 0x1020 0x2000 true /\
  rsdp_rejected ex_mem 0x1000 /\ rsdp_rejected ex_mem 0x1010 /\
  rsdp_accepted ex_mem 0x1050 0x7000 false.
Proof.
  split; [exists 2; lia|].
  split; [apply check_slot_accept; [unfold two64; lia | vm_compute; reflexivity]|].
  split; [apply check_slot_reject; [unfold two64; lia | vm_compute; reflexivity]|].
  split; [apply check_slot_reject; [unfold two64; lia | vm_compute; reflexivity]|].
  apply check_slot_accept; [unfold two64; lia | vm_compute; reflexivity].
Qed.

(* without the root pointer at 0x1020 the window 0x1000..0x103f holds only the decoy *)
Example C14_probe_missing_run : fst (fst (locateRSDT ex_mem 0x1000 0x101f 16 None)) = PMissing.
Proof. vm_compute. reflexivity. Qed.

(* the mapping seam failing: no driver *)
Example C14_probe_seam_failure_run : locateRSDT ex_mem 0x1000 0x105f 16 (Some 0) = (PMapErr, 1, 1).
Proof. vm_compute. reflexivity. Qed.

(* a window whose memory is missing: explicit stray read *)
Example C14_probe_stray_run : fst (fst (locateRSDT ex_mem 0x5000 0x505f 16 None)) = PStray 0x5000.
Proof. vm_compute. reflexivity. Qed.

(** ---- DriverInit ---- *)
Definition ex_state : state :=
  mkState (mkSeam 10 [(3, 40, 1); (3, 36, 1); (3, 160, 1); (3, 36, 1); (3, 36, 1); (3, 36, 1); (3, 44, 1); (3, 36, 1); (2, 60, 1); (2, 36, 1)])
          [EvMismatch SSDT 0x3100 36]
          [(DSDT, 0x3400); (FACP, 0x3200); (APIC, 0x3000)].

Example C14_driver_init_run :
  driverInit ex_mem nofail 0x2000 true =
    (ex_state, IOk,
     [EvInfo APIC 0x3000 44 0x204649524556 0x20454c504d415845;
      EvInfo FACP 0x3200 160 0x204649524556 0x20454c504d415845;
      EvInfo DSDT 0x3400 40 0x204649524556 0x20454c504d415845]).
Proof. vm_compute. reflexivity. Qed.

(* an identityMapFn failure at the 5th call aborts the enumeration with the mapping error *)
Example C14_driver_init_seam_failure_run :
  snd (fst (driverInit ex_mem (fun k => k =? 4) 0x2000 true)) = IErrMap.
Proof. vm_compute. reflexivity. Qed.

(* a corrupted root table: errTableChecksumMismatch, nothing registered *)
Example C14_driver_init_bad_root_run :
  let '(s, r, _) := driverInit ex_mem nofail 0x3100 true in (r, st_tmap s) = (IErrChecksum, []).
Proof. vm_compute. reflexivity. Qed.

Lemma tbl_sig_c a v : a < two64 -> sig_of ex_mem a = Got v -> tbl_sig ex_mem a v.
Proof. intros Ha H. apply sig_of_spec; assumption. Qed.

Lemma ex_sigs :
  tbl_sig ex_mem 0x3000 APIC /\ tbl_sig ex_mem 0x3100 SSDT /\ tbl_sig ex_mem 0x3200 FACP /\ tbl_sig ex_mem 0x3400 DSDT.
Proof. repeat split; (apply tbl_sig_c; [unfold two64; lia | vm_compute; reflexivity]). Qed.

Lemma ex_dsdt : fadt_dsdt ex_mem 2 0x3200 0x3400.
Proof. apply dsdt_pointer_spec; [unfold two64; lia | vm_compute; reflexivity]. Qed.

Lemma ex_candidates t : candidate ex_mem 2 [0x3000; 0x3100; 0x3200] t ->
  t = 0x3000 \/ t = 0x3100 \/ t = 0x3200 \/ t = 0x3400.
Proof.
  destruct ex_sigs as (S1 & S2 & S3 & S4).
  intros [H | (f & Hf & _ & Hs & Hd)].
  - simpl in H. intuition.
  - simpl in Hf. destruct Hf as [<- | [<- | [<- | []]]].
    + pose proof (field_fun _ _ _ _ _ S1 Hs). discriminate.
    + pose proof (field_fun _ _ _ _ _ S2 Hs). discriminate.
    + right. right. right. eapply fadt_dsdt_fun; eauto. exact ex_dsdt.
Qed.

Example C14_distinct_signatures_nonvacuous : distinct_signatures ex_mem 2 [0x3000; 0x3100; 0x3200].
Proof.
  destruct ex_sigs as (S1 & S2 & S3 & S4).
  intros t1 t2 s C1 C2 H1 H2. apply ex_candidates in C1. apply ex_candidates in C2.
  destruct C1 as [-> | [-> | [-> | ->]]]; destruct C2 as [-> | [-> | [-> | ->]]]; try reflexivity; exfalso;
    match goal with
    | Ha : tbl_sig ex_mem ?a s, Hb : tbl_sig ex_mem ?b s, Sa : tbl_sig ex_mem ?a ?x, Sb : tbl_sig ex_mem ?b ?y |- _ =>
        pose proof (field_fun _ _ _ _ _ Ha Sa) as E1; pose proof (field_fun _ _ _ _ _ Hb Sb) as E2;
        rewrite E1 in E2; discriminate
    end.
Qed.

Lemma ex_root_len len : tbl_len ex_mem 0x2000 len -> 36 <= len.
Proof.
  intros H. assert (H60 : tbl_len ex_mem 0x2000 60).
  { apply rdle_spec. vm_compute. reflexivity. }
  rewrite (field_fun _ _ _ _ _ H H60). lia.
Qed.

(* all hypotheses of C14_registered_iff hold of the example ... *)
Example C14_registered_iff_nonvacuous :
  bytes_ok ex_mem /\ 0x2000 < two64 /\ no_seam_failure nofail /\
  (forall len, tbl_len ex_mem 0x2000 len -> 36 <= len) /\
  (exists s info, driverInit ex_mem nofail 0x2000 true = (s, IOk, info)).
Proof.
  split; [exact C14_bytes_ok_nonvacuous|]. split; [unfold two64; lia|]. split; [intros k; reflexivity|].
  split; [exact ex_root_len|]. eexists. eexists. exact C14_driver_init_run.
Qed.

(* ... and its conclusion, instantiated: the valid APIC, FACP and the DSDT behind the FACP are
   registered, the corrupted SSDT is not and is reported *)
Example C14_registered_iff_instance :
  lookup APIC (st_tmap ex_state) = Some 0x3000 /\ lookup FACP (st_tmap ex_state) = Some 0x3200 /\
  lookup DSDT (st_tmap ex_state) = Some 0x3400 /\ lookup SSDT (st_tmap ex_state) = None /\
  tbl_good ex_mem 0x3000 /\ tbl_bad ex_mem 0x3100 36 /\ tbl_good ex_mem 0x3400.
Proof.
  repeat split; try (vm_compute; reflexivity).
  - exists 44. split; [apply rdle_spec; vm_compute; reflexivity | apply validTable_true; vm_compute; reflexivity].
  - apply rdle_spec; vm_compute; reflexivity.
  - apply validTable_false; vm_compute; reflexivity.
  - exists 40. split; [apply rdle_spec; vm_compute; reflexivity | apply validTable_true; vm_compute; reflexivity].
Qed.

(* the hypotheses of C14_enumeration_continues are satisfiable: a walk with a bad table in the middle *)
Example C14_enumeration_continues_nonvacuous :
  exists len rootRev es vs ev regs,
    tbl_len ex_mem 0x2000 len /\ sums_to_zero ex_mem 0x2000 len /\ 36 <= len /\
    ex_mem (w64 (0x2000 + 8)) = Some rootRev /\ root_lists ex_mem 0x2000 len true es /\
    walk ex_mem rootRev es vs ev regs /\ ev <> [] /\ length regs = 3%nat.
Proof.
  destruct C14_registered_iff_nonvacuous as (Hok & Hlt & Hnf & _ & _).
  assert (He : enumerateTables ex_mem nofail 0x2000 true = (ex_state, IOk)).
  { eapply driverInit_ok. exact C14_driver_init_run. }
  destruct (C14_enumeration_order ex_mem nofail 0x2000 true ex_state Hok Hlt Hnf He)
    as (len & rv & es & vs & ev & regs & Hl & Hz & Hrv & Hrl & Hw & Hev & Htm).
  exists len, rv, es, vs, ev, regs. pose proof (ex_root_len len Hl) as H36.
  repeat split; auto.
  - apply Hrl. exact H36.
  - apply Hrl. exact H36.
  - intros ->. simpl in Hev. discriminate.
  - apply (f_equal (@length _)) in Htm. rewrite rev_length in Htm. simpl in Htm. lia.
Qed.

(** ---- seam failures ---- *)
(* the 5th identityMapFn call (the header of the SSDT, the second entry) fails: the APIC before it
   stays registered, nothing after it is visited, 5 calls were made *)
Example C14_map_error_aborts_nonvacuous :
  bytes_ok ex_mem /\ 0x2000 < two64 /\
  (let '(s, r, info) := driverInit ex_mem (fun k => k =? 4) 0x2000 true in
   (r, info, st_tmap s, st_events s, sk (st_seam s))) = (IErrMap, [], [(APIC, 0x3000)], [], 5).
Proof. split; [exact C14_bytes_ok_nonvacuous|]. split; [unfold two64; lia | vm_compute; reflexivity]. Qed.

(* the 9th call (the header of the DSDT behind the FACP) fails: the FACP stays registered, the DSDT is not *)
Example C14_map_error_at_dsdt_run :
  (let '(s, r, info) := driverInit ex_mem (fun k => k =? 8) 0x2000 true in
   (r, info, st_tmap s, st_events s, sk (st_seam s))) =
  (IErrMap, [], [(FACP, 0x3200); (APIC, 0x3000)], [EvMismatch SSDT 0x3100 36], 9).
Proof. vm_compute. reflexivity. Qed.

(* the very first call (the root table's header) fails *)
Example C14_map_error_at_root_run :
  (let '(s, r, info) := driverInit ex_mem (fun k => k =? 0) 0x2000 true in
   (r, info, st_tmap s, st_events s, sk (st_seam s))) = (IErrMap, [], [], [], 1).
Proof. vm_compute. reflexivity. Qed.

(* the reports of the example image: one line, for the corrupted SSDT, the visit order is
   APIC, SSDT, FACP, DSDT *)
Example C14_reports_in_order_instance :
  exists vs ev, visits ex_mem 2 [0x3000; 0x3100; 0x3200] vs /\ reports ex_mem vs ev /\
                vs = [0x3000; 0x3100; 0x3200; 0x3400] /\ ev = [EvMismatch SSDT 0x3100 36].
Proof.
  destruct C14_registered_iff_nonvacuous as (Hok & Hlt & Hnf & _ & _).
  destruct (C14_reports_in_order ex_mem nofail 0x2000 true ex_state _ Hok Hlt Hnf C14_driver_init_run)
    as (rv & es & vs & ev & Hrv & Hrl & Hv & Hr & Hev & _ & _).
  assert (rv = 2) by (vm_compute in Hrv; congruence). subst rv.
  assert (Hes : es = [0x3000; 0x3100; 0x3200]).
  { assert (H60 : tbl_len ex_mem 0x2000 60) by (apply rdle_spec; vm_compute; reflexivity).
    destruct (Hrl 60 H60 ltac:(lia)) as [Hn He]. change ((60 - 36) / N.of_nat (entry_width true)) with 3 in Hn.
    destruct es as [|e1 [|e2 [|e3 [|e4 r]]]]; simpl in Hn; try lia.
    simpl in He. destruct He as (F1 & F2 & F3 & _).
    apply rdle_spec in F1, F2, F3. vm_compute in F1, F2, F3. congruence. }
  subst es. exists vs, ev. split; [exact Hv|]. split; [exact Hr|].
  assert (Hev' : ev = [EvMismatch SSDT 0x3100 36]).
  { simpl in Hev. apply (f_equal (@rev _)) in Hev. rewrite rev_involutive in Hev. simpl in Hev. congruence. }
  split; [|exact Hev'].
  (* the visit list is determined: exhibit it *)
  assert (Hv2 : visits ex_mem 2 [0x3000; 0x3100; 0x3200] [0x3000; 0x3100; 0x3200; 0x3400]).
  { destruct ex_sigs as (S1 & S2 & S3 & S4). destruct C14_registered_iff_instance as (_ & _ & _ & _ & G1 & B2 & G4).
    eapply vis_good; [exact G1 | exact S1 | discriminate |].
    eapply vis_bad; [exact B2|].
    eapply vis_fadt; [| exact S3 | exact ex_dsdt | constructor].
    exists 160. split; [apply rdle_spec; vm_compute; reflexivity | apply validTable_true; vm_compute; reflexivity]. }
  eapply visits_fun; eauto.
Qed.
