(** C13 - tie BY TRANSLATION, continued (see Props/C13_trans.v for the setting): the three read-only walks
    NumArgs, ArgAt, ClosestNamedAncestor of obj_tree.go.  Their Go loops are `gloop fuel step state` in the
    regenerated Gen/Trans_aml_tree.v; the model recurses on fuel.  The exit test of a loop consumes one unit of fuel on
    both sides, so the equality holds for EVERY tree, every argument (nil included) and EVERY fuel: the translation
    returns the model's value, panics exactly where the model does (a sibling / parent index that ObjectAt does not
    resolve, an infoIndex beyond pOpcodeTable) and reports GFuel exactly where the model reports OutOfFuel (a cyclic
    chain); the tree is returned unchanged.  With the model's own fuel [chain_fuel t] these are the model's functions
    (C13_queries_are_translation).  `pOpcodeTable[i].flags` is read from the regenerated constant table
    tree_opcodeTableFlags (config "exttables").  Statements only; proofs are in Aml/TreeTransQ.v. *)
From Coq Require Import NArith List.
From FF Require Import Lib.GoOps Lib.GoPool Gen.Consts_aml_tree Gen.Trans_aml_tree Aml.Stream Aml.Tree.
From FF Require Aml.TreeTrans Aml.TreeTransQ.
Module TT := FF.Aml.TreeTrans.
Module TQ := FF.Aml.TreeTransQ.
Import ListNotations.
Local Open Scope N_scope.

Theorem C13_NumArgs_is_translation :
  forall (V : Type) (t : ObjectTree V) (obj : option N) (fuel : nat),
    go_aml_ObjectTree_NumArgs fuel (TT.tr_tree t) obj =
    TT.lift (fun n => (TT.tr_tree t, n))
      (match obj with None => Ok 0 | Some p => do first <- rd t p o_first; numArgs_go fuel t first 0 end).
Proof. exact @TQ.NumArgs_is_translation. Qed.
Print Assumptions C13_NumArgs_is_translation.

Theorem C13_ArgAt_is_translation :
  forall (V : Type) (t : ObjectTree V) (obj : option N) (index : N) (fuel : nat),
    go_aml_ObjectTree_ArgAt fuel (TT.tr_tree t) obj index =
    TT.lift (fun r => (TT.tr_tree t, r))
      (match obj with None => Ok None | Some p => do first <- rd t p o_first; argAt_go fuel t 0 first index end).
Proof. exact @TQ.ArgAt_is_translation. Qed.
Print Assumptions C13_ArgAt_is_translation.

Theorem C13_ClosestNamedAncestor_is_translation :
  forall (V : Type) (t : ObjectTree V) (obj : option N) (fuel : nat),
    go_aml_ObjectTree_ClosestNamedAncestor fuel (TT.tr_tree t) obj =
    TT.lift (fun r => (TT.tr_tree t, r))
      (match obj with None => Ok InvalidIndex | Some p => do par <- rd t p o_parent; closest_go fuel t par end).
Proof. exact @TQ.ClosestNamedAncestor_is_translation. Qed.
Print Assumptions C13_ClosestNamedAncestor_is_translation.

(** with the model's own fuel: exactly the model's NumArgs / ArgAt / ClosestNamedAncestor *)
Theorem C13_queries_are_translation :
  forall (V : Type) (t : ObjectTree V) (obj : option N) (index : N),
    go_aml_ObjectTree_NumArgs (chain_fuel t) (TT.tr_tree t) obj = TT.lift (fun n => (TT.tr_tree t, n)) (NumArgs t obj) /\
    go_aml_ObjectTree_ArgAt (chain_fuel t) (TT.tr_tree t) obj index = TT.lift (fun r => (TT.tr_tree t, r)) (ArgAt t obj index) /\
    go_aml_ObjectTree_ClosestNamedAncestor (chain_fuel t) (TT.tr_tree t) obj =
      TT.lift (fun r => (TT.tr_tree t, r)) (ClosestNamedAncestor t obj).
Proof. exact @TQ.queries_model_fuel. Qed.
Print Assumptions C13_queries_are_translation.

(** CreateDefaultScopes(tableHandle): six newNamedObject calls and five appends.  The translation carries the scope names
    as the array literals of the source; the model reads them from the regenerated constant tree_defaultScopeNames -
    the theorem also says the two agree.  For every tree (the call is legal on a non-empty tree too: the new scopes are
    appended to the new root object). *)
Theorem C13_CreateDefaultScopes_is_translation :
  forall (V : Type) (t : ObjectTree V) (tableHandle : N),
    go_aml_ObjectTree_CreateDefaultScopes (TT.tr_tree t) tableHandle TT.table_oracle =
    TT.lift (fun t' => (TT.tr_tree t', tt)) (CreateDefaultScopes t tableHandle).
Proof. exact @TQ.CreateDefaultScopes_is_translation. Qed.
Print Assumptions C13_CreateDefaultScopes_is_translation.
