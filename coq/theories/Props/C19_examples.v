(** Non-vacuity of the C19 theorems: concrete consoles satisfying the hypotheses (among them the
    configurations the kernel boots with: 80x25 text mode; 1024x768x32 with the shipped 8x16
    font, a 64-row logo and padded rows), the shipped fonts, and concrete runs. *)
From Coq Require Import NArith List Bool Lia.
From FF Require Import Lib.Word Gen.Consts_device_video_console.
From FF Require Import Console.Mem Console.Ops Console.Grid Console.Vga Console.VgaProofs.
From FF Require Import Console.Vesa Console.VesaSpec Console.VesaProofs Console.C19Lemmas.
Import ListNotations.
Local Open Scope N_scope.

Example C19_vga_wf_nonvacuous : vga_wf (mkVga 80 25) (fresh 2000 (fun i => i)).
Proof. unfold vga_wf. cbn. unfold two32. lia. Qed.

Example C19_vga_wf_one_cell_nonvacuous : vga_wf (mkVga 1 1) (fresh 1 (fun i => i)).
Proof. unfold vga_wf. cbn. unfold two32. lia. Qed.

(** the former crash input Fill(1,2,1,0xffffffff) on a 2x3 console: rows 2..3 of column 1 *)
Example C19_vga_fill_wrap_example :
  match vga_fill (mkVga 2 3) (fresh 6 (fun i => i)) 1 2 1 0xffffffff 7 0 with
  | Ok m' => dump m' = [0; 1; 0x0720; 3; 0x0720; 5]
  | _ => False
  end.
Proof. vm_compute. reflexivity. Qed.

Example C19_vga_fill_width_wrap_example :
  match vga_fill (mkVga 3 2) (fresh 6 (fun i => i)) 2 1 0xffffffff 1 1 15 with
  | Ok m' => dump m' = [0; 0xf120; 0xf120; 3; 4; 5]
  | _ => False
  end.
Proof. vm_compute. reflexivity. Qed.

Example C19_vga_write_white_background_example :
  match vga_write (mkVga 4 2) (fresh 8 (fun i => 0)) 0x41 1 15 2 1 with
  | Ok m' => dump m' = [0; 0xf141; 0; 0; 0; 0; 0; 0]
  | _ => False
  end.
Proof. vm_compute. reflexivity. Qed.

(** every shipped font is inside the quantifier of the theorems: 8..16 pixels wide, BytesPerRow =
    ceil(width/8), 256 glyphs of data *)
Definition font_in_range (e : N * N * N * list N) : bool :=
  let '(gw, gh, bpr, data) := e in
  (8 <=? gw) && (gw <=? 16) && (1 <=? gh) && (bpr =? (gw + 7) / 8) && (256 * bpr * gh <=? N.of_nat (length data)).

Example C19_shipped_fonts_in_range : forallb font_in_range console_font_table = true.
Proof. vm_compute. reflexivity. Qed.

(** the space glyph of every shipped font is blank (so Fill = writing spaces; used by C18) *)
Example C19_shipped_space_glyph_blank :
  forallb (fun e : N * N * N * list N =>
             let '(gw, gh, bpr, data) := e in
             forallb (fun b => b =? 0) (firstn (N.to_nat (bpr * gh)) (skipn (N.to_nat (0x20 * bpr * gh)) data)))
          console_font_table = true.
Proof. vm_compute. reflexivity. Qed.

(** 1024x768x32, rows padded by 64 bytes, 64-row logo, shipped 8x16 font, built the way the driver
    builds it *)
Definition ex_palette (i : N) : N * N * N := (i, 255 - i, i / 2).
Definition ex_console : option vesa :=
  match nth_font 0 with
  | Some f => set_font (set_logo_height (new_vesa 1024 768 32 4160 (mkColorInfo 16 8 8 8 0 8) 256 ex_palette) 64) f
  | None => None
  end.

Example C19_vesa_wf_nonvacuous :
  exists c f m, ex_console = Some c /\ nth_font 0 = Some f /\ vesa_wf c f D24 m /\
                wchars c = 128 /\ hchars c = 44 /\ bytespp c = 4.
Proof.
  destruct (nth_font 0) as [f|] eqn:Ef; [|discriminate].
  unfold ex_console. rewrite Ef.
  assert (Hf: f_gw f = 8 /\ f_gh f = 16 /\ f_bpr f = 1 /\ f_dlen f = 4096).
  { unfold nth_font in Ef. cbn [nth_error N.to_nat console_font_table] in Ef. inversion Ef. cbn [f_gw f_gh f_bpr f_dlen].
    repeat split. }
  destruct Hf as [F1 [F2 [F3 F4]]].
  unfold set_font. rewrite F1, F2. cbn [N.eqb orb].
  eexists. exists f, (fresh (768 * 4160) (fun _ => 0)). split; [reflexivity|]. split; [reflexivity|].
  split; [|cbn; rewrite ?F1, ?F2; repeat split; reflexivity].
  constructor; cbn; rewrite ?F1, ?F2, ?F3, ?F4; try reflexivity; unfold two32; try lia.
Qed.

(** a small padded 16-bit console with a synthetic font: concrete Fill with wrapping arguments *)
Definition ex_font : font := mkFont 8 2 1 512 (fun i => i mod 256).
Definition ex_small : option vesa :=
  set_font (new_vesa 20 5 16 43 (mkColorInfo 11 5 5 6 0 5) 256 ex_palette) ex_font.

Example C19_vesa_small_wf_nonvacuous :
  exists c, ex_small = Some c /\ vesa_wf c ex_font D16 (fresh 215 (fun i => i mod 256)) /\ wchars c = 2 /\ hchars c = 2.
Proof.
  eexists. split; [reflexivity|]. split; [|split; reflexivity].
  constructor; cbn; try reflexivity; unfold two32; try lia.
Qed.

Example C19_vesa_fill_wrap_example :
  match ex_small with
  | Some c =>
      match vesa_fill c (fresh 215 (fun i => 7)) 2 1 0xffffffff 0xffffffff 0 3 with
      | Ok m' =>
          (* rows 0..3 (2 text lines of 2 pixel rows), pixel columns 8..15: colour 3 = (3,252,1) packed 5/6/5 = 0x07e0;
             pixel columns 16..19 (margin), row 4 (margin) and the padding bytes keep the 7 *)
          firstn 43 (dump m') =
            [7;7;7;7;7;7;7;7;7;7;7;7;7;7;7;7; 0xe0;0x07;0xe0;0x07;0xe0;0x07;0xe0;0x07;0xe0;0x07;0xe0;0x07;0xe0;0x07;0xe0;0x07;
             7;7;7;7;7;7;7;7; 7;7;7] /\
          skipn 172 (dump m') = repeat 7 43%nat
      | _ => False
      end
  | None => False
  end.
Proof. vm_compute. split; reflexivity. Qed.
