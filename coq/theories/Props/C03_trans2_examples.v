(** Non-vacuity and concrete runs for Props/C03_trans2.v: two pools (10 frames from frame 16, 70 frames from frame 256),
    all frames free; the regenerated functions are run by vm_compute. *)
From Coq Require Import NArith String List Lia.
From FF Require Import Lib.GoOps Gen.Consts_mm_pmm Gen.Trans_pmm_bitmap Pmm.Bitmap Pmm.BitmapTrans Pmm.BitmapTrans2.
From FF Require Import Props.C03_trans2.
Import ListNotations.
Local Open Scope N_scope.

(** bits beyond the end of a pool are set (reserved) *)
Definition ex2_alloc : balloc :=
  mkBA 80 0 [mkPool 16 25 10 [N.ones 54]; mkPool 256 325 70 [0; N.ones 58]].

Example C03_reserveKernelFrames_nonvacuous :
  N.of_nat (length (a_pools ex2_alloc)) < 2 ^ 63 /\ (length (a_pools ex2_alloc) < 20)%nat /\
  260 < 2 ^ 64 - 1 /\ (N.to_nat (260 + 1 - 258) < 20)%nat.
Proof. repeat split; cbn; lia. Qed.

(** kernel in frames 258..260 of the second pool: three bits set (0x2000.. = bit 61 .. 59 of word 0, big-endian bit order),
    freeCount 67, reservedPages 3 *)
Example C03_trans2_reserve_kernel_run :
  go_pmm_BitmapAllocator_reserveKernelFrames 20 (to_ga true ex2_alloc []) 260 258 =
  GOk (to_ga true (mkBA 80 3 [mkPool 16 25 10 [N.ones 54]; mkPool 256 325 67 [0x3800000000000000; N.ones 58]]) [], tt) /\
  reserve_kernel ex2_alloc 258 260 =
  Ok (mkBA 80 3 [mkPool 16 25 10 [N.ones 54]; mkPool 256 325 67 [0x3800000000000000; N.ones 58]]).
Proof. vm_compute. split; reflexivity. Qed.

(** the same by the theorem *)
Example C03_trans2_reserve_kernel_at_example :
  go_pmm_BitmapAllocator_reserveKernelFrames 20 (to_ga true ex2_alloc []) 260 258 =
  match reserve_kernel ex2_alloc 258 260 with
  | Ok a' => GOk (to_ga true a' [], tt) | Panic => GPanic | Hang => GFuel end.
Proof.
  destruct C03_reserveKernelFrames_nonvacuous as (H1 & H2 & H3 & H4).
  exact (C03_reserveKernelFrames_is_translation true ex2_alloc [] 258 260 20 H1 H2 H3 H4).
Qed.

(** a kernel range running past the end of its pool (frames 22..30, pool ends at 25): Go keeps calling markFrame, which
    returns at once; the model stops at the pool's end; same result (4 frames reserved) *)
Example C03_trans2_reserve_kernel_past_pool :
  go_pmm_BitmapAllocator_reserveKernelFrames 20 (to_ga true ex2_alloc []) 30 22 =
  match reserve_kernel ex2_alloc 22 30 with
  | Ok a' => GOk (to_ga true a' [], tt) | Panic => GPanic | Hang => GFuel end /\
  match reserve_kernel ex2_alloc 22 30 with Ok a' => a_reserved a' = 4 | _ => False end.
Proof. vm_compute. split; reflexivity. Qed.

(** one unit of fuel too few is GFuel, not a panic; an empty range and a range outside every pool change nothing *)
Example C03_trans2_reserve_kernel_corners :
  go_pmm_BitmapAllocator_reserveKernelFrames 3 (to_ga true ex2_alloc []) 260 258 = GFuel /\
  go_pmm_BitmapAllocator_reserveKernelFrames 20 (to_ga true ex2_alloc []) 257 258 = GOk (to_ga true ex2_alloc [], tt) /\
  go_pmm_BitmapAllocator_reserveKernelFrames 20 (to_ga true ex2_alloc []) 102 100 = GOk (to_ga true ex2_alloc [], tt).
Proof. vm_compute. repeat split; reflexivity. Qed.

(** markFrame(.., markFree) undoes markFrame(.., markReserved); a pool index out of range panics; -1 does nothing *)
Example C03_trans2_mark_free_run :
  match go_pmm_BitmapAllocator_markFrame (to_ga true ex2_alloc []) 1 300 false with
  | GOk (g, _) =>
      f_BitmapAllocator_reservedPages g = 1 /\
      go_pmm_BitmapAllocator_markFrame g 1 300 true = GOk (to_ga true ex2_alloc [], tt)
  | _ => False
  end /\
  go_pmm_BitmapAllocator_markFrame (to_ga true ex2_alloc []) 2 300 true = GPanic /\
  go_pmm_BitmapAllocator_markFrame (to_ga true ex2_alloc []) (2 ^ 64 - 1) 300 true = GOk (to_ga true ex2_alloc [], tt).
Proof. vm_compute. repeat split; reflexivity. Qed.

Example C03_markFrame_free_nonvacuous :
  N.of_nat (length (a_pools ex2_alloc)) < 2 ^ 63 /\ (forall i, Some 1%nat = Some i -> N.of_nat i < 2 ^ 63).
Proof. split; [reflexivity|]. intros i [= <-]. reflexivity. Qed.

(** the hypotheses of C03_mark_free_is_bitmap_free hold for a frame that is in use *)
Example C03_mark_free_is_bitmap_free_nonvacuous :
  let a := mkBA 80 1 [mkPool 16 25 10 [N.ones 54]; mkPool 256 325 69 [0x8000000000000000; N.ones 58]] in
  pool_for_frame a 256 = Some 1%nat /\ bitmap_free a 256 = (ex2_alloc, FreeOk) /\ mark_free a (Some 1%nat) 256 = Ok ex2_alloc.
Proof. vm_compute. repeat split; reflexivity. Qed.
