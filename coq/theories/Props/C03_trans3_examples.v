(** Non-vacuity and concrete runs for Props/C03_trans3.v; the regenerated functions are run by vm_compute.
    One available region of 8 frames (0x10..0x17), the kernel in frames 0x11..0x12, the early-boot allocator has handed out
    three frames (0x10, 0x13, 0x14: allocCount 3, lastAllocFrame 0x14); the bitmap allocator has one pool over the region,
    nothing reserved yet. *)
From Coq Require Import NArith String List Lia.
From FF Require Import Lib.GoOps Lib.GoVisit Gen.Consts_mm_pmm Gen.Trans_pmm_bitmap Pmm.Boot Pmm.Bitmap Pmm.BitmapTrans Pmm.BitmapTrans3.
From FF Require Import Props.C03_trans3.
Import ListNotations.
Local Open Scope N_scope.

Definition ex3_entries : list go_multiboot_MemoryMapEntry := [mk_go_multiboot_MemoryMapEntry 0x10000 0x8000 1].
Definition ex3_map : memmap := [mkRegion 0x10000 0x8000 1].
Definition ex3_boot : go_pmm_BootMemAllocator := mk_go_pmm_BootMemAllocator 3 0x14 0x11000 0x12345 0x11 0x12.
Definition ex3_alloc : balloc := mkBA 8 0 [mkPool 0x10 0x17 8 [N.ones 56]].

Example C03_trans3_values : ex3_entries = map to_gr ex3_map /\ ex3_boot = to_gb 0x11000 0x12345 0x11 0x12 (mkB 3 0x14).
Proof. split; reflexivity. Qed.

Example C03_reserveEarlyAllocatorFrames_nonvacuous :
  N.of_nat (length (a_pools ex3_alloc)) < 2 ^ 63 /\ (length (a_pools ex3_alloc) < 10)%nat /\
  b_count (mkB 3 0x14) < 2 ^ 64 /\ (N.to_nat (b_count (mkB 3 0x14)) < 10)%nat.
Proof. repeat split; cbn; lia. Qed.

(** the translated hand-over: the boot allocator is reset and replayed (it ends in the state it had: 3, 0x14), the
    frames 0x10, 0x13, 0x14 are set in the bitmap (bits 63, 60, 59 of word 0), freeCount 5, reservedPages 3 *)
Example C03_trans3_reserve_early_run :
  go_pmm_BitmapAllocator_reserveEarlyAllocatorFrames 10 (to_ga true ex3_alloc []) ex3_boot ex3_entries =
  GOk (to_ga true (mkBA 8 3 [mkPool 0x10 0x17 5 [0x98ffffffffffffff]]) [], ex3_boot).
Proof. vm_compute. reflexivity. Qed.

(** the model's hand-over on the same values, and the theorem instantiated *)
Example C03_trans3_reserve_early_model :
  reserve_early ex3_map 0x11 0x12 ex3_alloc (mkB 3 0x14) = (mkB 3 0x14, Ok (mkBA 8 3 [mkPool 0x10 0x17 5 [0x98ffffffffffffff]])).
Proof. vm_compute. reflexivity. Qed.

Example C03_trans3_reserve_early_at_example :
  go_pmm_BitmapAllocator_reserveEarlyAllocatorFrames 10 (to_ga true ex3_alloc []) (to_gb 0x11000 0x12345 0x11 0x12 (mkB 3 0x14)) (map to_gr ex3_map) =
  match reserve_early ex3_map 0x11 0x12 ex3_alloc (mkB 3 0x14) with
  | (bst', Ok a') => GOk (to_ga true a' [], to_gb 0x11000 0x12345 0x11 0x12 bst')
  | (_, Panic) => GPanic
  | (_, Hang) => GFuel
  end.
Proof.
  destruct C03_reserveEarlyAllocatorFrames_nonvacuous as (H1 & H2 & H3 & H4).
  exact (C03_reserveEarlyAllocatorFrames_is_translation true ex3_alloc [] 0x11000 0x12345 0x11 0x12 (mkB 3 0x14) ex3_map 10 H1 H2 H3 H4).
Qed.

(** the replay starts from the RESET cursor whatever lastAllocFrame was (here a stale 0x99): same frames *)
Example C03_trans3_reset_is_used :
  go_pmm_BitmapAllocator_reserveEarlyAllocatorFrames 10 (to_ga true ex3_alloc [])
    (mk_go_pmm_BootMemAllocator 3 0x99 0x11000 0x12345 0x11 0x12) ex3_entries =
  GOk (to_ga true (mkBA 8 3 [mkPool 0x10 0x17 5 [0x98ffffffffffffff]]) [], ex3_boot).
Proof. vm_compute. reflexivity. Qed.

(** allocCount beyond what the map can give (9 > 6 free frames): the failed allocations return mm.InvalidFrame, which no
    pool contains, markFrame(-1, ..) does nothing; the boot allocator's counter ends at 6 *)
Example C03_trans3_replay_past_exhaustion :
  match go_pmm_BitmapAllocator_reserveEarlyAllocatorFrames 12 (to_ga true ex3_alloc [])
          (mk_go_pmm_BootMemAllocator 9 0 0x11000 0x12345 0x11 0x12) ex3_entries with
  | GOk (g, b) => f_BitmapAllocator_reservedPages g = 6 /\ f_BootMemAllocator_allocCount b = 6 /\ f_BootMemAllocator_lastAllocFrame b = 0x17
  | _ => False
  end.
Proof. vm_compute. repeat split; reflexivity. Qed.

(** fuel: one unit too few is GFuel; a pool whose bitmap is too short makes markFrame panic *)
Example C03_trans3_fuel_and_panic :
  go_pmm_BitmapAllocator_reserveEarlyAllocatorFrames 3 (to_ga true ex3_alloc []) ex3_boot ex3_entries = GFuel /\
  go_pmm_BitmapAllocator_reserveEarlyAllocatorFrames 10 (to_ga true (mkBA 8 0 [mkPool 0x10 0x17 8 []]) []) ex3_boot ex3_entries = GPanic /\
  snd (reserve_early ex3_map 0x11 0x12 (mkBA 8 0 [mkPool 0x10 0x17 8 []]) (mkB 3 0x14)) = Panic.
Proof. vm_compute. repeat split; reflexivity. Qed.

(** ---- BitmapAllocator.init ---- *)
(** an oracle for setupPoolBitmaps that installs the pool of [ex3_alloc] (keeping the trace it was given) and leaves the boot
    allocator as [ex3_boot]; one that fails *)
Definition o_setup_ok (ga : go_pmm_BitmapAllocator) (gb : go_pmm_BootMemAllocator) :=
  (to_ga true ex3_alloc (f_BitmapAllocator_trace ga), ex3_boot, @None string).
Definition o_setup_fail (ga : go_pmm_BitmapAllocator) (gb : go_pmm_BootMemAllocator) :=
  (ga, gb, Some "errSetup"%string).

Definition ga_zero : go_pmm_BitmapAllocator := to_ga true empty_alloc [].
Definition gb_start : go_pmm_BootMemAllocator := mk_go_pmm_BootMemAllocator 0 0 0x11000 0x12345 0x11 0x12.

(** the translated init: setupPoolBitmaps, then the kernel frames 0x11, 0x12 and the early frames 0x10, 0x13, 0x14 are
    reserved (bits 63..59), then printStats; the events are in call order (most recent first) *)
Example C03_trans3_init_run :
  go_pmm_BitmapAllocator_init 10 ga_zero gb_start o_setup_ok ex3_entries =
  GOk (to_ga true (mkBA 8 5 [mkPool 0x10 0x17 3 [0xf8ffffffffffffff]]) [GEv "printStats" []; GEv "setupPoolBitmaps" []],
       (None, ex3_boot)).
Proof. vm_compute. reflexivity. Qed.

(** a failing setupPoolBitmaps: its error is returned, nothing else is called *)
Example C03_trans3_init_setup_error :
  go_pmm_BitmapAllocator_init 10 ga_zero gb_start o_setup_fail ex3_entries =
  GOk (to_ga true empty_alloc [GEv "setupPoolBitmaps" []], (Some "errSetup"%string, gb_start)).
Proof. vm_compute. reflexivity. Qed.

(** the hypotheses of C03_init_is_translation at these values, and the theorem instantiated *)
Example C03_init_is_translation_nonvacuous :
  o_setup_ok (set_f_BitmapAllocator_trace ga_zero (GEv "setupPoolBitmaps" [] :: f_BitmapAllocator_trace ga_zero)) gb_start =
    (to_ga true ex3_alloc [GEv "setupPoolBitmaps" []], to_gb 0x11000 0x12345 0x11 0x12 (mkB 3 0x14), None) /\
  N.of_nat (length (a_pools ex3_alloc)) < 2 ^ 63 /\ (length (a_pools ex3_alloc) < 10)%nat /\
  0x12 < 2 ^ 64 - 1 /\ (N.to_nat (0x12 + 1 - 0x11) < 10)%nat /\
  b_count (mkB 3 0x14) < 2 ^ 64 /\ (N.to_nat (b_count (mkB 3 0x14)) < 10)%nat.
Proof. repeat split; cbn; lia. Qed.

Example C03_trans3_init_at_example :
  go_pmm_BitmapAllocator_init 10 ga_zero gb_start o_setup_ok (map to_gr ex3_map) =
  match init_tail ex3_map 0x11 0x12 ex3_alloc (mkB 3 0x14) with
  | Ok (a2, b') => GOk (to_ga true a2 [GEv "printStats" []; GEv "setupPoolBitmaps" []], (None, to_gb 0x11000 0x12345 0x11 0x12 b'))
  | Panic => GPanic
  | Hang => GFuel
  end.
Proof.
  destruct C03_init_is_translation_nonvacuous as (H0 & H1 & H2 & H3 & H4 & H5 & H6).
  exact (C03_init_is_translation ga_zero gb_start o_setup_ok true ex3_alloc [GEv "setupPoolBitmaps" []]
           0x11000 0x12345 0x11 0x12 (mkB 3 0x14) None ex3_map 10 H0 H1 H2 H3 H4 H5 H6).
Qed.

(** the hypotheses of C03_pmm_init_is_setup_then_tail hold for the map of Props/C01_examples.v (3 pools, one early-boot
    frame): the model's set-up part succeeds, and pmm_init's result is [init_tail]'s *)
From FF Require Import Lib.Word.
From FF Require Props.C01_examples.
Example C03_pmm_init_is_setup_then_tail_nonvacuous :
  let m := C01_examples.pm_map in
  let ks := kernel_start_frame C01_examples.pm_kstart in
  let ke := kernel_end_frame C01_examples.pm_kend in
  let npools := fst (fst (pass1 m 0)) in
  let bytes := required_bytes npools (snd (pass1 m 0)) in
  (two64 <? bytes) = false /\
  (exists b calls, map_pages m ks ke (N.shiftr bytes PageShift) 0 = MGo b calls) /\
  (N.of_nat (length (pass2 m)) =? npools) = true /\
  (bytes <? layout_bytes m npools) = false /\
  match init_tail m ks ke (mkBA (snd (fst (pass1 m 0))) 0 (pass2 m)) (mkB 1 1) with
  | Ok (a, b') => fst C01_examples.pm_init_result = InitOk a b'
  | _ => False
  end.
Proof.
  vm_compute. split; [reflexivity|]. split; [eexists; eexists; reflexivity|]. split; [reflexivity|]. split; reflexivity.
Qed.

(** [audit A] C03_pmm_init_is_setup_then_tail APPLIED with all four hypotheses discharged together, the boot state [b] being
    the one [map_pages] really ends in (the example above states the hypotheses side by side without linking [b]) *)
Example C03_pmm_init_is_setup_then_tail_real_input :
  let m := C01_examples.pm_map in
  fst (pmm_init m C01_examples.pm_kstart C01_examples.pm_kend two64 0) =
  match init_tail m (kernel_start_frame C01_examples.pm_kstart) (kernel_end_frame C01_examples.pm_kend)
          (mkBA (snd (fst (pass1 m 0))) 0 (pass2 m)) (mkB 1 1) with
  | Ok (a, b') => InitOk a b'
  | Panic => InitPanic
  | Hang => InitHang
  end.
Proof.
  intros m.
  assert (Hm : exists calls, map_pages m (kernel_start_frame C01_examples.pm_kstart) (kernel_end_frame C01_examples.pm_kend)
             (N.shiftr (required_bytes (fst (fst (pass1 m 0))) (snd (pass1 m 0))) PageShift) 0 = MGo (mkB 1 1) calls)
    by (eexists; vm_compute; reflexivity).
  destruct Hm as [calls Hm].
  apply (C03_pmm_init_is_setup_then_tail m C01_examples.pm_kstart C01_examples.pm_kend two64 0 (mkB 1 1) calls).
  - vm_compute. reflexivity.
  - exact Hm.
  - vm_compute. reflexivity.
  - vm_compute. reflexivity.
Qed.
