(** Non-vacuity and concrete runs for Props/C19_vga_trans.v: a 3x2 text console. *)
From Coq Require Import NArith PArith String List Lia.
From FF Require Import Lib.Word Lib.GoOps Gen.Consts_device_tty Gen.Consts_device_video_console Gen.Trans_console_vga.
From FF Require Import Console.Mem Console.Loop Console.Vga Console.VgaProofs Console.VgaTrans Props.C19_vga_trans.
Import ListNotations.
Local Open Scope N_scope.

Definition c32 : vga := mkVga 3 2.
Definition m32 : fbuf := fresh 6 (fun i => 0x0741 + i).      (* 'A'.. on grey/black *)

Example C19_vga_trans_wf_nonvacuous : vga_wf c32 m32 /\ 7 < 256 /\ 0 < 256 /\ 2 < two32.
Proof. repeat split; vm_compute; try reflexivity; discriminate. Qed.

(** the record of the translation for this console *)
Example C19_vga_trans_record :
  to_gv c32 0xb8000 m32 =
  mk_go_console_VgaTextConsole 3 2 0xb8000 [0x741; 0x742; 0x743; 0x744; 0x745; 0x746] vga_paletteLen vga_defaultFg vga_defaultBg vga_clearChar.
Proof. reflexivity. Qed.

(** runs of the translation (fuel 10 is plenty for six cells); the result is the model's *)
Example C19_vga_trans_run_write :
  go_console_VgaTextConsole_Write (to_gv c32 0 m32) 0x5a 2 1 3 2 =
    GOk (mk_go_console_VgaTextConsole 3 2 0 [0x741; 0x742; 0x743; 0x744; 0x745; 0x125a] vga_paletteLen vga_defaultFg vga_defaultBg vga_clearChar, tt) /\
  vga_write c32 m32 0x5a 2 1 3 2 = Ok (store m32 5 0x125a) /\
  go_console_VgaTextConsole_Write (to_gv c32 0 m32) 0x5a 2 1 4 2 = GOk (to_gv c32 0 m32, tt).
Proof. repeat split; vm_compute; reflexivity. Qed.

Example C19_vga_trans_run_scroll :
  go_console_VgaTextConsole_Scroll 10 (to_gv c32 0 m32) console_ScrollDirUp 1 =
    GOk (mk_go_console_VgaTextConsole 3 2 0 [0x744; 0x745; 0x746; 0x744; 0x745; 0x746] vga_paletteLen vga_defaultFg vga_defaultBg vga_clearChar, tt) /\
  go_console_VgaTextConsole_Scroll 10 (to_gv c32 0 m32) console_ScrollDirDown 1 =
    GOk (mk_go_console_VgaTextConsole 3 2 0 [0x741; 0x742; 0x743; 0x741; 0x742; 0x743] vga_paletteLen vga_defaultFg vga_defaultBg vga_clearChar, tt) /\
  go_console_VgaTextConsole_Scroll 3 (to_gv c32 0 m32) console_ScrollDirUp 1 = GFuel.
Proof. repeat split; vm_compute; reflexivity. Qed.

(** Fill(2, 1, 9, 9, fg 4, bg 1): clipped to columns 2..3, rows 1..2 *)
Example C19_vga_trans_run_fill :
  go_console_VgaTextConsole_Fill 10 (to_gv c32 0 m32) 2 1 9 9 4 1 =
    GOk (mk_go_console_VgaTextConsole 3 2 0 [0x741; 0x1420; 0x1420; 0x744; 0x1420; 0x1420] vga_paletteLen vga_defaultFg vga_defaultBg vga_clearChar, tt).
Proof. vm_compute. reflexivity. Qed.

(** a framebuffer shorter than width*height (not a state DriverInit produces): the store is out of range - GPanic,
    as the model's Panic *)
Example C19_vga_trans_run_panic :
  go_console_VgaTextConsole_Write (to_gv c32 0 (fresh 4 (fun _ => 0))) 0x5a 2 1 3 2 = GPanic /\
  (match vga_write c32 (fresh 4 (fun _ => 0)) 0x5a 2 1 3 2 with Panic _ => True | _ => False end).
Proof. split; vm_compute; [reflexivity|exact I]. Qed.
