(** C03 / C01 - tie of the bitmap frame allocator to the source BY TRANSLATION, third part: the hand-over from the
    early-boot allocator, BitmapAllocator.reserveEarlyAllocatorFrames (kernel/mm/pmm/bitmap_allocator.go), which works
    on TWO structs: its receiver and the package-level [bootMemAllocator] (kernel/mm/pmm/bootmem_allocator.go).

        allocCount := bootMemAllocator.allocCount
        bootMemAllocator.allocCount, bootMemAllocator.lastAllocFrame = 0, 0
        for i := uint64(0); i < allocCount; i++ {
            frame, _ := bootMemAllocator.AllocFrame()
            alloc.markFrame(alloc.poolForFrame(frame), frame, markReserved)
        }

    Gen/Trans_pmm_bitmap.v is regenerated on every run by gen/gotrans (gen/gotrans/pmm_bitmap.json).  New here: config
    "gstructs" (gen/gotrans/ext_gstruct.go) threads the variable [bootMemAllocator] through the function as an in/out
    record [v_bootMemAllocator : go_pmm_BootMemAllocator] - every field of the Go struct is a field of the record, which is
    generated from the type declaration, so a field added to BootMemAllocator appears in it -, field assignments rebuild
    it, [bootMemAllocator.AllocFrame()] is a call of the translation of BootMemAllocator.AllocFrame (same generated
    file; its closure over multiboot.VisitMemRegions is a [gvisit] over the parameter [regions], config "visitors"),
    and the record is part of the loop state.  The function returns [GOk (allocator record, bootMemAllocator record)].

    The model is [reserve_early] (Pmm/Bitmap.v): the function [pmm_init] runs for the hand-over, about which the init
    theorems (C01_early_frames_good, C03 init statistics) are proved; it iterates [boot_alloc] from [boot_reset] - the
    replay of C02_boot_replay - and [mark_reserved] at [pool_for_frame].  Equality holds for EVERY allocator state, boot
    allocator state and region list: both final records, and the index-out-of-range panics of markFrame; a panic ends
    the Go loop while the model keeps it as a sticky outcome.  Side conditions: the pool slice has an int length, allocCount
    is a uint64 (at 2^64 or more the model's loop count and the 64-bit counter would differ), fuel above the number of pools
    and above allocCount.  [B3.to_gb ka kb ks ke st] is the bootMemAllocator record with the model state [st] and the four
    kernel fields; [B3.to_gr] maps a model region to a memory-map entry; both onto.
    NOT covered: the contract of multiboot.VisitMemRegions (property C10), as for C02's tie (Props/C02_trans.v); that
    nothing else touches bootMemAllocator between its last use and the hand-over is pmm.Init's call order.
    Statements only; proofs are in Pmm/BitmapTrans3.v. *)
From Coq Require Import NArith String List.
From FF Require Import Lib.GoOps Lib.GoVisit Gen.Consts_mm_pmm Gen.Trans_pmm_bitmap Pmm.Boot Pmm.Bitmap.
From FF Require Pmm.BitmapTrans Pmm.BitmapTrans3.
Module B := FF.Pmm.BitmapTrans.
Module B3 := FF.Pmm.BitmapTrans3.
Import ListNotations.
Local Open Scope N_scope.

(** the copy of BootMemAllocator.AllocFrame inside Gen/Trans_pmm_bitmap.v (the callee of the replay) is the model's
    [boot_alloc], exactly as C02_bootAllocFrame_is_translation states for C02's copy *)
Theorem C03_bootAllocFrame_is_translation :
  forall (ka kb ks ke : N) (st : bstate) (m : memmap),
    go_pmm_BootMemAllocator_AllocFrame (B3.to_gb ka kb ks ke st) (map B3.to_gr m) =
    GOk (B3.to_gb ka kb ks ke (fst (boot_alloc m ks ke st)),
         match snd (boot_alloc m ks ke st) with
         | Some f => (f, None)
         | None => (mm_InvalidFrame, Some "errBootAllocOutOfMemory"%string)
         end).
Proof. exact B3.bootAllocFrame_is_translation. Qed.
Print Assumptions C03_bootAllocFrame_is_translation.

Theorem C03_reserveEarlyAllocatorFrames_is_translation :
  forall (mtx : bool) (a : balloc) (tr : list gevent) (ka kb ks ke : N) (bst : bstate) (m : memmap) (fuel : nat),
    N.of_nat (length (a_pools a)) < 2 ^ 63 -> (length (a_pools a) < fuel)%nat ->
    b_count bst < 2 ^ 64 -> (N.to_nat (b_count bst) < fuel)%nat ->
    go_pmm_BitmapAllocator_reserveEarlyAllocatorFrames fuel (B.to_ga mtx a tr) (B3.to_gb ka kb ks ke bst) (map B3.to_gr m) =
    match reserve_early m ks ke a bst with
    | (bst', Ok a') => GOk (B.to_ga mtx a' tr, B3.to_gb ka kb ks ke bst')
    | (_, Panic) => GPanic
    | (_, Hang) => GFuel
    end.
Proof. exact B3.reserveEarlyAllocatorFrames_is_translation. Qed.
Print Assumptions C03_reserveEarlyAllocatorFrames_is_translation.

(** every bootMemAllocator record and every list of memory-map entries is the image of a model value *)
Theorem C03_trans3_abstraction_onto :
  (forall g : go_pmm_BootMemAllocator, exists ka kb ks ke st, g = B3.to_gb ka kb ks ke st) /\
  (forall gs : list go_multiboot_MemoryMapEntry, exists m, gs = map B3.to_gr m).
Proof. exact (conj B3.to_gb_onto B3.to_gr_list_onto). Qed.
Print Assumptions C03_trans3_abstraction_onto.

(** ---- BitmapAllocator.init: the call order of the hand-over ----
        if err := alloc.setupPoolBitmaps(); err != nil { return err }
        alloc.reserveKernelFrames(); alloc.reserveEarlyAllocatorFrames(); alloc.printStats(); return nil
    setupPoolBitmaps (unsafe slice headers, vmm seams) and printStats (kfmt) are NOT translated (config "opaquecalls"):
    each is the event [GEv name []] on the allocator's trace, so their position in the call order is part of the result;
    what setupPoolBitmaps does to the two structs and the error it returns come from the ORACLE [o], a parameter of the
    translation applied to the allocator (already carrying the event) and the bootMemAllocator record.  printStats is
    assumed to change nothing.  reserveKernelFrames reads kernelStartFrame / kernelEndFrame from the record the oracle left.
    For EVERY pair of records and EVERY oracle, writing the oracle's answer as (B.to_ga mtx a0 tr0, B3.to_gb ka kb ks ke b0, err)
    (always possible, the maps are onto): an error is returned at once with the oracle's records and no further call;
    otherwise the result is the model's [B3.init_tail m ks ke a0 b0] = [reserve_kernel] then [reserve_early], followed by
    the printStats event.  Side conditions = those of the two parts (sizes, kernelEndFrame < 2^64-1, allocCount a uint64, fuel). *)
Theorem C03_init_is_translation :
  forall (ga : go_pmm_BitmapAllocator) (gb : go_pmm_BootMemAllocator)
         (o : go_pmm_BitmapAllocator -> go_pmm_BootMemAllocator -> go_pmm_BitmapAllocator * go_pmm_BootMemAllocator * option string)
         (mtx : bool) (a0 : balloc) (tr0 : list gevent) (ka kb ks ke : N) (b0 : bstate) (err : option string)
         (m : memmap) (fuel : nat),
    o (set_f_BitmapAllocator_trace ga (GEv "setupPoolBitmaps" [] :: f_BitmapAllocator_trace ga)) gb =
      (B.to_ga mtx a0 tr0, B3.to_gb ka kb ks ke b0, err) ->
    N.of_nat (length (a_pools a0)) < 2 ^ 63 -> (length (a_pools a0) < fuel)%nat ->
    ke < 2 ^ 64 - 1 -> (N.to_nat (ke + 1 - ks) < fuel)%nat ->
    b_count b0 < 2 ^ 64 -> (N.to_nat (b_count b0) < fuel)%nat ->
    go_pmm_BitmapAllocator_init fuel ga gb o (map B3.to_gr m) =
    match err with
    | Some e => GOk (B.to_ga mtx a0 tr0, (Some e, B3.to_gb ka kb ks ke b0))
    | None =>
        match B3.init_tail m ks ke a0 b0 with
        | Ok (a2, b') => GOk (B.to_ga mtx a2 (GEv "printStats" [] :: tr0), (None, B3.to_gb ka kb ks ke b'))
        | Panic => GPanic
        | Hang => GFuel
        end
    end.
Proof. exact B3.init_is_translation. Qed.
Print Assumptions C03_init_is_translation.

(** [init_tail] is the tail of the model's [pmm_init] (about which C01_early_frames_good and C03's init statistics are
    proved): whenever the model's set-up part - its model of setupPoolBitmaps - succeeds, leaving the boot allocator in
    [b], pmm.Init's result is that of [init_tail] on the fresh pools. *)
Theorem C03_pmm_init_is_setup_then_tail :
  forall (m : memmap) (kstart kend limit mapfail : N) (b : bstate) (calls : list mapcall),
    let ks := kernel_start_frame kstart in
    let ke := kernel_end_frame kend in
    let npools := fst (fst (pass1 m 0)) in
    let total := snd (fst (pass1 m 0)) in
    let bytes := required_bytes npools (snd (pass1 m 0)) in
    (limit <? bytes) = false ->
    map_pages m ks ke (N.shiftr bytes PageShift) mapfail = MGo b calls ->
    (N.of_nat (length (pass2 m)) =? npools) = true ->
    (bytes <? layout_bytes m npools) = false ->
    fst (pmm_init m kstart kend limit mapfail) =
    match B3.init_tail m ks ke (mkBA total 0 (pass2 m)) b with
    | Ok (a, b') => InitOk a b'
    | Panic => InitPanic
    | Hang => InitHang
    end.
Proof. exact B3.pmm_init_tail. Qed.
Print Assumptions C03_pmm_init_is_setup_then_tail.
