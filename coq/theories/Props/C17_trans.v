(** C17 — tie of the terminal model to the source BY TRANSLATION, for the loop-free methods.
    Gen/Trans_tty_vt.v is regenerated on every run by gen/gotrans (go/ast) from
    kernel/device/tty/vt.go: the VT struct becomes a record (the console reference is modelled as
    "is non-nil"), each method a Gallina function.  The hand-written model Tty/Vt.v, about which
    [C17_vt_refines] and [C17_vt_in_bounds] are proved, is shown equal to it for State,
    CursorPosition, updateDataOffset (the uint32 arithmetic of the buffer offset, widened to uint:
    the place where the cursor, the viewport and the buffer meet), SetCursorPosition and cr.
    Statements only; proofs are in Tty/VtTrans.v.

    SECOND PART (below): the extended mode of gen/gotrans (loops on fuel, stores, switch, Go int, console
    calls as events; Gen/Trans_tty_vt_full.v, regenerated on every run from the same file) covers the
    WHOLE of vt.go: lf, doWrite, WriteByte, Write, SetState and AttachTo are proved equal to the
    hand-written model too - states, returned values, console calls and run-time panics.  Proofs are in
    Tty/VtFullTrans.v. *)
From Coq Require Import NArith String List Bool.
From FF Require Import Lib.Word Lib.GoOps Gen.Trans_tty_vt Tty.Vt Tty.VtTrans.
Local Open Scope N_scope.

Theorem C17_vt_model_is_translation :
  forall v : vt,
    go_tty_VT_State (to_go v) = Some (to_go v, st v) /\
    go_tty_VT_CursorPosition (to_go v) = Some (to_go v, (cx v, cy v)) /\
    go_tty_VT_updateDataOffset (to_go v) = Some (to_go (update_data_offset v), tt) /\
    go_tty_VT_cr (to_go v) = Some (to_go (cr v), tt) /\
    (forall x y, go_tty_VT_SetCursorPosition (to_go v) x y = Some (to_go (set_cursor_position v x y), tt)).
Proof.
  intros v.
  exact (conj (state_is_translation v) (conj (cursorPosition_is_translation v)
        (conj (updateDataOffset_is_translation v) (conj (cr_is_translation v)
        (fun x y => setCursorPosition_is_translation v x y))))).
Qed.
Print Assumptions C17_vt_model_is_translation.

(** ---------------------------------------------------------------------------------------------
    Second part: every method of tty.VT, in the extended translation.
    [F.*] = Gen/Trans_tty_vt_full.v (results in [gres]: GOk / GPanic = Go run-time panic / GFuel = a loop
    ran out of fuel).  [T.to_gof] maps the model's record to the translation's (console reference = "is
    non-nil", the console calls of [trace] as [gevent]s, most recent first).
    Preconditions: [T.vt_pre v] - the record is a Go value whose int arithmetic in lf cannot overflow
    (viewportY < 2^32, len(data) < 2^63, stride = uint32(3*viewportWidth) < 2^31; beyond that the
    hand-written model, which computes the scroll offsets in unbounded N, and Go's int differ);
    tabWidth is a uint8; for lf / doWrite the console is attached or the terminal inactive (WriteByte,
    Write and SetState check it themselves; a call through a nil console is a panic in the translation).
    Fuel: [T.vt_fuel v] = 2^32 * stride + 256 bounds every loop of lf (scroll: at most 2^32 * stride
    iterations; blank: stride) and the tab loop (255); Write needs in addition fuel > len(data);
    SetState fuel > viewportWidth + 1 and > viewportHeight + 1; AttachTo fuel > 2^32 (the fill loop runs
    len/3 + 1 <= 2^32 / 3 + 1 times).  [C17_vt_trans_pre_kept]: the preconditions and the fuel bound are
    kept by every operation, so the equalities chain along a history. *)
From FF Require Gen.Trans_tty_vt_full Tty.VtFullTrans.
Module F := FF.Gen.Trans_tty_vt_full.
Module T := FF.Tty.VtFullTrans.

Theorem C17_vt_full_loopfree_is_translation :
  forall v : vt,
    F.go_tty_VT_State (T.to_gof v) = GOk (T.to_gof v, st v) /\
    F.go_tty_VT_CursorPosition (T.to_gof v) = GOk (T.to_gof v, (cx v, cy v)) /\
    F.go_tty_VT_updateDataOffset (T.to_gof v) = GOk (T.to_gof (update_data_offset v), tt) /\
    F.go_tty_VT_cr (T.to_gof v) = GOk (T.to_gof (cr v), tt) /\
    (forall x y, F.go_tty_VT_SetCursorPosition (T.to_gof v) x y = GOk (T.to_gof (set_cursor_position v x y), tt)).
Proof.
  intros v.
  exact (conj (T.state_full v) (conj (T.cursorPosition_full v)
        (conj (T.updateDataOffset_full v) (conj (T.cr_full v)
        (fun x y => T.setCursorPosition_full v x y))))).
Qed.
Print Assumptions C17_vt_full_loopfree_is_translation.

(** lf: the two scroll loops and the console synchronisation *)
Theorem C17_vt_lf_is_translation :
  forall (v : vt) (withCR : bool) (fuel : nat),
    T.vt_pre v -> attached v = true \/ active v = false -> (N.to_nat (T.vt_fuel v) < fuel)%nat ->
    F.go_tty_VT_lf fuel (T.to_gof v) withCR =
    match lf v withCR with Ok v' => GOk (T.to_gof v', tt) | PanicOOB => GPanic end.
Proof. exact T.lf_is_translation. Qed.
Print Assumptions C17_vt_lf_is_translation.

Theorem C17_vt_doWrite_is_translation :
  forall (v : vt) (b : N) (advance : bool) (fuel : nat),
    T.vt_pre v -> attached v = true \/ active v = false -> (N.to_nat (T.vt_fuel v) < fuel)%nat ->
    F.go_tty_VT_doWrite fuel (T.to_gof v) b advance =
    match do_write v b advance with Ok v' => GOk (T.to_gof v', tt) | PanicOOB => GPanic end.
Proof. exact T.doWrite_is_translation. Qed.
Print Assumptions C17_vt_doWrite_is_translation.

(** WriteByte (switch, the tab loop): error 1 of the model = io.ErrClosedPipe *)
Theorem C17_vt_writeByte_is_translation :
  forall (v : vt) (b : N) (fuel : nat),
    T.vt_pre v -> tabw v < 256 -> (N.to_nat (T.vt_fuel v) < fuel)%nat ->
    F.go_tty_VT_WriteByte fuel (T.to_gof v) b =
    match write_byte v b with
    | Ok (v', e) => GOk (T.to_gof v', if e =? 0 then None else Some "io.ErrClosedPipe"%string)
    | PanicOOB => GPanic
    end.
Proof. exact T.writeByte_is_translation. Qed.
Print Assumptions C17_vt_writeByte_is_translation.

(** Write (range loop with early return): (count, err) *)
Theorem C17_vt_write_is_translation :
  forall (v : vt) (bs : list N) (fuel : nat),
    T.vt_pre v -> tabw v < 256 -> (N.to_nat (T.vt_fuel v) < fuel)%nat -> (length bs < fuel)%nat ->
    F.go_tty_VT_Write fuel (T.to_gof v) bs =
    match write v bs 0 with
    | Ok (v', n, e) => GOk (T.to_gof v', (n, if e =? 0 then None else Some "io.ErrClosedPipe"%string))
    | PanicOOB => GPanic
    end.
Proof. exact T.write_is_translation. Qed.
Print Assumptions C17_vt_write_is_translation.

(** SetState (the nested redraw loops; uint32 counters: the viewport must be narrower / lower than 2^32 - 1) *)
Theorem C17_vt_setState_is_translation :
  forall (v : vt) (s : N) (fuel : nat),
    vw v < two32 - 1 -> vh v < two32 - 1 ->
    (N.to_nat (vw v) + 1 < fuel)%nat -> (N.to_nat (vh v) + 1 < fuel)%nat ->
    F.go_tty_VT_SetState fuel (T.to_gof v) s =
    match set_state v s with Ok v' => GOk (T.to_gof v', tt) | PanicOOB => GPanic end.
Proof. exact T.setState_is_translation. Qed.
Print Assumptions C17_vt_setState_is_translation.

(** AttachTo: a nil console changes nothing; a console reporting Dimensions = (w, h), DefaultColors = (fg, bg)
    (make([]uint8, n) and the fill loop) *)
Theorem C17_vt_attachTo_is_translation :
  forall (v : vt) (w h fg bg : N) (fuel : nat),
    F.go_tty_VT_AttachTo fuel (T.to_gof v) false fg bg w h = GOk (T.to_gof v, tt) /\
    ((N.to_nat two32 < fuel)%nat ->
     F.go_tty_VT_AttachTo fuel (T.to_gof v) true fg bg w h =
     match attach v w h fg bg with Ok v' => GOk (T.to_gof v', tt) | PanicOOB => GPanic end).
Proof.
  intros v w h fg bg fuel.
  exact (conj (T.attachTo_nil_is_translation v fuel fg bg w h) (T.attachTo_is_translation v w h fg bg fuel)).
Qed.
Print Assumptions C17_vt_attachTo_is_translation.

Theorem C17_vt_trans_pre_kept :
  (forall v b v' e, write_byte v b = Ok (v', e) -> T.vt_pre v ->
     T.vt_pre v' /\ tabw v' = tabw v /\ T.vt_fuel v' = T.vt_fuel v) /\
  (forall v x y, T.vt_pre v ->
     T.vt_pre (set_cursor_position v x y) /\ tabw (set_cursor_position v x y) = tabw v /\
     T.vt_fuel (set_cursor_position v x y) = T.vt_fuel v) /\
  (forall v s v', set_state v s = Ok v' -> T.vt_pre v ->
     T.vt_pre v' /\ tabw v' = tabw v /\ T.vt_fuel v' = T.vt_fuel v) /\
  (forall v w h fg bg v', attach v w h fg bg = Ok v' -> w32 (w * 3) < 2 ^ 31 ->
     T.vt_pre v' /\ tabw v' = tabw v).
Proof. exact T.vt_pre_kept. Qed.
Print Assumptions C17_vt_trans_pre_kept.
