(** C17 — tie of the terminal model to the source BY TRANSLATION, for the loop-free methods.
    Gen/Trans_tty_vt.v is regenerated on every run by gen/gotrans (go/ast) from
    kernel/device/tty/vt.go: the VT struct becomes a record (the console reference is modelled as
    "is non-nil"), each method a Gallina function.  The hand-written model Tty/Vt.v, about which
    [C17_vt_refines] and [C17_vt_in_bounds] are proved, is shown equal to it for State,
    CursorPosition, updateDataOffset (the uint32 arithmetic of the buffer offset, widened to uint:
    the place where the cursor, the viewport and the buffer meet), SetCursorPosition and cr.
    Statements only; proofs are in Tty/VtTrans.v.  AttachTo, SetState, Write, WriteByte, doWrite and lf
    (loops, console calls) are outside the translator's subset. *)
From Coq Require Import NArith List.
From FF Require Import Lib.Word Lib.GoOps Gen.Trans_tty_vt Tty.Vt Tty.VtTrans.
Local Open Scope N_scope.

Theorem C17_vt_model_is_translation :
  forall v : vt,
    go_tty_VT_State (to_go v) = Some (to_go v, st v) /\
    go_tty_VT_CursorPosition (to_go v) = Some (to_go v, (cx v, cy v)) /\
    go_tty_VT_updateDataOffset (to_go v) = Some (to_go (update_data_offset v), tt) /\
    go_tty_VT_cr (to_go v) = Some (to_go (cr v), tt) /\
    (forall x y, go_tty_VT_SetCursorPosition (to_go v) x y = Some (to_go (set_cursor_position v x y), tt)).
Proof.
  intros v.
  exact (conj (state_is_translation v) (conj (cursorPosition_is_translation v)
        (conj (updateDataOffset_is_translation v) (conj (cr_is_translation v)
        (fun x y => setCursorPosition_is_translation v x y))))).
Qed.
Print Assumptions C17_vt_model_is_translation.
