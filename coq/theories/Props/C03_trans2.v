(** C03 / C01 - tie of the bitmap frame allocator to the source BY TRANSLATION, second part (see Props/C03_trans.v for
    the first): two of the functions of kernel/mm/pmm/bitmap_allocator.go that were not covered.
    Gen/Trans_pmm_bitmap.v is regenerated on every run by gen/gotrans (gen/gotrans/pmm_bitmap.json).

    - markFrame(poolIndex, frame, markFree): no caller in the kernel passes markFree (FreeFrame clears the bit inline),
      so Pmm/Bitmap.v has no such operation; [B2.mark_free] (Pmm/BitmapTrans2.v) is its model, the mirror image of
      [mark_reserved], and it is the state change of a successful [bitmap_free].
    - reserveKernelFrames: `for frame := kernelStartFrame; frame <= kernelEndFrame; frame++ { markFrame(poolIndex, frame,
      markReserved) }` with poolIndex = poolForFrame(kernelStartFrame).  The two fields of the package-level
      bootMemAllocator that it reads are parameters [ke ks] of the translation (config "extvars"; note the order).  The
      model [reserve_kernel] (Pmm/Bitmap.v, used by pmm_init and the C01/C03 init theorems) runs the loop only up to the
      end of the pool and keeps a panic as a sticky outcome; Go runs it to kernelEndFrame (the calls beyond the pool's
      end return at once) and stops at a panic: equal results.  Precondition kernelEndFrame < 2^64-1: at 2^64-1 the Go
      loop condition is always true; the model answers [Hang] at once, the translation runs out of fuel or, when a
      markFrame call panics first, panics - the only input class on which the two differ, and no kernel image ends at
      frame 2^64-1.  Fuel: above the number of pools and above kernelEndFrame + 1 - kernelStartFrame.
    Not covered: reserveEarlyAllocatorFrames (it assigns fields of the package-level struct bootMemAllocator and calls
    its AllocFrame method: a second struct threaded through the function, which gen/gotrans does not do yet; its
    building blocks - BootMemAllocator.AllocFrame, poolForFrame, markFrame - are all tied), setupPoolBitmaps (unsafe).
    Statements only; proofs are in Pmm/BitmapTrans2.v. *)
From Coq Require Import NArith String List.
From FF Require Import Lib.GoOps Gen.Consts_mm_pmm Gen.Trans_pmm_bitmap Pmm.Bitmap.
From FF Require Pmm.BitmapTrans Pmm.BitmapTrans2.
Module B := FF.Pmm.BitmapTrans.
Module B2 := FF.Pmm.BitmapTrans2.
Import ListNotations.
Local Open Scope N_scope.

(** markFrame(poolIndex, frame, markFree); poolIndex = -1 is the model's [None] *)
Theorem C03_markFrame_free_is_translation :
  forall (mtx : bool) (a : balloc) (tr : list gevent) (pi : option nat) (f : N),
    N.of_nat (length (a_pools a)) < 2 ^ 63 -> (forall i, pi = Some i -> N.of_nat i < 2 ^ 63) ->
    go_pmm_BitmapAllocator_markFrame (B.to_ga mtx a tr)
      (match pi with Some i => N.of_nat i | None => 2 ^ 64 - 1 end) f true =
    match B2.mark_free a pi f with
    | Ok a' => GOk (B.to_ga mtx a' tr, tt)
    | Panic => GPanic
    | Hang => GFuel
    end.
Proof. exact B2.markFrame_free_is_translation. Qed.
Print Assumptions C03_markFrame_free_is_translation.

(** [mark_free] is what a successful FreeFrame does *)
Theorem C03_mark_free_is_bitmap_free :
  forall (a : balloc) (f : N) (i : nat) (a' : balloc),
    pool_for_frame a f = Some i -> bitmap_free a f = (a', FreeOk) -> B2.mark_free a (Some i) f = Ok a'.
Proof. exact B2.mark_free_is_bitmap_free. Qed.
Print Assumptions C03_mark_free_is_bitmap_free.

(** reserveKernelFrames; [ks ke] = bootMemAllocator.kernelStartFrame / kernelEndFrame *)
Theorem C03_reserveKernelFrames_is_translation :
  forall (mtx : bool) (a : balloc) (tr : list gevent) (ks ke : N) (fuel : nat),
    N.of_nat (length (a_pools a)) < 2 ^ 63 -> (length (a_pools a) < fuel)%nat ->
    ke < 2 ^ 64 - 1 -> (N.to_nat (ke + 1 - ks) < fuel)%nat ->
    go_pmm_BitmapAllocator_reserveKernelFrames fuel (B.to_ga mtx a tr) ke ks =
    match reserve_kernel a ks ke with
    | Ok a' => GOk (B.to_ga mtx a' tr, tt)
    | Panic => GPanic
    | Hang => GFuel
    end.
Proof. exact B2.reserveKernelFrames_is_translation. Qed.
Print Assumptions C03_reserveKernelFrames_is_translation.
