(** C13 — the namespace tree stays well-formed under every sequence of legal edits, freed slots are
    reused before the pool grows, and path lookup follows the ACPI search rules for every byte
    string from every live scope, without crashing.
    Statements only; every proof is [exact <lemma from Aml/TreeProofs*.v>].

    Vocabulary (Aml/TreeSpec.v): [ghost] = abstract forest (children list of every slot, list of
    freed slots); [R t g] = the pool [t] realises the forest [g]: first/last/next/prev/parent agree
    with the children lists in both directions, detached objects carry no links, freed objects
    are childless, in nobody's child list and exactly the members of the free list threaded
    through nextSiblingIndex, parent links are acyclic; [legal g op] = creation (opcode inside the
    opcode maps and not the freed marker), append / insert-after of a live detached object that is
    not an ancestor of the new parent, detach of a child, free of a live childless object;
    [astep g op] = the corresponding list operation on the forest. *)
From Coq Require Import NArith List.
From FF Require Import Lib.Word Gen.Consts_aml_tree Aml.Stream Aml.Tree Aml.TreeSpec
                       Aml.TreeProofs Aml.TreeProofsOps Aml.TreeProofsFind Aml.TreeProofsAnc Aml.TreeProofsNew.
Import ListNotations.
Local Open Scope N_scope.

(** The empty tree realises the empty forest. *)
Theorem C13_R_empty : forall V : Type, R (@NewObjectTree V) ghost0.
Proof. intros V. exact R_empty. Qed.
Print Assumptions C13_R_empty.

(** Every legal operation runs without panic, preserves [R] and performs the corresponding list
    operation on the forest. *)
Theorem C13_op_preserves_R :
  forall (V : Type) (t : ObjectTree V) (g : ghost) (o : op),
    R t g -> legal g o -> exists t', step t o = Ok t' /\ R t' (astep g o).
Proof. intros V. exact step_R. Qed.
Print Assumptions C13_op_preserves_R.

(** ... hence so does every history of legal operations, from any well-formed tree. *)
Theorem C13_ops_preserve_R :
  forall (V : Type) (ops : list op) (t : ObjectTree V) (g : ghost),
    R t g -> legal_seq g ops -> exists t', run t ops = Ok t' /\ R t' (arun g ops).
Proof. intros V. exact run_R. Qed.
Print Assumptions C13_ops_preserve_R.

(** From the empty tree: every legal history that starts with a creation and never frees slot 0
    ends in a well-formed tree whose root scope (slot 0) is live -- the situation in which the
    lookup theorems below apply to every live scope. *)
Theorem C13_history_from_empty :
  forall (V : Type) (o : op) (ops : list op),
    legal_seq ghost0 (o :: ops) ->
    (exists opc th, o = OpNew opc th) \/ (exists opc th nm, o = OpNewNamed opc th nm) ->
    ~ In (OpFree 0) ops ->
    exists t', run (@NewObjectTree V) (o :: ops) = Ok t' /\ R t' (arun ghost0 (o :: ops)) /\ live t' 0.
Proof. intros V. exact run_root_live. Qed.
Print Assumptions C13_history_from_empty.

(** [newObject] grows the pool only when no freed slot exists; otherwise it hands out a freed slot. *)
Theorem C13_reuse_before_grow :
  forall (V : Type) (t t' : ObjectTree V) (g : ghost) (opc th p : N),
    R t g -> newObject t opc th = Ok (t', p) ->
    ((exists i o, get t i = Some o /\ o_opcode o = opFreed) ->
        length (t_pool t') = length (t_pool t) /\
        (exists o, get t p = Some o /\ o_opcode o = opFreed) /\
        (exists o', get t' p = Some o' /\ o_opcode o' = opc)) /\
    ((forall i o, get t i = Some o -> o_opcode o <> opFreed) ->
        length (t_pool t') = S (length (t_pool t)) /\ p = N.of_nat (length (t_pool t))).
Proof. intros V. exact reuse_before_grow_lemma. Qed.
Print Assumptions C13_reuse_before_grow.

(** Path lookup.  For EVERY byte string [expr] and every live scope of a well-formed tree whose
    root scope (slot 0) is live, [Find] returns exactly what the reference resolver [resolve]
    (Aml/TreeSpec.v, over the abstract forest; names read from the objects) designates:
      '\' + path     resolved downward from slot 0;
      '^'... + path  one parent per '^' (not found above a root), then downward;
      4 bytes        the first child of that name in the scope, else in each enclosing scope;
      > 4 bytes      downward only, segment by segment (bytes that cannot start a name are
                     skipped before each segment; not found if fewer than 4 bytes remain);
      otherwise      not found. *)
Theorem C13_find_spec :
  forall (V : Type) (t : ObjectTree V) (g : ghost) (scope : N) (expr : list N),
    R t g -> live t scope -> live t 0 ->
    Find t scope expr = Ok (enc_result (resolve g (name_at t) scope expr)).
Proof. intros V t g scope expr HR. exact (Find_spec t g HR scope expr). Qed.
Print Assumptions C13_find_spec.

(** ... in particular it never panics (no nil dereference, no index out of range) and its loops
    end within the pool size, whatever the expression. *)
Theorem C13_find_total :
  forall (V : Type) (t : ObjectTree V) (g : ghost) (scope : N) (expr : list N),
    R t g -> live t scope -> live t 0 ->
    Find t scope expr <> Panic /\ Find t scope expr <> OutOfFuel.
Proof. intros V t g scope expr HR. exact (Find_total t g HR scope expr). Qed.
Print Assumptions C13_find_total.

(** the relative lookup used by the parser directly *)
Theorem C13_findRelative_spec :
  forall (V : Type) (t : ObjectTree V) (g : ghost) (scope : N) (expr : list N),
    R t g -> live t scope ->
    findRelative t scope expr = Ok (enc_result (resolve_rel g (name_at t) scope expr)).
Proof. intros V t g scope expr HR. exact (findRelative_spec t g HR scope expr). Qed.
Print Assumptions C13_findRelative_spec.

(** What a lookup returns is a live object (never a freed slot). *)
Theorem C13_find_result_live :
  forall (V : Type) (t : ObjectTree V) (g : ghost) (scope : N) (expr : list N) (r : N),
    R t g -> live t scope -> live t 0 -> Find t scope expr = Ok r -> r = InvalidIndex \/ live t r.
Proof. intros V t g scope expr r HR. exact (Find_result_live t g HR scope expr r). Qed.
Print Assumptions C13_find_result_live.

(** No freed object is reachable: every link of a live object is InvalidIndex or leads to a
    live object, and ObjectAt answers nil for a freed slot. *)
Theorem C13_freed_unreachable :
  forall (V : Type) (t : ObjectTree V) (g : ghost),
    R t g ->
    (forall i o, get t i = Some o -> o_opcode o <> opFreed ->
       forall l, In l [o_parent o; o_prev o; o_next o; o_first o; o_last o] -> l = InvalidIndex \/ live t l) /\
    (forall i o, get t i = Some o -> o_opcode o = opFreed -> ObjectAt t i = None /\ kids g i = [] /\
       forall p, ~ In i (kids g p)).
Proof. intros V t g HR. exact (freed_unreachable t g HR). Qed.
Print Assumptions C13_freed_unreachable.

(** NumArgs and ArgAt read the child list of the forest. *)
Theorem C13_numargs_argat :
  forall (V : Type) (t : ObjectTree V) (g : ghost) (p index : N),
    R t g -> live t p ->
    NumArgs t (Some p) = Ok (N.of_nat (length (kids g p))) /\
    ArgAt t (Some p) index = Ok (nth_error (kids g p) (N.to_nat index)).
Proof. intros V t g p index HR. exact (numargs_argat t g HR p index). Qed.
Print Assumptions C13_numargs_argat.

(** ClosestNamedAncestor: when every live object carries an opcode-table index inside the table
    ([info_ok]: true for objects created with an opcode that has a table entry), the ancestor
    search never panics and returns the nearest enclosing object whose table entry has the Named
    flag, or InvalidIndex if a Scope directive (or a root) is met first. *)
Theorem C13_closest_named_ancestor :
  forall (V : Type) (t : ObjectTree V) (g : ghost) (p : N),
    R t g -> info_ok t -> live t p ->
    ClosestNamedAncestor t (Some p) = Ok (enc_result (closest_ref t g p)).
Proof. intros V t g p HR Hi. exact (ClosestNamedAncestor_spec t g HR Hi p). Qed.
Print Assumptions C13_closest_named_ancestor.

(** An object made by newObject is unnamed and unlinked whether its slot is fresh or a reused slot of the
    free list: it carries the zero name (which no name segment of a lookup equals), the requested opcode and
    table handle, no value and no links.  (Before /repo d18acb2 a reused slot kept the name of the freed
    object: create a named object, free it, call newObject - Find resolved the old name to the new object.) *)
Theorem C13_newobject_unnamed :
  forall (V : Type) (t t' : ObjectTree V) (opcode tableHandle p : N),
    newObject t opcode tableHandle = Ok (t', p) ->
    exists o, get t' p = Some o /\ o_name o = name_zero /\ o_opcode o = opcode /\ o_tableHandle o = tableHandle /\
              o_value o = None /\ o_parent o = InvalidIndex /\ o_prev o = InvalidIndex /\ o_next o = InvalidIndex /\
              o_first o = InvalidIndex /\ o_last o = InvalidIndex.
Proof. intros V t t' opcode tableHandle p. exact (newObject_unnamed t t' opcode tableHandle p). Qed.
Print Assumptions C13_newobject_unnamed.
