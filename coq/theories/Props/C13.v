(** C13 — the namespace tree stays well-formed under every sequence of legal edits, freed slots are
    reused before the pool grows, and path lookup follows the ACPI search rules for every byte
    string from every live scope, without crashing.
    Statements only; every proof is [exact <lemma from Aml/TreeProofs*.v>].

    Vocabulary (Aml/TreeSpec.v): [ghost] = abstract forest (children list of every slot, list of
    freed slots); [R t g] = the pool [t] realises the forest [g]: first/last/next/prev/parent agree
    with the children lists in both directions, detached objects carry no links, freed objects
    are childless, in nobody's child list and exactly the members of the free list threaded
    through nextSiblingIndex, parent links are acyclic; [legal g op] = creation (opcode inside the
    opcode maps and not the freed marker), append / insert-after of a live detached object that is
    not an ancestor of the new parent, detach of a child, free of a live childless object;
    [astep g op] = the corresponding list operation on the forest. *)
From Coq Require Import NArith List.
From FF Require Import Lib.Word Gen.Consts_aml_tree Aml.Stream Aml.Tree Aml.TreeSpec
                       Aml.TreeProofs Aml.TreeProofsOps.
Import ListNotations.
Local Open Scope N_scope.

(** The empty tree realises the empty forest. *)
Theorem C13_R_empty : forall V : Type, R (@NewObjectTree V) ghost0.
Proof. intros V. exact R_empty. Qed.
Print Assumptions C13_R_empty.

(** Every legal operation runs without panic, preserves [R] and performs the corresponding list
    operation on the forest. *)
Theorem C13_op_preserves_R :
  forall (V : Type) (t : ObjectTree V) (g : ghost) (o : op),
    R t g -> legal g o -> exists t', step t o = Ok t' /\ R t' (astep g o).
Proof. intros V. exact step_R. Qed.
Print Assumptions C13_op_preserves_R.

(** ... hence so does every history of legal operations, from any well-formed tree. *)
Theorem C13_ops_preserve_R :
  forall (V : Type) (ops : list op) (t : ObjectTree V) (g : ghost),
    R t g -> legal_seq g ops -> exists t', run t ops = Ok t' /\ R t' (arun g ops).
Proof. intros V. exact run_R. Qed.
Print Assumptions C13_ops_preserve_R.

(** [newObject] grows the pool only when no freed slot exists; otherwise it hands out a freed slot. *)
Theorem C13_reuse_before_grow :
  forall (V : Type) (t t' : ObjectTree V) (g : ghost) (opc th p : N),
    R t g -> newObject t opc th = Ok (t', p) ->
    ((exists i o, get t i = Some o /\ o_opcode o = opFreed) ->
        length (t_pool t') = length (t_pool t) /\
        (exists o, get t p = Some o /\ o_opcode o = opFreed) /\
        (exists o', get t' p = Some o' /\ o_opcode o' = opc)) /\
    ((forall i o, get t i = Some o -> o_opcode o <> opFreed) ->
        length (t_pool t') = S (length (t_pool t)) /\ p = N.of_nat (length (t_pool t))).
Proof. intros V. exact reuse_before_grow_lemma. Qed.
Print Assumptions C13_reuse_before_grow.
