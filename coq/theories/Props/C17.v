(** C17 — the terminal emulator's state always matches the reference terminal.
    Statements only; every proof is [exact <lemma from Tty/VtProofs.v>].

    Model: Tty/Vt.v (vt.go with uint32/uint wrap-around and bounds-checked buffer accesses,
    [PanicOOB] = Go run-time panic).  Reference terminal: Tty/VtSpec.v ([h+sb] lines of [w] cells,
    viewport, cursor; CR, LF, BS, TAB, printable bytes, wrap, viewport moving through the
    scrollback and then scrolling), written from the property text. *)
From Coq Require Import NArith List.
From FF Require Import Lib.Word Gen.Consts_device_tty Tty.Vt Tty.VtSpec Tty.VtProofs Tty.VtLoops.
Import ListNotations.
Local Open Scope N_scope.

(** For every console geometry [w, h >= 1] (1x1, one column, one row included), every scrollback
    [sb >= 0], every tab width [0..255], every pair of default colours, with the buffer size
    [w*(h+sb)*3] representable in 32 bits, and for every history of API calls made after
    [NewVT(tab, sb)] and [AttachTo(console)] — [Write] of any byte string, [WriteByte],
    [SetCursorPosition] with any 32-bit coordinates, [SetState] with any state byte — the model
    does not panic and the terminal it ends in, read as lines of cells + viewport + cursor
    ([abs]), IS the reference terminal after the same history: same contents in every cell of
    viewport and scrollback, same viewport position, same cursor. *)
Theorem C17_vt_refines :
  forall w h sb tab fg bg (ops : list op),
    1 <= w -> 1 <= h -> tab <= 255 -> w * (h + sb) * 3 < two32 -> Forall op_wf ops ->
    exists v0 v,
      attach (new_vt tab sb) w h fg bg = Ok v0 /\
      run_ops v0 ops = Ok v /\
      abs v = ref_run w h sb tab fg bg ops.
Proof. exact vt_refines_thm. Qed.
Print Assumptions C17_vt_refines.

(** Under the same hypotheses no bounds-checked access ever fails ([run_ops] returns [Ok]: no
    [PanicOOB], i.e. no store or load outside the terminal's buffer), the invariant [InvVT] of
    DESIGN.md A.4 holds after every history — in particular the cursor is inside the viewport,
    the viewport is inside the buffer, the buffer keeps its size, and the three bytes the next
    store would touch ([dataOffset .. dataOffset+2]) lie inside the buffer.  Every prefix of a
    history is a history, so this holds at every point. *)
Theorem C17_vt_in_bounds :
  forall w h sb tab fg bg (ops : list op),
    1 <= w -> 1 <= h -> tab <= 255 -> w * (h + sb) * 3 < two32 -> Forall op_wf ops ->
    exists v0 v,
      attach (new_vt tab sb) w h fg bg = Ok v0 /\
      run_ops v0 ops = Ok v /\
      InvVT w h sb tab fg bg v /\
      1 <= cx v <= w /\ 1 <= cy v <= h /\ vy v + h <= h + sb /\
      length (data v) = N.to_nat (w * (h + sb) * 3) /\
      doff v + 2 < N.of_nat (length (data v)).
Proof. exact vt_in_bounds_thm. Qed.
Print Assumptions C17_vt_in_bounds.

(** The same, for one API call from any state satisfying the invariant (what the induction
    uses): the call succeeds, re-establishes the invariant, and commutes with the reference
    terminal's step. *)
Theorem C17_step :
  forall w h sb tab fg bg (v : vt) (r : rterm) (o : op),
    1 <= w -> 1 <= h -> w * (h + sb) * 3 < two32 ->
    InvVT w h sb tab fg bg v -> R w h sb v r -> op_wf o ->
    exists v' res,
      step v o = Ok (v', res) /\ InvVT w h sb tab fg bg v' /\
      R w h sb v' (r_step w h sb tab fg bg r o) /\ abs v' = r_step w h sb tab fg bg r o.
Proof. exact vt_step_thm. Qed.
Print Assumptions C17_step.

(** Write reports every byte as written and no error (the terminal is attached). *)
Theorem C17_write_result :
  forall w h sb tab fg bg (v : vt) (r : rterm) (bs : list N),
    1 <= w -> 1 <= h -> w * (h + sb) * 3 < two32 ->
    InvVT w h sb tab fg bg v -> R w h sb v r ->
    exists v', write v bs 0 = Ok (v', N.of_nat (length bs), 0).
Proof. exact vt_write_result_thm. Qed.
Print Assumptions C17_write_result.

(** The model summarises the two byte loops of the scroll branch of lf and the fill loop of AttachTo
    as one pass over the buffer (so that the extracted model can run long histories).  The
    summaries are the loops: [copy_loop] / [blank_loop] (Tty/VtLoops.v) perform the stores of the Go
    loops one by one with bounds checks, with as much fuel as the Go loop makes iterations; the
    equalities include the cases where the loop panics part-way. *)
Theorem C17_scroll_copy_is_loop :
  forall d s e stride, copy_down d s e stride = copy_loop (N.to_nat (e - s)) d s e stride.
Proof. exact copy_down_is_loop. Qed.
Print Assumptions C17_scroll_copy_is_loop.

Theorem C17_scroll_blank_is_loop :
  forall d e stride fg bg,
    blank_range d e stride fg bg = blank_loop (N.to_nat ((stride + 2) / 3)) d e (e + stride) fg bg.
Proof. exact blank_range_is_loop. Qed.
Print Assumptions C17_scroll_blank_is_loop.

Theorem C17_attach_fill_is_loop :
  forall len fg bg,
    blank_loop (N.to_nat ((len + 2) / 3)) (repeat 0 (N.to_nat len)) 0 len fg bg =
    if len mod 3 =? 0 then Some (blank_cells (len / 3) fg bg) else None.
Proof. exact attach_fill_is_loop. Qed.
Print Assumptions C17_attach_fill_is_loop.
