(** C19 - tie of the VGA text console model to the source BY TRANSLATION.
    Gen/Trans_console_vga.v is regenerated on every run by gen/gotrans (extended mode) from
    kernel/device/video/console/vga_text.go: VgaTextConsole becomes a record (width, height, fbPhysAddr, the
    []uint16 framebuffer as a list, the palette by its length, default colours, clear character), Dimensions,
    DefaultColors, Write, Fill and Scroll become Gallina functions returning [gres] (value / GPanic = index out of
    range / GFuel = a loop ran out of fuel).  The hand-written model Console/Vga.v ([vga_write], [vga_fill],
    [vga_scroll]; framebuffer as Console/Mem.v memory, loops on the binary fuel [fuel32] = 2^33), about which
    the C19 theorems are proved, is shown equal to that translation for EVERY console [c], framebuffer [m] and
    arguments (colours and character are bytes): whenever the model's run ends - [Ok m'] or [Panic] - the
    translation with fuel >= fuel32 returns [V.to_gv c phys m'] resp. GPanic; under C19's geometry [vga_wf] the
    runs of Fill and Scroll end with [Ok] ([C19_vga_trans_no_panic]).  [V.to_gv c phys m]: the record with the
    model's width/height, the table of [load m] over 0..flen-1 as framebuffer and the generated constants.
    Statements only; proofs are in Console/VgaTrans.v. *)
From Coq Require Import NArith PArith String List.
From FF Require Import Lib.Word Lib.GoOps Gen.Consts_device_tty Gen.Consts_device_video_console Gen.Trans_console_vga.
From FF Require Import Console.Mem Console.Loop Console.Vga Console.VgaProofs.
From FF Require Console.VgaTrans.
Module V := FF.Console.VgaTrans.
Local Open Scope N_scope.

Theorem C19_vga_queries_are_translation :
  forall (c : vga) (phys : N) (m : fbuf) (dim : N),
    go_console_VgaTextConsole_Dimensions (V.to_gv c phys m) dim =
      GOk (V.to_gv c phys m, if dim =? console_Characters then (vw c, vh c) else (w32 (vw c * 8), w32 (vh c * 16))) /\
    go_console_VgaTextConsole_DefaultColors (V.to_gv c phys m) = GOk (V.to_gv c phys m, (vga_defaultFg, vga_defaultBg)).
Proof. intros c phys m dim. exact (conj (V.dimensions_trans c phys m dim) (V.defaultColors_trans c phys m)). Qed.
Print Assumptions C19_vga_queries_are_translation.

Theorem C19_vga_write_is_translation :
  forall (c : vga) (phys : N) (m : fbuf) (ch fg bg x y : N),
    ch < 256 -> fg < 256 -> bg < 256 ->
    go_console_VgaTextConsole_Write (V.to_gv c phys m) ch fg bg x y =
    match vga_write c m ch fg bg x y with
    | Ok m' => GOk (V.to_gv c phys m', tt)
    | Panic _ => GPanic
    | OutOfFuel _ => GFuel
    end.
Proof. exact V.write_is_translation. Qed.
Print Assumptions C19_vga_write_is_translation.

Theorem C19_vga_fill_is_translation :
  forall (c : vga) (phys : N) (m : fbuf) (x y width height fg bg : N) (fuel : nat),
    fg < 256 -> bg < 256 -> (Pos.to_nat fuel32 <= fuel)%nat ->
    match vga_fill c m x y width height fg bg with
    | Ok m' => go_console_VgaTextConsole_Fill fuel (V.to_gv c phys m) x y width height fg bg = GOk (V.to_gv c phys m', tt)
    | Panic _ => go_console_VgaTextConsole_Fill fuel (V.to_gv c phys m) x y width height fg bg = GPanic
    | OutOfFuel _ => True
    end.
Proof. exact V.fill_is_translation_explicit. Qed.
Print Assumptions C19_vga_fill_is_translation.

Theorem C19_vga_scroll_is_translation :
  forall (c : vga) (phys : N) (m : fbuf) (dir lines : N) (fuel : nat),
    (Pos.to_nat fuel32 <= fuel)%nat ->
    match vga_scroll c m dir lines with
    | Ok m' => go_console_VgaTextConsole_Scroll fuel (V.to_gv c phys m) dir lines = GOk (V.to_gv c phys m', tt)
    | Panic _ => go_console_VgaTextConsole_Scroll fuel (V.to_gv c phys m) dir lines = GPanic
    | OutOfFuel _ => True
    end.
Proof. exact V.scroll_is_translation_explicit. Qed.
Print Assumptions C19_vga_scroll_is_translation.

Theorem C19_vga_trans_no_panic :
  forall (c : vga) (phys : N) (m : fbuf) (fuel : nat),
    vga_wf c m -> (Pos.to_nat fuel32 <= fuel)%nat ->
    (forall x y width height fg bg, fg < 256 -> bg < 256 ->
       exists m', vga_fill c m x y width height fg bg = Ok m' /\
         go_console_VgaTextConsole_Fill fuel (V.to_gv c phys m) x y width height fg bg = GOk (V.to_gv c phys m', tt)) /\
    (forall dir lines, lines < two32 ->
       exists m', vga_scroll c m dir lines = Ok m' /\
         go_console_VgaTextConsole_Scroll fuel (V.to_gv c phys m) dir lines = GOk (V.to_gv c phys m', tt)).
Proof. exact V.trans_no_panic. Qed.
Print Assumptions C19_vga_trans_no_panic.
