(** Concrete runs for Props/C03_trans5.v: the connected fragments of setupPoolBitmaps by vm_compute. *)
From Coq Require Import NArith String List Lia.
From FF Require Import Lib.Word Lib.GoOps Lib.GoVisit Gen.Consts_mm_pmm Gen.Trans_pmm_bitmap Pmm.Boot Pmm.Bitmap Pmm.BitmapTrans Pmm.BitmapTrans3 Pmm.BitmapTrans5.
From FF Require Import Props.C03_trans4_examples Props.C03_trans5.
From FF Require Props.C01_examples.
Import ListNotations.
Local Open Scope N_scope.

(** the 4-region map of Props/C03_trans4_examples.v: 2 pools, 193 pages, one page of state at 0xffff800000000000; the pools
    get their frames, freeCount and 2 resp. 2 zero bitmap words; the area ends 0x90 + 16 + 16 bytes behind its start *)
Example C03_trans5_setup_run :
  go_setup_sizes ga0 (map to_gr ex4_map) 0xffff800000000000 =
  GOk (to_ga true (mkBA 193 0 []) [], 2, 4096, 1,
       [mkPool 0x101 0x141 65 [0; 0]; mkPool 0x200 0x27f 128 [0; 0]], 0xffff8000000000b0).
Proof. vm_compute. reflexivity. Qed.

Example C03_trans5_setup_model : pass2 ex4_map = [mkPool 0x101 0x141 65 [0; 0]; mkPool 0x200 0x27f 128 [0; 0]] /\ layout_bytes ex4_map 2 = 0xb0.
Proof. vm_compute. split; reflexivity. Qed.

Example C03_setupPoolBitmaps_is_model_nonvacuous : N.of_nat (length ex4_map) < 2 ^ 64.
Proof. cbn. lia. Qed.

(** the hypotheses of C03_init_with_model_setup hold on the map of Props/C01_examples.v with an oracle that answers
    with the model's set-up; the translated init then yields pmm_init's allocator *)
Definition o_model (ga : go_pmm_BitmapAllocator) (gb : go_pmm_BootMemAllocator) :=
  (to_ga true (mkBA (snd (fst (pass1 C01_examples.pm_map 0))) 0 (pass2 C01_examples.pm_map)) (f_BitmapAllocator_trace ga),
   to_gb C01_examples.pm_kstart C01_examples.pm_kend
         (kernel_start_frame C01_examples.pm_kstart) (kernel_end_frame C01_examples.pm_kend) (mkB 1 1), @None string).

Example C03_trans5_init_is_pmm_init :
  go_pmm_BitmapAllocator_init 300 (to_ga true empty_alloc []) (mk_go_pmm_BootMemAllocator 0 0 0 0 0 0) o_model (map to_gr C01_examples.pm_map) =
  match fst C01_examples.pm_init_result with
  | InitOk a2 b' => GOk (to_ga true a2 [GEv "printStats" []; GEv "setupPoolBitmaps" []],
                         (None, to_gb C01_examples.pm_kstart C01_examples.pm_kend
                                      (kernel_start_frame C01_examples.pm_kstart) (kernel_end_frame C01_examples.pm_kend) b'))
  | _ => GPanic
  end /\
  match fst C01_examples.pm_init_result with InitOk _ _ => True | _ => False end.
Proof. vm_compute. split; [reflexivity|exact I]. Qed.

(** [audit A] ALL hypotheses of C03_init_with_model_setup discharged together (map of Props/C01_examples.v: 3 pools, kernel
    frames 3..5, one early-boot frame, limit 2^64, no map failure, fuel 300) and the theorem applied *)
Example C03_init_with_model_setup_nonvacuous :
  go_pmm_BitmapAllocator_init 300 (to_ga true empty_alloc []) (mk_go_pmm_BootMemAllocator 0 0 0 0 0 0) o_model (map to_gr C01_examples.pm_map) =
  match fst (pmm_init C01_examples.pm_map C01_examples.pm_kstart C01_examples.pm_kend two64 0) with
  | InitOk a2 b' => GOk (to_ga true a2 [GEv "printStats" []; GEv "setupPoolBitmaps" []],
                         (None, to_gb C01_examples.pm_kstart C01_examples.pm_kend
                                      (kernel_start_frame C01_examples.pm_kstart) (kernel_end_frame C01_examples.pm_kend) b'))
  | InitPanic => GPanic
  | InitHang => GFuel
  | _ => GPanic
  end.
Proof.
  assert (Hm : exists calls, map_pages C01_examples.pm_map (kernel_start_frame C01_examples.pm_kstart) (kernel_end_frame C01_examples.pm_kend)
             (N.shiftr (required_bytes (fst (fst (pass1 C01_examples.pm_map 0))) (snd (pass1 C01_examples.pm_map 0))) PageShift) 0 = MGo (mkB 1 1) calls)
    by (eexists; vm_compute; reflexivity).
  destruct Hm as [calls Hm].
  apply (C03_init_with_model_setup (to_ga true empty_alloc []) (mk_go_pmm_BootMemAllocator 0 0 0 0 0 0) o_model
           true [GEv "setupPoolBitmaps" []] C01_examples.pm_kstart C01_examples.pm_kend C01_examples.pm_map
           C01_examples.pm_kstart C01_examples.pm_kend two64 0 (mkB 1 1) calls 300).
  - vm_compute. reflexivity.
  - exact Hm.
  - vm_compute. reflexivity.
  - vm_compute. reflexivity.
  - vm_compute. reflexivity.
  - vm_compute. lia.
  - vm_compute. reflexivity.
  - vm_compute. lia.
  - vm_compute. reflexivity.
  - vm_compute. lia.
Qed.
