(** C07 - tie of MapRegion / IdentityMapRegion to the source BY TRANSLATION (the existing
    [C07_model_is_translation] covers EarlyReserveRegion and the page/frame helpers).
    Gen/Trans_mm_vmm2.v is regenerated on every run by gen/gotrans (extended mode) from kernel/mm/vmm/map.go.
    The two functions have no receiver: the translation threads a record [world] holding only the trace of the
    calls made through the package-level function variables [earlyReserveRegionFn] and [mapFn] - the seams the
    Go tests mock - as [GCall name [GNum arg; ..]], most recent first; what a call returns is given by an oracle
    on that trace.  The hand-written model Vmm/Region.v ([map_region], [identity_map_region]) fixes the
    environment: reservation by [early_reserve] from a cursor [last], and a mapFn that fails at call number
    [fail] (if any).  [R.o_reserve last] and [R.o_map fail base] are the oracles of exactly that environment
    ([base] = the length of the trace when the page loop starts).  The theorems: for all 64-bit arguments and
    fuel above the page count, the translation makes exactly the model's calls in the model's order
    (the reservation first, unless the size round-up wrapped), and returns the model's page - or 0 with
    errEarlyReserveNoSpace (round-up wrapped / nothing reserved) or the mapFn error.
    Statements only; proofs are in Vmm/RegionTrans2.v. *)
From Coq Require Import NArith String List.
From FF Require Import Lib.Word Lib.GoOps Gen.Consts_mm_vmm Gen.Trans_mm_vmm2 Vmm.Region.
From FF Require Vmm.RegionTrans2.
Module R := FF.Vmm.RegionTrans2.
Import ListNotations.
Local Open Scope N_scope.

Theorem C07_map_region_is_translation :
  forall (last frame size flags : N) (fail : option N) (tr0 : list gcall) (fuel : nat),
    last < two64 -> frame < two64 -> size < two64 -> flags < two64 ->
    (N.to_nat (N.shiftr (round_up size) PageShift) < fuel)%nat ->
    go_vmm_MapRegion fuel (mk_go_vmm_world tr0) frame size flags
      (R.o_reserve last) (R.o_map fail (S (length tr0))) =
    let '(_, calls, res) := map_region last frame size flags fail in
    let sz := round_up size in
    GOk (mk_go_vmm_world
           (rev (map R.ev_map calls) ++ (if sz <? size then [] else [R.ev_reserve sz]) ++ tr0),
         match res with
         | Some p => (p, None)
         | None => (0, if sz <? size then Some "errEarlyReserveNoSpace"%string
                       else match snd (early_reserve last sz) with
                            | None => Some "errEarlyReserveNoSpace"%string
                            | Some _ => Some "errMap"%string
                            end)
         end).
Proof. exact R.map_region_is_translation. Qed.
Print Assumptions C07_map_region_is_translation.

Theorem C07_identity_map_region_is_translation :
  forall (frame size flags : N) (fail : option N) (tr0 : list gcall) (fuel : nat),
    frame < two64 -> size < two64 -> flags < two64 ->
    (N.to_nat (N.shiftr (round_up size) PageShift) < fuel)%nat ->
    go_vmm_IdentityMapRegion fuel (mk_go_vmm_world tr0) frame size flags (R.o_map fail (length tr0)) =
    let '(calls, res) := identity_map_region frame size flags fail in
    GOk (mk_go_vmm_world (rev (map R.ev_map calls) ++ tr0),
         match res with
         | Some p => (p, None)
         | None => (0, if round_up size <? size then Some "errEarlyReserveNoSpace"%string else Some "errMap"%string)
         end).
Proof. exact R.identity_map_region_is_translation. Qed.
Print Assumptions C07_identity_map_region_is_translation.
