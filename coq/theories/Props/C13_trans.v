(** C13 - tie of the ObjectTree model to the source BY TRANSLATION.
    Gen/Trans_aml_tree.v is regenerated on every run by gen/gotrans (pool-pointer mode, gen/gotrans/ext_c13trans.go,
    config gen/gotrans/aml_tree.json) from kernel/device/acpi/aml/obj_tree.go: ObjectAt, newObject, newNamedObject,
    append, appendAfter, detach, free (here), NumArgs, ArgAt, ClosestNamedAncestor (Props/C13_trans_q.v), and Find,
    findRelative (Props/C13_trans_find.v).  ObjectTree / Object become records; `objPool []*Object` is the list of the pointees,
    a `*Object` is `option N` - the POSITION in the pool, nil = None (soundness assumption of the mode: objects never
    move in objPool, no entry is nil, every *Object in play comes from this pool; `obj.index` is a plain field that is
    read and written like any other, it is NOT assumed to equal the position); `obj.f` through nil or a position beyond
    the pool, `objPool[i]` out of range and the explicit panic of free are GPanic; `value interface{}` is an opaque
    payload `option V`; `[amlNameLen]byte` is the list of the bytes.
    The hand-written model Aml/Tree.v, about which the C13 theorems (Props/C13.v) and the parser theorems of C11/C12
    are proved, is shown EQUAL to that translation, operation by operation, for EVERY tree (no invariant, no size
    condition: also for ill-formed pools, aliased arguments such as append(obj, obj), dangling indices): the new
    tree, the returned pointer, and every run-time panic.  [TT.tr_tree] maps a model tree to the translation's record
    (pool = map of the objects, a name = its four bytes), [TT.lift] maps Ok / Panic / OutOfFuel to GOk / GPanic / GFuel.
    newObject calls pOpcodeTableIndex (parser_opcode_table.go), which is not translated: the translated newObject takes
    an oracle `N -> bool -> option N` for it, instantiated with the model's own [pOpcodeTableIndex] ([TT.table_oracle];
    Props/C13_trans_opcode.v translates pOpcodeTableIndex too, proves it equal to the model's function and restates
    these ties with the translated callee in place of the oracle).
    Statements only; proofs are in Aml/TreeTrans.v. *)
From Coq Require Import NArith List.
From FF Require Import Lib.GoOps Lib.GoPool Gen.Consts_aml_tree Gen.Trans_aml_tree Aml.Stream Aml.Tree.
From FF Require Aml.TreeTrans.
Module TT := FF.Aml.TreeTrans.
Import ListNotations.
Local Open Scope N_scope.

(** ObjectAt(index): nil for an index beyond the pool or a freed object, never a panic, tree unchanged *)
Theorem C13_ObjectAt_is_translation :
  forall (V : Type) (t : ObjectTree V) (index : N),
    go_aml_ObjectTree_ObjectAt (TT.tr_tree t) index = GOk (TT.tr_tree t, ObjectAt t index).
Proof. exact @TT.ObjectAt_is_translation. Qed.
Print Assumptions C13_ObjectAt_is_translation.

(** newObject(opcode, tableHandle): reuse of the free-list head or growth of the pool, the field initialisation *)
Theorem C13_newObject_is_translation :
  forall (V : Type) (t : ObjectTree V) (opcode tableHandle : N),
    go_aml_ObjectTree_newObject (TT.tr_tree t) opcode tableHandle TT.table_oracle =
    TT.lift (fun '(t', p) => (TT.tr_tree t', Some p)) (newObject t opcode tableHandle).
Proof. exact @TT.newObject_is_translation. Qed.
Print Assumptions C13_newObject_is_translation.

Theorem C13_newNamedObject_is_translation :
  forall (V : Type) (t : ObjectTree V) (opcode tableHandle : N) (nm : Name),
    go_aml_ObjectTree_newNamedObject (TT.tr_tree t) opcode tableHandle (name_bytes nm) TT.table_oracle =
    TT.lift (fun '(t', p) => (TT.tr_tree t', Some p)) (newNamedObject t opcode tableHandle nm).
Proof. exact @TT.newNamedObject_is_translation. Qed.
Print Assumptions C13_newNamedObject_is_translation.

(** append(obj, arg) for non-nil obj, arg (any positions, also equal ones or ones beyond the pool) *)
Theorem C13_append_is_translation :
  forall (V : Type) (t : ObjectTree V) (obj arg : N),
    go_aml_ObjectTree_append (TT.tr_tree t) (Some obj) (Some arg) =
    TT.lift (fun t' => (TT.tr_tree t', tt)) (append t obj arg).
Proof. exact @TT.append_is_translation. Qed.
Print Assumptions C13_append_is_translation.

(** appendAfter(obj, arg, nextTo): the regular append when nextTo is the last argument, else the four link updates *)
Theorem C13_appendAfter_is_translation :
  forall (V : Type) (t : ObjectTree V) (obj arg nextTo : N),
    go_aml_ObjectTree_appendAfter (TT.tr_tree t) (Some obj) (Some arg) (Some nextTo) =
    TT.lift (fun t' => (TT.tr_tree t', tt)) (appendAfter t obj arg nextTo).
Proof. exact @TT.appendAfter_is_translation. Qed.
Print Assumptions C13_appendAfter_is_translation.

(** detach(obj, arg): the four conditional link updates and the three resets, in program order *)
Theorem C13_detach_is_translation :
  forall (V : Type) (t : ObjectTree V) (obj arg : N),
    go_aml_ObjectTree_detach (TT.tr_tree t) (Some obj) (Some arg) =
    TT.lift (fun t' => (TT.tr_tree t', tt)) (detach t obj arg).
Proof. exact @TT.detach_is_translation. Qed.
Print Assumptions C13_detach_is_translation.

(** free(obj): detach from the parent (a parent index that ObjectAt does not resolve is a nil dereference inside
    detach), the explicit panic when arguments remain, the push on the free list *)
Theorem C13_free_is_translation :
  forall (V : Type) (t : ObjectTree V) (obj : N),
    go_aml_ObjectTree_free (TT.tr_tree t) (Some obj) =
    TT.lift (fun t' => (TT.tr_tree t', tt)) (free t obj).
Proof. exact @TT.free_is_translation. Qed.
Print Assumptions C13_free_is_translation.

(** a nil pointer handed to an edit operation is dereferenced: run-time panic (the model's operations take
    non-nil pointers only) *)
Theorem C13_edit_nil_panics :
  forall (V : Type) (g : @go_aml_ObjectTree V) (p q : option N),
    go_aml_ObjectTree_append g None p = GPanic /\
    go_aml_ObjectTree_appendAfter g p q None = GPanic /\
    go_aml_ObjectTree_detach g None p = GPanic /\
    go_aml_ObjectTree_free g None = GPanic.
Proof. intros; repeat split. Qed.
Print Assumptions C13_edit_nil_panics.
