(** C06 -- copy-on-write faults get a private copy; the shared zero frame is never writable.
    Statements only; every proof is [exact <lemma from Vmm/Pt*.v>].  Vocabulary as in Props/C04.v; in
    addition [cow_pre s A page] = Some e iff the page's leaf entry e is present, not writable and marked
    copy-on-write; [page_fault addr s] returns the new state and the outcome: 0 = the handler returned
    (the faulting instruction is retried), PANIC + code = kernel panic with that error. *)
From Coq Require Import NArith List Bool.
From FF Require Import Lib.Word Gen.Consts_mm_vmm Vmm.Pt Vmm.PtArith Vmm.PtTree Vmm.PtMap Vmm.PtOps Vmm.PtTheorems
     Vmm.PtPdt Vmm.PtFault Vmm.PtCow Vmm.PtZero Vmm.PtTemp.
Import ListNotations.
Local Open Scope N_scope.

(** zero_frame_guard: once the guard is armed, every entry point of the mapping interface refuses a
    writable mapping of the zero frame and changes nothing. *)
Theorem C06_zero_frame_guard_map :
  forall s page flags, prot s = true -> wants_rw flags = true -> map_page page (zf s) flags s = Ok (s, E_ZERO_RW).
Proof. exact zero_frame_guard_map. Qed.
Print Assumptions C06_zero_frame_guard_map.

Theorem C06_zero_frame_guard_temp :
  forall s, prot s = true -> map_temporary (zf s) s = Ok (s, E_ZERO_RW, 0).
Proof. exact zero_frame_guard_temp. Qed.
Print Assumptions C06_zero_frame_guard_temp.

Theorem C06_zero_frame_guard_pdt_active :
  forall s slot page flags, prot s = true -> wants_rw flags = true -> N.shiftr (cr3 s) 12 = pdts s slot ->
    pdt_map slot page (zf s) flags s = Ok (s, E_ZERO_RW).
Proof. exact zero_frame_guard_pdt_active. Qed.
Print Assumptions C06_zero_frame_guard_pdt_active.

Theorem C06_zero_frame_guard_pdt_inactive :
  forall s A T ownA own slot page flags,
    prot s = true -> wants_rw flags = true -> Inv2 s A T ownA own -> pdts s slot = T ->
    exists s3, pdt_map slot page (zf s) flags s = Ok (s3, E_ZERO_RW) /\ Inv2 s3 A T ownA own /\
               (forall q, hw_idx q 0 <> 511 -> aspace s3 A q = aspace s A q /\ aspace s3 T q = aspace s T q) /\
               same_env s s3 /\ orc s3 = orc s.
Proof. exact zero_frame_guard_pdt_inactive. Qed.
Print Assumptions C06_zero_frame_guard_pdt_inactive.

Theorem C06_zero_frame_guard_identity_region :
  forall s size flags,
    prot s = true -> wants_rw flags = true -> 0 < size -> size + 4095 < two64 -> zf s + (size + 4095) / 4096 < two64 ->
    identity_map_region (zf s) size flags s = Ok (s, E_ZERO_RW, 0).
Proof. exact zero_frame_guard_identity_region. Qed.
Print Assumptions C06_zero_frame_guard_identity_region.

(** fault_else_panics *)
Theorem C06_fault_else_panics :
  forall s A own addr,
    Inv s A A own -> hw_idx (page_from_addr addr) 0 <> 511 ->
    let page := page_from_addr addr in
    (cow_pre s A page = None -> page_fault addr s = Ok (s, PANIC + E_FAULT)) /\
    (forall e, cow_pre s A page = Some e ->
       (forall s1, alloc s = (s1, None) -> page_fault addr s = Ok (s1, PANIC + E_ALLOC)) /\
       (forall s1 cp s2 err pg, alloc s = (s1, Some cp) -> map_temporary cp s1 = Ok (s2, err, pg) -> err <> 0 ->
                                page_fault addr s = Ok (s2, PANIC + err))).
Proof. exact fault_else_panics. Qed.
Print Assumptions C06_fault_else_panics.

Theorem C06_fault_resume_only_cow :
  forall s A own addr s',
    Inv s A A own -> hw_idx (page_from_addr addr) 0 <> 511 -> page_fault addr s = Ok (s', 0) ->
    exists e s1 cp s2 pg, cow_pre s A (page_from_addr addr) = Some e /\ alloc s = (s1, Some cp) /\
                          map_temporary cp s1 = Ok (s2, 0, pg).
Proof. exact fault_resume_only_cow. Qed.
Print Assumptions C06_fault_resume_only_cow.

Theorem C06_gpf_panics : forall s addr, step (OGpf addr) s = Ok (s, PANIC + E_FAULT, 0).
Proof. exact gpf_panics. Qed.
Print Assumptions C06_gpf_panics.

(** cow_ok *)
Theorem C06_cow_ok :
  forall s A own addr e s1 cp s2 pg,
    Inv s A A own ->
    let page := page_from_addr addr in
    hw_idx page 0 <> 511 -> ~ same_page page temp_page ->
    cow_pre s A page = Some e ->
    backed s (hw_frame e) = true -> own (hw_frame e) = None -> ~ In (hw_frame e) (orc s) ->
    alloc s = (s1, Some cp) -> map_temporary cp s1 = Ok (s2, 0, pg) ->
    exists s5 own',
      page_fault addr s = Ok (s5, 0) /\ Inv s5 A A own' /\ same_env s s5 /\
      aspace s5 A page = Some (cow_entry e cp) /\
      (forall i, ent s5 cp i = ent s (hw_frame e) i) /\
      (forall q, hw_idx q 0 <> 511 -> ~ same_page q page -> ~ same_page q temp_page -> translation s5 A q = translation s A q) /\
      translation s5 A temp_page = None /\
      (forall f i, own' f = None -> f <> cp -> ent s5 f i = ent s f i) /\ own' cp = None /\
      flog s5 = frame_addr page :: vmm_tempMappingAddr :: vmm_tempMappingAddr :: flog s /\
      (exists n, orc s5 = skipn n (orc s)) /\
      (forall f, own' f = own f \/ (own f = None /\ In f (orc s) /\ f <> 0)).
Proof. exact cow_ok. Qed.
Print Assumptions C06_cow_ok.

(** the entry the handler leaves: the copy frame, present, writable, not copy-on-write, every other
    flag bit as before *)
Theorem C06_cow_entry_bits :
  forall e cp, cp < 2 ^ 40 ->
    hw_frame (cow_entry e cp) = cp /\ hw_P (cow_entry e cp) = true /\
    has_flags (cow_entry e cp) vmm_FlagRW = true /\ has_flags (cow_entry e cp) vmm_FlagCopyOnWrite = false /\
    (forall n, n <> 0 -> n <> 1 -> n <> 9 -> (n < 12 \/ 52 <= n) -> N.testbit (cow_entry e cp) n = N.testbit e n).
Proof. exact cow_entry_bits. Qed.
Print Assumptions C06_cow_entry_bits.

(** zero_frame_inv: over any history of Map / Unmap / MapTemporary requests (any page outside the
    recursive window, any frame below 2^40, any flag bits) and of faults on pages sharing the zero frame,
    in every state the history passes through no page maps the zero frame writable and the zero frame is
    all zero.  A fault that panics ends the history. *)
Theorem C06_zero_frame_inv :
  forall A ops s own,
    ZInv s A own -> zdom A ops s -> Forall (fun s' => exists own', ZInv s' A own') (ztrace ops s).
Proof. exact zero_frame_inv. Qed.
Print Assumptions C06_zero_frame_inv.

(** "once the virtual memory manager is initialised": reserveZeroedFrame, run on a state where the guard
    is not yet armed and with an allocator that hands out a frame nobody maps, establishes the invariant. *)
Theorem C06_reserve_zeroed_establishes :
  forall s A own F r,
    Inv s A A own -> prot s = false -> orc s = F :: r -> F <> 0 ->
    (forall q fl, hw_idx q 0 <> 511 -> translation s A q <> Some (F, fl)) ->
    exists s' err own1,
      reserve_zeroed s = Ok (s', err) /\ (err = 0 \/ err = E_ALLOC) /\ zf s' = F /\
      (err = 0 -> ZInv s' A own1 /\
                  (forall q, hw_idx q 0 <> 511 -> ~ same_page q temp_page -> translation s' A q = translation s A q) /\
                  translation s' A temp_page = None).
Proof. exact reserve_zeroed_spec. Qed.
Print Assumptions C06_reserve_zeroed_establishes.

(** * The zero frame over the whole mapping interface, on any number of address spaces, armed inside the history

    Vocabulary of Props/C04.v ([C04_histories_full]: requests [qop] = Map / Unmap / Translate / MapTemporary / MapRegion /
    IdentityMapRegion / PageDirectoryTable.{Init, Map, Unmap, Activate} on any initialised table / reserveZeroedFrame,
    adaptive histories [hist], abstract machine [ast], [Rel], [Steps]); in addition
      [qavoid o a]  the client does not ask to map a frame that still belongs to the physical allocator ([apool];
                    a frame the allocator has handed out - the zero frame - is no longer in it);
      [NP a]        no address space maps a frame of [apool];
      [ZI a]        if the guard is armed, no address space maps the zero frame writable and it is a data frame.
    From any such state, after any safe history - with the allocator failing anywhere and reserveZeroedFrame called
    anywhere in it - if the guard is armed at the end then the zero frame is all zeroes and NO address space (active
    or not) maps it with the writable bit set.  Page faults are not part of these histories; they are covered on the
    active space by [C06_zero_frame_inv]. *)
From FF Require Import Vmm.PtInit Vmm.PtHist Vmm.PtKernel Vmm.Region Vmm.RegionProofs Vmm.PtGlobal Vmm.PtHist2.

Theorem C06_zero_frame_inv_full :
  forall (h : hist) s a g,
    Rel s a g -> hsafe (fun o a => qdom o a /\ qavoid o a) h a -> NP a -> ZI a ->
    (aprot a = true -> forall i, ent s (azf a) i = 0) ->
    exists rs s' a' g',
      Steps h s a rs s' a' /\ Rel s' a' g' /\
      (prot s' = true ->
         (forall i, ent s' (zf s') i = 0) /\
         (forall R q fl, In R (aroots a') -> hw_idx q 0 <> 511 -> translation s' R q = Some (zf s', fl) -> N.testbit fl 1 = false)).
Proof. exact histories_full_zero. Qed.
Print Assumptions C06_zero_frame_inv_full.

(** from the boot state nothing has to be assumed about the guard: it is armed by the history itself *)
Theorem C06_zero_frame_inv_boot :
  forall lo0 cnt0 last0 oracle free pool,
    0 < cnt0 -> lo0 + cnt0 <= 2 ^ 40 -> NoDup (ofr oracle) ->
    (forall f, In f oracle -> f <> 0 -> lo0 < f /\ f < lo0 + cnt0) ->
    (forall F, In F free -> lo0 < F /\ F < lo0 + cnt0 /\ ~ In F oracle) ->
    WFstart (if last0 =? 0 then vmm_tempMappingAddr else last0) -> incl oracle pool ->
    forall h, hsafe (fun o a => qdom o a /\ qavoid o a) h (a_boot lo0 (if last0 =? 0 then vmm_tempMappingAddr else last0) free pool) ->
    exists rs s' a' g',
      run_hist h (init_state lo0 cnt0 last0 oracle) = Ok (rs, s') /\
      Steps h (init_state lo0 cnt0 last0 oracle) (a_boot lo0 (if last0 =? 0 then vmm_tempMappingAddr else last0) free pool) rs s' a' /\
      Rel s' a' g' /\
      (prot s' = true ->
         (forall i, ent s' (zf s') i = 0) /\
         (forall R q fl, In R (aroots a') -> hw_idx q 0 <> 511 -> translation s' R q = Some (zf s', fl) -> N.testbit fl 1 = false)).
Proof. exact boot_histories_zero. Qed.
Print Assumptions C06_zero_frame_inv_boot.
