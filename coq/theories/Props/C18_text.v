(** C18 for the shipped text-mode console, down to the framebuffer (the "sync_pixels" corollary of
    DESIGN.md for text mode).  Statement only; the proof is [exact] a lemma of Tty/VtVgaSync.v,
    which composes C18_sync_inv with the refinement lemmas of the C19 development
    (Console/VgaProofs.v: vga_write_refines, vga_fill_refines, vga_scroll_refines). *)
From Coq Require Import NArith List.
From FF Require Import Lib.Word Gen.Consts_device_video_console Console.Mem Console.Vga Console.VgaProofs.
From FF Require Import Gen.Consts_device_tty Tty.Vt Tty.VtSpec Tty.VtCons Tty.VtVgaSync.
Import ListNotations.
Local Open Scope N_scope.

(** A terminal attached to a [w] x [h] VgaTextConsole (whose default colours it adopts) over any
    framebuffer [m0] of [w*h] 16-bit elements.  For every history: the driver model
    ([vga_write]/[vga_fill]/[vga_scroll] of Console/Vga.v, bounds-checked, uint32 arithmetic)
    executes every console call of the terminal's trace without panicking, and if the terminal is
    active then every element of the framebuffer is the text-mode value
    [((bg<<4 | fg)<<8) | ch] of the viewport cell it displays (a colour above the 16-colour
    palette showing as the console's default, as vga_text.go documents). *)
Theorem C18_sync_text :
  forall w h sb tab (ops : list op) (m0 : fbuf),
    1 <= w -> 1 <= h -> tab <= 255 -> w * (h + sb) * 3 < two32 -> Forall op_wf ops ->
    vga_wf (mkVga w h) m0 -> (forall i, i < flen m0 -> load m0 i < two16) ->
    exists v0 v m,
      attach (new_vt tab sb) w h vga_defaultFg vga_defaultBg = Ok v0 /\ run_ops v0 ops = Ok v /\
      vga_apply_calls (mkVga w h) m0 (rev (trace v)) = Mem.Ok m /\
      (st v = tty_StateActive ->
       forall x y, 1 <= x <= w -> 1 <= y <= h ->
         load m (cell_idx (mkVga w h) x y) = enc (v_cell v x y)).
Proof. exact sync_text_thm. Qed.
Print Assumptions C18_sync_text.

(** ---- the same for the shipped framebuffer console, down to the pixels ----
    Composition of C18_sync_inv with the refinement of Console/Grid.v by the model of VesaFbConsole
    (Console/VesaGridProofs.v) and its byte-level specifications (C19). *)
From FF Require Import Console.Vesa Console.VesaSpec Console.VesaProofs Tty.VtVesaSync Tty.VtVesaProofs.

(** A terminal attached to a VesaFbConsole [c] in the geometry C19 quantifies over ([vesa_wf]: any
    width, height, pitch >= row bytes, depth 8/15/16/24/32, colour layout, font 8..16 pixels wide,
    logo height, 256-entry palette) whose font has a blank space glyph (true of the three shipped
    fonts: C19_shipped_space_glyph_blank), over any framebuffer content [m0].  For every history
    the driver model ([vesa_write]/[vesa_fill]/[vesa_scroll], bounds-checked, uint32 arithmetic)
    executes every console call of the terminal's trace without panicking; the padding bytes between
    pixel rows and the logo rows never change; and if the terminal is active then EVERY byte of the
    framebuffer that is colour byte [k] of pixel (q, r) of a text cell (cx, cy) is byte [k] of the
    packed palette colour of that pixel: the cell's foreground where the glyph of the cell's
    character has its bit set, the cell's background elsewhere ([byte_shows]), the cell being the
    terminal's viewport cell. *)
Theorem C18_sync_pixels_fb :
  forall (c : vesa) (f : font) (d : depth) (m0 : fbuf) sb tab (ops : list op),
    vesa_wf c f d m0 -> tab <= 255 -> wchars c * (hchars c + sb) * 3 < two32 -> Forall op_wf ops ->
    (forall r q, r < f_gh f -> q < f_gw f -> glyph_bit f 32 r q = false) ->
    exists v0 v m,
      attach (new_vt tab sb) (wchars c) (hchars c) vesa_defaultFg vesa_defaultBg = Vt.Ok v0 /\
      run_ops v0 ops = Vt.Ok v /\
      vesa_apply_calls c m0 (rev (trace v)) = Mem.Ok m /\
      (forall i, protected c i -> load m i = load m0 i) /\
      (st v = tty_StateActive -> forall i, byte_shows c f d m v i).
Proof. exact sync_pixels_fb_thm. Qed.
Print Assumptions C18_sync_pixels_fb.
