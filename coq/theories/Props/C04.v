(** C04 -- page-table operations implement exactly the requested address translation.
    Statements only; every proof is [exact <lemma from Vmm/Pt*.v>].

    Vocabulary (Vmm/PtTree.v, Vmm/PtMap.v):
      [ent s f i]          word i of physical frame f;   [backed s f]  f is simulated RAM
      [mmu]/[resolve]      the x86-64 4-level translation from cr3 (Vmm/Pt.v); every *pte access of the
                           Go code is a virtual access resolved by it
      [aspace s T p]       raw leaf entry of page p in the tree rooted at frame T, if the three upper
                           levels are present (what the harness's software MMU walk returns)
      [translation s T p]  Some (frame, flag bits) iff that leaf is present
      [Inv s A T own]      the invariant: A = active root (cr3), slot 511 of A points at T and T's own
                           slot 511 at T; [own] is the ghost ownership map table frame -> path (no table
                           is shared between two positions of the tree, present entries of upper levels are
                           non-huge and point to owned tables); allocator frames are fresh and distinct.
      pages with top-level index 511 (the recursive window itself) are outside the quantifier. *)
From Coq Require Import NArith List Bool.
From FF Require Import Lib.Word Gen.Consts_mm_vmm Vmm.Pt Vmm.PtArith Vmm.PtTree Vmm.PtMap Vmm.PtOps Vmm.PtTheorems Vmm.PtInit Vmm.PtPdt Vmm.PtTemp Vmm.PtHist Vmm.PtKernel Vmm.PtRegion.
From FF Require Import Vmm.Region Vmm.RegionProofs.
From FF Require Import Gen.Trans_mm_vmm Vmm.PtTrans Vmm.PtBits.
Import ListNotations.
Local Open Scope N_scope.

(** The Go constants describe the hardware that [mmu] models (re-checked against the regenerated
    constants on every run). *)
Theorem C04_constants :
  go_levels = [(39, 9); (30, 9); (21, 9); (12, 9)] /\ vmm_pdtVirtualAddr = win 511 511 511 511 /\
  vmm_tempMappingAddr = win 510 511 511 511 /\ mm_PointerShift = 3 /\ mm_PageShift = 12 /\
  vmm_ptePhysPageMask = N.shiftl (N.ones 40) 12 /\ vmm_FlagPresent = 1 /\ vmm_FlagHugePage = 128 /\
  (forall e, has_flags e vmm_FlagPresent = hw_P e) /\ (forall e, has_flags e vmm_FlagHugePage = hw_PS e) /\
  (forall e, pte_frame e = hw_frame e).
Proof.
  exact (conj go_levels_val (conj pdt_virtual_addr_win (conj temp_addr_win (conj pointer_shift_val (conj page_shift_val
        (conj phys_mask_val (conj flag_present_val (conj flag_huge_val (conj has_present_hw (conj has_huge_hw pte_frame_hw)))))))))).
Qed.
Print Assumptions C04_constants.

(** recursive_entry: the address [walk] computes for the level-k entry of [va] (pdtVirtualAddr,
    [entryAddr <<= 9] with 64-bit wrap-around, k = 0..3) resolves through the MMU to entry
    index_k(va) of the level-k table on va's path -- in the tree of whichever root [T] the active
    root's slot 511 currently points at. *)
Theorem C04_recursive_entry :
  forall s A T va k t,
    N.shiftr (cr3 s) 12 = A -> Rec s A T -> (k <= 3)%nat ->
    follow s T (firstn k (ixs (N.shiftr va 12))) = Some t -> backed s t = true ->
    resolve s (walk_entry_addr va k) = Some (t, nth k (ixs (N.shiftr va 12)) 0).
Proof. exact recursive_entry. Qed.
Print Assumptions C04_recursive_entry.

(** map_ok.  Map never makes a stray access; it returns nil or the allocator's error.  On success the
    page's leaf entry is exactly [*pte = 0; SetFrame; SetFlags], every other page translates as before,
    the page is flushed; on allocator failure NO page's translation changes.  In both cases frames that
    are not tables of this address space are untouched (in particular the active root when T is not
    active), every new table is zero except for the entry on the page's path, and the invariant holds
    again. *)
Theorem C04_map_ok :
  forall s A T own page frame flags,
    Inv s A T own -> hw_idx page 0 <> 511 -> zero_guard s frame flags = false ->
    exists s' err own',
      map_page page frame flags s = Ok (s', err) /\ Inv s' A T own' /\ same_env s s' /\
      (err = 0 \/ err = E_ALLOC) /\
      (err = 0 ->
         aspace s' T page = Some (set_flags (set_frame 0 frame) flags) /\
         (forall q, hw_idx q 0 <> 511 -> ~ same_page q page -> translation s' T q = translation s T q) /\
         flog s' = frame_addr page :: flog s) /\
      (err <> 0 ->
         (forall q, hw_idx q 0 <> 511 -> translation s' T q = translation s T q) /\ flog s' = flog s) /\
      (forall f i, own' f = None -> ent s' f i = ent s f i) /\
      (forall f q i, own f = None -> own' f = Some q -> ent s' f i <> 0 -> exists j, q ++ [i] = firstn j (ixs page)) /\
      (exists n, orc s' = skipn n (orc s) /\
                 forall f, own' f = own f \/ (own f = None /\ In f (firstn n (orc s)) /\ f <> 0)) /\
      (forall f p i, own f = Some p -> p ++ [i] <> firstn (S (length p)) (ixs page) -> ent s' f i = ent s f i) /\
      (forall f p i, own f = Some p -> (length p < 3)%nat -> hw_P (ent s f i) = true -> ent s' f i = ent s f i) /\
      (length (orc s) <= length (orc s') + 3)%nat /\
      ((3 <= length (orc s))%nat -> Forall (fun x => x <> 0) (firstn 3 (orc s)) -> err = 0).
Proof. exact map_ok. Qed.
Print Assumptions C04_map_ok.

(** For frames below 2^40 and flags outside bits 12-51 the entry is frame<<12 | flags and reads back
    as exactly (frame, flags). *)
Theorem C04_leaf_exact :
  forall frame flags, frame < 2 ^ 40 -> N.land flags vmm_ptePhysPageMask = 0 ->
    set_flags (set_frame 0 frame) flags = N.lor (N.shiftl frame 12) flags /\
    hw_frame (set_flags (set_frame 0 frame) flags) = frame /\
    N.ldiff (set_flags (set_frame 0 frame) flags) vmm_ptePhysPageMask = flags /\
    hw_P (set_flags (set_frame 0 frame) flags) = N.testbit flags 0.
Proof. exact leaf_exact. Qed.
Print Assumptions C04_leaf_exact.

(** unmap_ok *)
Theorem C04_unmap_ok :
  forall s A T own page,
    Inv s A T own -> hw_idx page 0 <> 511 ->
    exists s' err,
      unmap_page page s = Ok (s', err) /\ (err = 0 \/ err = E_INVALID) /\ Inv s' A T own /\ same_env s s' /\ orc s' = orc s /\
      (err = E_INVALID -> s' = s /\ aspace s T page = None) /\
      (err = 0 ->
         exists e, aspace s T page = Some e /\ aspace s' T page = Some (clear_flags e vmm_FlagPresent) /\
                   translation s' T page = None /\
                   (forall q, hw_idx q 0 <> 511 -> ~ same_page q page -> aspace s' T q = aspace s T q) /\
                   flog s' = frame_addr page :: flog s /\
                   (forall f i, own f = None -> ent s' f i = ent s f i) /\
                   (forall f p i, own f = Some p -> p ++ [i] <> ixs page -> ent s' f i = ent s f i)).
Proof. exact unmap_ok. Qed.
Print Assumptions C04_unmap_ok.

(** translate_ok: Translate returns frame*4096 + offset iff the page is mapped, ErrInvalidMapping otherwise. *)
Theorem C04_translate_ok :
  forall s A T own va,
    Inv s A T own -> hw_idx (N.shiftr va 12) 0 <> 511 ->
    translate va s = Ok (match translation s T (N.shiftr va 12) with
                         | Some (f, _) => (E_OK, f * 4096 + va mod 4096)
                         | None => (E_INVALID, 0)
                         end).
Proof. exact translate_ok. Qed.
Print Assumptions C04_translate_ok.

(** pdt_inactive_frame.  [Inv2 s A T ownA own]: A is the active root with tree [ownA], T another root with
    tree [own], the two trees and the allocator's frames are pairwise disjoint.  PageDirectoryTable.Map
    on T has the effect of map_ok on T's address space, EVERY frame of the active tree -- the root
    included, slot 511 restored -- is bit-for-bit what it was, and the patched slot is flushed before and
    after the operation's own flush. *)
Theorem C04_pdt_map_inactive :
  forall s A T ownA own slot page frame flags,
    Inv2 s A T ownA own -> pdts s slot = T -> hw_idx page 0 <> 511 -> zero_guard s frame flags = false ->
    exists s3 err own',
      pdt_map slot page frame flags s = Ok (s3, err) /\ Inv2 s3 A T ownA own' /\ (err = 0 \/ err = E_ALLOC) /\
      (forall f i, ownA f <> None -> ent s3 f i = ent s f i) /\
      (forall q, hw_idx q 0 <> 511 -> aspace s3 A q = aspace s A q) /\
      (err = 0 ->
         aspace s3 T page = Some (set_flags (set_frame 0 frame) flags) /\
         (forall q, hw_idx q 0 <> 511 -> ~ same_page q page -> translation s3 T q = translation s T q) /\
         flog s3 = lea_of A :: frame_addr page :: lea_of A :: flog s) /\
      (err <> 0 ->
         (forall q, hw_idx q 0 <> 511 -> translation s3 T q = translation s T q) /\
         flog s3 = lea_of A :: lea_of A :: flog s) /\
      same_env s s3 /\
      (exists n, orc s3 = skipn n (orc s) /\ forall f, own' f = own f \/ (own f = None /\ In f (firstn n (orc s)) /\ f <> 0)) /\
      (length (orc s) <= length (orc s3) + 3)%nat /\
      ((3 <= length (orc s))%nat -> Forall (fun x => x <> 0) (firstn 3 (orc s)) -> err = 0).
Proof. exact pdt_map_inactive. Qed.
Print Assumptions C04_pdt_map_inactive.

Theorem C04_pdt_unmap_inactive :
  forall s A T ownA own slot page,
    Inv2 s A T ownA own -> pdts s slot = T -> hw_idx page 0 <> 511 ->
    exists s3 err,
      pdt_unmap slot page s = Ok (s3, err) /\ Inv2 s3 A T ownA own /\ (err = 0 \/ err = E_INVALID) /\
      (forall f i, ownA f <> None -> ent s3 f i = ent s f i) /\
      (forall q, hw_idx q 0 <> 511 -> aspace s3 A q = aspace s A q) /\
      (err = 0 -> translation s3 T page = None /\
                  (forall q, hw_idx q 0 <> 511 -> ~ same_page q page -> aspace s3 T q = aspace s T q) /\
                  flog s3 = lea_of A :: frame_addr page :: lea_of A :: flog s) /\
      (err = E_INVALID -> aspace s T page = None /\ (forall q, hw_idx q 0 <> 511 -> aspace s3 T q = aspace s T q) /\
                          flog s3 = lea_of A :: lea_of A :: flog s).
Proof. exact pdt_unmap_inactive. Qed.
Print Assumptions C04_pdt_unmap_inactive.

(** On the active table the methods are the plain functions. *)
Theorem C04_pdt_active :
  forall s slot op, N.shiftr (cr3 s) 12 = pdts s slot -> with_pdt slot op s = op s.
Proof. exact with_pdt_active. Qed.
Print Assumptions C04_pdt_active.

(** PageDirectoryTable.Init of a fresh frame F creates an empty address space disjoint from the active
    one (how an inactive space comes into being); the temporary page is unmapped again, every other
    page of the active space translates as before. *)
Theorem C04_pdt_init :
  forall s A own slot F,
    Inv s A A own -> (prot s && (F =? zf s)) = false -> backed s F = true -> own F = None -> ~ In F (orc s) ->
    exists s' err own1,
      pdt_init slot F s = Ok (s', err) /\ (err = 0 \/ err = E_ALLOC) /\ pdts s' slot = F /\
      (forall k, k <> slot -> pdts s' k = pdts s k) /\
      lo s' = lo s /\ cnt s' = cnt s /\ cr3 s' = cr3 s /\ zf s' = zf s /\ prot s' = prot s /\ last s' = last s /\ slog s' = slog s /\
      (exists n, orc s' = skipn n (orc s) /\ forall f, own1 f = own f \/ (own f = None /\ In f (firstn n (orc s)) /\ f <> 0)) /\
      (err = 0 ->
         Inv2 s' A F own1 (own_root F) /\
         (forall q, hw_idx q 0 <> 511 -> aspace s' F q = None) /\
         (forall q, hw_idx q 0 <> 511 -> ~ same_page q temp_page -> translation s' A q = translation s A q) /\
         translation s' A temp_page = None /\
         (forall f i, own1 f = None -> f <> F -> ent s' f i = ent s f i)) /\
      (err <> 0 -> Inv s' A A own1 /\ (forall q, hw_idx q 0 <> 511 -> translation s' A q = translation s A q) /\
                   (forall f i, own1 f = None -> ent s' f i = ent s f i)) /\
      (length (orc s) <= length (orc s') + 3)%nat /\
      ((3 <= length (orc s))%nat -> Forall (fun x => x <> 0) (firstn 3 (orc s)) -> err = 0).
Proof. exact pdt_init_spec. Qed.
Print Assumptions C04_pdt_init.

(** histories: any sequence of Map / Unmap / Translate requests on the active address space (pages outside
    the recursive window, frames below 2^40, any flag bits outside bits 12-51, any allocator behaviour)
    runs without a stray access and refines the abstract machine [arun]: page -> (frame, flags) of the
    most recent successful Map, nothing after an Unmap; every Translate answers what the abstract map
    holds at that point; a failed request changes no translation. *)
Theorem C04_histories :
  forall A ops s own m,
    Inv s A A own -> prot s = false -> Forall hdom ops -> refines s A m ->
    exists s' rs own',
      hrun ops s = Ok (s', rs) /\ Inv s' A A own' /\ prot s' = false /\
      refines s' A (arun ops rs m) /\ answers_ok ops rs m.
Proof. exact histories. Qed.
Print Assumptions C04_histories.

(** region_pages.  [Hst s A own m]: the active space refines the abstract map [m] and the zero-frame
    guard is not armed; [mrange m p f flags j] is [m] with pages p..p+j-1 mapped to frames f..f+j-1.
    MapRegion reserves ceil(size/4096) pages below the cursor (C07) and maps them consecutively; a size
    that does not fit reserves and maps nothing; on allocator failure a prefix of the region is mapped
    and, as the abstract map shows, no page outside the region changes. *)
Theorem C04_map_region_ok :
  forall s A own m frame size flags,
    Hst s A own m -> flags_ok flags -> size < two64 -> WFstart (last s) ->
    match reserve_spec (last s) size with
    | None => Pt.map_region frame size flags s = Ok (s, E_NOSPACE, 0)
    | Some (a, len) =>
        let start := a / 4096 in let n := N.to_nat (ceil_pages size) in
        (forall j, (j < n)%nat -> hw_idx (start + N.of_nat j) 0 <> 511) -> frame + N.of_nat n <= 2 ^ 40 ->
        exists s' err page own' j,
          Pt.map_region frame size flags s = Ok (s', err, page) /\ last s' = a /\ (j <= n)%nat /\
          Hst s' A own' (mrange m start frame flags j) /\
          ((err = 0 /\ j = n /\ page = start) \/ (err = E_ALLOC /\ (j < n)%nat /\ page = 0))
    end.
Proof. exact PtRegion.map_region_ok. Qed.
Print Assumptions C04_map_region_ok.

Theorem C04_identity_map_region_ok :
  forall s A own m frame size flags,
    Hst s A own m -> flags_ok flags -> size + 4095 < two64 ->
    let n := N.to_nat (ceil_pages size) in
    (forall j, (j < n)%nat -> hw_idx (frame + N.of_nat j) 0 <> 511) -> frame + N.of_nat n <= 2 ^ 40 ->
    exists s' err page own' j,
      Pt.identity_map_region frame size flags s = Ok (s', err, page) /\ last s' = last s /\ (j <= n)%nat /\
      Hst s' A own' (mrange m frame frame flags j) /\
      ((err = 0 /\ j = n /\ page = frame) \/ (err = E_ALLOC /\ (j < n)%nat /\ page = 0)).
Proof. exact PtRegion.identity_map_region_ok. Qed.
Print Assumptions C04_identity_map_region_ok.

Theorem C04_mrange_pages :
  forall m p0 f0 flags n, N.of_nat n <= 2 ^ 36 ->
    (forall j, (j < n)%nat -> mrange m p0 f0 flags n (ixs (p0 + N.of_nat j)) = Some (f0 + N.of_nat j, flags)) /\
    (forall k, (forall j, (j < n)%nat -> ixs (p0 + N.of_nat j) <> k) -> mrange m p0 f0 flags n k = m k).
Proof. exact mrange_pages. Qed.
Print Assumptions C04_mrange_pages.

(** The entry helpers of the model are the Gallina terms that gen/gotrans regenerates from
    kernel/mm/vmm/pdt.go (pageTableEntry.HasFlags/SetFlags/ClearFlags/Frame/SetFrame) and kernel/mm/page.go
    (Frame.Address, Page.Address) on every run -- this part of the model is tied to the source by
    translation, not by testing. *)
Theorem C04_pte_helpers_are_translation :
  forall e fl frame, e < two64 -> fl < two64 -> frame < two64 ->
    go_vmm_pageTableEntry_HasFlags e fl = has_flags e fl /\
    go_vmm_pageTableEntry_SetFlags e fl = set_flags e fl /\
    go_vmm_pageTableEntry_ClearFlags e fl = clear_flags e fl /\
    go_vmm_pageTableEntry_Frame e = pte_frame e /\
    go_vmm_pageTableEntry_SetFrame e frame = set_frame e frame /\
    go_mm_Frame_Address frame = frame_addr frame /\
    go_mm_Page_Address frame = frame_addr frame.
Proof. exact pte_helpers_are_translation. Qed.
Print Assumptions C04_pte_helpers_are_translation.

(** PageDirectoryTable.Activate: the two address spaces swap roles, no memory is touched. *)
Theorem C04_pdt_activate :
  forall s A T ownA own slot,
    Inv2 s A T ownA own -> pdts s slot = T ->
    let s' := pdt_activate slot s in
    Inv2 s' T A own ownA /\ cr3 s' = frame_addr T /\ slog s' = frame_addr T :: slog s /\
    (forall f i, ent s' f i = ent s f i) /\ orc s' = orc s /\ flog s' = flog s.
Proof. exact pdt_activate_spec. Qed.
Print Assumptions C04_pdt_activate.

(** The quantifier of every C04-C06 theorem ([Inv]) includes states whose present upper-level entries and
    recursive entries carry bits the translation ignores -- Accessed (which the CPU always sets), Dirty,
    Global, the available bits 9-11 and 52-62, NX, User, cache control: or-ing any such bits into an entry
    of an upper-level table or of the active root preserves the invariant and every page's raw leaf entry. *)
Theorem C04_ignored_bits_neutral :
  forall s A T own t p i x,
    Inv s A T own -> (own t = Some p /\ (length p < 3)%nat) \/ t = A ->
    let s' := wr_st s t i (N.lor (ent s t i) (N.land x safe_bits)) in
    Inv s' A T own /\ (forall q, hw_idx q 0 <> 511 -> aspace s' T q = aspace s T q).
Proof. exact or_upper_neutral. Qed.
Print Assumptions C04_ignored_bits_neutral.

(** * ONE refinement theorem for histories over the whole interface, on any number of address spaces

    Vocabulary (Vmm/PtGlobal.v, Vmm/PtHist2.v):
      [qop]        the requests, exactly:  QMap / QUnmap / QTranslate (the active space), QMapTemp (MapTemporary),
                   QMapRegion (through the real EarlyReserveRegion cursor), QIdMapRegion, QPdtInit (PageDirectoryTable.Init
                   of a fresh frame), QPdtMap / QPdtUnmap (PageDirectoryTable.Map / Unmap on ANY initialised table, active
                   or not), QActivate, QArm (reserveZeroedFrame, which arms the zero-frame guard).
                   [to_op] sends each to the operation of the executable model ([C04_histories_full_ops]).
      [hist]       an adaptive history: the client sees the answer (error, value) of a request before it chooses the next
                   one ([of_list] = a plain list of requests).
      [ast]        the abstract machine: [am] root -> page -> option (frame, flags); [aact] the active root; [atlb] the log
                   of TLB invalidations; [aslot] the PageDirectoryTable values the client holds; [alast] the reservation
                   cursor; [aroots] the address spaces that exist; [afree] data frames; [aprot]/[azf] the zero-frame
                   guard; [apool] the frames still owned by the physical allocator.
      [AStep o r a a']  what request [o] answered with [r] does to the abstract machine.  The allocator may fail at any
                   point of any request: every success case has a failure sibling, and [C04_full_failure] states
                   exactly what a failed request may have changed.
      [Rel s a g]  the concrete state [s] implements [a]: [g] is a ghost map table frame -> (root, path) under which
                   every root in [aroots a] owns a well-formed tree (recursive entry, no sharing between or inside
                   trees, allocator frames unused); [translation s R q = am a R (ixs q)] for EVERY root R and page q;
                   the flush log, cursor, slots, guard agree; frames in [afree a] are in no tree.
      [cstep_ok]   an operation on a table that is not the active one leaves the active root table bit-for-bit as it was.
      [qsafe h a]  every request of [h] is inside the quantifier ([qdom]) in whatever abstract state the history reaches:
                   pages outside slot 511, frames < 2^40, flag bits outside 12-51, slots initialised, Init only on a
                   frame of [afree], region sizes < 2^64, reserveZeroedFrame only while the guard is not armed.
    The model's [step] (the function that is extracted and run against the code) executes every request without a
    stray access; the answers are those of the abstract machine; the final state again implements the abstract one;
    data frames that stay data frames keep their contents. *)
From FF Require Import Vmm.PtGlobal Vmm.PtHist2.

Theorem C04_histories_full :
  forall (h : hist) s a g,
    Rel s a g -> qsafe h a ->
    exists rs s' a' g',
      Steps h s a rs s' a' /\ Rel s' a' g' /\
      (forall F i, In F (afree a) -> In F (afree a') -> ent s' F i = ent s F i) /\ incl (aroots a) (aroots a').
Proof. exact histories_full. Qed.
Print Assumptions C04_histories_full.

(** the operation set of [C04_histories_full], spelled out *)
Theorem C04_histories_full_ops :
  forall o : qop,
    match o with
    | QMap p f fl => to_op o = OMap p f fl
    | QUnmap p => to_op o = OUnmap p
    | QTranslate va => to_op o = OTranslate va
    | QMapTemp f => to_op o = OMapTemp f
    | QMapRegion f sz fl => to_op o = OMapRegion f sz fl
    | QIdMapRegion f sz fl => to_op o = OIdMapRegion f sz fl
    | QPdtInit k f => to_op o = OPdtInit k f
    | QPdtMap k p f fl => to_op o = OPdtMap k p f fl
    | QPdtUnmap k p => to_op o = OPdtUnmap k p
    | QActivate k => to_op o = OPdtActivate k
    | QArm => to_op o = OReserveZero
    end.
Proof. intros o. destruct o; reflexivity. Qed.
Print Assumptions C04_histories_full_ops.

(** a run is a run of the executable model ([run_hist] is [step] iterated), and it is unique *)
Theorem C04_full_run_is_model_run :
  forall h s a rs s' a', Steps h s a rs s' a' -> run_hist h s = Ok (rs, s').
Proof. exact Steps_run. Qed.
Print Assumptions C04_full_run_is_model_run.

(** the boot state (one address space with nothing mapped but its recursive entry) implements the empty abstract
    machine, so every safe history from boot runs and refines *)
Theorem C04_histories_full_boot :
  forall lo0 cnt0 last0 oracle free pool,
    0 < cnt0 -> lo0 + cnt0 <= 2 ^ 40 -> NoDup (ofr oracle) ->
    (forall f, In f oracle -> f <> 0 -> lo0 < f /\ f < lo0 + cnt0) ->
    (forall F, In F free -> lo0 < F /\ F < lo0 + cnt0 /\ ~ In F oracle) ->
    WFstart (if last0 =? 0 then vmm_tempMappingAddr else last0) -> incl oracle pool ->
    forall h, qsafe h (a_boot lo0 (if last0 =? 0 then vmm_tempMappingAddr else last0) free pool) ->
    exists rs s' a' g',
      run_hist h (init_state lo0 cnt0 last0 oracle) = Ok (rs, s') /\
      Steps h (init_state lo0 cnt0 last0 oracle) (a_boot lo0 (if last0 =? 0 then vmm_tempMappingAddr else last0) free pool) rs s' a' /\
      Rel s' a' g'.
Proof. exact boot_histories_full. Qed.
Print Assumptions C04_histories_full_boot.

(** what a failed request may have changed: no translation of any address space - except that the two region
    operations keep the pages they mapped before the allocator failed (and MapRegion keeps its reservation); the
    active root, the set of address spaces and the guard never change on failure.  (A failed or refused request on an
    inactive table still flushes the patched slot twice; a failed Init forgets the slot; a failed reserveZeroedFrame
    keeps the frame it was given, unprotected - see [AStep].) *)
Theorem C04_full_failure :
  forall o r a a',
    AStep o r a a' -> fst r <> 0 ->
    aact a' = aact a /\ aroots a' = aroots a /\ aprot a' = aprot a /\
    match o with
    | QMapRegion f sz fl =>
        match reserve_spec (alast a) sz with
        | Some (a0, _) => exists j, (j < N.to_nat (ceil_pages sz))%nat /\ a' = a_range (set_alast a a0) (aact a) (a0 / 4096) f fl j
        | None => a' = a
        end
    | QIdMapRegion f sz fl => exists j, (j < N.to_nat (ceil_pages sz))%nat /\ a' = a_range a (aact a) f f fl j
    | _ => forall R k, am a' R k = am a R k
    end.
Proof. exact astep_failure. Qed.
Print Assumptions C04_full_failure.

(** the pages a (possibly partial) region operation has mapped, in the vocabulary of [C04_mrange_pages] *)
Theorem C04_full_region_pages :
  forall fl R, N.testbit fl 0 = true -> forall j a p0 f0 R' k,
    am (a_range a R p0 f0 fl j) R' k = if R' =? R then mrange (am a R) p0 f0 fl j k else am a R' k.
Proof. exact a_range_am. Qed.
Print Assumptions C04_full_region_pages.
