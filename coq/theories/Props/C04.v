(** C04 -- statements only. *)
From Coq Require Import NArith List.
From FF Require Import Lib.Word Gen.Consts_mm_vmm Vmm.Pt Vmm.PtProofs.
Import ListNotations.
Local Open Scope N_scope.

Theorem C04_levels : go_levels = [(39, 9); (30, 9); (21, 9); (12, 9)].
Proof. exact go_levels_hw. Qed.
Print Assumptions C04_levels.
