(** Non-vacuity and concrete runs for Props/C03_trans.v: an allocator with two pools (10 frames from frame 16,
    70 frames from frame 256: one- and two-word bitmaps), the first pool exhausted. *)
From Coq Require Import NArith String List Lia.
From FF Require Import Lib.GoOps Gen.Consts_mm_pmm Gen.Trans_pmm_bitmap Pmm.Bitmap Pmm.BitmapTrans Props.C03_trans.
Import ListNotations.
Local Open Scope N_scope.

(** bits beyond the end of a pool are set (reserved) *)
Definition ex_alloc : balloc :=
  mkBA 80 10 [mkPool 16 25 0 [max64]; mkPool 256 325 70 [0; N.ones 58]].

Example C03_trans_hypotheses_nonvacuous :
  N.of_nat (length (a_pools ex_alloc)) < 2 ^ 63 /\
  (forall p, In p (a_pools ex_alloc) -> N.of_nat (length (p_bitmap p)) < 2 ^ 63 /\ (length (p_bitmap p) < 65)%nat) /\
  (length (a_pools ex_alloc) < 65)%nat /\ (64 < 65)%nat.
Proof.
  split; [reflexivity|]. split; [|cbn; lia].
  intros p [<-|[<-|[]]]; split; cbn; try reflexivity; lia.
Qed.

(** the theorems instantiated there (fuel 65) *)
Example C03_trans_alloc_at_example (tr : list gevent) :
  go_pmm_BitmapAllocator_AllocFrame 65 (to_ga true ex_alloc tr) =
  match bitmap_alloc ex_alloc with
  | (a', Some f) => GOk (to_ga true a' (GEv "Release" [] :: GEv "Acquire" [] :: tr), (f, None))
  | (a', None) => GOk (to_ga true a' (GEv "Release" [] :: GEv "Acquire" [] :: tr),
                       (mm_InvalidFrame, Some "errBitmapAllocOutOfMemory"%string))
  end.
Proof.
  destruct C03_trans_hypotheses_nonvacuous as (H1 & H2 & H3 & H4).
  exact (C03_allocFrame_is_translation true ex_alloc tr 65 H1 H2 H3 H4).
Qed.

(** concrete runs of the translation: the first pool is full, the first free frame is 256; freeing it again works,
    a second free is a double free, frame 5 is not managed; poolForFrame; markFrame *)
Example C03_trans_run_alloc :
  match go_pmm_BitmapAllocator_AllocFrame 65 (to_ga true ex_alloc []) with
  | GOk (g, (f, e)) =>
      f = 256 /\ e = None /\ f_BitmapAllocator_reservedPages g = 11 /\
      f_BitmapAllocator_trace g = [GEv "Release" []; GEv "Acquire" []] /\
      go_pmm_BitmapAllocator_FreeFrame 65 g 256 =
        GOk (to_ga true ex_alloc [GEv "Release" []; GEv "Acquire" []; GEv "Release" []; GEv "Acquire" []], None)
  | _ => False
  end.
Proof. vm_compute. repeat split; reflexivity. Qed.

Example C03_trans_run_free_errors :
  go_pmm_BitmapAllocator_FreeFrame 3 (to_ga true ex_alloc []) 300 =
    GOk (to_ga true ex_alloc [GEv "Release" []; GEv "Acquire" []], Some "errBitmapAllocDoubleFree"%string) /\
  go_pmm_BitmapAllocator_FreeFrame 3 (to_ga true ex_alloc []) 5 =
    GOk (to_ga true ex_alloc [GEv "Release" []; GEv "Acquire" []], Some "errBitmapAllocFrameNotManaged"%string) /\
  go_pmm_BitmapAllocator_FreeFrame 2 (to_ga true ex_alloc []) 5 = GFuel.
Proof. repeat split; vm_compute; reflexivity. Qed.

Example C03_trans_run_poolForFrame :
  go_pmm_BitmapAllocator_poolForFrame 3 (to_ga true ex_alloc []) 20 = GOk (to_ga true ex_alloc [], 0) /\
  go_pmm_BitmapAllocator_poolForFrame 3 (to_ga true ex_alloc []) 325 = GOk (to_ga true ex_alloc [], 1) /\
  go_pmm_BitmapAllocator_poolForFrame 3 (to_ga true ex_alloc []) 326 = GOk (to_ga true ex_alloc [], 2 ^ 64 - 1).
Proof. repeat split; vm_compute; reflexivity. Qed.

(** an exhausted allocator: out of memory, lock released *)
Example C03_trans_run_oom :
  go_pmm_BitmapAllocator_AllocFrame 65 (to_ga true (mkBA 10 10 [mkPool 16 25 0 [max64]]) []) =
  GOk (to_ga true (mkBA 10 10 [mkPool 16 25 0 [max64]]) [GEv "Release" []; GEv "Acquire" []],
       (mm_InvalidFrame, Some "errBitmapAllocOutOfMemory"%string)).
Proof. vm_compute. reflexivity. Qed.

(** a bitmap shorter than the pool claims (not a state Init produces): FreeFrame indexes out of range - GPanic,
    as the model's FreePanic *)
Example C03_trans_run_panic :
  go_pmm_BitmapAllocator_FreeFrame 3 (to_ga true (mkBA 200 0 [mkPool 0 199 200 [0]]) []) 100 = GPanic /\
  snd (bitmap_free (mkBA 200 0 [mkPool 0 199 200 [0]]) 100) = FreePanic.
Proof. split; vm_compute; reflexivity. Qed.

Example C03_trans_run_markFrame :
  go_pmm_BitmapAllocator_markFrame (to_ga true ex_alloc []) 1 257 false =
  match mark_reserved ex_alloc (Some 1%nat) 257 with Ok a' => GOk (to_ga true a' [], tt) | _ => GPanic end /\
  go_pmm_BitmapAllocator_markFrame (to_ga true ex_alloc []) (2 ^ 64 - 1) 257 false = GOk (to_ga true ex_alloc [], tt).
Proof. split; vm_compute; reflexivity. Qed.
