(** C06 - tie of pageFaultHandler (kernel/mm/vmm/fault_amd64.go) to the source BY TRANSLATION.

    Gen/Trans_vmm_fault.v is regenerated on every run by gen/gotrans in its "memory as state" mode
    (gen/gotrans/ext_mem.go, config gen/gotrans/vmm_fault.json; see Props/C04_pdt_trans.v and Props/C04_map_trans.v for
    the mode).  The closure the handler passes to walk is the body of [gvisit .. (walk_items ..)]
    (C04_walk_is_translation is the contract); pageEntry is an address (nil = 0; no entry of the recursive window has
    address 0, [F.walk_items_nonzero]); pageEntry.HasFlags / ClearFlags / SetFlags / SetFrame are loads and stores
    resolved by the MMU model at the time of the access.  Seams and their oracles: readCR2Fn returns the fault address;
    mm.AllocFrame is the model's allocator oracle; mapTemporaryFn / unmapFn are the model's [map_temporary] /
    [unmap_page]; kernel.Memcopy(src, dst, PageSize) is the model's page-copy step between the frames the two pages
    resolve to (kernel.Memcopy itself: C06_memcopy_exact); flushTLBEntryFn logs.  nonRecoverablePageFault never returns
    (it prints and panics): its call is recorded and ENDS the translated function, so a run that ends in a kernel panic
    shows the state at that moment and, as its most recent event, the call with the fault address, the register block
    and the error.

    The theorem: for every fault address, register block and state, the regenerated handler ends in the model's state,
    with a kernel panic exactly when the model's outcome is [PANIC + code] - then with the model's error
    ([T.err_of code]: the allocator's error, the temporary mapping's error, or errUnrecoverableFault) - and without one
    (the last event is the flush) exactly when the model resumes; a stray access of the model is [GPanic].
    What the statement observes is [F.fres]: the final machine state and the arguments of the MOST RECENT event if that
    event is nonRecoverablePageFault; the order and arguments of the other seam calls are not part of the statement
    (their effects on the state - flush log, allocator list, memory - are).
    Hypotheses: 64-bit fault address and memory words; [F.fault_stable]: the model resolves the leaf entry of the
    faulting page ONCE (before the allocation, the temporary mapping, the copy and the unmapping) while the code
    dereferences pageEntry again afterwards, three times; they agree when, after the temporary mapping has come and
    gone, the pointer still resolves to the same entry and keeps doing so when that entry is overwritten - which is the
    case when the page tables form a tree and the faulting page is neither the temporary page nor inside the recursive
    window (the domain of C06_cow_ok).
    [C06_fault_handler_is_translation_inv] discharges [F.fault_stable] IN GENERAL on the domain of C06_cow_ok /
    C06_fault_else_panics: the invariant [Inv] of the active space, the fault page outside the recursive window and not
    the temporary page, and - if the page is present, read-only and copy-on-write - showing a data frame (backed, not a
    page table, not in the allocator's hands): no per-state check, for recoverable and non-recoverable faults alike.
    OUTSIDE that domain the Go code re-resolves pageEntry after the temporary mapping and after each store while the
    model resolves it once.
    Statements only; proofs are in Vmm/FaultTrans.v and Vmm/StableInvFault.v. *)
From Coq Require Import NArith String List Bool.
From FF Require Import Lib.Word Lib.GoOps Gen.Consts_mm_vmm Gen.Trans_vmm_fault Vmm.Pt Vmm.PtAccess.
From FF Require Vmm.FaultTrans Vmm.MapTrans Vmm.PdtTrans Vmm.StableInvFault.
From FF Require Import Vmm.PtMap Vmm.PtFault.
Module F := FF.Vmm.FaultTrans.
Module M := FF.Vmm.MapTrans.
Module T := FF.Vmm.PdtTrans.
Import ListNotations.
Local Open Scope N_scope.

Theorem C06_fault_handler_is_translation :
  forall (addr regs : N) (s : st) (tr0 : list gcall),
    addr < two64 -> T.mem_w64 s -> F.fault_stable addr s ->
    F.fres (go_vmm_pageFaultHandler (mk_go_vmm_world tr0 s) regs
              T.o_flush F.o_memcopy T.o_maptemp M.o_alloc F.o_nonrec (F.o_cr2 addr) T.o_unmap) =
    match page_fault addr s with
    | Stray => GPanic
    | Ok (s', out) =>
        GOk (s', if out =? 0 then None
                 else Some [GNum addr; GNum regs; err_arg (T.err_of (out - PANIC))])
    end.
Proof. exact F.fault_handler_is_translation. Qed.
Print Assumptions C06_fault_handler_is_translation.

(** no entry address that walk computes is the nil pointer *)
Theorem C06_walk_items_nonzero :
  forall (va l p : N), In (l, p) (walk_items va) -> p <> 0.
Proof. exact F.walk_items_nonzero. Qed.
Print Assumptions C06_walk_items_nonzero.

(** the handler on the whole domain of the C06 fault theorems *)
Theorem C06_fault_handler_is_translation_inv :
  forall (s : st) (A : N) (own : PtTree.ownmap) (addr regs : N) (tr0 : list gcall),
    Inv s A A own -> addr < two64 -> T.mem_w64 s ->
    let page := page_from_addr addr in
    hw_idx page 0 <> 511 -> ~ PtTheorems.same_page page temp_page ->
    (forall e, cow_pre s A page = Some e ->
       backed s (hw_frame e) = true /\ own (hw_frame e) = None /\ ~ In (hw_frame e) (orc s)) ->
    F.fres (go_vmm_pageFaultHandler (mk_go_vmm_world tr0 s) regs
              T.o_flush F.o_memcopy T.o_maptemp M.o_alloc F.o_nonrec (F.o_cr2 addr) T.o_unmap) =
    match page_fault addr s with
    | Stray => GPanic
    | Ok (s', out) =>
        GOk (s', if out =? 0 then None
                 else Some [GNum addr; GNum regs; err_arg (T.err_of (out - PANIC))])
    end.
Proof. exact StableInvFault.fault_handler_is_translation_inv. Qed.
Print Assumptions C06_fault_handler_is_translation_inv.
