(** C03 / C01 - tie of the bitmap frame allocator to the source BY TRANSLATION, fifth part: the translated fragments of
    BitmapAllocator.setupPoolBitmaps (Props/C03_trans4.v) connected in the order the function runs them,

        pass 1 over all regions -> requiredBytes / requiredPages -> [reserve + map + memset loop] -> bitmapStartAddr -> pass 2 over all regions,

    produce exactly the model's set-up step of [pmm_init] (Pmm/Bitmap.v): [pass1] (pool count, totalPages, bitmap bytes),
    [required_bytes], the pools [pass2 m] and the end of the laid-out area [layout_bytes] - for EVERY memory map (no
    well-formedness needed), every allocator record and every address of the reserved block; in particular pass 2 fills
    exactly the poolsHdr.Len pools that pass 1 counted, so the index alloc.pools[poolIndex] is never out of range.

    [B5.go_setup_sizes] (Pmm/BitmapTrans5.v) is the connection: hand-written Gallina around the four regenerated
    fragments.  It is what REMAINS ASSUMED about the Go function beyond the fragments themselves:
      - each closure runs once per memory-map entry, in order, and the visit is never stopped: the contract of
        multiboot.VisitMemRegions (property C10, C10_visitMemRegions_is_translation in Props/C10_C02_trans.v);
      - the unsafe overlays: alloc.pools becomes poolsHdr.Len zero-valued pools (the area was zeroed by kernel.Memset),
        alloc.pools[poolIndex].f is the field of the pool at the index poolIndex has on entry to the closure, a pool's
        freeBitmap becomes freeBitmapHdr.Len zero words;
      - the var block: pageSizeMinus1 = mm.PageSize - 1, sizeofPool = unsafe.Sizeof(framePool{}) (constants dump);
      - the loop between "required" and "layout" (reserveRegionFn, earlyAllocFrame, mapFn, kernel.Memset) is NOT translated:
        [data] stands for the address it reserved; its model is [map_pages] (tied by the correspondence run and the monitor
        c03:state-outside-reserved-block only).
    Side conditions (audit A): C03_setupPoolBitmaps_is_model needs the number of entries < 2^64 (pool counter does not
    wrap); C03_init_with_model_setup ASSUMES through its oracle hypothesis that setupPoolBitmaps answers with the model's
    set-up (it is not derived from the Go function) and covers only the path on which the model's set-up succeeds
    (reserve limit not exceeded, map_pages = MGo, layout fits), plus the size / fuel conditions of C03_init_is_translation.
    Statements only; proofs are in Pmm/BitmapTrans5.v. *)
From Coq Require Import NArith String List.
From FF Require Import Lib.Word Lib.GoOps Lib.GoVisit Gen.Consts_mm_pmm Gen.Trans_pmm_bitmap Pmm.Boot Pmm.Bitmap.
From FF Require Pmm.BitmapTrans Pmm.BitmapTrans3 Pmm.BitmapTrans5.
Module B := FF.Pmm.BitmapTrans.
Module B3 := FF.Pmm.BitmapTrans3.
Module B5 := FF.Pmm.BitmapTrans5.
Import ListNotations.
Local Open Scope N_scope.

Theorem C03_setupPoolBitmaps_is_model :
  forall (mtx : bool) (a : balloc) (tr : list gevent) (m : memmap) (data : N),
    N.of_nat (length m) < 2 ^ 64 ->
    B5.go_setup_sizes (B.to_ga mtx a tr) (map B3.to_gr m) data =
    let '(np, total, req) := pass1 m (a_total a) in
    GOk (B.to_ga mtx (mkBA total (a_reserved a) (a_pools a)) tr, np,
         required_bytes np req, N.shiftr (required_bytes np req) PageShift,
         pass2 m, w64 (data + layout_bytes m np)).
Proof. exact B5.setup_sizes_is_model. Qed.
Print Assumptions C03_setupPoolBitmaps_is_model.

(** pass 1 counts exactly the pools pass 2 creates: the model's "pool index out of range" outcome of the set-up
    ([InitPanic] when length pools <> npools) cannot occur when both passes see the same map *)
Theorem C03_setupPoolBitmaps_pool_count :
  forall (m : memmap) (total0 : N), fst (fst (pass1 m total0)) = N.of_nat (length (pass2 m)).
Proof. exact B5.pass1_npools. Qed.
Print Assumptions C03_setupPoolBitmaps_pool_count.

(** The oracle of C03_init_is_translation instantiated with the model's set-up: when setupPoolBitmaps answers with the
    pools and totalPages of C03_setupPoolBitmaps_is_model (on a fresh allocator) and leaves the boot allocator in the state
    [b] the model's mapping loop [map_pages] ends in, the translated BitmapAllocator.init returns what the model's
    [pmm_init] returns - the function C01_early_frames_good, C01_pools_are_available_ram, C03_init_total and C03_init_stats
    are about.  [limit], [mapfail]: the model's parameters for the reserveRegionFn / mapFn seams (no failure on this path). *)
Theorem C03_init_with_model_setup :
  forall (ga : go_pmm_BitmapAllocator) (gb : go_pmm_BootMemAllocator)
         (o : go_pmm_BitmapAllocator -> go_pmm_BootMemAllocator -> go_pmm_BitmapAllocator * go_pmm_BootMemAllocator * option string)
         (mtx : bool) (tr0 : list gevent) (ka kb : N) (m : memmap) (kstart kend limit mapfail : N)
         (b : bstate) (calls : list mapcall) (fuel : nat),
    let ks := kernel_start_frame kstart in
    let ke := kernel_end_frame kend in
    let npools := fst (fst (pass1 m 0)) in
    let total := snd (fst (pass1 m 0)) in
    let bytes := required_bytes npools (snd (pass1 m 0)) in
    (limit <? bytes) = false ->
    map_pages m ks ke (N.shiftr bytes PageShift) mapfail = MGo b calls ->
    (bytes <? layout_bytes m npools) = false ->
    o (set_f_BitmapAllocator_trace ga (GEv "setupPoolBitmaps" [] :: f_BitmapAllocator_trace ga)) gb =
      (B.to_ga mtx (mkBA total 0 (pass2 m)) tr0, B3.to_gb ka kb ks ke b, None) ->
    N.of_nat (length (pass2 m)) < 2 ^ 63 -> (length (pass2 m) < fuel)%nat ->
    ke < 2 ^ 64 - 1 -> (N.to_nat (ke + 1 - ks) < fuel)%nat ->
    b_count b < 2 ^ 64 -> (N.to_nat (b_count b) < fuel)%nat ->
    go_pmm_BitmapAllocator_init fuel ga gb o (map B3.to_gr m) =
    match fst (pmm_init m kstart kend limit mapfail) with
    | InitOk a2 b' => GOk (B.to_ga mtx a2 (GEv "printStats" [] :: tr0), (None, B3.to_gb ka kb ks ke b'))
    | InitPanic => GPanic
    | InitHang => GFuel
    | _ => GPanic
    end.
Proof. exact B5.init_with_model_setup. Qed.
Print Assumptions C03_init_with_model_setup.
