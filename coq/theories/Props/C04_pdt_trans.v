(** C04 - tie of PageDirectoryTable.{Init,Map,Unmap,Activate} (kernel/mm/vmm/pdt.go) to the source BY TRANSLATION.

    Gen/Trans_vmm_pdt.v is regenerated on every run by gen/gotrans in its "memory as state" mode
    (gen/gotrans/ext_mem.go, config gen/gotrans/vmm_pdt.json).  The translated functions thread a record
    [go_vmm_world] = (trace of the calls made through the function-variable seams, most recent first; the model's
    machine state [Pt.st] as the memory).  In the translation
      - a [*pageTableEntry] is an address; [*p = e] is a store, [p.SetFlags(f)] / [p.SetFrame(f)] are load; apply the
        (separately translated, pure) helper; store - through Vmm/PtAccess.v: in Init the accesses are VIRTUAL, each
        resolved by the model of the 4-level MMU from cr3 in the state at the time of that access; in Map / Unmap
        they are PHYSICAL accesses at activePdtFrame.Address() + 511*8 (the kernel's identity window) - this class is a
        per-function attribute of the config, as it is a modelling decision of Vmm/Pt.v;
      - every call through activePDTFn, switchPDTFn, flushTLBEntryFn, mapFn, unmapFn, mapTemporaryFn and kernel.Memset
        is recorded as [GCall name [GNum arg ..]] and its effect on the state and its results come from a stateful
        oracle.  The oracles [T.o_*] are the model's environment: activePDTFn returns cr3, flushTLBEntryFn /
        switchPDTFn log (and set cr3), mapFn / unmapFn / mapTemporaryFn are the model's [map_page] / [unmap_page] /
        [map_temporary] (a [Stray] of the model is [None], which the translation turns into [GPanic]), and
        kernel.Memset(a, 0, PageSize) is the model's step "zero the frame the page at [a] resolves to"
        (kernel.Memset itself is C06_memset_fills_exactly).
    The theorems: for the receiver value [pdts s slot] the translated function returns exactly the model's result -
    new machine state, error (model code [e] as [T.err_of e]: nil iff 0), the receiver written by Init - and makes
    exactly the listed seam calls in order; a stray access of the model is a panic of the translation.

    Hypotheses.  Map / Unmap: every memory word is a 64-bit word ([T.mem_w64]; the model's [set_frame] does not
    truncate the entry it reads), cr3 and the arguments are 64-bit values ([cr3 s], [pdts s slot], [flags] < 2^64).
    Activate: the receiver's frame [pdts s slot] < 2^64.  Init: the frame argument < 2^64, and: the model resolves the temporary
    page ONCE (before kernel.Memset) and then writes the recursive entry in one step, whereas the Go code - and the
    translation - dereferences the pointer again after Memset and after each of its three stores
    (the stores "*p = 0", SetFlags, SetFrame).  The two agree when the frame that the temporary page is mapped to is not itself
    one of the four tables that translate the temporary page ([T.init_stable]); if it is, Init zeroes a live page
    table and the next dereference cannot be resolved (hardware: a fault; the translation: GPanic) while the
    hand-written model and the test harness (which hands out a host pointer once) carry on.  That input is outside
    C04's theorems too (Init only on a frame no tree uses).
    [C04_pdt_init_is_translation_inv] discharges [T.init_stable] IN GENERAL under the hypotheses of C04_pdt_init (the
    invariant [Inv] of the active space, a backed frame that no tree uses and the allocator will not hand out, not the
    guarded zero frame): no per-state check.  OUTSIDE that domain the Go code re-resolves the pointer after Memset and
    after each store while the model resolves it once; the examples keep the differing case (Init of a live page table).
    Statements only; proofs are in Vmm/PdtTrans.v and Vmm/StableInv.v. *)
From Coq Require Import NArith String List Bool.
From FF Require Import Lib.Word Lib.GoOps Gen.Consts_mm_vmm Gen.Trans_vmm_pdt Vmm.Pt.
From FF Require Vmm.PdtTrans Vmm.StableInv.
From FF Require Import Vmm.PtMap.
Module T := FF.Vmm.PdtTrans.
Import ListNotations.
Local Open Scope N_scope.

Theorem C04_pdt_map_is_translation :
  forall (slot page frame flags : N) (s : st) (tr0 : list gcall),
    T.mem_w64 s -> cr3 s < two64 -> pdts s slot < two64 -> flags < two64 ->
    let af := N.shiftr (cr3 s) mm_PageShift in
    let lea := add64 (frame_addr af) last_entry_off in
    go_vmm_PageDirectoryTable_Map (mk_go_vmm_world tr0 s) (pdts s slot) page frame flags
      T.o_active T.o_flush T.o_map =
    match pdt_map slot page frame flags s with
    | Stray => GPanic
    | Ok (s', e) =>
        GOk (mk_go_vmm_world
               ((if af =? pdts s slot then [T.ev_map page frame flags]
                 else [T.ev_flush lea; T.ev_map page frame flags; T.ev_flush lea]) ++ T.ev_active :: tr0) s',
             T.err_of e)
    end.
Proof. exact T.pdt_map_is_translation. Qed.
Print Assumptions C04_pdt_map_is_translation.

Theorem C04_pdt_unmap_is_translation :
  forall (slot page : N) (s : st) (tr0 : list gcall),
    T.mem_w64 s -> cr3 s < two64 -> pdts s slot < two64 ->
    let af := N.shiftr (cr3 s) mm_PageShift in
    let lea := add64 (frame_addr af) last_entry_off in
    go_vmm_PageDirectoryTable_Unmap (mk_go_vmm_world tr0 s) (pdts s slot) page T.o_active T.o_flush T.o_unmap =
    match pdt_unmap slot page s with
    | Stray => GPanic
    | Ok (s', e) =>
        GOk (mk_go_vmm_world
               ((if af =? pdts s slot then [T.ev_unmap page]
                 else [T.ev_flush lea; T.ev_unmap page; T.ev_flush lea]) ++ T.ev_active :: tr0) s',
             T.err_of e)
    end.
Proof. exact T.pdt_unmap_is_translation. Qed.
Print Assumptions C04_pdt_unmap_is_translation.

Theorem C04_pdt_init_is_translation :
  forall (slot frame : N) (s : st) (tr0 : list gcall) (pdt0 : N),
    frame < two64 ->
    T.init_stable frame (set_pdt s slot frame) ->
    go_vmm_PageDirectoryTable_Init (mk_go_vmm_world tr0 (set_pdt s slot frame)) pdt0 frame
      T.o_active T.o_memset T.o_maptemp T.o_unmap =
    match pdt_init slot frame s with
    | Stray => GPanic
    | Ok (s', e) =>
        GOk (mk_go_vmm_world
               ((if frame_addr frame =? cr3 s then [T.ev_active]
                 else if e =? 0
                      then [T.ev_unmap temp_page; T.ev_memset (frame_addr temp_page); T.ev_maptemp frame; T.ev_active]
                      else [T.ev_maptemp frame; T.ev_active]) ++ tr0) s',
             (T.err_of e, frame))
    end.
Proof. exact T.pdt_init_is_translation. Qed.
Print Assumptions C04_pdt_init_is_translation.

Theorem C04_pdt_activate_is_translation :
  forall (slot : N) (s : st) (tr0 : list gcall),
    pdts s slot < two64 ->
    go_vmm_PageDirectoryTable_Activate (mk_go_vmm_world tr0 s) (pdts s slot) T.o_switch =
    GOk (mk_go_vmm_world (T.ev_switch (frame_addr (pdts s slot)) :: tr0) (pdt_activate slot s), tt).
Proof. exact T.pdt_activate_is_translation. Qed.
Print Assumptions C04_pdt_activate_is_translation.

(** the operations reached through the seams keep the side condition of the Map / Unmap theorems *)
Theorem C04_pdt_trans_keeps_w64 :
  forall (s s' : st) (e : N),
    T.mem_w64 s ->
    (forall p f fl, fl < two64 -> map_page p f fl s = Ok (s', e) -> T.mem_w64 s') /\
    (forall p, unmap_page p s = Ok (s', e) -> T.mem_w64 s').
Proof. exact T.trans_keeps_w64. Qed.
Print Assumptions C04_pdt_trans_keeps_w64.

(** Init on the whole domain of C04_pdt_init *)
Theorem C04_pdt_init_is_translation_inv :
  forall (s : st) (A : N) (own : PtTree.ownmap) (slot F : N) (tr0 : list gcall) (pdt0 : N),
    Inv s A A own -> (prot s && (F =? zf s)) = false -> backed s F = true -> own F = None -> ~ In F (orc s) ->
    go_vmm_PageDirectoryTable_Init (mk_go_vmm_world tr0 (set_pdt s slot F)) pdt0 F
      T.o_active T.o_memset T.o_maptemp T.o_unmap =
    match pdt_init slot F s with
    | Stray => GPanic
    | Ok (s', e) =>
        GOk (mk_go_vmm_world
               ((if frame_addr F =? cr3 s then [T.ev_active]
                 else if e =? 0
                      then [T.ev_unmap temp_page; T.ev_memset (frame_addr temp_page); T.ev_maptemp F; T.ev_active]
                      else [T.ev_maptemp F; T.ev_active]) ++ tr0) s',
             (T.err_of e, F))
    end.
Proof. exact StableInv.pdt_init_is_translation_inv. Qed.
Print Assumptions C04_pdt_init_is_translation_inv.
