(** C03 / C01 - tie of the bitmap frame allocator to the source BY TRANSLATION, fourth part: the SIZING arithmetic of
    BitmapAllocator.setupPoolBitmaps (kernel/mm/pmm/bitmap_allocator.go).

    setupPoolBitmaps as a whole is outside gen/gotrans's subset (it overlays []framePool / []uint64 slice headers on the
    memory it reserved).  Config "fragments" (gen/gotrans/ext_frag.go, gen/gotrans/pmm_bitmap.json) translates, on every
    run, four FRAGMENTS of it into Gen/Trans_pmm_bitmap.v:
      pass1    the body of the first closure handed to multiboot.VisitMemRegions: per region the pool count
               (alloc.poolsHdr.Len / Cap), alloc.totalPages and requiredBitmapBytes += ((pageCount+63) &^ 63) >> 3;
      required `requiredBytes := (uintptr(alloc.poolsHdr.Len)*sizeofPool + uintptr(requiredBitmapBytes) + pageSizeMinus1) & ^pageSizeMinus1`
               and `requiredPages := requiredBytes >> mm.PageShift` (what is reserved and how many pages are mapped);
      layout   `bitmapStartAddr := alloc.poolsHdr.Data + uintptr(alloc.poolsHdr.Len)*sizeofPool`;
      pass2    the body of the second closure: per region the pool's startFrame, endFrame, freeCount, the length / capacity /
               address of its bitmap, the next bitmap address and pool index.
    alloc.poolsHdr.Len/Cap/Data and the fields of alloc.pools[poolIndex] are renamed to variables of the fragment (an
    assignment to one of them reports WHAT is stored); the statement that overlays the bitmap slice is dropped.  A closure
    fragment has the shape of a [gvisit] step (Lib/GoVisit.v): it returns the receiver, the variables and the closure's bool.

    The hand-written model builds the pools with [pass1_step] / [pass1], [required_bytes], [pool_region], [pool_of_region],
    [bitmap_bytes] (Pmm/Bitmap.v) - the functions inside [pmm_init] that C03_init_total / C03_init_stats /
    C01_pools_are_available_ram are about.  They are shown EQUAL to the fragments for every region, every allocator record
    and all values of the variables, at pageSizeMinus1 = [pmask] (= mm.PageSize - 1) and sizeofPool = [pmm_sizeofFramePool]
    (unsafe.Sizeof(framePool{}) as evaluated by the Go compiler, Gen/Consts_mm_pmm.v).  Only hypothesis: the pool counter
    does not wrap (pass1; the model counts in N).

    NOT covered (stays with the hand model, the correspondence run and the source pin): how setupPoolBitmaps connects the
    fragments (the var block binding pageSizeMinus1 / sizeofPool, that each closure runs once per region, that the values go
    where the renamed expressions point), the reserveRegionFn / earlyAllocFrame / mapFn / kernel.Memset loop, and the unsafe
    overlays.  Statements only; proofs are in Pmm/BitmapTrans4.v. *)
From Coq Require Import NArith String List.
From FF Require Import Lib.Word Lib.GoOps Lib.GoVisit Gen.Consts_mm_pmm Gen.Trans_pmm_bitmap Pmm.Boot Pmm.Bitmap.
From FF Require Pmm.BitmapTrans Pmm.BitmapTrans3 Pmm.BitmapTrans4.
Module B := FF.Pmm.BitmapTrans.
Module B3 := FF.Pmm.BitmapTrans3.
Module B4 := FF.Pmm.BitmapTrans4.
Import ListNotations.
Local Open Scope N_scope.

(** pass 1: one call of the first closure = [pass1_step] on (pool count, totalPages, bitmap bytes); Cap follows Len *)
Theorem C03_setupPoolBitmaps_sizes_is_translation :
  forall (mtx : bool) (a : balloc) (tr : list gevent) (npools cap req : N) (r : region),
    npools + 1 < 2 ^ 64 ->
    go_pmm_BitmapAllocator_setupPoolBitmaps_pass1 (B.to_ga mtx a tr) pmask npools cap req (B3.to_gr r) =
    let '(np', total', req') := pass1_step (npools, a_total a, req) r in
    GOk ((B.to_ga mtx (mkBA total' (a_reserved a) (a_pools a)) tr, np',
          (if pool_region r then gw 64 (cap + 1) else cap), req'), true).
Proof. exact B4.pass1_is_translation. Qed.
Print Assumptions C03_setupPoolBitmaps_sizes_is_translation.

(** the size of the reserved block and the number of pages mapped for it *)
Theorem C03_setupPoolBitmaps_required_is_translation :
  forall (ga : go_pmm_BitmapAllocator) (npools req : N),
    go_pmm_BitmapAllocator_setupPoolBitmaps_required ga pmask pmm_sizeofFramePool npools req =
    GOk (ga, required_bytes npools req, N.shiftr (required_bytes npools req) PageShift).
Proof. exact B4.required_is_translation. Qed.
Print Assumptions C03_setupPoolBitmaps_required_is_translation.

(** the bitmaps start right behind the pool headers *)
Theorem C03_setupPoolBitmaps_layout_is_translation :
  forall (ga : go_pmm_BitmapAllocator) (npools data : N),
    go_pmm_BitmapAllocator_setupPoolBitmaps_layout ga pmm_sizeofFramePool npools data =
    GOk (ga, w64 (data + npools * pmm_sizeofFramePool)).
Proof. exact B4.layout_is_translation. Qed.
Print Assumptions C03_setupPoolBitmaps_layout_is_translation.

(** pass 2: a region yields a pool exactly when [pool_region] says so; the values stored are the model's
    [pool_of_region]: start / end frame, freeCount, the number of bitmap words (Len = Cap); the bitmap is placed at the
    current address, which advances by [bitmap_bytes]; other regions change nothing *)
Theorem C03_setupPoolBitmaps_pools_is_translation :
  forall (ga : go_pmm_BitmapAllocator) (bsa pi ps pe pf bl bc bd : N) (r : region),
    go_pmm_BitmapAllocator_setupPoolBitmaps_pass2 ga pmask bsa pi ps pe pf bl bc bd (B3.to_gr r) =
    if pool_region r
    then GOk ((ga, w64 (bsa + bitmap_bytes r), w64 (pi + 1),
               p_start (pool_of_region r), p_end (pool_of_region r), p_free (pool_of_region r),
               N.of_nat (length (p_bitmap (pool_of_region r))), N.of_nat (length (p_bitmap (pool_of_region r))), bsa), true)
    else GOk ((ga, bsa, pi, ps, pe, pf, bl, bc, bd), true).
Proof. exact B4.pass2_is_translation. Qed.
Print Assumptions C03_setupPoolBitmaps_pools_is_translation.
