(** C07 for kernel/goruntime/bootstrap.go - sysReserve / sysMap / sysAlloc (model: Goruntime/Boot.v; the
    model of the code as it stands is [chk = true], see the head of that file).  Also C06's clause "the zero
    frame can never be mapped writable" for sysMap's requests.
    Statements only; every proof is [exact <lemma of Goruntime/BootProofs.v>].  The reservation theorems
    are COMPOSED with Props/C07.v (the history of reservations of a sysReserve/sysAlloc history is a history
    of EarlyReserveRegion reservations, to which C07_reserve_history applies) - nothing is proved twice. *)
From Coq Require Import NArith List Bool.
From FF Require Import Lib.Word Gen.Consts_mm_vmm Vmm.Region Vmm.RegionProofs Goruntime.Boot Goruntime.BootProofs.
Import ListNotations.
Local Open Scope N_scope.

(** For EVERY history of sysReserve / sysMap / sysAlloc calls (any 64-bit sizes and addresses, any scripted
    allocator answers, a mapFn failure anywhere), started from any page-aligned cursor at or below the
    temporary-mapping page: the regions the calls obtain - (address, bytes reserved, bytes requested), as
    reported by the calls themselves - are exactly the regions of the EarlyReserveRegion history with the
    same sizes; hence (C07_reserve_history) each is page aligned, a whole number of pages, at least as large
    as requested and less than a page larger, below the temporary-mapping page and entirely below every
    region obtained before it.  This includes the region that stays reserved when sysAlloc fails later on. *)
Theorem C07_rt_reserve_history :
  forall (zf l0 stat : N) (ops : list rop),
    WFstart l0 -> Forall WFrop ops ->
    let regs := rt_regions zf (l0, stat) ops in
    regs = regions l0 (rt_abs ops) /\
    Forall region_ok regs /\
    Forall (below l0) regs /\
    ForallOrdPairs (fun earlier later => below (fst (fst earlier)) later) regs.
Proof. exact rt_history. Qed.
Print Assumptions C07_rt_reserve_history.

(** Every call of every history starts from such a cursor, so the per-call theorems below apply to it. *)
Theorem C07_rt_cursor_invariant :
  forall (zf : N) (ops : list rop) (last stat : N),
    WFstart last -> Forall WFrop ops ->
    Forall (fun sr => WFstart (fst (fst sr))) (rrun true zf (last, stat) ops).
Proof. exact rrun_wf. Qed.
Print Assumptions C07_rt_cursor_invariant.

(** What the caller of sysReserve sees: the address of the region and *reserved = true - or, exactly when
    the page-rounded size (computed without wrap-around) does not fit below the cursor, a panic with an
    error, the cursor unmoved and *reserved untouched. *)
Theorem C07_rt_sysreserve_result :
  forall zf last stat s, s < two64 -> last <= vmm_tempMappingAddr ->
    rstep true zf (last, stat) (RSysReserve s) =
      match op_region last (Reserve s) with
      | Some (a, len, _) => ((a, stat), mk_rres (Ret a) true [] (Some a) len)
      | None => ((last, stat), mk_rres PanicErr false [] None (rt_round_up s))
      end.
Proof. exact sys_reserve_result. Qed.
Print Assumptions C07_rt_sysreserve_result.

(** sysAlloc reserves exactly what EarlyReserveRegion reserves for the size - whatever happens afterwards. *)
Theorem C07_rt_sysalloc_reserves :
  forall last stat s frames fail, s < two64 -> last <= vmm_tempMappingAddr ->
    let '(l, _, _, _, rsv) := sys_alloc true last stat s frames fail in
    match reserve_spec last s with
    | Some (a, _) => l = a /\ rsv = Some a
    | None => l = last /\ rsv = None
    end.
Proof. exact sys_alloc_reserves. Qed.
Print Assumptions C07_rt_sysalloc_reserves.

(** A sysAlloc request that does not fit returns nil: nothing reserved, no seam call, counter untouched. *)
Theorem C07_rt_sysalloc_no_fit :
  forall last stat s frames fail, s < two64 -> last <= vmm_tempMappingAddr -> reserve_spec last s = None ->
    sys_alloc true last stat s frames fail = (last, stat, Ret 0, [], None).
Proof. exact sys_alloc_no_fit. Qed.
Print Assumptions C07_rt_sysalloc_no_fit.

(** sysAlloc, every frame request answered and no mapping failing: the seam calls are exactly ceil(size/4096)
    rounds  AllocFrame -> mapFn(page, that frame, Present|NoExecute|RW) -> memsetFn(page address, 0, PageSize)
    over the consecutive pages of the fresh region, in order; the region's address is returned and the
    counter grows by the region size. *)
Theorem C07_rt_sysalloc_pages :
  forall last stat s a len, s < two64 -> WFstart last -> reserve_spec last s = Some (a, len) ->
  forall fs rest fail,
    N.of_nat (length fs) = ceil_pages s ->
    (forall k, fail = Some k -> ceil_pages s <= k) ->
    sys_alloc true last stat s (map Some fs ++ rest) fail =
      (a, add64 stat len, Ret a, rounds (a / 4096) fs, Some a).
Proof. exact sys_alloc_ok. Qed.
Print Assumptions C07_rt_sysalloc_pages.

(** The rounds, read call by call: page number i of the region goes to the i-th frame handed out with
    RW|Present|NoExecute; one memset of one page per mapped page; one AllocFrame per page. *)
Theorem C07_rt_rounds_calls :
  forall page fs,
    maps_of (rounds page fs) = pages_frames page fs /\
    length (pages_frames page fs) = length fs /\
    (forall i f, nth_error fs i = Some f ->
       nth_error (pages_frames page fs) i = Some (page + N.of_nat i, f, alloc_flags)) /\
    memsets_of (rounds page fs) = page_clears page (length fs) /\
    allocs_of (rounds page fs) = map Some fs /\
    alloc_flags = N.lor (N.lor vmm_FlagPresent vmm_FlagNoExecute) vmm_FlagRW.
Proof. exact rounds_calls. Qed.
Print Assumptions C07_rt_rounds_calls.

(** The allocator fails at round j (an error answer, or nothing left): the j complete rounds, then the
    failing AllocFrame and nothing after it; nil is returned, the counter is untouched (the region stays
    reserved and its first j pages stay mapped). *)
Theorem C07_rt_sysalloc_allocator_failure :
  forall last stat s a len, s < two64 -> WFstart last -> reserve_spec last s = Some (a, len) ->
  forall fs tail fail,
    N.of_nat (length fs) < ceil_pages s ->
    (tail = [] \/ exists rest, tail = None :: rest) ->
    (forall k, fail = Some k -> N.of_nat (length fs) <= k) ->
    sys_alloc true last stat s (map Some fs ++ tail) fail =
      (a, stat, Ret 0, rounds (a / 4096) fs ++ [EAlloc None], Some a).
Proof. exact sys_alloc_oom. Qed.
Print Assumptions C07_rt_sysalloc_allocator_failure.

(** Mapping call k fails: k complete rounds, the k-th frame request and the failing mapFn call, nothing
    after it (no memset of the unmapped page); nil is returned, the counter is untouched. *)
Theorem C07_rt_sysalloc_map_failure :
  forall last stat s a len, s < two64 -> WFstart last -> reserve_spec last s = Some (a, len) ->
  forall fs f rest,
    N.of_nat (length fs) < ceil_pages s ->
    sys_alloc true last stat s (map Some fs ++ Some f :: rest) (Some (N.of_nat (length fs))) =
      (a, stat, Ret 0,
       rounds (a / 4096) fs ++ [EAlloc (Some f); EMap (a / 4096 + N.of_nat (length fs)) f alloc_flags], Some a).
Proof. exact sys_alloc_map_fail. Qed.
Print Assumptions C07_rt_sysalloc_map_failure.

(** sysMap (reserved = true), any address whose page round-up stays inside the address space: exactly
    ceil(size/4096) mapFn calls for the consecutive pages starting at the rounded-up address, every one to
    ReservedZeroedFrame with Present|NoExecute|CopyOnWrite; the rounded-up address is returned and the
    counter grows by the page-rounded size. *)
Theorem C07_rt_sysmap_pages :
  forall zf stat addr size fail,
    addr + 4095 < two64 -> size + 4095 < two64 ->
    (forall k, fail = Some k -> ceil_pages size <= k) ->
    sys_map true zf stat addr size true fail =
      (add64 stat (ceil_pages size * 4096), Ret (ceil_pages addr * 4096),
       zero_calls (ceil_pages addr) zf (ceil_pages size)).
Proof. exact sys_map_ok. Qed.
Print Assumptions C07_rt_sysmap_pages.

(** ... and it stops at the first mapping failure: k+1 calls, nil returned, counter untouched. *)
Theorem C07_rt_sysmap_fail_stops :
  forall zf stat addr size k,
    addr + 4095 < two64 -> size + 4095 < two64 -> k < ceil_pages size ->
    sys_map true zf stat addr size true (Some k) = (stat, Ret 0, zero_calls (ceil_pages addr) zf (k + 1)).
Proof. exact sys_map_fail. Qed.
Print Assumptions C07_rt_sysmap_fail_stops.

Theorem C07_rt_sysmap_not_reserved_panics :
  forall chk zf stat addr size fail,
    sys_map chk zf stat addr size false fail = (stat, PanicNotReserved, []).
Proof. exact sys_map_not_reserved. Qed.
Print Assumptions C07_rt_sysmap_not_reserved_panics.

(** C06, zero-frame clause, for this client of the mapping interface: for ALL arguments (any address, any
    size, with or without the round-up check) every mapping sysMap requests names the zero frame with flags
    that do not contain FlagRW. *)
Theorem C07_rt_sysmap_zero_frame_readonly :
  forall chk zf stat addr size r fail e,
    In e (snd (sys_map chk zf stat addr size r fail)) ->
    (exists page, e = EMap page zf cow_flags) /\
    cow_flags = N.lor (N.lor vmm_FlagPresent vmm_FlagNoExecute) vmm_FlagCopyOnWrite /\
    N.land cow_flags vmm_FlagRW = 0.
Proof. exact sys_map_zero_frame_readonly_flags. Qed.
Print Assumptions C07_rt_sysmap_zero_frame_readonly.

(** Sizes in the last page before 2^64 (the page round-up wraps to 0): sysReserve panics with an error,
    sysAlloc and sysMap return nil; nothing is reserved, no seam is called, the counter is untouched. *)
Theorem C07_rt_wrap_rejected :
  forall zf last stat addr s frames fail, s < two64 -> two64 <= s + 4095 ->
    sys_reserve true last s = (last, PanicErr, false) /\
    sys_alloc true last stat s frames fail = (last, stat, Ret 0, [], None) /\
    sys_map true zf stat addr s true fail = (stat, Ret 0, []).
Proof. exact rt_wrap_rejected. Qed.
Print Assumptions C07_rt_wrap_rejected.

(** The expression [(size + PageSize - 1) & ^(PageSize - 1)] as the three functions write it (one addition
    and one subtraction on uintptr) is the round-up of Vmm/Region.v for every 64-bit size. *)
Theorem C07_rt_round_up_word_exact :
  forall s, s < two64 -> rt_round_up s = round_up s.
Proof. exact rt_round_up_eq. Qed.
Print Assumptions C07_rt_round_up_word_exact.

(** Why the check matters - the code BEFORE the `fix:` commit recorded in known_findings/C07.json is the model
    with [chk = false], and it violates the property: from the kernel's initial cursor a request of 2^64-1
    bytes does not fit (reserve_spec = None), yet sysReserve returns the cursor with *reserved = true and
    sysAlloc returns it without a single seam call (a "successful" reservation of 0 bytes); sysMap reports
    success for a size of 2^64-1 after mapping nothing. *)
Definition C07_rt_full_no_fit_fails (chk : bool) : Prop :=
  forall last stat s frames fail, s < two64 -> WFstart last -> reserve_spec last s = None ->
    sys_reserve chk last s = (last, PanicErr, false) /\
    sys_alloc chk last stat s frames fail = (last, stat, Ret 0, [], None).

Theorem C07_rt_no_fit_fails : C07_rt_full_no_fit_fails true.
Proof. exact rt_no_fit_fails. Qed.
Print Assumptions C07_rt_no_fit_fails.

Theorem C07_rt_unchecked_refuted :
  ~ C07_rt_full_no_fit_fails false /\
  (let last := vmm_earlyReserveInitial in let s := 0xffffffffffffffff in
   WFstart last /\ s < two64 /\ reserve_spec last s = None /\
   sys_reserve false last s = (last, Ret last, true) /\
   sys_alloc false last 0 s [] None = (last, 0, Ret last, [], Some last) /\
   sys_map false 5 0 0xffffff7fffffd000 s true None = (0, Ret 0xffffff7fffffd000, [])).
Proof. exact rt_unchecked_refuted. Qed.
Print Assumptions C07_rt_unchecked_refuted.
