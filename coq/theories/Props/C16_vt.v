(** C16 composed with C17 — what the real terminal shows after bring-up (second configuration of
    DESIGN.md section 5).  Statement only; proof in Hal/VtCompose.v on top of C16_bringup
    (Hal/HalProofs.v) and C17's vt_refines (Tty/VtProofs.v, the terminal builder's development). *)
From Coq Require Import NArith List.
From FF Require Import Lib.Word Gen.Consts_kfmt Kfmt.Fmt Kfmt.Ring Kfmt.RingProofs Hal.Model Hal.Spec Hal.HalProofs Hal.VtCompose.
From FF Require Tty.Vt Tty.VtSpec.
Import ListNotations.
Local Open Scope N_scope.

(** For every bring-up scenario in which a console and a terminal come up and every geometry of that
    console (w, h >= 1, tab <= 255, w*(h+sb)*3 < 2^32): the Write / SetState calls bring-up makes on
    the terminal ([tty_ops], read off the trace), run on the model of tty.VT after AttachTo, do not
    panic, and the terminal's contents, viewport and cursor are exactly those of the reference
    terminal of C17 after receiving  newest-[capacity](early log) ++ later log  — every early byte
    once, in order, ahead of later output, now at the level of what the terminal holds.  (That the
    delivered stream consists of bytes is a hypothesis: log chunks are Go bytes.) *)
Theorem C16_bringup_terminal_shows :
  forall (w h sb tab fg bg : N) (logo_off : bool) (pre : list logop) (sorted_list : list driver) (post : list logop),
    1 <= w -> 1 <= h -> tab <= 255 -> w * (h + sb) * 3 < two32 ->
    exists st a,
      scenario pre sorted_list post (set_logo_off init_hal logo_off) = Ok st /\
      abs_scenario pre sorted_list post init_abs = Ok a /\
      match h_console st, h_tty st with
      | Some c, Some t =>
          Forall (fun b => b < 256) (tty_bytes t (h_trace st)) ->
          exists v0 v,
            Vt.attach (Vt.new_vt tab sb) w h fg bg = Vt.Ok v0 /\
            Vt.run_ops v0 (tty_ops t (h_trace st)) = Vt.Ok v /\
            VtSpec.abs v =
              fold_left (VtSpec.r_byte w h sb tab fg bg) (lastn capacity (a_early a) ++ a_later a)
                        (VtSpec.r_init w h sb fg bg)
      | _, _ => True
      end.
Proof. exact bringup_terminal_shows. Qed.
Print Assumptions C16_bringup_terminal_shows.
