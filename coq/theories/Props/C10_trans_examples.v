(** Non-vacuity of the C10 translation ties and concrete runs of the REGENERATED decoders (Gen/Trans_multiboot.v)
    by vm_compute: on the well-formed block of Props/C10_examples.v (every kind of tag, two memory maps, placed so
    that it ends at a page boundary) and on a small block written out byte by byte. *)
From Coq Require Import String NArith List Bool.
From FF Require Import Lib.Word Lib.GoOps Gen.Consts_multiboot Gen.Trans_multiboot Multiboot.Model Multiboot.Spec
  Multiboot.FindProofs Multiboot.AfterVisit Multiboot.DecodeTrans Multiboot.DecodeTransElf Props.C10_examples Props.C10_trans.
Import ListNotations.
Local Open Scope N_scope.

Definition ex_mem : mem := mem_of ex_layout (encode ex_mb).

(** the hypothesis of every translation theorem holds for the example memory *)
Example C10_trans_mem_bytes_nonvacuous : mem_bytes ex_mem.
Proof. apply mem_bytes_b_ok. vm_compute. reflexivity. Qed.

(** the two composed theorems at the example block: all hypotheses discharged *)
Example C10_findTag_translation_on_block_nonvacuous :
  go_multiboot_findTagByType mld (find_fuel ex_mem) (mkw [] ex_mem) mb_tagFramebufferInfo (l_info ex_layout) =
    GOk (mkw [] ex_mem, (l_info ex_layout + 0xe0, 30)).
Proof.
  unfold ex_mem.
  rewrite (C10_findTag_translation_on_block ex_layout ex_mb mb_tagFramebufferInfo []
             C10_mbinfo_wf_nonvacuous C10_layout_wf_nonvacuous ltac:(discriminate)).
  vm_compute. reflexivity.
Qed.

Example C10_visitMemRegions_translation_on_block_nonvacuous :
  forall cont : N -> region -> bool,
  go_multiboot_VisitMemRegions mld mst 100 (mkw [] ex_mem) (l_info ex_layout) (vis_oracle cont 0) =
    GOk (mkw (rev (map ev_region (visited cont 0 (expected_regions ex_mb))) ++ [])
             (mem_of ex_layout (encode (after_visit cont ex_mb))), tt).
Proof.
  intros cont.
  apply (C10_visitMemRegions_translation_on_block ex_layout ex_mb cont [] 100
           C10_mbinfo_wf_nonvacuous C10_layout_wf_nonvacuous).
  - vm_compute. repeat constructor.
  - vm_compute. repeat constructor.
Qed.

(** ---- the regenerated functions, run ---- *)
(** findTagByType: payload address and payload size (30) of the framebuffer tag; an absent tag gives (0,0) *)
Example C10_trans_run_find :
  go_multiboot_findTagByType mld 100 (mkw [] ex_mem) mb_tagFramebufferInfo (l_info ex_layout) =
    GOk (mkw [] ex_mem, (l_info ex_layout + 0xe0, 30)) /\
  go_multiboot_findTagByType mld 100 (mkw [] ex_mem) mb_tagModules (l_info ex_layout) = GOk (mkw [] ex_mem, (0, 0)).
Proof. vm_compute. auto. Qed.

(** one unit of fuel below the need is GFuel, not GPanic: the framebuffer tag is the 5th header inspected *)
Example C10_trans_run_find_fuel :
  go_multiboot_findTagByType mld 4 (mkw [] ex_mem) mb_tagFramebufferInfo (l_info ex_layout) = GFuel /\
  go_multiboot_findTagByType mld 5 (mkw [] ex_mem) mb_tagFramebufferInfo (l_info ex_layout) =
    GOk (mkw [] ex_mem, (l_info ex_layout + 0xe0, 30)).
Proof. vm_compute. auto. Qed.

(** VisitMemRegions with a visitor that always continues: four calls (most recent first on the trace); the
    entries of type 5 and type 0 are presented - and left in memory - as reserved (2) *)
Example C10_trans_run_visit :
  go_multiboot_VisitMemRegions mld mst 100 (mkw [] ex_mem) (l_info ex_layout) (fun _ => true) =
    GOk (mkw [ GCall "visitor" [GNum 0x7fe0000; GNum 0x20000; GNum 3];
               GCall "visitor" [GNum 0xfffc0000; GNum 0x40000; GNum 2];
               GCall "visitor" [GNum 0x100000; GNum 0x7ee0000; GNum 2];
               GCall "visitor" [GNum 0; GNum 0x9fc00; GNum 1] ]
             (mem_of ex_layout (encode (after_visit (fun _ _ => true) ex_mb))), tt).
Proof. vm_compute. reflexivity. Qed.

(** a visitor that answers false on its second call: two calls, the third entry (type 0) is not touched *)
Example C10_trans_run_visit_stop :
  go_multiboot_VisitMemRegions mld mst 100 (mkw [] ex_mem) (l_info ex_layout) (vis_oracle (fun i _ => negb (i =? 1)) 0) =
    GOk (mkw [ GCall "visitor" [GNum 0x100000; GNum 0x7ee0000; GNum 2];
               GCall "visitor" [GNum 0; GNum 0x9fc00; GNum 1] ]
             (mem_of ex_layout (encode (after_visit (fun i _ => negb (i =? 1)) ex_mb))), tt).
Proof. vm_compute. reflexivity. Qed.

(** GetFramebufferInfo: the address of the framebuffer tag's payload *)
Example C10_trans_run_fb :
  go_multiboot_GetFramebufferInfo mld 100 (mkw [] ex_mem) (l_info ex_layout) = GOk (mkw [] ex_mem, l_info ex_layout + 0xe0).
Proof. vm_compute. reflexivity. Qed.

(** RGBColorInfo on the example's framebuffer tag (type 1 = RGB): the colour block follows the 24 bytes of fields;
    on the raw block below (type byte 6) it is nil *)
Example C10_trans_run_rgb :
  go_multiboot_FramebufferInfo_RGBColorInfo mld (mkw [] ex_mem) (l_info ex_layout + 0xe0) = GOk (mkw [] ex_mem, l_info ex_layout + 0xe0 + 24) /\
  read_fb ex_mem (l_info ex_layout + 0xe0) = Ok (mkFb 0xfd000000 4096 1024 768 32 1 (Some [16; 8; 8; 8; 0; 8])).
Proof. vm_compute. auto. Qed.

(** VisitElfSections: the empty section is skipped, names come from the string table (".shstrtab", ".text"), the
    flags 0x10000000006 are cut to 32 bits; the memory is untouched *)
Example C10_trans_run_elf :
  go_multiboot_VisitElfSections mld 600 (mkw [] ex_mem) (l_info ex_layout) =
    GOk (mkw [ GCall "visitor" [GBytes [46; 116; 101; 120; 116]; GNum 6; GNum 0x100000; GNum 0x2000];
               GCall "visitor" [GBytes [46; 115; 104; 115; 116; 114; 116; 97; 98]; GNum 0; GNum ex_saddr; GNum 17] ] ex_mem, tt).
Proof. vm_compute. reflexivity. Qed.

(** ... the theorem on the block, all hypotheses discharged (fuel 2^16) *)
Example C10_visitElfSections_translation_on_block_nonvacuous :
  go_multiboot_VisitElfSections mld (N.to_nat 65536) (mkw [] ex_mem) (l_info ex_layout) =
    GOk (mkw (rev (map ev_section (expected_sections (l_strtab ex_layout) ex_mb)) ++ []) ex_mem, tt).
Proof.
  apply (C10_visitElfSections_translation_on_block ex_layout ex_mb [] (N.to_nat 65536)
           C10_mbinfo_wf_nonvacuous C10_layout_wf_nonvacuous).
  - apply PeanoNat.Nat.leb_le. vm_compute. reflexivity.
  - apply PeanoNat.Nat.leb_le. vm_compute. reflexivity.
  - rewrite N2Nat.id. discriminate.
Qed.

(** a section name that is not terminated inside the string table: the scan runs off its end: GPanic; with too
    little fuel (9; 10 is enough: the name ".shstrtab" takes 10 tests of the loop condition) GFuel, not GPanic *)
Example C10_trans_run_elf_stray :
  go_multiboot_VisitElfSections mld 600 (mkw [] (mem_of (mkLayout (l_info ex_layout) (l_pre ex_layout) ex_saddr [] (firstn 16 ex_strtab)) (encode ex_mb)))
    (l_info ex_layout) = GPanic /\
  go_multiboot_VisitElfSections mld 9 (mkw [] ex_mem) (l_info ex_layout) = GFuel.
Proof. vm_compute. auto. Qed.

(** an out-of-block read is GPanic: the block cut short by 8 bytes (no end tag) makes the scan for an absent tag
    read the header at the page boundary, where the memory has no byte *)
Example C10_trans_run_stray :
  go_multiboot_findTagByType mld 100 (mkw [] (mem_of ex_layout (firstn 472 (encode ex_mb)))) mb_tagModules (l_info ex_layout) = GPanic /\
  go_multiboot_VisitMemRegions mld mst 100 (mkw [] (mem_of ex_layout (firstn 100 (encode ex_mb)))) (l_info ex_layout) (fun _ => true) = GPanic.
Proof. vm_compute. auto. Qed.

(** a tag of size 0 makes findTagByType loop forever: GFuel for every fuel tried *)
Example C10_trans_run_hang :
  go_multiboot_findTagByType mld 1000 (mkw [] [mkSeg 0x1000 ([16; 0; 0; 0; 0; 0; 0; 0] ++ [5; 0; 0; 0; 0; 0; 0; 0])]) mb_tagModules 0x1000 = GFuel.
Proof. vm_compute. reflexivity. Qed.

(** ---- a block written out byte by byte (not produced by [encode]): total size 112, a command line "a=b c", a
    memory map with entry size 24 and two entries (types 1 and 9), no framebuffer, the end tag ---- *)
Definition raw_block : list N :=
  [ 112; 0; 0; 0;   0; 0; 0; 0;
    (* tag 1 (command line), size 14, "a=b c\0", 2 bytes of padding *)
    1; 0; 0; 0;   14; 0; 0; 0;   97; 61; 98; 32; 99; 0;   0; 0;
    (* tag 6 (memory map), size 64: entry size 24, version 0 *)
    6; 0; 0; 0;   64; 0; 0; 0;   24; 0; 0; 0;   0; 0; 0; 0;
    0; 0; 0; 0; 0; 0; 0; 0;      0; 16; 0; 0; 0; 0; 0; 0;     1; 0; 0; 0;   0; 0; 0; 0;
    0; 16; 0; 0; 0; 0; 0; 0;     0; 32; 0; 0; 0; 0; 0; 0;     9; 0; 0; 0;   0; 0; 0; 0;
    (* tag 8 (framebuffer), size 14: too short to be a real one; only its address is reported *)
    8; 0; 0; 0;   14; 0; 0; 0;   1; 2; 3; 4; 5; 6;   0; 0;
    (* end tag *)
    0; 0; 0; 0;   8; 0; 0; 0 ].
Definition raw_mem : mem := [mkSeg 0x7000 raw_block].

Example C10_trans_run_raw :
  length raw_block = 112%nat /\
  go_multiboot_findTagByType mld 10 (mkw [] raw_mem) mb_tagBootCmdLine 0x7000 = GOk (mkw [] raw_mem, (0x7010, 6)) /\
  go_multiboot_GetFramebufferInfo mld 10 (mkw [] raw_mem) 0x7000 = GOk (mkw [] raw_mem, 0x7060) /\
  (exists m', go_multiboot_VisitMemRegions mld mst 10 (mkw [] raw_mem) 0x7000 (fun _ => true) =
     GOk (mkw [ GCall "visitor" [GNum 0x1000; GNum 0x2000; GNum 2]; GCall "visitor" [GNum 0; GNum 0x1000; GNum 1] ] m', tt) /\
     rd m' (0x7000 + 24 + 16 + 24 + 16) 4 = Ok 2) /\
  (* the same block cut after 80 bytes, inside the second memory-map entry: its type field is not in memory *)
  go_multiboot_VisitMemRegions mld mst 10 (mkw [] [mkSeg 0x7000 (firstn 80 raw_block)]) 0x7000 (fun _ => true) = GPanic.
Proof.
  split; [reflexivity|]. split; [vm_compute; reflexivity|]. split; [vm_compute; reflexivity|].
  split; [|vm_compute; reflexivity]. eexists. split; vm_compute; reflexivity.
Qed.

(** ---- [audit A] the GENERAL theorems (not the on-block compositions): all hypotheses discharged together at the example
    block - fuel bounds, the visitor call cap, and "the model's run does not end in Hang / Runaway" ---- *)
Example C10_visitMemRegions_is_translation_nonvacuous :
  go_multiboot_VisitMemRegions mld mst 100 (mkw [] ex_mem) (l_info ex_layout) (vis_oracle (fun _ _ => true) 0) =
    match visit_mem_regions 10 (fun _ _ => true) ex_mem (l_info ex_layout) with
    | (m', rs, Ok _) => GOk (mkw (rev (map ev_region rs) ++ []) m', tt)
    | _ => GPanic
    end /\
  (match visit_mem_regions 10 (fun _ _ => true) ex_mem (l_info ex_layout) with (_, rs, Ok _) => length rs = 4%nat | _ => False end).
Proof.
  split.
  - apply (C10_visitMemRegions_is_translation 100 10 (fun _ _ => true) [] ex_mem (l_info ex_layout) C10_trans_mem_bytes_nonvacuous).
    + apply PeanoNat.Nat.leb_le. vm_compute. reflexivity.
    + apply PeanoNat.Nat.ltb_lt. vm_compute. reflexivity.
    + vm_compute. discriminate.
    + vm_compute. discriminate.
  - vm_compute. reflexivity.
Qed.

Example C10_visitElfSections_is_translation_nonvacuous :
  go_multiboot_VisitElfSections mld (N.to_nat 65536) (mkw [] ex_mem) (l_info ex_layout) =
    match visit_elf_sections ex_mem (l_info ex_layout) with
    | (rs, Ok _) => GOk (mkw (rev (map ev_section rs) ++ []) ex_mem, tt)
    | _ => GPanic
    end /\
  (match visit_elf_sections ex_mem (l_info ex_layout) with (rs, Ok _) => length rs = 2%nat | _ => False end).
Proof.
  split.
  - apply (C10_visitElfSections_is_translation (N.to_nat 65536) [] ex_mem (l_info ex_layout) C10_trans_mem_bytes_nonvacuous).
    + apply PeanoNat.Nat.leb_le. vm_compute. reflexivity.
    + apply PeanoNat.Nat.leb_le. vm_compute. reflexivity.
    + rewrite N2Nat.id. discriminate.
    + vm_compute. discriminate.
    + vm_compute. discriminate.
  - vm_compute. reflexivity.
Qed.

Example C10_read_fb_uses_rgbColorInfo_nonvacuous :
  go_multiboot_FramebufferInfo_RGBColorInfo mld (mkw [] ex_mem) (l_info ex_layout + 0xe0) =
    GOk (mkw [] ex_mem, padd (l_info ex_layout + 0xe0) mb_off_FramebufferInfo_colorInfo) /\
  rd_each ex_mem (padd (l_info ex_layout + 0xe0) mb_off_FramebufferInfo_colorInfo) rgb_offsets = Ok [16; 8; 8; 8; 0; 8].
Proof.
  assert (Hr : read_fb ex_mem (l_info ex_layout + 0xe0) = Ok (mkFb 0xfd000000 4096 1024 768 32 1 (Some [16; 8; 8; 8; 0; 8])))
    by (vm_compute; reflexivity).
  exact (C10_read_fb_uses_rgbColorInfo [] ex_mem (l_info ex_layout + 0xe0) _ C10_trans_mem_bytes_nonvacuous Hr).
Qed.

Example C10_trans_store_keeps_bytes_nonvacuous :
  exists m', mst ex_mem 4 (l_info ex_layout) 7 = Some m' /\ mem_bytes m'.
Proof.
  destruct (mst ex_mem 4 (l_info ex_layout) 7) as [m'|] eqn:E; [|vm_compute in E; discriminate].
  exists m'. split; [reflexivity|]. exact (C10_trans_store_keeps_bytes ex_mem 4 (l_info ex_layout) 7 m' C10_trans_mem_bytes_nonvacuous E).
Qed.
