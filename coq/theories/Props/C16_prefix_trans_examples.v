(** Non-vacuity and concrete runs for Props/C16_prefix_trans.v: the theorem at the initial writer state, and
    the regenerated translation run on "ab\ncd" / "\n" with the prefix "> " - with the accept-all sink,
    with one unit of fuel too few, and with a sink that fails (an oracle the model does not cover). *)
From Coq Require Import NArith String List Lia.
From FF Require Import Lib.GoOps Lib.GoOpsExt Gen.Trans_kfmt_prefix Kfmt.Fmt Kfmt.Prefix Kfmt.PrefixTrans Props.C16_prefix_trans.
Import ListNotations.
Local Open Scope N_scope.

Example C16_prefix_trans_initial_nonvacuous (prefix p : list N) :
  glen p < 2 ^ 63 ->
  go_kfmt_PrefixWriter_Write (S (length p)) (to_gop prefix 0 []) p accept_all =
  pw_result prefix p [] (prefix_write prefix 0 p).
Proof. intros H. apply prefix_write_is_translation; [exact H|lia]. Qed.

(** "ab\ncd": prefix, "ab\n", prefix, "cd"; bytesAfterPrefix = 2; returns (5, nil) *)
Example C16_prefix_trans_run :
  go_kfmt_PrefixWriter_Write 6 (to_gop [62; 32] 0 []) [97; 98; 10; 99; 100] accept_all =
  GOk (to_gop [62; 32] 2 [call_of [99; 100]; call_of [62; 32]; call_of [97; 98; 10]; call_of [62; 32]], (5, None)) /\
  prefix_write [62; 32] 0 [97; 98; 10; 99; 100] = ([[62; 32]; [97; 98; 10]; [62; 32]; [99; 100]], 2).
Proof. split; vm_compute; reflexivity. Qed.

(** a lone "\n" in the middle of a line: no prefix before, none after (it is the last byte) *)
Example C16_prefix_trans_run_lf :
  go_kfmt_PrefixWriter_Write 2 (to_gop [62; 32] 3 []) [10] accept_all = GOk (to_gop [62; 32] 0 [call_of [10]], (1, None)).
Proof. vm_compute. reflexivity. Qed.

Example C16_prefix_trans_run_fuel :
  go_kfmt_PrefixWriter_Write 5 (to_gop [62; 32] 0 []) [97; 98; 10; 99; 100] accept_all = GFuel.
Proof. vm_compute. reflexivity. Qed.

(** a sink that fails every Write with n = 0: the first line's error is returned (after the prefix for the
    next line has been sent, as in the Go code) *)
Example C16_prefix_trans_run_failing_sink :
  go_kfmt_PrefixWriter_Write 6 (to_gop [62; 32] 0 []) [97; 98; 10; 99; 100] (fun _ => (0, Some "EIO"%string)) =
  GOk (to_gop [62; 32] 0 [call_of [62; 32]; call_of [97; 98; 10]; call_of [62; 32]], (0, Some "EIO"%string)).
Proof. vm_compute. reflexivity. Qed.
