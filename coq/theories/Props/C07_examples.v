(** Non-vacuity: concrete states satisfying the hypotheses of the C07 theorems, and concrete runs. *)
From Coq Require Import NArith List Lia.
From FF Require Import Lib.Word Gen.Consts_mm_vmm Vmm.Region Vmm.RegionProofs.
Import ListNotations.
Local Open Scope N_scope.

Example C07_start_nonvacuous : WFstart vmm_earlyReserveInitial.
Proof. split; [reflexivity| unfold vmm_earlyReserveInitial, vmm_tempMappingAddr; lia]. Qed.

Example C07_ops_nonvacuous :
  Forall WFop [Reserve 1; Reserve 4097; MapRegion 5 8192 3 None; Reserve 0xfffffffffffff001; Reserve 0].
Proof. repeat constructor. Qed.

Example C07_history_example :
  regions vmm_earlyReserveInitial [Reserve 1; Reserve 4097; MapRegion 5 8192 3 None; Reserve 0xfffffffffffff001; Reserve 0]
  = [(0xffffff7fffffe000, 4096, 1); (0xffffff7fffffc000, 8192, 4097); (0xffffff7fffffa000, 8192, 8192); (0xffffff7fffffa000, 0, 0)].
Proof. vm_compute. reflexivity. Qed.

Example C07_map_region_example :
  map_region 0x10000 7 4097 3 None = (0xe000, [(0xe, 7, 3); (0xf, 8, 3)], Some 0xe).
Proof. vm_compute. reflexivity. Qed.
