(** Non-vacuity for Props/C06_mem.v *)
From Coq Require Import NArith List.
From FF Require Import Lib.Word Kernel.MemUtil Kernel.MemUtilProofs.
Import ListNotations.
Local Open Scope N_scope.

(** a size that is not a power of two, in the middle of a buffer *)
Example C06_memset_nonvacuous :
  memset (pattern 12) 2 0 7 = MOk [3; 10; 0; 0; 0; 0; 0; 0; 0; 66; 73; 80] /\
  (7 <> 0 /\ 7 < 2 ^ 63 /\ (2 + N.to_nat 7 <= length (pattern 12))%nat).
Proof. split; [vm_compute; reflexivity|]. repeat split; vm_compute; try discriminate; auto. Qed.

(** overlapping Memcopy, destination above the source *)
Example C06_memcopy_overlap_nonvacuous :
  memcopy (pattern 8) 1 3 4 = MOk [3; 10; 17; 10; 17; 24; 31; 52].
Proof. vm_compute. reflexivity. Qed.

Example C06_mem_run_case : run_case [0; 12; 2; 0; 7] = [0; 1; 3; 1; 10; 7; 0; 1; 66; 1; 73; 1; 80].
Proof. vm_compute. reflexivity. Qed.
