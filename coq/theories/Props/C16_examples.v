(** Non-vacuity and concrete runs for C16. *)
From Coq Require Import NArith ZArith List Permutation Sorted Lia.
From FF Require Import Lib.Word Gen.Consts_kfmt Kfmt.Fmt Kfmt.Ring Kfmt.RingProofs Kfmt.Prefix Kfmt.PrefixProofs Hal.Model Hal.Spec Hal.HalProofs.
Import ListNotations.
Local Open Scope N_scope.

(** ring: a consistent non-empty, wrapped ring exists ([capacity] bytes 'A' then "BC": the oldest two are dropped) *)
Example C16_ring_nonvacuous :
  exists rb, ring_writes empty_ring [repeat 65 capacity; [66; 67]] = Ok rb /\ valid rb /\
             contents rb = repeat 65 (capacity - 2) ++ [66; 67] /\ rIdx rb = 2 /\ wIdx rb = 1.
Proof. eexists. split; [vm_compute; reflexivity|]. split; [split; vm_compute; reflexivity|]. split; vm_compute; auto. Qed.

Example C16_ring_drain_example :
  match ring_writes empty_ring [repeat 65 capacity; [66; 67]] with
  | Ok rb => match drain drain_fuel rb with
             | Ok (cs, rb') => concat cs = repeat 65 (capacity - 2) ++ [66; 67] /\ length cs = 2%nat /\ rIdx rb' = wIdx rb'
             | _ => False end
  | _ => False end.
Proof. vm_compute. auto. Qed.

(** drivers: a terminal (early), a driver whose init fails with "boom" after logging "a\nb", a
    console, a second terminal, a driver whose probe finds nothing *)
Definition d_tty := mkDriver 0 (-128) (Some (mkProbed KTTY [118; 116] 0 0 1 None [] false false)).
Definition d_bad := mkDriver 1 0 (Some (mkProbed KOther [120] 1 2 3 (Some [98; 111; 111; 109]) [[97; 10; 98]] false false)).
Definition d_con := mkDriver 2 0 (Some (mkProbed KConsole [99] 0 1 0 None [] true true)).
Definition d_tty2 := mkDriver 3 127 (Some (mkProbed KTTY [116; 50] 0 0 2 None [] false false)).
Definition d_none := mkDriver 4 127 None.
Definition ex_registered := [d_none; d_con; d_tty2; d_tty; d_bad].
Definition ex_sorted := [d_tty; d_bad; d_con; d_tty2; d_none].

Example C16_sorted_nonvacuous :
  Permutation ex_registered ex_sorted /\ Sorted (fun a b => (d_order a <= d_order b)%Z) ex_sorted /\
  NoDup (map d_id ex_sorted) /\ init_ok d_bad = false /\ init_ok d_none = false.
Proof.
  split.
  { unfold ex_registered, ex_sorted.
    apply Permutation_trans with (l' := d_con :: d_tty2 :: d_tty :: d_bad :: [d_none]).
    - apply (Permutation_cons_append [d_con; d_tty2; d_tty; d_bad] d_none).
    - apply Permutation_trans with (l' := d_tty :: d_con :: d_tty2 :: d_bad :: [d_none]).
      + apply Permutation_sym. apply (Permutation_middle [d_con; d_tty2] (d_bad :: [d_none]) d_tty).
      + constructor. apply Permutation_trans with (l' := d_bad :: d_con :: d_tty2 :: [d_none]).
        * apply Permutation_sym. apply (Permutation_middle [d_con; d_tty2] [d_none] d_bad).
        * apply Permutation_refl. }
  split.
  { repeat constructor; vm_compute; discriminate. }
  split; [|split; reflexivity].
  repeat constructor; simpl; intuition discriminate.
Qed.

(** "hi\n" is logged early; the terminal comes up first, the console (with font and logo support) third: the terminal receives the
    early log, then later output; the failed driver is reported with its message *)
Definition ex_tty_bytes : list N :=
  [104; 105; 10]
  ++ [91; 104; 97; 108; 93; 32; 118; 116; 40; 48; 46; 48; 46; 49; 41; 58; 32; 105; 110; 105; 116; 105; 97; 108; 105; 122; 101; 100; 10]
  ++ [91; 104; 97; 108; 93; 32; 120; 40; 49; 46; 50; 46; 51; 41; 58; 32; 97; 10]
  ++ [91; 104; 97; 108; 93; 32; 120; 40; 49; 46; 50; 46; 51; 41; 58; 32; 98]
  ++ [105; 110; 105; 116; 32; 102; 97; 105; 108; 101; 100; 58; 32; 98; 111; 111; 109; 10]
  ++ [91; 104; 97; 108; 93; 32; 99; 40; 48; 46; 49; 46; 48; 41; 58; 32; 105; 110; 105; 116; 105; 97; 108; 105; 122; 101; 100; 10]
  ++ [91; 104; 97; 108; 93; 32; 116; 50; 40; 48; 46; 48; 46; 50; 41; 58; 32; 105; 110; 105; 116; 105; 97; 108; 105; 122; 101; 100; 10]
  ++ [33].

Example C16_bringup_example :
  match scenario [LStr [104; 105; 10]] ex_sorted [LBytes [33]] init_hal with
  | Ok st =>
      probes (h_trace st) = [0; 1; 2; 3; 4] /\ inits (h_trace st) = [0; 1; 2; 3] /\
      h_tty st = Some 0 /\ h_console st = Some 2 /\ h_active st = [0; 2; 3] /\
      attaches (h_trace st) = [(0, 2)] /\ states (h_trace st) = [(0, 1)] /\ h_sink st = STTY 0 /\
      tty_bytes 0 (h_trace st) = ex_tty_bytes /\ tty_bytes 3 (h_trace st) = [] /\
      logos (h_trace st) = [2] /\ fonts (h_trace st) = [2]
  | _ => False
  end.
Proof. vm_compute. repeat split; reflexivity. Qed.

(** without a console nothing is linked and the early buffer keeps the log *)
Example C16_no_pair_example :
  match scenario [LStr [104; 105; 10]] [d_tty; d_none] [] init_hal with
  | Ok st => h_sink st = SRing /\ h_tty st = Some 0 /\ h_console st = None /\ attaches (h_trace st) = [] /\
             contents (h_ring st) =
               [104; 105; 10] ++ [91; 104; 97; 108; 93; 32; 118; 116; 40; 48; 46; 48; 46; 49; 41; 58; 32; 105; 110; 105; 116; 105; 97; 108; 105; 122; 101; 100; 10]
  | _ => False
  end.
Proof. vm_compute. repeat split; reflexivity. Qed.

(** the prefix writer on "a\nb" then "c\n\n" then "" then "d", starting at the beginning of a line: every line gets the prefix ">" *)
Example C16_prefix_example :
  concat (fst (prefix_writes [62] 0 [[97; 10; 98]; [99; 10; 10]; []; [100]])) = [62; 97; 10; 62; 98; 99; 10; 62; 10; 62; 100]
  /\ inject [62] true [97; 10; 98; 99; 10; 10; 100] = [62; 97; 10; 62; 98; 99; 10; 62; 10; 62; 100].
Proof. split; vm_compute; reflexivity. Qed.

Example C16_failed_nonvacuous :
  d_probe d_bad = Some (mkProbed KOther [120] 1 2 3 (Some [98; 111; 111; 109]) [[97; 10; 98]] false false) /\
  length (a_numbuf init_abs) = N.to_nat kfmt_numFmtBufLen.
Proof. split; reflexivity. Qed.
