(** C11 — [parse_encode] proved for a fragment of the grammar (the full statement is [C11_full_parse_encode]
    in Props/C11.v, refuted there for the whole grammar by eight witnesses).
    Statements only; every proof is [exact <lemma>] (Aml/ParserFrag*.v).

    Fragment F0 ([in_fragment_F0], a boolean): ONE table; every item is [Name(SEG, c)] where the name is a single
    NameSeg (no root / parent prefix, not written as a MultiNamePath) and [c] is an integer constant
    (Zero, One, Ones, BytePrefix, WordPrefix, DWordPrefix, QWordPrefix); any number of items, names need not be
    distinct; the encoded table is shorter than 2^28 bytes.  Productions inside the fragment: DefName,
    NameString = NameSeg, DataRefObject = ConstObj | ByteConst | WordConst | DWordConst | QWordConst.

    For every such well-formed program the model of ParseAML (Aml/Parser.v: all six passes, with the parser's own
    fuel), run on the encoded table over the default scopes, returns success, and the sorted namespace view of the
    resulting tree (Aml/View.v) IS the namespace [ns] the specification assigns to the program (Aml/Grammar.v). *)
From Coq Require Import NArith List.
From FF Require Import Aml.Grammar Aml.WfProgram Aml.ParserFragF0Final.
Import ListNotations.
Local Open Scope N_scope.

Theorem C11_parse_encode_partial : forall tables,
  wf_program tables = true -> in_fragment_F0 tables = true -> parse_encode_statement tables.
Proof. exact parse_encode_F0. Qed.
Print Assumptions C11_parse_encode_partial.
