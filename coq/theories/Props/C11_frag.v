(** C11 — [parse_encode] proved for a fragment of the grammar (the full statement is [C11_full_parse_encode]
    in Props/C11.v, refuted there for the whole grammar by eight witnesses).
    Statements only; every proof is [exact <lemma>] (Aml/ParserFrag*.v).

    Fragment F0 ([in_fragment_F0], a boolean): ONE table; every item is [Name(SEG, c)] where the name is a single
    NameSeg (no root / parent prefix, not written as a MultiNamePath) and [c] is an integer constant
    (Zero, One, Ones, BytePrefix, WordPrefix, DWordPrefix, QWordPrefix); any number of items, names need not be
    distinct; the encoded table is shorter than 2^28 bytes.  Productions inside the fragment: DefName,
    NameString = NameSeg, DataRefObject = ConstObj | ByteConst | WordConst | DWordConst | QWordConst.

    For every such well-formed program the model of ParseAML (Aml/Parser.v: all six passes, with the parser's own
    fuel), run on the encoded table over the default scopes, returns success, and the sorted namespace view of the
    resulting tree (Aml/View.v) IS the namespace [ns] the specification assigns to the program (Aml/Grammar.v). *)
From Coq Require Import NArith List.
From FF Require Import Aml.Grammar Aml.WfProgram Aml.ParserFragF0Final Aml.ParserFragF1Final Aml.ParserFragF3Final Aml.ParserFragF4Final Aml.ParserFragF5Final Aml.ParserFragF6Final Aml.ParserFragF7Final Aml.ParserFragT2Final Aml.ParserFragT2F7Final Aml.ParserFragTNTop Aml.ParserFragTNFinal Aml.ParserFragF8Final Aml.ParserFragTN8Final Aml.ParserFragF9Final.
Import ListNotations.
Local Open Scope N_scope.

Theorem C11_parse_encode_partial : forall tables,
  wf_program tables = true -> in_fragment_F0 tables = true -> parse_encode_statement tables.
Proof. exact parse_encode_F0. Qed.
Print Assumptions C11_parse_encode_partial.

(** Fragment F1 ([in_fragment_F1], a boolean): ONE table; every item is either [Name(SEG, c)] as in F0 or
    [Device(SEG){ items }] - a Device block with a single-NameSeg name (no root / parent prefix, not a MultiNamePath)
    whose body consists of items of the fragment again, nested to ANY depth, with any PkgLength width (1-4 bytes)
    that is admissible for the block; any number of items; the encoded table is shorter than 2^28 bytes.
    Productions inside the fragment: DefName, DefDevice (PkgLength, NameString = NameSeg, TermList of DefName / DefDevice),
    DataRefObject = ConstObj | ByteConst | WordConst | DWordConst | QWordConst.  F0 is the sub-fragment without Device.

    The proof covers the nested scope / pkgEnd stacks of the first pass, the recursion of connectNamedObjArgs into the
    ScopeBlock of every Device, and the fact that the view lists a Device after its body whereas [ns] lists it first
    (the two listings are permutations, and the insertion sort of Aml/Grammar.v is invariant under permutations). *)
Theorem C11_parse_encode_partial_F1 : forall tables,
  wf_program tables = true -> in_fragment_F1 tables = true -> parse_encode_statement tables.
Proof. exact parse_encode_F1. Qed.
Print Assumptions C11_parse_encode_partial_F1.

(** Fragment F2 ([in_fragment_F2], a boolean) = F1 + Method declarations: ONE table; every item is [Name(SEG, c)],
    [Device(SEG){ items }] or [Method(SEG, flags){ items }] with single-NameSeg names; the bodies of Devices and Methods
    consist of items of the fragment again (so a Method body holds declarations only - possibly none; no executable
    statements), nested to any depth; any admissible PkgLength width; the encoded table is shorter than 2^28 bytes.
    Productions inside the fragment: DefName, DefDevice, DefMethod (PkgLength, NameString = NameSeg, MethodFlags,
    TermList of DefName / DefDevice / DefMethod), DataRefObject = integer constant.  F1 is the Method-free part of F2
    ([in_fragment_F1] = the same recogniser + "no Method anywhere"). *)
Theorem C11_parse_encode_partial_F2 : forall tables,
  wf_program tables = true -> in_fragment_F2 tables = true -> parse_encode_statement tables.
Proof. exact parse_encode_F2. Qed.
Print Assumptions C11_parse_encode_partial_F2.

(** Fragment F3 ([in_fragment_F3], a boolean) = F2 + Scope directives over the predefined scopes: ONE table; every
    top-level item is an item of F2 or [Scope(\SEG){ items of F2 }] / [Scope(SEG){ items of F2 }] where SEG is one of
    the predefined scopes _GPE, _PR_, _SB_, _SI_, _TZ_ (single NameSeg, with or without the root prefix, not written
    as a MultiNamePath); any number of directives, the same scope may be opened several times; any admissible
    PkgLength width; the encoded table is shorter than 2^28 bytes.  Productions added to F2: DefScope (PkgLength,
    NameString = RootChar NameSeg | NameSeg, TermList of DefName / DefDevice / DefMethod).
    Not in the fragment: Scope directives below the top level, Scope over a declared object, Scope(\).

    Here mergeScopeDirectives does real work: for every directive the target is found (Find from the root), the
    contents of the directive's ScopeBlock are moved below the predefined scope, and the directive, its name path
    and its ScopeBlock are freed; relocateNamedObjects and passes 4-6 then run over a pool with freed slots. *)
Theorem C11_parse_encode_partial_F3 : forall tables,
  wf_program tables = true -> in_fragment_F3 tables = true -> parse_encode_statement tables.
Proof. exact parse_encode_F3. Qed.
Print Assumptions C11_parse_encode_partial_F3.

(** Fragment F4 ([in_fragment_F4], a boolean) = F3 + the other block-like named objects: ONE table; the items are
    [Name(SEG, c)], [Device(SEG){..}], [ThermalZone(SEG){..}], [Processor(SEG, id, pblk address, pblk length){..}],
    [PowerResource(SEG, system level, resource order){..}] and [Method(SEG, flags){ declarations }], with single-NameSeg
    names and bodies made of items of the fragment again, nested to any depth; at the top level also
    [Scope(\SEG){ items }] / [Scope(SEG){ items }] over the predefined scopes as in F3; any admissible PkgLength width;
    the encoded table is shorter than 2^28 bytes.  Productions added to F3: DefThermalZone, DefProcessor (ProcID
    ByteData, PblkAddr DWordData, PblkLen ByteData), DefPowerRes (SystemLevel ByteData, ResourceOrder WordData).
    The proofs treat all block-like objects uniformly: a list of fixed-width data arguments between the name and the
    TermList (first pass: one loop lemma over the argument list; connectNamedObjArgs / the view: a row of childless
    objects of any length). *)
Theorem C11_parse_encode_partial_F4 : forall tables,
  wf_program tables = true -> in_fragment_F4 tables = true -> parse_encode_statement tables.
Proof. exact parse_encode_F4. Qed.
Print Assumptions C11_parse_encode_partial_F4.

(** Fragment F5 ([in_fragment_F5], a boolean) = F4 + the leaf named objects: [Mutex(SEG, sync flags)], [Event(SEG)] and
    [OperationRegion(SEG, space, offset, length)] whose offset and length are integer constants (Zero / One / Ones /
    Byte- / Word- / DWord- / QWordPrefix), with single-NameSeg names, anywhere an item of F4 may stand (top level, bodies
    of Device / ThermalZone / Processor / PowerResource / Method, inside Scope directives over the predefined scopes).
    Productions added to F4: DefMutex (SyncFlags ByteData), DefEvent, DefOpRegion (RegionSpace ByteData, RegionOffset and
    RegionLen TermArg = integer constant).  For an OperationRegion the first pass leaves the two TermArgs as the next
    objects of the enclosing scope and connectNamedObjArgs attaches both (attachSiblingsAsArgs over two siblings, proved
    for a run of siblings of any length).  Not in the fragment: region offsets / lengths that are expressions or names
    (known findings c11:named-object-operator-arg, c11:path-inside-named-object-arg), Field declarations. *)
Theorem C11_parse_encode_partial_F5 : forall tables,
  wf_program tables = true -> in_fragment_F5 tables = true -> parse_encode_statement tables.
Proof. exact parse_encode_F5. Qed.
Print Assumptions C11_parse_encode_partial_F5.

(** Two-table fragment T2 ([in_fragment_T2], a boolean): programs of TWO tables.  The first table is a list of items of
    F5 (Name / Device / ThermalZone / Processor / PowerResource / Method with declaration-only body / Mutex / Event /
    OperationRegion with constant arguments, nested to any depth) WITHOUT Scope directives; the second table is a table
    of F5, i.e. items of F5 and, at its top level, [Scope(\SEG){ items }] / [Scope(SEG){ items }] over the predefined
    scopes (the usual shape of an SSDT: Scope(\_SB_){ Device ... }).  Each encoded table is shorter than 2^28 bytes.
    [parse_program] loads the first table with handle 1 and the second one with handle 2 into the tree the first one
    left (the fuel of the second parse counts the pool slots of the first, see Parser.parse_fuel): the first pass
    appends to the pool and to the root, connectNamedObjArgs, mergeScopeDirectives, relocateNamedObjects and passes 4-6
    walk the objects of the first table as well and leave them alone because they carry another table handle, the
    Scope directives of the second table move their contents below the predefined scopes, and [ns] of the two tables
    (specification: the second table is resolved against the names of both) is the sorted view of the final tree. *)
Theorem C11_parse_encode_partial_T2 : forall tables,
  wf_program tables = true -> in_fragment_T2 tables = true -> parse_encode_statement tables.
Proof. exact parse_encode_T2. Qed.
Print Assumptions C11_parse_encode_partial_T2.

(** Fragment F6 ([in_fragment_F6], a boolean) = F5 + Name declarations whose value is a string: [Name(SEG, "chars")] with
    characters 0x01 .. 0x7f (possibly none), single-NameSeg name, anywhere an item of F5 may stand.  Production added
    to F5: DataRefObject = String (StringPrefix AsciiCharList NullChar).  The parser stores table index and byte range of
    the string, not the bytes; the proof follows the range through connectNamedObjArgs (the string object becomes the
    argument of the Name) and reads it back from the table image in the namespace view (all view lemmas now carry the
    position of every item in its table).  Not in the fragment: Buffer / Package values (Buffer is parsed by
    parseDeferredBlocks), strings as arguments of other objects. *)
Theorem C11_parse_encode_partial_F6 : forall tables,
  wf_program tables = true -> in_fragment_F6 tables = true -> parse_encode_statement tables.
Proof. exact parse_encode_F6. Qed.
Print Assumptions C11_parse_encode_partial_F6.

(** Fragment F7 ([in_fragment_F7], a boolean) = F6 + Name declarations whose value is a package of constants:
    [Name(SEG, Package(n){e1, ..., em})] where every element is an integer constant (Zero / One / Ones / Byte- / Word- /
    DWord- / QWordPrefix) or a string, anywhere an item of F6 may stand (top level, Scope body, Device-like body,
    Method body); fewer elements than [n] are allowed, and the package may be empty.  Productions added to F6:
    DataRefObject = DefPackage (PackageOp PkgLength NumElements PackageElementList), PackageElement restricted to
    integer constants and strings.  Not covered: nested packages, Buffers, names as package elements, VarPackage. *)
Theorem C11_parse_encode_partial_F7 : forall tables,
  wf_program tables = true -> in_fragment_F7 tables = true -> parse_encode_statement tables.
Proof. exact parse_encode_F7. Qed.
Print Assumptions C11_parse_encode_partial_F7.

(** Two-table fragment T2F7 ([in_fragment_T2F7], a boolean) = T2 with the items of F7 in place of those of F5: two tables,
    the first a list of items of F7 without Scope directives, the second a table of F7 (items of F7 and top-level Scope
    directives over the predefined scopes); each encoded table shorter than 2^28 bytes.  In addition to T2: Name
    declarations whose value is a string or a package of integer constants and strings, in both tables (the strings of
    each table are read back from that table's image). *)
Theorem C11_parse_encode_partial_T2F7 : forall tables,
  wf_program tables = true -> in_fragment_T2F7 tables = true -> parse_encode_statement tables.
Proof. exact parse_encode_T2F7. Qed.
Print Assumptions C11_parse_encode_partial_T2F7.

(** Fragment TN ([in_fragment_TN], a boolean): programs of ANY NUMBER of tables (at least one).  Every table is a table
    of F7 (items of F7 and, at the top level of the table, Scope directives over the predefined scopes); all tables
    but the LAST are without Scope directives ([noscope]); 6 + the sum of the encoded table lengths is below 2^28.
    Subsumes F7 (one table), T2 and T2F7 (two tables).  [parse_program] loads table i with handle i into the tree the
    earlier tables left: by induction on the tables, with the invariant [SInv] (ParserFragTNTop.v: predefined scopes
    are leaves, the objects of the earlier tables form a forest below the root that fills the pool slots 6 .. b-1
    contiguously, empty free list, every object carries a handle of an earlier table), each further table appends
    its objects, all later passes leave the earlier objects alone, and the view of the final tree lists every table's
    objects from that table's image.  Why only the last table may have Scope directives: mergeScopeDirectives frees the
    three objects of a directive, the next table would then allocate from the free list and its objects would no longer
    be contiguous in the pool, which the layout functions of these proofs assume. *)
Theorem C11_parse_encode_partial_TN : forall tables,
  wf_program tables = true -> in_fragment_TN tables = true -> parse_encode_statement tables.
Proof. exact parse_encode_TN. Qed.
Print Assumptions C11_parse_encode_partial_TN.

(** Fragment F8 ([in_fragment_F8], a boolean) = F7 + nested packages: in [Name(SEG, Package(n){e1, ..., em})] every
    element is an integer constant, a string, or again a [Package(n'){...}] of such elements, to any depth (the shape
    of tables such as _PSS).  Production added to F7: PackageElement = DefPackage.  The parser reads a nested package
    with the same object-list loop (the inner package's ScopeBlock on the scope stack, its end on the pkgEnd stack);
    the proof treats package elements by an induction of their own (ParserFragF1First.v [ESpec]); connectNamedObjArgs
    attaches the whole subtree to the Name, and the view renders it recursively (ParserFragF1View.v [render_pels]).
    Not covered: names / Buffers as elements, VarPackage. *)
Theorem C11_parse_encode_partial_F8 : forall tables,
  wf_program tables = true -> in_fragment_F8 tables = true -> parse_encode_statement tables.
Proof. exact parse_encode_F8. Qed.
Print Assumptions C11_parse_encode_partial_F8.

(** Fragment TN8 ([in_fragment_TN8], a boolean) = TN with the items of F8: any number of tables (at least one), every
    table a table of F8, all tables but the last without Scope directives, 6 + the sum of the encoded table lengths
    below 2^28.  Subsumes F8 and TN: the largest fragment proved so far. *)
Theorem C11_parse_encode_partial_TN8 : forall tables,
  wf_program tables = true -> in_fragment_TN8 tables = true -> parse_encode_statement tables.
Proof. exact parse_encode_TN8. Qed.
Print Assumptions C11_parse_encode_partial_TN8.

(** Fragment F9 ([in_fragment_F9], a boolean) = the items of F8 WITHOUT Scope directives + STATEMENTS with constant operands:
    ONE table; the items are those of F8 (Name with an integer / string / (nested) package value, Device / ThermalZone /
    Processor / PowerResource / Method blocks, Mutex, Event, OperationRegion with constant offset and length; single-NameSeg
    names; nested to any depth; any admissible PkgLength width) and, anywhere an item may stand - in the body of a Method, of a
    Device / ThermalZone / Processor / PowerResource, or at the top level of the table, next to declarations and in any
    order - statements [op(c1, ..., cn)] where [op] is one of Return, Sleep, Stall, LNot (one operand), LAnd, LOr, LEqual,
    LGreater, LLess (two operands), Break, Continue, BreakPoint (none) and every operand is an integer constant (Zero / One /
    Ones / Byte- / Word- / DWord- / QWordPrefix) or a string - e.g. Method(_STA){Return(0x0F)}.  The encoded table is shorter
    than 2^28 bytes.  Productions added: TermList = declarations and Type1 / Type2 opcodes whose operands are all TermArgs
    (DefReturn, DefSleep, DefStall, DefLNot, DefLAnd, DefLOr, DefLEqual, DefLGreater, DefLLess, DefBreak, DefContinue,
    DefBreakPoint), TermArg = integer constant | String.  The statements of a Method body are part of the Method's
    namespace entry (in order); a statement of any other scope is an anonymous entry of that scope.
    NOT in the fragment: top-level Scope directives and several tables (F9 does not subsume F3 .. F8 / TN8 - the statements
    are proved on the direct chain of F2, the Scope / multi-table layers are not redone for them), operands that are
    expressions / names / Local / Arg objects, Store and the other operators with a Target, If / Else / While (known finding
    c11:if-without-body lives there).

    New parser behaviour inside the proved part: the first pass leaves a statement and its operands as consecutive objects
    of the enclosing ScopeBlock (parseArg stops at the first TermArg), passes 2-4 leave them alone, and resolveMethodCalls
    - through connectNonNamedObjArg / attachSiblingsAsArgs with useParent - detaches the [argCount] following siblings
    and appends them to the operator (an exact layer for this pass: Aml/ParserFragF9Calls.v, [lay2] -> [lay5]);
    connectNonNamedObjArgs then finds every operator complete.  The view renders the statements of a Method body into
    the Method's entry (renderStmt / renderExpr / exprKids), which [ns] does with r_seq; elsewhere both list them as
    anonymous entries (the view after the declarations of the scope, [ns] in program order: a permutation).  The item type of
    F1 .. F8 is shared, so F9 has its own copy with one more constructor (Aml/ParserFragF9*.v). *)
Theorem C11_parse_encode_partial_F9 : forall tables,
  wf_program tables = true -> in_fragment_F9 tables = true -> parse_encode_statement tables.
Proof. exact parse_encode_F9. Qed.
Print Assumptions C11_parse_encode_partial_F9.
