(** Non-vacuity for C11_frag: programs of the fragment, by computation. *)
From Coq Require Import NArith List.
From FF Require Import Aml.Grammar Aml.WfProgram Aml.ParserFragF0Final Aml.ParserFragF1Final Aml.ParserFragF3Final Aml.ParserFragF4Final Aml.ParserFragF5Final Aml.ParserFragF6Final Aml.ParserFragF7Final Aml.ParserFragT2Final Aml.ParserFragT2F7Final Aml.ParserFragTNTop Aml.ParserFragTNFinal Aml.ParserFragF8Final Aml.ParserFragTN8Final Aml.ParserFragF9Final Props.C11_frag.
Import ListNotations.
Local Open Scope N_scope.

Definition f0_nm (a b c d : N) : namestr := mkName false 0 false [seg4 a b c d].

(** every constant form, a name with digits and underscores, and a name declared twice *)
Definition f0_program : list (list ast) :=
  [[AName (f0_nm 0x41 0x42 0x43 0x44) (AConst OP_BYTE 7);
    AName (f0_nm 0x5f 0x41 0x31 0x5f) (AConst 0x00 0);
    AName (f0_nm 0x42 0x5f 0x5f 0x5f) (AConst 0x01 0);
    AName (f0_nm 0x43 0x30 0x30 0x39) (AConst 0xff 0);
    AName (f0_nm 0x57 0x4f 0x52 0x44) (AConst OP_WORD 0xbeef);
    AName (f0_nm 0x44 0x57 0x52 0x44) (AConst OP_DWORD 0xdeadbeef);
    AName (f0_nm 0x51 0x57 0x52 0x44) (AConst OP_QWORD 0x1122334455667788);
    AName (f0_nm 0x41 0x42 0x43 0x44) (AConst OP_BYTE 9)]].

Example C11_parse_encode_partial_nonvacuous :
  wf_program f0_program = true /\ in_fragment_F0 f0_program = true /\ wf_program [[]] = true /\ in_fragment_F0 [[]] = true.
Proof. vm_compute. repeat split. Qed.

(** the conclusion on that program, once through the theorem and once by running the model *)
Example C11_parse_encode_partial_instance : parse_encode_statement f0_program.
Proof. apply C11_parse_encode_partial; vm_compute; reflexivity. Qed.

Example C11_parse_encode_partial_run : parse_program f0_program = (0, ns f0_program) /\ length (ns f0_program) = 8%nat.
Proof. vm_compute. split; reflexivity. Qed.

(** outside the fragment: two tables, a Device, a two-segment name *)
Example C11_fragment_excludes :
  in_fragment_F0 [[]; []] = false /\
  in_fragment_F0 [[ADevice 1 (f0_nm 0x44 0x45 0x56 0x30) []]] = false /\
  in_fragment_F0 [[AName (mkName false 0 false [seg4 0x41 0x42 0x43 0x44; seg4 0x41 0x42 0x43 0x44]) (AConst 0 0)]] = false /\
  in_fragment_F0 [[AName (mkName true 0 false [seg4 0x41 0x42 0x43 0x44]) (AConst 0 0)]] = false.
Proof. vm_compute. repeat split. Qed.

(** ---- F1: nested Devices ---- *)
Definition f1_program : list (list ast) :=
  [[AName (f0_nm 0x41 0x42 0x43 0x44) (AConst OP_BYTE 7);
    ADevice 1 (f0_nm 0x44 0x45 0x56 0x30)
      [AName (f0_nm 0x4e 0x41 0x4d 0x30) (AConst OP_WORD 0x1234);
       ADevice 2 (f0_nm 0x44 0x45 0x56 0x31) [ADevice 1 (f0_nm 0x44 0x45 0x56 0x32) []; AName (f0_nm 0x5f 0x41 0x44 0x52) (AConst 0x01 0)];
       AName (f0_nm 0x4e 0x41 0x4d 0x31) (AConst 0xff 0)];
    ADevice 3 (f0_nm 0x45 0x4d 0x50 0x54) [];
    AName (f0_nm 0x5a 0x5a 0x5a 0x5a) (AConst OP_QWORD 0x8877665544332211)]].

Example C11_parse_encode_partial_F1_nonvacuous :
  wf_program f1_program = true /\ in_fragment_F1 f1_program = true /\ in_fragment_F0 f1_program = false /\
  in_fragment_F1 f0_program = true.
Proof. vm_compute. repeat split. Qed.

Example C11_parse_encode_partial_F1_instance : parse_encode_statement f1_program.
Proof. apply C11_parse_encode_partial_F1; vm_compute; reflexivity. Qed.

Example C11_parse_encode_partial_F1_run : parse_program f1_program = (0, ns f1_program) /\ length (ns f1_program) = 9%nat.
Proof. vm_compute. split; reflexivity. Qed.

(** outside F1: a Scope block, a Device with a two-segment name, a Method *)
Example C11_fragment_F1_excludes :
  in_fragment_F1 [[AScope 1 (mkName true 0 false [seg4 0x5f 0x53 0x42 0x5f]) []]] = false /\
  in_fragment_F1 [[ADevice 1 (mkName false 0 false [seg4 0x41 0x42 0x43 0x44; seg4 0x41 0x42 0x43 0x44]) []]] = false /\
  in_fragment_F1 [[AMethod 1 (f0_nm 0x4d 0x54 0x48 0x30) 0 []]] = false.
Proof. vm_compute. repeat split. Qed.

(** ---- F2: Methods whose bodies hold declarations ---- *)
Definition f2_program : list (list ast) :=
  [[AMethod 1 (f0_nm 0x4d 0x54 0x48 0x30) 2 [];
    ADevice 2 (f0_nm 0x44 0x45 0x56 0x30)
      [AMethod 1 (f0_nm 0x5f 0x53 0x54 0x41) 0 [AName (f0_nm 0x4c 0x4f 0x43 0x30) (AConst OP_BYTE 1)];
       AName (f0_nm 0x4e 0x41 0x4d 0x30) (AConst OP_DWORD 0xcafe);
       AMethod 2 (f0_nm 0x4d 0x54 0x48 0x31) 0x83 [ADevice 1 (f0_nm 0x44 0x45 0x56 0x31) []; AMethod 1 (f0_nm 0x4d 0x54 0x48 0x32) 7 []]];
    AName (f0_nm 0x5a 0x5a 0x5a 0x5a) (AConst 0x00 0)]].

Example C11_parse_encode_partial_F2_nonvacuous :
  wf_program f2_program = true /\ in_fragment_F2 f2_program = true /\ in_fragment_F1 f2_program = false /\
  in_fragment_F2 f1_program = true /\ in_fragment_F2 f0_program = true.
Proof. vm_compute. repeat split. Qed.

Example C11_parse_encode_partial_F2_instance : parse_encode_statement f2_program.
Proof. apply C11_parse_encode_partial_F2; vm_compute; reflexivity. Qed.

Example C11_parse_encode_partial_F2_run : parse_program f2_program = (0, ns f2_program) /\ length (ns f2_program) = 9%nat.
Proof. vm_compute. split; reflexivity. Qed.

(** outside F2: a Method with an executable statement, a Scope block *)
Example C11_fragment_F2_excludes :
  in_fragment_F2 [[AMethod 1 (f0_nm 0x4d 0x54 0x48 0x30) 0 [AOp 0xa4 [AConst 0x01 0]]]] = false /\
  in_fragment_F2 [[AScope 1 (mkName true 0 false [seg4 0x5f 0x53 0x42 0x5f]) []]] = false.
Proof. vm_compute. repeat split. Qed.

(** ---- F3: Scope directives over the predefined scopes (\_SB_ opened twice, _TZ_ and _GPE without root prefix) ---- *)
Definition f3_program : list (list ast) :=
  [[AName (f0_nm 0x41 0x42 0x43 0x44) (AConst OP_BYTE 7);
    AScope 1 (mkName true 0 false [seg4 0x5f 0x53 0x42 0x5f])
      [ADevice 1 (f0_nm 0x44 0x45 0x56 0x30) [AName (f0_nm 0x4e 0x41 0x4d 0x30) (AConst OP_WORD 0x1234)];
       AMethod 1 (f0_nm 0x4d 0x54 0x48 0x30) 2 []];
    ADevice 1 (f0_nm 0x44 0x45 0x56 0x31) [];
    AScope 2 (mkName false 0 false [seg4 0x5f 0x54 0x5a 0x5f]) [AName (f0_nm 0x54 0x4d 0x50 0x30) (AConst 0x01 0)];
    AScope 1 (mkName true 0 false [seg4 0x5f 0x53 0x42 0x5f]) [AName (f0_nm 0x5a 0x5a 0x5a 0x5a) (AConst OP_DWORD 0xcafe)];
    AScope 1 (mkName false 0 false [seg4 0x5f 0x47 0x50 0x45]) []]].

Example C11_parse_encode_partial_F3_nonvacuous :
  wf_program f3_program = true /\ in_fragment_F3 f3_program = true /\ in_fragment_F2 f3_program = false /\
  in_fragment_F3 f2_program = true /\ in_fragment_F3 f1_program = true /\ in_fragment_F3 f0_program = true.
Proof. vm_compute. repeat split. Qed.

Example C11_parse_encode_partial_F3_instance : parse_encode_statement f3_program.
Proof. apply C11_parse_encode_partial_F3; vm_compute; reflexivity. Qed.

Example C11_parse_encode_partial_F3_run : parse_program f3_program = (0, ns f3_program) /\ length (ns f3_program) = 7%nat.
Proof. vm_compute. split; reflexivity. Qed.

(** outside F3: two tables, Scope(\), a Scope inside a Device, a Scope over a declared Device, a nested Scope *)
Example C11_fragment_F3_excludes :
  in_fragment_F3 [[]; []] = false /\
  in_fragment_F3 [[AScope 1 (mkName true 0 false []) []]] = false /\
  in_fragment_F3 [[ADevice 1 (f0_nm 0x44 0x45 0x56 0x30) [AScope 1 (mkName true 0 false [seg4 0x5f 0x53 0x42 0x5f]) []]]] = false /\
  in_fragment_F3 [[ADevice 1 (f0_nm 0x44 0x45 0x56 0x30) []; AScope 1 (f0_nm 0x44 0x45 0x56 0x30) []]] = false /\
  in_fragment_F3 [[AScope 1 (mkName true 0 false [seg4 0x5f 0x53 0x42 0x5f]) [AScope 1 (mkName true 0 false [seg4 0x5f 0x54 0x5a 0x5f]) []]]] = false.
Proof. vm_compute. repeat split. Qed.

(** ---- F4: ThermalZone, Processor, PowerResource (top level, inside Scope(\_PR_), nested) ---- *)
Definition f4_program : list (list ast) :=
  [[AThermal 1 (f0_nm 0x54 0x5a 0x30 0x30) [AName (f0_nm 0x5f 0x54 0x4d 0x50) (AConst OP_WORD 0x0bb8)];
    AScope 1 (mkName true 0 false [seg4 0x5f 0x50 0x52 0x5f])
      [AProcessor 1 (f0_nm 0x43 0x50 0x55 0x30) 1 0x00000410 6 [AName (f0_nm 0x5f 0x55 0x49 0x44) (AConst 0x01 0)];
       AProcessor 2 (f0_nm 0x43 0x50 0x55 0x31) 0xff 0xdeadbeef 0 []];
    APowerRes 1 (f0_nm 0x50 0x57 0x52 0x30) 3 0x1234
      [AMethod 1 (f0_nm 0x5f 0x53 0x54 0x41) 0 []; AMethod 1 (f0_nm 0x5f 0x4f 0x4e 0x5f) 8 [AName (f0_nm 0x4c 0x4f 0x43 0x30) (AConst OP_BYTE 1)]];
    ADevice 2 (f0_nm 0x44 0x45 0x56 0x30)
      [AThermal 1 (f0_nm 0x54 0x5a 0x30 0x31) [APowerRes 1 (f0_nm 0x50 0x57 0x52 0x31) 0 0 []];
       AProcessor 1 (f0_nm 0x43 0x50 0x55 0x32) 2 0 0 [ADevice 1 (f0_nm 0x44 0x45 0x56 0x31) []]];
    AName (f0_nm 0x5a 0x5a 0x5a 0x5a) (AConst OP_QWORD 0x8877665544332211)]].

Example C11_parse_encode_partial_F4_nonvacuous :
  wf_program f4_program = true /\ in_fragment_F4 f4_program = true /\ in_fragment_F3 f4_program = false /\
  in_fragment_F4 f3_program = true /\ in_fragment_F4 f2_program = true /\ in_fragment_F4 f1_program = true /\ in_fragment_F4 f0_program = true.
Proof. vm_compute. repeat split. Qed.

Example C11_parse_encode_partial_F4_instance : parse_encode_statement f4_program.
Proof. apply C11_parse_encode_partial_F4; vm_compute; reflexivity. Qed.

Example C11_parse_encode_partial_F4_run : parse_program f4_program = (0, ns f4_program) /\ length (ns f4_program) = 15%nat.
Proof. vm_compute. split; reflexivity. Qed.

(** outside F4: a Mutex, a Processor with a root-prefixed name, a Scope inside a ThermalZone, a statement in a PowerResource *)
Example C11_fragment_F4_excludes :
  in_fragment_F4 [[AMutex (f0_nm 0x4d 0x54 0x58 0x30) 0]] = false /\
  in_fragment_F4 [[AProcessor 1 (mkName true 0 false [seg4 0x43 0x50 0x55 0x30]) 0 0 0 []]] = false /\
  in_fragment_F4 [[AThermal 1 (f0_nm 0x54 0x5a 0x30 0x30) [AScope 1 (mkName true 0 false [seg4 0x5f 0x53 0x42 0x5f]) []]]] = false /\
  in_fragment_F4 [[APowerRes 1 (f0_nm 0x50 0x57 0x52 0x30) 0 0 [AOp 0xa4 [AConst 0x01 0]]]] = false.
Proof. vm_compute. repeat split. Qed.

(** ---- F5: Mutex, Event, OperationRegion with constant offset / length ---- *)
Definition f5_program : list (list ast) :=
  [[AMutex (f0_nm 0x4d 0x54 0x58 0x30) 3;
    AEvent (f0_nm 0x45 0x56 0x54 0x30);
    AOpRegion (f0_nm 0x52 0x45 0x47 0x30) 1 (AConst OP_WORD 0x0cf8) (AConst OP_BYTE 8);
    AScope 2 (mkName true 0 false [seg4 0x5f 0x53 0x42 0x5f])
      [ADevice 2 (f0_nm 0x44 0x45 0x56 0x30)
         [AOpRegion (f0_nm 0x47 0x4e 0x56 0x53) 0 (AConst OP_DWORD 0xfed40000) (AConst 0x01 0);
          AMutex (f0_nm 0x4c 0x43 0x4b 0x30) 0;
          AName (f0_nm 0x5f 0x41 0x44 0x52) (AConst 0x00 0);
          AMethod 1 (f0_nm 0x4d 0x54 0x48 0x30) 1 [AEvent (f0_nm 0x45 0x56 0x54 0x31)]];
       AOpRegion (f0_nm 0x52 0x45 0x47 0x31) 0x80 (AConst 0xff 0) (AConst OP_QWORD 0x100000000)];
    AProcessor 1 (f0_nm 0x43 0x50 0x55 0x30) 0 0x410 6 [AMutex (f0_nm 0x4d 0x54 0x58 0x31) 15]]].

Example C11_parse_encode_partial_F5_nonvacuous :
  wf_program f5_program = true /\ in_fragment_F5 f5_program = true /\ in_fragment_F4 f5_program = false /\
  in_fragment_F5 f4_program = true /\ in_fragment_F5 f3_program = true /\ in_fragment_F5 f2_program = true /\ in_fragment_F5 f0_program = true.
Proof. vm_compute. repeat split. Qed.

Example C11_parse_encode_partial_F5_instance : parse_encode_statement f5_program.
Proof. apply C11_parse_encode_partial_F5; vm_compute; reflexivity. Qed.

Example C11_parse_encode_partial_F5_run : parse_program f5_program = (0, ns f5_program) /\ length (ns f5_program) = 12%nat.
Proof. vm_compute. split; reflexivity. Qed.

(** outside F5: a region whose offset is an operator expression or a name, a Mutex with a parent-prefixed name, a Field *)
Example C11_fragment_F5_excludes :
  in_fragment_F5 [[AOpRegion (f0_nm 0x52 0x45 0x47 0x30) 0 (AOp 0x72 [AConst 1 0; AConst 1 0; ANull]) (AConst 1 0)]] = false /\
  in_fragment_F5 [[AOpRegion (f0_nm 0x52 0x45 0x47 0x30) 0 (ARef (f0_nm 0x41 0x42 0x43 0x44)) (AConst 1 0)]] = false /\
  in_fragment_F5 [[AMutex (mkName false 1 false [seg4 0x4d 0x54 0x58 0x30]) 0]] = false /\
  in_fragment_F5 [[AField 1 (f0_nm 0x52 0x45 0x47 0x30) 0 []]] = false.
Proof. vm_compute. repeat split. Qed.

(** ---- T2: a DSDT-like table and an SSDT-like table that opens \_SB_ and _TZ_ ---- *)
Definition t2_program : list (list ast) :=
  [[ADevice 1 (f0_nm 0x44 0x45 0x56 0x30) [AName (f0_nm 0x5f 0x41 0x44 0x52) (AConst OP_BYTE 3); AMethod 1 (f0_nm 0x5f 0x53 0x54 0x41) 0 []];
    AName (f0_nm 0x41 0x42 0x43 0x44) (AConst OP_WORD 0x1234);
    AProcessor 1 (f0_nm 0x43 0x50 0x55 0x30) 0 0x410 6 [];
    AOpRegion (f0_nm 0x52 0x45 0x47 0x30) 1 (AConst OP_WORD 0x0cf8) (AConst OP_BYTE 8)];
   [AName (f0_nm 0x53 0x53 0x44 0x54) (AConst OP_DWORD 0xdeadbeef);
    AScope 1 (mkName true 0 false [seg4 0x5f 0x53 0x42 0x5f])
      [ADevice 1 (f0_nm 0x44 0x45 0x56 0x31) [AMutex (f0_nm 0x4d 0x54 0x58 0x30) 0; AName (f0_nm 0x5f 0x55 0x49 0x44) (AConst 0x01 0)];
       AEvent (f0_nm 0x45 0x56 0x54 0x30)];
    ADevice 1 (f0_nm 0x44 0x45 0x56 0x32) [];
    AScope 1 (mkName false 0 false [seg4 0x5f 0x54 0x5a 0x5f]) [AThermal 1 (f0_nm 0x54 0x5a 0x30 0x30) []]]].

Example C11_parse_encode_partial_T2_nonvacuous :
  wf_program t2_program = true /\ in_fragment_T2 t2_program = true /\ in_fragment_F5 t2_program = false /\
  wf_program [[]; []] = true /\ in_fragment_T2 [[]; []] = true.
Proof. vm_compute. repeat split. Qed.

Example C11_parse_encode_partial_T2_instance : parse_encode_statement t2_program.
Proof. apply C11_parse_encode_partial_T2; vm_compute; reflexivity. Qed.

Example C11_parse_encode_partial_T2_run : parse_program t2_program = (0, ns t2_program) /\ length (ns t2_program) = 13%nat.
Proof. vm_compute. split; reflexivity. Qed.

(** outside T2: one table, three tables, a Scope directive in the first table, a Scope over an object of the first table *)
Example C11_fragment_T2_excludes :
  in_fragment_T2 [[AName (f0_nm 0x41 0x42 0x43 0x44) (AConst 1 0)]] = false /\
  in_fragment_T2 [[]; []; []] = false /\
  in_fragment_T2 [[AScope 1 (mkName true 0 false [seg4 0x5f 0x53 0x42 0x5f]) []]; []] = false /\
  in_fragment_T2 [[ADevice 1 (f0_nm 0x44 0x45 0x56 0x30) []]; [AScope 1 (f0_nm 0x44 0x45 0x56 0x30) []]] = false.
Proof. vm_compute. repeat split. Qed.

(** ---- F6: Name declarations with string values (also the empty string, also inside Scope / Device / Method) ---- *)
Definition f6_program : list (list ast) :=
  [[AName (f0_nm 0x5f 0x48 0x49 0x44) (AStr [0x50; 0x4e; 0x50; 0x30; 0x41; 0x30; 0x33]);
    AName (f0_nm 0x45 0x4d 0x50 0x54) (AStr []);
    AScope 1 (mkName true 0 false [seg4 0x5f 0x53 0x42 0x5f])
      [ADevice 1 (f0_nm 0x44 0x45 0x56 0x30)
         [AName (f0_nm 0x5f 0x48 0x49 0x44) (AStr [0x41; 0x43; 0x50; 0x49; 0x30; 0x30; 0x30; 0x33]);
          AName (f0_nm 0x5f 0x55 0x49 0x44) (AConst OP_BYTE 1);
          AMethod 1 (f0_nm 0x4d 0x54 0x48 0x30) 0 [AName (f0_nm 0x53 0x54 0x52 0x30) (AStr [0x7f; 0x01; 0x20])]]];
    AName (f0_nm 0x5a 0x5a 0x5a 0x5a) (AConst 0x00 0)]].

Example C11_parse_encode_partial_F6_nonvacuous :
  wf_program f6_program = true /\ in_fragment_F6 f6_program = true /\ in_fragment_F5 f6_program = false /\
  in_fragment_F6 f5_program = true /\ in_fragment_F6 f4_program = true /\ in_fragment_F6 f0_program = true.
Proof. vm_compute. repeat split. Qed.

Example C11_parse_encode_partial_F6_instance : parse_encode_statement f6_program.
Proof. apply C11_parse_encode_partial_F6; vm_compute; reflexivity. Qed.

Example C11_parse_encode_partial_F6_run : parse_program f6_program = (0, ns f6_program) /\ length (ns f6_program) = 8%nat.
Proof. vm_compute. split; reflexivity. Qed.

(** outside F6: Buffer and Package values, a root-prefixed name; a string with a byte above 0x7f is not well formed *)
Example C11_fragment_F6_excludes :
  in_fragment_F6 [[AName (f0_nm 0x42 0x55 0x46 0x30) (ABuffer 1 (AConst OP_BYTE 2) [1; 2])]] = false /\
  in_fragment_F6 [[AName (f0_nm 0x50 0x4b 0x47 0x30) (APackage 1 1 [AConst 1 0])]] = false /\
  in_fragment_F6 [[AName (mkName true 0 false [seg4 0x53 0x54 0x52 0x30]) (AStr [0x41])]] = false /\
  wf_program [[AName (f0_nm 0x53 0x54 0x52 0x30) (AStr [0x80])]] = false.
Proof. vm_compute. repeat split. Qed.

(** ---- F7: Name declarations whose value is a package of integer constants and strings (empty package, fewer elements
    than announced, every constant form, a string element, inside Scope / Device / Method) ---- *)
Definition f7_program : list (list ast) :=
  [[AName (f0_nm 0x5f 0x50 0x52 0x57) (APackage 1 2 [AConst OP_BYTE 0x18; AConst 0x00 0]);
    AName (f0_nm 0x45 0x4d 0x50 0x54) (APackage 1 0 []);
    AName (f0_nm 0x50 0x4b 0x47 0x34) (APackage 1 4 [AConst OP_WORD 0x1234]);
    AScope 2 (mkName true 0 false [seg4 0x5f 0x53 0x42 0x5f])
      [ADevice 2 (f0_nm 0x44 0x45 0x56 0x30)
         [AName (f0_nm 0x5f 0x48 0x49 0x44) (AStr [0x41; 0x43; 0x50; 0x49; 0x30; 0x30; 0x30; 0x33]);
          AName (f0_nm 0x5f 0x53 0x35 0x5f) (APackage 1 5 [AConst OP_BYTE 5; AStr [0x41; 0x42]; AConst 0xff 0; AConst OP_QWORD 0x1122334455667788; AConst OP_DWORD 7]);
          AMethod 1 (f0_nm 0x4d 0x54 0x48 0x30) 0 [AName (f0_nm 0x53 0x54 0x52 0x30) (APackage 1 1 [AStr []])]]];
    AName (f0_nm 0x5a 0x5a 0x5a 0x5a) (AConst 0x01 0)]].

Example C11_parse_encode_partial_F7_nonvacuous :
  wf_program f7_program = true /\ in_fragment_F7 f7_program = true /\ in_fragment_F6 f7_program = false /\
  in_fragment_F7 f6_program = true /\ in_fragment_F7 f5_program = true /\ in_fragment_F7 f4_program = true /\ in_fragment_F7 f0_program = true.
Proof. vm_compute. repeat split. Qed.

Example C11_parse_encode_partial_F7_instance : parse_encode_statement f7_program.
Proof. apply C11_parse_encode_partial_F7; vm_compute; reflexivity. Qed.

Example C11_parse_encode_partial_F7_run : parse_program f7_program = (0, ns f7_program) /\ length (ns f7_program) = 9%nat.
Proof. vm_compute. split; reflexivity. Qed.

(** outside F7: a nested package, a name as package element, a Buffer value; a package whose element count does not fit a byte is not well formed *)
Example C11_fragment_F7_excludes :
  in_fragment_F7 [[AName (f0_nm 0x50 0x4b 0x47 0x30) (APackage 1 1 [APackage 1 0 []])]] = false /\
  in_fragment_F7 [[AName (f0_nm 0x50 0x4b 0x47 0x30) (APackage 1 1 [ARef (f0_nm 0x41 0x42 0x43 0x44)])]] = false /\
  in_fragment_F7 [[AName (f0_nm 0x42 0x55 0x46 0x30) (ABuffer 1 (AConst OP_BYTE 2) [1; 2])]] = false /\
  wf_program [[AName (f0_nm 0x50 0x4b 0x47 0x30) (APackage 1 256 [])]] = false.
Proof. vm_compute. repeat split. Qed.

(** ---- T2F7: two tables with string and package values in both ---- *)
Definition t2f7_program : list (list ast) :=
  [[ADevice 1 (f0_nm 0x44 0x45 0x56 0x30)
      [AName (f0_nm 0x5f 0x48 0x49 0x44) (AStr [0x50; 0x4e; 0x50; 0x30; 0x41; 0x30; 0x33]);
       AName (f0_nm 0x5f 0x50 0x52 0x57) (APackage 1 2 [AConst OP_BYTE 0x18; AConst OP_BYTE 4])];
    AName (f0_nm 0x5f 0x53 0x35 0x5f) (APackage 1 4 [AConst OP_BYTE 5; AConst 0x00 0; AConst 0x00 0; AConst 0x00 0]);
    AOpRegion (f0_nm 0x52 0x45 0x47 0x30) 1 (AConst OP_WORD 0x0cf8) (AConst OP_BYTE 8)];
   [AName (f0_nm 0x53 0x53 0x44 0x54) (AStr [0x73; 0x73; 0x64; 0x74]);
    AScope 1 (mkName true 0 false [seg4 0x5f 0x53 0x42 0x5f])
      [ADevice 1 (f0_nm 0x44 0x45 0x56 0x31)
         [AName (f0_nm 0x5f 0x43 0x49 0x44) (APackage 1 2 [AStr [0x41; 0x42]; AConst 0xff 0]);
          AName (f0_nm 0x5f 0x55 0x49 0x44) (AConst 0x01 0)];
       AEvent (f0_nm 0x45 0x56 0x54 0x30)];
    AName (f0_nm 0x45 0x4d 0x50 0x54) (APackage 1 0 [])]].

Example C11_parse_encode_partial_T2F7_nonvacuous :
  wf_program t2f7_program = true /\ in_fragment_T2F7 t2f7_program = true /\ in_fragment_T2 t2f7_program = false /\
  in_fragment_F7 t2f7_program = false /\ in_fragment_T2F7 t2_program = true.
Proof. vm_compute. repeat split. Qed.

Example C11_parse_encode_partial_T2F7_instance : parse_encode_statement t2f7_program.
Proof. apply C11_parse_encode_partial_T2F7; vm_compute; reflexivity. Qed.

Example C11_parse_encode_partial_T2F7_run : parse_program t2f7_program = (0, ns t2f7_program) /\ length (ns t2f7_program) = 11%nat.
Proof. vm_compute. split; reflexivity. Qed.

(** outside T2F7: one table, a Scope directive in the first table, a Buffer value, a nested package *)
Example C11_fragment_T2F7_excludes :
  in_fragment_T2F7 f7_program = false /\
  in_fragment_T2F7 [[AScope 1 (mkName true 0 false [seg4 0x5f 0x53 0x42 0x5f]) []]; []] = false /\
  in_fragment_T2F7 [[]; [AName (f0_nm 0x42 0x55 0x46 0x30) (ABuffer 1 (AConst OP_BYTE 2) [1; 2])]] = false /\
  in_fragment_T2F7 [[AName (f0_nm 0x50 0x4b 0x47 0x30) (APackage 1 1 [APackage 1 0 []])]; []] = false.
Proof. vm_compute. repeat split. Qed.

(** ---- TN: five tables (one of them empty), the last one with Scope directives ---- *)
Definition tn_program : list (list ast) :=
  [[ADevice 1 (f0_nm 0x44 0x45 0x56 0x30)
      [AName (f0_nm 0x5f 0x48 0x49 0x44) (AStr [0x50; 0x4e; 0x50; 0x30; 0x41; 0x30; 0x33]);
       AName (f0_nm 0x5f 0x50 0x52 0x57) (APackage 1 2 [AConst OP_BYTE 0x18; AConst OP_BYTE 4])];
    AOpRegion (f0_nm 0x52 0x45 0x47 0x30) 1 (AConst OP_WORD 0x0cf8) (AConst OP_BYTE 8)];
   [];
   [AName (f0_nm 0x53 0x53 0x44 0x31) (AStr [0x73; 0x73; 0x64; 0x74]);
    AProcessor 1 (f0_nm 0x43 0x50 0x55 0x30) 0 0x410 6 [AName (f0_nm 0x5f 0x55 0x49 0x44) (AConst 0x01 0)]];
   [AMethod 1 (f0_nm 0x4d 0x54 0x48 0x30) 2 []; AMutex (f0_nm 0x4d 0x54 0x58 0x30) 3];
   [AName (f0_nm 0x53 0x53 0x44 0x34) (AConst OP_DWORD 0xdeadbeef);
    AScope 1 (mkName true 0 false [seg4 0x5f 0x53 0x42 0x5f])
      [ADevice 1 (f0_nm 0x44 0x45 0x56 0x31)
         [AName (f0_nm 0x5f 0x43 0x49 0x44) (APackage 1 2 [AStr [0x41; 0x42]; AConst 0xff 0])];
       AEvent (f0_nm 0x45 0x56 0x54 0x30)];
    AScope 1 (mkName false 0 false [seg4 0x5f 0x54 0x5a 0x5f]) [AThermal 1 (f0_nm 0x54 0x5a 0x30 0x30) []];
    AName (f0_nm 0x45 0x4d 0x50 0x54) (APackage 1 0 [])]].

Example C11_parse_encode_partial_TN_nonvacuous :
  wf_program tn_program = true /\ in_fragment_TN tn_program = true /\ in_fragment_T2F7 tn_program = false /\
  in_fragment_TN f7_program = true /\ in_fragment_TN f6_program = true /\ in_fragment_TN f0_program = true /\
  in_fragment_TN t2_program = true /\ in_fragment_TN t2f7_program = true /\ in_fragment_TN [[]] = true /\ in_fragment_TN [[]; []; []] = true.
Proof. vm_compute. repeat split. Qed.

Example C11_parse_encode_partial_TN_instance : parse_encode_statement tn_program.
Proof. apply C11_parse_encode_partial_TN; vm_compute; reflexivity. Qed.

Example C11_parse_encode_partial_TN_run : parse_program tn_program = (0, ns tn_program) /\ length (ns tn_program) = 15%nat.
Proof. vm_compute. split; reflexivity. Qed.

(** outside TN: no table at all, a Scope directive in a table that is not the last, a Buffer value, a nested package *)
Example C11_fragment_TN_excludes :
  in_fragment_TN [] = false /\
  in_fragment_TN [[AScope 1 (mkName true 0 false [seg4 0x5f 0x53 0x42 0x5f]) []]; []] = false /\
  in_fragment_TN [[]; [AScope 1 (mkName true 0 false [seg4 0x5f 0x53 0x42 0x5f]) []]; []] = false /\
  in_fragment_TN [[]; [AName (f0_nm 0x42 0x55 0x46 0x30) (ABuffer 1 (AConst OP_BYTE 2) [1; 2])]] = false /\
  in_fragment_TN [[AName (f0_nm 0x50 0x4b 0x47 0x30) (APackage 1 1 [APackage 1 0 []])]; []] = false.
Proof. vm_compute. repeat split. Qed.

(** ---- F8: nested packages (a _PSS-like table, an empty inner package, depth three, inside Scope / Device) ---- *)
Definition f8_program : list (list ast) :=
  [[AName (f0_nm 0x5f 0x50 0x53 0x53)
      (APackage 1 2 [APackage 1 2 [AConst OP_BYTE 1; AConst OP_WORD 0x1234]; APackage 1 3 [AStr [0x41]; APackage 1 0 []; AConst 0xff 0]]);
    AScope 1 (mkName true 0 false [seg4 0x5f 0x53 0x42 0x5f])
      [ADevice 1 (f0_nm 0x44 0x45 0x56 0x30) [AName (f0_nm 0x5f 0x50 0x52 0x54) (APackage 1 1 [APackage 1 1 [APackage 1 1 [AConst 0 0]]])]];
    AName (f0_nm 0x5a 0x5a 0x5a 0x5a) (AConst 0x01 0)]].

Example C11_parse_encode_partial_F8_nonvacuous :
  wf_program f8_program = true /\ in_fragment_F8 f8_program = true /\ in_fragment_F7 f8_program = false /\
  in_fragment_F8 f7_program = true /\ in_fragment_F8 f6_program = true /\ in_fragment_F8 f0_program = true.
Proof. vm_compute. repeat split. Qed.

Example C11_parse_encode_partial_F8_instance : parse_encode_statement f8_program.
Proof. apply C11_parse_encode_partial_F8; vm_compute; reflexivity. Qed.

Example C11_parse_encode_partial_F8_run : parse_program f8_program = (0, ns f8_program) /\ length (ns f8_program) = 4%nat.
Proof. vm_compute. split; reflexivity. Qed.

(** outside F8: a name as element of an inner package, a Buffer as element, two tables *)
Example C11_fragment_F8_excludes :
  in_fragment_F8 [[AName (f0_nm 0x50 0x4b 0x47 0x30) (APackage 1 1 [APackage 1 1 [ARef (f0_nm 0x41 0x42 0x43 0x44)]])]] = false /\
  in_fragment_F8 [[AName (f0_nm 0x50 0x4b 0x47 0x30) (APackage 1 1 [ABuffer 1 (AConst OP_BYTE 2) [1; 2]])]] = false /\
  in_fragment_F8 [[]; []] = false.
Proof. vm_compute. repeat split. Qed.

(** ---- TN8: three tables with nested packages ---- *)
Definition tn8_program : list (list ast) :=
  [[AName (f0_nm 0x5f 0x50 0x53 0x53) (APackage 1 1 [APackage 1 2 [AConst OP_BYTE 1; AStr [0x42]]])];
   [];
   [AScope 1 (mkName true 0 false [seg4 0x5f 0x53 0x42 0x5f])
      [AName (f0_nm 0x50 0x4b 0x47 0x32) (APackage 1 2 [APackage 1 0 []; APackage 1 1 [APackage 1 0 []]])]]].

Example C11_parse_encode_partial_TN8_nonvacuous :
  wf_program tn8_program = true /\ in_fragment_TN8 tn8_program = true /\ in_fragment_TN tn8_program = false /\
  in_fragment_F8 tn8_program = false /\ in_fragment_TN8 tn_program = true /\ in_fragment_TN8 f8_program = true /\ in_fragment_TN8 t2f7_program = true.
Proof. vm_compute. repeat split. Qed.

Example C11_parse_encode_partial_TN8_instance : parse_encode_statement tn8_program.
Proof. apply C11_parse_encode_partial_TN8; vm_compute; reflexivity. Qed.

Example C11_parse_encode_partial_TN8_run : parse_program tn8_program = (0, ns tn8_program) /\ length (ns tn8_program) = 2%nat.
Proof. vm_compute. split; reflexivity. Qed.

(** outside TN8: no table, a Scope directive before the last table, a name as package element *)
Example C11_fragment_TN8_excludes :
  in_fragment_TN8 [] = false /\
  in_fragment_TN8 [[AScope 1 (mkName true 0 false [seg4 0x5f 0x53 0x42 0x5f]) []]; []] = false /\
  in_fragment_TN8 [[]; [AName (f0_nm 0x50 0x4b 0x47 0x30) (APackage 1 1 [APackage 1 1 [ARef (f0_nm 0x41 0x42 0x43 0x44)]])]] = false.
Proof. vm_compute. repeat split. Qed.

(** ---- F9: statements with constant operands in Method bodies ---- *)
Definition f9_program : list (list ast) :=
  [[AName (f0_nm 0x41 0x42 0x43 0x44) (AConst OP_BYTE 7);
    AMethod 1 (f0_nm 0x4d 0x54 0x48 0x30) 2
      [AName (f0_nm 0x4c 0x4f 0x43 0x30) (AConst OP_BYTE 1);
       AOp 0x90 [AConst OP_BYTE 5; AConst 0x01 0];                      (* LAnd(5, One) *)
       AOp 0x121 [AConst OP_WORD 0x03e8];                               (* Sleep(1000) *)
       AOp 0xcc [];                                                     (* BreakPoint *)
       AOp 0xa4 [AConst 0x00 0]];                                       (* Return(Zero) *)
    ADevice 2 (f0_nm 0x44 0x45 0x56 0x30)
      [AMethod 1 (f0_nm 0x5f 0x53 0x54 0x41) 0 [AOp 0xa4 [AConst OP_BYTE 0x0f]];                       (* Method(_STA){Return(0x0F)} *)
       AMethod 1 (f0_nm 0x5f 0x48 0x49 0x44) 0 [AOp 0xa4 [AStr [0x50; 0x4e; 0x50; 0x30]]];             (* Return("PNP0") *)
       AProcessor 1 (f0_nm 0x43 0x50 0x55 0x30) 1 0x410 6
         [AMethod 2 (f0_nm 0x4d 0x54 0x48 0x31) 1 [AOp 0x93 [AConst OP_DWORD 0xdeadbeef; AConst 0xff 0]; AOp 0xa5 []]];
       AName (f0_nm 0x50 0x4b 0x47 0x30) (APackage 1 2 [AConst OP_BYTE 1; APackage 1 1 [AStr [0x41]]])];
    AMethod 1 (f0_nm 0x4d 0x54 0x48 0x32) 0 []]].

Example C11_parse_encode_partial_F9_nonvacuous :
  wf_program f9_program = true /\ in_fragment_F9 f9_program = true /\ in_fragment_F8 f9_program = false /\
  in_fragment_F9 f2_program = true /\ in_fragment_F9 f0_program = true.
Proof. vm_compute. repeat split. Qed.

Example C11_parse_encode_partial_F9_instance : parse_encode_statement f9_program.
Proof. apply C11_parse_encode_partial_F9; vm_compute; reflexivity. Qed.

Example C11_parse_encode_partial_F9_run : parse_program f9_program = (0, ns f9_program) /\ length (ns f9_program) = 10%nat.
Proof. vm_compute. split; reflexivity. Qed.

(** the operands end up below the operator: the entry of \DEV0._STA is Method, flags 0, then Return with one argument 0x0f *)
Example C11_parse_encode_partial_F9_sta :
  In [1; 2; seg4 0x44 0x45 0x56 0x30; seg4 0x5f 0x53 0x54 0x41; OP_METHOD; OP_BYTE; 1; 0; 0; 0xa4; 0; 1; OP_BYTE; 1; 0x0f; 0] (snd (parse_program f9_program)).
Proof. vm_compute. tauto. Qed.

(** statements outside Method bodies: anonymous entries of the top level and of a Device *)
Definition f9b_program : list (list ast) :=
  [[AOp 0x121 [AConst OP_BYTE 5];
    AName (f0_nm 0x41 0x42 0x43 0x44) (AConst 0x01 0);
    ADevice 1 (f0_nm 0x44 0x45 0x56 0x30)
      [AOp 0x93 [AConst OP_BYTE 5; AConst 0x00 0]; AName (f0_nm 0x41 0x42 0x43 0x44) (AConst 0x01 0); AOp 0xcc [];
       AMethod 1 (f0_nm 0x4d 0x54 0x48 0x30) 0 [AOp 0xa4 [AConst 0x01 0]]; AOp 0xa4 [AStr [0x41]]];
    AOp 0xa4 [AConst 0xff 0]]].

Example C11_parse_encode_partial_F9_anywhere :
  wf_program f9b_program = true /\ in_fragment_F9 f9b_program = true /\ parse_encode_statement f9b_program /\
  length (ns f9b_program) = 9%nat /\ In [2; 1; seg4 0x44 0x45 0x56 0x30; 0x93; 0; 2; OP_BYTE; 1; 5; 0; 0; 0; 0] (ns f9b_program).
Proof.
  split; [vm_compute; reflexivity|]. split; [vm_compute; reflexivity|].
  split; [apply C11_parse_encode_partial_F9; vm_compute; reflexivity|]. split; [vm_compute; reflexivity|vm_compute; tauto].
Qed.

(** outside F9: an operand that is a Local object, Store (has a Target), If, a Scope directive, two tables *)
Example C11_fragment_F9_excludes :
  in_fragment_F9 [[AMethod 1 (f0_nm 0x4d 0x54 0x48 0x30) 0 [AOp 0xa4 [AOp 0x60 []]]]] = false /\
  in_fragment_F9 [[AMethod 1 (f0_nm 0x4d 0x54 0x48 0x30) 0 [AOp 0x70 [AConst 0x01 0; AOp 0x60 []]]]] = false /\
  in_fragment_F9 [[AMethod 1 (f0_nm 0x4d 0x54 0x48 0x30) 0 [AIf 1 (AConst 0x01 0) [AOp 0xa4 [AConst 0x01 0]]]]] = false /\
  in_fragment_F9 [[AScope 1 (mkName true 0 false [seg4 0x5f 0x53 0x42 0x5f]) []]] = false /\
  in_fragment_F9 [[]; []] = false.
Proof. vm_compute. repeat split. Qed.
