(** Non-vacuity of the C10 theorems: a concrete well-formed information block with every kind of
    tag (two memory maps: the first wins), its placement, and the concrete decoder runs. *)
From Coq Require Import NArith List Bool.
From FF Require Import Lib.Word Gen.Consts_multiboot Multiboot.Model Multiboot.Spec Multiboot.MemLemmas
  Multiboot.FindProofs Multiboot.AfterVisit Multiboot.Case.
Import ListNotations.
Local Open Scope N_scope.

(* "\0.shstrtab\0.text\0" *)
Definition ex_strtab : list N := [0; 46; 115; 104; 115; 116; 114; 116; 97; 98; 0; 46; 116; 101; 120; 116; 0].
Definition ex_saddr : N := 0x300200000fef.

Definition ex_mb : mbinfo := mkMb 0
  [ (TOther 5 [1; 2; 3], [0; 0; 0; 0; 0]);
    (TMemMap 28 0 [ mkEntry 0 0x9fc00 1 [0; 0; 0; 0; 9; 9; 9; 9];
                    mkEntry 0x100000 0x7ee0000 5 [0; 0; 0; 0; 9; 9; 9; 9];
                    mkEntry 0xfffc0000 0x40000 0 [0; 0; 0; 0; 9; 9; 9; 9];
                    mkEntry 0x7fe0000 0x20000 3 [0; 0; 0; 0; 9; 9; 9; 9] ], []);
    (* " a=b<U+2003>c \ta=d" : EM SPACE (e2 80 83) separates the first two entries *)
    (TCmdLine (mkCmd [32] [ (KV [97] [98], [226; 128; 131]); (Bare [99], [32; 9]); (KV [97] [100], []) ]), [0; 0]);
    (TMemMap 24 0 [ mkEntry 0 0x1000 1 [0; 0; 0; 0] ], []);
    (TFramebuffer (mkFbTag 0xfd000000 4096 1024 768 32 1 0 [16; 8; 8; 8; 0; 8]), [0; 0]);
    (TElf 64 1 [ mkSec 0 0 0 0 0 0 0 0 0 0;
                 mkSec 1 3 0 ex_saddr 0 17 0 0 1 0;
                 mkSec 11 1 0x10000000006 0x100000 0x1000 0x2000 0 0 16 0 ], [0; 0; 0; 0]) ].

Definition ex_layout : layout := mkLayout 0x200200000e20 [0; 0; 0; 0; 0; 0; 0; 0] ex_saddr [] ex_strtab.

Lemma spaces_units us : Forall space_unit us -> spaces (concat us).
Proof. intros H. exists us. split; [reflexivity | exact H]. Qed.

Ltac spaces_auto :=
  match goal with
  | |- spaces [] => apply (spaces_units [])
  | |- spaces [226; 128; 131] => apply (spaces_units [[226; 128; 131]])
  | |- spaces [32] => apply (spaces_units [[32]])
  | |- spaces [32; 9] => apply (spaces_units [[32]; [9]])
  end;
  repeat (apply Forall_cons; [first [left; eexists; split; reflexivity | right; cbn; tauto]|]); apply Forall_nil.

Ltac wf_auto :=
  repeat first [ progress cbn [tag_wf fst snd entries_wf cmd_entry_wf c_lead c_entries]
               | spaces_auto | split | constructor | reflexivity | discriminate
               | (intros _; vm_compute; discriminate) | (intro; discriminate) | solve [intuition congruence] ].

Example C10_mbinfo_wf_nonvacuous : mbinfo_wf ex_saddr ex_strtab ex_mb.
Proof.
  unfold mbinfo_wf, ex_mb. cbn [mb_reserved mb_tags]. split; [reflexivity|]. split; [|vm_compute; reflexivity].
  repeat match goal with
         | |- Forall (tagpad_wf _ _) (_ :: _) =>
             apply Forall_cons; [unfold tagpad_wf; cbn [fst snd]; split; [|split; [wf_auto | vm_compute; reflexivity]]|]
         | |- Forall (tagpad_wf _ _) [] => apply Forall_nil
         end.
  - wf_auto.
  - cbn [tag_wf]. wf_auto.
  - cbn [tag_wf]. unfold cmdline_wf. wf_auto.
  - cbn [tag_wf]. wf_auto.
  - cbn [tag_wf]. unfold fb_wf. cbn. wf_auto.
  - cbn [tag_wf]. split; [reflexivity|]. unfold elf_wf. split; [reflexivity|]. split; [reflexivity|].
    split; [wf_auto|]. split; [eexists; split; reflexivity|]. wf_auto.
Qed.

Example C10_layout_wf_nonvacuous : layout_wf ex_layout (encode ex_mb).
Proof. unfold layout_wf. cbn [l_pre l_spre l_info l_saddr l_strtab ex_layout]. wf_auto. Qed.

(** the block ends exactly at a page boundary (0x200200001000) and is 480 bytes long *)
Example C10_block_size : len (encode ex_mb) = 480 /\ l_info ex_layout + len (encode ex_mb) = 0x200200001000.
Proof. vm_compute. auto. Qed.

Example C10_find_tag_example :
  find_tag (mem_of ex_layout (encode ex_mb)) (l_info ex_layout) mb_tagFramebufferInfo = Ok (l_info ex_layout + 0xe0, 30) /\
  find_tag (mem_of ex_layout (encode ex_mb)) (l_info ex_layout) mb_tagModules = Ok (0, 0).
Proof. vm_compute. auto. Qed.

(** regions: first memory map (entry size 28); type 5 and type 0 are reported as reserved (2) *)
Example C10_mem_regions_example :
  snd (fst (visit_mem_regions 10 (fun _ _ => true) (mem_of ex_layout (encode ex_mb)) (l_info ex_layout))) =
    [ mkRegion 0 0x9fc00 1; mkRegion 0x100000 0x7ee0000 2; mkRegion 0xfffc0000 0x40000 2; mkRegion 0x7fe0000 0x20000 3 ] /\
  expected_regions ex_mb =
    [ mkRegion 0 0x9fc00 1; mkRegion 0x100000 0x7ee0000 2; mkRegion 0xfffc0000 0x40000 2; mkRegion 0x7fe0000 0x20000 3 ].
Proof. vm_compute. auto. Qed.

(** the visitor stops the scan by returning false on its second call *)
Example C10_mem_regions_stop_example :
  snd (fst (visit_mem_regions 10 (fun i _ => negb (i =? 1)) (mem_of ex_layout (encode ex_mb)) (l_info ex_layout))) =
    [ mkRegion 0 0x9fc00 1; mkRegion 0x100000 0x7ee0000 2 ].
Proof. vm_compute. reflexivity. Qed.

Example C10_framebuffer_example :
  framebuffer (mem_of ex_layout (encode ex_mb)) (l_info ex_layout) =
    Ok (Some (mkFb 0xfd000000 4096 1024 768 32 1 (Some [16; 8; 8; 8; 0; 8]))).
Proof. vm_compute. reflexivity. Qed.

(** " a=b<EM SPACE>c \ta=d" : the Unicode space separates, the later a=d overrides a=b *)
Example C10_cmdline_example :
  get_boot_cmdline (mem_of ex_layout (encode ex_mb)) (l_info ex_layout) = Ok [([97], [100]); ([99], [99])].
Proof. vm_compute. reflexivity. Qed.

(** sections: the empty one is skipped; names come from the string table; flags are truncated to 32 bits *)
Example C10_elf_sections_example :
  visit_elf_sections (mem_of ex_layout (encode ex_mb)) (l_info ex_layout) =
    ([ mkSection [46; 115; 104; 115; 116; 114; 116; 97; 98] 0 ex_saddr 17;
       mkSection [46; 116; 101; 120; 116] 6 0x100000 0x2000 ], Ok tt).
Proof. vm_compute. reflexivity. Qed.

(** a block cut short by 8 bytes (no end tag) makes the scan for an absent tag run into the
    inaccessible memory: the model reports Stray, it does not hide it *)
Example C10_stray_example :
  find_tag (mem_of ex_layout (firstn 472 (encode ex_mb))) (l_info ex_layout) mb_tagModules = Stray.
Proof. vm_compute. reflexivity. Qed.

(** a tag of size 0 makes findTagByType loop forever: the model reports Hang *)
Example C10_hang_example :
  find_tag [mkSeg 0x1000 ([16; 0; 0; 0; 0; 0; 0; 0] ++ [5; 0; 0; 0; 0; 0; 0; 0])] 0x1000 mb_tagModules = Hang.
Proof. vm_compute. reflexivity. Qed.

(** tag order: moving the opaque tag and the second memory map to the end changes nothing *)
Definition ex_mb_reordered : mbinfo := mkMb 0
  (match mb_tags ex_mb with
   | a :: b :: c :: d :: rest => b :: c :: rest ++ [a; d]
   | x => x
   end).

Example C10_tag_order_nonvacuous :
  encode ex_mb_reordered <> encode ex_mb /\
  first_tag sel_memmap (mb_tags ex_mb) = first_tag sel_memmap (mb_tags ex_mb_reordered) /\
  first_tag sel_fb (mb_tags ex_mb) = first_tag sel_fb (mb_tags ex_mb_reordered) /\
  first_tag sel_cmd (mb_tags ex_mb) = first_tag sel_cmd (mb_tags ex_mb_reordered) /\
  first_tag sel_elf (mb_tags ex_mb) = first_tag sel_elf (mb_tags ex_mb_reordered).
Proof. split; [vm_compute; discriminate|]. vm_compute. auto. Qed.

(** the flat interface used by the correspondence driver, on the same block *)
Example C10_run_case_flag :
  hd 9 (run_case ([0; 0xffff; 0x200200000000; 0xe20] ++ enc_list (encode ex_mb) ++ [0x300200000000; 0xfef] ++ enc_list ex_strtab ++
        [0; 1; 100; 5; 3; 1; 2; 3; 5; 0; 0; 0; 0; 0])) = 0.
Proof. vm_compute. reflexivity. Qed.

(** after the scan stopped at the second region: entries 0 and 1 are normalised in memory (type 5 -> 2),
    entry 2 (type 0) is still as encoded; the block is a different one of the same length *)
Example C10_after_visit_example :
  first_tag sel_memmap (mb_tags (after_visit (fun i _ => negb (i =? 1)) ex_mb)) =
    Some (28, 0, [ mkEntry 0 0x9fc00 1 [0; 0; 0; 0; 9; 9; 9; 9];
                   mkEntry 0x100000 0x7ee0000 2 [0; 0; 0; 0; 9; 9; 9; 9];
                   mkEntry 0xfffc0000 0x40000 0 [0; 0; 0; 0; 9; 9; 9; 9];
                   mkEntry 0x7fe0000 0x20000 3 [0; 0; 0; 0; 9; 9; 9; 9] ]) /\
  encode (after_visit (fun i _ => negb (i =? 1)) ex_mb) <> encode ex_mb /\
  fst (fst (visit_mem_regions 10 (fun i _ => negb (i =? 1)) (mem_of ex_layout (encode ex_mb)) (l_info ex_layout))) =
    mem_of ex_layout (encode (after_visit (fun i _ => negb (i =? 1)) ex_mb)).
Proof. split; [vm_compute; reflexivity|]. split; [vm_compute; discriminate | vm_compute; reflexivity]. Qed.
