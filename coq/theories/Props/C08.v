(** C08 — spinlock gives mutual exclusion; try-acquire never lies.
    Interleaving semantics over the instruction list regenerated from spinlock_amd64.s and the Go
    wrappers (Gen/SpinAsm.v); the plain "dirty read" returns an arbitrary value.
    Statements only; proofs are in Sync/MachineProofs.v. *)
From Coq Require Import NArith List.
From FF Require Import Lib.Word Sync.Instr Gen.SpinAsm Sync.Machine Sync.MachineProofs.
Import ListNotations.
Local Open Scope N_scope.

(** the tie to the source: the regenerated program is the one the proofs are about *)
Theorem C08_gen_matches : gen_cfg = expected_cfg /\ go_shape_ok = true.
Proof. exact gen_matches. Qed.
Print Assumptions C08_gen_matches.

(** For any number of tasks [n], yieldFn set or nil [y], and every schedule (every interleaving of
    Acquire / TryToAcquire / Release / critical-section steps / single instructions, every value the plain
    read may return): at most one task is in its critical section, no task makes a stray access, and the
    lock word is 1 exactly when some task owns the lock (0 when none does). *)
Theorem C08_mutex :
  forall n y s, Reachable n y s ->
    (holders s <= 1)%nat /\ existsb is_faulted (threads s) = false /\
    lock s = N.of_nat (count_got (threads s)) /\ (count_got (threads s) <= 1)%nat.
Proof. exact mutex_gen. Qed.
Print Assumptions C08_mutex.

(** TryToAcquire returns true exactly when the lock word was 0 — the caller then is in its critical
    section, the word is 1 and no other task changed; when it returns false (someone owns the lock) the
    whole machine state is unchanged: no side effect. *)
Theorem C08_try_exact :
  forall n y s tid, Reachable n y s -> nth_error (threads s) tid = Some Idle ->
    exists s', step gen_cfg y s (tid, CTry) = Some (s', Some (lock s =? 0)) /\
      ((lock s = 0 /\ lock s' = 1 /\ nth_error (threads s') tid = Some (Holding None) /\
        (forall j, j <> tid -> nth_error (threads s') j = nth_error (threads s) j) /\ counter s' = counter s)
       \/ (lock s = 1 /\ s' = s)).
Proof. exact try_exact_gen. Qed.
Print Assumptions C08_try_exact.

(** After the holder's Release the lock word is 0 and nobody owns the lock ... *)
Theorem C08_release_frees :
  forall n y s tid, Reachable n y s -> nth_error (threads s) tid = Some (Holding None) ->
    exists s', step gen_cfg y s (tid, CRelease) = Some (s', None) /\
      lock s' = 0 /\ count_got (threads s') = 0%nat /\ nth_error (threads s') tid = Some Idle.
Proof. exact release_frees_gen. Qed.
Print Assumptions C08_release_frees.

(** ... and it can be taken again: whenever the word is 0 a task running alone completes Acquire
    within 8 instructions and then holds the lock. *)
Theorem C08_acquire_after_release :
  forall y s tid, lock s = 0 -> nth_error (threads s) tid = Some Idle ->
    exists s1 s2, step gen_cfg y s (tid, CStartAcq) = Some (s1, None) /\
      solo_acquire gen_cfg y 8 tid s1 = (s2, true) /\
      nth_error (threads s2) tid = Some (Holding None) /\ lock s2 = 1.
Proof. exact acquire_after_release_gen. Qed.
Print Assumptions C08_acquire_after_release.

(** Work done inside the lock is visible to the next holder: a plain counter incremented non-atomically
    (read, then write) inside critical sections always equals the number of completed increments. *)
Theorem C08_no_lost_update :
  forall n y s, Reachable n y s -> counter s = ndone s.
Proof. exact no_lost_update_gen. Qed.
Print Assumptions C08_no_lost_update.

(** No deadlock in the lock itself: from every reachable state, if the word is 0 any task inside Acquire
    completes it alone within 31 steps; if it is 1 the owner is in its critical section (Release is
    enabled) or completes Acquire alone within 4 steps. (Starvation-freedom is not claimed.) *)
Theorem C08_lock_progress :
  forall n y s, Reachable n y s ->
  (lock s = 0 -> forall tid pc r, nth_error (threads s) tid = Some (InAcq pc r) ->
     exists s', solo_acquire gen_cfg y 31 tid s = (s', true) /\ nth_error (threads s') tid = Some (Holding None)) /\
  (lock s = 1 -> exists u t, nth_error (threads s) u = Some t /\ got t = true /\
     match t with
     | InAcq pc r => exists s', solo_acquire gen_cfg y 4 u s = (s', true) /\ nth_error (threads s') u = Some (Holding None)
     | _ => is_holding t = true
     end).
Proof. exact lock_progress_gen. Qed.
Print Assumptions C08_lock_progress.
