(** C16 - tie of the early ring buffer model to the source BY TRANSLATION.
    Gen/Trans_kfmt_ring.v is regenerated on every run by gen/gotrans (go/ast, extended mode: loops on
    fuel, stores, slicing, copy, switch, Go int) from kernel/kfmt/ringbuf.go: the ringBuffer struct
    becomes a record (buffer = the list of its bytes, rIndex / wIndex = Go ints in two's complement),
    Write and Read become Gallina functions returning [gres]: a value, [GPanic] (Go run-time panic)
    or [GFuel] (the fuel of the range loop ran out).  The hand-written model Kfmt/Ring.v, about
    which C16's FIFO / capacity / drain theorems are proved, is shown equal to that translation on
    every ring satisfying the model's invariant [valid] (rIndex, wIndex < ringBufferSize; maintained
    by every operation: [C16_ring_trans_keeps_valid]), for every argument slice, outcome by outcome
    (new state, returned count and error, the bytes copied into p, panics).  Fuel: any
    fuel > len(p) suffices for Write (one iteration per byte plus the final test); Read has no loop.
    [to_go] is the abstraction from the model's PositiveMap to the translation's list.
    Statements only; proofs are in Kfmt/RingTrans.v. *)
From Coq Require Import NArith String List.
From FF Require Import Lib.GoOps Lib.GoOpsExt Gen.Trans_kfmt_ring Kfmt.Fmt Kfmt.Ring Kfmt.RingProofs Kfmt.RingTrans.
Local Open Scope N_scope.

Theorem C16_ring_write_is_translation :
  forall (rb : ring) (p : list N) (fuel : nat),
    valid rb -> (length p < fuel)%nat ->
    go_kfmt_ringBuffer_Write fuel (to_go rb) p =
    match ring_write rb p with
    | Ok rb' => GOk (to_go rb', (glen p, None))
    | Panic _ => GPanic
    | OutOfFuel => GFuel
    end.
Proof. exact write_is_translation. Qed.
Print Assumptions C16_ring_write_is_translation.

(** p models a Go slice: its length is an int *)
Theorem C16_ring_read_is_translation :
  forall (rb : ring) (p : list N),
    valid rb -> glen p < 2 ^ 63 ->
    go_kfmt_ringBuffer_Read (to_go rb) p =
    match ring_read rb (glen p) with
    | Ok (d, eof, rb') =>
        GOk (to_go rb', (glen d, (if eof then Some "io.EOF"%string else None), d ++ skipn (length d) p))
    | Panic _ => GPanic
    | OutOfFuel => GFuel
    end.
Proof. exact read_is_translation. Qed.
Print Assumptions C16_ring_read_is_translation.

(** the invariant under which the two agree is kept by both operations of the model, so the
    equalities chain along any history that starts from the zero value of the struct (the model's
    [empty_ring]) *)
Theorem C16_ring_trans_keeps_valid :
  to_go empty_ring = mk_go_kfmt_ringBuffer (repeat 0 (N.to_nat ring_len)) 0 0 /\
  valid empty_ring /\
  (forall rb p rb', valid rb -> ring_write rb p = Ok rb' -> valid rb') /\
  (forall rb plen d eof rb', valid rb -> ring_read rb plen = Ok (d, eof, rb') -> valid rb').
Proof. exact (conj to_go_empty trans_keeps_valid). Qed.
Print Assumptions C16_ring_trans_keeps_valid.
