(** C01 placeholder *)
From FF Require Import Pmm.Bitmap.
