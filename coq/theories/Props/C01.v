(** C01 — physical frames are handed out exclusively and only from free RAM.
    Statements only; every proof is [exact <lemma from Pmm/TopProofs.v>].

    Model (Pmm/Bitmap.v): [pmm_init m kstart kend limit mapfail] is pmm.Init on fresh allocators for
    memory map [m] and kernel image [kstart,kend) (the two seams fail as told by [limit]/[mapfail]);
    [run a ops] is the history of AllocFrame / FreeFrame calls [ops] from allocator state [a].
    [WFmap]/[WFkernel]: see Props/C02.v (sorted non-overlapping regions of any number, alignment, size and
    type; page-aligned kernel start inside one available region).  [small_map]: fewer than 2^32-64 frames
    of available RAM (the allocator's counters are uint32).
    [early_frames obs]: the frames the early-boot allocator handed out during Init (seen at the mapFn seam).
    [usable m kstart kend E f]: frame [f] lies wholly inside an available region, holds no byte of the
    kernel image and is not one of the early-boot frames [E].
    [history_ok]: the history never frees a frame of available RAM that was reserved at initialisation
    (kernel image / early boot) — such a free is accepted by the code (known finding, [C03_refuted] in
    Props/C03.v); frees of never-allocated, out-of-pool, twice-freed and arbitrary 64-bit frame numbers
    are all inside the quantifier.
    [exclusive U H trace]: walking the trace with the set [H] of frames currently held (handed out and not
    yet successfully freed): every frame handed out satisfies [U] and is not in [H]; a successful free
    removes exactly that frame from [H]; no call panics. *)
From Coq Require Import NArith List Sorted.
From FF Require Import Lib.Word Gen.Consts_mm_pmm Pmm.Boot Pmm.BootProofs Pmm.Bitmap Pmm.BitmapProofs Pmm.HistoryProofs
  Pmm.InitProofs Pmm.TopProofs Props.C01_examples.
Import ListNotations.
Local Open Scope N_scope.

(** For every well-formed map, kernel placement and seam behaviour: if Init succeeds then for EVERY history
    every frame handed out is usable (wholly inside available RAM, not kernel image, not consumed by the
    early-boot allocator) and not currently held by anybody; in particular a frame is handed out again
    only after it has been freed. *)
Theorem C01_alloc_exclusive :
  forall (m : memmap) (kstart kend limit mapfail : N) (a0 : balloc) (b0 : bstate) (obs : init_obs) (ops : list op),
    WFmap m -> WFkernel m kstart kend -> small_map m ->
    pmm_init m kstart kend limit mapfail = (InitOk a0 b0, obs) ->
    history_ok m kstart kend (early_frames obs) ops ->
    exclusive (usable m kstart kend (early_frames obs)) [] (combine ops (map fst (run a0 ops))).
Proof.
  intros m kstart kend limit mapfail a0 b0 obs ops Hm Hk Hs Hi Ho.
  exact (alloc_exclusive m kstart kend limit mapfail Hm Hk Hs a0 b0 obs Hi ops Ho).
Qed.
Print Assumptions C01_alloc_exclusive.

(** The frames consumed by the early-boot allocator during Init are themselves wholly inside available
    RAM, outside the kernel image and pairwise distinct (ascending) — C02 applied to Init. *)
Theorem C01_early_frames_good :
  forall (m : memmap) (kstart kend limit mapfail : N) (a0 : balloc) (b0 : bstate) (obs : init_obs),
    WFmap m -> WFkernel m kstart kend -> small_map m ->
    pmm_init m kstart kend limit mapfail = (InitOk a0 b0, obs) ->
    Forall (good_frame m kstart kend) (early_frames obs) /\ StronglySorted N.lt (early_frames obs).
Proof.
  intros m kstart kend limit mapfail a0 b0 obs Hm Hk Hs Hi.
  exact (proj2 (proj2 (proj2 (init_facts m kstart kend limit mapfail Hm Hk Hs a0 b0 obs Hi)))).
Qed.
Print Assumptions C01_early_frames_good.

(** The representation invariant behind it (DESIGN.md Appendix A.1), for one call: from any state in which
    every pool's bitmap agrees with a reservation predicate [R] and [freeCount] counts the clear in-range
    bits, AllocFrame returns a managed frame that was not reserved — the LOWEST such frame — and the
    invariant holds again with that frame reserved; it fails only when every managed frame is reserved. *)
Theorem C01_alloc_step :
  forall (R : N -> bool) (a : balloc),
    Inv R a ->
    match bitmap_alloc a with
    | (a', Some f) =>
        managed (a_pools a) f /\ R f = false /\ Inv (upd R f true) a' /\
        ranges (a_pools a') = ranges (a_pools a) /\
        a_total a' = a_total a /\ a_reserved a' = a_reserved a + 1 /\
        (forall g, managed (a_pools a) g -> R g = false -> f <= g)
    | (a', None) =>
        a' = a /\ a_reserved a = a_total a /\ (forall g, managed (a_pools a) g -> R g = true)
    end.
Proof. exact bitmap_alloc_spec. Qed.
Print Assumptions C01_alloc_step.

(** The pools are exactly the whole frames of the available regions. *)
Theorem C01_pools_are_available_ram :
  forall (m : memmap) (kstart kend : N) (f : N),
    WFmap m -> (in_ranges (pool_ranges m) f <-> frame_avail m f).
Proof. intros m kstart kend f Hm. exact (in_ranges_avail m kstart kend Hm f). Qed.
Print Assumptions C01_pools_are_available_ram.

(** The letter of the property quantifies over every interleaving of allocate and free calls. Without the
    restriction [history_ok] the statement is FALSE for the code as it is (known finding
    c03:free-of-init-reserved-frame-accepted): FreeFrame accepts a frame reserved at initialisation and
    AllocFrame then hands it out. Witness: the example map, history [FreeFrame(1); AllocFrame] where frame 1
    is the early-boot frame: the free succeeds and the allocation returns frame 1. *)
Definition C01_full_alloc_exclusive : Prop :=
  forall (m : memmap) (kstart kend limit mapfail : N) (a0 : balloc) (b0 : bstate) (obs : init_obs) (ops : list op),
    WFmap m -> WFkernel m kstart kend -> small_map m ->
    pmm_init m kstart kend limit mapfail = (InitOk a0 b0, obs) ->
    exclusive (usable m kstart kend (early_frames obs)) [] (combine ops (map fst (run a0 ops))).

Theorem C01_full_alloc_exclusive_refuted : ~ C01_full_alloc_exclusive.
Proof.
  intros H.
  specialize (H pm_map pm_kstart pm_kend two64 0 pm_a0 pm_b0 (snd pm_init_result) [OpFree 1; OpAlloc]
                C01_map_nonvacuous C01_kernel_nonvacuous C01_small_nonvacuous (proj1 C01_init_nonvacuous)).
  vm_compute in H. destruct H as [[] _].
Qed.
Print Assumptions C01_full_alloc_exclusive_refuted.
