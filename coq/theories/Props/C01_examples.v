From FF Require Import Pmm.Bitmap.
