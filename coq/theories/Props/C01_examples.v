(** Non-vacuity for C01 (and shared by C03): a concrete well-formed map with word-boundary pool sizes,
    Init computed by the model, and concrete histories. *)
From Coq Require Import NArith List Lia Sorted Bool.
From FF Require Import Lib.Word Gen.Consts_mm_pmm Pmm.Boot Pmm.BootProofs Pmm.Bitmap Pmm.BitmapProofs Pmm.HistoryProofs
  Pmm.InitProofs Pmm.TopProofs.
Import ListNotations.
Local Open Scope N_scope.

(** 65-frame region (frames 1..0x41), a sub-page available region, an unaligned region holding exactly
    one whole frame (0x51), a reserved region, a 128-frame region (0x80..0xff) *)
Definition pm_map : memmap :=
  [ mkRegion 0x1000 0x41000 1; mkRegion 0x42000 0x800 1; mkRegion 0x50800 0x1800 1;
    mkRegion 0x60000 0x3000 2; mkRegion 0x80000 0x80000 1 ].
Definition pm_kstart : N := 0x3000.
Definition pm_kend : N := 0x5800.      (* kernel frames 3,4,5 *)

Example C01_map_nonvacuous : WFmap pm_map.
Proof.
  split.
  - repeat constructor; unfold WFregion, two64; cbn; lia.
  - cbn. repeat split; repeat constructor; cbn; lia.
Qed.

Example C01_kernel_nonvacuous : WFkernel pm_map pm_kstart pm_kend.
Proof.
  split; [reflexivity|]. split; [unfold pm_kstart, pm_kend; lia|].
  exists (mkRegion 0x1000 0x41000 1). cbn. unfold pm_kstart, pm_kend. repeat split; try lia. left. reflexivity.
Qed.

Example C01_small_nonvacuous : small_map pm_map.
Proof. unfold small_map. vm_compute. discriminate. Qed.

Definition pm_init_result := pmm_init pm_map pm_kstart pm_kend two64 0.
Definition pm_a0 : balloc := match fst pm_init_result with InitOk a _ => a | _ => empty_alloc end.
Definition pm_b0 : bstate := match fst pm_init_result with InitOk _ b => b | _ => boot_reset end.

(** Init succeeds: 3 pools (65, 1, 128 frames), one early-boot frame (frame 1), kernel frames 3..5 *)
Example C01_init_nonvacuous :
  pm_init_result = (InitOk pm_a0 pm_b0, snd pm_init_result) /\
  early_frames (snd pm_init_result) = [1] /\
  ranges (a_pools pm_a0) = [(1, 0x41); (0x51, 0x51); (0x80, 0xff)] /\
  map (fun p => length (p_bitmap p)) (a_pools pm_a0) = [2; 1; 2]%nat /\
  a_total pm_a0 = 194 /\ a_reserved pm_a0 = 4.
Proof. vm_compute. repeat split. Qed.

(** a history inside the quantifier: frees of a held frame, of the same frame again, of an unmanaged
    frame, of a free frame, of an arbitrary 64-bit number *)
Definition pm_ops : list op :=
  [OpAlloc; OpAlloc; OpFree 2; OpFree 2; OpFree 0x42; OpFree 0x90; OpFree 0xffffffffffffffff; OpAlloc; OpAlloc].

Example C01_history_nonvacuous : history_ok pm_map pm_kstart pm_kend (early_frames (snd pm_init_result)) pm_ops.
Proof.
  intros f Hin Hav.
  assert (Hf: f = 2 \/ f = 0x42 \/ f = 0x90 \/ f = 0xffffffffffffffff).
  { cbn in Hin. repeat (destruct Hin as [Hin|Hin]; [inversion Hin; auto; fail|]); try discriminate. destruct Hin. }
  replace (early_frames (snd pm_init_result)) with [1] by (vm_compute; reflexivity).
  unfold in_kernel, pm_kstart, pm_kend. split.
  - intros [H1 H2]. destruct Hf as [->|[->|[->| ->]]]; lia.
  - intros [H|[]]. destruct Hf as [->|[->|[->| ->]]]; discriminate.
Qed.

Example C01_run_example :
  map fst (run pm_a0 pm_ops) =
  [RAlloc (Some 2); RAlloc (Some 6); RFree FreeOk; RFree FreeDoubleFree; RFree FreeNotManaged;
   RFree FreeDoubleFree; RFree FreeNotManaged; RAlloc (Some 2); RAlloc (Some 7)].
Proof. vm_compute. reflexivity. Qed.

(** draining: exactly 190 = 194 - 3 kernel - 1 early frames, the last ones are 0x41 (65th frame of pool 0),
    0x51 (the one-frame pool) and 0xff *)
Example C01_drain_example :
  let rs := map fst (run pm_a0 (repeat OpAlloc 191)) in
  nth 60 rs (RAlloc None) = RAlloc (Some 0x41) /\ nth 61 rs (RAlloc None) = RAlloc (Some 0x51) /\
  nth 62 rs (RAlloc None) = RAlloc (Some 0x80) /\
  nth 189 rs (RAlloc None) = RAlloc (Some 0xff) /\ nth 190 rs (RFree FreeOk) = RAlloc None.
Proof. vm_compute. repeat split. Qed.
