(** Concrete runs of the regenerated kernel.Memset / kernel.Memcopy (Gen/Trans_kernel_mem.v) by [vm_compute] on a
    32-byte memory: a size that is not a power of two, the first and last byte of the memory, size 0, an overlapping
    copy in both directions, one unit of fuel too little, and a size of 2^63. *)
From Coq Require Import NArith List Lia.
From FF Require Import Lib.Word Lib.GoOps Gen.Consts_mm_vmm Gen.Trans_kernel_mem Kernel.MemUtil Vmm.Pt Vmm.PtMem.
From FF Require Kernel.MemUtilTrans Vmm.MemsetSeam Vmm.PdtTrans.
Module S := FF.Vmm.MemsetSeam.
Module T := FF.Vmm.PdtTrans.
Import ListNotations.
Local Open Scope N_scope.

Definition m32 : list N := pattern 32.
Definition mem_of (r : gres (go_kernel_world * unit)) : option (list N) :=
  match r with GOk (w, _) => Some (f_world_mem w) | _ => None end.

Example C06_memset_translated_fills_exactly_nonvacuous :
  (11 : N) <> 0 /\ (11 : N) < 2 ^ 63 /\ (5 + N.to_nat 11 <= length m32)%nat.
Proof. split; [discriminate|]. split; [reflexivity | cbn; lia]. Qed.

(** 11 bytes (not a power of two) from index 5: exactly those, neighbours untouched *)
Example memset_run :
  mem_of (go_kernel_Memset 64 (mk_go_kernel_world [] m32) 5 0xAB 11)
  = Some (firstn 5 m32 ++ repeat 0xAB 11 ++ skipn 16 m32)
  /\ memset m32 5 0xAB 11 = MOk (firstn 5 m32 ++ repeat 0xAB 11 ++ skipn 16 m32).
Proof. vm_compute. split; reflexivity. Qed.

(** the whole memory, a single byte at the end, and size 0 *)
Example memset_edges_run :
  mem_of (go_kernel_Memset 64 (mk_go_kernel_world [] m32) 0 7 32) = Some (repeat 7 32)
  /\ mem_of (go_kernel_Memset 64 (mk_go_kernel_world [] m32) 31 7 1) = Some (firstn 31 m32 ++ [7])
  /\ mem_of (go_kernel_Memset 64 (mk_go_kernel_world [] m32) 9 7 0) = Some m32.
Proof. vm_compute. repeat split. Qed.

(** 32 bytes need the test of index = 1, 2, 4, 8, 16, 32: six units of fuel; five are reported as GFuel, never a panic *)
Example memset_fuel_run :
  go_kernel_Memset 5 (mk_go_kernel_world [] m32) 0 7 32 = GFuel
  /\ mem_of (go_kernel_Memset 6 (mk_go_kernel_world [] m32) 0 7 32) = Some (repeat 7 32).
Proof. vm_compute. split; reflexivity. Qed.

(** a size that is negative as a Go int: the translation stops at the overlay; the model is undefined there *)
Example memset_huge_run :
  go_kernel_Memset 64 (mk_go_kernel_world [] m32) 0 7 (2 ^ 63) = GPanic /\ memset m32 0 7 (2 ^ 63) = MUndef
  /\ go_kernel_Memcopy (mk_go_kernel_world [] m32) 0 8 (2 ^ 63) = GPanic.
Proof. vm_compute. repeat split. Qed.

(** overlapping copies, forwards and backwards: the destination shows what the source showed before *)
Example memcopy_run :
  mem_of (go_kernel_Memcopy (mk_go_kernel_world [] m32) 4 8 10) = Some (firstn 8 m32 ++ firstn 10 (skipn 4 m32) ++ skipn 18 m32)
  /\ mem_of (go_kernel_Memcopy (mk_go_kernel_world [] m32) 8 4 10) = Some (firstn 4 m32 ++ firstn 10 (skipn 8 m32) ++ skipn 14 m32)
  /\ mem_of (go_kernel_Memcopy (mk_go_kernel_world [] m32) 8 4 0) = Some m32.
Proof. vm_compute. repeat split. Qed.

(** the seam: the boot state's root frame is reachable at pdtVirtualAddr; its bytes as 512 little-endian words *)
Example C06_memset_seam_is_memset_nonvacuous :
  let s := init_state 0x100 64 0 [] in
  resolve_page s vmm_pdtVirtualAddr = Some 0x100 /\ (100 + 4096 <= length (repeat 0x5B 4300))%nat
  /\ firstn 8 (skipn (511 * 8) (S.frame_bytes (mem s) 0x100)) = [3; 0; 0x10; 0; 0; 0; 0; 0].
Proof. split; [vm_compute; reflexivity|]. split; [rewrite repeat_length; lia | vm_compute; reflexivity]. Qed.
