(** C10 + C02 - the two translation ties that meet at multiboot.VisitMemRegions, composed.

    Props/C02_trans.v ties BootMemAllocator.AllocFrame (kernel/mm/pmm/bootmem_allocator.go) to its model by translation;
    AllocFrame CONSUMES VisitMemRegions: the call with its closure is translated as a visit of the closure over an extra
    parameter [regions] = "the sequence of entries the visitor presents", and that tie explicitly leaves the contract of
    VisitMemRegions to C10.  Props/C10_trans.v ties VisitMemRegions itself (it RECEIVES the visitor: each call is an event
    carrying the entry presented, the answer comes from an oracle).

    Here, for every well-formed information block, allocator state and kernel frame range: let the visitor answer as
    AllocFrame's closure does ([alloc_visitor]: state = the cursor lastAllocFrame, `true` = no frame found yet; [cont_of]
    turns such a stateful visitor into the call-number-indexed [cont] of the C10 theorems).  Then
    (1) the REGENERATED VisitMemRegions makes exactly the calls [visited cont 0 regs] - the block's region list [regs]
        (types normalised) in order, cut after the first entry in which the closure finds a frame - and never faults;
    (2) the REGENERATED AllocFrame run over exactly this sequence of presented entries returns the C02 model's
        [boot_alloc] over the WHOLE region list of the block (frame or errBootAllocOutOfMemory, new counter and cursor).
    Still assumed, as in both ties: the two seam conventions describe the same Go call (a closure invoked entry by entry
    = an oracle asked call by call), the visitor only reads the entry, and the closure's captured state is only touched
    by the closure.  Proofs in Multiboot/DecodeTransC02.v. *)
From Coq Require Import String NArith List Bool.
From FF Require Import Lib.Word Lib.GoOps Gen.Consts_multiboot Gen.Trans_multiboot Multiboot.Model Multiboot.Spec Multiboot.AfterVisit.
From FF Require Gen.Trans_pmm_boot Pmm.Boot Pmm.BootTrans Multiboot.DecodeTrans Multiboot.DecodeTransC02.
Module T := FF.Multiboot.DecodeTrans.
Module TC := FF.Multiboot.DecodeTransC02.
Module PB := FF.Pmm.Boot.
Module BT := FF.Pmm.BootTrans.
Import ListNotations.
Local Open Scope N_scope.

Theorem C10_C02_allocFrame_through_visitMemRegions :
  forall (l : layout) (mb : mbinfo) (ka kb ks ke : N) (st : PB.bstate) (t0 : list gcall) (fuel : nat),
    mbinfo_wf (l_saddr l) (l_strtab l) mb -> layout_wf l (encode mb) ->
    (find_fuel (mem_of l (encode mb)) <= fuel)%nat -> (S (length (expected_regions mb)) < fuel)%nat ->
    let regs := expected_regions mb in
    let cont := TC.cont_of (TC.alloc_visitor ks ke (PB.b_count st)) regs (PB.b_last st) in
    go_multiboot_VisitMemRegions T.mld T.mst fuel (T.mkw t0 (mem_of l (encode mb))) (l_info l)
        (T.vis_oracle cont (N.of_nat (length t0))) =
      GOk (T.mkw (rev (map T.ev_region (visited cont 0 regs)) ++ t0) (mem_of l (encode (after_visit cont mb))), tt) /\
    Trans_pmm_boot.go_pmm_BootMemAllocator_AllocFrame (BT.to_ga ka kb ks ke st) (map TC.gr_of (visited cont 0 regs)) =
      GOk (BT.to_ga ka kb ks ke (fst (PB.boot_alloc (map TC.br_of regs) ks ke st)),
           match snd (PB.boot_alloc (map TC.br_of regs) ks ke st) with
           | Some f => (f, None)
           | None => (Consts_mm_pmm.mm_InvalidFrame, Some "errBootAllocOutOfMemory"%string)
           end).
Proof. exact TC.allocFrame_through_visitMemRegions. Qed.
Print Assumptions C10_C02_allocFrame_through_visitMemRegions.

(** the answers of a stateful visitor walked through [regs], as a [cont]: call number [idx] is answered in the state
    reached after the first [idx] entries *)
Theorem C10_C02_cont_of_is_the_visitor :
  forall (St : Type) (f : region -> St -> St * bool) (p : list region) (r : region) (rest : list region) (s0 : St),
    TC.cont_of f (p ++ r :: rest) s0 (N.of_nat (length p)) r = snd (f r (TC.run_calls f p s0)).
Proof. exact (@TC.cont_of_at). Qed.
Print Assumptions C10_C02_cont_of_is_the_visitor.
