(** C19 — the parts of the console drivers that BUILD the geometry, tied to /repo by translation (statements only;
    proofs: Console/VesaTrans2.v).  gen/gotrans (configs console_vesa.json / console_vga.json, keys "ctor", "divmod",
    "probes" of gen/gotrans/ext_ctor.go) regenerates on every run, next to Write / Fill / Scroll:
      [go_console_NewVesaFbConsole], [go_console_VesaFbConsole_SetFont], [go_console_NewVgaTextConsole]  and, from
      the two DriverInit methods, the integer expressions that size the framebuffer: the size handed to mapRegionFn
      ([.._DriverInit_mapSize]) and the Len / Cap of the slice laid over the mapping ([.._fbLen], [.._fbCap]).
    [to_gs] / [to_gv] map the model's console and framebuffer to the translation's record (Console/VesaTrans.v,
    Console/VgaTrans.v); [no_fb] is the empty framebuffer a console has before DriverInit.
    Not translated: SetLogo (drawing + offsetY := l.Height, a one-line assignment modelled by [set_logo_height]),
    loadDefaultPalette, the rest of DriverInit (unsafe slice header, mapRegionFn itself), the probe functions. *)
From Coq Require Import NArith PArith String List.
From FF Require Import Lib.Word Lib.GoOps Lib.GoOpsFmt Gen.Consts_device_tty Gen.Consts_device_video_console.
From FF Require Import Gen.Trans_console_vesa Gen.Trans_console_vga.
From FF Require Import Console.Mem Console.Loop Console.Vga Console.VgaProofs Console.Vesa Console.VesaProofs.
From FF Require Console.VgaTrans Console.VesaTrans Console.VesaTrans2.
Module T := VesaTrans2.
Local Open Scope N_scope.

(** NewVesaFbConsole: for every width, height, pitch, physical address, every bpp (a uint8) and a nil or non-nil
    colorInfo, the record the regenerated constructor returns is the model's [new_vesa] - bpp, bytesPerPixel =
    uint32(bpp+1) >> 3 with the uint8 wrap of bpp+1, width, height, pitch, offsetY = 0, no font, a 0x0 grid, the
    default colours - with an empty palette and no framebuffer *)
Theorem C19_vesa_constructor_is_translation :
  forall w h bpp0 pitch0 (ci : bool) phys cinf p,
    bpp0 < 256 ->
    go_console_NewVesaFbConsole w h bpp0 pitch0 ci phys =
    set_f_VesaFbConsole_colorInfo (VesaTrans.to_gs (new_vesa w h bpp0 pitch0 cinf 0 p) phys T.no_fb) ci.
Proof. exact T.vesa_constructor_is_translation. Qed.
Print Assumptions C19_vesa_constructor_is_translation.

(** SetFont: for EVERY console, framebuffer and font (any glyph width / height, read through f as the two extra
    parameters) the regenerated SetFont returns the model's [set_font] - widthInChars = width / GlyphWidth,
    heightInChars = (height - offsetY) / GlyphHeight with the uint32 wrap of the subtraction, rounded DOWN - and panics
    (integer division by zero) exactly when the model does; with a nil font it changes nothing *)
Theorem C19_vesa_setFont_is_translation :
  forall c phys m f,
    go_console_VesaFbConsole_SetFont (VesaTrans.to_gs c phys m) true (f_gh f) (f_gw f) =
    match set_font c f with Some c' => GOk (VesaTrans.to_gs c' phys m, tt) | None => GPanic end.
Proof. exact T.vesa_setFont_is_translation. Qed.
Print Assumptions C19_vesa_setFont_is_translation.

Theorem C19_vesa_setFont_nil_is_translation :
  forall c phys m gh gw0,
    go_console_VesaFbConsole_SetFont (VesaTrans.to_gs c phys m) false gh gw0 = GOk (VesaTrans.to_gs c phys m, tt).
Proof. exact T.vesa_setFont_nil. Qed.
Print Assumptions C19_vesa_setFont_nil_is_translation.

(** the two composed: the console of C19_vesa_constructed (no logo) is what the regenerated code builds *)
Theorem C19_vesa_construct_setFont_is_translation :
  forall w h bpp0 pitch0 phys cinf p f,
    bpp0 < 256 ->
    go_console_VesaFbConsole_SetFont (go_console_NewVesaFbConsole w h bpp0 pitch0 true phys) true (f_gh f) (f_gw f) =
    match set_font (new_vesa w h bpp0 pitch0 cinf 0 p) f with
    | Some c' => GOk (VesaTrans.to_gs c' phys T.no_fb, tt) | None => GPanic end.
Proof. exact T.vesa_construct_setFont. Qed.
Print Assumptions C19_vesa_construct_setFont_is_translation.

(** DriverInit (framebuffer console): the size handed to mapRegionFn and the Len and Cap of the slice over the
    mapping are all [vesa_map_size c] = the uint32 product height * pitch (NOT width * height * bytesPerPixel: the
    padding of every row is inside), for every console *)
Theorem C19_vesa_driverInit_size_is_translation :
  forall c phys m,
    go_console_VesaFbConsole_DriverInit_mapSize (VesaTrans.to_gs c phys m) = T.vesa_map_size c /\
    go_console_VesaFbConsole_DriverInit_fbLen (VesaTrans.to_gs c phys m) = T.vesa_map_size c /\
    go_console_VesaFbConsole_DriverInit_fbCap (VesaTrans.to_gs c phys m) = T.vesa_map_size c.
Proof. exact T.vesa_driverInit_sizes. Qed.
Print Assumptions C19_vesa_driverInit_size_is_translation.

(** ... which is the framebuffer length every C19 theorem assumes ([vesa_wf]: flen m = ph c * pitch c) whenever
    height * pitch fits 32 bits ([vesa_wf]'s own size condition); beyond that the mapping is too short *)
Theorem C19_vesa_driverInit_establishes_flen :
  forall c phys m m',
    ph c * pitch c < two32 ->
    flen m' = go_console_VesaFbConsole_DriverInit_fbLen (VesaTrans.to_gs c phys m) -> flen m' = ph c * pitch c.
Proof. exact T.vesa_driverInit_establishes_flen. Qed.
Print Assumptions C19_vesa_driverInit_establishes_flen.

Theorem C19_vesa_map_size_wraps :
  forall c, two32 <= ph c * pitch c -> T.vesa_map_size c < ph c * pitch c.
Proof. exact T.vesa_map_size_wraps. Qed.
Print Assumptions C19_vesa_map_size_wraps.

(** NewVgaTextConsole: columns, rows, the address, the 16-entry palette, default colours, clear character *)
Theorem C19_vga_constructor_is_translation :
  forall cols rows phys,
    go_console_NewVgaTextConsole cols rows phys = VgaTrans.to_gv (mkVga cols rows) phys T.no_fb.
Proof. exact T.vga_constructor_is_translation. Qed.
Print Assumptions C19_vga_constructor_is_translation.

(** DriverInit (text console): width * height * 2 bytes (uint32) are mapped, the slice has half as many cells *)
Theorem C19_vga_driverInit_size_is_translation :
  forall c phys m,
    go_console_VgaTextConsole_DriverInit_mapSize (VgaTrans.to_gv c phys m) = T.vga_map_size c /\
    go_console_VgaTextConsole_DriverInit_fbLen (VgaTrans.to_gv c phys m) = T.vga_fb_cells c /\
    go_console_VgaTextConsole_DriverInit_fbCap (VgaTrans.to_gv c phys m) = T.vga_fb_cells c.
Proof. exact T.vga_driverInit_sizes. Qed.
Print Assumptions C19_vga_driverInit_size_is_translation.

(** ... and a framebuffer of that length satisfies [vga_wf] (what every C19_vga theorem assumes) when the BYTE size
    fits 32 bits *)
Theorem C19_vga_driverInit_establishes_wf :
  forall c phys m m',
    1 <= vw c -> 1 <= vh c -> vw c * vh c * 2 < two32 ->
    flen m' = go_console_VgaTextConsole_DriverInit_fbLen (VgaTrans.to_gv c phys m) -> vga_wf c m'.
Proof. exact T.vga_driverInit_establishes_wf. Qed.
Print Assumptions C19_vga_driverInit_establishes_wf.

(** observation: [vga_wf] itself only asks for width * height < 2^32; from 2^31 cells on the byte size wraps and
    DriverInit's slice is shorter than [vga_wf] assumes (65536 x 32768: 0 cells).  No such text mode exists. *)
Theorem C19_vga_wf_not_established_beyond_2_31 :
  exists c, vw c * vh c < two32 /\ 1 <= vw c /\ 1 <= vh c /\ T.vga_fb_cells c < vw c * vh c.
Proof. exact T.vga_fb_cells_short. Qed.
Print Assumptions C19_vga_wf_not_established_beyond_2_31.
