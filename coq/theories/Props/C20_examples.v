(** Non-vacuity and concrete runs for the C20 theorems. *)
From Coq Require Import NArith List Sorted Lia Permutation.
From FF Require Import Gen.Consts_kbuild Kbuild.Model Kbuild.Proofs Kbuild.Baseline Kbuild.BaselineProofs.
Import ListNotations.
Local Open Scope N_scope.

(* "//go:redirect-from runtime.a " , "// doc", "//go:redirect-from\tb", "//go:nosplit" *)
Definition ann (sym : text) : text := kbuild_redirectComment ++ 32 :: sym ++ [32].
Definition doc_line : text := [47; 47; 32; 100].
Definition nosplit : text := [47; 47; 103; 111; 58; 110; 111; 115; 112; 108; 105; 116].

Definition f_go : text := [102; 46; 103; 111].                       (* f.go *)
Definition f_test_go : text := [102; 95; 116; 101; 115; 116; 46; 103; 111].  (* f_test.go *)
Definition readme : text := [82; 69].

Definition ex_tree : tree :=
  [ mkFile [] f_go
      [ mkDecl KFunc [70] [doc_line; ann [97]; nosplit; ann [98]] [ann [120]] 0;      (* F: two annotations; one look-alike in the body *)
        mkDecl KVar [86] [ann [99]] [] 1;                                              (* var V with a look-alike *)
        mkDecl KFunc [71] [ann [100]] [] 1 ];                                          (* G *)
    mkFile [[109]] f_test_go [ mkDecl KFunc [84] [ann [101]] [] 0 ];                   (* m/f_test.go *)
    mkFile [[109]] readme [ mkDecl KFunc [84] [ann [101]] [] 0 ];
    mkFile [[109]; [110]] f_go [ mkDecl KFunc [72] [ann [102]] [] 0 ] ].               (* m/n/f.go: H *)

Example C20_run_example :
  find_redirects ex_tree =
    [ ([97], kbuild_pkgPrefix ++ [46; 70]); ([98], kbuild_pkgPrefix ++ [46; 70]);
      ([100], kbuild_pkgPrefix ++ [46; 71]);
      ([102], kbuild_pkgPrefix ++ [47; 109; 47; 110; 46; 72]) ].
Proof. vm_compute. reflexivity. Qed.

(** the right-hand side of C20_complete_sound is inhabited (and so is the left) *)
Example C20_complete_sound_nonvacuous :
  exists f d line,
    In f ex_tree /\ is_source (f_name f) = true /\ In d (f_decls f) /\ d_kind d = KFunc /\
    In line (d_doc d) /\ has_prefix kbuild_redirectComment line = true /\
    trim_space (skipn (length kbuild_redirectComment) line) = [98].
Proof.
  exists (nth 0 ex_tree (mkFile [] [] [])), (mkDecl KFunc [70] [doc_line; ann [97]; nosplit; ann [98]] [ann [120]] 0), (ann [98]).
  repeat split; try reflexivity; cbn; auto 10.
Qed.

(** sites of the example: three in file 0 (two on declaration 0), one in file 3 *)
Example C20_sites_example :
  map fst (sites ex_tree) = [(0, 0, 1); (0, 0, 3); (0, 2, 0); (3, 0, 0)]%nat.
Proof. vm_compute. reflexivity. Qed.

Example C20_is_site_nonvacuous : is_site ex_tree (0, 0, 3)%nat ([98], kbuild_pkgPrefix ++ [46; 70]).
Proof. apply in_sites. vm_compute. auto. Qed.

Example C20_count_example : count_tree ex_tree = 4%nat.
Proof. vm_compute. reflexivity. Qed.

Example C20_strip_example : length (strip_tree ex_tree) = 2%nat /\ strip_tree ex_tree <> ex_tree.
Proof. split; [vm_compute; reflexivity | discriminate]. Qed.

Example C20_several_annotations_nonvacuous :
  d_kind (mkDecl KFunc [70] [doc_line; ann [97]; nosplit; ann [98]] [] 0) = KFunc.
Proof. reflexivity. Qed.

Example C20_source_files_examples :
  is_source f_go = true /\ is_source f_test_go = false /\ is_source readme = false /\
  is_source suffix_test = false /\ is_source ext_go = true.
Proof. vm_compute. auto. Qed.

Example C20_trim_space_example : trim_space [32; 9; 97; 32; 98; 13; 10] = [97; 32; 98].
Proof. vm_compute. reflexivity. Qed.

Example C20_has_prefix_example :
  has_prefix kbuild_redirectComment (ann [97]) = true /\ has_prefix kbuild_redirectComment nosplit = false.
Proof. vm_compute. auto. Qed.

(** a permuting sigma other than the identity exists (hypothesis of C20_baseline_content) *)
Example C20_baseline_content_nonvacuous :
  (forall ds : list decl, Permutation (rev ds) ds) /\
  find_redirects_baseline (@rev decl) two_funcs = rev (find_redirects two_funcs) /\
  length (find_redirects two_funcs) = 2%nat.
Proof. split; [intros ds; apply Permutation_sym, Permutation_rev|]. vm_compute. auto. Qed.
