(** C15 — kernel/kfmt/fmt.go tied to the hand-written model BY TRANSLATION (statements only; proofs: Kfmt/FmtTrans.v).

    gen/gotrans (config gen/gotrans/kfmt_fmt.json, extension gen/gotrans/ext_fmt.go) regenerates
    Gen/Trans_kfmt_fmt.v from fmt.go on every run: [go_kfmt_fmtRepeat], [go_kfmt_fmtBool], [go_kfmt_fmtString],
    [go_kfmt_fmtInt] and [go_kfmt_Fprintf] (proofs for the latter: Kfmt/FmtTransScan.v).
    There the package-level buffers numFmtBuf / singleByte are fields of [go_kfmt_world], an interface{} value is a
    [gany] (Lib/GoOpsFmt.v), Go's int / int64 are two's complement representatives in [0, 2^64) ([sz] reads them as
    integers), [w : bool] says whether the io.Writer is non-nil, and every call doWrite(w, p) is the event
    [GCall "doWrite" [GNum (gref w); GBytes p]] pushed on the world's trace ([pushed w chunks trace]; [trace_bytes] is
    the concatenation of the byte slices in call order).  doWrite's 7-line body (doRealWrite / noEscape, unsafe) is
    below this seam: covered by the correspondence test and the allocation measurement of the check only.

    The theorems: for every input in their quantifier the model's function ([Kfmt.Fmt], what Props/C15.v is about)
    returns [Ok], and the regenerated function - with the stated fuel - returns [GOk] (no run-time panic, fuel
    suffices), has made exactly the model's Write calls, in order, and leaves the model's numFmtBuf.
    (Audit note: that last sentence is what the four helper theorems state.  The two Fprintf theorems state LESS: the
    final trace [tr'] and numFmtBuf [buf'] are existentially quantified and only [trace_bytes tr'] - the concatenation
    of the byte slices of the events, which forgets the event name, the writer argument and how the bytes are split
    into Write calls - is tied to the model's output.  The proof (Kfmt/FmtTransScan.v) does establish
    tr' = pushed w cs tr and buf' = the model's buffer; the statement does not expose it.  Side conditions of the
    Fprintf theorems: len(format), len(args) and every string argument shorter than 2^62 (2^63 for the strings of
    C15_fprintf_is_translation), integer arguments within their type, numFmtBuf of its declared length, fuel above
    len(format) + len(args) + len(output) + 34.) *)
From Coq Require Import NArith ZArith String List.
From FF Require Import Lib.Word Lib.GoOps Lib.GoOpsFmt Gen.Consts_kfmt Gen.Trans_kfmt_fmt Kfmt.Fmt Kfmt.FmtSpec Kfmt.FmtTrans Kfmt.FmtTransScan.
Import ListNotations.
Local Open Scope N_scope.

(** fmtInt: EVERY value of every dynamic type (integers anywhere in the range of their type, and the non-integer
    types, which print the wrong-type marker), base 8 / 10 / 16, EVERY padLen (any 64-bit int: negative, or far beyond
    maxBufSize), any previous contents of the 33-byte numFmtBuf, any writer, fuel >= 34. *)
Theorem C15_fmtInt_is_translation :
  forall (fuel : nat) (w : bool) (tr : list gcall) (buf sb : list N) (g : gany) (base pad : N),
    length buf = N.to_nat kfmt_numFmtBufLen -> gany_wf g -> base = 8 \/ base = 10 \/ base = 16 -> pad < 2 ^ 64 ->
    (34 <= fuel)%nat ->
    exists cs buf',
      fmt_int buf (of_gany g) (Z.of_N base) (sz pad) = Ok (cs, buf') /\
      go_kfmt_fmtInt fuel (mk_go_kfmt_world tr buf sb) w g base pad
        = GOk (mk_go_kfmt_world (pushed w cs tr) buf' sb, tt) /\
      trace_bytes (pushed w cs tr) = trace_bytes tr ++ List.concat cs /\
      length buf' = N.to_nat kfmt_numFmtBufLen.
Proof. exact fmtInt_trans_full. Qed.
Print Assumptions C15_fmtInt_is_translation.

(** a base other than 8 / 10 / 16 leaves [divider] = 0; the first [uval % divider] is a division-by-zero panic in
    the translation and in the model alike (no caller passes such a base) *)
Theorem C15_fmtInt_bad_base_panics :
  forall (fuel : nat) (w : bool) (tr : list gcall) (buf sb : list N) (n pad : N),
    (1 <= fuel)%nat -> length buf = N.to_nat kfmt_numFmtBufLen ->
    go_kfmt_fmtInt fuel (mk_go_kfmt_world tr buf sb) w (GAU8 n) 7 pad = GPanic /\
    fmt_int buf (AInt U8 (Z.of_N n)) 7 (sz pad) = Panic DivZero.
Proof. exact fmtInt_bad_base_panics. Qed.
Print Assumptions C15_fmtInt_bad_base_panics.

(** fmtString: every dynamic type; a string / byte slice of any length Go can have, every padLen (the padding
    count padLen - len(s) wraps at 64 bits as in Go), fuel above len(s) and above the padding count *)
Theorem C15_fmtString_is_translation :
  forall (fuel : nat) (w : bool) (tr : list gcall) (buf : list N) (x : N) (g : gany) (pad : N),
    pad < 2 ^ 64 ->
    match g with
    | GAStr s | GABytes s =>
        glen s < 9223372036854775808 /\ (length s < fuel)%nat /\
        (Z.to_nat (wrap_int (sz pad - Z.of_nat (length s))) < fuel)%nat
    | _ => True
    end ->
    exists cs y,
      fmt_string (of_gany g) (sz pad) = Ok cs /\
      go_kfmt_fmtString fuel (mk_go_kfmt_world tr buf [x]) w g pad
        = GOk (mk_go_kfmt_world (pushed w cs tr) buf [y], tt) /\
      trace_bytes (pushed w cs tr) = trace_bytes tr ++ List.concat cs.
Proof. exact fmtString_trans_full. Qed.
Print Assumptions C15_fmtString_is_translation.

(** fmtBool: every dynamic type, no precondition at all *)
Theorem C15_fmtBool_is_translation :
  forall (w : bool) (tr : list gcall) (buf sb : list N) (g : gany),
    go_kfmt_fmtBool (mk_go_kfmt_world tr buf sb) w g
      = GOk (mk_go_kfmt_world (pushed w (fmt_bool (of_gany g)) tr) buf sb, tt) /\
    trace_bytes (pushed w (fmt_bool (of_gany g)) tr) = trace_bytes tr ++ List.concat (fmt_bool (of_gany g)).
Proof. exact fmtBool_trans_full. Qed.
Print Assumptions C15_fmtBool_is_translation.

(** fmtRepeat: every byte, every count (a negative count writes nothing), fuel above the count *)
Theorem C15_fmtRepeat_is_translation :
  forall (fuel : nat) (w : bool) (tr : list gcall) (buf : list N) (x ch cnt : N),
    cnt < 2 ^ 64 -> (Z.to_nat (sz cnt) < fuel)%nat ->
    fmt_repeat ch (sz cnt) = Ok (repeat [ch] (Z.to_nat (sz cnt))) /\
    go_kfmt_fmtRepeat fuel (mk_go_kfmt_world tr buf [x]) w ch cnt
      = GOk (mk_go_kfmt_world (pushed w (repeat [ch] (Z.to_nat (sz cnt))) tr) buf [ch], tt).
Proof. exact fmtRepeat_trans_full. Qed.
Print Assumptions C15_fmtRepeat_is_translation.

(** Fprintf: EVERY format string (any bytes: unknown verbs, a trailing '%', digit runs that wrap the 64-bit int) and
    EVERY argument list (values of [gany] within the range of their type, strings / byte slices of a length Go can
    have; too short, too long, mistyped), any contents of numFmtBuf, any singleByte, any writer [w]: the model's
    [fprintf] (the function of C15_fprintf_exact / C15_fprintf_never_panics) returns [Ok (cs, buf')] - [cs] the list of
    its Write calls - and with fuel above  len(format) + len(args) + len(bytes of cs) + 34  (the scanner makes at most
    len(format)+1 steps per loop, every padding / string step writes a byte, fmtInt needs 34) the regenerated Fprintf
    returns [GOk] - no run-time panic, no index out of range on format / args / numFmtBuf / singleByte, fuel
    suffices - and its world is EXACTLY: the old trace with the model's Write calls pushed on it in order, each as
    one doWrite event on THAT writer [w] with that chunk ([pushed w cs tr]: same event name, same writer, same
    chunking), numFmtBuf = the model's final buffer [buf'], singleByte holding one byte. *)
Theorem C15_fprintf_is_translation :
  forall (w : bool) (tr : list gcall) (buf : list N) (x : N) (fmt : list N) (gargs : list gany),
    length buf = N.to_nat kfmt_numFmtBufLen ->
    N.of_nat (length fmt) < 4611686018427387904 -> N.of_nat (length gargs) < 4611686018427387904 ->
    Forall gany_wf gargs -> Forall str_ok gargs ->
    exists cs buf',
      fprintf fmt (map of_gany gargs) buf = Ok (cs, buf') /\
      forall FU, (length fmt + length gargs + length (List.concat cs) + 34 < FU)%nat ->
        exists y,
          go_kfmt_Fprintf FU (mk_go_kfmt_world tr buf [x]) w fmt gargs
            = GOk (mk_go_kfmt_world (pushed w cs tr) buf' [y], tt).
Proof. exact fprintf_is_translation. Qed.
Print Assumptions C15_fprintf_is_translation.

(** the bytes-only corollary (weaker: it forgets the writer, the event names and the chunking): the concatenation of
    the bytes of the doWrite events, in call order, is the model's output [written (fprintf ..)] *)
Theorem C15_fprintf_translation_bytes :
  forall (w : bool) (tr : list gcall) (buf : list N) (x : N) (fmt : list N) (gargs : list gany),
    length buf = N.to_nat kfmt_numFmtBufLen ->
    N.of_nat (length fmt) < 4611686018427387904 -> N.of_nat (length gargs) < 4611686018427387904 ->
    Forall gany_wf gargs -> Forall str_ok gargs ->
    exists out,
      written (fprintf fmt (map of_gany gargs) buf) = Ok out /\
      forall FU, (length fmt + length gargs + length out + 34 < FU)%nat ->
        exists tr' buf' y,
          go_kfmt_Fprintf FU (mk_go_kfmt_world tr buf [x]) w fmt gargs = GOk (mk_go_kfmt_world tr' buf' [y], tt) /\
          trace_bytes tr' = trace_bytes tr ++ out.
Proof. exact fprintf_translation_bytes. Qed.
Print Assumptions C15_fprintf_translation_bytes.

(** ... composed with C15_fprintf_exact: for every WELL-FORMED format (the property's quantifier) the Write calls
    [cs] the regenerated Fprintf makes on [w] (exactly the model's, as above) carry exactly the specification's
    [render], and numFmtBuf ends as the model's buffer *)
Theorem C15_fprintf_translation_renders :
  forall (w : bool) (tr : list gcall) (buf : list N) (x : N) (ps : list piece) (gargs : list gany),
    length buf = N.to_nat kfmt_numFmtBufLen ->
    N.of_nat (length (encode ps)) < 4611686018427387904 -> N.of_nat (length gargs) < 4611686018427387904 ->
    Forall piece_wf ps -> Forall gany_wf gargs ->
    Forall (fun g => match g with GAStr s | GABytes s => glen s < 4611686018427387904 | _ => True end) gargs ->
    exists cs buf',
      fprintf (encode ps) (map of_gany gargs) buf = Ok (cs, buf') /\
      List.concat cs = render ps (map of_gany gargs) /\
      forall FU, (length (encode ps) + length gargs + length (render ps (map of_gany gargs)) + 34 < FU)%nat ->
        exists y,
          go_kfmt_Fprintf FU (mk_go_kfmt_world tr buf [x]) w (encode ps) gargs
            = GOk (mk_go_kfmt_world (pushed w cs tr) buf' [y], tt).
Proof. exact fprintf_trans_render. Qed.
Print Assumptions C15_fprintf_translation_renders.
