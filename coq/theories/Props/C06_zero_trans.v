(** C06 - tie of reserveZeroedFrame (kernel/mm/vmm/vmm.go) to the source BY TRANSLATION.

    Gen/Trans_vmm_zero.v is regenerated on every run by gen/gotrans in its "memory as state" mode (config
    gen/gotrans/vmm_zero.json).  The package variables ReservedZeroedFrame and protectReservedZeroedPage are the fields
    [zf] and [prot] of the model's state: the tuple assignment `ReservedZeroedFrame, err = mm.AllocFrame()` and
    `protectReservedZeroedPage = true` apply the model's setters.  Seams and their oracles: mm.AllocFrame = the model's
    allocator oracle (on failure it hands back mm.InvalidFrame with its error, [Z.o_alloc_inv]); mapTemporaryFn /
    unmapFn = the model's [map_temporary] / [unmap_page]; kernel.Memset of a page = the model's page-zeroing step.
    The theorem: for EVERY state the regenerated function ends in the model's state (zero frame recorded, frame cleared
    through the temporary page, guard armed exactly on success) with the model's error, after exactly the listed seam
    calls; a stray access of the model is a panic.  No hypotheses.
    Statements only; the proof is in Vmm/ZeroTrans.v. *)
From Coq Require Import NArith String List Bool.
From FF Require Import Lib.Word Lib.GoOps Gen.Consts_mm_vmm Gen.Trans_vmm_zero Vmm.Pt.
From FF Require Vmm.ZeroTrans Vmm.PdtTrans.
Module Z := FF.Vmm.ZeroTrans.
Module T := FF.Vmm.PdtTrans.
Import ListNotations.
Local Open Scope N_scope.

Theorem C06_reserve_zeroed_is_translation :
  forall (s : st) (tr0 : list gcall),
    go_vmm_reserveZeroedFrame (mk_go_vmm_world tr0 s) T.o_memset T.o_maptemp Z.o_alloc_inv T.o_unmap =
    match reserve_zeroed s with
    | Stray => GPanic
    | Ok (s', e) =>
        GOk (mk_go_vmm_world
               (match alloc s with
                | (_, None) => Z.ev_alloc :: tr0
                | (_, Some f) =>
                    if e =? 0
                    then T.ev_unmap temp_page :: T.ev_memset (frame_addr temp_page) :: T.ev_maptemp f :: Z.ev_alloc :: tr0
                    else T.ev_maptemp f :: Z.ev_alloc :: tr0
                end) s',
             T.err_of e)
    end.
Proof. exact Z.reserve_zeroed_is_translation. Qed.
Print Assumptions C06_reserve_zeroed_is_translation.
