(** Non-vacuity of the translation tie of tty.VT (second part of Props/C17_trans.v): the hypotheses of the
    theorems ([vt_pre], tabWidth a uint8, "attached or inactive", the viewport below 2^32 - 1, the
    fuel bounds) are met by the states the kernel reaches - NewVT(DefaultTabWidth, DefaultScrollback)
    attached to an 80x25 console, and that terminal after a history that scrolls its buffer - and
    concrete runs of the TRANSLATION of every method on a small console agree with the model
    (with a fuel of 100: no fuel exhaustion, no panic; and a panic where Go panics). *)
From Coq Require Import NArith String List Bool Lia.
From FF Require Import Lib.Word Lib.GoOps Gen.Consts_device_tty Tty.Vt Props.C17_trans.
From FF Require Gen.Trans_tty_vt_full Tty.VtFullTrans.
Import ListNotations.
Local Open Scope N_scope.

(** ---- the kernel's terminal: 80x25, default scrollback and tab width ---- *)
Definition kernel_vt : outcome vt := attach (new_vt tty_DefaultTabWidth tty_DefaultScrollback) 80 25 7 0.

Lemma attach_fields v w h fg bg v' :
  attach v w h fg bg = Ok v' -> attached v' = true /\ vw v' = w /\ vh v' = h.
Proof.
  unfold attach. destruct (_ mod 3 =? 0); [|discriminate]. intros E. injection E as <-. repeat split.
Qed.

Example C17_trans_pre_kernel_nonvacuous :
  exists v0, kernel_vt = Ok v0 /\ T.vt_pre v0 /\ tabw v0 < 256 /\ attached v0 = true /\
             vw v0 = 80 /\ vh v0 = 25 /\ T.vt_fuel v0 = 2 ^ 32 * 240 + 256.
Proof.
  destruct kernel_vt as [v0|] eqn:E; [|vm_compute in E; discriminate].
  exists v0. split; [reflexivity|].
  destruct C17_vt_trans_pre_kept as (_ & _ & _ & K).
  destruct (K _ _ _ _ _ _ E ltac:(vm_compute; reflexivity)) as (P & Tb).
  destruct (attach_fields _ _ _ _ _ _ E) as (A & W & H).
  split; [exact P|]. split; [rewrite Tb; vm_compute; reflexivity|]. split; [exact A|]. split; [exact W|]. split; [exact H|].
  unfold T.vt_fuel, T.stride_of. rewrite W. reflexivity.
Qed.

(** the theorems for Write and SetState instantiated at that state: every hypothesis is discharged *)
Example C17_trans_write_kernel (bs : list N) (fuel : nat) :
  (N.to_nat (2 ^ 32 * 240 + 256) < fuel)%nat -> (length bs < fuel)%nat ->
  exists v0, kernel_vt = Ok v0 /\
    F.go_tty_VT_Write fuel (T.to_gof v0) bs =
    match write v0 bs 0 with
    | Ok (v', n, e) => GOk (T.to_gof v', (n, if e =? 0 then None else Some "io.ErrClosedPipe"%string))
    | PanicOOB => GPanic
    end.
Proof.
  intros Hf Hl. destruct C17_trans_pre_kernel_nonvacuous as (v0 & E & P & Tb & _ & _ & _ & Fu).
  exists v0. split; [exact E|]. apply C17_vt_write_is_translation; try assumption. rewrite Fu. exact Hf.
Qed.

Example C17_trans_setState_kernel (s : N) (fuel : nat) :
  (82 < fuel)%nat ->
  exists v0, kernel_vt = Ok v0 /\
    F.go_tty_VT_SetState fuel (T.to_gof v0) s =
    match set_state v0 s with Ok v' => GOk (T.to_gof v', tt) | PanicOOB => GPanic end.
Proof.
  intros Hf. destruct C17_trans_pre_kernel_nonvacuous as (v0 & E & _ & _ & _ & W1 & W2 & _).
  exists v0. split; [exact E|].
  apply C17_vt_setState_is_translation; rewrite ?W1, ?W2; unfold two32; lia.
Qed.

(** ... and after a history that scrolls the buffer: activation, 108 line feeds (the terminal holds
    25 + 80 lines: the last four scroll the buffer), some text with a tab and a backspace.  The preconditions still hold (computed on the
    model's state, and also by [C17_vt_trans_pre_kept]). *)
Definition scroll_history : list op :=
  [OSetState 1; OWrite (repeat 10 108); OWrite [97; 9; 98; 8; 13; 99]].

Example C17_trans_pre_after_scroll_nonvacuous :
  match kernel_vt with
  | Ok v0 =>
      match run_ops v0 scroll_history with
      | Ok v => T.vt_pre v /\ tabw v < 256 /\ (attached v = true \/ active v = false) /\ vy v = 80 /\
                T.vt_fuel v = 2 ^ 32 * 240 + 256
      | PanicOOB => False
      end
  | PanicOOB => False
  end.
Proof.
  vm_compute. repeat split; try reflexivity. left. reflexivity.
Qed.

(** ---- concrete runs of the translation: 3x2 console, one line of scrollback, tab width 2 ---- *)
Definition small0 : outcome vt := attach (new_vt 2 1) 3 2 7 0.
(** active, "ab\n\n" written: the viewport has moved into the scrollback; the next line feed scrolls the buffer *)
Definition small_hist : list op := [OSetState 1; OWrite [97; 98; 10; 10]].

Definition on_small {A} (f : vt -> A) (d : A) : A :=
  match small0 with
  | Ok v0 => match run_ops v0 small_hist with Ok v => f (set_trace v []) | PanicOOB => d end
  | PanicOOB => d
  end.

Definition same_unit (r : gres (F.go_tty_VT * unit)) (o : outcome vt) : Prop :=
  match o with Ok v' => r = GOk (T.to_gof v', tt) | PanicOOB => False end.

Example C17_trans_run_loopfree :
  on_small (fun v =>
    F.go_tty_VT_State (T.to_gof v) = GOk (T.to_gof v, 1) /\
    F.go_tty_VT_CursorPosition (T.to_gof v) = GOk (T.to_gof v, (1, 2)) /\
    F.go_tty_VT_updateDataOffset (T.to_gof v) = GOk (T.to_gof (update_data_offset v), tt) /\
    F.go_tty_VT_cr (T.to_gof v) = GOk (T.to_gof (cr v), tt) /\
    F.go_tty_VT_SetCursorPosition (T.to_gof v) 9 0 = GOk (T.to_gof (set_cursor_position v 9 0), tt)) False.
Proof. vm_compute. repeat split; reflexivity. Qed.

(** lf at the bottom of the buffer: both scroll loops run, the console is told to scroll and to clear the line *)
Example C17_trans_run_lf :
  on_small (fun v => same_unit (F.go_tty_VT_lf 100 (T.to_gof v) true) (lf v true) /\
                     match lf v true with Ok v' => length (trace v') = 2%nat /\ vy v' = 1 | PanicOOB => False end) False.
Proof. vm_compute. repeat split; reflexivity. Qed.

Example C17_trans_run_doWrite :
  on_small (fun v => same_unit (F.go_tty_VT_doWrite 100 (T.to_gof v) 120 true) (do_write v 120 true) /\
                     same_unit (F.go_tty_VT_doWrite 100 (T.to_gof v) 120 false) (do_write v 120 false)) False.
Proof. vm_compute. split; reflexivity. Qed.

(** WriteByte: carriage return, line feed, backspace, tab (two blanks), an ordinary byte; and on a detached terminal *)
Example C17_trans_run_writeByte :
  on_small (fun v => forall b, In b [13; 10; 8; 9; 65] ->
     match write_byte v b with
     | Ok (v', e) => F.go_tty_VT_WriteByte 100 (T.to_gof v) b = GOk (T.to_gof v', None) /\ e = 0
     | PanicOOB => False
     end) False /\
  F.go_tty_VT_WriteByte 100 (T.to_gof (new_vt 4 0)) 65 = GOk (T.to_gof (new_vt 4 0), Some "io.ErrClosedPipe"%string).
Proof.
  split; [|vm_compute; reflexivity].
  vm_compute. intros b [<-|[<-|[<-|[<-|[<-|[]]]]]]; split; reflexivity.
Qed.

(** Write: seven bytes wrapping over three lines, scrolling twice: (7, nil) *)
Example C17_trans_run_write :
  on_small (fun v =>
     match write v [120; 121; 122; 119; 9; 10; 113] 0 with
     | Ok (v', n, e) => F.go_tty_VT_Write 100 (T.to_gof v) [120; 121; 122; 119; 9; 10; 113] = GOk (T.to_gof v', (7, None)) /\
                        n = 7 /\ e = 0
     | PanicOOB => False
     end) False.
Proof. vm_compute. repeat split; reflexivity. Qed.

(** SetState: deactivation is silent, re-activation redraws the 3x2 viewport (six console writes) *)
Example C17_trans_run_setState :
  on_small (fun v =>
     match set_state v 0 with
     | Ok v1 => F.go_tty_VT_SetState 100 (T.to_gof v) 0 = GOk (T.to_gof v1, tt) /\ trace v1 = [] /\
                match set_state v1 1 with
                | Ok v2 => F.go_tty_VT_SetState 100 (T.to_gof v1) 1 = GOk (T.to_gof v2, tt) /\ length (trace v2) = 6%nat
                | PanicOOB => False
                end
     | PanicOOB => False
     end) False.
Proof. vm_compute. repeat split; reflexivity. Qed.

(** AttachTo: NewVT(2, 1) on a 3x2 console: 27 bytes of blank cells; with one unit of fuel too few for the
    fill loop (9 cells and the final test) the translation reports GFuel, not a panic *)
Example C17_trans_run_attachTo :
  same_unit (F.go_tty_VT_AttachTo 10 (T.to_gof (new_vt 2 1)) true 7 0 3 2) small0 /\
  F.go_tty_VT_AttachTo 9 (T.to_gof (new_vt 2 1)) true 7 0 3 2 = GFuel /\
  F.go_tty_VT_AttachTo 0 (T.to_gof (new_vt 2 1)) false 7 0 3 2 = GOk (T.to_gof (new_vt 2 1), tt).
Proof. vm_compute. repeat split; reflexivity. Qed.

(** a Go panic is reported as GPanic: a write at a data offset beyond the buffer (SetCursorPosition cannot
    produce it; the record is built by hand), and a console call through a nil console on an active terminal *)
Example C17_trans_run_panic :
  on_small (fun v => F.go_tty_VT_doWrite 100 (T.to_gof (set_doff v 27)) 65 false = GPanic /\
                     do_write (set_doff v 27) 65 false = PanicOOB) False /\
  F.go_tty_VT_doWrite 100 (T.to_gof (set_st (new_vt 4 0) 1)) 65 false = GPanic.
Proof. split; vm_compute; [split|]; reflexivity. Qed.
