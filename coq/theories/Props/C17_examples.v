(** Non-vacuity of the C17 theorems: geometries and histories satisfying their hypotheses (1x1 with
    no scrollback, 1-column, the kernel's 80x25 with the default scrollback and tab width), and
    concrete runs of the model and of the reference terminal. *)
From Coq Require Import NArith List Lia.
From FF Require Import Lib.Word Gen.Consts_device_tty Tty.Vt Tty.VtSpec Tty.VtProofs Props.C17.
Import ListNotations.
Local Open Scope N_scope.

Definition ex_ops : list op :=
  [OSetState 1; OWrite [97; 98; 13; 88; 10; 9; 113; 8]; OSetCursor 0 9; OWriteByte 10; OWrite [10; 122];
   OSetCursor 0xffffffff 0x80000000; OSetState 0; OSetState 255].

Example C17_ops_nonvacuous : Forall op_wf ex_ops.
Proof. repeat constructor; cbn; lia. Qed.

(** 1x1 console, no scrollback, tab width 0 *)
Example C17_geometry_1x1_nonvacuous : 1 <= 1 /\ 1 <= 1 /\ 0 <= 255 /\ 1 * (1 + 0) * 3 < two32.
Proof. unfold two32. lia. Qed.

(** the kernel's configuration: 80x25, DefaultScrollback, DefaultTabWidth *)
Example C17_geometry_kernel_nonvacuous :
  1 <= 80 /\ 1 <= 25 /\ tty_DefaultTabWidth <= 255 /\ 80 * (25 + tty_DefaultScrollback) * 3 < two32.
Proof. unfold two32, tty_DefaultTabWidth, tty_DefaultScrollback. lia. Qed.

(** the theorems instantiated: 1x1 / scrollback 0, and 1 column x 3 lines *)
Example C17_refines_1x1 :
  exists v0 v, attach (new_vt 0 0) 1 1 7 0 = Ok v0 /\ run_ops v0 ex_ops = Ok v /\
               abs v = ref_run 1 1 0 0 7 0 ex_ops.
Proof. apply C17_vt_refines; try (unfold two32; lia). exact C17_ops_nonvacuous. Qed.

Example C17_in_bounds_1x3 :
  exists v0 v, attach (new_vt 255 1) 1 3 7 0 = Ok v0 /\ run_ops v0 ex_ops = Ok v /\
               InvVT 1 3 1 255 7 0 v /\ 1 <= cx v <= 1 /\ 1 <= cy v <= 3 /\ vy v + 3 <= 3 + 1 /\
               length (data v) = N.to_nat (1 * (3 + 1) * 3) /\ doff v + 2 < N.of_nat (length (data v)).
Proof. apply C17_vt_in_bounds; try (unfold two32; lia). exact C17_ops_nonvacuous. Qed.

(** ---- concrete runs ---- *)
Definition run_abs w h sb tab fg bg ops : option rterm :=
  match attach (new_vt tab sb) w h fg bg with
  | Ok v0 => match run_ops v0 ops with Ok v => Some (abs v) | PanicOOB => None end
  | PanicOOB => None
  end.

(** a 1x1 terminal without scrollback: the byte is stored, the cursor wraps, the only line
    scrolls away *)
Example C17_run_1x1 :
  run_abs 1 1 0 4 7 0 [OWrite [97]] = Some (mkR [[(32, 7, 0)]] 0 1 1) /\
  ref_run 1 1 0 4 7 0 [OWrite [97]] = mkR [[(32, 7, 0)]] 0 1 1.
Proof. split; vm_compute; reflexivity. Qed.

(** 3x2 console, 1 line of scrollback, tab width 2:  "ab\rX\n\tq\b" ; SetCursorPosition(0,9) ;
    "\n\nz".  'X' overwrites 'a'; the tab writes two blanks; 'q' in the last column wraps, which
    moves the viewport into the scrollback; BS in column one does nothing; the cursor move is
    clipped to (1,2); two line feeds scroll the viewport's lines (the scrollback line stays). *)
Example C17_run_3x2 :
  let ops := [OSetState 1; OWrite [97; 98; 13; 88; 10; 9; 113; 8]; OSetCursor 0 9; OWrite [10; 10; 122]] in
  let expected := mkR [[(88, 7, 0); (98, 7, 0); (32, 7, 0)];
                       [(32, 7, 0); (32, 7, 0); (32, 7, 0)];
                       [(122, 7, 0); (32, 7, 0); (32, 7, 0)]] 1 2 2 in
  run_abs 3 2 1 2 7 0 ops = Some expected /\ ref_run 3 2 1 2 7 0 ops = expected.
Proof. split; vm_compute; reflexivity. Qed.

(** outside the property's quantifier the model panics where the Go code does: a scrollback that
    wraps [height + scrollback] in 32 bits leaves a buffer smaller than the viewport *)
Example C17_wrap_panics :
  match attach (new_vt 4 0xffffffff) 2 2 7 0 with
  | Ok v0 => run_ops v0 [OWrite [10; 97]] = PanicOOB
  | PanicOOB => False
  end.
Proof. vm_compute. reflexivity. Qed.
