(** Non-vacuity of the C05 theorems and concrete runs of the model. *)
From Coq Require Import NArith List Lia Bool.
From FF Require Import Lib.Word Gen.Consts_mm_vmm Vmm.Pt Vmm.PtMem Vmm.PtArith Vmm.PtTree Vmm.PtMap Vmm.PtTheorems
     Vmm.PtInit Vmm.PtPdt Vmm.PtHist Vmm.PtKernel.
Import ListNotations.
Local Open Scope N_scope.

Definition LO : N := 0x200000000.
Definition KOFF : N := 0xffff800000000000.
Definition boot : st := init_state LO 64 0 (map (fun k => LO + N.of_nat k) (seq 1 40)).

(** .text (alloc+exec, unaligned end), .data (alloc+write), a boot section below the kernel offset, an empty one *)
Definition secs : list section :=
  [(6, KOFF + 0x100000, 0x2345); (3, KOFF + 0x104000, 0x1000); (2, 0x1000, 0x800); (7, KOFF + 0x200000, 0)].

Example C05_inv_nonvacuous : Inv boot LO LO (own_root LO).
Proof.
  apply Inv_init.
  - reflexivity.
  - unfold LO. change (2 ^ 40) with 1099511627776. lia.
  - unfold ofr, LO. cbn. repeat constructor; cbn; intuition discriminate.
  - intros f Hin Hz. unfold LO in *. cbn in Hin. intuition (subst; try lia).
Qed.

Lemma small_cases (P : N -> Prop) n : (forall j, (j < n)%nat -> P (N.of_nat j)) -> forall j, j < N.of_nat n -> P j.
Proof. intros H j Hj. rewrite <- (N2Nat.id j). apply H. lia. Qed.

(** the hypotheses of C05_kernel_aspace hold for this state and section table *)
Example C05_kernel_aspace_nonvacuous :
  Inv boot LO LO (own_root LO) /\ prot boot = false /\ orc boot = LO + 1 :: map (fun k => LO + N.of_nat k) (seq 2 39) /\
  Forall (sec_dom KOFF) (live_secs secs) /\
  resv_lo <= last boot /\ last boot <= vmm_tempMappingAddr /\ last boot mod 4096 = 0 /\
  (forall a, last boot <= a -> a < vmm_tempMappingAddr -> a mod 4096 = 0 -> translation boot LO (N.shiftr a 12) <> None).
Proof.
  split; [exact C05_inv_nonvacuous|]. split; [reflexivity|]. split; [reflexivity|].
  split.
  { change (live_secs secs) with [(6, KOFF + 0x100000, 0x2345); (3, KOFF + 0x104000, 0x1000); (2, 0x1000, 0x800)].
    apply Forall_cons; [|apply Forall_cons; [|apply Forall_cons; [|constructor]]]; unfold sec_dom.
    - right. split; [|split; [vm_compute; discriminate | vm_compute; discriminate]].
      change (sec_n (KOFF + 0x100000) 0x2345) with (N.of_nat 3).
      apply small_cases. intros j Hj. destruct j as [|[|[|j]]]; try lia; vm_compute; discriminate.
    - right. split; [|split; [vm_compute; discriminate | vm_compute; discriminate]].
      change (sec_n (KOFF + 0x104000) 0x1000) with (N.of_nat 1).
      apply small_cases. intros j Hj. destruct j as [|j]; try lia; vm_compute; discriminate.
    - left. reflexivity. }
  split; [vm_compute; discriminate|]. split; [vm_compute; discriminate|]. split; [reflexivity|].
  intros a H1 H2. exfalso. change (last boot) with vmm_tempMappingAddr in H1. lia.
Qed.

(** the run: W^X flags, frames (address - offset)/4096 + i, the low section unmapped, the new root active *)
Example C05_setup_run :
  match setup_kernel KOFF secs boot with
  | Ok (s', err) =>
      err = 0 /\ cr3 s' = N.shiftl (LO + 1) 12 /\
      translation s' (LO + 1) (N.shiftr (KOFF + 0x100000) 12) = Some (0x100, 1) /\            (* .text: P, executable, read-only *)
      translation s' (LO + 1) (N.shiftr (KOFF + 0x102000) 12) = Some (0x102, 1) /\            (* its last (partial) page *)
      translation s' (LO + 1) (N.shiftr (KOFF + 0x103000) 12) = None /\                       (* the page after it *)
      translation s' (LO + 1) (N.shiftr (KOFF + 0x104000) 12) = Some (0x104, 0x8000000000000003) /\ (* .data: P|RW|NX *)
      translation s' (LO + 1) 1 = None /\                                                       (* below the offset *)
      translation s' (LO + 1) (N.shiftr (KOFF + 0x200000) 12) = None                           (* size 0 *)
  | Stray => False
  end.
Proof. vm_compute. repeat split; reflexivity. Qed.

(** with two early reservations (MapRegion) the reserved pages keep their frames in the new space *)
Example C05_reserved_run :
  match map_region 0x5000 8192 3 boot with
  | Ok (s1, _, _) =>
      match setup_kernel KOFF secs s1 with
      | Ok (s', err) =>
          err = 0 /\ last s1 = vmm_tempMappingAddr - 8192 /\
          translation s' (N.shiftr (cr3 s') 12) (N.shiftr (vmm_tempMappingAddr - 8192) 12) = Some (0x5000, 3) /\
          translation s' (N.shiftr (cr3 s') 12) (N.shiftr (vmm_tempMappingAddr - 4096) 12) = Some (0x5001, 3) /\
          translation s' (N.shiftr (cr3 s') 12) (N.shiftr vmm_tempMappingAddr 12) = None /\
          kspec s1 LO KOFF secs (ixs (N.shiftr (vmm_tempMappingAddr - 4096) 12)) = Some (0x5001, 3)
      | Stray => False
      end
  | Stray => False
  end.
Proof. vm_compute. repeat split; reflexivity. Qed.

(** the geometry lemma on the .text section *)
Example C05_geometry_example :
  sec_cur (KOFF + 0x100000) = 0xffff800000100 /\ sec_n (KOFF + 0x100000) 0x2345 = 3 /\ sec_frame KOFF (KOFF + 0x100000) = 0x100.
Proof. vm_compute. repeat split; reflexivity. Qed.
