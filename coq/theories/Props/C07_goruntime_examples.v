(** Non-vacuity examples and concrete runs for Props/C07_goruntime.v.  The three [run_case] examples are
    observations of the REAL sysReserve / sysMap / sysAlloc (harness output, /repo at the pinned commit). *)
From Coq Require Import NArith List Bool Lia.
From FF Require Import Lib.Word Gen.Consts_mm_vmm Vmm.Region Vmm.RegionProofs Goruntime.Boot Goruntime.BootProofs.
Import ListNotations.
Local Open Scope N_scope.

Definition T : N := vmm_earlyReserveInitial.

(** a history that mixes the three calls, with an unaligned size, a failing allocation and a size that wraps *)
Definition ex_ops : list rop :=
  [RSysReserve 4097;
   RSysAlloc 8193 [Some 10; Some 11; Some 12; Some 13] None;
   RSysMap (T - 12287) 4097 true None;
   RSysReserve 0xffffffffffffffff;
   RSysAlloc 4096 [None] None;
   RSysAlloc 0xfffffffffffff001 [Some 1] None;
   RSysReserve 1].

Example C07_rt_reserve_history_nonvacuous :
  WFstart T /\ Forall WFrop ex_ops /\
  rt_regions 5 (T, 0) ex_ops =
    [(T - 8192, 8192, 4097); (T - 20480, 12288, 8193); (T - 24576, 4096, 4096); (T - 28672, 4096, 1)] /\
  rt_abs ex_ops = [Reserve 4097; Reserve 8193; Reserve 0xffffffffffffffff; Reserve 4096; Reserve 0xfffffffffffff001; Reserve 1].
Proof.
  split; [split; [reflexivity|vm_compute; intros H; discriminate H]|].
  split; [repeat constructor|]. split; vm_compute; reflexivity.
Qed.

Example C07_rt_cursor_invariant_nonvacuous :
  map (fun sr => fst (fst sr)) (rrun true 5 (T, 0) ex_ops) = [T - 8192; T - 20480; T - 20480; T - 20480; T - 24576; T - 24576; T - 28672].
Proof. vm_compute. reflexivity. Qed.

Example C07_rt_sysreserve_result_nonvacuous :
  op_region T (Reserve 4097) = Some (T - 8192, 8192, 4097) /\ op_region 4096 (Reserve 4097) = None /\
  rstep true 5 (4096, 0) (RSysReserve 4097) = ((4096, 0), mk_rres PanicErr false [] None 8192).
Proof. repeat split; vm_compute; reflexivity. Qed.

Example C07_rt_sysalloc_pages_nonvacuous :
  8193 < two64 /\ WFstart T /\ reserve_spec T 8193 = Some (T - 12288, 12288) /\
  N.of_nat (length [7; 9; 11]) = ceil_pages 8193 /\
  sys_alloc true T 100 8193 (map Some [7; 9; 11] ++ [Some 13]) None =
    (T - 12288, 100 + 12288, Ret (T - 12288),
     [EAlloc (Some 7); EMap 0xffffff7fffffc 7 0x8000000000000003; EMemset 0xffffff7fffffc000 0 4096;
      EAlloc (Some 9); EMap 0xffffff7fffffd 9 0x8000000000000003; EMemset 0xffffff7fffffd000 0 4096;
      EAlloc (Some 11); EMap 0xffffff7fffffe 11 0x8000000000000003; EMemset 0xffffff7fffffe000 0 4096], Some (T - 12288)).
Proof.
  split; [reflexivity|]. split; [split; [reflexivity|vm_compute; intros H; discriminate H]|].
  repeat split; vm_compute; reflexivity.
Qed.

Example C07_rt_sysalloc_allocator_failure_nonvacuous :
  reserve_spec T 8193 = Some (T - 12288, 12288) /\ N.of_nat (length [7]) < ceil_pages 8193 /\
  sys_alloc true T 100 8193 (map Some [7] ++ [None; Some 9]) None =
    (T - 12288, 100, Ret 0,
     [EAlloc (Some 7); EMap 0xffffff7fffffc 7 0x8000000000000003; EMemset 0xffffff7fffffc000 0 4096; EAlloc None], Some (T - 12288)) /\
  (* an exhausted allocator script fails the same way *)
  sys_alloc true T 100 8193 (map Some [7] ++ []) None =
    (T - 12288, 100, Ret 0,
     [EAlloc (Some 7); EMap 0xffffff7fffffc 7 0x8000000000000003; EMemset 0xffffff7fffffc000 0 4096; EAlloc None], Some (T - 12288)).
Proof. repeat split; vm_compute; reflexivity. Qed.

Example C07_rt_sysalloc_map_failure_nonvacuous :
  sys_alloc true T 100 8193 (map Some [7] ++ Some 9 :: [Some 11]) (Some (N.of_nat (length [7]))) =
    (T - 12288, 100, Ret 0,
     [EAlloc (Some 7); EMap 0xffffff7fffffc 7 0x8000000000000003; EMemset 0xffffff7fffffc000 0 4096;
      EAlloc (Some 9); EMap 0xffffff7fffffd 9 0x8000000000000003], Some (T - 12288)).
Proof. vm_compute. reflexivity. Qed.

Example C07_rt_sysalloc_no_fit_nonvacuous :
  reserve_spec 4096 4097 = None /\ sys_alloc true 4096 3 4097 [Some 1; Some 2] None = (4096, 3, Ret 0, [], None).
Proof. split; vm_compute; reflexivity. Qed.

(** an unaligned address inside a reservation, a size that is not a page multiple: 2 pages from the next page boundary *)
Example C07_rt_sysmap_pages_nonvacuous :
  (T - 8191) + 4095 < two64 /\ 4097 + 4095 < two64 /\ ceil_pages (T - 8191) * 4096 = T - 4096 /\
  sys_map true 5 0xfffffffffffff000 (T - 8191) 4097 true None =
    (0x1000, Ret (T - 4096), [EMap 0xffffff7fffffe 5 0x8000000000000201; EMap 0xffffff7ffffff 5 0x8000000000000201]).
Proof. repeat split; vm_compute; reflexivity. Qed.

Example C07_rt_sysmap_fail_stops_nonvacuous :
  1 < ceil_pages 12288 /\
  sys_map true 5 7 (T - 12288) 12288 true (Some 1) =
    (7, Ret 0, [EMap 0xffffff7fffffc 5 0x8000000000000201; EMap 0xffffff7fffffd 5 0x8000000000000201]).
Proof. split; vm_compute; reflexivity. Qed.

Example C07_rt_wrap_rejected_nonvacuous :
  0xfffffffffffff001 < two64 /\ two64 <= 0xfffffffffffff001 + 4095 /\
  rt_round_up 0xfffffffffffff001 = 0 /\ rt_round_up 0xfffffffffffff000 = 0xfffffffffffff000 /\
  sys_reserve true T 0xfffffffffffff001 = (T, PanicErr, false) /\
  sys_reserve true T 0xfffffffffffff000 = (T, PanicErr, false) (* does not wrap, does not fit *).
Proof. repeat split; vm_compute; try reflexivity; intros H; discriminate H. Qed.

Example C07_rt_no_fit_fails_nonvacuous :
  WFstart 8192 /\ reserve_spec 8192 8193 = None /\ reserve_spec 8192 8192 = Some (0, 8192).
Proof. split; [split; [reflexivity|vm_compute; intros H; discriminate H]|]. split; vm_compute; reflexivity. Qed.

(** ---- concrete runs: what the real functions did (hex in the harness output) ---- *)

(** cursor = initial, zero frame 5, stat 7:  sysReserve(0x1001); sysAlloc(0x2001) with frames a, b, c, d;
    sysMap(0xffffff7fffffd001, 0x1001, true); sysMap(0, 0, false) *)
Example C07_rt_run_1 :
  run_case [0; 5; 7; 0; 4097; 2; 8193; 0; 4; 11; 12; 13; 14; 1; 0xffffff7fffffd001; 4097; 1; 0; 1; 0; 0; 0; 0] =
    [0; 0xffffff7fffffd000; 1; 0xffffff7fffffd000;
     0; 0xffffff7fffffa000; 0x3007; 0xffffff7fffffa000; 9;
       1; 1; 0xa; 0; 2; 0xffffff7fffffa; 0xa; 0x8000000000000003; 3; 0xffffff7fffffa000; 0; 0x1000;
       1; 1; 0xb; 0; 2; 0xffffff7fffffb; 0xb; 0x8000000000000003; 3; 0xffffff7fffffb000; 0; 0x1000;
       1; 1; 0xc; 0; 2; 0xffffff7fffffc; 0xc; 0x8000000000000003; 3; 0xffffff7fffffc000; 0; 0x1000;
     0; 0xffffff7fffffe000; 0x5007; 0xffffff7fffffa000; 2;
       2; 0xffffff7fffffe; 5; 0x8000000000000201; 2; 0xffffff7ffffff; 5; 0x8000000000000201;
     2; 0; 0x5007; 0xffffff7fffffa000; 0].
Proof. vm_compute. reflexivity. Qed.

(** sizes in the last page before 2^64: panic with an error / nil / nil, nothing reserved, mapped or counted *)
Example C07_rt_run_2 :
  run_case [0; 5; 0; 0; 0xffffffffffffffff; 2; 0xffffffffffffff9b; 0; 2; 8; 9; 1; 0xffffff7fffffd000; 0xffffffffffffffff; 1; 0] =
    [1; 0; 0; 0xffffff7ffffff000;  0; 0; 0; 0xffffff7ffffff000; 0;  0; 0; 0; 0xffffff7ffffff000; 0].
Proof. vm_compute. reflexivity. Qed.

(** ... which the code before the fix answered with "success" and an empty region *)
Example C07_rt_run_2_before_fix :
  run_case_gen false [0; 5; 0; 0; 0xffffffffffffffff; 2; 0xffffffffffffff9b; 0; 2; 8; 9; 1; 0xffffff7fffffd000; 0xffffffffffffffff; 1; 0] =
    [0; 0xffffff7ffffff000; 1; 0xffffff7ffffff000;  0; 0xffffff7ffffff000; 0; 0xffffff7ffffff000; 0;
     0; 0xffffff7fffffd000; 0; 0xffffff7ffffff000; 0].
Proof. vm_compute. reflexivity. Qed.

(** cursor 0x3000, stat 2^64-4096: sysAlloc(0x2000) whose second mapping fails; sysAlloc(0x1000) with a
    failing allocator (the region stays reserved: cursor 0x1000 -> 0); sysReserve(0x1001) no longer fits *)
Example C07_rt_run_3 :
  run_case [0x3000; 5; 0xfffffffffffff000; 2; 8192; 2; 3; 8; 9; 10; 2; 4096; 0; 1; 0; 0; 4097] =
    [0; 0; 0xfffffffffffff000; 0x1000; 5;
       1; 1; 7; 0; 2; 1; 7; 0x8000000000000003; 3; 0x1000; 0; 0x1000; 1; 1; 8; 0; 2; 2; 8; 0x8000000000000003;
     0; 0; 0xfffffffffffff000; 0; 1; 1; 0; 0; 0;
     1; 0; 0; 0].
Proof. vm_compute. reflexivity. Qed.
