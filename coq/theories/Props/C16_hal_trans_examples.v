(** Non-vacuity and concrete runs for Props/C16_hal_trans.v: the regenerated hal.go functions run by vm_compute. *)
From Coq Require Import NArith ZArith String List.
From FF Require Import Lib.Word Lib.GoOps Lib.GoOpsHal Gen.Consts_device_tty Gen.Trans_hal.
From FF Require Import Kfmt.Fmt Hal.Model Hal.HalTrans Props.C16_hal_trans.
Import ListNotations.
Local Open Scope N_scope.

(** a console (id 7) with logo and font support, a terminal (id 5), something else (id 9) *)
Definition pc : probed := mkProbed KConsole [] 0 0 0 None [] true true.
Definition pt : probed := mkProbed KTTY [] 0 0 0 None [] false false.
Definition po : probed := mkProbed KOther [] 0 0 0 None [] false false.
Definition bf (a b : N) : N := a * 1000 + b.            (* stands for logo.BestFit / font.BestFit *)
Definition calls_of (r : gres (go_hal_world * unit)) : list gcall :=
  match r with GOk (w, _) => rev (f_world_trace w) | _ => [] end.
Definition devs_of (r : gres (go_hal_world * unit)) : N * N :=
  match r with GOk (w, _) => (f_world_activeConsole w, f_world_activeTTY w) | _ => (0, 0) end.

(** a terminal is already active; the first console arrives: logo, font (best fit: none named), then the link *)
Definition st_t : hal := set_tty init_hal (Some 5).
Example C16_hal_run_console_after_tty :
  calls_of (go_hal_onDriverInit (to_w [] st_t) 0 8 1024 768 bf (impl_of 7 pc) bf false 0) =
  [GCall "SetLogo" [GNum 8; GNum 1024768]; GCall "SetFont" [GNum 8; GNum 1024768];
   GCall "AttachTo" [GNum 6; GNum 8]; GCall "kfmt.SetOutputSink" [GNum 6]; GCall "SetState" [GNum 6; GNum 1]] /\
  devs_of (go_hal_onDriverInit (to_w [] st_t) 0 8 1024 768 bf (impl_of 7 pc) bf false 0) = (8, 6).
Proof. vm_compute. split; reflexivity. Qed.

(** consoleLogo=off and a font found by name (reference 77): no SetLogo, SetFont(77) *)
Example C16_hal_run_logo_off :
  calls_of (go_hal_onDriverInit (to_w [] init_hal) 0 8 1024 768 bf (impl_of 7 pc) bf true 77) =
  [GCall "SetFont" [GNum 8; GNum 77]].
Proof. vm_compute. reflexivity. Qed.

(** a second console, a second terminal, another driver: nothing happens *)
Example C16_hal_run_second_console :
  calls_of (go_hal_onDriverInit (to_w [] (set_console init_hal (Some 3))) 0 8 0 0 bf (impl_of 7 pc) bf false 0) = [] /\
  devs_of (go_hal_onDriverInit (to_w [] (set_console init_hal (Some 3))) 0 8 0 0 bf (impl_of 7 pc) bf false 0) = (4, 0) /\
  devs_of (go_hal_onDriverInit (to_w [] st_t) 0 3 0 0 bf (impl_of 2 pt) bf false 0) = (0, 6) /\
  devs_of (go_hal_onDriverInit (to_w [] st_t) 0 10 0 0 bf (impl_of 9 po) bf false 0) = (0, 6).
Proof. vm_compute. repeat split; reflexivity. Qed.

(** the terminal arrives after the console: link *)
Example C16_hal_run_tty_after_console :
  calls_of (go_hal_onDriverInit (to_w [] (set_console init_hal (Some 7))) 0 6 0 0 bf (impl_of 5 pt) bf false 0) =
  [GCall "AttachTo" [GNum 6; GNum 8]; GCall "kfmt.SetOutputSink" [GNum 6]; GCall "SetState" [GNum 6; GNum 1]].
Proof. vm_compute. reflexivity. Qed.

(** linkTTYToConsole without a terminal: a call on a nil interface *)
Example C16_hal_run_link_nil : go_hal_linkTTYToConsole (to_w [] init_hal) = GPanic.
Proof. vm_compute. reflexivity. Qed.

(** Less on a list with orders -128, 0, 127 (DetectOrderEarly, ACPI, Last) *)
Definition dl : list driver := [mkDriver 1 (-128) None; mkDriver 2 0 None; mkDriver 3 127 None].
Example C16_hal_run_less :
  go_device_DriverInfoList_Less (to_w [] init_hal) (to_infos dl) 0 1 = GOk (to_w [] init_hal, true) /\
  go_device_DriverInfoList_Less (to_w [] init_hal) (to_infos dl) 2 0 = GOk (to_w [] init_hal, false) /\
  go_device_DriverInfoList_Less (to_w [] init_hal) (to_infos dl) 1 1 = GOk (to_w [] init_hal, false) /\
  go_device_DriverInfoList_Less (to_w [] init_hal) (to_infos dl) 3 0 = GPanic.
Proof. vm_compute. repeat split; reflexivity. Qed.

(** the hypothesis of the theorems is satisfiable: the model's steps return Ok on these states *)
Example C16_onConsoleInit_is_translation_nonvacuous :
  exists st', on_console_init 7 pc st_t = Ok st' /\ h_console st' = Some 7 /\ h_tty st' = Some 5 /\ h_sink st' = STTY 5.
Proof. eexists. split; [vm_compute; reflexivity|]. repeat split; reflexivity. Qed.
Example C16_onTTYInit_is_translation_nonvacuous :
  exists st', on_tty_init 5 (set_console init_hal (Some 7)) = Ok st' /\ h_sink st' = STTY 5.
Proof. eexists. split; [vm_compute; reflexivity|]. reflexivity. Qed.
Example C16_less_is_translation_nonvacuous :
  N.of_nat (length dl) < 9223372036854775808 /\ nth_error dl 0 = Some (mkDriver 1 (-128) None) /\
  (-128 <= d_order (mkDriver 1 (-128) None) <= 127)%Z.
Proof. vm_compute. repeat split; discriminate || reflexivity. Qed.

(** audit: C16_link_is_translation with ALL hypotheses at a boot-like state: "hi" was logged into the early ring
    buffer before any device existed, then terminal 5 and console 7 became active.  The model's link returns Ok, the
    io.Copy contract delivers the buffered text to the terminal, and the theorem's conclusion holds there *)
Definition st_boot : hal :=
  set_console (set_tty (match run_logop (LStr [104; 105]) init_hal with Ok s => s | _ => init_hal end) (Some 5)) (Some 7).
Example C16_link_is_translation_real_input :
  exists st', h_tty st_boot = Some 5 /\ h_console st_boot = Some 7 /\ link st_boot = Ok st' /\
    In (EvWrite 5 [104; 105]) (h_trace st') /\
    go_hal_linkTTYToConsole (to_w [] st_boot) = GOk (to_w (link_calls 5 7 ++ []) st', tt) /\
    h_sink st' = STTY 5.
Proof.
  destruct (link st_boot) as [st'| |] eqn:E; [|vm_compute in E; discriminate..].
  exists st'. split; [reflexivity|]. split; [reflexivity|]. split; [reflexivity|].
  split; [vm_compute in E; injection E as <-; vm_compute; tauto|].
  destruct (C16_link_is_translation [] st_boot st' 5 7 eq_refl eq_refl E) as (A & _ & C).
  split; [exact A|]. rewrite C. vm_compute. reflexivity.
Qed.

(** audit: C16_less_is_translation with all five hypotheses (i = 0, j = 1 of the list -128, 0, 127) *)
Example C16_less_is_translation_real_input :
  go_device_DriverInfoList_Less (to_w [] init_hal) (to_infos dl) 0 1 = GOk (to_w [] init_hal, true).
Proof.
  apply (C16_less_is_translation (to_w [] init_hal) dl 0 1 (mkDriver 1 (-128) None) (mkDriver 2 0 None)).
  - vm_compute; reflexivity.
  - reflexivity.
  - reflexivity.
  - vm_compute; split; discriminate.
  - vm_compute; split; discriminate.
Qed.

(** audit: C16_onDriverInit_is_translation instantiated: console 7 arrives while terminal 5 is active (hypothesis by
    computation), conclusion used to read off the active devices *)
Example C16_onDriverInit_is_translation_real_input :
  exists st' calls,
    on_driver_init 7 pc st_t = Ok st' /\
    go_hal_onDriverInit (to_w [] st_t) 0 8 1024 768 bf (impl_of 7 pc) bf (h_logo_off st_t) 0 = GOk (to_w (calls ++ []) st', tt) /\
    h_console st' = Some 7 /\ h_tty st' = Some 5 /\ h_sink st' = STTY 5.
Proof.
  destruct (on_driver_init 7 pc st_t) as [st'| |] eqn:E; [|vm_compute in E; discriminate..].
  destruct (C16_onDriverInit_is_translation [] st_t st' 7 pc 0 1024 768 bf bf 0 E) as (calls & A & _ & _).
  exists st', calls. split; [reflexivity|]. split; [exact A|].
  vm_compute in E. injection E as <-. repeat split; reflexivity.
Qed.
