(** Non-vacuity of the translation tie of the early ring buffer (Props/C16_ring_trans.v): the hypotheses
    ([valid], fuel > len(p), len(p) an int) are met by the states the kernel reaches - the zero value
    of the struct, the state after a few writes, the state after a write that wraps around and
    overwrites the oldest bytes - and concrete runs of the TRANSLATION (no fuel exhaustion, no
    panic) agree with the model.  Sizes are written relative to the regenerated constant. *)
From Coq Require Import NArith String List Lia.
From FF Require Import Lib.GoOps Lib.GoOpsExt Gen.Consts_kfmt Gen.Trans_kfmt_ring.
From FF Require Import Kfmt.Fmt Kfmt.Ring Kfmt.RingProofs Kfmt.RingTrans Props.C16_ring_trans.
Import ListNotations.
Local Open Scope N_scope.

(** the zero value *)
Example C16_ring_trans_valid_empty_nonvacuous : valid empty_ring.
Proof. exact valid_empty. Qed.

(** the theorems instantiated at the zero value: any p, fuel = len(p) + 1 *)
Example C16_ring_write_trans_at_empty (p : list N) :
  go_kfmt_ringBuffer_Write (S (length p)) (to_go empty_ring) p =
  match ring_write empty_ring p with
  | Ok rb' => GOk (to_go rb', (glen p, None))
  | Panic _ => GPanic
  | OutOfFuel => GFuel
  end.
Proof. apply C16_ring_write_is_translation; [exact valid_empty|lia]. Qed.

(** ... and after any history of writes (here: one that wraps: ringBufferSize + 2 bytes), for Read into a
    4-byte buffer *)
Definition wrap_bytes : list N := map (fun k => N.of_nat k mod 256) (seq 0 (N.to_nat ring_size + 2)).

Example C16_ring_read_trans_after_wrap :
  exists rb, ring_write empty_ring wrap_bytes = Ok rb /\ valid rb /\
    go_kfmt_ringBuffer_Read (to_go rb) [0; 0; 0; 0] =
    match ring_read rb 4 with
    | Ok (d, eof, rb') =>
        GOk (to_go rb', (glen d, (if eof then Some "io.EOF"%string else None), d ++ skipn (length d) [0; 0; 0; 0]))
    | Panic _ => GPanic
    | OutOfFuel => GFuel
    end.
Proof.
  destruct (write_spec wrap_bytes empty_ring valid_empty) as (rb & E & V & _).
  exists rb. split; [exact E|]. split; [exact V|].
  apply (C16_ring_read_is_translation rb [0; 0; 0; 0] V). reflexivity.
Qed.

(** ---- concrete runs of the translation ---- *)
Definition zero_ring : go_kfmt_ringBuffer := mk_go_kfmt_ringBuffer (repeat 0 (N.to_nat ring_len)) 0 0.

(** Write([1,2,3]) on the zero value with fuel 4: three stores, wIndex = 3, returns (3, nil) *)
Example C16_ring_trans_run_write :
  go_kfmt_ringBuffer_Write 4 zero_ring [1; 2; 3] =
  GOk (mk_go_kfmt_ringBuffer (1 :: 2 :: 3 :: repeat 0 (N.to_nat ring_len - 3)) 0 3, (3, None)).
Proof. vm_compute. reflexivity. Qed.

(** one unit of fuel less: the range loop cannot make its final test *)
Example C16_ring_trans_run_write_fuel : go_kfmt_ringBuffer_Write 3 zero_ring [1; 2; 3] = GFuel.
Proof. vm_compute. reflexivity. Qed.

(** then Read into a 2-byte buffer: two bytes, rIndex = 2; on the empty ring: io.EOF *)
Example C16_ring_trans_run_read :
  go_kfmt_ringBuffer_Read (mk_go_kfmt_ringBuffer (1 :: 2 :: 3 :: repeat 0 (N.to_nat ring_len - 3)) 0 3) [9; 9] =
  GOk (mk_go_kfmt_ringBuffer (1 :: 2 :: 3 :: repeat 0 (N.to_nat ring_len - 3)) 2 3, (2, None, [1; 2])) /\
  go_kfmt_ringBuffer_Read zero_ring [9; 9] = GOk (zero_ring, (0, Some "io.EOF"%string, [9; 9])).
Proof. split; vm_compute; reflexivity. Qed.

(** a write of ringBufferSize + 2 bytes wraps: wIndex = 2 and the read index was pushed to 3; a Read into a
    large buffer then returns the ringBufferSize - 3 bytes up to the end of the array and resets rIndex to 0 *)
Example C16_ring_trans_run_wrap :
  match go_kfmt_ringBuffer_Write (S (length wrap_bytes)) zero_ring wrap_bytes with
  | GOk (g, (n, e)) =>
      (f_ringBuffer_rIndex g, f_ringBuffer_wIndex g, n) = (3, 2, ring_size + 2) /\
      match go_kfmt_ringBuffer_Read g (repeat 0 (2 * N.to_nat ring_size)) with
      | GOk (g', (n', e', p')) => (f_ringBuffer_rIndex g', n', e') = (0, ring_size - 3, None)
      | _ => False
      end
  | _ => False
  end.
Proof. vm_compute. split; reflexivity. Qed.

(** a panic is reported as such: an out-of-range write index (not a state the kernel reaches) *)
Example C16_ring_trans_run_panic :
  go_kfmt_ringBuffer_Write 2 (mk_go_kfmt_ringBuffer (repeat 0 (N.to_nat ring_len)) 0 ring_len) [1] = GPanic /\
  go_kfmt_ringBuffer_Write 2 (mk_go_kfmt_ringBuffer (repeat 0 (N.to_nat ring_len)) 0 (2 ^ 64 - 1)) [1] = GPanic.
Proof. split; vm_compute; reflexivity. Qed.
