(** C06 (and C04 / C05 / C01, whose page-table ties clear and copy frames through them) - kernel.Memset and
    kernel.Memcopy (kernel/mem_util.go) tied to the source BY TRANSLATION.

    Gen/Trans_kernel_mem.v is regenerated on every run by gen/gotrans (byte-memory mode of gen/gotrans/ext_mem.go,
    config gen/gotrans/kernel_mem.json).  The two functions overlay a []byte on raw memory:
        a []byte made from  unsafe.Pointer(&reflect.SliceHeader{Len: int(size), Cap: int(size), Data: addr})
    That overlay is taken as the DEFINITION of a view: the slice is the window [addr, addr + size) of the byte memory
    (Lib/GoBytes.v: start address and length = capacity; addresses are unbounded naturals as in Kernel/MemUtil.v, so a
    window that wraps around 2^64 is not described).  Everything else is translated: `if size == 0 { return }`,
    `target[0] = value` (a bounds-checked byte store), the loop `for index := uintptr(1); index < size; index *= 2`
    (index a uintptr: the doubling wraps at 2^64; fuelled loop), `target[index:]` / `target[:index]` (bounds-checked
    sub-windows) and `copy(dst, src)` - the memory operation [go_copy] of Kernel/MemUtil.v, Go's memmove of the shorter
    length; the memory is the model's list of bytes with address = index.
    [C06_memset_is_translation] / [C06_memcopy_is_translation]: for EVERY memory, position, value and size the
    regenerated function (Memset with the model's 64 units of fuel) is the hand-written model [memset] / [memcopy] that
    C06_memset_fills_exactly, C06_memset_edges and C06_memcopy_exact are about: same memory, [MFuel] as [GFuel].  For a
    size of 2^63 or more - outside the model, [MUndef] - the translation stops with [GPanic] at the overlay, because
    int(size) is negative; the real code then holds a slice of negative length that Go's unsigned bounds checks do not
    catch and dies with a fatal fault (see C06_memset_edges).  No hypotheses.
    [C06_memset_translated_fills_exactly] combines the tie with C06_memset_fills_exactly; side conditions: size <> 0,
    size < 2^63 and the window [base, base + size) lies inside the memory.  (In both ties the byte-level primitives
    [set_byte] / [go_copy] are the model's own functions on both sides: what is tied is the control structure around them.)
    Side conditions of the seam theorem below: the page resolves in the MMU model and its window lies inside the byte memory.
    [C06_memset_seam_is_memset] closes the kernel.Memset seam of the page-table ties (C04_pdt_init_is_translation,
    C04_map_is_translation, C06_reserve_zeroed_is_translation, ...): the oracle [T.o_memset] they use for
    kernel.Memset(addr, 0, mm.PageSize) - "the frame the page resolves to becomes all zero, nothing else changes" - is
    what the regenerated Memset does on any byte memory in which the page is the window [base, base + 4096): afterwards
    the window holds exactly the bytes (512 little-endian words) of the frame the oracle produced, every byte outside
    it is as before.  What stays assumed is the view: that the bytes addressed at [addr .. addr + 4095] are the bytes of
    the frame the MMU model resolves [addr] to.
    Statements only; proofs are in Kernel/MemUtilTrans.v and Vmm/MemsetSeam.v. *)
From Coq Require Import NArith List.
From FF Require Import Lib.Word Lib.GoOps Gen.Consts_mm_vmm Gen.Trans_kernel_mem Kernel.MemUtil Vmm.Pt Vmm.PtMem.
From FF Require Kernel.MemUtilTrans Vmm.MemsetSeam Vmm.PdtTrans.
Module U := FF.Kernel.MemUtilTrans.
Module S := FF.Vmm.MemsetSeam.
Module T := FF.Vmm.PdtTrans.
Import ListNotations.
Local Open Scope N_scope.

Theorem C06_memset_is_translation :
  forall (mem : list N) (base : nat) (value size : N) (tr : list gcall),
    go_kernel_Memset 64 (mk_go_kernel_world tr mem) (N.of_nat base) value size =
    match memset mem base value size with
    | MOk m => GOk (mk_go_kernel_world tr m, tt)
    | MUndef => GPanic
    | MFuel => GFuel
    end.
Proof. exact U.memset_is_translation_64. Qed.
Print Assumptions C06_memset_is_translation.

Theorem C06_memcopy_is_translation :
  forall (mem : list N) (src dst : nat) (size : N) (tr : list gcall),
    go_kernel_Memcopy (mk_go_kernel_world tr mem) (N.of_nat src) (N.of_nat dst) size =
    match memcopy mem src dst size with
    | MOk m => GOk (mk_go_kernel_world tr m, tt)
    | MUndef => GPanic
    | MFuel => GFuel
    end.
Proof. exact U.memcopy_is_translation. Qed.
Print Assumptions C06_memcopy_is_translation.

(** the translated Memset sets exactly [size] bytes, for every size from 1 to 2^63-1 *)
Theorem C06_memset_translated_fills_exactly :
  forall (mem : list N) (base : nat) (value size : N) (tr : list gcall),
    size <> 0 -> size < 2 ^ 63 -> (base + N.to_nat size <= length mem)%nat ->
    go_kernel_Memset 64 (mk_go_kernel_world tr mem) (N.of_nat base) value size =
    GOk (mk_go_kernel_world tr (firstn base mem ++ repeat value (N.to_nat size) ++ skipn (base + N.to_nat size) mem), tt).
Proof. exact U.memset_translated_fills_exactly. Qed.
Print Assumptions C06_memset_translated_fills_exactly.

Theorem C06_memset_seam_is_memset :
  forall (s : st) (a pf : N) (tr0 : list gcall) (bm : list N) (base : nat) (trb : list gcall),
    resolve_page s a = Some pf -> (base + 4096 <= length bm)%nat ->
    exists s' bm',
      T.o_memset (T.ev_memset a :: tr0) s = Some (s', tt) /\
      go_kernel_Memset 64 (mk_go_kernel_world trb bm) (N.of_nat base) 0 mm_PageSize = GOk (mk_go_kernel_world trb bm', tt) /\
      firstn 4096 (skipn base bm') = S.frame_bytes (mem s') pf /\
      firstn base bm' = firstn base bm /\ skipn (base + 4096) bm' = skipn (base + 4096) bm /\ length bm' = length bm /\
      (forall f i, f <> pf -> rd (mem s') f i = rd (mem s) f i).
Proof. exact S.memset_seam_is_memset. Qed.
Print Assumptions C06_memset_seam_is_memset.
