(** C02 - tie of the early-boot allocator model to the source BY TRANSLATION.
    Gen/Trans_pmm_boot.v is regenerated on every run by gen/gotrans (gen/gotrans/pmm_boot.json; extended mode with
    the "visitors" feature of gen/gotrans/ext_visitor.go) from kernel/mm/pmm/bootmem_allocator.go:
    BootMemAllocator.init and BootMemAllocator.AllocFrame.  The structs BootMemAllocator and
    multiboot.MemoryMapEntry become records whose fields are read from the type declarations.

    AllocFrame passes a closure to multiboot.VisitMemRegions.  That statement is translated as
    [gvisit body regions state] (Lib/GoVisit.v): the closure body is run on entry after entry of the extra parameter
    [regions : list go_multiboot_MemoryMapEntry] - the sequence of entries the visitor presents, in order -;
    `return true` goes on with the next entry, `return false` stops; the receiver [alloc] and the captured local [err]
    are carried from call to call (Go captures them by reference).  There is no fuel and no run-time panic in this code.

    The hand-written model Pmm/Boot.v ([kernel_start_frame], [kernel_end_frame]; [boot_alloc] = [boot_scan] of
    [boot_visit] - the functions every theorem of Props/C02.v is about) is shown EQUAL to that translation for every
    allocator state and every region list: returned frame / error and the new state, including the cursor mutations
    of scans that fail.  [B.to_ga ka kb ks ke st] is the Go record with allocCount / lastAllocFrame of the model state
    [st], kernelStartAddr / kernelEndAddr [ka kb] and kernelStartFrame / kernelEndFrame [ks ke]; [B.to_gr] maps a model
    region to a Go memory-map entry; both maps are onto (last theorem), so the quantifiers range over ALL values of the
    translation's types (numbers are not even required to fit 64 bits, except init's kernelStart).

    NOT covered by this tie: the contract of multiboot.VisitMemRegions itself - that it calls the visitor once per
    memory-map entry in order, stops when the visitor returns false, and rewrites unknown entry types to "reserved"
    before the call.  That is the subject of property C10 (model coq/theories/Multiboot/*.v); C02's correspondence
    run delivers the maps through the real VisitMemRegions.  Also trusted: the translator and the meaning
    Lib/GoOps.v / Lib/GoVisit.v give to Go's operators and to the visitor call.
    Statements only; proofs are in Pmm/BootTrans.v. *)
From Coq Require Import NArith String List.
From FF Require Import Lib.GoOps Lib.GoVisit Gen.Consts_mm_pmm Gen.Trans_pmm_boot Pmm.Boot.
From FF Require Pmm.BootTrans.
Module B := FF.Pmm.BootTrans.
Import ListNotations.
Local Open Scope N_scope.

(** AllocFrame: for every allocator state and every region list the regenerated function returns the model's frame
    with a nil error, or (mm.InvalidFrame, errBootAllocOutOfMemory) where the model reports out-of-memory, and leaves
    the model's new counter and cursor (the kernel fields are untouched). *)
Theorem C02_bootAllocFrame_is_translation :
  forall (ka kb ks ke : N) (st : bstate) (m : memmap),
    go_pmm_BootMemAllocator_AllocFrame (B.to_ga ka kb ks ke st) (map B.to_gr m) =
    GOk (B.to_ga ka kb ks ke (fst (boot_alloc m ks ke st)),
         match snd (boot_alloc m ks ke st) with
         | Some f => (f, None)
         | None => (mm_InvalidFrame, Some "errBootAllocOutOfMemory"%string)
         end).
Proof. exact B.bootAllocFrame_is_translation. Qed.
Print Assumptions C02_bootAllocFrame_is_translation.

(** init(kernelStart, kernelEnd): stores the two addresses and exactly the model's kernel frame range (the [ks], [ke]
    that the C02 theorems feed to [boot_run]); counter and cursor are untouched.  kernelStart is a uintptr. *)
Theorem C02_bootInit_is_translation :
  forall (ka kb ks ke : N) (st : bstate) (kstart kend : N),
    kstart < 2 ^ 64 ->
    go_pmm_BootMemAllocator_init (B.to_ga ka kb ks ke st) kstart kend =
    GOk (B.to_ga kstart kend (kernel_start_frame kstart) (kernel_end_frame kend) st, tt).
Proof. exact B.bootInit_is_translation. Qed.
Print Assumptions C02_bootInit_is_translation.

(** Every value of the translation's types is the image of a model value: the two theorems above speak about all
    allocator records and all entry lists. *)
Theorem C02_boot_trans_abstraction_onto :
  (forall g : go_pmm_BootMemAllocator, exists ka kb ks ke st, g = B.to_ga ka kb ks ke st) /\
  (forall gs : list go_multiboot_MemoryMapEntry, exists m, gs = map B.to_gr m).
Proof. exact (conj B.to_ga_onto B.to_gr_list_onto). Qed.
Print Assumptions C02_boot_trans_abstraction_onto.
