(** C06 (and C04/C01, which clear frames the same way) — kernel.Memset and kernel.Memcopy, on which
    "the shared frame is zero-filled" and "the private copy's contents equal what the page showed
    before" rest.  Statements only; proofs are in Kernel/MemUtilProofs.v.
    Model: Kernel/MemUtil.v (memory = list of bytes; Go's copy() = memmove of the shorter length;
    Memset's uintptr index doubles with wrap-around at 2^64, 64 iterations of fuel). *)
From Coq Require Import NArith List.
From FF Require Import Lib.Word Kernel.MemUtil Kernel.MemUtilProofs.
Import ListNotations.
Local Open Scope N_scope.

(** Memset(addr of mem[base], value, size) for EVERY size from 1 to 2^63-1 — a power of two (the only
    sizes the repository's test tries) or not — and every position: the doubling loop terminates within
    the 64 iterations a 64-bit index allows (no [MFuel]), does not panic, sets exactly the [size] bytes
    from [base] to [value] and leaves every byte before and after them as it was. *)
Theorem C06_memset_fills_exactly :
  forall (mem : list N) (base : nat) (value size : N),
    size <> 0 -> size < 2 ^ 63 -> (base + N.to_nat size <= length mem)%nat ->
    memset mem base value size =
    MOk (firstn base mem ++ repeat value (N.to_nat size) ++ skipn (base + N.to_nat size) mem).
Proof. exact memset_spec. Qed.
Print Assumptions C06_memset_fills_exactly.

(** size 0 is a no-op; a size of 2^63 or more (negative as a Go int) is outside the model ([MUndef]): the
    real code then writes through a slice of negative length - Go's unsigned bounds checks do not
    catch it - and dies with a fatal fault.  No caller in the kernel passes anything but the page size. *)
Theorem C06_memset_edges :
  forall mem base value, memset mem base value 0 = MOk mem /\
    forall size, 2 ^ 63 <= size -> memset mem base value size = MUndef.
Proof. intros mem base value. split; [apply memset_zero_size|apply memset_huge_undef]. Qed.
Print Assumptions C06_memset_edges.

(** Memcopy(src, dst, size): afterwards the destination shows what the source showed BEFORE the call —
    also when the two regions overlap — and no byte outside the destination changed. *)
Theorem C06_memcopy_exact :
  forall (mem : list N) (src dst : nat) (size : N),
    size < 2 ^ 63 -> (src + N.to_nat size <= length mem)%nat -> (dst + N.to_nat size <= length mem)%nat ->
    exists mem', memcopy mem src dst size = MOk mem' /\ length mem' = length mem /\
      firstn (N.to_nat size) (skipn dst mem') = firstn (N.to_nat size) (skipn src mem) /\
      firstn dst mem' = firstn dst mem /\
      skipn (dst + N.to_nat size) mem' = skipn (dst + N.to_nat size) mem.
Proof. exact memcopy_spec. Qed.
Print Assumptions C06_memcopy_exact.
