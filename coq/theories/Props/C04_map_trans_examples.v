(** Non-vacuity of the theorems of Props/C04_map_trans.v and concrete runs of the regenerated translation
    (Gen/Trans_vmm_map.v) by [vm_compute] from the boot state of a case (arena of 64 frames from 0x100, root 0x100 with
    its recursive entry, allocator handing out 0x101..): a mapping that creates three tables, its translation, its
    removal, the temporary mapping, the armed zero-frame guard, allocator failure, walk with a closure that stops, and
    the one input class on which the hand-written [map_page] and the Go code differ (mapping the page of the
    recursive window itself). *)
From Coq Require Import NArith String List Bool.
From FF Require Import Lib.Word Lib.GoOps Gen.Consts_mm_vmm Gen.Trans_vmm_map Vmm.Pt Vmm.PtMem Vmm.PtAccess.
From FF Require Vmm.MapTrans Vmm.PdtTrans.
Module M := FF.Vmm.MapTrans.
Module T := FF.Vmm.PdtTrans.
Import ListNotations.
Local Open Scope N_scope.

Definition boot : st := init_state 0x100 64 0 [0x101; 0x102; 0x103; 0x104; 0x105; 0x106; 0x107; 0x108].
Definition PG : N := 0x7f0000123.      (* a page of the low canonical half *)
Definition PG511 : N := 0xff8000123.   (* a page of top-level slot 511 (inside the recursive window) *)
Definition PGR : N := 0xfffffffff.     (* the page of pdtVirtualAddr itself: all four indices are 511 *)

Definition obs {A} (r : gres (go_vmm_world * A)) : option (A * list gcall * N) :=
  match r with
  | GOk (w, a) => Some (a, f_world_trace w, digest (f_world_mem w))
  | _ => None
  end.
Definition st_of (r : R (st * N)) : st := match r with Ok (s', _) => s' | Stray => boot end.
Definition s1 : st := st_of (map_page PG 0x4242 3 boot).

Lemma boot_w64 : T.mem_w64 boot.
Proof. apply T.init_state_w64. reflexivity. Qed.

Lemma s1_w64 : T.mem_w64 s1.
Proof.
  unfold s1. destruct (map_page PG 0x4242 3 boot) as [[s' e]|] eqn:E; cbn [st_of]; [|exact boot_w64].
  refine (proj2 (proj2 (T.map_page_keeps _ _ _ _ _ _ _ E)) boot_w64). reflexivity.
Qed.

(** ---- Map ---- *)
Example C04_map_is_translation_nonvacuous :
  (3 : N) < two64 /\ T.mem_w64 boot /\ M.map_stable go_levels 0 vmm_pdtVirtualAddr (frame_addr PG) boot.
Proof.
  split; [reflexivity|]. split; [exact boot_w64|].
  apply M.map_stable_b_ok. vm_compute. reflexivity.
Qed.

Example C04_map_stable_decidable_nonvacuous :
  M.map_stable_b go_levels 0 vmm_pdtVirtualAddr (frame_addr PG) boot = true /\
  M.map_stable_b go_levels 0 vmm_pdtVirtualAddr (frame_addr PG511) boot = true /\
  M.map_stable_b go_levels 0 vmm_pdtVirtualAddr (frame_addr temp_page) s1 = true.
Proof. vm_compute. repeat split. Qed.

(** three tables are allocated, linked, cleared through the recursive window; the leaf is flushed *)
Example map_run :
  obs (go_vmm_Map (mk_go_vmm_world [] boot) PG 0x4242 3 T.o_flush T.o_memset M.o_alloc M.o_id)
  = Some (None,
          [GCall "flushTLBEntryFn" [GNum (frame_addr PG)];
           GCall "kernel.Memset" [GNum 0xffffffbf80000000; GNum 0; GNum 4096]; GCall "nextAddrFn" [GNum 0xffffffbf80000000]; GCall "mm.AllocFrame" [];
           GCall "kernel.Memset" [GNum 0xffffffffdfc00000; GNum 0; GNum 4096]; GCall "nextAddrFn" [GNum 0xffffffffdfc00000]; GCall "mm.AllocFrame" [];
           GCall "kernel.Memset" [GNum 0xffffffffffefe000; GNum 0; GNum 4096]; GCall "nextAddrFn" [GNum 0xffffffffffefe000]; GCall "mm.AllocFrame" []],
          digest s1)
  /\ map_page PG 0x4242 3 boot = Ok (s1, 0) /\ digest s1 <> digest boot.
Proof. vm_compute. repeat split; try reflexivity. discriminate. Qed.

(** the allocator fails at the second table: its error comes back, the first table stays linked *)
Example map_alloc_failure_run :
  obs (go_vmm_Map (mk_go_vmm_world [] (set_orc boot [0x101; 0])) PG 0x4242 3 T.o_flush T.o_memset M.o_alloc M.o_id)
  = Some (Some "errAllocFrame"%string,
          [GCall "mm.AllocFrame" [];
           GCall "kernel.Memset" [GNum 0xffffffffffefe000; GNum 0; GNum 4096]; GCall "nextAddrFn" [GNum 0xffffffffffefe000]; GCall "mm.AllocFrame" []],
          digest (st_of (map_page PG 0x4242 3 (set_orc boot [0x101; 0]))))
  /\ (match map_page PG 0x4242 3 (set_orc boot [0x101; 0]) with Ok (_, e) => e | Stray => 99 end) = E_ALLOC.
Proof. vm_compute. split; reflexivity. Qed.

(** the armed zero-frame guard *)
Example C04_map_guard_is_translation_nonvacuous :
  let s := set_prot (set_zf boot 0x150) true in prot s = true /\ N.land 3 vmm_FlagRW <> 0.
Proof. vm_compute. split; [reflexivity|discriminate]. Qed.

Example map_guard_run :
  let s := set_prot (set_zf boot 0x150) true in
  obs (go_vmm_Map (mk_go_vmm_world [] s) PG 0x150 3 T.o_flush T.o_memset M.o_alloc M.o_id)
  = Some (Some "errAttemptToRWMapReservedFrame"%string, [], digest boot)
  /\ obs (go_vmm_Map (mk_go_vmm_world [] s) PG 0x150 0x201 T.o_flush T.o_memset M.o_alloc M.o_id) <> obs (GOk (mk_go_vmm_world [] s, Some "errAttemptToRWMapReservedFrame"%string)).
Proof. vm_compute. split; [reflexivity|discriminate]. Qed.

(** ---- Translate / Unmap ---- *)
Example C04_translate_is_translation_nonvacuous : T.mem_w64 s1.
Proof. exact s1_w64. Qed.
Example C04_unmap_is_translation_nonvacuous : T.mem_w64 s1.
Proof. exact s1_w64. Qed.

Example translate_run :
  go_vmm_Translate (mk_go_vmm_world [] s1) (frame_addr PG + 0x7ab) = GOk (mk_go_vmm_world [] s1, (0x42427ab, None))
  /\ go_vmm_Translate (mk_go_vmm_world [] s1) (frame_addr (PG + 1)) = GOk (mk_go_vmm_world [] s1, (0, Some "ErrInvalidMapping"%string))
  /\ go_vmm_Translate (mk_go_vmm_world [] boot) (frame_addr PG) = GOk (mk_go_vmm_world [] boot, (0, Some "ErrInvalidMapping"%string)).
Proof. vm_compute. repeat split. Qed.

Example unmap_run :
  obs (go_vmm_Unmap (mk_go_vmm_world [] s1) PG T.o_flush)
  = Some (None, [GCall "flushTLBEntryFn" [GNum (frame_addr PG)]], digest (st_of (unmap_page PG s1)))
  /\ (match go_vmm_Unmap (mk_go_vmm_world [] s1) PG T.o_flush with
      | GOk (w, _) => go_vmm_Translate (mk_go_vmm_world [] (f_world_mem w)) (frame_addr PG)
      | _ => GPanic end) = GOk (mk_go_vmm_world [] (st_of (unmap_page PG s1)), (0, Some "ErrInvalidMapping"%string))
  /\ obs (go_vmm_Unmap (mk_go_vmm_world [] boot) PG T.o_flush) = Some (Some "ErrInvalidMapping"%string, [], digest boot).
Proof. vm_compute. repeat split. Qed.

(** ---- MapTemporary ---- *)
Example C04_map_temporary_is_translation_nonvacuous :
  T.mem_w64 s1 /\ M.map_stable go_levels 0 vmm_pdtVirtualAddr (frame_addr temp_page) s1.
Proof. split; [exact s1_w64|]. apply M.map_stable_b_ok. vm_compute. reflexivity. Qed.

Example map_temporary_run :
  (match go_vmm_MapTemporary (mk_go_vmm_world [] s1) 0x130 T.o_flush T.o_memset M.o_alloc M.o_id with
   | GOk (w, (p, e)) => Some (p, e, digest (f_world_mem w)) | _ => None end)
  = Some (temp_page, None, digest (match map_temporary 0x130 s1 with Ok (s', _, _) => s' | Stray => boot end))
  /\ (match map_temporary 0x130 s1 with Ok (_, e, p) => Some (e, p) | Stray => None end) = Some (0, temp_page).
Proof. vm_compute. split; reflexivity. Qed.

(** ---- walk ---- *)
Example C04_walk_is_translation_nonvacuous : (5 <= 5)%nat.
Proof. constructor. Qed.

(** a closure that counts its calls in the flush log and stops at level 2: three calls, in order, then nothing *)
Definition count_clo (l p : N) (s : st) : option (st * bool) := Some (flush s p, l <? 2).
Example walk_run :
  (match go_vmm_walk 5 (mk_go_vmm_world [] boot) (frame_addr PG) M.o_id (M.o_clo count_clo) with
   | GOk (w, _) => Some (f_world_trace w, flog (f_world_mem w)) | _ => None end)
  = Some ([M.ev_walkfn 2 0xffffffffdfc00000; M.ev_ptr 0xffffffffdfc00000;
           M.ev_walkfn 1 0xffffffffffefe000; M.ev_ptr 0xffffffffffefe000;
           M.ev_walkfn 0 0xfffffffffffff7f0; M.ev_ptr 0xfffffffffffff7f0],
          [0xffffffffdfc00000; 0xffffffffffefe000; 0xfffffffffffff7f0])
  /\ walk_items (frame_addr PG) = [(0, 0xfffffffffffff7f0); (1, 0xffffffffffefe000); (2, 0xffffffffdfc00000); (3, 0xffffffbf80000918)]
  /\ go_vmm_walk 4 (mk_go_vmm_world [] boot) (frame_addr PG) M.o_id (M.o_clo (fun _ _ s => Some (s, true))) = GFuel.
Proof. vm_compute. repeat split. Qed.

(** ---- where the hand-written model and the Go code differ ----
    Mapping the page of the recursive window itself ([PGR]: all four indices 511): the level-0 entry IS the recursive
    entry 511 of the root, and it is "not present + huge" free, so Map's leaf code runs at level 3 on the root's entry
    511: the store of 0 removes the recursive mapping and the next dereference of the same pointer cannot be resolved -
    the translation panics (hardware without a cached translation: a fault), while [map_page], which resolved the
    address once, reports success.  [map_stable] excludes it ([map_stable_b] = false). *)
Example map_recursive_page_differs :
  go_vmm_Map (mk_go_vmm_world [] boot) PGR 0x4242 3 T.o_flush T.o_memset M.o_alloc M.o_id = GPanic
  /\ (match map_page PGR 0x4242 3 boot with Ok (_, e) => Some e | Stray => None end) = Some 0
  /\ M.map_stable_b go_levels 0 vmm_pdtVirtualAddr (frame_addr PGR) boot = false.
Proof. vm_compute. repeat split. Qed.

(** ---- the general corollaries: the boot state satisfies the invariant ---- *)
From FF Require Vmm.PtInit Vmm.PtMap.
Lemma boot_inv : PtMap.Inv boot 0x100 0x100 (PtInit.own_root 0x100).
Proof.
  apply PtInit.Inv_init; [reflexivity | vm_compute; discriminate | |].
  - vm_compute. repeat constructor; cbn; intuition discriminate.
  - intros f Hin Hz. cbn in Hin. repeat (destruct Hin as [<-|Hin]; [vm_compute; split; reflexivity|]). destruct Hin.
Qed.

Example C04_map_is_translation_inv_nonvacuous :
  PtMap.Inv boot 0x100 0x100 (PtInit.own_root 0x100) /\ hw_idx PG 0 <> 511 /\ hw_idx PG511 0 = 511 /\ (3 : N) < two64 /\ T.mem_w64 boot.
Proof. split; [exact boot_inv|]. split; [vm_compute; discriminate|]. split; [reflexivity|]. split; [reflexivity | exact boot_w64]. Qed.

Example C04_map_temporary_is_translation_inv_nonvacuous :
  PtMap.Inv boot 0x100 0x100 (PtInit.own_root 0x100) /\ T.mem_w64 boot.
Proof. split; [exact boot_inv | exact boot_w64]. Qed.

Example C04_map_stable_inv_nonvacuous : PtMap.Inv boot 0x100 0x100 (PtInit.own_root 0x100) /\ hw_idx PG 0 <> 511.
Proof. split; [exact boot_inv | vm_compute; discriminate]. Qed.
