(** C02 tie by translation - concrete runs.  The REGENERATED functions (Gen/Trans_pmm_boot.v) are run by vm_compute:
    init on the zero value of the Go struct, then consecutive AllocFrame calls over a concrete memory map, through
    exhaustion; the results agree with the hand-written model's [boot_run]; the theorems of Props/C02_trans.v are
    instantiated at these values (their only hypothesis, init's kernelStart < 2^64, is discharged). *)
From Coq Require Import NArith String List Lia.
From FF Require Import Lib.Word Lib.GoOps Lib.GoVisit Gen.Consts_mm_pmm Gen.Trans_pmm_boot Pmm.Boot Pmm.BootProofs.
From FF Require Import Props.C02_trans.
Import ListNotations.
Local Open Scope N_scope.

(** an unaligned region of 4 whole frames (0x10..0x13 after rounding 0xfc00 up), a reserved hole, a sub-page available
    region, a region of type 0 as VisitMemRegions would never present it (normalised to reserved = 2 here), and a
    3-frame region; as the bootloader's entries *)
Definition ex_entries : list go_multiboot_MemoryMapEntry :=
  [ mk_go_multiboot_MemoryMapEntry 0xfc00 0x4800 1; mk_go_multiboot_MemoryMapEntry 0x14400 0x1000 2;
    mk_go_multiboot_MemoryMapEntry 0x16000 0x800 1; mk_go_multiboot_MemoryMapEntry 0x17000 0x1000 2;
    mk_go_multiboot_MemoryMapEntry 0x20000 0x3000 1 ].

(** the same map for the model *)
Definition ex_small : memmap :=
  [ mkRegion 0xfc00 0x4800 1; mkRegion 0x14400 0x1000 2; mkRegion 0x16000 0x800 1; mkRegion 0x17000 0x1000 2;
    mkRegion 0x20000 0x3000 1 ].

Example C02_trans_entries : ex_entries = map B.to_gr ex_small.
Proof. reflexivity. Qed.

(** the zero value of BootMemAllocator *)
Definition ga_zero : go_pmm_BootMemAllocator := mk_go_pmm_BootMemAllocator 0 0 0 0 0 0.

(** [n] consecutive calls of the translated AllocFrame *)
Fixpoint go_run (n : nat) (a : go_pmm_BootMemAllocator) : option (go_pmm_BootMemAllocator * list (N * option string)) :=
  match n with
  | O => Some (a, [])
  | S n' =>
      match go_pmm_BootMemAllocator_AllocFrame a ex_entries with
      | GOk (a', r) => match go_run n' a' with Some (a'', rs) => Some (a'', r :: rs) | None => None end
      | _ => None
      end
  end.

(** kernel image [0x11000, 0x12345): frames 0x11 and 0x12 of the first region *)
Definition ga_init : go_pmm_BootMemAllocator :=
  match go_pmm_BootMemAllocator_init ga_zero 0x11000 0x12345 with GOk (a, _) => a | _ => ga_zero end.

Example C02_trans_init_run :
  go_pmm_BootMemAllocator_init ga_zero 0x11000 0x12345 =
  GOk (mk_go_pmm_BootMemAllocator 0 0 0x11000 0x12345 0x11 0x12, tt).
Proof. vm_compute. reflexivity. Qed.

Example C02_trans_init_agrees :
  ga_init = B.to_ga 0x11000 0x12345 (kernel_start_frame 0x11000) (kernel_end_frame 0x12345) boot_reset.
Proof. vm_compute. reflexivity. Qed.

(** the hypothesis of C02_bootInit_is_translation is satisfiable, and the theorem gives the same record *)
Example C02_bootInit_is_translation_nonvacuous :
  go_pmm_BootMemAllocator_init (B.to_ga 0 0 0 0 boot_reset) 0x11000 0x12345 =
  GOk (B.to_ga 0x11000 0x12345 (kernel_start_frame 0x11000) (kernel_end_frame 0x12345) boot_reset, tt).
Proof. apply C02_bootInit_is_translation. vm_compute. reflexivity. Qed.

(** seven calls: frame 0x10, the kernel frames 0x11, 0x12 are jumped, 0x13, then the sub-page region and the reserved
    ones are skipped, 0x20..0x22, then out of memory twice (mm.InvalidFrame and the error); allocCount ends at 5 and
    the cursor stays at the last frame *)
Example C02_trans_alloc_run :
  go_run 7 ga_init =
  Some (mk_go_pmm_BootMemAllocator 5 0x22 0x11000 0x12345 0x11 0x12,
        [ (0x10, None); (0x13, None); (0x20, None); (0x21, None); (0x22, None);
          (0xffffffffffffffff, Some "errBootAllocOutOfMemory"%string);
          (0xffffffffffffffff, Some "errBootAllocOutOfMemory"%string) ]).
Proof. vm_compute. reflexivity. Qed.

(** the model's run of the same calls *)
Example C02_trans_model_run :
  boot_run ex_small (kernel_start_frame 0x11000) (kernel_end_frame 0x12345) 7 boot_reset =
  (mkB 5 0x22, [Some 0x10; Some 0x13; Some 0x20; Some 0x21; Some 0x22; None; None]).
Proof. vm_compute. reflexivity. Qed.

(** the out-of-memory call, by the theorem: the translated function at the exhausted state returns InvalidFrame and
    the error and leaves the state alone *)
Example C02_trans_oom :
  go_pmm_BootMemAllocator_AllocFrame (B.to_ga 0x11000 0x12345 0x11 0x12 (mkB 5 0x22)) (map B.to_gr ex_small) =
  GOk (B.to_ga 0x11000 0x12345 0x11 0x12 (mkB 5 0x22), (mm_InvalidFrame, Some "errBootAllocOutOfMemory"%string)).
Proof. rewrite C02_bootAllocFrame_is_translation. vm_compute. reflexivity. Qed.

(** a scan that FAILS still moves the cursor (kernel at the end of the only region: the jump lands beyond it), and the
    translation shows the same mutated lastAllocFrame as the model *)
Example C02_trans_failed_scan_moves_cursor :
  go_pmm_BootMemAllocator_AllocFrame (mk_go_pmm_BootMemAllocator 1 0x10 0 0 0x11 0x13)
    [mk_go_multiboot_MemoryMapEntry 0x10000 0x4000 1] =
  GOk (mk_go_pmm_BootMemAllocator 1 0x14 0 0 0x11 0x13, (mm_InvalidFrame, Some "errBootAllocOutOfMemory"%string)) /\
  boot_alloc [mkRegion 0x10000 0x4000 1] 0x11 0x13 (mkB 1 0x10) = (mkB 1 0x14, None).
Proof. vm_compute. split; reflexivity. Qed.

(** the visitor stops at the first `return false`: entries after the one that yields a frame are not looked at (a
    later entry that would be preferred by address is ignored) *)
Example C02_trans_stops_at_first :
  go_pmm_BootMemAllocator_AllocFrame (mk_go_pmm_BootMemAllocator 0 0 0 0 0x100 0x100)
    [mk_go_multiboot_MemoryMapEntry 0x8000 0x2000 1; mk_go_multiboot_MemoryMapEntry 0x1000 0x2000 1] =
  GOk (mk_go_pmm_BootMemAllocator 1 8 0 0 0x100 0x100, (8, None)).
Proof. vm_compute. reflexivity. Qed.
