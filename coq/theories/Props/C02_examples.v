(** Non-vacuity: concrete well-formed maps / kernel placements, and concrete runs of the model. *)
From Coq Require Import NArith List Lia Sorted.
From FF Require Import Lib.Word Gen.Consts_mm_pmm Pmm.Boot Pmm.BootProofs.
Import ListNotations.
Local Open Scope N_scope.

(** unaligned region of 159 whole frames, a reserved hole, a 65-frame region starting mid-page, a
    sub-page available region, a type-0 region and an adjacent 2-frame region *)
Definition ex_map : memmap :=
  [ mkRegion 0 0x9fc00 1; mkRegion 0x9fc00 0x400 2; mkRegion 0x100800 0x41800 1;
    mkRegion 0x142000 0x800 1; mkRegion 0x150000 0x1000 0; mkRegion 0x151000 0x2000 1 ].

Example C02_map_nonvacuous : WFmap ex_map.
Proof.
  split.
  - repeat constructor; unfold WFregion, two64; cbn; lia.
  - cbn. repeat split; repeat constructor; cbn; lia.
Qed.

(** kernel in the middle of the third region, end not page aligned *)
Example C02_kernel_nonvacuous : WFkernel ex_map 0x110000 0x112345.
Proof.
  split; [reflexivity|]. split; [lia|].
  exists (mkRegion 0x100800 0x41800 1). cbn. repeat split; try lia. right. right. left. reflexivity.
Qed.

(** kernel covering the first region completely, spilling into its trailing partial page *)
Example C02_kernel_whole_nonvacuous : WFkernel ex_map 0 0x9fc00.
Proof.
  split; [reflexivity|]. split; [lia|].
  exists (mkRegion 0 0x9fc00 1). cbn. repeat split; try lia. left. reflexivity.
Qed.

(** kernel inside the trailing partial page only (the placement behind the fix eed3501) *)
Example C02_kernel_tail_nonvacuous : WFkernel ex_map 0x9f000 0x9f800.
Proof.
  split; [reflexivity|]. split; [lia|].
  exists (mkRegion 0 0x9fc00 1). cbn. repeat split; try lia. left. reflexivity.
Qed.

Definition run_frames (kstart kend : N) (n : nat) : list N :=
  successes (snd (boot_run ex_map (kernel_start_frame kstart) (kernel_end_frame kend) n boot_reset)).

(** 159 + 64 + 2 frames in whole, 3 of them kernel: exhaustion after 222 frames; region 3 starts
    mid-page so its first frame is 0x101, the kernel frames 0x110..0x112 are jumped *)
(** 159 + 65 + 2 whole frames, 3 of them kernel: exhaustion after 223 frames; region 3 starts
    mid-page so its first frame is 0x101; the kernel frames 0x110..0x112 are jumped *)
Example C02_run_example :
  let fs := run_frames 0x110000 0x112345 400 in
  length fs = 223%nat /\ nth 158 fs 0 = 0x9e /\ nth 159 fs 0 = 0x101 /\
  nth 173 fs 0 = 0x10f /\ nth 174 fs 0 = 0x113 /\ last fs 0 = 0x152.
Proof. vm_compute. repeat split. Qed.

(** the kernel covers the whole first region: allocation starts in the next region *)
Example C02_run_whole_example :
  firstn 3 (run_frames 0 0x9fc00 10) = [0x101; 0x102; 0x103].
Proof. vm_compute. reflexivity. Qed.

(** kernel in the trailing partial page of region 1: frame 0xa0 is NOT handed out (eed3501) *)
Example C02_run_tail_example :
  let fs := run_frames 0x9f000 0x9f800 200 in
  nth 157 fs 0 = 0x9d /\ nth 158 fs 0 = 0x9e /\ nth 159 fs 0 = 0x101.
Proof. vm_compute. repeat split. Qed.

(** the hypothesis of the out-of-memory theorem is satisfiable: after 400 calls nothing remains *)
Example C02_oom_example :
  snd (boot_alloc ex_map (kernel_start_frame 0x110000) (kernel_end_frame 0x112345)
         (fst (boot_run ex_map (kernel_start_frame 0x110000) (kernel_end_frame 0x112345) 400 boot_reset))) = None.
Proof. vm_compute. reflexivity. Qed.
