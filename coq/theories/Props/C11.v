(** C11 — well-formed AML is parsed into a namespace that matches the program.
    Statements only; every proof is [exact <lemma>] (Aml/LexRoundtrip.v). *)
From Coq Require Import NArith List.
From FF Require Import Lib.Word Gen.Consts_device_acpi_aml Aml.Stream Aml.Lex Aml.LexProofs Aml.Grammar Aml.LexRoundtrip Aml.WfProgram Aml.C11Witness.
Import ListNotations.
Local Open Scope N_scope.

(** [lex_roundtrip] (full).  [at_token r pre tok post]: the reader is positioned in front of the bytes [tok] of a
    table pre ++ tok ++ post, the token lies inside the current package, the reader invariant holds.  Each lexer
    function returns exactly the encoded value and leaves the reader right behind the token. *)

(** PkgLength: every value in each admissible width k = 1 (v < 64), 2 (v < 2^12), 3 (v < 2^20), 4 (v < 2^28) *)
Theorem C11_lex_roundtrip_pkglen : forall k v r pre post,
  pkglen_admissible k v -> at_token r pre (enc_pkglen k v) post ->
  parsePkgLength r = Ok (v, true, set_offset_raw r (lenN pre + k)).
Proof. exact pkglen_roundtrip. Qed.
Print Assumptions C11_lex_roundtrip_pkglen.

(** numbers: n <= 8 little-endian bytes *)
Theorem C11_lex_roundtrip_num : forall (n : nat) v r pre post,
  (n <= 8)%nat -> v < 2 ^ (N.of_nat n * 8) -> at_token r pre (le_bytes n v) post ->
  parseNumConstant (N.of_nat n) r = Ok (v, true, set_offset_raw r (lenN pre + N.of_nat n)).
Proof. exact num_roundtrip. Qed.
Print Assumptions C11_lex_roundtrip_num.

(** strings: ASCII characters 1..127 and the terminator; the []byte is the string without the terminator *)
Theorem C11_lex_roundtrip_string : forall str r pre post,
  Forall ascii_char str -> at_token r pre (str ++ [0]) post ->
  parseString r = Ok (mkSlice (Some (lenN pre)) (lenN str), true, set_offset_raw r (lenN pre + lenN str + 1)).
Proof. exact string_roundtrip. Qed.
Print Assumptions C11_lex_roundtrip_string.

(** every name form: root / any number of parent prefixes, NullName, NameSeg, DualNamePath, MultiNamePath
    (fewer than 64 segments; a bare NameSeg starts with 'A'..'Z' or '_').  The []byte covers the whole encoding
    except a NullName terminator. *)
Theorem C11_lex_roundtrip_name : forall n r pre post,
  wf_name n -> at_token r pre (enc_name n) post ->
  parseNameString r = Ok (mkSlice (Some (lenN pre)) (name_slice_len n), true, set_offset_raw r (lenN pre + lenN (enc_name n))).
Proof. exact name_roundtrip. Qed.
Print Assumptions C11_lex_roundtrip_name.

(** every opcode of the generated opcode maps, one- and two-byte *)
Theorem C11_lex_roundtrip_opcode : forall op r pre post,
  valid_opcode op -> at_token r pre (enc_op op) post ->
  nextOpcode r = Ok (op, true, set_offset_raw r (lenN pre + lenN (enc_op op))).
Proof. exact opcode_roundtrip. Qed.
Print Assumptions C11_lex_roundtrip_opcode.

(** ---- the whole parser ---- *)

(** [parse_encode], the FULL statement of C11 over the model: for every well-formed sequence of tables
    ([wf_program]: admissible PkgLength widths, proper names, resolvable Scope directives and calls, declared argument
    counts, opcodes of the table with their arity), ParseAML of the encoded tables succeeds and the namespace view of
    the resulting tree (Aml/View.v: the children of a Device / Method / ... are those of its nested ScopeBlock) equals
    [ns p] (Aml/Grammar.v): every named object at its absolute path with kind and arguments in order, constants /
    strings / buffers / field units with their values, every call with callee and attached arguments. *)
Definition C11_full_parse_encode : Prop :=
  forall tables, wf_program tables = true -> parse_encode_statement tables.

(** [parse_encode] is FALSE for the current parser: one well-formed program per known finding
    (known_findings/C11.json) on which the faithful model either rejects the table or builds another namespace;
    the same programs are in corpus/C11 and fail the monitor on the real parser. *)
Theorem C11_parse_encode_refuted :
  Forall (fun p => wf_program p = true /\ ~ parse_encode_statement p)
    [w_path_through_device; w_caret_in_device; w_noncanonical_multiname; w_if_without_body;
     w_named_object_operator_arg; w_path_inside_named_object_arg; w_deferred_block_truncated;
     w_empty_buffer_in_deferred_block].
Proof. exact witnesses_all. Qed.
Print Assumptions C11_parse_encode_refuted.
