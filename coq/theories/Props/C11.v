(** C11 — well-formed AML is parsed into a namespace that matches the program.  Statements only. *)
From Coq Require Import NArith List.
From FF Require Import Lib.Word Gen.Consts_device_acpi_aml Aml.Stream Aml.Lex Aml.Grammar.
Import ListNotations.
Local Open Scope N_scope.

Theorem C11_placeholder_enc_op : forall op, op <= 0xff -> enc_op op = [op].
Proof. intros op H. unfold enc_op. apply N.leb_le in H. rewrite H. reflexivity. Qed.
Print Assumptions C11_placeholder_enc_op.
