(** Non-vacuity of the C06 theorems and concrete runs of the model. *)
From Coq Require Import NArith List Lia Bool.
From FF Require Import Lib.Word Gen.Consts_mm_vmm Vmm.Pt Vmm.PtMem Vmm.PtArith Vmm.PtTree Vmm.PtMap Vmm.PtOps Vmm.PtTheorems
     Vmm.PtInit Vmm.PtPdt Vmm.PtFault Vmm.PtCow Vmm.PtZero Vmm.PtTemp.
Import ListNotations.
Local Open Scope N_scope.

Definition LO : N := 0x200000000.
Definition boot : st := init_state LO 32 0 (map (fun k => LO + k) [1; 2; 3; 4; 5; 6; 7; 8; 9; 10; 11; 12]).

Example C06_inv_nonvacuous : Inv boot LO LO (own_root LO).
Proof.
  apply Inv_init.
  - reflexivity.
  - unfold LO. change (2 ^ 40) with 1099511627776. lia.
  - unfold ofr, LO. cbn. repeat constructor; cbn; intuition discriminate.
  - intros f Hin Hz. unfold LO in *. cbn in Hin. intuition (subst; try lia).
Qed.

(** the invariant of zero_frame_inv is established by reserveZeroedFrame on the boot state *)
Example C06_zinv_nonvacuous :
  exists s' own1, reserve_zeroed boot = Ok (s', 0) /\ ZInv s' LO own1 /\ zf s' = LO + 1.
Proof.
  destruct (reserve_zeroed_spec boot LO (own_root LO) (LO + 1) (map (fun k => LO + k) [2; 3; 4; 5; 6; 7; 8; 9; 10; 11; 12]) C06_inv_nonvacuous)
    as (s' & err & own1 & Hrun & _ & Hz & Hok).
  - reflexivity.
  - reflexivity.
  - unfold LO. discriminate.
  - intros q fl Hq. unfold translation.
    assert (Hz: forall i, i <> 511 -> ent boot LO i = 0).
    { intros i Hi. unfold boot, init_state, ent. cbn [mem]. rewrite rd_wr, rd_zero, N.eqb_refl.
      destruct (N.eqb_spec i 511); [congruence | reflexivity]. }
    rewrite (empty_space boot LO Hz q Hq). discriminate.
  - assert (E: match reserve_zeroed boot with Ok (_, e) => e | Stray => 1 end = 0) by (vm_compute; reflexivity).
    rewrite Hrun in E. subst err. destruct (Hok eq_refl) as (HZ & _).
    exists s', own1. split; [exact Hrun|]. split; assumption.
Qed.

(** a copy-on-write fault on a page sharing the zero frame: resumes with a private writable zeroed copy;
    a second page sharing the zero frame still maps it read-only; a fault on a writable page panics *)
Example C06_cow_run :
  match reserve_zeroed boot with
  | Ok (s1, _) =>
    match map_page 0x300000123 (LO + 1) 0x8000000000000201 s1 with
    | Ok (s2, _) =>
      match map_page 0x300000124 (LO + 1) 0x201 s2 with
      | Ok (s3, _) =>
        match page_fault 0x300000123abc s3 with
        | Ok (s4, out) =>
            out = 0 /\ translation s4 LO 0x300000123 = Some (LO + 8, 0x8000000000000003) /\
            translation s4 LO 0x300000124 = Some (LO + 1, 0x201) /\ translation s4 LO temp_page = None /\
            ent s4 (LO + 8) 17 = 0 /\ ent s4 (LO + 1) 17 = 0 /\
            (match page_fault 0x300000123abc s4 with Ok (_, o) => o = PANIC + E_FAULT | Stray => False end) /\
            map_page 0x300000125 (LO + 1) 3 s4 = Ok (s4, E_ZERO_RW)
        | Stray => False
        end
      | Stray => False
      end
    | Stray => False
    end
  | Stray => False
  end.
Proof. vm_compute. repeat split; reflexivity. Qed.

Example C06_cow_pre_nonvacuous :
  match reserve_zeroed boot with
  | Ok (s1, _) =>
    match map_page 0x300000123 (LO + 1) 0x201 s1 with
    | Ok (s2, _) => cow_pre s2 LO (page_from_addr 0x300000123abc) = Some ((LO + 1) * 4096 + 0x201)
    | Stray => False
    end
  | Stray => False
  end.
Proof. vm_compute. reflexivity. Qed.
