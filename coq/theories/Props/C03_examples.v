(** Non-vacuity for C03, and the witness for the known finding. *)
From Coq Require Import NArith List Lia Sorted Bool.
From FF Require Import Lib.Word Gen.Consts_mm_pmm Pmm.Boot Pmm.BootProofs Pmm.Bitmap Pmm.BitmapProofs Pmm.HistoryProofs
  Pmm.InitProofs Pmm.TopProofs Props.C01_examples.
Import ListNotations.
Local Open Scope N_scope.

Example C03_init_nonvacuous :
  WFmap pm_map /\ WFkernel pm_map pm_kstart pm_kend /\ small_map pm_map /\
  pm_init_result = (InitOk pm_a0 pm_b0, snd pm_init_result).
Proof.
  split; [exact C01_map_nonvacuous|]. split; [exact C01_kernel_nonvacuous|]. split; [exact C01_small_nonvacuous|].
  exact (proj1 C01_init_nonvacuous).
Qed.

(** usable frames: 194 whole frames of available RAM minus kernel frames 3,4,5 minus early frame 1 *)
Example C03_usable_count_example :
  total_frames pm_map = 194 /\ usable_count pm_map pm_kstart pm_kend [1] = 190.
Proof. vm_compute. split; reflexivity. Qed.

(** the totals after each step of the example history *)
Example C03_stats_example :
  map (fun ra => (a_total (snd ra), a_reserved (snd ra))) (run pm_a0 pm_ops) =
  [(194, 5); (194, 6); (194, 5); (194, 5); (194, 5); (194, 5); (194, 5); (194, 6); (194, 7)].
Proof. vm_compute. reflexivity. Qed.

(** the seams failing: errors, not crashes *)
Example C03_seam_examples :
  fst (pmm_init pm_map pm_kstart pm_kend 4095 0) = InitErrReserve /\
  fst (pmm_init pm_map pm_kstart pm_kend two64 1) = InitErrMap /\
  fst (pmm_init [mkRegion 0x3000 0x3000 1] 0x3000 0x6000 two64 0) = InitErrOOM.
Proof. vm_compute. repeat split. Qed.

(** a one-frame region holding the kernel image (panicked before b196d33) *)
Example C03_one_frame_region_example :
  match fst (pmm_init [mkRegion 0x1000 0x1000 1; mkRegion 0x10000 0x41000 1] 0x1000 0x2000 two64 0) with
  | InitOk a _ => a_total a = 66 /\ a_reserved a = 2
  | _ => False
  end.
Proof. vm_compute. split; reflexivity. Qed.
