(** A concrete run of the regenerated generalProtectionFaultHandler: the error of the panic and the second format string. *)
From Coq Require Import NArith String List Bool.
From FF Require Import Lib.Word Lib.GoOps Gen.Consts_mm_vmm Gen.Trans_vmm_gpf Vmm.Pt Vmm.PtAccess.
From FF Require Vmm.GpfTrans Vmm.PdtTrans.
Module G := FF.Vmm.GpfTrans.
Import ListNotations.
Local Open Scope N_scope.

Example gpf_run :
  let s := init_state 0x100 64 0 [] in
  match go_vmm_generalProtectionFaultHandler (mk_go_vmm_world [] s) 0xdead000 (G.o_pure 7) (G.o_pure tt) (G.o_pure tt) (G.o_pure 0x1234) (G.o_pure tt) with
  | GOk (w, _) => Some (hd (GCall "" []) (f_world_trace w), length (f_world_trace w), digest (f_world_mem w))
  | _ => None
  end = Some (GCall "panic" [err_arg (Some "errUnrecoverableFault"%string)], 6%nat, digest s)
  /\ G.bytes_of G.gpf_fmt2 = [82; 101; 103; 105; 115; 116; 101; 114; 115; 58; 10].
Proof. vm_compute. split; reflexivity. Qed.
