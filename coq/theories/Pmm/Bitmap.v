(** Model of kernel/mm/pmm/bitmap_allocator.go and pmm.go (Init) on top of Pmm/Boot.v.
    Definitions only.

    A pool's bitmap is the list of its 64-bit words ([freeBitmapHdr.Len] of them, computed with the
    same sizing arithmetic as the Go code, uint32 / uintptr wrap-around included); bit order is
    big-endian ([mask = 1 << (63 - offset)]); [freeCount], [totalPages], [reservedPages] are
    wrapped uint32 counters.  A word index outside the bitmap is the explicit outcome [Panic]
    (Go: index out of range); nothing is hidden behind a default. *)
From Coq Require Import NArith List Bool.
From FF Require Import Lib.Word Gen.Consts_mm_pmm Pmm.Boot.
Import ListNotations.
Local Open Scope N_scope.

Definition max64 : N := two64 - 1.
Definition dec32 (x : N) : N := w32 (x + (two32 - 1)).      (* x-- on uint32 *)
Definition inc32 (x : N) : N := w32 (x + 1).                (* x++ on uint32 *)

Record pool := mkPool { p_start : N; p_end : N; p_free : N; p_bitmap : list N }.
Record balloc := mkBA { a_total : N; a_reserved : N; a_pools : list pool }.

Definition zero_pool : pool := mkPool 0 0 0 [].
Definition empty_alloc : balloc := mkBA 0 0 [].

(** ---- setupPoolBitmaps ---- *)

(** does the region provide a pool?  (available, and at least one whole page:
    [regionEndFrame+1 <= regionStartFrame] skips it) *)
Definition pool_region (r : region) : bool :=
  is_avail r && negb (w64 (region_end_frame r + 1) <=? region_start_frame r).

(** uintptr(regionEndFrame - regionStartFrame + 1) *)
Definition region_frames (r : region) : N := w64 (sub64 (region_end_frame r) (region_start_frame r) + 1).

(** first pass: (poolsHdr.Len, totalPages, requiredBitmapBytes) *)
Definition pass1_step (acc : N * N * N) (r : region) : N * N * N :=
  let '(npools, total, req) := acc in
  if pool_region r then
    let pageCount := w32 (region_frames r) in
    (npools + 1, w32 (total + pageCount),
     w64 (req + N.shiftr (andnot (w32 (pageCount + 63)) 63) 3))
  else acc.

Definition pass1 (m : memmap) (total0 : N) : N * N * N := fold_left pass1_step m (0, total0, 0).

Definition required_bytes (npools req : N) : N :=
  andnot (w64 (w64 (npools * pmm_sizeofFramePool) + req + pmask)) pmask.

(** second pass: one pool per providing region; [bitmapBytes] is computed in uintptr arithmetic *)
Definition bitmap_bytes (r : region) : N := N.shiftr (andnot (w64 (region_frames r + 63)) 63) 3.

Definition pool_of_region (r : region) : pool :=
  mkPool (region_start_frame r) (region_end_frame r) (w32 (region_frames r))
         (repeat 0 (N.to_nat (N.shiftr (bitmap_bytes r) 3))).

Definition pass2 (m : memmap) : list pool := map pool_of_region (filter pool_region m).

(** bytes of the reserved block used by the pool headers and bitmaps as laid out by pass 2 *)
Definition layout_bytes (m : memmap) (npools : N) : N :=
  npools * pmm_sizeofFramePool + fold_left (fun acc r => acc + bitmap_bytes r) (filter pool_region m) 0.

(** ---- markFrame / poolForFrame ---- *)
Inductive outcome (A : Type) : Type :=
| Ok (a : A)
| Panic          (* Go run-time panic: index out of range *)
| Hang.          (* a loop that cannot terminate *)
Arguments Ok {A} a.
Arguments Panic {A}.
Arguments Hang {A}.

Definition bit_mask (rel : N) : N := N.shiftl 1 (63 - (rel - N.shiftl (N.shiftr rel 6) 6)).

(** [l[i]] for a machine-word index: [None] = index out of range *)
Definition nth_errorN {A} (l : list A) (i : N) : option A :=
  if i <? N.of_nat (length l) then nth_error l (N.to_nat i) else None.

Fixpoint set_nth (i : nat) (w : N) (l : list N) : list N :=
  match l, i with
  | [], _ => []
  | _ :: tl, O => w :: tl
  | h :: tl, S i' => h :: set_nth i' w tl
  end.

Fixpoint pool_for_frame_from (idx : nat) (ps : list pool) (f : N) : option nat :=
  match ps with
  | [] => None
  | p :: rest => if (p_start p <=? f) && (f <=? p_end p) then Some idx else pool_for_frame_from (S idx) rest f
  end.
Definition pool_for_frame (a : balloc) (f : N) : option nat := pool_for_frame_from 0 (a_pools a) f.

Fixpoint update_pool (i : nat) (p' : pool) (ps : list pool) : list pool :=
  match ps, i with
  | [], _ => []
  | _ :: tl, O => p' :: tl
  | h :: tl, S i' => h :: update_pool i' p' tl
  end.

(** markFrame(poolIndex, frame, markReserved); [None] = poolIndex < 0 *)
Definition mark_reserved (a : balloc) (pi : option nat) (f : N) : outcome balloc :=
  match pi with
  | None => Ok a
  | Some i =>
      match nth_error (a_pools a) i with
      | None => Panic
      | Some p =>
          if p_end p <? f then Ok a else
          let rel := sub64 f (p_start p) in
          let block := N.shiftr rel 6 in
          match nth_errorN (p_bitmap p) block with
          | None => Panic
          | Some w =>
              let p' := mkPool (p_start p) (p_end p) (dec32 (p_free p)) (set_nth (N.to_nat block) (N.lor w (bit_mask rel)) (p_bitmap p)) in
              Ok (mkBA (a_total a) (inc32 (a_reserved a)) (update_pool i p' (a_pools a)))
          end
      end
  end.

Definition obind {A B} (o : outcome A) (f : A -> outcome B) : outcome B :=
  match o with Ok a => f a | Panic => Panic | Hang => Hang end.

(** reserveKernelFrames: [for frame := ks; frame <= ke; frame++ { markFrame(poolIndex, frame) }].
    Calls with [frame > endFrame] return at once, so the loop is run up to [min ke endFrame];
    [ke = 2^64-1] makes the Go loop condition always true. *)
Definition reserve_kernel (a : balloc) (ks ke : N) : outcome balloc :=
  if ke =? max64 then Hang else
  match pool_for_frame a ks with
  | None => Ok a
  | Some i =>
      match nth_error (a_pools a) i with
      | None => Panic
      | Some p =>
          let stop := N.min ke (p_end p) in
          let count := if ks <=? stop then stop + 1 - ks else 0 in
          snd (N.iter count (fun st : N * outcome balloc =>
                 let '(f, o) := st in (f + 1, obind o (fun a' => mark_reserved a' (Some i) f)))
               (ks, Ok a))
      end
  end.

(** reserveEarlyAllocatorFrames: reset the boot allocator and replay allocCount allocations *)
Definition reserve_early (m : memmap) (ks ke : N) (a : balloc) (bst : bstate) : bstate * outcome balloc :=
  N.iter (b_count bst) (fun st : bstate * outcome balloc =>
     let '(b, o) := st in
     let '(b', r) := boot_alloc m ks ke b in
     let f := match r with Some f => f | None => mm_InvalidFrame end in
     (b', obind o (fun a' => mark_reserved a' (pool_for_frame a' f) f)))
   (boot_reset, Ok a).

(** ---- Init ---- *)
Inductive init_result :=
| InitOk (a : balloc) (b : bstate)
| InitErrReserve | InitErrMap | InitErrOOM
| InitPanic | InitHang
| InitStray.     (* pool headers / bitmaps would not fit the block that was reserved *)

(** calls seen by the mapFn seam: (page index relative to the reserved block, frame, flags) *)
Definition mapcall : Type := (N * N * N)%type.

(** the page-mapping loop: [requiredPages] early allocations, each mapped *)
Inductive maploop := MGo (b : bstate) (calls : list mapcall) | MErrOOM (b : bstate) (calls : list mapcall) | MErrMap (b : bstate) (calls : list mapcall).

Definition map_pages (m : memmap) (ks ke : N) (pages mapfail : N) : maploop :=
  snd (N.iter pages (fun st : N * maploop =>
         let '(i, ml) := st in
         (i + 1,
          match ml with
          | MGo b calls =>
              match boot_alloc m ks ke b with
              | (b', None) => MErrOOM b' calls
              | (b', Some f) =>
                  let calls' := calls ++ [(i, f, pmm_mapFlags)] in
                  if (mapfail =? i + 1) then MErrMap b' calls' else MGo b' calls'
              end
          | other => other
          end))
       (0, MGo boot_reset [])).

Record init_obs := mkObs { o_req : N; o_calls : list mapcall }.

(** pmm.Init(kernelStart, kernelEnd) on fresh (zero-valued) allocators.
    [reserve_limit]: the reserveRegionFn seam fails for larger requests; [mapfail]: the mapFn seam
    fails at call number [mapfail] (1-based, 0 = never). *)
Definition pmm_init (m : memmap) (kstart kend reserve_limit mapfail : N) : init_result * init_obs :=
  let ks := kernel_start_frame kstart in
  let ke := kernel_end_frame kend in
  let '(npools, total, req) := pass1 m 0 in
  let bytes := required_bytes npools req in
  if reserve_limit <? bytes then (InitErrReserve, mkObs bytes []) else
  match map_pages m ks ke (N.shiftr bytes PageShift) mapfail with
  | MErrOOM _ calls => (InitErrOOM, mkObs bytes calls)
  | MErrMap _ calls => (InitErrMap, mkObs bytes calls)
  | MGo b calls =>
      let obs := mkObs bytes calls in
      let pools := pass2 m in
      if negb (N.of_nat (length pools) =? npools) then (InitPanic, obs) else
      if bytes <? layout_bytes m npools then (InitStray, obs) else
      let a0 := mkBA total 0 pools in
      match reserve_kernel a0 ks ke with
      | Panic => (InitPanic, obs)
      | Hang => (InitHang, obs)
      | Ok a1 =>
          match reserve_early m ks ke a1 b with
          | (_, Panic) => (InitPanic, obs)
          | (_, Hang) => (InitHang, obs)
          | (b', Ok a2) => (InitOk a2 b', obs)
          end
      end
  end.

(** ---- AllocFrame ---- *)

(** scan of one block from the most significant bit: offset of the first clear bit *)
Fixpoint scan_bits (fuel : nat) (off : N) (mask block : N) : option (N * N) :=
  match fuel with
  | O => None
  | S fuel' =>
      if mask =? 0 then None
      else if N.land block mask =? 0 then Some (off, mask)
      else scan_bits fuel' (off + 1) (N.shiftr mask 1) block
  end.

(** scan of a pool's bitmap: (block index, offset, mask) of the first clear bit *)
Fixpoint scan_blocks (idx : N) (ws : list N) : option (N * N * N) :=
  match ws with
  | [] => None
  | w :: rest =>
      if w =? max64 then scan_blocks (idx + 1) rest
      else match scan_bits 64 0 (N.shiftl 1 63) w with
           | Some (off, mask) => Some (idx, off, mask)
           | None => scan_blocks (idx + 1) rest
           end
  end.

(** one pool: skipped when its freeCount is 0; otherwise the first clear bit (if any) is taken *)
Definition try_pool (p : pool) : option (N * pool) :=
  if p_free p =? 0 then None else
  match scan_blocks 0 (p_bitmap p) with
  | None => None
  | Some (bi, off, mask) =>
      let w := nth (N.to_nat bi) (p_bitmap p) 0 in
      Some (w64 (p_start p + w64 (N.shiftl bi 6 + off)),
            mkPool (p_start p) (p_end p) (dec32 (p_free p)) (set_nth (N.to_nat bi) (N.lor w mask) (p_bitmap p)))
  end.

Fixpoint alloc_pools (ps : list pool) : option (N * list pool) :=
  match ps with
  | [] => None
  | p :: rest =>
      match try_pool p with
      | Some (f, p') => Some (f, p' :: rest)
      | None => match alloc_pools rest with Some (f, rest') => Some (f, p :: rest') | None => None end
      end
  end.

(** [Some frame] or [None] = errBitmapAllocOutOfMemory (mm.InvalidFrame) *)
Definition bitmap_alloc (a : balloc) : balloc * option N :=
  match alloc_pools (a_pools a) with
  | Some (f, ps) => (mkBA (a_total a) (inc32 (a_reserved a)) ps, Some f)
  | None => (a, None)
  end.

(** ---- FreeFrame ---- *)
Inductive free_result := FreeOk | FreeNotManaged | FreeDoubleFree | FreePanic.

Definition bitmap_free (a : balloc) (f : N) : balloc * free_result :=
  match pool_for_frame a f with
  | None => (a, FreeNotManaged)
  | Some i =>
      match nth_error (a_pools a) i with
      | None => (a, FreePanic)
      | Some p =>
          let rel := sub64 f (p_start p) in
          let block := N.shiftr rel 6 in
          match nth_errorN (p_bitmap p) block with
          | None => (a, FreePanic)
          | Some w =>
              if N.land w (bit_mask rel) =? 0 then (a, FreeDoubleFree) else
              let p' := mkPool (p_start p) (p_end p) (inc32 (p_free p)) (set_nth (N.to_nat block) (andnot w (bit_mask rel)) (p_bitmap p)) in
              (mkBA (a_total a) (dec32 (a_reserved a)) (update_pool i p' (a_pools a)), FreeOk)
          end
      end
  end.

(** ---- histories ---- *)
Inductive op := OpAlloc | OpFree (f : N).
Inductive res := RAlloc (r : option N) | RFree (r : free_result).

Definition step (a : balloc) (o : op) : balloc * res :=
  match o with
  | OpAlloc => let '(a', r) := bitmap_alloc a in (a', RAlloc r)
  | OpFree f => let '(a', r) := bitmap_free a f in (a', RFree r)
  end.

(** a panic ends the history (the kernel would have stopped) *)
Fixpoint run (a : balloc) (ops : list op) : list (res * balloc) :=
  match ops with
  | [] => []
  | o :: rest =>
      let '(a', r) := step a o in
      match r with
      | RFree FreePanic => [(r, a')]
      | _ => (r, a') :: run a' rest
      end
  end.

(** ---- flat encoding for the correspondence driver (see harness zz_verif_pmm_test.go) ----
    case = selector :: nregions :: (addr len type)* ++ [kstart; kend; reserveLimit; mapFail] ++ ops
    ops  : 0 = alloc | 1 f = free f | 2 k = free the (k mod n)-th successful allocation so far *)
Definition enc_calls (cs : list mapcall) : list N :=
  N.of_nat (length cs) :: flat_map (fun c => let '(p, f, fl) := c in [p; f; fl]) cs.

Definition free_code (r : free_result) : N :=
  match r with FreeOk => 0 | FreeNotManaged => 1 | FreeDoubleFree => 2 | FreePanic => 9 end.

(** [results]: the frames returned by successful allocations so far, most recent first, [n] of them *)
Fixpoint run_ops (fuel : nat) (a : balloc) (n : N) (results : list N) (l : list N) : list N :=
  match fuel with O => [] | S fuel' =>
  match l with
  | 0 :: rest =>
      let '(a', r) := bitmap_alloc a in
      match r with
      | Some f => [1; f; a_total a'; a_reserved a'] ++ run_ops fuel' a' (n + 1) (f :: results) rest
      | None => [0; mm_InvalidFrame; a_total a'; a_reserved a'] ++ run_ops fuel' a' n results rest
      end
  | 1 :: f :: rest =>
      let '(a', r) := bitmap_free a f in
      match r with
      | FreePanic => [9]
      | _ => [free_code r; a_total a'; a_reserved a'] ++ run_ops fuel' a' n results rest
      end
  | 2 :: k :: rest =>
      if n =? 0 then run_ops fuel' a n results rest else
      let f := nth (N.to_nat (n - 1 - k mod n)) results 0 in
      let '(a', r) := bitmap_free a f in
      match r with
      | FreePanic => [9]
      | _ => [free_code r; a_total a'; a_reserved a'] ++ run_ops fuel' a' n results rest
      end
  | _ => []
  end end.

Definition run_case (l : list N) : list N :=
  match l with
  | _sel :: n :: rest =>
      let '(m, tl) := dec_regions (N.to_nat n) rest in
      match tl with
      | kstart :: kend :: limit :: mapfail :: ops =>
          let '(r, obs) := pmm_init m kstart kend limit mapfail in
          let code := match r with
                      | InitOk _ _ => 0 | InitErrReserve => 1 | InitErrMap => 2 | InitErrOOM => 3
                      | InitStray => 7 | InitPanic => 9 | InitHang => 10 end in
          [code; o_req obs] ++ enc_calls (o_calls obs) ++
          match r with
          | InitOk a _ => [a_total a; a_reserved a] ++ run_ops (length ops) a 0 [] ops
          | _ => []
          end
      | _ => []
      end
  | _ => []
  end.
