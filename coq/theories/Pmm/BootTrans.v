(** The hand-written model of the early-boot allocator (Pmm/Boot.v: [kernel_start_frame], [kernel_end_frame],
    [boot_visit], [boot_scan], [boot_alloc] - the functions the C02 theorems are about) IS the Gallina translation that
    gen/gotrans regenerates from kernel/mm/pmm/bootmem_allocator.go on every run (Gen/Trans_pmm_boot.v:
    BootMemAllocator.init, BootMemAllocator.AllocFrame).

    The translation works on records generated from the Go structs BootMemAllocator (allocCount, lastAllocFrame,
    kernelStartAddr, kernelEndAddr, kernelStartFrame, kernelEndFrame) and multiboot.MemoryMapEntry (PhysAddress,
    Length, Type); [to_ga] / [to_gr] map the model's state and regions to them (both are onto).
    AllocFrame hands a closure to multiboot.VisitMemRegions: gen/gotrans (config "visitors", ext_visitor.go) makes
    that call a [gvisit] (Lib/GoVisit.v) of the closure body over an extra parameter [regions] - the sequence of entries
    the visitor presents, in order; `return true` = next entry, `return false` = stop; the receiver and the captured
    [err] are loop-carried.  The contract of VisitMemRegions itself is not part of this tie (property C10). *)
From Coq Require Import NArith ZArith String List Bool Lia.
From Coq Require Import ZifyBool ZifyN ZifyNat.
From FF Require Import Lib.Word Lib.GoOps Lib.GoOpsProofs Lib.GoVisit Gen.Consts_mm_pmm Gen.Trans_pmm_boot.
From FF Require Import Pmm.Boot Pmm.BootProofs.
Import ListNotations.
Local Open Scope N_scope.
Ltac Zify.zify_post_hook ::= Z.div_mod_to_equations.

(** ---- the abstraction ---- *)
Definition to_gr (r : region) : go_multiboot_MemoryMapEntry :=
  mk_go_multiboot_MemoryMapEntry (r_addr r) (r_len r) (r_type r).

(** [ka kb]: kernelStartAddr / kernelEndAddr (only printed by the Go code); [ks ke]: kernelStartFrame / kernelEndFrame *)
Definition to_ga (ka kb ks ke : N) (st : bstate) : go_pmm_BootMemAllocator :=
  mk_go_pmm_BootMemAllocator (b_count st) (b_last st) ka kb ks ke.

Lemma to_gr_onto (g : go_multiboot_MemoryMapEntry) : exists r, g = to_gr r.
Proof. destruct g as [a l t]. exists (mkRegion a l t). reflexivity. Qed.

Lemma to_gr_list_onto (gs : list go_multiboot_MemoryMapEntry) : exists m, gs = map to_gr m.
Proof.
  induction gs as [|g gs [m ->]]; [exists []; reflexivity|].
  destruct (to_gr_onto g) as [r ->]. exists (r :: m). reflexivity.
Qed.

Lemma to_ga_onto (g : go_pmm_BootMemAllocator) : exists ka kb ks ke st, g = to_ga ka kb ks ke st.
Proof. destruct g as [c l ka kb ks ke]. exists ka, kb, ks, ke, (mkB c l). reflexivity. Qed.

Ltac asimp :=
  cbn [to_ga to_gr b_count b_last r_addr r_len r_type
       f_BootMemAllocator_allocCount f_BootMemAllocator_lastAllocFrame f_BootMemAllocator_kernelStartAddr
       f_BootMemAllocator_kernelEndAddr f_BootMemAllocator_kernelStartFrame f_BootMemAllocator_kernelEndFrame
       set_f_BootMemAllocator_allocCount set_f_BootMemAllocator_lastAllocFrame set_f_BootMemAllocator_kernelStartAddr
       set_f_BootMemAllocator_kernelEndAddr set_f_BootMemAllocator_kernelStartFrame set_f_BootMemAllocator_kernelEndFrame
       f_MemoryMapEntry_PhysAddress f_MemoryMapEntry_Length f_MemoryMapEntry_Type].

(** ---- Go's operators on the page constants are the model's ---- *)
Lemma go_pagesize : gw 64 mm_PageSize = PageSize.
Proof. reflexivity. Qed.

Lemma go_pmask : gsub 64 mm_PageSize 1 = pmask.
Proof. reflexivity. Qed.

Lemma go_pmask' : gw 64 (gsub 64 mm_PageSize 1) = pmask.
Proof. reflexivity. Qed.

Lemma pmask_lt : pmask < two64.
Proof. reflexivity. Qed.

Lemma gsub64_sub64 a b : gsub 64 a b = sub64 a b.
Proof. reflexivity. Qed.

(** [Frame((x & ^pageSizeMinus1) >> PageShift)] for a 64-bit [x] *)
Lemma go_frame_down x : x < two64 ->
  gw 64 (N.shiftr (N.land x (gnot 64 pmask)) mm_PageShift) = frame_down x.
Proof.
  intros H. rewrite (land_gnot64 x pmask H pmask_lt).
  change (N.shiftr (N.ldiff x pmask) mm_PageShift) with (frame_down x).
  apply gw64_small. rewrite frame_down_eq. unfold two64 in *. lia.
Qed.

Lemma go_frame_down_w x :
  gw 64 (N.shiftr (N.land (gw 64 x) (gnot 64 pmask)) mm_PageShift) = frame_down (w64 x).
Proof. rewrite (gw64 x). apply go_frame_down. apply w64_lt. Qed.

(** ---- init ---- *)
(** BootMemAllocator.init(kernelStart, kernelEnd) stores the two addresses and the model's [kernel_start_frame] /
    [kernel_end_frame]; the counter and the cursor are untouched.  [kstart] is a uintptr. *)
Theorem bootInit_is_translation : forall (ka kb ks ke : N) (st : bstate) (kstart kend : N),
  kstart < 2 ^ 64 ->
  go_pmm_BootMemAllocator_init (to_ga ka kb ks ke st) kstart kend =
  GOk (to_ga kstart kend (kernel_start_frame kstart) (kernel_end_frame kend) st, tt).
Proof.
  intros ka kb ks ke st kstart kend Hk. unfold go_pmm_BootMemAllocator_init. cbv zeta. asimp.
  rewrite go_pmask. rewrite go_frame_down_w. rewrite (go_frame_down kstart Hk). rewrite gsub64_sub64.
  reflexivity.
Qed.

(** ---- one call of the closure = [boot_visit] ---- *)
(** what the closure leaves in [err]: nil exactly when it stops the scan *)
Definition err_after (stop : bool) (err : option string) : option string := if stop then None else err.

Section Scan.
  Variables ka kb ks ke count : N.

  Definition closure_spec (step : go_multiboot_MemoryMapEntry -> go_pmm_BootMemAllocator * option string ->
                                  gres ((go_pmm_BootMemAllocator * option string) * bool)) : Prop :=
    forall (r : region) (last : N) (err : option string),
      step (to_gr r) (to_ga ka kb ks ke (mkB count last), err) =
      GOk ((to_ga ka kb ks ke (mkB count (fst (boot_visit ks ke count last r))),
            err_after (snd (boot_visit ks ke count last r)) err),
           negb (snd (boot_visit ks ke count last r))).

  (** the whole visit = [boot_scan] *)
  Lemma scan_is_gvisit step : closure_spec step ->
    forall (m : memmap) (last : N) (err : option string),
      gvisit step (map to_gr m) (to_ga ka kb ks ke (mkB count last), err) =
      GOk (to_ga ka kb ks ke (mkB count (fst (boot_scan ks ke count last m))),
           err_after (snd (boot_scan ks ke count last m)) err).
  Proof.
    intros H. induction m as [|r m IH]; intros last err; [reflexivity|].
    cbn [map gvisit boot_scan]. rewrite H.
    destruct (boot_visit ks ke count last r) as [l [|]]; cbn [fst snd negb err_after].
    - reflexivity.
    - apply IH.
  Qed.
End Scan.

(** ---- AllocFrame ---- *)
Definition err_oom : option string := Some "errBootAllocOutOfMemory"%string.

(** what AllocFrame returns for the model's outcome *)
Definition go_result (res : option N) : N * option string :=
  match res with Some f => (f, None) | None => (mm_InvalidFrame, err_oom) end.

Theorem bootAllocFrame_is_translation : forall (ka kb ks ke : N) (st : bstate) (m : memmap),
  go_pmm_BootMemAllocator_AllocFrame (to_ga ka kb ks ke st) (map to_gr m) =
  GOk (to_ga ka kb ks ke (fst (boot_alloc m ks ke st)), go_result (snd (boot_alloc m ks ke st))).
Proof.
  intros ka kb ks ke [count last] m. unfold go_pmm_BootMemAllocator_AllocFrame. cbv zeta.
  rewrite (scan_is_gvisit ka kb ks ke count).
  - unfold boot_alloc. cbn [b_count b_last].
    destruct (boot_scan ks ke count last m) as [l [|]]; cbn [fst snd err_after gerr_eqb negb]; asimp; reflexivity.
  - intros r lst err. asimp.
    rewrite go_pagesize, go_pmask'. rewrite !go_frame_down_w. rewrite !gsub64_sub64. change (gw 64) with w64.
    unfold boot_visit, region_start_frame, region_end_frame, frame_up, is_avail.
    generalize (frame_down (w64 (r_addr r + pmask))). intros rs.
    generalize (sub64 (frame_down (w64 (r_addr r + r_len r))) 1). intros re.
    destruct (negb (r_type r =? multiboot_MemAvailable) || (r_len r <? PageSize)); [reflexivity|].
    destruct (re <=? lst); [reflexivity|].
    destruct ((lst <=? rs) && (ks =? rs) || (rs <=? lst) && (lst <=? re) && (w64 (lst + 1) =? ks)).
    + destruct (re <? w64 (ke + 1)); reflexivity.
    + destruct ((lst <? rs) || (count =? 0)).
      * destruct (re <? rs); reflexivity.
      * destruct (re <? w64 (lst + 1)); reflexivity.
Qed.
