(** Bit-level lemmas for the bitmap allocator proofs (C01/C03): big-endian bit numbering inside
    64-bit words, setting / clearing / testing one bit, and the first-clear-bit scan. *)
From Coq Require Import NArith ZArith Lia List Bool.
From Coq Require Import ZifyBool ZifyN ZifyNat.
From FF Require Import Lib.Word Gen.Consts_mm_pmm Pmm.Boot Pmm.Bitmap.
Import ListNotations.
Local Open Scope N_scope.
Ltac Zify.zify_post_hook ::= Z.div_mod_to_equations.

(** bit [i] of a bitmap: word [i/64], bit [63 - i mod 64] *)
Definition bitf (ws : list N) (i : N) : bool :=
  N.testbit (nth (N.to_nat (i / 64)) ws 0) (63 - i mod 64).

(** number of clear bits among the first [n] *)
Fixpoint cnt (f : N -> bool) (n : nat) : N :=
  match n with
  | O => 0
  | S k => cnt f k + (if f (N.of_nat k) then 0 else 1)
  end.

Lemma bit_mask_eq rel : bit_mask rel = 2 ^ (63 - rel mod 64).
Proof.
  unfold bit_mask. rewrite N.shiftl_1_l, N.shiftr_div_pow2, N.shiftl_mul_pow2.
  change (2 ^ 6) with 64. f_equal. lia.
Qed.

Lemma land_pow2_eq0 w k : (N.land w (2 ^ k) =? 0) = negb (N.testbit w k).
Proof.
  destruct (N.testbit w k) eqn:E; cbn.
  - apply N.eqb_neq. intros H.
    assert (T: N.testbit (N.land w (2 ^ k)) k = true) by (rewrite N.land_spec, E, N.pow2_bits_true; reflexivity).
    rewrite H in T. rewrite N.bits_0 in T. discriminate.
  - apply N.eqb_eq. apply N.bits_inj_0. intros j. rewrite N.land_spec, N.pow2_bits_eqb.
    destruct (N.eqb_spec k j) as [->|]; [rewrite E; reflexivity|apply andb_false_r].
Qed.

(** ---- lists of words ---- *)
Lemma nth_set_nth : forall (l : list N) i j w d,
  nth j (set_nth i w l) d = if (Nat.eqb j i && Nat.ltb i (length l))%bool then w else nth j l d.
Proof.
  induction l as [|h t IH]; intros i j w d.
  - cbn. destruct i, j; cbn; try reflexivity; rewrite andb_false_r; reflexivity.
  - destruct i as [|i], j as [|j]; cbn [set_nth nth length]; try reflexivity.
    rewrite IH. reflexivity.
Qed.

Lemma length_set_nth : forall (l : list N) i w, length (set_nth i w l) = length l.
Proof. induction l as [|h t IH]; intros [|i] w; cbn; auto. Qed.

Lemma nth_errorN_some {A} (l : list A) (i : N) (x : A) :
  nth_errorN l i = Some x -> i < N.of_nat (length l) /\ nth_error l (N.to_nat i) = Some x.
Proof.
  unfold nth_errorN. destruct (N.ltb_spec i (N.of_nat (length l))); [auto|discriminate].
Qed.

Lemma nth_errorN_lt {A} (l : list A) (i : N) :
  i < N.of_nat (length l) -> exists x, nth_errorN l i = Some x.
Proof.
  intros H. unfold nth_errorN. destruct (N.ltb_spec i (N.of_nat (length l))); [|lia].
  destruct (nth_error l (N.to_nat i)) eqn:E; [eauto|].
  apply nth_error_None in E. lia.
Qed.

(** ---- one bit set / cleared ---- *)
Lemma bitf_set ws i w :
  i / 64 < N.of_nat (length ws) ->
  nth (N.to_nat (i / 64)) ws 0 = w ->
  forall j, bitf (set_nth (N.to_nat (i / 64)) (N.lor w (2 ^ (63 - i mod 64))) ws) j = bitf ws j || (j =? i).
Proof.
  intros Hlen Hw j. unfold bitf. rewrite nth_set_nth.
  destruct (Nat.eqb_spec (N.to_nat (j / 64)) (N.to_nat (i / 64))) as [E|E]; cbn [andb].
  - assert (Hlt: Nat.ltb (N.to_nat (i / 64)) (length ws) = true) by (apply Nat.ltb_lt; lia).
    rewrite Hlt. rewrite N.lor_spec, N.pow2_bits_eqb. rewrite E, Hw.
    f_equal. assert (j / 64 = i / 64) by lia.
    destruct (N.eqb_spec j i) as [->|Hne]; [apply N.eqb_refl|].
    apply N.eqb_neq. lia.
  - destruct (N.eqb_spec j i) as [->|Hne]; [contradiction|]. rewrite orb_false_r. reflexivity.
Qed.

Lemma bitf_clear ws i w :
  i / 64 < N.of_nat (length ws) ->
  nth (N.to_nat (i / 64)) ws 0 = w ->
  forall j, bitf (set_nth (N.to_nat (i / 64)) (andnot w (2 ^ (63 - i mod 64))) ws) j = bitf ws j && negb (j =? i).
Proof.
  intros Hlen Hw j. unfold bitf, andnot. rewrite nth_set_nth.
  destruct (Nat.eqb_spec (N.to_nat (j / 64)) (N.to_nat (i / 64))) as [E|E]; cbn [andb].
  - assert (Hlt: Nat.ltb (N.to_nat (i / 64)) (length ws) = true) by (apply Nat.ltb_lt; lia).
    rewrite Hlt. rewrite N.ldiff_spec, N.pow2_bits_eqb. rewrite E, Hw.
    f_equal. f_equal. assert (j / 64 = i / 64) by lia.
    destruct (N.eqb_spec j i) as [->|Hne]; [apply N.eqb_refl|].
    apply N.eqb_neq. lia.
  - destruct (N.eqb_spec j i) as [->|Hne]; [contradiction|]. rewrite andb_true_r. reflexivity.
Qed.

Lemma bitf_test ws i w :
  nth (N.to_nat (i / 64)) ws 0 = w ->
  (N.land w (2 ^ (63 - i mod 64)) =? 0) = negb (bitf ws i).
Proof. intros Hw. rewrite land_pow2_eq0. unfold bitf. rewrite Hw. reflexivity. Qed.

(** ---- counting ---- *)
Lemma cnt_ext f g n : (forall i, i < N.of_nat n -> f i = g i) -> cnt f n = cnt g n.
Proof.
  induction n as [|n IH]; intros H; cbn [cnt]; [reflexivity|].
  rewrite IH by (intros; apply H; lia). rewrite H by lia. reflexivity.
Qed.

Lemma cnt_le f n : cnt f n <= N.of_nat n.
Proof. induction n as [|n IH]; cbn [cnt]; [lia|]. destruct (f (N.of_nat n)); lia. Qed.

Lemma cnt_pos f n i : i < N.of_nat n -> f i = false -> 1 <= cnt f n.
Proof.
  induction n as [|n IH]; intros Hi Hf; [lia|]. cbn [cnt].
  destruct (N.eq_dec i (N.of_nat n)) as [->|Hne]; [rewrite Hf; lia|].
  assert (1 <= cnt f n) by (apply IH; [lia|assumption]). lia.
Qed.

Lemma cnt_zero f n : cnt f n = 0 -> forall i, i < N.of_nat n -> f i = true.
Proof.
  intros H i Hi. destruct (f i) eqn:E; [reflexivity|].
  pose proof (cnt_pos f n i Hi E). lia.
Qed.

Lemma cnt_exists f n : 1 <= cnt f n -> exists i, i < N.of_nat n /\ f i = false.
Proof.
  induction n as [|n IH]; cbn [cnt]; intros H; [lia|].
  destruct (f (N.of_nat n)) eqn:E.
  - destruct IH as (i & Hi & Hf); [lia|]. exists i. split; [lia|assumption].
  - exists (N.of_nat n). split; [lia|assumption].
Qed.

(** setting a clear bit below [n] lowers the count by one; clearing a set bit raises it by one *)
Lemma cnt_set f n i :
  i < N.of_nat n -> f i = false ->
  cnt (fun j => f j || (j =? i)) n + 1 = cnt f n.
Proof.
  induction n as [|n IH]; intros Hi Hf; [lia|]. cbn [cnt].
  destruct (N.eq_dec i (N.of_nat n)) as [E|Hne].
  - subst i. rewrite Hf, N.eqb_refl, orb_true_r.
    rewrite (cnt_ext (fun j => f j || (j =? N.of_nat n)) f n); [lia|].
    intros j Hj. destruct (N.eqb_spec j (N.of_nat n)); [lia|apply orb_false_r].
  - specialize (IH ltac:(lia) Hf).
    destruct (N.eqb_spec (N.of_nat n) i); [lia|]. rewrite orb_false_r. lia.
Qed.

Lemma cnt_clear f n i :
  i < N.of_nat n -> f i = true ->
  cnt (fun j => f j && negb (j =? i)) n = cnt f n + 1.
Proof.
  induction n as [|n IH]; intros Hi Hf; [lia|]. cbn [cnt].
  destruct (N.eq_dec i (N.of_nat n)) as [E|Hne].
  - subst i. rewrite Hf, N.eqb_refl. cbn [negb andb].
    rewrite (cnt_ext (fun j => f j && negb (j =? N.of_nat n)) f n); [lia|].
    intros j Hj. destruct (N.eqb_spec j (N.of_nat n)); [lia|apply andb_true_r].
  - specialize (IH ltac:(lia) Hf).
    destruct (N.eqb_spec (N.of_nat n) i); [lia|]. cbn [negb]. rewrite andb_true_r. lia.
Qed.

(** ---- the first-clear-bit scan ---- *)
Lemma scan_bits_spec w : forall fuel off,
  off <= 64 -> 64 <= off + N.of_nat fuel ->
  match scan_bits fuel off (if off <? 64 then 2 ^ (63 - off) else 0) w with
  | Some (o, mk) =>
      off <= o < 64 /\ mk = 2 ^ (63 - o) /\ N.testbit w (63 - o) = false /\
      (forall j, off <= j < o -> N.testbit w (63 - j) = true)
  | None => forall j, off <= j < 64 -> N.testbit w (63 - j) = true
  end.
Proof.
  induction fuel as [|fuel IH]; intros off Hoff Hfuel.
  - cbn. intros j Hj. lia.
  - cbn [scan_bits]. destruct (N.ltb_spec off 64) as [Hlt|Hge].
    + assert (Hnz: (2 ^ (63 - off) =? 0) = false) by (apply N.eqb_neq; apply N.pow_nonzero; discriminate).
      rewrite Hnz. rewrite land_pow2_eq0.
      destruct (N.testbit w (63 - off)) eqn:Eb; cbn [negb].
      * assert (Hm: N.shiftr (2 ^ (63 - off)) 1 = if off + 1 <? 64 then 2 ^ (63 - (off + 1)) else 0).
        { rewrite N.shiftr_div_pow2. destruct (N.ltb_spec (off + 1) 64).
          - replace (63 - off) with (N.succ (63 - (off + 1))) by lia. rewrite N.pow_succ_r'. change (2 ^ 1) with 2.
            rewrite N.mul_comm, N.div_mul by discriminate. reflexivity.
          - replace (63 - off) with 0 by lia. reflexivity. }
        rewrite Hm. specialize (IH (off + 1) ltac:(lia) ltac:(lia)).
        destruct (scan_bits fuel (off + 1) (if off + 1 <? 64 then 2 ^ (63 - (off + 1)) else 0) w) as [[o mk]|].
        -- destruct IH as (H1 & H2 & H3 & H4). repeat split; try lia; try assumption.
           intros j Hj. destruct (N.eq_dec j off) as [->|]; [assumption|apply H4; lia].
        -- intros j Hj. destruct (N.eq_dec j off) as [->|]; [assumption|apply IH; lia].
      * repeat split; try lia; try assumption.
    + cbn. intros j Hj. lia.
Qed.

Lemma testbit_max64 j : j < 64 -> N.testbit max64 j = true.
Proof. intros H. change max64 with (N.ones 64). apply N.ones_spec_low. exact H. Qed.

(** [scan_blocks] finds the lowest clear bit of the bitmap (in [bitf] numbering relative to the
    first word of [ws]), or reports that every bit of every word is set. *)
Lemma scan_blocks_spec : forall ws idx,
  match scan_blocks idx ws with
  | Some (b, o, mk) =>
      idx <= b /\ b - idx < N.of_nat (length ws) /\ o < 64 /\ mk = 2 ^ (63 - o) /\
      bitf ws ((b - idx) * 64 + o) = false /\
      (forall i, i < (b - idx) * 64 + o -> bitf ws i = true)
  | None => forall i, i < N.of_nat (length ws) * 64 -> bitf ws i = true
  end.
Proof.
  induction ws as [|w rest IH]; intros idx; cbn [scan_blocks].
  - cbn. intros i Hi. lia.
  - assert (Hcons: forall i, 64 <= i -> bitf (w :: rest) i = bitf rest (i - 64)).
    { intros i Hi. unfold bitf. replace (i / 64) with (N.succ ((i - 64) / 64)) by lia.
      rewrite N2Nat.inj_succ. cbn [nth]. f_equal. lia. }
    assert (Hhead: forall i, i < 64 -> bitf (w :: rest) i = N.testbit w (63 - i)).
    { intros i Hi. unfold bitf. replace (i / 64) with 0 by lia. cbn [N.to_nat nth]. f_equal. lia. }
    assert (Hrest: match scan_blocks (idx + 1) rest with
      | Some (b, o, mk) =>
          (forall i, i < 64 -> bitf (w :: rest) i = true) ->
          idx <= b /\ b - idx < N.of_nat (length (w :: rest)) /\ o < 64 /\ mk = 2 ^ (63 - o) /\
          bitf (w :: rest) ((b - idx) * 64 + o) = false /\
          (forall i, i < (b - idx) * 64 + o -> bitf (w :: rest) i = true)
      | None => (forall i, i < 64 -> bitf (w :: rest) i = true) ->
                forall i, i < N.of_nat (length (w :: rest)) * 64 -> bitf (w :: rest) i = true
      end).
    { specialize (IH (idx + 1)). destruct (scan_blocks (idx + 1) rest) as [[[b o] mk]|].
      - destruct IH as (H1 & H2 & H3 & H4 & H5 & H6). intros Hall.
        cbn [length]. repeat split; try lia; try assumption.
        + rewrite Hcons by lia. replace ((b - idx) * 64 + o - 64) with ((b - (idx + 1)) * 64 + o) by lia. assumption.
        + intros i Hi. destruct (N.ltb_spec i 64); [apply Hall; assumption|].
          rewrite Hcons by lia. apply H6. lia.
      - intros Hall i Hi. cbn [length] in Hi. destruct (N.ltb_spec i 64); [apply Hall; assumption|].
        rewrite Hcons by lia. apply IH. lia. }
    destruct (N.eqb_spec w max64) as [->|Hne].
    + destruct (scan_blocks (idx + 1) rest) as [[[b o] mk]|]; apply Hrest;
        intros i Hi; rewrite Hhead by assumption; apply testbit_max64; lia.
    + pose proof (scan_bits_spec w 64 0 ltac:(lia) ltac:(cbn; lia)) as S.
      change (if 0 <? 64 then 2 ^ (63 - 0) else 0) with (N.shiftl 1 63) in S.
      destruct (scan_bits 64 0 (N.shiftl 1 63) w) as [[o mk]|].
      * destruct S as (H1 & H2 & H3 & H4). cbn [length].
        replace (idx - idx) with 0 by lia. repeat split; try lia; try assumption.
        -- cbn [N.mul N.add]. rewrite Hhead by lia. assumption.
        -- intros i Hi. rewrite Hhead by lia. apply H4. lia.
      * destruct (scan_blocks (idx + 1) rest) as [[[b o] mk]|]; apply Hrest;
          intros i Hi; rewrite Hhead by assumption; apply S; lia.
Qed.
