(** Bitmap frame allocator, tie by translation, fifth part (agent c02trans): the translated FRAGMENTS of setupPoolBitmaps
    (Pmm/BitmapTrans4.v) connected in the order the function runs them,
        pass 1 over all regions -> required bytes / pages -> [reserve + map + memset: not translated] -> layout -> pass 2 over all regions,
    and shown to produce the model's set-up: [pass1], [required_bytes], [pass2] = the pools of [pmm_init], [layout_bytes].

    The connection itself ([go_pass1_all], [go_pass2_all], [go_setup_sizes]) is hand-written Gallina and is what remains
    ASSUMED about the Go function beyond its translated fragments:
      - each closure is run once per memory-map entry, in order (the contract of multiboot.VisitMemRegions: property C10,
        C10_visitMemRegions_is_translation), and never stops the visit;
      - the unsafe overlay of alloc.pools on alloc.poolsHdr yields poolsHdr.Len zero-valued pools (the
        area was zeroed by kernel.Memset), and the renamed expressions alloc.pools[poolIndex].f denote the fields of the pool at
        the index poolIndex has on entry to the closure; the bitmap overlay yields freeBitmapHdr.Len zero words;
      - the var block binds pageSizeMinus1 = mm.PageSize - 1 and sizeofPool = unsafe.Sizeof(framePool{}). *)
From Coq Require Import NArith ZArith String List Bool Lia.
From Coq Require Import ZifyBool ZifyN ZifyNat.
From FF Require Import Lib.Word Lib.GoOps Lib.GoOpsExt Lib.GoOpsProofs Lib.GoVisit Gen.Consts_mm_pmm Gen.Trans_pmm_bitmap.
From FF Require Import Pmm.Boot Pmm.BootProofs Pmm.Bitmap Pmm.BitmapTrans Pmm.BitmapTrans3 Pmm.BitmapTrans4.
Import ListNotations.
Local Open Scope N_scope.
Ltac Zify.zify_post_hook ::= Z.div_mod_to_equations.

(** ---- pass 1 over the whole map ---- *)
Definition pass1_state : Type := (go_pmm_BitmapAllocator * N * N * N)%type.

Definition go_pass1_all (ga : go_pmm_BitmapAllocator) (gs : list go_multiboot_MemoryMapEntry) (len cap req : N) : gres pass1_state :=
  gvisit (fun g (st : pass1_state) =>
            let '(ga, len, cap, req) := st in go_pmm_BitmapAllocator_setupPoolBitmaps_pass1 ga pmask len cap req g)
         gs (ga, len, cap, req).

Lemma pass1_step_count acc r :
  fst (fst (pass1_step acc r)) = if pool_region r then fst (fst acc) + 1 else fst (fst acc).
Proof. destruct acc as [[np t] q]. unfold pass1_step. destruct (pool_region r); reflexivity. Qed.

Lemma pass1_all_is_fold mtx tr : forall (m : memmap) (a : balloc) (np req : N),
  np + N.of_nat (length m) < two64 ->
  go_pass1_all (to_ga mtx a tr) (map to_gr m) np np req =
  let '(np', total', req') := fold_left pass1_step m (np, a_total a, req) in
  GOk (to_ga mtx (mkBA total' (a_reserved a) (a_pools a)) tr, np', np', req').
Proof.
  unfold go_pass1_all. induction m as [|r m IH]; intros a np req Hn.
  - cbn [map gvisit fold_left]. destruct a; reflexivity.
  - cbn [map gvisit fold_left]. cbn [length] in Hn.
    rewrite pass1_is_translation by lia.
    pose proof (pass1_step_count (np, a_total a, req) r) as Hc.
    destruct (pass1_step (np, a_total a, req) r) as [[np1 t1] q1]. cbn [fst] in Hc.
    replace (if pool_region r then gw 64 (np + 1) else np) with np1
      by (destruct (pool_region r); [rewrite gw64_small by lia|]; congruence).
    specialize (IH (mkBA t1 (a_reserved a) (a_pools a)) np1 q1). cbn [a_total a_reserved a_pools] in IH.
    apply IH. destruct (pool_region r); lia.
Qed.

(** the pool count of pass 1 is the number of regions that provide a pool *)
Lemma pass1_fold_count : forall m acc,
  fst (fst (fold_left pass1_step m acc)) = fst (fst acc) + N.of_nat (length (filter pool_region m)).
Proof.
  induction m as [|r m IH]; intros acc; cbn [fold_left filter length]; [lia|].
  rewrite IH, pass1_step_count. destruct (pool_region r); cbn [length]; lia.
Qed.

Lemma pass1_npools m t : fst (fst (pass1 m t)) = N.of_nat (length (pass2 m)).
Proof. unfold pass1, pass2. rewrite pass1_fold_count, map_length. cbn [fst]. lia. Qed.

(** ---- pass 2 over the whole map ---- *)
Definition pool_at (ps : list pool) (pi : N) : pool := nth (N.to_nat pi) ps zero_pool.

Fixpoint go_pass2_all (ga : go_pmm_BitmapAllocator) (gs : list go_multiboot_MemoryMapEntry) (bsa pi : N) (ps : list pool)
  : gres (N * N * list pool) :=
  match gs with
  | [] => GOk (bsa, pi, ps)
  | g :: gs' =>
      let p := pool_at ps pi in
      let words := N.of_nat (length (p_bitmap p)) in
      match go_pmm_BitmapAllocator_setupPoolBitmaps_pass2 ga pmask bsa pi (p_start p) (p_end p) (p_free p) words words 0 g with
      | GOk ((_, bsa', pi', s, e, f, l, _, _), true) =>
          go_pass2_all ga gs' bsa' pi' (update_pool (N.to_nat pi) (mkPool s e f (repeat 0 (N.to_nat l))) ps)
      | GOk (_, false) => GOk (bsa, pi, ps)
      | GPanic => GPanic
      | GFuel => GFuel
      end
  end.

Definition bitmap_total' (rs : list region) : N := fold_left (fun acc r => acc + bitmap_bytes r) rs 0.

Lemma fold_bytes_shift : forall rs x, fold_left (fun acc r => acc + bitmap_bytes r) rs x = x + bitmap_total' rs.
Proof.
  unfold bitmap_total'. induction rs as [|r rs IH]; intros x; cbn [fold_left]; [lia|].
  rewrite IH, (IH (0 + bitmap_bytes r)). lia.
Qed.

Lemma pool_at_zero done k : pool_at (map pool_of_region done ++ repeat zero_pool k) (N.of_nat (length done)) = zero_pool.
Proof.
  unfold pool_at. rewrite Nat2N.id. rewrite app_nth2 by (rewrite map_length; lia).
  rewrite map_length, Nat.sub_diag. destruct k; reflexivity.
Qed.

Lemma update_pool_app_zero : forall (l1 : list pool) p' k,
  update_pool (length l1) p' (l1 ++ repeat zero_pool (S k)) = (l1 ++ [p']) ++ repeat zero_pool k.
Proof. induction l1 as [|h l1 IH]; intros p' k; cbn [length update_pool app repeat]; [reflexivity|]. f_equal. apply IH. Qed.

Lemma update_pool_app_zero' (l1 : list pool) n p' k : length l1 = n ->
  update_pool n p' (l1 ++ repeat zero_pool (S k)) = (l1 ++ [p']) ++ repeat zero_pool k.
Proof. intros <-. apply update_pool_app_zero. Qed.

Lemma update_pool_zero_noop : forall (l : list pool) i, nth i l zero_pool = zero_pool -> update_pool i zero_pool l = l.
Proof.
  induction l as [|h l IH]; intros i H; destruct i; cbn [update_pool nth] in *; try reflexivity.
  - congruence.
  - f_equal. apply IH. exact H.
Qed.

Lemma w64_add_l a b : w64 (w64 a + b) = w64 (a + b).
Proof. unfold w64. apply N.add_mod_idemp_l. discriminate. Qed.

Lemma pass2_all_is_model ga : forall (m done : list region) (bsa : N) (k : nat),
  bsa < two64 -> (length (filter pool_region m) <= k)%nat -> N.of_nat (length done + k) < two64 ->
  go_pass2_all ga (map to_gr m) bsa (N.of_nat (length done)) (map pool_of_region done ++ repeat zero_pool k) =
  GOk (w64 (bsa + bitmap_total' (filter pool_region m)),
       N.of_nat (length done + length (filter pool_region m)),
       map pool_of_region (done ++ filter pool_region m) ++ repeat zero_pool (k - length (filter pool_region m))).
Proof.
  induction m as [|r m IH]; intros done bsa k Hb Hk Hn.
  - cbn [map go_pass2_all filter length]. rewrite Nat.add_0_r, Nat.sub_0_r, app_nil_r.
    unfold bitmap_total'. cbn [fold_left]. rewrite N.add_0_r, (w64_small bsa Hb). reflexivity.
  - cbn [map go_pass2_all]. rewrite pool_at_zero. cbn [zero_pool p_start p_end p_free p_bitmap length].
    rewrite pass2_is_translation. cbn [filter] in Hk |- *.
    destruct (pool_region r) eqn:Er.
    + cbn [length] in Hk. destruct k as [|k]; [lia|].
      rewrite Nat2N.id.
      rewrite (update_pool_app_zero' (map pool_of_region done) (length done)) by apply map_length.
      replace (mkPool (p_start (pool_of_region r)) (p_end (pool_of_region r)) (p_free (pool_of_region r))
                 (repeat 0 (N.to_nat (N.of_nat (length (p_bitmap (pool_of_region r)))))))
        with (pool_of_region r)
        by (rewrite Nat2N.id; cbn [pool_of_region p_start p_end p_free p_bitmap]; rewrite repeat_length; reflexivity).
      replace (map pool_of_region done ++ [pool_of_region r]) with (map pool_of_region (done ++ [r]))
        by (rewrite map_app; reflexivity).
      replace (w64 (N.of_nat (length done) + 1)) with (N.of_nat (length (done ++ [r])))
        by (rewrite app_length; cbn [length]; rewrite w64_small by (unfold two64 in *; lia); lia).
      rewrite IH; [| apply w64_lt | lia | rewrite app_length; cbn [length]; lia ].
      rewrite w64_add_l.
      replace (bitmap_total' (r :: filter pool_region m)) with (bitmap_bytes r + bitmap_total' (filter pool_region m))
        by (unfold bitmap_total'; cbn [fold_left]; rewrite (fold_bytes_shift _ (0 + bitmap_bytes r)); unfold bitmap_total'; lia).
      rewrite N.add_assoc. rewrite <- app_assoc. cbn [app length Nat.sub]. rewrite app_length. cbn [length].
      replace (length done + 1 + length (filter pool_region m))%nat with (length done + S (length (filter pool_region m)))%nat by lia.
      reflexivity.
    + rewrite Nat2N.id.
      replace (mkPool 0 0 0 (repeat 0 (N.to_nat 0))) with zero_pool by reflexivity.
      rewrite update_pool_zero_noop
        by (pose proof (pool_at_zero done k) as Hz; unfold pool_at in Hz; rewrite Nat2N.id in Hz; exact Hz).
      apply IH; assumption.
Qed.

(** ---- the fragments in the order setupPoolBitmaps runs them ---- *)
(** [data] is the address reserveRegionFn returned (the reserve / map / memset loop in between is not translated).
    Result: the allocator record after pass 1 (totalPages), poolsHdr.Len, requiredBytes, requiredPages, the pools that
    pass 2 fills in, and the address behind the last bitmap. *)
Definition go_setup_sizes (ga : go_pmm_BitmapAllocator) (gs : list go_multiboot_MemoryMapEntry) (data : N)
  : gres (go_pmm_BitmapAllocator * N * N * N * list pool * N) :=
  match go_pass1_all ga gs 0 0 0 with
  | GOk (ga1, len, _, req) =>
      match go_pmm_BitmapAllocator_setupPoolBitmaps_required ga1 pmask pmm_sizeofFramePool len req with
      | GOk (ga2, bytes, pages) =>
          match go_pmm_BitmapAllocator_setupPoolBitmaps_layout ga2 pmm_sizeofFramePool len data with
          | GOk (ga3, bsa0) =>
              match go_pass2_all ga3 gs bsa0 0 (repeat zero_pool (N.to_nat len)) with
              | GOk (bsa', _, pools) => GOk (ga3, len, bytes, pages, pools, bsa')
              | GPanic => GPanic
              | GFuel => GFuel
              end
          | GPanic => GPanic
          | GFuel => GFuel
          end
      | GPanic => GPanic
      | GFuel => GFuel
      end
  | GPanic => GPanic
  | GFuel => GFuel
  end.

Lemma filter_len_le {A} (f : A -> bool) : forall l, (length (filter f l) <= length l)%nat.
Proof. induction l as [|x l IH]; cbn [filter length]; [lia|]. destruct (f x); cbn [length]; lia. Qed.

Theorem setup_sizes_is_model mtx a tr (m : memmap) (data : N) :
  N.of_nat (length m) < two64 ->
  go_setup_sizes (to_ga mtx a tr) (map to_gr m) data =
  let '(np, total, req) := pass1 m (a_total a) in
  GOk (to_ga mtx (mkBA total (a_reserved a) (a_pools a)) tr, np,
       required_bytes np req, N.shiftr (required_bytes np req) PageShift,
       pass2 m, w64 (data + layout_bytes m np)).
Proof.
  intros Hm. unfold go_setup_sizes.
  rewrite (pass1_all_is_fold mtx tr m a 0 0) by lia.
  pose proof (pass1_npools m (a_total a)) as Hnp. unfold pass1 in *.
  destruct (fold_left pass1_step m (0, a_total a, 0)) as [[np total] req]. cbn [fst] in Hnp.
  rewrite required_is_translation, layout_is_translation.
  assert (Hk : N.to_nat np = length (filter pool_region m))
    by (rewrite Hnp; unfold pass2; rewrite map_length; apply Nat2N.id).
  rewrite Hk.
  pose proof (filter_len_le pool_region m) as Hle.
  rewrite (pass2_all_is_model _ m [] (w64 (data + np * pmm_sizeofFramePool)) (length (filter pool_region m)));
    [| apply w64_lt | lia | cbn [length]; lia].
  cbn [app length map]. rewrite Nat.sub_diag. cbn [repeat]. rewrite app_nil_r.
  rewrite w64_add_l. unfold layout_bytes, pass2. rewrite (fold_bytes_shift _ 0). rewrite N.add_0_l.
  rewrite N.add_assoc. reflexivity.
Qed.

(** with that set-up as the answer of the oracle, the translated BitmapAllocator.init is the model's pmm_init:
    [b] is the boot allocator after the state area was mapped (the model's [map_pages]) *)
Theorem init_with_model_setup (ga : go_pmm_BitmapAllocator) (gb : go_pmm_BootMemAllocator)
        (o : go_pmm_BitmapAllocator -> go_pmm_BootMemAllocator -> go_pmm_BitmapAllocator * go_pmm_BootMemAllocator * option string)
        mtx tr0 ka kb (m : memmap) (kstart kend limit mapfail : N) (b : bstate) (calls : list mapcall) fuel :
  let ks := kernel_start_frame kstart in
  let ke := kernel_end_frame kend in
  let npools := fst (fst (pass1 m 0)) in
  let total := snd (fst (pass1 m 0)) in
  let bytes := required_bytes npools (snd (pass1 m 0)) in
  (limit <? bytes) = false ->
  map_pages m ks ke (N.shiftr bytes PageShift) mapfail = MGo b calls ->
  (bytes <? layout_bytes m npools) = false ->
  o (set_f_BitmapAllocator_trace ga (ev_setup :: f_BitmapAllocator_trace ga)) gb =
    (to_ga mtx (mkBA total 0 (pass2 m)) tr0, to_gb ka kb ks ke b, None) ->
  N.of_nat (length (pass2 m)) < two63 -> (length (pass2 m) < fuel)%nat ->
  ke < max64 -> (N.to_nat (ke + 1 - ks) < fuel)%nat ->
  b_count b < two64 -> (N.to_nat (b_count b) < fuel)%nat ->
  go_pmm_BitmapAllocator_init fuel ga gb o (map to_gr m) =
  match fst (pmm_init m kstart kend limit mapfail) with
  | InitOk a2 b' => GOk (to_ga mtx a2 (ev_stats :: tr0), (None, to_gb ka kb ks ke b'))
  | InitPanic => GPanic
  | InitHang => GFuel
  | _ => GPanic
  end.
Proof.
  cbv zeta. intros H1 H2 H4 Ho Hl Hf Hke Hn Hc Hcn.
  pose proof (pmm_init_tail m kstart kend limit mapfail b calls) as Ht. cbv zeta in Ht.
  rewrite (Ht H1 H2) by (try exact H4; rewrite pass1_npools; apply N.eqb_refl).
  rewrite (init_is_translation ga gb o mtx (mkBA (snd (fst (pass1 m 0))) 0 (pass2 m)) tr0 ka kb
             (kernel_start_frame kstart) (kernel_end_frame kend) b None m fuel Ho) by assumption.
  destruct (init_tail m _ _ _ b) as [[a2 b']| |]; reflexivity.
Qed.
