(** Model of kernel/mm/pmm/bootmem_allocator.go (BootMemAllocator.init / AllocFrame) on top of the
    memory-region visitor of kernel/multiboot (VisitMemRegions).   Definitions only.

    Machine words are [N] with explicit wrap-around (uint64 / uintptr = 64 bit).  The boot
    allocator indexes nothing and dereferences nothing but the bootloader's region list, so it has
    no run-time panic; its outcomes are a frame or "out of memory". *)
From Coq Require Import NArith List Bool.
From FF Require Import Lib.Word Gen.Consts_mm_pmm.
Import ListNotations.
Local Open Scope N_scope.

Definition PageSize : N := mm_PageSize.
Definition PageShift : N := mm_PageShift.
Definition pmask : N := PageSize - 1.

(** One entry of the bootloader's memory map (multiboot.MemoryMapEntry). *)
Record region := mkRegion { r_addr : N; r_len : N; r_type : N }.
Definition memmap := list region.

(** VisitMemRegions rewrites type 0 and types above [unknown] to MemReserved before the visitor
    sees the entry; the allocators only ever compare the type with MemAvailable. *)
Definition norm_type (unknown t : N) : N :=
  if (t =? 0) || (unknown <? t) then multiboot_MemReserved else t.
Definition is_avail (r : region) : bool := r_type r =? multiboot_MemAvailable.

(** [(a & ^(PageSize-1)) >> PageShift] and [((a + PageSize-1) & ^(PageSize-1)) >> PageShift] on uint64. *)
Definition frame_down (a : N) : N := N.shiftr (andnot a pmask) PageShift.
Definition frame_up (a : N) : N := frame_down (w64 (a + pmask)).

Definition region_start_frame (r : region) : N := frame_up (r_addr r).
Definition region_end_frame (r : region) : N := sub64 (frame_down (w64 (r_addr r + r_len r))) 1.

(** BootMemAllocator.init: kernelStartFrame / kernelEndFrame. *)
Definition kernel_start_frame (kstart : N) : N := frame_down kstart.
Definition kernel_end_frame (kend : N) : N := sub64 (frame_up kend) 1.

Record bstate := mkB { b_count : N; b_last : N }.

(** Body of the visitor closure in AllocFrame for one region: new cursor and whether the scan
    stops (a frame was found).  The cursor mutation survives a scan that then continues. *)
Definition boot_visit (ks ke count last : N) (r : region) : N * bool :=
  if negb (is_avail r) || (r_len r <? PageSize) then (last, false) else
  let rs := region_start_frame r in
  let re := region_end_frame r in
  if re <=? last then (last, false) else
  let last' :=
    if ((last <=? rs) && (ks =? rs)) || ((rs <=? last) && (last <=? re) && (w64 (last + 1) =? ks))
    then w64 (ke + 1)
    else if (last <? rs) || (count =? 0) then rs
    else w64 (last + 1) in
  if re <? last' then (last', false) else (last', true).

Fixpoint boot_scan (ks ke count last : N) (m : memmap) : N * bool :=
  match m with
  | [] => (last, false)
  | r :: rest =>
      let '(l, stop) := boot_visit ks ke count last r in
      if stop then (l, true) else boot_scan ks ke count l rest
  end.

(** AllocFrame: [Some frame] or [None] = errBootAllocOutOfMemory (the Go code then returns
    mm.InvalidFrame). *)
Definition boot_alloc (m : memmap) (ks ke : N) (st : bstate) : bstate * option N :=
  let '(l, found) := boot_scan ks ke (b_count st) (b_last st) m in
  if found then (mkB (w64 (b_count st + 1)) l, Some l) else (mkB (b_count st) l, None).

(** The zero value of the Go struct, which is also what reserveEarlyAllocatorFrames resets to. *)
Definition boot_reset : bstate := mkB 0 0.

(** [n] consecutive calls. *)
Fixpoint boot_run (m : memmap) (ks ke : N) (n : nat) (st : bstate) : bstate * list (option N) :=
  match n with
  | O => (st, [])
  | S n' =>
      let '(st1, r) := boot_alloc m ks ke st in
      let '(st2, rs) := boot_run m ks ke n' st1 in
      (st2, r :: rs)
  end.

(** ---- flat encoding for the correspondence driver ----
    case = nregions :: (addr len type)* ++ [kernelStart; kernelEnd; ncalls]
    obs  = results of ncalls calls (1 f | 0 InvalidFrame) ++ [allocCount] ++ results of the replay of
           allocCount calls from the reset state. *)
Fixpoint dec_regions (n : nat) (l : list N) : memmap * list N :=
  match n with
  | O => ([], l)
  | S n' =>
      match l with
      | a :: len :: t :: rest => let '(m, tl) := dec_regions n' rest in (mkRegion a len t :: m, tl)
      | _ => ([], [])
      end
  end.

Definition enc_res (r : option N) : list N :=
  match r with Some f => [1; f] | None => [0; mm_InvalidFrame] end.

Definition run_case (l : list N) : list N :=
  match l with
  | [] => []
  | n :: rest =>
      let '(m, tl) := dec_regions (N.to_nat n) rest in
      match tl with
      | kstart :: kend :: ncalls :: _ =>
          let ks := kernel_start_frame kstart in
          let ke := kernel_end_frame kend in
          let '(st, rs) := boot_run m ks ke (N.to_nat ncalls) boot_reset in
          let '(_, rs2) := boot_run m ks ke (N.to_nat (b_count st)) boot_reset in
          flat_map enc_res rs ++ [b_count st] ++ flat_map enc_res rs2
      | _ => []
      end
  end.
