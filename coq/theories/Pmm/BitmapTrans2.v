(** Bitmap frame allocator, tie by translation, second part (agent c02trans): the functions of
    kernel/mm/pmm/bitmap_allocator.go that Pmm/BitmapTrans.v left out.

    - markFrame(poolIndex, frame, markFree).  No caller in the kernel passes markFree (FreeFrame clears the bit
      inline), so Pmm/Bitmap.v has no such operation; [mark_free] below is its model, written like [mark_reserved];
      [mark_free_is_bitmap_free] shows that it is the state change of a successful [bitmap_free].
    - reserveKernelFrames: the loop over the kernel's frames, [reserve_kernel] of Pmm/Bitmap.v.  The two fields of the
      package-level [bootMemAllocator] it reads (kernelStartFrame, kernelEndFrame) are extra parameters of the
      translation (config "extvars"). *)
From Coq Require Import NArith ZArith String List Bool Lia.
From Coq Require Import ZifyBool ZifyN ZifyNat.
From FF Require Import Lib.Word Lib.GoOps Lib.GoOpsExt Gen.Consts_mm_pmm Gen.Trans_pmm_bitmap.
From FF Require Import Pmm.Boot Pmm.Bitmap Pmm.Bits Pmm.BitmapTrans.
Import ListNotations.
Local Open Scope N_scope.
Ltac Zify.zify_post_hook ::= Z.div_mod_to_equations.

(** ---- markFrame(poolIndex, frame, markFree) ---- *)
Definition mark_free (a : balloc) (pi : option nat) (f : N) : outcome balloc :=
  match pi with
  | None => Ok a
  | Some i =>
      match nth_error (a_pools a) i with
      | None => Panic
      | Some p =>
          if p_end p <? f then Ok a else
          let rel := sub64 f (p_start p) in
          let block := N.shiftr rel 6 in
          match nth_errorN (p_bitmap p) block with
          | None => Panic
          | Some w =>
              let p' := mkPool (p_start p) (p_end p) (inc32 (p_free p)) (set_nth (N.to_nat block) (andnot w (bit_mask rel)) (p_bitmap p)) in
              Ok (mkBA (a_total a) (dec32 (a_reserved a)) (update_pool i p' (a_pools a)))
          end
      end
  end.

Theorem markFrame_free_is_translation mtx a tr (pi : option nat) f :
  N.of_nat (length (a_pools a)) < two63 -> (forall i, pi = Some i -> N.of_nat i < two63) ->
  go_pmm_BitmapAllocator_markFrame (to_ga mtx a tr) (idx_of pi) f true = mark_res mtx tr (mark_free a pi f).
Proof.
  intros Hl Hpi.
  cbv delta [go_pmm_BitmapAllocator_markFrame mark_free]. cbv beta zeta. astep.
  destruct pi as [i|]; [|rewrite gslt_idx_none; reflexivity].
  rewrite gslt_idx_some by (apply Hpi; reflexivity). cbn [idx_of].
  rewrite !gidxsA_map by exact Hl.
  destruct (nth_error (a_pools a) i) as [p|] eqn:Ep; [|reflexivity].
  assert (Hi : (i < length (a_pools a))%nat) by (apply nth_error_Some; congruence).
  cbn [option_map]. asimp.
  destruct (p_end p <? f); [reflexivity|].
  change (gsub 64 f (p_start p)) with (sub64 f (p_start p)).
  set (rel := sub64 f (p_start p)).
  assert (Hrel : rel < two64) by (unfold rel, sub64; apply w64_lt).
  rewrite (mask_eq rel Hrel). cbn [Bool.eqb].
  rewrite nth_errorN_gidx.
  destruct (gidx (p_bitmap p) (N.shiftr rel 6)) as [w|] eqn:Ew; [|reflexivity].
  rewrite (gset_set_nth _ _ _ _ Ew). astep.
  rewrite gsetsA_map_update by assumption. astep.
  rewrite !gidxsA_map by (cbn [a_pools]; rewrite length_update_pool; exact Hl).
  cbn [a_pools]. rewrite nth_update_pool by exact Hi. cbn [option_map]. astep.
  rewrite gsetsA_map_update by (rewrite ?length_update_pool; assumption).
  rewrite update_update. astep.
  rewrite dec32_eq. reflexivity.
Qed.

(** [mark_free] is what a successful FreeFrame does to the allocator *)
Lemma pool_for_frame_from_le f : forall ps idx i, pool_for_frame_from idx ps f = Some i ->
  exists p, nth_error ps (i - idx) = Some p /\ f <= p_end p /\ (idx <= i)%nat.
Proof.
  induction ps as [|p ps IH]; intros idx i H; cbn [pool_for_frame_from] in H; [discriminate|].
  destruct ((p_start p <=? f) && (f <=? p_end p)) eqn:E.
  - injection H as <-. exists p. rewrite Nat.sub_diag. split; [reflexivity|]. split; lia.
  - destruct (IH _ _ H) as [q [Hq [Hle Hi]]]. exists q. split; [|split; [exact Hle|lia]].
    replace (i - idx)%nat with (S (i - S idx)) by lia. exact Hq.
Qed.

Theorem mark_free_is_bitmap_free a f i a' :
  pool_for_frame a f = Some i -> bitmap_free a f = (a', FreeOk) -> mark_free a (Some i) f = Ok a'.
Proof.
  intros Hp Hf. unfold bitmap_free in Hf. rewrite Hp in Hf. unfold mark_free.
  destruct (pool_for_frame_from_le f _ _ _ Hp) as [p [Hn [Hle _]]]. rewrite Nat.sub_0_r in Hn.
  rewrite Hn in *. replace (p_end p <? f) with false by lia. cbv zeta in *.
  destruct (nth_errorN (p_bitmap p) (N.shiftr (sub64 f (p_start p)) 6)) as [w|]; [|discriminate].
  destruct (N.land w (bit_mask (sub64 f (p_start p))) =? 0); [discriminate|].
  injection Hf as <-. reflexivity.
Qed.

(** ---- reserveKernelFrames ---- *)
(** the loop as Go runs it: one markFrame(poolIndex, frame, markReserved) per frame, first frame first, a panic ends it *)
Fixpoint kloop (pi : option nat) (n : nat) (f : N) (a : balloc) : outcome balloc :=
  match n with
  | O => Ok a
  | S n' =>
      match mark_reserved a pi f with
      | Ok a1 => kloop pi n' (f + 1) a1
      | Panic => Panic
      | Hang => Hang
      end
  end.

Lemma mark_reserved_length a pi f a1 : mark_reserved a pi f = Ok a1 -> length (a_pools a1) = length (a_pools a).
Proof.
  unfold mark_reserved. destruct pi as [i|]; [|intros [= <-]; reflexivity].
  destruct (nth_error (a_pools a) i) as [p|]; [|discriminate].
  destruct (p_end p <? f); [intros [= <-]; reflexivity|]. cbv zeta.
  destruct (nth_errorN (p_bitmap p) _); [|discriminate]. intros [= <-]. cbn [a_pools]. apply length_update_pool.
Qed.

(** the translated loop = [kloop]: [n] iterations remain before the frame counter reaches [ke + 1] *)
Lemma kloop_is_gloop mtx tr pi ke : ke < max64 -> (forall i, pi = Some i -> N.of_nat i < two63) ->
  forall n fuel f a, (n < fuel)%nat -> N.of_nat (length (a_pools a)) < two63 -> f + N.of_nat n = ke + 1 ->
  gloop (R := (go_pmm_BitmapAllocator * unit)%type) fuel
    (fun st : (go_pmm_BitmapAllocator * N)%type => let '(v_alloc, v_frame) := st in
       if (v_frame <=? ke)
       then (match go_pmm_BitmapAllocator_markFrame v_alloc (idx_of pi) v_frame false with GPanic => GPanic | GFuel => GFuel | GOk (v_alloc, _) =>
             (GOk (GNext (v_alloc, gw 64 (v_frame + 1)))) end)
       else ((GOk (GBreak (v_alloc, v_frame))))) (to_ga mtx a tr, f) =
  match kloop pi n f a with
  | Ok a' => GOk (inl (to_ga mtx a' tr, ke + 1))
  | Panic => GPanic
  | Hang => GFuel
  end.
Proof.
  intros Hke Hpi. induction n as [|n IH]; intros fuel f a Hf Hl E.
  - destruct fuel as [|fuel]; [lia|]. cbn [gloop kloop].
    replace (f <=? ke) with false by lia. replace f with (ke + 1) by lia. reflexivity.
  - destruct fuel as [|fuel]; [lia|]. cbn [gloop kloop].
    replace (f <=? ke) with true by lia.
    rewrite (markFrame_reserved_is_translation mtx a tr pi f Hl Hpi).
    destruct (mark_reserved a pi f) as [a1| |] eqn:Em; cbn [mark_res]; [|reflexivity|reflexivity].
    cbv zeta. rewrite (gw64_small' (f + 1)) by (unfold max64, two64 in Hke; change (2 ^ 64) with 18446744073709551616; lia).
    apply IH; [lia| |lia].
    rewrite (mark_reserved_length _ _ _ _ Em). exact Hl.
Qed.

(** [reserve_kernel] of Pmm/Bitmap.v iterates a step with a sticky outcome, and only up to the pool's last frame;
    Go iterates up to kernelEndFrame: the calls beyond the pool's end return at once. *)
Definition kF (i : nat) (st : N * outcome balloc) : N * outcome balloc :=
  let '(f, o) := st in (f + 1, obind o (fun a' => mark_reserved a' (Some i) f)).

Lemma iter_succ_r' {A} (F : A -> A) : forall n x, Nat.iter (S n) F x = Nat.iter n F (F x).
Proof.
  induction n as [|n IH]; intros x; [reflexivity|].
  change (Nat.iter (S (S n)) F x) with (F (Nat.iter (S n) F x)). rewrite IH. reflexivity.
Qed.

Lemma kF_sticky i o : (o = Panic \/ o = Hang) -> forall n f, snd (Nat.iter n (kF i) (f, o)) = o.
Proof.
  intros Ho. induction n as [|n IH]; intros f; [reflexivity|].
  change (Nat.iter (S n) (kF i) (f, o)) with (kF i (Nat.iter n (kF i) (f, o))).
  specialize (IH f). destruct (Nat.iter n (kF i) (f, o)) as [f' o'] eqn:E.
  cbn [snd] in IH. subst o'. cbn [kF snd]. destruct Ho as [-> | ->]; reflexivity.
Qed.

Lemma kF_kloop i : forall n f a, snd (Nat.iter n (kF i) (f, Ok a)) = kloop (Some i) n f a.
Proof.
  induction n as [|n IH]; intros f a; [reflexivity|].
  rewrite iter_succ_r'. cbn [kF obind kloop].
  destruct (mark_reserved a (Some i) f) as [a1| |].
  - apply IH.
  - apply kF_sticky. left. reflexivity.
  - apply kF_sticky. right. reflexivity.
Qed.

Lemma kloop_none : forall n f a, kloop None n f a = Ok a.
Proof. induction n as [|n IH]; intros f a; [reflexivity|]. cbn [kloop mark_reserved]. apply IH. Qed.

Lemma mark_reserved_beyond a i f q : nth_error (a_pools a) i = Some q -> p_end q < f -> mark_reserved a (Some i) f = Ok a.
Proof. intros Hq Hf. unfold mark_reserved. rewrite Hq. replace (p_end q <? f) with true by lia. reflexivity. Qed.

Lemma kloop_noop i : forall n f a q, nth_error (a_pools a) i = Some q -> p_end q < f -> kloop (Some i) n f a = Ok a.
Proof.
  induction n as [|n IH]; intros f a q Hq Hf; [reflexivity|].
  cbn [kloop]. rewrite (mark_reserved_beyond a i f q Hq Hf). apply (IH _ _ q Hq). lia.
Qed.

Lemma mark_reserved_pend a i f a1 q : mark_reserved a (Some i) f = Ok a1 -> nth_error (a_pools a) i = Some q ->
  exists q', nth_error (a_pools a1) i = Some q' /\ p_end q' = p_end q.
Proof.
  intros H Hq. unfold mark_reserved in H. rewrite Hq in H.
  destruct (p_end q <? f); [injection H as <-; exists q; split; [exact Hq|reflexivity]|]. cbv zeta in H.
  destruct (nth_errorN (p_bitmap q) _) as [w|]; [|discriminate]. injection H as <-. cbn [a_pools].
  eexists. split; [apply nth_update_pool; apply nth_error_Some; congruence|reflexivity].
Qed.

Lemma kloop_pend i : forall n f a a' q, kloop (Some i) n f a = Ok a' -> nth_error (a_pools a) i = Some q ->
  exists q', nth_error (a_pools a') i = Some q' /\ p_end q' = p_end q.
Proof.
  induction n as [|n IH]; intros f a a' q H Hq; cbn [kloop] in H.
  - injection H as <-. exists q. split; [exact Hq|reflexivity].
  - destruct (mark_reserved a (Some i) f) as [a1| |] eqn:Em; try discriminate.
    destruct (mark_reserved_pend _ _ _ _ _ Em Hq) as [q1 [Hq1 E1]].
    destruct (IH _ _ _ _ H Hq1) as [q' [Hq' E']]. exists q'. split; [exact Hq'|congruence].
Qed.

Lemma kloop_app pi : forall n1 n2 f a,
  kloop pi (n1 + n2) f a =
  match kloop pi n1 f a with Ok a1 => kloop pi n2 (f + N.of_nat n1) a1 | Panic => Panic | Hang => Hang end.
Proof.
  induction n1 as [|n1 IH]; intros n2 f a.
  - cbn [Nat.add kloop]. rewrite N.add_0_r. reflexivity.
  - cbn [Nat.add kloop]. destruct (mark_reserved a pi f) as [a1| |]; [|reflexivity|reflexivity].
    rewrite IH. replace (f + 1 + N.of_nat n1) with (f + N.of_nat (S n1)) by lia. reflexivity.
Qed.

Lemma reserve_kernel_kloop a ks ke : ke < max64 ->
  reserve_kernel a ks ke = kloop (pool_for_frame a ks) (N.to_nat (ke + 1 - ks)) ks a.
Proof.
  intros Hke. unfold reserve_kernel. replace (ke =? max64) with false by lia.
  destruct (pool_for_frame a ks) as [i|] eqn:Ei; [|symmetry; apply kloop_none].
  pose proof (pool_for_frame_lt _ _ _ Ei) as Hi.
  destruct (nth_error (a_pools a) i) as [p|] eqn:Ep; [|apply nth_error_None in Ep; lia].
  cbv zeta. rewrite N2Nat.inj_iter.
  change (fun st : N * outcome balloc => let '(f, o) := st in (f + 1, obind o (fun a' : balloc => mark_reserved a' (Some i) f)))
    with (kF i).
  rewrite kF_kloop.
  destruct (N.min_spec ke (p_end p)) as [[Hlt ->] | [Hge ->]].
  - (* the kernel ends inside the pool: the same number of iterations *)
    destruct (ks <=? ke) eqn:Ek.
    + reflexivity.
    + replace (N.to_nat (ke + 1 - ks)) with O by lia. reflexivity.
  - (* the pool ends first: the remaining calls return at once *)
    destruct (ks <=? p_end p) eqn:Ek.
    + replace (N.to_nat (ke + 1 - ks)) with (N.to_nat (p_end p + 1 - ks) + N.to_nat (ke - p_end p))%nat by lia.
      rewrite kloop_app. destruct (kloop (Some i) (N.to_nat (p_end p + 1 - ks)) ks a) as [a1| |] eqn:E1; try reflexivity.
      destruct (kloop_pend _ _ _ _ _ _ E1 Ep) as [q' [Hq' Eq']].
      symmetry. apply (kloop_noop i _ _ _ q' Hq'). lia.
    + cbn [N.to_nat kloop]. symmetry. apply (kloop_noop i _ _ _ p Ep). lia.
Qed.

Theorem reserveKernelFrames_is_translation mtx a tr ks ke fuel :
  N.of_nat (length (a_pools a)) < two63 -> (length (a_pools a) < fuel)%nat ->
  ke < max64 -> (N.to_nat (ke + 1 - ks) < fuel)%nat ->
  go_pmm_BitmapAllocator_reserveKernelFrames fuel (to_ga mtx a tr) ke ks = mark_res mtx tr (reserve_kernel a ks ke).
Proof.
  intros Hl Hf Hke Hn. unfold go_pmm_BitmapAllocator_reserveKernelFrames.
  rewrite (poolForFrame_is_translation mtx a tr ks fuel Hf). cbv zeta.
  rewrite (reserve_kernel_kloop a ks ke Hke).
  assert (Hpi : forall i, pool_for_frame a ks = Some i -> N.of_nat i < two63)
    by (intros i Ei; pose proof (pool_for_frame_lt _ _ _ Ei); lia).
  destruct (ks <=? ke) eqn:Ek.
  - rewrite (kloop_is_gloop mtx tr (pool_for_frame a ks) ke Hke Hpi (N.to_nat (ke + 1 - ks)) fuel ks a Hn Hl) by lia.
    destruct (kloop (pool_for_frame a ks) (N.to_nat (ke + 1 - ks)) ks a); reflexivity.
  - (* kernelStartFrame > kernelEndFrame: the loop body never runs *)
    replace (N.to_nat (ke + 1 - ks)) with O by lia. cbn [kloop mark_res].
    destruct fuel as [|fuel]; [lia|]. cbn [gloop]. replace (ks <=? ke) with false by lia. reflexivity.
Qed.
