(** C01 / C03: the theorems about pmm.Init followed by any history, assembled from
    InitProofs (Init establishes the invariant) and HistoryProofs (histories preserve it). *)
From Coq Require Import NArith ZArith Lia List Bool Sorted.
From Coq Require Import ZifyBool ZifyN ZifyNat.
From FF Require Import Lib.Word Gen.Consts_mm_pmm Pmm.Boot Pmm.BootProofs Pmm.Bitmap Pmm.Bits Pmm.BitmapProofs
  Pmm.HistoryProofs Pmm.InitProofs.
Import ListNotations.
Local Open Scope N_scope.
Ltac Zify.zify_post_hook ::= Z.div_mod_to_equations.

(** the frames handed out by the early-boot allocator during Init = the frames passed to mapFn *)
Definition early_frames (obs : init_obs) : list N := call_frames (o_calls obs).

(** frame [f] may be handed out: wholly inside available RAM, not kernel image, not early-boot *)
Definition usable (m : memmap) (kstart kend : N) (E : list N) (f : N) : Prop :=
  frame_avail m f /\ ~ in_kernel kstart kend f /\ ~ In f E.

(** the histories the properties quantify over: no free of a frame that is inside available RAM
    and was reserved at initialisation (kernel image / early boot) *)
Definition history_ok (m : memmap) (kstart kend : N) (E : list N) (ops : list op) : Prop :=
  forall f, In (OpFree f) ops -> frame_avail m f -> ~ in_kernel kstart kend f /\ ~ In f E.

(** ---- C01: exclusivity, read off a trace ---- *)
Fixpoint exclusive (U : N -> Prop) (H : list N) (tr : list (op * res)) : Prop :=
  match tr with
  | [] => True
  | (OpAlloc, RAlloc (Some f)) :: rest => U f /\ ~ In f H /\ exclusive U (f :: H) rest
  | (OpFree f, RFree FreeOk) :: rest => In f H /\ exclusive U (remove N.eq_dec f H) rest
  | (_, RFree FreePanic) :: _ => False
  | _ :: rest => exclusive U H rest
  end.

(** number of frames in the pool ranges that are not reserved by [R] *)
Fixpoint free_frames (rs : list (N * N)) (R : N -> bool) : N :=
  match rs with
  | [] => 0
  | (s, e) :: rest => cnt (fun i => R (s + i)) (N.to_nat (e + 1 - s)) + free_frames rest R
  end.

Lemma Inv_sum_free R a : Inv R a -> sum_free (a_pools a) = free_frames (ranges (a_pools a)) R.
Proof.
  intros (Hall & _). induction (a_pools a) as [|p ps IH]; [reflexivity|].
  inversion Hall as [|? ? Hp Hps]; subst. cbn [sum_free ranges map free_frames]. fold (ranges ps).
  rewrite (IH Hps). f_equal. destruct Hp as (H1 & H2 & H3 & H4 & H5 & H6). rewrite H6. unfold pool_n in *.
  apply cnt_ext. intros i Hi. apply H5. lia.
Qed.

Definition pool_ranges (m : memmap) : list (N * N) := map region_range (filter pool_region m).

(** frames available for allocation right after Init *)
Definition usable_count (m : memmap) (kstart kend : N) (E : list N) : N :=
  free_frames (pool_ranges m)
    (fun g => kernelb kstart kend g || memb g E).

Section Top.
  Variable m : memmap.
  Variables kstart kend limit mapfail : N.
  Hypothesis Hm : WFmap m.
  Hypothesis Hkern : WFkernel m kstart kend.
  Hypothesis Hsmall : small_map m.
  Variables (a0 : balloc) (b0 : bstate) (obs : init_obs).
  Hypothesis Hinit : pmm_init m kstart kend limit mapfail = (InitOk a0 b0, obs).

  Let E := early_frames obs.
  Let R0 := fun g => kernelb kstart kend g || memb g E.
  Let rs := pool_ranges m.

  Lemma init_facts :
    Inv R0 a0 /\ ranges (a_pools a0) = rs /\ a_total a0 = total_frames m /\
    Forall (good_frame m kstart kend) E /\ StronglySorted N.lt E.
  Proof.
    pose proof (pmm_init_spec m kstart kend Hm Hkern Hsmall limit mapfail) as S.
    rewrite Hinit in S. exact S.
  Qed.

  Lemma R0_usable f : in_ranges rs f -> (R0 f = false <-> ~ in_kernel kstart kend f /\ ~ In f E).
  Proof.
    intros _. unfold R0. rewrite orb_false_iff. rewrite memb_false.
    pose proof (kernelb_spec m kstart kend Hm Hkern f) as K.
    destruct (kernelb kstart kend f); split; intros [H1 H2]; split; try assumption; try congruence.
    - exfalso. apply H1. apply K. reflexivity.
    - intros H. apply K in H. discriminate.
  Qed.

  Lemma history_ops_ok ops : history_ok m kstart kend E ops -> Forall (op_ok rs R0) ops.
  Proof.
    intros H. rewrite Forall_forall. intros [|f] Hin; cbn [op_ok]; [exact I|].
    intros Hr. apply R0_usable; [assumption|]. apply H; [assumption|].
    apply (in_ranges_avail m kstart kend Hm). assumption.
  Qed.

  (** every step of every admissible history satisfies [trace_ok] *)
  Theorem history_trace ops :
    history_ok m kstart kend E ops ->
    trace_ok rs R0 (total_frames m) (a_reserved a0) a0 [] (run a0 ops) ops.
  Proof.
    intros Hops. destruct init_facts as (Hinv & Hr & Ht & _).
    apply run_trace_ok; try assumption.
    - apply (Inv_ext R0); [|assumption]. intros g. unfold RH. cbn. rewrite orb_false_r. reflexivity.
    - split; [constructor|]. intros f [].
    - cbn. lia.
    - apply history_ops_ok. assumption.
  Qed.

  Lemma trace_exclusive : forall ops a H tr T r0,
    trace_ok rs R0 T r0 a H tr ops ->
    exclusive (usable m kstart kend E) H (combine ops (map fst tr)).
  Proof.
    induction ops as [|o ops IH]; intros a H tr T r0 Htr; [exact I|].
    destruct o as [|f]; destruct tr as [|[r a'] tr]; cbn [trace_ok] in Htr; try contradiction.
    - destruct r as [[f|]|]; try contradiction; cbn [map fst combine exclusive].
      + destruct Htr as (Hin & HR & HnH & _ & _ & _ & _ & Hrest).
        split; [|split; [assumption|eapply IH; eassumption]].
        unfold usable. split; [apply (in_ranges_avail m kstart kend Hm); assumption|]. apply R0_usable; assumption.
      + destruct Htr as (_ & _ & _ & _ & Hrest). eapply IH; eassumption.
    - destruct r as [|fr]; try contradiction. destruct fr; cbn [map fst combine exclusive]; try contradiction.
      + destruct Htr as (Hin & _ & _ & Hrest). split; [assumption|eapply IH; eassumption].
      + destruct Htr as (_ & _ & Hrest). eapply IH; eassumption.
      + destruct Htr as (_ & _ & _ & _ & Hrest). eapply IH; eassumption.
  Qed.

  (** C01 *)
  Theorem alloc_exclusive ops :
    history_ok m kstart kend E ops ->
    exclusive (usable m kstart kend E) [] (combine ops (map fst (run a0 ops))).
  Proof. intros H. eapply trace_exclusive. apply history_trace. assumption. Qed.

  (** C03: accounting right after Init *)
  Theorem init_stats :
    a_total a0 = total_frames m /\ a_reserved a0 <= a_total a0 /\
    a_total a0 - a_reserved a0 = usable_count m kstart kend E.
  Proof.
    destruct init_facts as (Hinv & Hr & Ht & _). split; [assumption|].
    pose proof (Inv_sum_free R0 a0 Hinv) as Hsf. rewrite Hr in Hsf.
    destruct Hinv as (_ & _ & _ & _ & Hres). unfold usable_count. fold E. fold R0. fold rs. lia.
  Qed.

  (** C03: accounting along a history; [held] = frames handed out and not yet freed *)
  Fixpoint stats_ok (T U : N) (held : N) (tr : list (res * balloc)) : Prop :=
    match tr with
    | [] => True
    | (r, a') :: rest =>
        let held' := match r with
                     | RAlloc (Some _) => held + 1
                     | RFree FreeOk => held - 1
                     | _ => held
                     end in
        (r = RFree FreeOk -> 1 <= held) /\
        a_total a' = T /\ a_reserved a' <= T /\ T - a_reserved a' + held' = U /\
        stats_ok T U held' rest
    end.

  Lemma trace_stats T r0 U : forall ops a H tr,
    trace_ok rs R0 T r0 a H tr ops ->
    a_total a = T -> a_reserved a = r0 + N.of_nat (length H) -> r0 + N.of_nat (length H) <= T -> T - r0 = U ->
    NoDup H ->
    stats_ok T U (N.of_nat (length H)) tr.
  Proof.
    induction ops as [|o ops IH]; intros a H tr Htr Ht Hr Hle HU Hnd.
    { destruct tr; [exact I|cbn in Htr; contradiction]. }
    destruct tr as [|[r a'] tr]; destruct o as [|f]; cbn [trace_ok] in Htr; try contradiction.
    - destruct r as [[f|]|]; try contradiction; cbn [stats_ok].
      + destruct Htr as (_ & _ & HnH & _ & Ht' & Hr' & Hle' & Hrest).
        split; [discriminate|]. split; [assumption|]. split; [assumption|]. split; [lia|].
        replace (N.of_nat (length H) + 1) with (N.of_nat (length (f :: H))) by (cbn [length]; lia).
        apply (IH a' (f :: H) tr Hrest Ht'); cbn [length]; try lia. constructor; assumption.
      + destruct Htr as (-> & _ & _ & HrT & Hrest).
        split; [discriminate|]. split; [assumption|]. split; [lia|]. split; [lia|].
        apply (IH a H tr Hrest Ht Hr Hle HU Hnd).
    - destruct r as [|fr]; try contradiction. destruct fr; try contradiction; cbn [stats_ok].
      + destruct Htr as (Hin & Ht' & Hr' & Hrest).
        pose proof (length_remove_nodup f H Hnd Hin) as Hlen.
        split; [intros _; lia|]. split; [assumption|]. split; [lia|]. split; [lia|].
        replace (N.of_nat (length H) - 1) with (N.of_nat (length (remove N.eq_dec f H))) by lia.
        apply (IH a' (remove N.eq_dec f H) tr Hrest Ht'); try lia. apply nodup_remove. assumption.
      + destruct Htr as (-> & _ & Hrest).
        split; [discriminate|]. split; [assumption|]. split; [lia|]. split; [lia|].
        apply (IH a H tr Hrest Ht Hr Hle HU Hnd).
      + destruct Htr as (-> & _ & _ & _ & Hrest).
        split; [discriminate|]. split; [assumption|]. split; [lia|]. split; [lia|].
        apply (IH a H tr Hrest Ht Hr Hle HU Hnd).
  Qed.

  (** C03: the reported totals agree with the usable frames at every step *)
  Theorem history_stats ops :
    history_ok m kstart kend E ops ->
    stats_ok (total_frames m) (usable_count m kstart kend E) 0 (run a0 ops).
  Proof.
    intros Hops. destruct init_stats as (Ht & Hle & HU).
    apply (trace_stats (total_frames m) (a_reserved a0) (usable_count m kstart kend E) ops a0 [] (run a0 ops));
      try assumption; cbn [length]; try lia.
    - apply history_trace. assumption.
    - constructor.
  Qed.

  (** C03: exactly the usable frames can be drained, then out-of-memory *)
  Lemma drain_gen : forall k a R,
    Inv R a -> a_total a - a_reserved a = N.of_nat k ->
    exists fs, length fs = k /\
      map fst (run a (repeat OpAlloc (k + 1))) = map (fun f => RAlloc (Some f)) fs ++ [RAlloc None].
  Proof.
    induction k as [|k IH]; intros a R Hinv Hk; cbn [repeat Nat.add run step].
    - pose proof (bitmap_alloc_spec R a Hinv) as S. destruct (bitmap_alloc a) as [a' [f|]].
      + exfalso. destruct S as (_ & _ & Hinv' & _ & Ht & Hr & _).
        destruct Hinv' as (_ & _ & _ & _ & Hle). lia.
      + exists []. split; reflexivity.
    - pose proof (bitmap_alloc_spec R a Hinv) as S. destruct (bitmap_alloc a) as [a' [f|]].
      + destruct S as (_ & _ & Hinv' & _ & Ht & Hr & _).
        destruct (IH a' (upd R f true) Hinv') as (fs & Hlen & Hrun).
        { destruct Hinv' as (_ & _ & _ & _ & Hle). lia. }
        exists (f :: fs). split; [cbn; lia|]. cbn [map fst app]. rewrite Hrun. reflexivity.
      + exfalso. destruct S as (_ & Hfull & _). lia.
  Qed.

  Theorem drain_count :
    exists fs, N.of_nat (length fs) = usable_count m kstart kend E /\
      map fst (run a0 (repeat OpAlloc (length fs + 1))) = map (fun f => RAlloc (Some f)) fs ++ [RAlloc None].
  Proof.
    destruct init_facts as (Hinv & _). destruct init_stats as (_ & _ & HU).
    destruct (drain_gen (N.to_nat (usable_count m kstart kend E)) a0 R0 Hinv ltac:(lia)) as (fs & Hlen & Hrun).
    exists fs. rewrite Hlen. split; [lia|assumption].
  Qed.
End Top.

(** C03: Init never crashes *)
Theorem init_total m kstart kend limit mapfail :
  WFmap m -> WFkernel m kstart kend -> small_map m ->
  match fst (pmm_init m kstart kend limit mapfail) with
  | InitOk _ _ | InitErrReserve | InitErrMap | InitErrOOM => True
  | InitPanic | InitHang | InitStray => False
  end.
Proof.
  intros Hm Hk Hs. pose proof (pmm_init_spec m kstart kend Hm Hk Hs limit mapfail) as S.
  destruct (pmm_init m kstart kend limit mapfail) as [[| | | | | |] obs]; cbn [fst]; try exact I; exact S.
Qed.

(** with seams that do not fail, Init succeeds or reports out-of-memory *)
Lemma map_pages_nofail m ks ke pages :
  match map_pages m ks ke pages 0 with MErrMap _ _ => False | _ => True end.
Proof.
  unfold map_pages.
  match goal with |- context[N.iter pages ?F ?X] => set (step := F); set (x0 := X) end.
  assert (P: match snd (N.iter pages step x0) with MErrMap _ _ => False | _ => True end).
  { apply (N.iter_invariant pages _ step (fun st => match snd st with MErrMap _ _ => False | _ => True end)).
    - intros [i ml] H. cbn [snd] in *. unfold step. cbn [snd].
      destruct ml as [b calls|b calls|b calls]; try exact I; try contradiction.
      destruct (boot_alloc m ks ke b) as [b' [f|]]; [|exact I].
      destruct (N.eqb_spec 0 (i + 1)); [lia|exact I].
    - exact I. }
  exact P.
Qed.

Theorem init_ok_or_oom m kstart kend :
  WFmap m -> WFkernel m kstart kend -> small_map m ->
  match fst (pmm_init m kstart kend two64 0) with
  | InitOk _ _ | InitErrOOM => True
  | _ => False
  end.
Proof.
  intros Hm Hk Hs. pose proof (init_total m kstart kend two64 0 Hm Hk Hs) as T.
  unfold pmm_init in *.
  destruct (pass1 m 0) as [[npools total] req].
  assert (Hb: (two64 <? required_bytes npools req) = false).
  { unfold required_bytes. change pmask with (2 ^ 12 - 1). rewrite andnot_pow2.
    pose proof (w64_lt (w64 (npools * pmm_sizeofFramePool) + req + (2 ^ 12 - 1))). lia. }
  rewrite Hb in *.
  pose proof (map_pages_nofail m (kernel_start_frame kstart) (kernel_end_frame kend) (N.shiftr (required_bytes npools req) PageShift)) as NF.
  destruct (map_pages m (kernel_start_frame kstart) (kernel_end_frame kend) (N.shiftr (required_bytes npools req) PageShift) 0) as [b calls|b calls|b calls];
    cbn [fst] in *; try exact I; try contradiction.
  destruct (negb (N.of_nat (length (pass2 m)) =? npools)); cbn [fst] in *; [contradiction|].
  destruct (required_bytes npools req <? layout_bytes m npools); cbn [fst] in *; [contradiction|].
  destruct (reserve_kernel _ _ _); cbn [fst] in *; try contradiction.
  destruct (reserve_early _ _ _ _ _) as [b' [a2| |]]; cbn [fst] in *; try contradiction. exact I.
Qed.
