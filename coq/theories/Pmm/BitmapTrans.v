(** The hand-written model of the bitmap frame allocator (Pmm/Bitmap.v: [pool_for_frame], [mark_reserved],
    [bitmap_free], [bitmap_alloc]) IS the Gallina translation that gen/gotrans regenerates from
    kernel/mm/pmm/bitmap_allocator.go on every run (Gen/Trans_pmm_bitmap.v: poolForFrame, markFrame,
    FreeFrame, AllocFrame).

    The translation works on records generated from the Go structs: BitmapAllocator (mutex - a value whose
    Acquire / Release calls are events on the trace -, totalPages, reservedPages, pools []framePool) and
    framePool (startFrame, endFrame, freeCount, freeBitmap []uint64); the unsafe slice headers are left out.
    [to_ga] maps the model's [balloc] to it.  Results are [gres]; loops run on fuel. *)
From Coq Require Import NArith ZArith String List Bool Lia.
From Coq Require Import ZifyBool ZifyN ZifyNat.
From FF Require Import Lib.Word Lib.GoOps Lib.GoOpsExt Gen.Consts_mm_pmm Gen.Trans_pmm_bitmap.
From FF Require Import Pmm.Boot Pmm.Bitmap Pmm.Bits.
Import ListNotations.
Local Open Scope N_scope.
Ltac Zify.zify_post_hook ::= Z.div_mod_to_equations.

(** ---- the abstraction ---- *)
Definition to_gpool (p : pool) : go_pmm_framePool :=
  mk_go_pmm_framePool (p_start p) (p_end p) (p_free p) (p_bitmap p).

Definition to_ga (mtx : bool) (a : balloc) (tr : list gevent) : go_pmm_BitmapAllocator :=
  mk_go_pmm_BitmapAllocator mtx (a_total a) (a_reserved a) (map to_gpool (a_pools a)) tr.

Definition ev_acquire : gevent := GEv "Acquire" [].
Definition ev_release : gevent := GEv "Release" [].

Ltac asimp :=
  cbn [to_ga to_gpool
       f_BitmapAllocator_mutex f_BitmapAllocator_totalPages f_BitmapAllocator_reservedPages f_BitmapAllocator_pools
       f_BitmapAllocator_trace f_framePool_startFrame f_framePool_endFrame f_framePool_freeCount f_framePool_freeBitmap
       set_f_BitmapAllocator_mutex set_f_BitmapAllocator_totalPages set_f_BitmapAllocator_reservedPages
       set_f_BitmapAllocator_pools set_f_BitmapAllocator_trace
       set_f_framePool_startFrame set_f_framePool_endFrame set_f_framePool_freeCount set_f_framePool_freeBitmap
       a_total a_reserved a_pools p_start p_end p_free p_bitmap].

(** ---- lists of pools / words: the model's primitives are the translation's ---- *)
Lemma glenA_map {A B} (f : A -> B) l : glenA (map f l) = N.of_nat (length l).
Proof. unfold glenA. rewrite map_length. reflexivity. Qed.

Lemma gidxA_map {A B} (f : A -> B) l (i : nat) : gidxA (map f l) (N.of_nat i) = option_map f (nth_error l i).
Proof. unfold gidxA. rewrite Nat2N.id. apply nth_error_map. Qed.

Lemma gidxsA_map {A B} (f : A -> B) l (i : nat) : N.of_nat (length l) < two63 ->
  gidxsA 64 (map f l) (N.of_nat i) = option_map f (nth_error l i).
Proof.
  intros H. unfold gidxsA. destruct (N.lt_ge_cases (N.of_nat i) two63) as [A0|A0].
  - rewrite gisneg_small by exact A0. apply gidxA_map.
  - rewrite gisneg_big by exact A0. symmetry.
    replace (nth_error l i) with (@None A); [reflexivity|]. symmetry. apply nth_error_None. lia.
Qed.

Lemma update_pool_firstn_skipn : forall (ps : list pool) i p', (i < length ps)%nat ->
  update_pool i p' ps = firstn i ps ++ p' :: skipn (S i) ps.
Proof.
  induction ps as [|h tl IH]; intros i p' H; cbn [length] in H; [lia|].
  destruct i as [|i]; [reflexivity|]. cbn [update_pool firstn skipn app]. f_equal. apply IH. lia.
Qed.

Lemma gsetsA_map_update (ps : list pool) (i : nat) p' : (i < length ps)%nat -> N.of_nat (length ps) < two63 ->
  gsetsA 64 (map to_gpool ps) (N.of_nat i) (to_gpool p') = Some (map to_gpool (update_pool i p' ps)).
Proof.
  intros Hi Hl. unfold gsetsA. rewrite gisneg_small by lia. unfold gsetA. rewrite glenA_map.
  destruct (N.ltb_spec (N.of_nat i) (N.of_nat (length ps))); [|lia].
  rewrite Nat2N.id, update_pool_firstn_skipn by exact Hi.
  rewrite map_app, firstn_map. cbn [map]. rewrite skipn_map. reflexivity.
Qed.

Lemma nth_errorN_gidx (l : list N) i : nth_errorN l i = gidx l i.
Proof.
  unfold nth_errorN, gidx. destruct (N.ltb_spec i (N.of_nat (length l))); [reflexivity|].
  symmetry. apply nth_error_None. lia.
Qed.

Lemma set_nth_firstn_skipn : forall (l : list N) i w, (i < length l)%nat ->
  set_nth i w l = firstn i l ++ w :: skipn (S i) l.
Proof.
  induction l as [|h tl IH]; intros i w H; cbn [length] in H; [lia|].
  destruct i as [|i]; [reflexivity|]. cbn [set_nth firstn skipn app]. f_equal. apply IH. lia.
Qed.

Lemma gset_set_nth (l : list N) i w x : gidx l i = Some x -> gset l i w = Some (set_nth (N.to_nat i) w l).
Proof.
  intros H. assert (Hi : (N.to_nat i < length l)%nat) by (apply nth_error_Some; unfold gidx in H; congruence).
  rewrite gset_some by (unfold glen; lia). rewrite set_nth_firstn_skipn by exact Hi. reflexivity.
Qed.

(** the mask of markFrame / FreeFrame: [uint64(1 << (63 - (relFrame - block<<6)))] *)
Lemma mask_eq rel : rel < two64 ->
  gw 64 (N.shiftl 1 (gsub 64 63 (gsub 64 rel (gw 64 (N.shiftl (N.shiftr rel 6) 6))))) = bit_mask rel.
Proof.
  intros H. unfold two64 in H. unfold bit_mask.
  assert (E : N.shiftl (N.shiftr rel 6) 6 = rel / 64 * 64)
    by (rewrite N.shiftr_div_pow2, N.shiftl_mul_pow2; reflexivity).
  rewrite E. clear E.
  assert (A : rel / 64 * 64 <= rel) by lia.
  assert (B : rel - rel / 64 * 64 < 64) by lia.
  change (2 ^ 64) with 18446744073709551616 in *.
  rewrite (gw64_small' (rel / 64 * 64)) by (change (2 ^ 64) with 18446744073709551616; lia).
  rewrite (gsub64_small' rel) by (try change (2 ^ 64) with 18446744073709551616; lia).
  rewrite gsub64_small' by (try change (2 ^ 64) with 18446744073709551616; lia).
  apply gw64_small'. rewrite N.shiftl_1_l. apply N.pow_lt_mono_r; lia.
Qed.

Lemma dec32_eq x : gsub 32 x 1 = dec32 x.
Proof. unfold gsub, dec32, gw, w32, two32. change (2 ^ 32) with 4294967296. f_equal. change (1 mod 4294967296) with 1. lia. Qed.

Lemma inc32_eq x : gw 32 (x + 1) = inc32 x.
Proof. reflexivity. Qed.

(** ---- poolForFrame ---- *)
Definition idx_of (o : option nat) : N := match o with Some i => N.of_nat i | None => 2 ^ 64 - 1 end.

Theorem poolForFrame_is_translation mtx a tr f fuel :
  (length (a_pools a) < fuel)%nat ->
  go_pmm_BitmapAllocator_poolForFrame fuel (to_ga mtx a tr) f = GOk (to_ga mtx a tr, idx_of (pool_for_frame a f)).
Proof.
  intros Hfuel. cbv delta [go_pmm_BitmapAllocator_poolForFrame]. cbv beta zeta. asimp.
  match goal with |- context [gloop fuel ?f0 _] => set (step := f0) end.
  assert (L : forall n k fu, (k + n = length (a_pools a))%nat -> (n < fu)%nat ->
            gloop fu step (to_ga mtx a tr, N.of_nat k) =
            match pool_for_frame_from k (skipn k (a_pools a)) f with
            | Some i => GOk (inr (to_ga mtx a tr, N.of_nat i))
            | None => GOk (inl (to_ga mtx a tr, N.of_nat (length (a_pools a))))
            end).
  { induction n as [|n IH]; intros k fu Hk Hfu; (destruct fu as [|fu]; [lia|]).
    - rewrite skipn_all2 by lia. cbn [pool_for_frame_from].
      rewrite gloop_break with (s' := (to_ga mtx a tr, N.of_nat k)); [repeat f_equal; lia|].
      unfold step. rewrite glenA_map. destruct (N.ltb_spec (N.of_nat k) (N.of_nat (length (a_pools a)))); [lia|reflexivity].
    - destruct (nth_error (a_pools a) k) as [p|] eqn:Ep; [|apply nth_error_None in Ep; lia].
      assert (Esk : skipn k (a_pools a) = p :: skipn (S k) (a_pools a)).
      { clear - Ep. revert Ep. generalize (a_pools a). induction k as [|k IH]; intros [|x l] Ep; try discriminate.
        - injection Ep as ->. reflexivity.
        - cbn [nth_error] in Ep. cbn [skipn]. apply IH. exact Ep. }
      rewrite Esk. cbn [pool_for_frame_from].
      rewrite gloop_S. unfold step at 1. cbv beta iota zeta. asimp. rewrite glenA_map.
      destruct (N.ltb_spec (N.of_nat k) (N.of_nat (length (a_pools a)))); [|lia].
      rewrite gidxA_map, Ep. cbn [option_map]. asimp.
      destruct ((p_start p <=? f) && (f <=? p_end p)); [reflexivity|].
      replace (N.of_nat k + 1) with (N.of_nat (S k)) by lia. apply IH; lia. }
  change (gloop fuel step (to_ga mtx a tr, 0)) with (gloop fuel step (to_ga mtx a tr, N.of_nat 0)).
  rewrite (L (length (a_pools a)) 0%nat fuel eq_refl Hfuel). cbn [skipn].
  unfold pool_for_frame. destruct (pool_for_frame_from 0 (a_pools a) f); reflexivity.
Qed.

(** ---- folding: an update of the translation's records is the model's record with that field replaced ---- *)
Lemma fold_tr mtx a tr tr' : set_f_BitmapAllocator_trace (to_ga mtx a tr) tr' = to_ga mtx a tr'.
Proof. reflexivity. Qed.
Lemma fold_pools mtx a tr ps :
  set_f_BitmapAllocator_pools (to_ga mtx a tr) (map to_gpool ps) = to_ga mtx (mkBA (a_total a) (a_reserved a) ps) tr.
Proof. reflexivity. Qed.
Lemma fold_reserved mtx a tr x :
  set_f_BitmapAllocator_reservedPages (to_ga mtx a tr) x = to_ga mtx (mkBA (a_total a) x (a_pools a)) tr.
Proof. reflexivity. Qed.
Lemma fold_bitmap p x :
  set_f_framePool_freeBitmap (to_gpool p) x = to_gpool (mkPool (p_start p) (p_end p) (p_free p) x).
Proof. reflexivity. Qed.
Lemma fold_free p x :
  set_f_framePool_freeCount (to_gpool p) x = to_gpool (mkPool (p_start p) (p_end p) x (p_bitmap p)).
Proof. reflexivity. Qed.

Ltac afold := repeat (progress rewrite ?fold_tr, ?fold_pools, ?fold_reserved, ?fold_bitmap, ?fold_free).
Ltac astep := repeat (progress (afold; asimp)).

Lemma length_update_pool : forall ps i p', length (update_pool i p' ps) = length ps.
Proof. induction ps as [|h tl IH]; intros [|i] p'; cbn [update_pool length]; try reflexivity. f_equal. apply IH. Qed.

Lemma nth_update_pool : forall ps i p', (i < length ps)%nat -> nth_error (update_pool i p' ps) i = Some p'.
Proof.
  induction ps as [|h tl IH]; intros [|i] p' H; cbn [length] in H; try lia; [reflexivity|].
  cbn [update_pool nth_error]. apply IH. lia.
Qed.

Lemma update_update : forall ps i p1 p2, update_pool i p2 (update_pool i p1 ps) = update_pool i p2 ps.
Proof. induction ps as [|h tl IH]; intros [|i] p1 p2; cbn [update_pool]; try reflexivity. f_equal. apply IH. Qed.

Lemma pool_for_frame_from_spec_lt f : forall ps idx,
  match pool_for_frame_from idx ps f with
  | Some i => (idx <= i < idx + length ps)%nat
  | None => True
  end.
Proof.
  induction ps as [|p rest IH]; intros idx; cbn [pool_for_frame_from length]; [exact I|].
  destruct ((p_start p <=? f) && (f <=? p_end p)); [lia|].
  specialize (IH (S idx)). destruct (pool_for_frame_from (S idx) rest f); [lia|exact I].
Qed.

Lemma pool_for_frame_lt a f i : pool_for_frame a f = Some i -> (i < length (a_pools a))%nat.
Proof.
  unfold pool_for_frame. intros E. pose proof (pool_for_frame_from_spec_lt f (a_pools a) 0) as S.
  rewrite E in S. lia.
Qed.

Lemma gslt_idx_none : gslt 64 (idx_of None) 0 = true.
Proof. reflexivity. Qed.

Lemma gslt_idx_some i : N.of_nat i < two63 -> gslt 64 (idx_of (Some i)) 0 = false.
Proof. intros H. cbn [idx_of]. rewrite gslt_small by (unfold two63 in *; lia). apply N.ltb_ge. lia. Qed.

(** ---- FreeFrame ---- *)
Definition free_err (r : free_result) : option string :=
  match r with
  | FreeNotManaged => Some "errBitmapAllocFrameNotManaged"%string
  | FreeDoubleFree => Some "errBitmapAllocDoubleFree"%string
  | _ => None
  end.

Definition free_res mtx tr (r : balloc * free_result) : gres (go_pmm_BitmapAllocator * option string) :=
  match snd r with
  | FreePanic => GPanic
  | e => GOk (to_ga mtx (fst r) (ev_release :: ev_acquire :: tr), free_err e)
  end.

Theorem freeFrame_is_translation mtx a tr f fuel :
  N.of_nat (length (a_pools a)) < two63 -> (length (a_pools a) < fuel)%nat ->
  go_pmm_BitmapAllocator_FreeFrame fuel (to_ga mtx a tr) f = free_res mtx tr (bitmap_free a f).
Proof.
  intros Hl Hfuel.
  cbv delta [go_pmm_BitmapAllocator_FreeFrame bitmap_free]. cbv beta zeta. astep.
  rewrite poolForFrame_is_translation by exact Hfuel.
  destruct (pool_for_frame a f) as [i|] eqn:Ei.
  2:{ rewrite gslt_idx_none. astep. reflexivity. }
  pose proof (pool_for_frame_lt _ _ _ Ei) as Hi.
  rewrite gslt_idx_some by lia. cbn [idx_of]. astep.
  rewrite !gidxsA_map by exact Hl.
  destruct (nth_error (a_pools a) i) as [p|] eqn:Ep; [|apply nth_error_None in Ep; lia].
  cbn [option_map]. asimp.
  change (gsub 64 f (p_start p)) with (sub64 f (p_start p)).
  set (rel := sub64 f (p_start p)).
  assert (Hrel : rel < two64) by (unfold rel, sub64; apply w64_lt).
  rewrite (mask_eq rel Hrel).
  rewrite nth_errorN_gidx.
  destruct (gidx (p_bitmap p) (N.shiftr rel 6)) as [w|] eqn:Ew; [|reflexivity].
  destruct (N.land w (bit_mask rel) =? 0); [astep; reflexivity|].
  rewrite (gset_set_nth _ _ _ _ Ew). astep.
  rewrite gsetsA_map_update by assumption. astep.
  rewrite !gidxsA_map by (cbn [a_pools]; rewrite length_update_pool; exact Hl).
  cbn [a_pools]. rewrite nth_update_pool by exact Hi. cbn [option_map]. astep.
  rewrite gsetsA_map_update by (rewrite ?length_update_pool; assumption).
  rewrite update_update. astep.
  rewrite dec32_eq. reflexivity.
Qed.

(** ---- markFrame(poolIndex, frame, markReserved) ---- *)
Definition mark_res mtx tr (o : outcome balloc) : gres (go_pmm_BitmapAllocator * unit) :=
  match o with Ok a' => GOk (to_ga mtx a' tr, tt) | Panic => GPanic | Hang => GFuel end.

Theorem markFrame_reserved_is_translation mtx a tr (pi : option nat) f :
  N.of_nat (length (a_pools a)) < two63 -> (forall i, pi = Some i -> N.of_nat i < two63) ->
  go_pmm_BitmapAllocator_markFrame (to_ga mtx a tr) (idx_of pi) f false = mark_res mtx tr (mark_reserved a pi f).
Proof.
  intros Hl Hpi.
  cbv delta [go_pmm_BitmapAllocator_markFrame mark_reserved]. cbv beta zeta. astep.
  destruct pi as [i|]; [|rewrite gslt_idx_none; reflexivity].
  rewrite gslt_idx_some by (apply Hpi; reflexivity). cbn [idx_of].
  rewrite !gidxsA_map by exact Hl.
  destruct (nth_error (a_pools a) i) as [p|] eqn:Ep; [|reflexivity].
  assert (Hi : (i < length (a_pools a))%nat) by (apply nth_error_Some; congruence).
  cbn [option_map]. asimp.
  destruct (p_end p <? f); [reflexivity|].
  change (gsub 64 f (p_start p)) with (sub64 f (p_start p)).
  set (rel := sub64 f (p_start p)).
  assert (Hrel : rel < two64) by (unfold rel, sub64; apply w64_lt).
  rewrite (mask_eq rel Hrel). cbn [Bool.eqb].
  rewrite nth_errorN_gidx.
  destruct (gidx (p_bitmap p) (N.shiftr rel 6)) as [w|] eqn:Ew; [|reflexivity].
  rewrite (gset_set_nth _ _ _ _ Ew). astep.
  rewrite gsetsA_map_update by assumption. astep.
  rewrite !gidxsA_map by (cbn [a_pools]; rewrite length_update_pool; exact Hl).
  cbn [a_pools]. rewrite nth_update_pool by exact Hi. cbn [option_map]. astep.
  rewrite gsetsA_map_update by (rewrite ?length_update_pool; assumption).
  rewrite update_update. astep.
  rewrite dec32_eq. reflexivity.
Qed.

(** ---- AllocFrame ---- *)
Lemma w64_idem3 x off : gw 64 (gw 64 (gw 64 x + off)) = w64 (x + off).
Proof.
  change (gw 64) with w64. unfold w64, two64.
  rewrite N.mod_mod by discriminate. apply N.add_mod_idemp_l. discriminate.
Qed.

Lemma nth_error_Some_lt {A} (l : list A) k x : nth_error l k = Some x -> (k < length l)%nat.
Proof. intros E. apply nth_error_Some. congruence. Qed.

Lemma firstn_S_nth_error {A} : forall k (l : list A) x, nth_error l k = Some x -> firstn (S k) l = firstn k l ++ [x].
Proof.
  induction k as [|k IH]; intros [|y l] x E; try discriminate.
  - injection E as ->. reflexivity.
  - cbn [nth_error] in E. cbn [firstn app]. f_equal. apply IH. exact E.
Qed.

Lemma skipn_nth_error_cons {A} : forall k (l : list A) x, nth_error l k = Some x -> skipn k l = x :: skipn (S k) l.
Proof.
  induction k as [|k IH]; intros [|y l] x E; try discriminate.
  - injection E as ->. reflexivity.
  - cbn [nth_error] in E. cbn [skipn]. apply IH. exact E.
Qed.

Definition alloc_res mtx tr (r : balloc * option N) : gres (go_pmm_BitmapAllocator * (N * option string)) :=
  match snd r with
  | Some f => GOk (to_ga mtx (fst r) (ev_release :: ev_acquire :: tr), (f, None))
  | None => GOk (to_ga mtx (fst r) (ev_release :: ev_acquire :: tr), (mm_InvalidFrame, Some "errBitmapAllocOutOfMemory"%string))
  end.

Theorem allocFrame_is_translation mtx a tr fuel :
  N.of_nat (length (a_pools a)) < two63 ->
  (forall p, In p (a_pools a) -> N.of_nat (length (p_bitmap p)) < two63 /\ (length (p_bitmap p) < fuel)%nat) ->
  (length (a_pools a) < fuel)%nat -> (64 < fuel)%nat ->
  go_pmm_BitmapAllocator_AllocFrame fuel (to_ga mtx a tr) = alloc_res mtx tr (bitmap_alloc a).
Proof.
  intros Hl Hbm Hfuel H64.
  cbv delta [go_pmm_BitmapAllocator_AllocFrame]. cbv beta zeta. astep.
  match goal with |- context [gloop fuel ?f0 _] => set (stepA := f0) end.
  set (G := to_ga mtx a (GEv "Acquire" [] :: tr)).
  set (SUCC := fun (k : nat) (p' : pool) (f : N) =>
         (to_ga mtx (mkBA (a_total a) (inc32 (a_reserved a)) (update_pool k p' (a_pools a)))
                (ev_release :: ev_acquire :: tr), (f, @None string))).
  (* one iteration of the loop over the pools = try_pool *)
  assert (Row : forall k p, nth_error (a_pools a) k = Some p ->
            stepA (G, N.of_nat k) =
            match try_pool p with
            | Some (f, p') => GOk (GRet (SUCC k p' f))
            | None => GOk (GNext (G, N.of_nat (S k)))
            end).
  { intros k p Ep.
    assert (Hk : (k < length (a_pools a))%nat) by (apply nth_error_Some; congruence).
    destruct (Hbm p (nth_error_In _ _ Ep)) as (Hb63 & Hbf).
    unfold stepA. cbv beta iota zeta. unfold G. asimp. rewrite glenA_map.
    rewrite gslt_small by (unfold two63 in *; lia).
    destruct (N.ltb_spec (N.of_nat k) (N.of_nat (length (a_pools a)))); [|lia].
    rewrite !gidxsA_map by exact Hl. rewrite Ep. cbn [option_map]. asimp.
    unfold try_pool.
    rewrite (gw64_small' (N.of_nat k + 1)) by (unfold two63 in Hl; change (2 ^ 64) with 18446744073709551616; change (2 ^ 63) with 9223372036854775808 in Hl; lia).
    replace (N.of_nat k + 1) with (N.of_nat (S k)) by lia.
    destruct (p_free p =? 0); [reflexivity|].
    match goal with |- context [gloop fuel ?f0 _] => set (stepB := f0) end.
    (* the loop over the words of the pool's bitmap = scan_blocks *)
    assert (LB : forall n j fu, (j + n = length (p_bitmap p))%nat -> (n < fu)%nat ->
              gloop fu stepB (G, N.of_nat j) =
              match scan_blocks (N.of_nat j) (skipn j (p_bitmap p)) with
              | Some (bi, off, mask) =>
                  GOk (inr (SUCC k (mkPool (p_start p) (p_end p) (dec32 (p_free p))
                                       (set_nth (N.to_nat bi) (N.lor (nth (N.to_nat bi) (p_bitmap p) 0) mask) (p_bitmap p)))
                                   (w64 (p_start p + w64 (N.shiftl bi 6 + off)))))
              | None => GOk (inl (G, N.of_nat (length (p_bitmap p))))
              end).
    { induction n as [|n IH]; intros j fu Hj Hfu; (destruct fu as [|fu]; [lia|]).
      - rewrite skipn_all2 by lia. cbn [scan_blocks].
        rewrite gloop_break with (s' := (G, N.of_nat j)); [repeat f_equal; lia|].
        unfold stepB, glen. destruct (N.ltb_spec (N.of_nat j) (N.of_nat (length (p_bitmap p)))); [lia|reflexivity].
      - destruct (nth_error (p_bitmap p) j) as [w|] eqn:Ew; [|apply nth_error_None in Ew; lia].
        rewrite (skipn_nth_error_cons _ _ _ Ew). cbn [scan_blocks].
        rewrite gloop_S. unfold stepB at 1. cbv beta iota zeta. unfold glen, G. asimp.
        destruct (N.ltb_spec (N.of_nat j) (N.of_nat (length (p_bitmap p)))); [|lia].
        rewrite !gidxsA_map by exact Hl. rewrite Ep. cbn [option_map]. asimp.
        unfold gidx at 1. rewrite Nat2N.id, Ew.
        change (gw 64 18446744073709551615) with max64.
        replace (N.of_nat j + 1) with (N.of_nat (S j)) by lia.
        destruct (w =? max64); [apply IH; lia|].
        match goal with |- context [gloop fuel ?f0 _] => set (stepC := f0) end.
        (* the scan of one word = scan_bits *)
        assert (LC : forall m off mask fu', mask < 2 ^ N.of_nat m -> off + N.of_nat m <= 64 -> (m < fu')%nat ->
                  match scan_bits m off mask w with
                  | Some (o', m') =>
                      gloop fu' stepC (G, off, mask) =
                      GOk (inr (SUCC k (mkPool (p_start p) (p_end p) (dec32 (p_free p))
                                          (set_nth j (N.lor w m') (p_bitmap p)))
                                      (w64 (p_start p + w64 (N.shiftl (N.of_nat j) 6 + o')))))
                  | None => exists o' m', gloop fu' stepC (G, off, mask) = GOk (inl (G, o', m'))
                  end).
        { assert (Hw : gidx (p_bitmap p) (N.of_nat j) = Some w) by (unfold gidx; rewrite Nat2N.id; exact Ew).
          assert (Hj63 : N.of_nat j < two63) by (apply nth_error_Some_lt in Ew; lia).
          induction m as [|m IHm]; intros off mask fu' Hm Ho Hfu'; (destruct fu' as [|fu']; [lia|]).
          - cbn [scan_bits]. exists off, mask. apply gloop_break. unfold stepC.
            assert (mask = 0) by (cbn [N.of_nat N.pow] in Hm; lia). subst mask. reflexivity.
          - cbn [scan_bits]. destruct (N.eqb_spec mask 0) as [->|Hm0].
            { exists off, 0. apply gloop_break. reflexivity. }
            assert (Step0 : (0 <? mask) = true) by (apply N.ltb_lt; lia).
            destruct (N.land w mask =? 0) eqn:Eland.
            + (* a clear bit: take it *)
              rewrite gloop_S. unfold stepC at 1. cbv beta iota zeta. rewrite Step0, Eland. cbn [negb].
              unfold G. asimp.
              rewrite !gidxsA_map by exact Hl. rewrite Ep. cbn [option_map]. astep.
              rewrite gsetsA_map_update by assumption. astep.
              rewrite !gidxsA_map by (cbn [a_pools]; rewrite length_update_pool; exact Hl).
              cbn [a_pools]. rewrite nth_update_pool by exact Hk. cbn [option_map]. astep.
              rewrite gidxs_small by exact Hj63. rewrite Hw.
              rewrite gsets_small by exact Hj63. rewrite (gset_set_nth _ _ _ _ Hw). rewrite Nat2N.id. astep.
              rewrite gsetsA_map_update by (rewrite ?length_update_pool; assumption).
              rewrite update_update. astep.
              rewrite !gidxsA_map by (cbn [a_pools]; rewrite length_update_pool; exact Hl).
              cbn [a_pools]. rewrite nth_update_pool by exact Hk. cbn [option_map]. asimp.
              rewrite w64_idem3, dec32_eq. reflexivity.
            + (* next bit *)
              assert (Hsh : N.shiftr mask 1 < 2 ^ N.of_nat m).
              { rewrite N.shiftr_div_pow2. change (2 ^ 1) with 2.
                replace (N.of_nat (S m)) with (N.of_nat m + 1) in Hm by lia. rewrite N.pow_add_r in Hm. change (2 ^ 1) with 2 in Hm.
                apply N.div_lt_upper_bound; lia. }
              assert (StepN : stepC (G, off, mask) = GOk (GNext (G, off + 1, N.shiftr mask 1))).
              { unfold stepC. rewrite Step0, Eland. cbn [negb].
                rewrite gw64_small' by (change (2 ^ 64) with 18446744073709551616; lia). reflexivity. }
              specialize (IHm (off + 1) (N.shiftr mask 1) fu' Hsh ltac:(lia) ltac:(lia)).
              destruct (scan_bits m (off + 1) (N.shiftr mask 1) w) as [[o' m']|].
              * rewrite (gloop_next _ _ _ _ StepN). exact IHm.
              * destruct IHm as (o' & m' & IHm). exists o', m'. rewrite (gloop_next _ _ _ _ StepN). exact IHm. }
        change (gw 64 0) with 0. change (gw 64 (N.shiftl 1 63)) with (N.shiftl 1 63).
        fold G.
        specialize (LC 64%nat 0 (N.shiftl 1 63) fuel ltac:(reflexivity) ltac:(reflexivity) H64).
        destruct (scan_bits 64 0 (N.shiftl 1 63) w) as [[o' m']|].
        * rewrite LC. cbv iota beta. rewrite Nat2N.id.
          replace (nth j (p_bitmap p) 0) with w by (symmetry; apply nth_error_nth; exact Ew). reflexivity.
        * destruct LC as (o' & m' & LC). rewrite LC. cbv iota beta.
          rewrite (gloop_next _ _ _ _ eq_refl) || idtac. apply IH; lia. }
    fold G. change (gloop fuel stepB (G, 0)) with (gloop fuel stepB (G, N.of_nat 0)).
    rewrite (LB (length (p_bitmap p)) 0%nat fuel eq_refl Hbf). cbn [skipn N.of_nat].
    destruct (scan_blocks 0 (p_bitmap p)) as [[[bi off] mask]|]; reflexivity. }
  (* the loop over the pools = alloc_pools *)
  assert (LA : forall n k fu, (k + n = length (a_pools a))%nat -> (n < fu)%nat ->
            gloop fu stepA (G, N.of_nat k) =
            match alloc_pools (skipn k (a_pools a)) with
            | Some (f, rest') =>
                GOk (inr (to_ga mtx (mkBA (a_total a) (inc32 (a_reserved a)) (firstn k (a_pools a) ++ rest'))
                                (ev_release :: ev_acquire :: tr), (f, @None string)))
            | None => GOk (inl (G, N.of_nat (length (a_pools a))))
            end).
  { induction n as [|n IH]; intros k fu Hk Hfu; (destruct fu as [|fu]; [lia|]).
    - rewrite skipn_all2 by lia. cbn [alloc_pools].
      rewrite gloop_break with (s' := (G, N.of_nat k)); [repeat f_equal; lia|].
      unfold stepA, G. asimp. rewrite glenA_map. rewrite gslt_small by (unfold two63 in *; lia).
      destruct (N.ltb_spec (N.of_nat k) (N.of_nat (length (a_pools a)))); [lia|reflexivity].
    - destruct (nth_error (a_pools a) k) as [p|] eqn:Ep; [|apply nth_error_None in Ep; lia].
      rewrite (skipn_nth_error_cons _ _ _ Ep). cbn [alloc_pools].
      rewrite gloop_S, (Row k p Ep).
      destruct (try_pool p) as [[f p']|].
      + unfold SUCC. rewrite update_pool_firstn_skipn by lia. reflexivity.
      + rewrite (IH (S k) fu ltac:(lia) ltac:(lia)).
        destruct (alloc_pools (skipn (S k) (a_pools a))) as [[f rest']|]; [|reflexivity].
        rewrite (firstn_S_nth_error _ _ _ Ep), <- app_assoc. reflexivity. }
  change (gw 64 0) with (N.of_nat 0).
  rewrite (LA (length (a_pools a)) 0%nat fuel eq_refl Hfuel). cbn [skipn firstn app].
  unfold bitmap_alloc.
  destruct (alloc_pools (a_pools a)) as [[f ps]|]; [reflexivity|].
  cbv iota beta. unfold G. astep. reflexivity.
Qed.

(** FreeFrame / AllocFrame with [free_res] / [alloc_res] unfolded (the form stated in Props/C03_trans.v) *)
Theorem freeFrame_is_translation_explicit mtx a tr f fuel :
  N.of_nat (length (a_pools a)) < 2 ^ 63 -> (length (a_pools a) < fuel)%nat ->
  go_pmm_BitmapAllocator_FreeFrame fuel (to_ga mtx a tr) f =
  match bitmap_free a f with
  | (_, FreePanic) => GPanic
  | (a', r) =>
      GOk (to_ga mtx a' (GEv "Release" [] :: GEv "Acquire" [] :: tr),
           match r with
           | FreeNotManaged => Some "errBitmapAllocFrameNotManaged"%string
           | FreeDoubleFree => Some "errBitmapAllocDoubleFree"%string
           | _ => None
           end)
  end.
Proof.
  intros H1 H2. rewrite (freeFrame_is_translation mtx a tr f fuel H1 H2).
  unfold free_res. destruct (bitmap_free a f) as [a' r]. destruct r; reflexivity.
Qed.

Theorem allocFrame_is_translation_explicit mtx a tr fuel :
  N.of_nat (length (a_pools a)) < 2 ^ 63 ->
  (forall p, In p (a_pools a) -> N.of_nat (length (p_bitmap p)) < 2 ^ 63 /\ (length (p_bitmap p) < fuel)%nat) ->
  (length (a_pools a) < fuel)%nat -> (64 < fuel)%nat ->
  go_pmm_BitmapAllocator_AllocFrame fuel (to_ga mtx a tr) =
  match bitmap_alloc a with
  | (a', Some f) => GOk (to_ga mtx a' (GEv "Release" [] :: GEv "Acquire" [] :: tr), (f, None))
  | (a', None) =>
      GOk (to_ga mtx a' (GEv "Release" [] :: GEv "Acquire" [] :: tr),
           (mm_InvalidFrame, Some "errBitmapAllocOutOfMemory"%string))
  end.
Proof.
  intros H1 H2 H3 H4. rewrite (allocFrame_is_translation mtx a tr fuel H1 H2 H3 H4).
  unfold alloc_res. destruct (bitmap_alloc a) as [a' [f|]]; reflexivity.
Qed.
