(** Bitmap frame allocator, tie by translation, third part (agent c02trans): reserveEarlyAllocatorFrames, the hand-over
    from the early-boot allocator - the cooperation of bitmap_allocator.go and bootmem_allocator.go.

    Go:   allocCount := bootMemAllocator.allocCount
          bootMemAllocator.allocCount, bootMemAllocator.lastAllocFrame = 0, 0
          for i := uint64(0); i < allocCount; i++ {
              frame, _ := bootMemAllocator.AllocFrame()
              alloc.markFrame(alloc.poolForFrame(frame), frame, markReserved) }

    gen/gotrans (config "gstructs", ext_gstruct.go) threads the package-level struct [bootMemAllocator] through the
    function as an in/out record next to the receiver; its AllocFrame is the translation of
    BootMemAllocator.AllocFrame inside the same generated file (the closure passed to multiboot.VisitMemRegions is a
    [gvisit] over the extra parameter [regions], config "visitors"), shown equal to the model's [boot_alloc] here once
    more for this copy (Pmm/BootTrans.v does it for C02's copy in Gen/Trans_pmm_boot.v).
    The model is [reserve_early] of Pmm/Bitmap.v - the function [pmm_init] runs and the init theorems are about. *)
From Coq Require Import NArith ZArith String List Bool Lia.
From Coq Require Import ZifyBool ZifyN ZifyNat.
From FF Require Import Lib.Word Lib.GoOps Lib.GoOpsExt Lib.GoOpsProofs Lib.GoVisit Gen.Consts_mm_pmm Gen.Trans_pmm_bitmap.
From FF Require Import Pmm.Boot Pmm.BootProofs Pmm.Bitmap Pmm.Bits Pmm.BitmapTrans Pmm.BitmapTrans2.
Import ListNotations.
Local Open Scope N_scope.
Ltac Zify.zify_post_hook ::= Z.div_mod_to_equations.

(** ---- the boot allocator's record and the memory-map entries ---- *)
Definition to_gr (r : region) : go_multiboot_MemoryMapEntry :=
  mk_go_multiboot_MemoryMapEntry (r_addr r) (r_len r) (r_type r).

Definition to_gb (ka kb ks ke : N) (st : bstate) : go_pmm_BootMemAllocator :=
  mk_go_pmm_BootMemAllocator (b_count st) (b_last st) ka kb ks ke.

Lemma to_gr_list_onto (gs : list go_multiboot_MemoryMapEntry) : exists m, gs = map to_gr m.
Proof.
  induction gs as [|[a l t] gs [m ->]]; [exists []; reflexivity|]. exists (mkRegion a l t :: m). reflexivity.
Qed.

Lemma to_gb_onto (g : go_pmm_BootMemAllocator) : exists ka kb ks ke st, g = to_gb ka kb ks ke st.
Proof. destruct g as [c l ka kb ks ke]. exists ka, kb, ks, ke, (mkB c l). reflexivity. Qed.

Ltac bsimp :=
  cbn [to_gb to_gr b_count b_last r_addr r_len r_type
       f_BootMemAllocator_allocCount f_BootMemAllocator_lastAllocFrame f_BootMemAllocator_kernelStartAddr
       f_BootMemAllocator_kernelEndAddr f_BootMemAllocator_kernelStartFrame f_BootMemAllocator_kernelEndFrame
       set_f_BootMemAllocator_allocCount set_f_BootMemAllocator_lastAllocFrame set_f_BootMemAllocator_kernelStartAddr
       set_f_BootMemAllocator_kernelEndAddr set_f_BootMemAllocator_kernelStartFrame set_f_BootMemAllocator_kernelEndFrame
       f_MemoryMapEntry_PhysAddress f_MemoryMapEntry_Length f_MemoryMapEntry_Type].

Lemma go_pagesize : gw 64 mm_PageSize = PageSize. Proof. reflexivity. Qed.
Lemma go_pmask' : gw 64 (gsub 64 mm_PageSize 1) = pmask. Proof. reflexivity. Qed.
Lemma pmask_lt : pmask < two64. Proof. reflexivity. Qed.
Lemma gsub64_sub64 a b : gsub 64 a b = sub64 a b. Proof. reflexivity. Qed.

Lemma go_frame_down_w x :
  gw 64 (N.shiftr (N.land (gw 64 x) (gnot 64 pmask)) mm_PageShift) = frame_down (w64 x).
Proof.
  rewrite (gw64 x). rewrite (land_gnot64 (w64 x) pmask (w64_lt x) pmask_lt).
  change (N.shiftr (N.ldiff (w64 x) pmask) mm_PageShift) with (frame_down (w64 x)).
  apply gw64_small. rewrite frame_down_eq. pose proof (w64_lt x). unfold two64 in *. lia.
Qed.

Definition err_after (stop : bool) (err : option string) : option string := if stop then None else err.

Section Scan.
  Variables ka kb ks ke count : N.

  Definition closure_spec (step : go_multiboot_MemoryMapEntry -> go_pmm_BootMemAllocator * option string ->
                                  gres ((go_pmm_BootMemAllocator * option string) * bool)) : Prop :=
    forall (r : region) (last : N) (err : option string),
      step (to_gr r) (to_gb ka kb ks ke (mkB count last), err) =
      GOk ((to_gb ka kb ks ke (mkB count (fst (boot_visit ks ke count last r))),
            err_after (snd (boot_visit ks ke count last r)) err),
           negb (snd (boot_visit ks ke count last r))).

  Lemma scan_is_gvisit step : closure_spec step ->
    forall (m : memmap) (last : N) (err : option string),
      gvisit step (map to_gr m) (to_gb ka kb ks ke (mkB count last), err) =
      GOk (to_gb ka kb ks ke (mkB count (fst (boot_scan ks ke count last m))),
           err_after (snd (boot_scan ks ke count last m)) err).
  Proof.
    intros H. induction m as [|r m IH]; intros last err; [reflexivity|].
    cbn [map gvisit boot_scan]. rewrite H.
    destruct (boot_visit ks ke count last r) as [l [|]]; cbn [fst snd negb err_after].
    - reflexivity.
    - apply IH.
  Qed.
End Scan.

Definition go_result (res : option N) : N * option string :=
  match res with Some f => (f, None) | None => (mm_InvalidFrame, Some "errBootAllocOutOfMemory"%string) end.

(** BootMemAllocator.AllocFrame as translated into Gen/Trans_pmm_bitmap.v = [boot_alloc] *)
Theorem bootAllocFrame_is_translation : forall (ka kb ks ke : N) (st : bstate) (m : memmap),
  go_pmm_BootMemAllocator_AllocFrame (to_gb ka kb ks ke st) (map to_gr m) =
  GOk (to_gb ka kb ks ke (fst (boot_alloc m ks ke st)), go_result (snd (boot_alloc m ks ke st))).
Proof.
  intros ka kb ks ke [count last] m. unfold go_pmm_BootMemAllocator_AllocFrame. cbv zeta.
  rewrite (scan_is_gvisit ka kb ks ke count).
  - unfold boot_alloc. cbn [b_count b_last].
    destruct (boot_scan ks ke count last m) as [l [|]]; cbn [fst snd err_after gerr_eqb negb]; bsimp; reflexivity.
  - intros r lst err. bsimp.
    rewrite go_pagesize, go_pmask'. rewrite !go_frame_down_w. rewrite !gsub64_sub64. change (gw 64) with w64.
    unfold boot_visit, region_start_frame, region_end_frame, frame_up, is_avail.
    generalize (frame_down (w64 (r_addr r + pmask))). intros rs.
    generalize (sub64 (frame_down (w64 (r_addr r + r_len r))) 1). intros re.
    destruct (negb (r_type r =? multiboot_MemAvailable) || (r_len r <? PageSize)); [reflexivity|].
    destruct (re <=? lst); [reflexivity|].
    destruct ((lst <=? rs) && (ks =? rs) || (rs <=? lst) && (lst <=? re) && (w64 (lst + 1) =? ks)).
    + destruct (re <? w64 (ke + 1)); reflexivity.
    + destruct ((lst <? rs) || (count =? 0)).
      * destruct (re <? rs); reflexivity.
      * destruct (re <? w64 (lst + 1)); reflexivity.
Qed.

(** ---- the replay loop ---- *)
Definition next_frame (m : memmap) (ks ke : N) (b : bstate) : N :=
  match snd (boot_alloc m ks ke b) with Some f => f | None => mm_InvalidFrame end.

(** the loop as Go runs it: allocate from the boot allocator, mark the frame in the bitmap; a panic ends it *)
Fixpoint eloop (m : memmap) (ks ke : N) (n : nat) (b : bstate) (a : balloc) : outcome (bstate * balloc) :=
  match n with
  | O => Ok (b, a)
  | S n' =>
      match mark_reserved a (pool_for_frame a (next_frame m ks ke b)) (next_frame m ks ke b) with
      | Ok a1 => eloop m ks ke n' (fst (boot_alloc m ks ke b)) a1
      | Panic => Panic
      | Hang => Hang
      end
  end.

Section Replay.
  Variables (mtx : bool) (tr : list gevent) (ka kb ks ke : N) (m : memmap) (count : N) (np : nat).
  Variable step : go_pmm_BitmapAllocator * go_pmm_BootMemAllocator * N ->
                  gres (gctl (go_pmm_BitmapAllocator * go_pmm_BootMemAllocator * N) (go_pmm_BitmapAllocator * go_pmm_BootMemAllocator)).
  Hypothesis Hcount : count < two64.
  (** one iteration of the translated loop, in the model's terms *)
  Hypothesis Hstep : forall a b i, length (a_pools a) = np ->
    step (to_ga mtx a tr, to_gb ka kb ks ke b, i) =
    if i <? count
    then match mark_reserved a (pool_for_frame a (next_frame m ks ke b)) (next_frame m ks ke b) with
         | Ok a1 => GOk (GNext (to_ga mtx a1 tr, to_gb ka kb ks ke (fst (boot_alloc m ks ke b)), gw 64 (i + 1)))
         | Panic => GPanic
         | Hang => GFuel
         end
    else GOk (GBreak (to_ga mtx a tr, to_gb ka kb ks ke b, i)).

  Lemma eloop_is_gloop : forall n lf i a b, (n < lf)%nat -> length (a_pools a) = np -> i + N.of_nat n = count ->
    gloop lf step (to_ga mtx a tr, to_gb ka kb ks ke b, i) =
    match eloop m ks ke n b a with
    | Ok (b', a') => GOk (inl (to_ga mtx a' tr, to_gb ka kb ks ke b', count))
    | Panic => GPanic
    | Hang => GFuel
    end.
  Proof.
    induction n as [|n IH]; intros lf i a b Hf Hl E.
    - destruct lf as [|lf]; [lia|]. cbn [gloop eloop]. rewrite (Hstep a b i Hl).
      replace (i <? count) with false by lia. replace i with count by lia. reflexivity.
    - destruct lf as [|lf]; [lia|]. cbn [gloop eloop]. rewrite (Hstep a b i Hl).
      replace (i <? count) with true by lia.
      destruct (mark_reserved a _ _) as [a1| |] eqn:Em; [|reflexivity|reflexivity].
      rewrite (gw64_small (i + 1)) by (unfold two64 in *; lia).
      apply IH; [lia| |lia]. rewrite (mark_reserved_length _ _ _ _ Em). exact Hl.
  Qed.
End Replay.

(** [reserve_early] of Pmm/Bitmap.v iterates a step with a sticky outcome *)
Definition eF (m : memmap) (ks ke : N) (st : bstate * outcome balloc) : bstate * outcome balloc :=
  let '(b, o) := st in
  let '(b', r) := boot_alloc m ks ke b in
  let f := match r with Some f => f | None => mm_InvalidFrame end in
  (b', obind o (fun a' => mark_reserved a' (pool_for_frame a' f) f)).

Lemma eF_sticky m ks ke o : (o = Panic \/ o = Hang) -> forall n b, snd (Nat.iter n (eF m ks ke) (b, o)) = o.
Proof.
  intros Ho. induction n as [|n IH]; intros b; [reflexivity|].
  change (Nat.iter (S n) (eF m ks ke) (b, o)) with (eF m ks ke (Nat.iter n (eF m ks ke) (b, o))).
  specialize (IH b). destruct (Nat.iter n (eF m ks ke) (b, o)) as [b1 o1] eqn:E.
  cbn [snd] in IH. subst o1. unfold eF. destruct (boot_alloc m ks ke b1) as [b2 r]. cbn [snd].
  destruct Ho as [-> | ->]; reflexivity.
Qed.

Lemma eF_eloop m ks ke : forall n b a,
  match eloop m ks ke n b a with
  | Ok (b', a') => Nat.iter n (eF m ks ke) (b, Ok a) = (b', Ok a')
  | Panic => snd (Nat.iter n (eF m ks ke) (b, Ok a)) = Panic
  | Hang => snd (Nat.iter n (eF m ks ke) (b, Ok a)) = Hang
  end.
Proof.
  induction n as [|n IH]; intros b a; [reflexivity|].
  rewrite iter_succ_r'. cbn [eloop]. unfold next_frame.
  assert (E : eF m ks ke (b, Ok a) =
              (fst (boot_alloc m ks ke b),
               mark_reserved a (pool_for_frame a (match snd (boot_alloc m ks ke b) with Some f => f | None => mm_InvalidFrame end))
                 (match snd (boot_alloc m ks ke b) with Some f => f | None => mm_InvalidFrame end)))
    by (unfold eF; destruct (boot_alloc m ks ke b) as [b' r]; reflexivity).
  rewrite E.
  destruct (mark_reserved a _ _) as [a1| |].
  - apply IH.
  - apply eF_sticky. left. reflexivity.
  - apply eF_sticky. right. reflexivity.
Qed.

Lemma reserve_early_eF m ks ke a bst :
  reserve_early m ks ke a bst = Nat.iter (N.to_nat (b_count bst)) (eF m ks ke) (boot_reset, Ok a).
Proof. unfold reserve_early. rewrite N2Nat.inj_iter. reflexivity. Qed.

Definition early_res mtx tr ka kb ks ke (r : bstate * outcome balloc) : gres (go_pmm_BitmapAllocator * go_pmm_BootMemAllocator) :=
  match r with
  | (b', Ok a') => GOk (to_ga mtx a' tr, to_gb ka kb ks ke b')
  | (_, Panic) => GPanic
  | (_, Hang) => GFuel
  end.

Theorem reserveEarlyAllocatorFrames_is_translation mtx a tr ka kb ks ke bst m fuel :
  N.of_nat (length (a_pools a)) < two63 -> (length (a_pools a) < fuel)%nat ->
  b_count bst < two64 -> (N.to_nat (b_count bst) < fuel)%nat ->
  go_pmm_BitmapAllocator_reserveEarlyAllocatorFrames fuel (to_ga mtx a tr) (to_gb ka kb ks ke bst) (map to_gr m) =
  early_res mtx tr ka kb ks ke (reserve_early m ks ke a bst).
Proof.
  intros Hl Hf Hc Hn. unfold go_pmm_BitmapAllocator_reserveEarlyAllocatorFrames. cbv zeta. bsimp.
  change (gw 64 0) with 0.
  change (set_f_BootMemAllocator_lastAllocFrame (set_f_BootMemAllocator_allocCount (to_gb ka kb ks ke bst) 0) 0)
    with (to_gb ka kb ks ke boot_reset).
  rewrite (eloop_is_gloop mtx tr ka kb ks ke m (b_count bst) (length (a_pools a)) _ Hc) with (n := N.to_nat (b_count bst));
    [| |exact Hn|reflexivity|lia].
  - rewrite reserve_early_eF.
    pose proof (eF_eloop m ks ke (N.to_nat (b_count bst)) boot_reset a) as H.
    destruct (eloop m ks ke (N.to_nat (b_count bst)) boot_reset a) as [[b' a']| |].
    + rewrite H. reflexivity.
    + destruct (Nat.iter _ _ _) as [b1 o1]. cbn [snd] in H. subst o1. reflexivity.
    + destruct (Nat.iter _ _ _) as [b1 o1]. cbn [snd] in H. subst o1. reflexivity.
  - (* one iteration *)
    intros a0 b i Hl0. cbn beta iota.
    destruct (i <? b_count bst); [|reflexivity].
    rewrite bootAllocFrame_is_translation. unfold next_frame, go_result.
    destruct (snd (boot_alloc m ks ke b)) as [f|]; cbn beta iota.
    all: rewrite (poolForFrame_is_translation mtx a0 tr _ fuel) by lia.
    all: match goal with |- context[go_pmm_BitmapAllocator_markFrame _ (idx_of (pool_for_frame ?a1 ?f)) _ false] =>
           rewrite (markFrame_reserved_is_translation mtx a1 tr (pool_for_frame a1 f) f);
             [| lia | intros j Ej; pose proof (pool_for_frame_lt _ _ _ Ej); lia]
         end.
    all: destruct (mark_reserved a0 _ _); reflexivity.
Qed.

(** ---- BitmapAllocator.init: the glue ---- *)
(** Go:  if err := alloc.setupPoolBitmaps(); err != nil { return err }
         alloc.reserveKernelFrames(); alloc.reserveEarlyAllocatorFrames(); alloc.printStats(); return nil
    setupPoolBitmaps (unsafe slice headers) and printStats (kfmt) are not translated: config "opaquecalls" records them as
    events on the allocator's trace; setupPoolBitmaps' effect on the two structs and its error come from the oracle
    [o_setupPoolBitmaps].  What follows a successful setup is the tail of the model's [pmm_init]. *)
Definition init_tail (m : memmap) (ks ke : N) (a0 : balloc) (b : bstate) : outcome (balloc * bstate) :=
  match reserve_kernel a0 ks ke with
  | Panic => Panic
  | Hang => Hang
  | Ok a1 =>
      match reserve_early m ks ke a1 b with
      | (_, Panic) => Panic
      | (_, Hang) => Hang
      | (b', Ok a2) => Ok (a2, b')
      end
  end.

Definition tail_result (o : outcome (balloc * bstate)) : init_result :=
  match o with Ok (a, b) => InitOk a b | Panic => InitPanic | Hang => InitHang end.

(** [pmm_init] = its set-up part (pass 1, the mapping loop, pass 2: the model of setupPoolBitmaps), then [init_tail] *)
Lemma pmm_init_tail m kstart kend limit mapfail b calls :
  let ks := kernel_start_frame kstart in
  let ke := kernel_end_frame kend in
  let npools := fst (fst (pass1 m 0)) in
  let total := snd (fst (pass1 m 0)) in
  let bytes := required_bytes npools (snd (pass1 m 0)) in
  (limit <? bytes) = false ->
  map_pages m ks ke (N.shiftr bytes PageShift) mapfail = MGo b calls ->
  (N.of_nat (length (pass2 m)) =? npools) = true ->
  (bytes <? layout_bytes m npools) = false ->
  fst (pmm_init m kstart kend limit mapfail) = tail_result (init_tail m ks ke (mkBA total 0 (pass2 m)) b).
Proof.
  cbv zeta. unfold pmm_init. destruct (pass1 m 0) as [[npools total] req]. cbn [fst snd].
  intros H1 H2 H3 H4. rewrite H1, H2, H3, H4. cbn [negb]. unfold init_tail.
  destruct (reserve_kernel _ _ _) as [a1| |]; try reflexivity.
  destruct (reserve_early _ _ _ _ _) as [b' [a2| |]]; reflexivity.
Qed.

Lemma kloop_length pi : forall n f a a', kloop pi n f a = Ok a' -> length (a_pools a') = length (a_pools a).
Proof.
  induction n as [|n IH]; intros f a a' H; cbn [kloop] in H; [injection H as <-; reflexivity|].
  destruct (mark_reserved a pi f) as [a1| |] eqn:Em; try discriminate.
  rewrite (IH _ _ _ H). apply (mark_reserved_length _ _ _ _ Em).
Qed.

Lemma reserve_kernel_length a ks ke a1 : ke < max64 -> reserve_kernel a ks ke = Ok a1 ->
  length (a_pools a1) = length (a_pools a).
Proof. intros Hke H. rewrite (reserve_kernel_kloop a ks ke Hke) in H. apply (kloop_length _ _ _ _ _ H). Qed.

Definition ev_setup : gevent := GEv "setupPoolBitmaps" [].
Definition ev_stats : gevent := GEv "printStats" [].

Definition init_res mtx tr ka kb ks ke (o : outcome (balloc * bstate)) : gres (go_pmm_BitmapAllocator * (option string * go_pmm_BootMemAllocator)) :=
  match o with
  | Ok (a2, b') => GOk (to_ga mtx a2 (ev_stats :: tr), (None, to_gb ka kb ks ke b'))
  | Panic => GPanic
  | Hang => GFuel
  end.

Theorem init_is_translation (ga : go_pmm_BitmapAllocator) (gb : go_pmm_BootMemAllocator)
        (o : go_pmm_BitmapAllocator -> go_pmm_BootMemAllocator -> go_pmm_BitmapAllocator * go_pmm_BootMemAllocator * option string)
        mtx a0 tr0 ka kb ks ke b0 err m fuel :
  o (set_f_BitmapAllocator_trace ga (ev_setup :: f_BitmapAllocator_trace ga)) gb = (to_ga mtx a0 tr0, to_gb ka kb ks ke b0, err) ->
  N.of_nat (length (a_pools a0)) < two63 -> (length (a_pools a0) < fuel)%nat ->
  ke < max64 -> (N.to_nat (ke + 1 - ks) < fuel)%nat ->
  b_count b0 < two64 -> (N.to_nat (b_count b0) < fuel)%nat ->
  go_pmm_BitmapAllocator_init fuel ga gb o (map to_gr m) =
  match err with
  | Some e => GOk (to_ga mtx a0 tr0, (Some e, to_gb ka kb ks ke b0))
  | None => init_res mtx tr0 ka kb ks ke (init_tail m ks ke a0 b0)
  end.
Proof.
  intros Ho Hl Hf Hke Hn Hc Hcn. unfold go_pmm_BitmapAllocator_init. cbv zeta.
  change (GEv "setupPoolBitmaps" nil) with ev_setup. rewrite Ho.
  destruct err as [e|]; [reflexivity|]. cbn [gerr_eqb negb]. bsimp.
  rewrite (reserveKernelFrames_is_translation mtx a0 tr0 ks ke fuel Hl Hf Hke Hn).
  unfold init_tail. destruct (reserve_kernel a0 ks ke) as [a1| |] eqn:Ek; cbn [mark_res]; [|reflexivity|reflexivity].
  pose proof (reserve_kernel_length _ _ _ _ Hke Ek) as Hl1.
  rewrite (reserveEarlyAllocatorFrames_is_translation mtx a1 tr0 ka kb ks ke b0 m fuel) by (rewrite ?Hl1; assumption).
  destruct (reserve_early m ks ke a1 b0) as [b' [a2| |]]; reflexivity.
Qed.
