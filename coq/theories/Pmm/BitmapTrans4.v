(** Bitmap frame allocator, tie by translation, fourth part (agent c02trans): the SIZING arithmetic of
    BitmapAllocator.setupPoolBitmaps (kernel/mm/pmm/bitmap_allocator.go).  The function as a whole is outside
    gen/gotrans's subset (unsafe slice-header overlays); config "fragments" (gen/gotrans/ext_frag.go) translates
      pass1    - the body of the first closure passed to multiboot.VisitMemRegions (pool count, totalPages, bitmap bytes),
      required - `requiredBytes := (..) & ^pageSizeMinus1; requiredPages := requiredBytes >> mm.PageShift`,
      layout   - `bitmapStartAddr := alloc.poolsHdr.Data + uintptr(alloc.poolsHdr.Len)*sizeofPool`,
      pass2    - the body of the second closure (per-pool start / end frame, freeCount, bitmap words, bitmap addresses),
    with the slice-header fields and the fields of alloc.pools[poolIndex] renamed to variables.  They are proved equal to
    the model's [pass1_step], [required_bytes], [pool_region] / [pool_of_region] / [bitmap_bytes] (Pmm/Bitmap.v), the
    functions [pmm_init] builds the pools with. *)
From Coq Require Import NArith ZArith String List Bool Lia.
From Coq Require Import ZifyBool ZifyN ZifyNat.
From FF Require Import Lib.Word Lib.GoOps Lib.GoOpsExt Lib.GoOpsProofs Lib.GoVisit Gen.Consts_mm_pmm Gen.Trans_pmm_bitmap.
From FF Require Import Pmm.Boot Pmm.BootProofs Pmm.Bitmap Pmm.BitmapTrans Pmm.BitmapTrans3.
Import ListNotations.
Local Open Scope N_scope.
Ltac Zify.zify_post_hook ::= Z.div_mod_to_equations.

Lemma gw_idem x : gw 64 (gw 64 x) = gw 64 x.
Proof. unfold gw. apply N.mod_mod. discriminate. Qed.

Lemma gw_add_l a b : gw 64 (gw 64 a + b) = gw 64 (a + b).
Proof. unfold gw. apply N.add_mod_idemp_l. discriminate. Qed.

Lemma gw_add_r a b : gw 64 (a + gw 64 b) = gw 64 (a + b).
Proof. unfold gw. apply N.add_mod_idemp_r. discriminate. Qed.

Lemma gw_mul_l a b : gw 64 (gw 64 a * b) = gw 64 (a * b).
Proof. unfold gw. apply N.mul_mod_idemp_l. discriminate. Qed.

(** the two frame numbers of a region as both closures compute them *)
Lemma go_region_start r :
  gw 64 (N.shiftr (N.land (gw 64 (gw 64 (r_addr r) + pmask)) (gnot 64 pmask)) mm_PageShift) = region_start_frame r.
Proof. rewrite gw_add_l. apply go_frame_down_w. Qed.

Lemma go_region_end r :
  gsub 64 (gw 64 (N.shiftr (N.land (gw 64 (gw 64 (r_addr r + r_len r))) (gnot 64 pmask)) mm_PageShift)) 1 = region_end_frame r.
Proof. rewrite gw_idem. rewrite go_frame_down_w. reflexivity. Qed.

Lemma region_frames_eq r :
  gw 64 (gsub 64 (region_end_frame r) (region_start_frame r) + 1) = region_frames r.
Proof. reflexivity. Qed.

Lemma shift_small x : x < two64 -> gw 64 (N.shiftr (N.ldiff x 63) 3) = N.shiftr (N.ldiff x 63) 3.
Proof.
  intros H. apply gw64_small. change 63 with (2 ^ 6 - 1). fold (andnot x (2 ^ 6 - 1)). rewrite andnot_pow2.
  rewrite N.shiftr_div_pow2. change (2 ^ 6) with 64. change (2 ^ 3) with 8. unfold two64 in *. lia.
Qed.

Ltac gsimp :=
  cbn [to_ga to_gr a_total a_reserved a_pools r_addr r_len r_type
       f_BitmapAllocator_totalPages set_f_BitmapAllocator_totalPages f_BitmapAllocator_mutex f_BitmapAllocator_reservedPages
       f_BitmapAllocator_pools f_BitmapAllocator_trace
       f_MemoryMapEntry_PhysAddress f_MemoryMapEntry_Length f_MemoryMapEntry_Type].

(** ---- pass 1 ---- *)
Theorem pass1_is_translation mtx a tr (npools cap req : N) (r : region) :
  npools + 1 < two64 ->
  go_pmm_BitmapAllocator_setupPoolBitmaps_pass1 (to_ga mtx a tr) pmask npools cap req (to_gr r) =
  let '(np', total', req') := pass1_step (npools, a_total a, req) r in
  GOk ((to_ga mtx (mkBA total' (a_reserved a) (a_pools a)) tr, np',
        (if pool_region r then gw 64 (cap + 1) else cap), req'), true).
Proof.
  intros Hn. unfold go_pmm_BitmapAllocator_setupPoolBitmaps_pass1. cbv zeta. gsimp.
  rewrite go_region_start, go_region_end. rewrite region_frames_eq.
  unfold pass1_step, pool_region, is_avail.
  destruct (r_type r =? multiboot_MemAvailable); cbn [negb andb]; [|destruct a; reflexivity].
  change (gw 64 (region_end_frame r + 1)) with (w64 (region_end_frame r + 1)).
  destruct (w64 (region_end_frame r + 1) <=? region_start_frame r); cbn [negb]; [destruct a; reflexivity|].
  rewrite (gw64_small (npools + 1) Hn).
  rewrite shift_small by (change (gw 32) with w32; pose proof (w32_lt (w32 (region_frames r) + 63)); unfold two32, two64 in *; lia).
  reflexivity.
Qed.

(** ---- required bytes / pages ---- *)
Theorem required_is_translation (ga : go_pmm_BitmapAllocator) (npools req : N) :
  go_pmm_BitmapAllocator_setupPoolBitmaps_required ga pmask pmm_sizeofFramePool npools req =
  GOk (ga, required_bytes npools req, N.shiftr (required_bytes npools req) PageShift).
Proof.
  unfold go_pmm_BitmapAllocator_setupPoolBitmaps_required. cbv zeta.
  rewrite gw_mul_l, gw_add_r, gw_add_l.
  rewrite land_gnot64 by (try apply pmask_lt; rewrite gw64; apply w64_lt).
  assert (E : gw 64 (gw 64 (npools * pmm_sizeofFramePool) + req + pmask) =
              w64 (w64 (npools * pmm_sizeofFramePool) + req + pmask)) by reflexivity.
  rewrite E. reflexivity.
Qed.

(** ---- where the bitmaps start ---- *)
Theorem layout_is_translation (ga : go_pmm_BitmapAllocator) (npools data : N) :
  go_pmm_BitmapAllocator_setupPoolBitmaps_layout ga pmm_sizeofFramePool npools data =
  GOk (ga, w64 (data + npools * pmm_sizeofFramePool)).
Proof.
  unfold go_pmm_BitmapAllocator_setupPoolBitmaps_layout. cbv zeta.
  rewrite gw_mul_l, gw_add_r. reflexivity.
Qed.

(** ---- pass 2 ---- *)
Lemma bitmap_bytes_lt r : bitmap_bytes r < 2 ^ 61.
Proof.
  unfold bitmap_bytes. generalize (w64 (region_frames r + 63)) (w64_lt (region_frames r + 63)). intros x Hx.
  change 63 with (2 ^ 6 - 1). rewrite andnot_pow2. rewrite N.shiftr_div_pow2.
  change (2 ^ 6) with 64. change (2 ^ 3) with 8.
  change (2 ^ 61) with 2305843009213693952. unfold two64 in *. lia.
Qed.

Lemma pool_words r : N.of_nat (length (p_bitmap (pool_of_region r))) = N.shiftr (bitmap_bytes r) 3.
Proof. cbn [pool_of_region p_bitmap]. rewrite repeat_length. apply N2Nat.id. Qed.

Theorem pass2_is_translation (ga : go_pmm_BitmapAllocator) (bsa pi ps pe pf bl bc bd : N) (r : region) :
  go_pmm_BitmapAllocator_setupPoolBitmaps_pass2 ga pmask bsa pi ps pe pf bl bc bd (to_gr r) =
  if pool_region r
  then GOk ((ga, w64 (bsa + bitmap_bytes r), w64 (pi + 1),
             p_start (pool_of_region r), p_end (pool_of_region r), p_free (pool_of_region r),
             N.of_nat (length (p_bitmap (pool_of_region r))), N.of_nat (length (p_bitmap (pool_of_region r))), bsa), true)
  else GOk ((ga, bsa, pi, ps, pe, pf, bl, bc, bd), true).
Proof.
  unfold go_pmm_BitmapAllocator_setupPoolBitmaps_pass2. cbv zeta. gsimp.
  rewrite go_region_start, go_region_end. rewrite region_frames_eq.
  unfold pool_region, is_avail.
  destruct (r_type r =? multiboot_MemAvailable); cbn [negb andb]; [|reflexivity].
  change (gw 64 (region_end_frame r + 1)) with (w64 (region_end_frame r + 1)).
  destruct (w64 (region_end_frame r + 1) <=? region_start_frame r); cbn [negb]; [reflexivity|].
  rewrite pool_words. rewrite !gw_add_l.
  change (N.shiftr (N.ldiff (gw 64 (region_frames r + 63)) 63) 3) with (bitmap_bytes r).
  rewrite (gw64_small (N.shiftr (bitmap_bytes r) 3))
    by (pose proof (bitmap_bytes_lt r); rewrite N.shiftr_div_pow2; change (2 ^ 3) with 8;
        change (2 ^ 61) with 2305843009213693952 in *; unfold two64; lia).
  reflexivity.
Qed.
