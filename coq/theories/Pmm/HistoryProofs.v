(** Histories of AllocFrame / FreeFrame calls from any state that satisfies the representation
    invariant (C01/C03). The set of frames held by callers is a ghost list [H]. *)
From Coq Require Import NArith ZArith Lia List Bool Sorted.
From Coq Require Import ZifyBool ZifyN ZifyNat.
From FF Require Import Lib.Word Gen.Consts_mm_pmm Pmm.Boot Pmm.BootProofs Pmm.Bitmap Pmm.Bits Pmm.BitmapProofs.
Import ListNotations.
Local Open Scope N_scope.
Ltac Zify.zify_post_hook ::= Z.div_mod_to_equations.

Definition memb (f : N) (H : list N) : bool := existsb (N.eqb f) H.

Lemma memb_In f H : memb f H = true <-> In f H.
Proof.
  unfold memb. rewrite existsb_exists. split.
  - intros (x & Hin & E). apply N.eqb_eq in E. subst. assumption.
  - intros Hin. exists f. split; [assumption|apply N.eqb_refl].
Qed.

Lemma memb_false f H : memb f H = false <-> ~ In f H.
Proof. rewrite <- memb_In. destruct (memb f H); split; intros H0; try congruence; try (exfalso; auto; fail). Qed.

(** reserved = reserved at initialisation ([R0]: kernel image, early-boot frames) or held *)
Definition RH (R0 : N -> bool) (H : list N) : N -> bool := fun g => R0 g || memb g H.

Lemma Inv_ext R R' a : (forall g, R g = R' g) -> Inv R a -> Inv R' a.
Proof.
  intros E (H1 & H2 & H3 & H4 & H5). repeat split; try assumption.
  apply (Forall_InvPool_ext R); [intros; apply E|assumption].
Qed.

Lemma memb_remove f g H : g <> f -> memb g (remove N.eq_dec f H) = memb g H.
Proof.
  intros Hne. unfold memb. induction H as [|h H IH]; cbn; [reflexivity|].
  destruct (N.eq_dec f h) as [E|Hfh].
  - subst h. rewrite IH. destruct (N.eqb_spec g f); [contradiction|reflexivity].
  - cbn. rewrite IH. reflexivity.
Qed.

Lemma length_remove_nodup f H : NoDup H -> In f H -> S (length (remove N.eq_dec f H)) = length H.
Proof.
  induction H as [|h H IH]; intros Hnd Hin; [destruct Hin|].
  inversion Hnd as [|? ? Hnot Hnd']; subst. cbn.
  destruct (N.eq_dec f h) as [E|Hne].
  - subst h. rewrite notin_remove by assumption. reflexivity.
  - cbn. destruct Hin as [E|Hin]; [congruence|]. rewrite IH by assumption. reflexivity.
Qed.

Lemma nodup_remove f H : NoDup H -> NoDup (remove N.eq_dec f H).
Proof.
  induction H as [|h H IH]; intros Hnd; cbn; [constructor|].
  inversion Hnd as [|? ? Hnot Hnd']; subst.
  destruct (N.eq_dec f h); [apply IH; assumption|].
  constructor; [|apply IH; assumption]. intros Hin. apply in_remove in Hin. apply Hnot. apply Hin.
Qed.

(** the histories the properties quantify over: any allocation, any free except a free of a
    managed frame that was reserved at initialisation and never handed to a caller *)
Definition op_ok (rs : list (N * N)) (R0 : N -> bool) (o : op) : Prop :=
  match o with
  | OpAlloc => True
  | OpFree f => in_ranges rs f -> R0 f = false
  end.

(** What every step of a history guarantees ([a]: state before the step, [H]: frames held before
    the step; [T]: total frames; [r0]: frames reserved at initialisation). *)
Fixpoint trace_ok (rs : list (N * N)) (R0 : N -> bool) (T r0 : N) (a : balloc) (H : list N)
         (tr : list (res * balloc)) (ops : list op) : Prop :=
  match ops, tr with
  | [], [] => True
  | OpAlloc :: ops', (RAlloc (Some f), a') :: tr' =>
      in_ranges rs f /\ R0 f = false /\ ~ In f H /\
      (forall g, in_ranges rs g -> R0 g = false -> ~ In g H -> f <= g) /\
      a_total a' = T /\ a_reserved a' = r0 + N.of_nat (length H) + 1 /\ a_reserved a' <= T /\
      trace_ok rs R0 T r0 a' (f :: H) tr' ops'
  | OpAlloc :: ops', (RAlloc None, a') :: tr' =>
      a' = a /\ (forall g, in_ranges rs g -> R0 g = false -> In g H) /\
      a_total a = T /\ a_reserved a = T /\
      trace_ok rs R0 T r0 a' H tr' ops'
  | OpFree f :: ops', (RFree FreeOk, a') :: tr' =>
      In f H /\ a_total a' = T /\ a_reserved a' + 1 = r0 + N.of_nat (length H) /\
      trace_ok rs R0 T r0 a' (remove N.eq_dec f H) tr' ops'
  | OpFree f :: ops', (RFree FreeNotManaged, a') :: tr' =>
      a' = a /\ ~ in_ranges rs f /\
      trace_ok rs R0 T r0 a' H tr' ops'
  | OpFree f :: ops', (RFree FreeDoubleFree, a') :: tr' =>
      a' = a /\ in_ranges rs f /\ R0 f = false /\ ~ In f H /\
      trace_ok rs R0 T r0 a' H tr' ops'
  | _, _ => False
  end.

Definition held_ok (rs : list (N * N)) (R0 : N -> bool) (H : list N) : Prop :=
  NoDup H /\ forall f, In f H -> in_ranges rs f /\ R0 f = false.

Lemma run_trace_ok rs R0 T r0 : forall ops a H,
  Inv (RH R0 H) a -> held_ok rs R0 H ->
  ranges (a_pools a) = rs -> a_total a = T -> a_reserved a = r0 + N.of_nat (length H) ->
  Forall (op_ok rs R0) ops ->
  trace_ok rs R0 T r0 a H (run a ops) ops.
Proof.
  induction ops as [|o ops IH]; intros a H Hinv [Hnd Hheld] Hrs HT Hres Hops; cbn [run trace_ok]; [exact I|].
  inversion Hops as [|? ? Hop Hops']; subst.
  destruct o as [|f]; cbn [step].
  - pose proof (bitmap_alloc_spec (RH R0 H) a Hinv) as S.
    destruct (bitmap_alloc a) as [a' [f|]].
    + destruct S as (Hm & HR & Hinv' & Hr & Ht & Hrsv & Hlow).
      apply managed_ranges in Hm. unfold RH in HR. apply orb_false_iff in HR. destruct HR as [HR0 HRm].
      apply memb_false in HRm.
      cbn [trace_ok]. split; [assumption|]. split; [assumption|]. split; [assumption|].
      split.
      { intros g Hg Hg0 HgH. apply Hlow; [apply managed_ranges; assumption|].
        unfold RH. rewrite Hg0. apply memb_false in HgH. rewrite HgH. reflexivity. }
      split; [assumption|]. split; [lia|].
      split; [destruct Hinv' as (_ & _ & _ & _ & Hle'); lia|].
      apply IH; try assumption.
      * apply (Inv_ext (upd (RH R0 H) f true)); [|assumption].
        intros g. unfold upd, RH. cbn [memb existsb]. fold (memb g H).
        destruct (N.eqb_spec g f) as [->|Hne]; [rewrite orb_true_r; reflexivity|reflexivity].
      * split; [constructor; assumption|]. intros g [<-|Hg]; [split; assumption|apply Hheld; assumption].
      * cbn [length]. lia.
    + destruct S as (-> & Hfull & Hall). cbn [trace_ok].
      split; [reflexivity|]. split.
      { intros g Hg Hg0. specialize (Hall g ltac:(apply managed_ranges; assumption)).
        unfold RH in Hall. rewrite Hg0 in Hall. cbn in Hall. apply memb_In. assumption. }
      split; [reflexivity|]. split; [lia|].
      apply IH; try assumption; try reflexivity. split; assumption.
  - pose proof (bitmap_free_spec (RH R0 H) a f Hinv) as S.
    destruct (bitmap_free a f) as [a' r]. destruct r.
    + destruct S as (Hm & HR & Hinv' & Hr & Ht & Hrsv).
      apply managed_ranges in Hm. cbn [op_ok] in Hop. specialize (Hop Hm).
      unfold RH in HR. rewrite Hop in HR. cbn in HR. apply memb_In in HR.
      pose proof (length_remove_nodup f H Hnd HR) as Hlen.
      cbn [trace_ok]. split; [assumption|]. split; [assumption|]. split; [lia|].
      apply IH; try assumption.
      * apply (Inv_ext (upd (RH R0 H) f false)); [|assumption].
        intros g. unfold upd, RH. destruct (N.eqb_spec g f) as [->|Hne].
        -- rewrite Hop. cbn. symmetry. apply memb_false. apply remove_In.
        -- rewrite memb_remove by assumption. reflexivity.
      * split; [apply nodup_remove; assumption|]. intros g Hg. apply in_remove in Hg. apply Hheld. apply Hg.
      * lia.
    + destruct S as (-> & Hnm). cbn [trace_ok]. split; [reflexivity|]. split.
      { intros Hm. apply Hnm. apply managed_ranges. assumption. }
      apply IH; try assumption; try reflexivity. split; assumption.
    + destruct S as (-> & Hm & HR). apply managed_ranges in Hm.
      unfold RH in HR. apply orb_false_iff in HR. destruct HR as [HR0 HRm]. apply memb_false in HRm.
      cbn [trace_ok]. split; [reflexivity|]. split; [assumption|]. split; [assumption|]. split; [assumption|].
      apply IH; try assumption; try reflexivity. split; assumption.
    + destruct S.
Qed.
