(** pmm.Init establishes the representation invariant (C01/C03): pool construction, kernel-image
    reservation, replay of the early-boot allocations. *)
From Coq Require Import NArith ZArith Lia List Bool Sorted.
From Coq Require Import ZifyBool ZifyN ZifyNat.
From FF Require Import Lib.Word Gen.Consts_mm_pmm Pmm.Boot Pmm.BootProofs Pmm.Bitmap Pmm.Bits Pmm.BitmapProofs Pmm.HistoryProofs.
Import ListNotations.
Local Open Scope N_scope.
Ltac Zify.zify_post_hook ::= Z.div_mod_to_equations.

Lemma sizeofFramePool_val : pmm_sizeofFramePool = 72. Proof. reflexivity. Qed.

(** ---- one region ---- *)
Lemma region_frames_facts r :
  WFregion r ->
  region_start_frame r = RS r /\
  pool_region r = is_avail r && (RS r <? RE1 r) /\
  (RS r < RE1 r -> region_end_frame r = RE1 r - 1 /\ region_frames r = RE1 r - RS r).
Proof.
  intros Hwf. unfold WFregion, two64 in Hwf.
  assert (Hs: region_start_frame r = RS r).
  { unfold region_start_frame. rewrite frame_up_eq by (unfold two64; lia). reflexivity. }
  assert (He: region_end_frame r = if RE1 r =? 0 then max64 else RE1 r - 1).
  { unfold region_end_frame. rewrite w64_small by (unfold two64; lia). rewrite frame_down_eq. fold (RE1 r).
    destruct (N.eqb_spec (RE1 r) 0) as [E|E].
    - rewrite E. reflexivity.
    - apply sub64_1; [lia|]. unfold RE1, two64. lia. }
  split; [assumption|]. split.
  - unfold pool_region. rewrite Hs, He. f_equal.
    destruct (N.eqb_spec (RE1 r) 0) as [E|E].
    + rewrite E. change (w64 (max64 + 1)) with 0. destruct (N.ltb_spec (RS r) 0); [lia|]. destruct (N.leb_spec 0 (RS r)); [reflexivity|lia].
    + assert (Hb: RE1 r < two64) by (unfold RE1, two64; lia).
      replace (RE1 r - 1 + 1) with (RE1 r) by lia. rewrite w64_small by assumption.
      destruct (N.leb_spec (RE1 r) (RS r)); destruct (N.ltb_spec (RS r) (RE1 r)); try lia; reflexivity.
  - intros Hlt. rewrite He. destruct (N.eqb_spec (RE1 r) 0) as [E|E]; [lia|]. split; [reflexivity|].
    unfold region_frames. rewrite He, Hs. destruct (N.eqb_spec (RE1 r) 0); [lia|].
    assert (Hb: RE1 r < two64) by (unfold RE1, two64; lia). unfold two64 in Hb.
    rewrite sub64_small by (unfold two64; lia).
    replace (RE1 r - 1 - RS r + 1) with (RE1 r - RS r) by lia. apply w64_small. unfold two64. lia.
Qed.

Definition nfr (r : region) : N := RE1 r - RS r.

Fixpoint total_frames (m : memmap) : N :=
  match m with [] => 0 | r :: rest => (if pool_region r then nfr r else 0) + total_frames rest end.

Fixpoint bitmap_total (m : memmap) : N :=
  match m with [] => 0 | r :: rest => (if pool_region r then (nfr r + 63) / 64 * 8 else 0) + bitmap_total rest end.

(** fewer than 2^32-64 frames of available RAM (the counters are uint32, and the first pass
    rounds the frame count up to a multiple of 64 in uint32 arithmetic) *)
Definition small_map (m : memmap) : Prop := total_frames m + 64 <= two32.

Lemma bitmap_total_le m : Forall WFregion m -> bitmap_total m <= total_frames m * 8.
Proof.
  induction m as [|r rest IH]; intros Hwf; cbn; [lia|].
  inversion Hwf as [|? ? Hr Hrest]; subst. specialize (IH Hrest).
  destruct (region_frames_facts r Hr) as (_ & Hp & _). rewrite Hp.
  destruct (is_avail r); cbn [andb]; [|lia].
  destruct (N.ltb_spec (RS r) (RE1 r)); [|lia]. unfold nfr. lia.
Qed.

Lemma pass1_gen : forall m np tot req,
  Forall WFregion m -> tot + total_frames m + 64 <= two32 -> req + total_frames m * 8 < two32 * 16 ->
  fold_left pass1_step m (np, tot, req) =
  (np + N.of_nat (length (filter pool_region m)), tot + total_frames m, req + bitmap_total m).
Proof.
  induction m as [|r rest IH]; intros np tot req Hwf Htot Hreq; cbn [fold_left filter total_frames bitmap_total length].
  - f_equal; [f_equal|]; lia.
  - inversion Hwf as [|? ? Hr Hrest]; subst.
    destruct (region_frames_facts r Hr) as (Hs & Hp & Hf).
    cbn [total_frames] in Htot, Hreq.
    unfold pass1_step at 2. destruct (pool_region r) eqn:Epr.
    + assert (Hlt: RS r < RE1 r) by (rewrite Hp in Epr; destruct (is_avail r); cbn in Epr; [lia|discriminate]).
      destruct (Hf Hlt) as (He & Hn). rewrite Hn. fold (nfr r) in *.
      pose proof (bitmap_total_le rest Hrest) as Hbt.
      unfold two32 in *.
      assert (H1: w32 (nfr r) = nfr r) by (apply w32_small; unfold two32; lia). rewrite H1.
      assert (H2: w32 (tot + nfr r) = tot + nfr r) by (apply w32_small; unfold two32; lia). rewrite H2.
      assert (H3: w32 (nfr r + 63) = nfr r + 63) by (apply w32_small; unfold two32; lia). rewrite H3.
      assert (H4: N.shiftr (andnot (nfr r + 63) 63) 3 = (nfr r + 63) / 64 * 8).
      { change 63 with (2 ^ 6 - 1) at 2. rewrite andnot_pow2, N.shiftr_div_pow2. change (2 ^ 6) with 64. change (2 ^ 3) with 8. lia. }
      rewrite H4.
      assert (H5: w64 (req + (nfr r + 63) / 64 * 8) = req + (nfr r + 63) / 64 * 8) by (apply w64_small; unfold two64; lia).
      rewrite H5. rewrite (IH _ _ _ Hrest); [|unfold two32; lia|unfold two32; lia].
      cbn [length]. f_equal; [f_equal|]; lia.
    + rewrite (IH _ _ _ Hrest); [|lia|lia]. rewrite !N.add_0_l. reflexivity.
Qed.

(** ---- the pools built by the second pass ---- *)
Lemma bitf_zeros k i : bitf (repeat 0 k) i = false.
Proof.
  unfold bitf. assert (H: nth (N.to_nat (i / 64)) (repeat 0 k) 0 = 0).
  { generalize (N.to_nat (i / 64)). induction k as [|k IH]; intros [|j]; cbn; auto. }
  rewrite H. apply N.bits_0.
Qed.

Lemma cnt_const_false n : cnt (fun _ => false) n = N.of_nat n.
Proof. induction n as [|n IH]; cbn [cnt]; [reflexivity|]. rewrite IH. lia. Qed.

Lemma pool_of_region_inv r :
  WFregion r -> RS r < RE1 r -> nfr r + 64 <= two32 ->
  InvPool (fun _ => false) (pool_of_region r) /\
  p_start (pool_of_region r) = RS r /\ p_end (pool_of_region r) = RE1 r - 1 /\
  p_free (pool_of_region r) = nfr r /\
  bitmap_bytes r = (nfr r + 63) / 64 * 8.
Proof.
  intros Hwf Hlt Hsmall. destruct (region_frames_facts r Hwf) as (Hs & Hp & Hf).
  destruct (Hf Hlt) as (He & Hn). unfold nfr, two32 in *.
  assert (Hbb: bitmap_bytes r = (RE1 r - RS r + 63) / 64 * 8).
  { unfold bitmap_bytes. rewrite Hn. rewrite w64_small by (unfold two64; lia).
    change 63 with (2 ^ 6 - 1) at 2. rewrite andnot_pow2, N.shiftr_div_pow2. change (2 ^ 6) with 64. change (2 ^ 3) with 8. lia. }
  unfold pool_of_region. rewrite Hbb, Hs, He, Hn. cbn [p_start p_end p_free].
  rewrite w32_small by (unfold two32; lia).
  split; [|repeat split; reflexivity].
  unfold InvPool, pool_n; cbn [p_start p_end p_free p_bitmap].
  assert (Hbig: RE1 r - 1 < big).
  { unfold WFregion, two64 in Hwf. unfold RE1, big. lia. }
  rewrite repeat_length, N.shiftr_div_pow2. change (2 ^ 3) with 8.
  repeat split; try lia.
  - unfold two32. lia.
  - intros i Hi. apply bitf_zeros.
  - rewrite (cnt_ext _ (fun _ => false)) by (intros; apply bitf_zeros). rewrite cnt_const_false. lia.
Qed.

Definition region_range (r : region) : N * N := (RS r, RE1 r - 1).

Lemma pass2_facts : forall m,
  Forall WFregion m -> ordered m -> total_frames m + 64 <= two32 ->
  Forall (InvPool (fun _ => false)) (pass2 m) /\
  ranges (pass2 m) = map region_range (filter pool_region m) /\
  ranges_sorted (ranges (pass2 m)) /\
  sum_n (ranges (pass2 m)) = total_frames m /\
  sum_free (pass2 m) = total_frames m /\
  fold_left (fun acc r => acc + bitmap_bytes r) (filter pool_region m) 0 = bitmap_total m.
Proof.
  intros m Hwf Hord Hsmall.
  assert (Hgen: forall acc, fold_left (fun acc r => acc + bitmap_bytes r) (filter pool_region m) acc = acc + bitmap_total m /\
     Forall (InvPool (fun _ => false)) (pass2 m) /\
     ranges (pass2 m) = map region_range (filter pool_region m) /\
     ranges_sorted (ranges (pass2 m)) /\
     sum_n (ranges (pass2 m)) = total_frames m /\
     sum_free (pass2 m) = total_frames m).
  2:{ destruct (Hgen 0) as (H1 & H2 & H3 & H4 & H5 & H6). repeat split; assumption. }
  induction m as [|r rest IH]; intros acc.
  - cbn. repeat split; try constructor; lia.
  - inversion Hwf as [|? ? Hr Hrest]; subst. destruct Hord as [Ho1 Ho2].
    cbn [total_frames] in Hsmall.
    assert (Hsmall': total_frames rest + 64 <= two32) by (destruct (pool_region r); lia).
    specialize (IH Hrest Ho2 Hsmall').
    unfold pass2 in *. cbn [filter total_frames bitmap_total].
    destruct (region_frames_facts r Hr) as (Hs & Hp & Hf).
    destruct (pool_region r) eqn:Epr.
    + assert (Hlt: RS r < RE1 r) by (rewrite Hp in Epr; destruct (is_avail r); cbn in Epr; [lia|discriminate]).
      destruct (pool_of_region_inv r Hr Hlt ltac:(unfold nfr in *; lia)) as (Hinv & Hps & Hpe & Hpf & Hbb).
      cbn [fold_left map]. destruct (IH (acc + bitmap_bytes r)) as (I1 & I2 & I3 & I4 & I5 & I6).
      rewrite I1, Hbb. cbn [ranges map sum_n sum_free]. fold (ranges (map pool_of_region (filter pool_region rest))).
      rewrite Hps, Hpe, Hpf, I5, I6. unfold nfr in *.
      split; [lia|]. split; [constructor; assumption|]. split; [rewrite I3; reflexivity|]. split.
      { constructor; [assumption|]. rewrite I3.
        rewrite Forall_forall. intros q Hq. apply in_map_iff in Hq. destruct Hq as (r2 & <- & Hr2).
        apply filter_In in Hr2. destruct Hr2 as [Hr2 Hpr2]. cbn [fst snd region_range].
        rewrite Forall_forall in Ho1, Hrest. specialize (Ho1 r2 Hr2). specialize (Hrest r2 Hr2).
        unfold WFregion, two64, RE1, RS in *. lia. }
      split; lia.
    + destruct (IH acc) as (I1 & I2 & I3 & I4 & I5 & I6).
      repeat split; try assumption; try lia.
Qed.

(** ---- marking a frame of a known pool ---- *)
Lemma mark_reserved_at R a i p f :
  Inv R a -> nth_error (a_pools a) i = Some p -> in_pool p f -> R f = false ->
  exists a', mark_reserved a (Some i) f = Ok a' /\ Inv (upd R f true) a' /\
             ranges (a_pools a') = ranges (a_pools a) /\ a_total a' = a_total a /\
             a_reserved a' = a_reserved a + 1.
Proof.
  intros Hinv Hnth Hin HR. unfold mark_reserved. rewrite Hnth.
  assert (Hpin: In p (a_pools a)) by (eapply nth_error_In; eassumption).
  assert (Hp: InvPool R p) by (destruct Hinv as (Hall & _); rewrite Forall_forall in Hall; apply Hall; assumption).
  assert (Hend: (p_end p <? f) = false) by (unfold in_pool in Hin; lia). rewrite Hend.
  destruct (pool_word R p f Hp Hin) as (Hrel & Hlt & w & Hw & Hnthw & Hsh & Hlen & Hmask & Hbit).
  rewrite Hw.
  destruct (pool_set_bit R p f w Hp Hin HR Hnthw) as (Hp' & Hdec).
  assert (Hinc: inc32 (a_reserved a) = a_reserved a + 1).
  { destruct Hinv as (Hall & Hsorted & Htot & Hlt32 & Hres).
    assert (1 <= sum_free (a_pools a)).
    { destruct (update_pool_split (a_pools a) i p p Hnth) as (l1 & l2 & E1 & _).
      rewrite E1, sum_free_app. cbn [sum_free]. lia. }
    unfold inc32. apply w32_small. unfold two32 in *. lia. }
  destruct (Inv_update R a i p _ f true (a_total a) (inc32 (a_reserved a)) Hinv Hnth Hin Hp' eq_refl eq_refl eq_refl) as [HI Hr].
  { cbn [p_free]. lia. }
  eexists. split; [reflexivity|]. split; [exact HI|]. split; [exact Hr|]. split; [reflexivity|exact Hinc].
Qed.

Lemma ranges_nth ps ps' i p :
  ranges ps' = ranges ps -> nth_error ps i = Some p ->
  exists p', nth_error ps' i = Some p' /\ p_start p' = p_start p /\ p_end p' = p_end p.
Proof.
  intros Hr Hn. pose proof (map_nth_error (fun p => (p_start p, p_end p)) i ps Hn) as E.
  fold (ranges ps) in E. rewrite <- Hr in E. unfold ranges in E. rewrite nth_error_map in E.
  destruct (nth_error ps' i) as [p'|]; cbn in E; [|discriminate]. inversion E. exists p'. repeat split; assumption.
Qed.

Lemma ranges_unique rs : ranges_sorted rs ->
  forall s e s' e' x, In (s, e) rs -> In (s', e') rs -> s <= x <= e -> s' <= x <= e' -> (s, e) = (s', e').
Proof.
  induction rs as [|[s0 e0] rs IH]; intros Hs s e s' e' x H1 H2 Hx Hx'; [destruct H1|].
  inversion Hs as [|? ? Hs' Hall]; subst. rewrite Forall_forall in Hall.
  destruct H1 as [E1|H1], H2 as [E2|H2].
  - congruence.
  - inversion E1; subst. specialize (Hall _ H2). cbn in Hall. lia.
  - inversion E2; subst. specialize (Hall _ H1). cbn in Hall. lia.
  - eapply IH; eassumption.
Qed.

(** a run of consecutive frames of one pool, all unreserved so far *)
Lemma mark_loop i s e : forall cnt f0 a R,
  Inv R a -> (exists p, nth_error (a_pools a) i = Some p /\ p_start p = s /\ p_end p = e) ->
  (forall j, j < cnt -> s <= f0 + j <= e /\ R (f0 + j) = false) ->
  exists a',
    N.iter cnt (fun st : N * outcome balloc =>
                  let '(f, o) := st in (f + 1, obind o (fun a' => mark_reserved a' (Some i) f))) (f0, Ok a)
    = (f0 + cnt, Ok a') /\
    Inv (fun g => R g || ((f0 <=? g) && (g <? f0 + cnt))) a' /\
    ranges (a_pools a') = ranges (a_pools a) /\ a_total a' = a_total a /\
    a_reserved a' = a_reserved a + cnt.
Proof.
  induction cnt as [|cnt IH] using N.peano_ind; intros f0 a R Hinv (p & Hnth & Hs & He) Hfr.
  - exists a. cbn [N.iter]. rewrite !N.add_0_r. split; [reflexivity|]. split; [|repeat split; reflexivity].
    apply (Inv_ext R); [|assumption]. intros g. destruct (R g); [reflexivity|]. cbn. lia.
  - rewrite N.iter_succ_r. cbn [obind].
    destruct (Hfr 0 ltac:(lia)) as [Hin0 HR0]. rewrite N.add_0_r in Hin0, HR0.
    assert (Hinp: in_pool p f0) by (unfold in_pool; lia).
    destruct (mark_reserved_at R a i p f0 Hinv Hnth Hinp HR0) as (a1 & E1 & Hinv1 & Hr1 & Ht1 & Hres1).
    rewrite E1.
    destruct (ranges_nth (a_pools a) (a_pools a1) i p Hr1 Hnth) as (p1 & Hnth1 & Hs1 & He1).
    destruct (IH (f0 + 1) a1 (upd R f0 true) Hinv1) as (a' & E' & Hinv' & Hr' & Ht' & Hres').
    { exists p1. repeat split; congruence. }
    { intros j Hj. destruct (Hfr (j + 1) ltac:(lia)) as [Hin HR]. replace (f0 + 1 + j) with (f0 + (j + 1)) by lia.
      split; [lia|]. rewrite upd_other by lia. assumption. }
    exists a'. replace (f0 + N.succ cnt) with (f0 + 1 + cnt) by lia. split; [exact E'|].
    split; [|split; [congruence|split; [congruence|lia]]].
    apply (Inv_ext (fun g => upd R f0 true g || ((f0 + 1 <=? g) && (g <? f0 + 1 + cnt)))); [|assumption].
    intros g. unfold upd. destruct (N.eqb_spec g f0) as [->|Hne].
    + cbn [orb]. destruct (R f0); cbn [orb]; [reflexivity|]. lia.
    + destruct (R g); cbn [orb]; [reflexivity|]. lia.
Qed.

Definition call_frames (cs : list mapcall) : list N := map (fun c => snd (fst c)) cs.

Section Init.
  Variable m : memmap.
  Variables kstart kend : N.
  Hypothesis Hm : WFmap m.
  Hypothesis Hkern : WFkernel m kstart kend.
  Hypothesis Hsmall : small_map m.

  Let ks := kernel_start_frame kstart.
  Let ke := kernel_end_frame kend.
  Let rs := map region_range (filter pool_region m).

  (** pool ranges = whole frames of available regions *)
  Lemma in_ranges_avail f : in_ranges rs f <-> frame_avail m f.
  Proof.
    destruct Hm as [Hwf _]. rewrite Forall_forall in Hwf. unfold in_ranges, frame_avail, rs. split.
    - intros (s & e & Hin & Hf). apply in_map_iff in Hin. destruct Hin as (r & E & Hr).
      apply filter_In in Hr. destruct Hr as [Hr Hp]. inversion E; subst.
      specialize (Hwf r Hr). destruct (region_frames_facts r Hwf) as (_ & Hpe & _). rewrite Hpe in Hp.
      exists r. unfold WFregion, two64, RS, RE1 in *.
      destruct (is_avail r); cbn [andb] in Hp; [|discriminate]. repeat split; try assumption; lia.
    - intros (r & Hr & Ha & Hlo & Hhi). exists (RS r), (RE1 r - 1). specialize (Hwf r Hr).
      destruct (region_frames_facts r Hwf) as (_ & Hpe & _). unfold WFregion, two64, RS, RE1 in *. split.
      + apply in_map_iff. exists r. split; [reflexivity|]. apply filter_In. split; [assumption|].
        rewrite Hpe, Ha. unfold RS, RE1. cbn [andb]. lia.
      + lia.
  Qed.

  Definition kernelb (g : N) : bool := (ks <=? g) && (g <=? ke).

  Lemma kernelb_spec g : kernelb g = true <-> in_kernel kstart kend g.
  Proof.
    destruct (kernel_facts m kstart kend Hm Hkern) as (Hal & Hlt & Hk & _).
    rewrite (in_kernel_frames kstart kend Hal Hlt Hk g). fold ks ke. unfold kernelb. lia.
  Qed.

  (** the kernel frames that are managed at all lie in the pool range that holds [ks] *)
  Lemma kernel_one_range g :
    in_ranges rs g -> kernelb g = true ->
    exists s e, In (s, e) rs /\ s <= ks <= e /\ s <= g <= e.
  Proof.
    intros (s & e & Hin & Hf) Hkb. exists s, e. split; [assumption|]. split; [|assumption].
    destruct (kernel_facts m kstart kend Hm Hkern) as (Hal & Hlt & Hk & Hkr).
    pose proof (ks_eq kstart) as Hks. destruct (ke_eq kstart kend Hal Hlt Hk) as [Hke Hke1]. fold ks in Hks. fold ke in Hke.
    unfold rs in Hin. apply in_map_iff in Hin. destruct Hin as (r & E & Hr). apply filter_In in Hr. destruct Hr as [Hr Hp].
    inversion E; subst. destruct Hm as [Hwf _]. rewrite Forall_forall in Hwf, Hkr.
    specialize (Hwf r Hr). specialize (Hkr r Hr). unfold KR in Hkr.
    unfold kernelb in Hkb. unfold WFregion, two64, RS, RE1 in *. lia.
  Qed.

  (** ---- the page-mapping loop = the first [pages] early allocations ---- *)
  Lemma map_pages_spec pages mapfail :
    match map_pages m ks ke pages mapfail with
    | MGo b calls =>
        boot_run m ks ke (N.to_nat pages) boot_reset = (b, map Some (call_frames calls)) /\
        N.of_nat (length calls) = pages
    | _ => True
    end.
  Proof.
    unfold map_pages.
    match goal with |- context[N.iter pages ?F ?X] => set (step := F); set (x0 := X) end.
    assert (P: fst (N.iter pages step x0) = pages /\
               match snd (N.iter pages step x0) with
               | MGo b calls =>
                   boot_run m ks ke (N.to_nat pages) boot_reset = (b, map Some (call_frames calls)) /\
                   N.of_nat (length calls) = pages
               | _ => True
               end).
    { apply (N.iter_ind _ step x0 (fun n st => fst st = n /\
               match snd st with
               | MGo b calls =>
                   boot_run m ks ke (N.to_nat n) boot_reset = (b, map Some (call_frames calls)) /\
                   N.of_nat (length calls) = n
               | _ => True
               end)).
      - cbn. split; [reflexivity|]. split; reflexivity.
      - intros n [i ml] [Hi Hml]. cbn [fst snd] in *. subst i. unfold step. cbn [fst snd]. split; [lia|].
        destruct ml as [b calls| |]; try exact I. destruct Hml as [Hrun Hlen].
        destruct (boot_alloc m ks ke b) as [b' [f|]] eqn:Ea; [|exact I].
        destruct (mapfail =? n + 1); [exact I|].
        rewrite N2Nat.inj_succ, <- Nat.add_1_r. unfold ks, ke in *. rewrite run_app, Hrun. cbn [boot_run]. rewrite Ea.
        unfold call_frames. rewrite !map_app. cbn [map fst snd]. split; [reflexivity|].
        rewrite app_length. cbn [length]. lia. }
    exact (proj2 P).
  Qed.

  Lemma Inv_ext_managed R R' a :
    (forall g, managed (a_pools a) g -> R g = R' g) -> Inv R a -> Inv R' a.
  Proof.
    intros E (H1 & H2 & H3 & H4 & H5). repeat split; try assumption.
    apply (Forall_InvPool_ext R); assumption.
  Qed.

  Lemma ks_le_ke : ks <= ke /\ ke < big.
  Proof.
    destruct (kernel_facts m kstart kend Hm Hkern) as (Hal & Hlt & Hk & _).
    pose proof (ks_eq kstart) as Hks. destruct (ke_eq kstart kend Hal Hlt Hk) as [Hke Hke1].
    fold ks in Hks. fold ke in Hke. unfold two64, big in *. lia.
  Qed.

  (** ---- reserveKernelFrames ---- *)
  Lemma reserve_kernel_spec a :
    Inv (fun _ => false) a -> ranges (a_pools a) = rs ->
    exists a', reserve_kernel a ks ke = Ok a' /\ Inv kernelb a' /\ ranges (a_pools a') = rs /\
               a_total a' = a_total a.
  Proof.
    intros Hinv Hr. destruct ks_le_ke as [Hkk Hkb]. unfold reserve_kernel.
    assert (Hmax: (ke =? max64) = false) by (apply N.eqb_neq; unfold big, max64, two64 in *; lia). rewrite Hmax.
    assert (Hsorted: ranges_sorted rs) by (rewrite <- Hr; apply Hinv).
    unfold pool_for_frame. pose proof (pool_for_frame_from_spec ks (a_pools a) 0%nat) as P.
    destruct (pool_for_frame_from 0 (a_pools a) ks) as [i|].
    - destruct P as (_ & p & Hnth & Hin). rewrite Nat.sub_0_r in Hnth. rewrite Hnth.
      assert (Hpin: In p (a_pools a)) by (eapply nth_error_In; eassumption).
      assert (Hprange: In (p_start p, p_end p) rs).
      { rewrite <- Hr. unfold ranges. apply in_map_iff. exists p. split; [reflexivity|assumption]. }
      unfold in_pool in Hin.
      set (stop := N.min ke (p_end p)).
      assert (Hstop: ks <= stop) by (unfold stop; lia).
      assert (Hc: (ks <=? stop) = true) by lia. rewrite Hc.
      destruct (mark_loop i (p_start p) (p_end p) (stop + 1 - ks) ks a (fun _ => false) Hinv) as (a' & E & Hinv' & Hr' & Ht' & _).
      { exists p. repeat split; assumption. }
      { intros j Hj. split; [unfold stop in *; lia|reflexivity]. }
      rewrite E. cbn [snd]. exists a'. split; [reflexivity|]. split; [|split; [congruence|assumption]].
      apply (Inv_ext_managed (fun g => false || ((ks <=? g) && (g <? ks + (stop + 1 - ks))))); [|assumption].
      intros g Hg. cbn [orb]. apply managed_ranges in Hg. rewrite Hr', Hr in Hg.
      unfold kernelb. destruct ((ks <=? g) && (g <=? ke)) eqn:Ek.
      + destruct (kernel_one_range g Hg Ek) as (s & e & Hse & Hks & Hgs).
        pose proof (ranges_unique rs Hsorted _ _ _ _ ks Hse Hprange Hks ltac:(lia)) as Eq. inversion Eq; subst.
        unfold stop in *. lia.
      + unfold stop in *. lia.
    - exists a. split; [reflexivity|]. split; [|split; [assumption|reflexivity]].
      apply (Inv_ext_managed (fun _ => false)); [|assumption].
      intros g Hg. apply managed_ranges in Hg. rewrite Hr in Hg.
      destruct (kernelb g) eqn:Ek; [|reflexivity]. exfalso.
      destruct (kernel_one_range g Hg Ek) as (s & e & Hse & Hks & _).
      rewrite <- Hr in Hse. unfold ranges in Hse. apply in_map_iff in Hse. destruct Hse as (p & Ep & Hp).
      inversion Ep; subst. apply (P p Hp). unfold in_pool. assumption.
  Qed.

  (** ---- reserveEarlyAllocatorFrames ---- *)
  Lemma early_loop : forall E b0 a R,
    snd (boot_run m ks ke (length E) b0) = map Some E ->
    Inv R a -> ranges (a_pools a) = rs ->
    (forall f, In f E -> in_ranges rs f /\ R f = false) -> NoDup E ->
    exists b' a',
      N.iter (N.of_nat (length E)) (fun st : bstate * outcome balloc =>
         let '(b, o) := st in
         let '(b', r) := boot_alloc m ks ke b in
         let f := match r with Some f => f | None => mm_InvalidFrame end in
         (b', obind o (fun a' => mark_reserved a' (pool_for_frame a' f) f))) (b0, Ok a) = (b', Ok a') /\
      Inv (fun g => R g || memb g E) a' /\ ranges (a_pools a') = rs /\ a_total a' = a_total a /\
      a_reserved a' = a_reserved a + N.of_nat (length E).
  Proof.
    induction E as [|f E IH]; intros b0 a R Hrun Hinv Hr Hfr Hnd.
    - exists b0, a. cbn. split; [reflexivity|]. split; [|repeat split; try assumption; lia].
      apply (Inv_ext R); [|assumption]. intros g. rewrite orb_false_r. reflexivity.
    - cbn [length]. rewrite Nat2N.inj_succ, N.iter_succ_r.
      cbn [length boot_run] in Hrun.
      destruct (boot_alloc m ks ke b0) as [b1 r] eqn:Ea.
      destruct (boot_run m ks ke (length E) b1) as [b2 rs2] eqn:Er. cbn [snd map] in Hrun.
      inversion Hrun as [[Hr0 Hrs2]]. subst r.
      destruct (Hfr f (or_introl eq_refl)) as [Hfm HfR].
      assert (Hman: managed (a_pools a) f) by (apply managed_ranges; rewrite Hr; assumption).
      destruct (mark_reserved_spec R a f Hinv Hman HfR) as (a1 & E1 & Hinv1 & Hr1 & Ht1 & Hres1).
      cbn [obind]. rewrite E1.
      inversion Hnd as [|? ? Hnotin Hnd']; subst.
      destruct (IH b1 a1 (upd R f true)) as (b' & a' & E' & Hinv' & Hr' & Ht' & Hres').
      { rewrite Er. reflexivity. }
      { assumption. }
      { congruence. }
      { intros g Hg. destruct (Hfr g (or_intror Hg)) as [Hgm HgR]. split; [assumption|].
        rewrite upd_other; [assumption|]. intros ->. contradiction. }
      { assumption. }
      exists b', a'. split; [exact E'|]. split; [|split; [assumption|split; [congruence|lia]]].
      apply (Inv_ext (fun g => upd R f true g || memb g E)); [|assumption].
      intros g. unfold upd, memb. cbn [existsb]. destruct (N.eqb_spec g f); [rewrite orb_true_r; reflexivity|reflexivity].
  Qed.

  Lemma sorted_nodup (l : list N) : StronglySorted N.lt l -> NoDup l.
  Proof.
    induction l as [|x l IH]; intros H; [constructor|]. inversion H as [|? ? Hs Hall]; subst.
    constructor; [|apply IH; assumption]. intros Hin. rewrite Forall_forall in Hall. specialize (Hall x Hin). lia.
  Qed.

  Lemma pools_le_frames : forall m', Forall WFregion m' -> N.of_nat (length (filter pool_region m')) <= total_frames m'.
  Proof.
    induction m' as [|r rest IH]; intros Hwf; cbn [filter total_frames length]; [lia|].
    inversion Hwf as [|? ? Hr Hrest]; subst. specialize (IH Hrest).
    destruct (region_frames_facts r Hr) as (_ & Hp & _).
    destruct (pool_region r) eqn:E; [|lia]. cbn [length].
    assert (RS r < RE1 r) by (rewrite Hp in E; destruct (is_avail r); cbn in E; [lia|discriminate]).
    unfold nfr. lia.
  Qed.

  (** ---- pmm.Init ---- *)
  Theorem pmm_init_spec limit mapfail :
    match pmm_init m kstart kend limit mapfail with
    | (InitOk a b, obs) =>
        let E := call_frames (o_calls obs) in
        Inv (fun g => kernelb g || memb g E) a /\ ranges (a_pools a) = rs /\
        a_total a = total_frames m /\
        Forall (good_frame m kstart kend) E /\ StronglySorted N.lt E
    | (InitErrReserve, _) | (InitErrMap, _) | (InitErrOOM, _) => True
    | _ => False
    end.
  Proof.
    destruct Hm as [Hwf Hord]. unfold small_map in Hsmall.
    pose proof (bitmap_total_le m Hwf) as Hbt. pose proof (pools_le_frames m Hwf) as Hpl.
    unfold pmm_init. fold ks ke. unfold pass1.
    rewrite (pass1_gen m 0 0 0 Hwf) by (unfold two32 in *; lia). rewrite !N.add_0_l.
    set (npools := N.of_nat (length (filter pool_region m))) in *.
    set (bytes := required_bytes npools (bitmap_total m)).
    destruct (limit <? bytes); [exact I|].
    pose proof (map_pages_spec (N.shiftr bytes PageShift) mapfail) as MP.
    destruct (map_pages m ks ke (N.shiftr bytes PageShift) mapfail) as [b calls| |]; try exact I.
    destruct MP as [Hrun Hlen].
    destruct (pass2_facts m Hwf Hord Hsmall) as (P1 & P2 & P3 & P4 & P5 & P6).
    assert (Hl: (N.of_nat (length (pass2 m)) =? npools) = true).
    { apply N.eqb_eq. unfold pass2, npools. rewrite map_length. reflexivity. }
    rewrite Hl. cbn [negb].
    assert (Hlay: (bytes <? layout_bytes m npools) = false).
    { unfold layout_bytes. rewrite P6. unfold bytes, required_bytes. rewrite sizeofFramePool_val.
      unfold two32 in *. change pmask with (2 ^ 12 - 1). rewrite andnot_pow2. change (2 ^ 12) with 4096.
      rewrite (w64_small (npools * 72)) by (unfold two64; lia). change (4096 - 1) with 4095.
      rewrite w64_small by (unfold two64; lia). lia. }
    rewrite Hlay.
    set (a0 := mkBA (total_frames m) 0 (pass2 m)).
    assert (Hinv0: Inv (fun _ => false) a0).
    { unfold Inv, a0; cbn [a_pools a_total a_reserved]. repeat split; try assumption; try (unfold two32 in *; lia). }
    destruct (reserve_kernel_spec a0 Hinv0 P2) as (a1 & E1 & Hinv1 & Hr1 & Ht1).
    rewrite E1.
    (* the early frames *)
    set (E := call_frames calls) in *.
    pose proof (boot_alloc_sound m kstart kend (conj Hwf Hord) Hkern (N.to_nat (N.shiftr bytes PageShift))) as Hsound.
    cbn zeta in Hsound. fold ks ke in Hsound. rewrite Hrun in Hsound. cbn [snd] in Hsound. rewrite successes_some in Hsound.
    destruct Hsound as [Hgood Hsorted].
    pose proof (run_shape m kstart kend (conj Hwf Hord) Hkern (N.to_nat (N.shiftr bytes PageShift)) boot_reset (reset_inv m kstart kend)) as Hshape.
    fold ks ke in Hshape. rewrite Hrun in Hshape. destruct Hshape as (_ & _ & Hcount).
    rewrite successes_some in Hcount. cbn [boot_reset b_count] in Hcount. rewrite N.add_0_l in Hcount.
    assert (HlenE: length E = N.to_nat (N.shiftr bytes PageShift)).
    { unfold E, call_frames. rewrite map_length, <- Hlen, Nat2N.id. reflexivity. }
    unfold reserve_early. rewrite Hcount.
    destruct (early_loop E boot_reset a1 kernelb) as (b' & a2 & E2 & Hinv2 & Hr2 & Ht2 & _).
    { rewrite HlenE, Hrun. reflexivity. }
    { assumption. }
    { assumption. }
    { intros f Hf. rewrite Forall_forall in Hgood. destruct (Hgood f Hf) as [Hav Hnk]. split.
      - apply in_ranges_avail. assumption.
      - destruct (kernelb f) eqn:Ek; [|reflexivity]. exfalso. apply Hnk. apply kernelb_spec. assumption. }
    { apply sorted_nodup. assumption. }
    cbv zeta in E2. cbv zeta. rewrite E2. cbn [o_calls]. fold E.
    split; [assumption|]. split; [assumption|]. split; [rewrite Ht2, Ht1; reflexivity|]. split; assumption.
  Qed.
End Init.
