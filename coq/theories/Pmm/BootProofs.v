(** Proofs about Pmm/Boot.v (C02). *)
From Coq Require Import NArith ZArith Lia List Bool Sorted.
From Coq Require Import ZifyBool ZifyN ZifyNat.
From FF Require Import Lib.Word Gen.Consts_mm_pmm Pmm.Boot.
Import ListNotations.
Local Open Scope N_scope.
Ltac Zify.zify_post_hook ::= Z.div_mod_to_equations.

(** Obligations on the regenerated constants. *)
Lemma PageSize_val : PageSize = 4096. Proof. reflexivity. Qed.
Lemma PageShift_val : PageShift = 12. Proof. reflexivity. Qed.
Lemma pmask_val : pmask = 2 ^ 12 - 1. Proof. reflexivity. Qed.
Lemma MemAvailable_nonzero : multiboot_MemAvailable <> 0. Proof. discriminate. Qed.
Lemma MemReserved_not_available : multiboot_MemReserved <> multiboot_MemAvailable. Proof. discriminate. Qed.

(** The type rewriting done by VisitMemRegions never changes availability (whatever the
    threshold above which types count as unknown, as long as MemAvailable is not above it). *)
Lemma norm_type_avail unknown t :
  multiboot_MemAvailable <= unknown ->
  (norm_type unknown t =? multiboot_MemAvailable) = (t =? multiboot_MemAvailable).
Proof.
  intros H. unfold norm_type.
  destruct ((t =? 0) || (unknown <? t)) eqn:E; [|reflexivity].
  pose proof MemAvailable_nonzero. pose proof MemReserved_not_available. lia.
Qed.

(** ---- frame arithmetic without wrap-around ---- *)
Lemma frame_down_eq a : frame_down a = a / 4096.
Proof.
  unfold frame_down. rewrite pmask_val, andnot_pow2, PageShift_val, N.shiftr_div_pow2.
  change (2 ^ 12) with 4096. lia.
Qed.

Lemma frame_up_eq a : a + 4095 < two64 -> frame_up a = (a + 4095) / 4096.
Proof.
  intros H. unfold frame_up. rewrite frame_down_eq. change pmask with 4095.
  rewrite w64_small by exact H. reflexivity.
Qed.

Lemma sub64_1 a : 1 <= a -> a < two64 -> sub64 a 1 = a - 1.
Proof. intros H1 H2. unfold sub64, w64, two64 in *. lia. Qed.

(** ---- well-formed inputs (the quantifier of C01/C02/C03) ---- *)

(** no address wrap-around, with a page of head-room for the round-up *)
Definition WFregion (r : region) : Prop := r_addr r + r_len r + 4096 <= two64.

(** sorted by address and pairwise non-overlapping, as the bootloader delivers them *)
Fixpoint ordered (m : memmap) : Prop :=
  match m with
  | [] => True
  | r :: rest => Forall (fun r' => r_addr r + r_len r <= r_addr r') rest /\ ordered rest
  end.

Definition WFmap (m : memmap) : Prop := Forall WFregion m /\ ordered m.

(** kernel image [kstart,kend): page-aligned start, non-empty, inside one available region *)
Definition WFkernel (m : memmap) (kstart kend : N) : Prop :=
  kstart mod 4096 = 0 /\ kstart < kend /\
  exists r, In r m /\ is_avail r = true /\ r_addr r <= kstart /\ kend <= r_addr r + r_len r.

(** ---- what the property talks about ---- *)

(** frame [f] lies wholly inside a region reported as available *)
Definition frame_avail (m : memmap) (f : N) : Prop :=
  exists r, In r m /\ is_avail r = true /\ r_addr r <= f * 4096 /\ (f + 1) * 4096 <= r_addr r + r_len r.

(** frame [f] holds at least one byte of the kernel image *)
Definition in_kernel (kstart kend f : N) : Prop := f * 4096 < kend /\ kstart < (f + 1) * 4096.

Definition good_frame (m : memmap) (kstart kend f : N) : Prop :=
  frame_avail m f /\ ~ in_kernel kstart kend f.

Fixpoint successes (l : list (option N)) : list N :=
  match l with
  | [] => []
  | Some f :: rest => f :: successes rest
  | None :: rest => successes rest
  end.

(** ---- one region ---- *)
Definition eligible (r : region) : Prop := is_avail r = true /\ 4096 <= r_len r.
Definition RS (r : region) : N := (r_addr r + 4095) / 4096.
Definition RE1 (r : region) : N := (r_addr r + r_len r) / 4096.   (* exclusive *)

(** relation of a region to the kernel image: before it, after it, or holding it *)
Definition KR (kstart kend : N) (r : region) : Prop :=
  r_addr r + r_len r <= kstart \/ kend <= r_addr r \/ (r_addr r <= kstart /\ kend <= r_addr r + r_len r).

Definition big : N := 4503599627370496. (* 2^52 *)

Section Kernel.
  Variables kstart kend : N.
  Hypothesis Hal : kstart mod 4096 = 0.
  Hypothesis Hlt : kstart < kend.
  Hypothesis Hk : kend + 4096 <= two64.

  Let ks := kernel_start_frame kstart.
  Let ke := kernel_end_frame kend.

  Lemma ks_eq : ks = kstart / 4096.
  Proof. unfold ks, kernel_start_frame. apply frame_down_eq. Qed.

  Lemma ke_eq : ke = (kend + 4095) / 4096 - 1 /\ 1 <= (kend + 4095) / 4096.
  Proof.
    unfold ke, kernel_end_frame. unfold two64 in *.
    rewrite frame_up_eq by (unfold two64; lia).
    rewrite sub64_1; unfold two64; lia.
  Qed.

  Lemma in_kernel_frames f : in_kernel kstart kend f <-> ks <= f <= ke.
  Proof. unfold in_kernel. rewrite ks_eq. destruct ke_eq as [-> ?]. lia. Qed.

  (** scan-state invariant: [c <> 0 -> l] is not a kernel frame other than the last one *)
  Definition cur_ok (c l : N) : Prop := l <= big /\ (c <> 0 -> ~ (ks <= l < ke)).

  Lemma visit_ok c l r :
    WFregion r -> KR kstart kend r -> cur_ok c l ->
    (c = 0 -> eligible r -> l <= RS r) ->
    let '(l', stop) := boot_visit ks ke c l r in
    l <= l' /\ cur_ok c l' /\
    (if stop
     then is_avail r = true /\ r_addr r <= l' * 4096 /\ (l' + 1) * 4096 <= r_addr r + r_len r /\
          ~ in_kernel kstart kend l' /\ (c <> 0 -> l < l')
     else (eligible r -> RE1 r <= l' + 1) /\
          (c = 0 -> l' = l \/ forall r2, r_addr r + r_len r <= r_addr r2 -> l' <= RS r2)).
  Proof.
    intros Hwf Hkr [Hbig Hcur] Hs3.
    unfold boot_visit.
    destruct (negb (is_avail r) || (r_len r <? PageSize)) eqn:Eel.
    { split; [lia|]. split; [split; assumption|]. split.
      - intros [Ha Hl]. rewrite PageSize_val in Eel. rewrite Ha in Eel. cbn in Eel. lia.
      - intros _. left. reflexivity. }
    assert (Hel: eligible r).
    { rewrite PageSize_val in Eel. unfold eligible. destruct (is_avail r); cbn in Eel; [split; [reflexivity|lia]|discriminate]. }
    destruct Hel as [Hav Hlen]. specialize (fun H => Hs3 H (conj Hav Hlen)).
    unfold WFregion, two64 in Hwf.
    unfold region_start_frame, region_end_frame.
    rewrite frame_up_eq by (unfold two64; lia).
    rewrite w64_small by (unfold two64; lia).
    rewrite frame_down_eq.
    rewrite sub64_1 by (unfold two64; lia).
    fold (RS r) (RE1 r).
    assert (Hrs: RS r = (r_addr r + 4095) / 4096) by reflexivity.
    assert (Hre: RE1 r = (r_addr r + r_len r) / 4096) by reflexivity.
    generalize dependent (RS r). generalize dependent (RE1 r). intros re1 Hre rs Hs3 Hrs.
    pose proof ks_eq as Hks. destruct ke_eq as [Hke Hke1].
    pose proof in_kernel_frames as Hin.
    unfold cur_ok. unfold big in *. unfold KR in Hkr. unfold two64 in Hk.
    rewrite !w64_small by (unfold two64; lia).
    destruct (re1 - 1 <=? l) eqn:Eskip.
    { repeat split; try lia; try assumption. }
    destruct ((l <=? rs) && (ks =? rs) || (rs <=? l) && (l <=? re1 - 1) && (l + 1 =? ks)) eqn:E1.
    { (* jump over the kernel image *)
      assert (Hr: r_addr r <= kstart /\ kend <= r_addr r + r_len r) by lia.
      destruct (re1 - 1 <? ke + 1) eqn:Eover.
      - repeat split; try lia. intros _. right. intros r2 H2. unfold RS. lia.
      - repeat split; try lia; try assumption.
        rewrite Hin. lia. }
    destruct ((l <? rs) || (c =? 0)) eqn:E2.
    { (* first frame of this region *)
      assert (Hle: l <= rs) by lia.
      destruct (re1 - 1 <? rs) eqn:Eover.
      - repeat split; try lia. intros _. right. intros r2 H2. unfold RS. lia.
      - repeat split; try lia; try assumption.
        rewrite Hin. lia. }
    (* next frame of this region *)
    assert (Hc: c <> 0) by lia. specialize (Hcur Hc).
    destruct (re1 - 1 <? l + 1) eqn:Eover.
    - lia.
    - repeat split; try lia; try assumption.
      rewrite Hin. lia.
  Qed.

  (** ---- one scan ---- *)
  Lemma scan_ok c : forall rest l,
    Forall WFregion rest -> ordered rest -> Forall (KR kstart kend) rest -> cur_ok c l ->
    (c = 0 -> Forall (fun r => eligible r -> l <= RS r) rest) ->
    let '(l', found) := boot_scan ks ke c l rest in
    l <= l' /\ cur_ok c l' /\
    (if found
     then (exists r, In r rest /\ is_avail r = true /\ r_addr r <= l' * 4096 /\ (l' + 1) * 4096 <= r_addr r + r_len r) /\
          ~ in_kernel kstart kend l' /\ (c <> 0 -> l < l')
     else Forall (fun r => eligible r -> RE1 r <= l' + 1) rest).
  Proof.
    induction rest as [|r rest IH]; intros l Hwf Hord Hkr Hcur Hs3; cbn [boot_scan].
    - split; [lia|split; [assumption|constructor]].
    - inversion Hwf as [|? ? Hwr Hwrest]; subst.
      inversion Hkr as [|? ? Hkr1 Hkrest]; subst.
      destruct Hord as [Hord1 Hord2].
      assert (Hs3r: c = 0 -> eligible r -> l <= RS r).
      { intros Hc. exact (Forall_inv (Hs3 Hc)). }
      pose proof (visit_ok c l r Hwr Hkr1 Hcur Hs3r) as V.
      destruct (boot_visit ks ke c l r) as [l1 stop].
      destruct V as (Hmono & Hcur1 & V).
      destruct stop.
      + destruct V as (Ha & Hlo & Hhi & Hnk & Hasc).
        split; [assumption|]. split; [assumption|]. split; [|split; assumption].
        exists r. split; [left; reflexivity|]. repeat split; assumption.
      + destruct V as (Hdead & Hnext).
        assert (Hs3': c = 0 -> Forall (fun r => eligible r -> l1 <= RS r) rest).
        { intros Hc. pose proof (Forall_inv_tail (Hs3 Hc)) as Hs3rest.
          destruct (Hnext Hc) as [->|Hn]; [assumption|].
          rewrite Forall_forall in *. intros r2 Hin2 _. apply Hn. apply Hord1. exact Hin2. }
        pose proof (IH l1 Hwrest Hord2 Hkrest Hcur1 Hs3') as R.
        destruct (boot_scan ks ke c l1 rest) as [l2 found].
        destruct R as (Hmono2 & Hcur2 & R).
        split; [lia|]. split; [assumption|].
        destruct found.
        * destruct R as ((r2 & Hin2 & R2) & Hnk & Hasc).
          split; [|split; [assumption|]].
          -- exists r2. split; [right; exact Hin2|exact R2].
          -- intros Hc. specialize (Hasc Hc). lia.
        * constructor.
          -- intros He. specialize (Hdead He). lia.
          -- exact R.
  Qed.

  (** A cursor at or past the last whole frame of every usable region: nothing is found and
      nothing changes. *)
  Lemma scan_dead c : forall rest l,
    Forall WFregion rest -> l <= big ->
    Forall (fun r => eligible r -> RE1 r <= l + 1) rest ->
    boot_scan ks ke c l rest = (l, false).
  Proof.
    induction rest as [|r rest IH]; intros l Hwf Hbig Hd; cbn [boot_scan]; [reflexivity|].
    inversion Hwf as [|? ? Hwr Hwrest]; subst. inversion Hd as [|? ? Hd1 Hdrest]; subst.
    assert (V: boot_visit ks ke c l r = (l, false)).
    { unfold boot_visit.
      destruct (negb (is_avail r) || (r_len r <? PageSize)) eqn:Eel; [reflexivity|].
      assert (Hel: eligible r).
      { rewrite PageSize_val in Eel. unfold eligible. destruct (is_avail r); cbn in Eel; [split; [reflexivity|lia]|discriminate]. }
      specialize (Hd1 Hel). destruct Hel as [_ Hlen].
      unfold WFregion, two64 in Hwr. unfold region_end_frame.
      rewrite w64_small by (unfold two64; lia).
      rewrite frame_down_eq. unfold RE1 in Hd1.
      rewrite sub64_1 by (unfold two64; lia).
      destruct ((r_addr r + r_len r) / 4096 - 1 <=? l) eqn:E; [reflexivity|lia]. }
    rewrite V. apply IH; assumption.
  Qed.
End Kernel.

(** ---- states ---- *)
Section Runs.
  Variable m : memmap.
  Variables kstart kend : N.
  Hypothesis Hm : WFmap m.
  Hypothesis Hkern : WFkernel m kstart kend.

  Let ks := kernel_start_frame kstart.
  Let ke := kernel_end_frame kend.

  Lemma kernel_facts :
    kstart mod 4096 = 0 /\ kstart < kend /\ kend + 4096 <= two64 /\ Forall (KR kstart kend) m.
  Proof.
    destruct Hkern as (Hal & Hlt & rk & Hin & Hav & Hlo & Hhi). destruct Hm as [Hwf Hord].
    repeat split; try assumption.
    - rewrite Forall_forall in Hwf. specialize (Hwf rk Hin). unfold WFregion in Hwf. lia.
    - clear Hkern Hm Hwf. induction m as [|r rest IH]; [constructor|].
      destruct Hord as [Ho1 Ho2]. rewrite Forall_forall in Ho1.
      destruct Hin as [->|Hin].
      + constructor.
        * right. right. split; assumption.
        * rewrite Forall_forall. intros r2 H2. specialize (Ho1 r2 H2). unfold KR. lia.
      + constructor.
        * specialize (Ho1 rk Hin). unfold KR. lia.
        * apply IH; assumption.
  Qed.

  Definition dead (l : N) : Prop := l <= big /\ Forall (fun r => eligible r -> RE1 r <= l + 1) m.

  (** Invariant of the allocator state between calls: fresh, or the cursor is the frame handed
      out last, or the allocator is exhausted. *)
  Definition st_inv (st : bstate) : Prop :=
    (b_count st = 0 /\ b_last st = 0) \/
    (b_count st <> 0 /\ b_count st <= b_last st + 1 /\ cur_ok kstart kend (b_count st) (b_last st)) \/
    dead (b_last st).

  Lemma found_state c l :
    kstart mod 4096 = 0 -> kstart < kend -> kend + 4096 <= two64 ->
    c <= l -> l <= big -> ~ in_kernel kstart kend l ->
    mkB (w64 (c + 1)) l = mkB (c + 1) l /\ st_inv (mkB (w64 (c + 1)) l).
  Proof.
    intros Hal Hlt Hk Hcl Hbig Hnk. unfold big in Hbig.
    assert (Hw: w64 (c + 1) = c + 1) by (apply w64_small; unfold two64; lia).
    rewrite Hw. split; [reflexivity|].
    right. left. cbn [b_count b_last]. split; [lia|]. split; [lia|].
    split; [unfold big; lia|].
    intros _ H. apply Hnk. apply in_kernel_frames; try assumption. fold ks ke. lia.
  Qed.

  Lemma alloc_step st :
    st_inv st ->
    match boot_alloc m ks ke st with
    | (st', Some f) =>
        good_frame m kstart kend f /\ (b_count st <> 0 -> b_last st < f) /\
        st' = mkB (b_count st + 1) f /\ st_inv st'
    | (st', None) => dead (b_last st') /\ b_count st' = b_count st /\ st_inv st' /\ b_last st <= b_last st'
    end.
  Proof.
    intros Hinv. destruct kernel_facts as (Hal & Hlt & Hk & Hkr). destruct Hm as [Hwf Hord].
    unfold boot_alloc.
    assert (Hscan: cur_ok kstart kend (b_count st) (b_last st) ->
                   (b_count st = 0 -> b_last st = 0) -> b_count st <= b_last st + 1 ->
      match (let '(l, found) := boot_scan ks ke (b_count st) (b_last st) m in
             if found then (mkB (w64 (b_count st + 1)) l, Some l) else (mkB (b_count st) l, None)) with
      | (st', Some f) =>
          good_frame m kstart kend f /\ (b_count st <> 0 -> b_last st < f) /\
          st' = mkB (b_count st + 1) f /\ st_inv st'
      | (st', None) => dead (b_last st') /\ b_count st' = b_count st /\ st_inv st' /\ b_last st <= b_last st'
      end).
    { intros Hcur Hfresh Hcl.
      assert (Hs3: b_count st = 0 -> Forall (fun r => eligible r -> b_last st <= RS r) m).
      { intros Hc. rewrite (Hfresh Hc). rewrite Forall_forall. intros; lia. }
      pose proof (scan_ok kstart kend Hal Hlt Hk (b_count st) m (b_last st) Hwf Hord Hkr Hcur Hs3) as R.
      fold ks ke in R. destruct (boot_scan ks ke (b_count st) (b_last st) m) as [l found].
      destruct R as (Hmono & Hcur' & R). destruct found.
      - destruct R as (Hav & Hnk & Hasc).
        assert (Hcl': b_count st <= l).
        { destruct (N.eq_dec (b_count st) 0) as [E|E]; [lia|]. specialize (Hasc E). lia. }
        destruct (found_state (b_count st) l Hal Hlt Hk Hcl' (proj1 Hcur') Hnk) as [E1 E2].
        split; [split; assumption|]. split; [assumption|]. split; assumption.
      - cbn [b_count b_last]. split; [split; [apply Hcur'|assumption]|]. split; [reflexivity|].
        split; [|assumption]. right. right. split; [apply Hcur'|assumption]. }
    destruct Hinv as [[Hc Hl]|[(Hc & Hcl & Hcur)|Hd]].
    - apply Hscan.
      + rewrite Hc, Hl. split; [unfold big; lia|]. intros H; exfalso; apply H; reflexivity.
      + intros _; assumption.
      + lia.
    - apply Hscan; try assumption. intros; contradiction.
    - destruct Hd as [Hbig Hd].
      pose proof (scan_dead kstart kend Hal Hlt Hk (b_count st) m (b_last st) Hwf Hbig Hd) as Esd; fold ks ke in Esd; rewrite Esd.
      cbn [b_count b_last]. split; [split; assumption|]. split; [reflexivity|].
      split; [|lia]. right. right. split; assumption.
  Qed.

  Lemma alloc_dead st : dead (b_last st) -> boot_alloc m ks ke st = (st, None).
  Proof.
    intros [Hbig Hd]. destruct kernel_facts as (Hal & Hlt & Hk & Hkr). destruct Hm as [Hwf Hord].
    unfold boot_alloc. pose proof (scan_dead kstart kend Hal Hlt Hk (b_count st) m (b_last st) Hwf Hbig Hd) as Esd; fold ks ke in Esd; rewrite Esd.
    destruct st; reflexivity.
  Qed.

  (** ---- sequences of calls ---- *)
  Lemma run_sound : forall n st,
    st_inv st ->
    let fs := successes (snd (boot_run m ks ke n st)) in
    Forall (good_frame m kstart kend) fs /\
    StronglySorted N.lt fs /\
    (b_count st <> 0 -> Forall (fun f => b_last st < f) fs).
  Proof.
    induction n as [|n IH]; intros st Hinv; cbn [boot_run].
    - cbn. repeat split; constructor.
    - pose proof (alloc_step st Hinv) as A.
      destruct (boot_alloc m ks ke st) as [st1 r].
      destruct r as [f|].
      + destruct A as (Hgood & Hasc & Hst1 & Hinv1).
        specialize (IH st1 Hinv1).
        destruct (boot_run m ks ke n st1) as [st2 rs]. cbn [snd successes] in *.
        destruct IH as (IH1 & IH2 & IH3).
        assert (Hc1: b_count st1 <> 0) by (subst st1; cbn; lia).
        specialize (IH3 Hc1). subst st1. cbn [b_last] in IH3.
        repeat split.
        * constructor; assumption.
        * constructor; assumption.
        * intros Hc. specialize (Hasc Hc). constructor; [assumption|].
          eapply Forall_impl; [|exact IH3]. cbn. intros; lia.
      + destruct A as (Hdead & Hcnt & Hinv1 & Hmono).
        specialize (IH st1 Hinv1).
        destruct (boot_run m ks ke n st1) as [st2 rs]. cbn [snd successes] in *.
        destruct IH as (IH1 & IH2 & IH3).
        repeat split; try assumption.
        intros Hc. rewrite <- Hcnt in Hc. specialize (IH3 Hc).
        eapply Forall_impl; [|exact IH3]. cbn. intros; lia.
  Qed.

  Lemma run_dead : forall n st, dead (b_last st) -> boot_run m ks ke n st = (st, repeat None n).
  Proof.
    induction n as [|n IH]; intros st Hd; cbn [boot_run repeat]; [reflexivity|].
    rewrite (alloc_dead st Hd). rewrite (IH st Hd). reflexivity.
  Qed.

  Lemma successes_app l1 l2 : successes (l1 ++ l2) = successes l1 ++ successes l2.
  Proof. induction l1 as [|[f|] l1 IH]; cbn; [reflexivity|rewrite IH; reflexivity|exact IH]. Qed.

  Lemma successes_none n : successes (repeat None n) = [].
  Proof. induction n; cbn; auto. Qed.

  Lemma successes_some fs : successes (map Some fs) = fs.
  Proof. induction fs as [|f fs IH]; cbn; [reflexivity|rewrite IH; reflexivity]. Qed.

  (** Out-of-memory is final: the results of any run are frames followed only by failures, and
      the counter counts exactly the frames. *)
  Lemma run_shape : forall n st,
    st_inv st ->
    let '(st', rs) := boot_run m ks ke n st in
    st_inv st' /\
    (exists k, rs = map Some (successes rs) ++ repeat None k) /\
    b_count st' = b_count st + N.of_nat (length (successes rs)).
  Proof.
    induction n as [|n IH]; intros st Hinv; cbn [boot_run].
    - cbn. split; [assumption|]. split; [exists 0%nat; reflexivity|lia].
    - pose proof (alloc_step st Hinv) as A.
      destruct (boot_alloc m ks ke st) as [st1 r] eqn:E.
      destruct r as [f|].
      + destruct A as (_ & _ & Hst1 & Hinv1).
        specialize (IH st1 Hinv1). destruct (boot_run m ks ke n st1) as [st2 rs].
        destruct IH as (I1 & (k & I2) & I3).
        split; [assumption|]. cbn [successes map app length]. split.
        * exists k. cbn. rewrite <- I2. reflexivity.
        * rewrite I3. subst st1. cbn [b_count]. lia.
      + destruct A as (Hdead & Hcnt & Hinv1 & _).
        rewrite (run_dead n st1 Hdead). cbn [successes]. rewrite successes_none.
        split; [assumption|]. split; [exists (S n); reflexivity|]. cbn. lia.
  Qed.

  Lemma run_firstn : forall c n st, (c <= n)%nat ->
    snd (boot_run m ks ke c st) = firstn c (snd (boot_run m ks ke n st)).
  Proof.
    induction c as [|c IH]; intros n st Hle; [reflexivity|].
    destruct n as [|n]; [lia|]. cbn [boot_run].
    destruct (boot_alloc m ks ke st) as [st1 r].
    specialize (IH n st1 ltac:(lia)).
    destruct (boot_run m ks ke c st1) as [sa ra]. destruct (boot_run m ks ke n st1) as [sb rb].
    cbn [snd firstn] in *. rewrite IH. reflexivity.
  Qed.

  Lemma run_app : forall a b st,
    boot_run m ks ke (a + b) st =
    let '(st1, r1) := boot_run m ks ke a st in
    let '(st2, r2) := boot_run m ks ke b st1 in (st2, r1 ++ r2).
  Proof.
    induction a as [|a IH]; intros b st; cbn [boot_run Nat.add].
    - destruct (boot_run m ks ke b st); reflexivity.
    - destruct (boot_alloc m ks ke st) as [st1 r]. rewrite IH.
      destruct (boot_run m ks ke a st1) as [sa ra]. destruct (boot_run m ks ke b sa) as [sb rb]. reflexivity.
  Qed.

  Lemma run_length : forall n st, length (snd (boot_run m ks ke n st)) = n.
  Proof.
    induction n as [|n IH]; intros st; cbn [boot_run]; [reflexivity|].
    destruct (boot_alloc m ks ke st) as [s1 r]. specialize (IH s1).
    destruct (boot_run m ks ke n s1) as [s2 rs2]. cbn [snd length] in *. rewrite IH. reflexivity.
  Qed.

  Lemma reset_inv : st_inv boot_reset.
  Proof. left. split; reflexivity. Qed.

  (** C02, soundness over every number of calls from the initial state. *)
  Theorem boot_alloc_sound n :
    let fs := successes (snd (boot_run m ks ke n boot_reset)) in
    Forall (good_frame m kstart kend) fs /\ StronglySorted N.lt fs.
  Proof.
    destruct (run_sound n boot_reset reset_inv) as (H1 & H2 & _). split; assumption.
  Qed.

  (** C02, out of memory: when no frame that is wholly inside available RAM, outside the kernel
      image and above every frame handed out so far remains, the next call reports
      out-of-memory. *)
  Theorem boot_alloc_oom n :
    let '(st, rs) := boot_run m ks ke n boot_reset in
    (forall f, good_frame m kstart kend f -> Forall (fun g => g < f) (successes rs) -> False) ->
    snd (boot_alloc m ks ke st) = None.
  Proof.
    pose proof (boot_alloc_sound (n + 1)) as S. cbn zeta in S.
    rewrite run_app in S.
    destruct (boot_run m ks ke n boot_reset) as [st rs].
    intros Hno. cbn [boot_run] in S.
    destruct (boot_alloc m ks ke st) as [st1 [f|]]; [|reflexivity].
    exfalso. cbn [snd] in S. rewrite successes_app in S. cbn [successes] in S.
    destruct S as [S1 S2].
    apply (Hno f).
    - rewrite Forall_app in S1. destruct S1 as [_ S1]. inversion S1; assumption.
    - clear - S2. induction (successes rs) as [|g gs IH]; [constructor|].
      cbn in S2. inversion S2 as [|? ? S3 S4]; subst. constructor.
      + rewrite Forall_app in S4. destruct S4 as [_ S4]. inversion S4; assumption.
      + apply IH. assumption.
  Qed.

  (** C02, out-of-memory is final and changes nothing. *)
  Theorem boot_oom_sticky n k :
    let '(st, rs) := boot_run m ks ke n boot_reset in
    snd (boot_alloc m ks ke st) = None ->
    snd (boot_run m ks ke k (fst (boot_alloc m ks ke st))) = repeat None k /\
    b_count (fst (boot_alloc m ks ke st)) = b_count st.
  Proof.
    pose proof (run_shape n boot_reset reset_inv) as Sh.
    destruct (boot_run m ks ke n boot_reset) as [st rs]. destruct Sh as (Hinv & _ & _).
    pose proof (alloc_step st Hinv) as A.
    destruct (boot_alloc m ks ke st) as [st1 [f|]]; cbn [snd fst]; [discriminate|].
    intros _. destruct A as (Hdead & Hcnt & _ & _).
    rewrite (run_dead k st1 Hdead). split; [reflexivity|assumption].
  Qed.

  (** C02, replay: the counter is the number of frames handed out, and that many calls from the
      reset state return exactly those frames in the same order (what
      reserveEarlyAllocatorFrames relies on). *)
  Theorem boot_replay n :
    let '(st, rs) := boot_run m ks ke n boot_reset in
    b_count st = N.of_nat (length (successes rs)) /\
    snd (boot_run m ks ke (N.to_nat (b_count st)) boot_reset) = map Some (successes rs).
  Proof.
    pose proof (run_shape n boot_reset reset_inv) as Sh.
    pose proof (run_firstn) as F.
    destruct (boot_run m ks ke n boot_reset) as [st rs] eqn:E.
    destruct Sh as (_ & (k & Hk) & Hc). cbn [boot_reset b_count] in Hc.
    split; [lia|].
    assert (Hlen: length rs = n) by (pose proof (run_length n boot_reset) as L; rewrite E in L; exact L).
    replace (N.to_nat (b_count st)) with (length (successes rs)) by lia.
    assert (Hle: (length (successes rs) <= n)%nat).
    { rewrite <- Hlen. rewrite Hk at 2. rewrite app_length, map_length. lia. }
    rewrite (F _ n boot_reset Hle). rewrite E. cbn [snd].
    rewrite Hk at 2. rewrite firstn_app, map_length, Nat.sub_diag. cbn [firstn].
    rewrite app_nil_r. rewrite <- (map_length Some (successes rs)) at 1. apply firstn_all.
  Qed.
End Runs.
