(** Representation invariant of the bitmap allocator (DESIGN.md Appendix A.1) and its preservation
    by AllocFrame / FreeFrame / markFrame (C01/C03). *)
From Coq Require Import NArith ZArith Lia List Bool Sorted.
From Coq Require Import ZifyBool ZifyN ZifyNat.
From FF Require Import Lib.Word Gen.Consts_mm_pmm Pmm.Boot Pmm.BootProofs Pmm.Bitmap Pmm.Bits.
Import ListNotations.
Local Open Scope N_scope.
Ltac Zify.zify_post_hook ::= Z.div_mod_to_equations.

(** [R] : which frames are reserved (kernel image, early-boot frames, frames held by callers) *)
Definition upd (R : N -> bool) (f : N) (v : bool) : N -> bool := fun g => if g =? f then v else R g.

Definition pool_n (p : pool) : N := p_end p + 1 - p_start p.
Definition in_pool (p : pool) (f : N) : Prop := p_start p <= f <= p_end p.
Definition managed (ps : list pool) (f : N) : Prop := exists p, In p ps /\ in_pool p f.

Definition InvPool (R : N -> bool) (p : pool) : Prop :=
  p_start p <= p_end p /\ p_end p < big /\ pool_n p < two32 /\
  pool_n p <= 64 * N.of_nat (length (p_bitmap p)) /\
  (forall i, i < pool_n p -> bitf (p_bitmap p) i = R (p_start p + i)) /\
  p_free p = cnt (bitf (p_bitmap p)) (N.to_nat (pool_n p)).

Definition ranges (ps : list pool) : list (N * N) := map (fun p => (p_start p, p_end p)) ps.

Fixpoint sum_n (rs : list (N * N)) : N :=
  match rs with [] => 0 | (s, e) :: rest => (e + 1 - s) + sum_n rest end.
Fixpoint sum_free (ps : list pool) : N :=
  match ps with [] => 0 | p :: rest => p_free p + sum_free rest end.

Definition ranges_sorted (rs : list (N * N)) : Prop := StronglySorted (fun p q => snd p < fst q) rs.

Definition Inv (R : N -> bool) (a : balloc) : Prop :=
  Forall (InvPool R) (a_pools a) /\ ranges_sorted (ranges (a_pools a)) /\
  a_total a = sum_n (ranges (a_pools a)) /\ a_total a < two32 /\
  a_reserved a + sum_free (a_pools a) = a_total a.

Definition in_ranges (rs : list (N * N)) (f : N) : Prop := exists s e, In (s, e) rs /\ s <= f <= e.

Lemma managed_ranges ps f : managed ps f <-> in_ranges (ranges ps) f.
Proof.
  unfold managed, in_ranges, ranges, in_pool. split.
  - intros (p & Hin & H). exists (p_start p), (p_end p). split; [|assumption].
    apply in_map_iff. exists p. split; [reflexivity|assumption].
  - intros (s & e & Hin & H). apply in_map_iff in Hin. destruct Hin as (p & E & Hin). inversion E; subst.
    exists p. split; assumption.
Qed.

Lemma InvPool_ext R R' p : (forall f, in_pool p f -> R f = R' f) -> InvPool R p -> InvPool R' p.
Proof.
  intros H (H1 & H2 & H3 & H4 & H5 & H6). repeat split; try assumption.
  intros i Hi. rewrite H5 by assumption. apply H. unfold in_pool, pool_n in *. lia.
Qed.

Lemma InvPool_free_le R p : InvPool R p -> p_free p <= pool_n p.
Proof.
  intros (H1 & H2 & H3 & H4 & H5 & H6). rewrite H6.
  pose proof (cnt_le (bitf (p_bitmap p)) (N.to_nat (pool_n p))). lia.
Qed.

(** ---- one pool: AllocFrame's inner loops ---- *)
Lemma try_pool_spec R p :
  InvPool R p ->
  match try_pool p with
  | Some (f, p') =>
      in_pool p f /\ R f = false /\ InvPool (upd R f true) p' /\
      p_start p' = p_start p /\ p_end p' = p_end p /\ p_free p' + 1 = p_free p /\
      (forall g, in_pool p g -> R g = false -> f <= g)
  | None => p_free p = 0 /\ (forall g, in_pool p g -> R g = true)
  end.
Proof.
  intros (H1 & H2 & H3 & H4 & H5 & H6). unfold try_pool.
  destruct (N.eqb_spec (p_free p) 0) as [E0|E0].
  - split; [assumption|]. intros g Hg. unfold in_pool, pool_n in *.
    rewrite E0 in H6. symmetry in H6.
    pose proof (cnt_zero _ _ H6 (g - p_start p) ltac:(lia)) as Hb.
    rewrite H5 in Hb by lia. replace (p_start p + (g - p_start p)) with g in Hb by lia. assumption.
  - assert (Hc: 1 <= cnt (bitf (p_bitmap p)) (N.to_nat (pool_n p))) by lia.
    destruct (cnt_exists _ _ Hc) as (i & Hi & Hbi).
    pose proof (scan_blocks_spec (p_bitmap p) 0) as S.
    destruct (scan_blocks 0 (p_bitmap p)) as [[[b o] mk]|].
    + destruct S as (_ & Sb & So & Smk & Sfalse & Sleast).
      replace (b - 0) with b in * by lia.
      set (i0 := b * 64 + o) in *.
      assert (Hi0: i0 <= i).
      { destruct (N.le_gt_cases i0 i) as [|Hlt]; [assumption|]. rewrite (Sleast i Hlt) in Hbi. discriminate. }
      assert (Hb64: i0 / 64 = b) by (unfold i0; lia).
      assert (Ho64: i0 mod 64 = o) by (unfold i0; lia).
      unfold pool_n, big, two32 in *.
      assert (Hf: w64 (p_start p + w64 (N.shiftl b 6 + o)) = p_start p + i0).
      { rewrite N.shiftl_mul_pow2. change (2 ^ 6) with 64. fold i0.
        rewrite (w64_small i0) by (unfold two64; lia). apply w64_small. unfold two64; lia. }
      rewrite Hf.
      assert (HR: R (p_start p + i0) = false) by (rewrite <- H5 by lia; assumption).
      unfold InvPool, in_pool, pool_n; cbn [p_start p_end p_free p_bitmap].
      repeat split; try assumption; try lia.
      * rewrite length_set_nth. assumption.
      * intros j Hj.
        rewrite Smk, <- Ho64, <- Hb64.
        rewrite (bitf_set (p_bitmap p) i0 _ ltac:(lia) eq_refl j).
        unfold upd. rewrite H5 by assumption.
        destruct (N.eqb_spec j i0) as [->|Hne].
        -- rewrite N.eqb_refl. apply orb_true_r.
        -- destruct (N.eqb_spec (p_start p + j) (p_start p + i0)); [lia|apply orb_false_r].
      * rewrite Smk, <- Ho64, <- Hb64.
        rewrite (cnt_ext _ (fun j => bitf (p_bitmap p) j || (j =? i0))) by (intros; apply bitf_set; [lia|reflexivity]).
        pose proof (cnt_set (bitf (p_bitmap p)) (N.to_nat (p_end p + 1 - p_start p)) i0 ltac:(lia) Sfalse) as Hcs.
        pose proof (cnt_le (bitf (p_bitmap p)) (N.to_nat (p_end p + 1 - p_start p))).
        unfold dec32, w32, two32. lia.
      * pose proof (cnt_le (bitf (p_bitmap p)) (N.to_nat (p_end p + 1 - p_start p))).
        unfold dec32, w32, two32. lia.
      * intros g Hg HRg. unfold in_pool in Hg.
        destruct (N.le_gt_cases (p_start p + i0) g) as [|Hlt]; [assumption|].
        assert (Hbg: bitf (p_bitmap p) (g - p_start p) = true) by (apply Sleast; lia).
        rewrite H5 in Hbg by lia. replace (p_start p + (g - p_start p)) with g in Hbg by lia. congruence.
    + exfalso. rewrite S in Hbi; [discriminate|]. unfold pool_n in *. lia.
Qed.

(** ---- the pool list ---- *)
Lemma sorted_head_lt s e rs f :
  ranges_sorted ((s, e) :: rs) -> in_ranges rs f -> e < f.
Proof.
  intros Hs (s' & e' & Hin & Hf). inversion Hs as [|? ? _ Hall]; subst.
  rewrite Forall_forall in Hall. specialize (Hall _ Hin). cbn in Hall. lia.
Qed.

Lemma sorted_tail r rs : ranges_sorted (r :: rs) -> ranges_sorted rs.
Proof. intros H. inversion H; assumption. Qed.

Lemma managed_cons p ps f : managed (p :: ps) f <-> in_pool p f \/ managed ps f.
Proof.
  unfold managed. split.
  - intros (q & [<-|Hin] & H); [left; assumption|right; exists q; split; assumption].
  - intros [H|(q & Hin & H)]; [exists p; split; [left; reflexivity|assumption]|exists q; split; [right; assumption|assumption]].
Qed.

Lemma Forall_InvPool_ext R R' ps :
  (forall f, managed ps f -> R f = R' f) -> Forall (InvPool R) ps -> Forall (InvPool R') ps.
Proof.
  intros H Hall. rewrite Forall_forall in *. intros p Hin. apply (InvPool_ext R); [|apply Hall; assumption].
  intros f Hf. apply H. exists p. split; assumption.
Qed.

Lemma upd_other R f v g : g <> f -> upd R f v g = R g.
Proof. intros H. unfold upd. destruct (N.eqb_spec g f); [contradiction|reflexivity]. Qed.

Lemma upd_same R f v : upd R f v f = v.
Proof. unfold upd. rewrite N.eqb_refl. reflexivity. Qed.

Lemma alloc_pools_spec R : forall ps,
  Forall (InvPool R) ps -> ranges_sorted (ranges ps) ->
  match alloc_pools ps with
  | Some (f, ps') =>
      managed ps f /\ R f = false /\ Forall (InvPool (upd R f true)) ps' /\
      ranges ps' = ranges ps /\ sum_free ps' + 1 = sum_free ps /\
      (forall g, managed ps g -> R g = false -> f <= g)
  | None => sum_free ps = 0 /\ (forall g, managed ps g -> R g = true)
  end.
Proof.
  induction ps as [|p rest IH]; intros Hall Hsorted; cbn [alloc_pools].
  - split; [reflexivity|]. intros g (q & [] & _).
  - inversion Hall as [|? ? Hp Hrest]; subst. cbn [ranges map] in Hsorted. fold (ranges rest) in Hsorted.
    pose proof (try_pool_spec R p Hp) as T.
    destruct (try_pool p) as [[f p']|].
    + destruct T as (Hin & HR & Hp' & Hs & He & Hfree & Hlow).
      assert (Hnot: forall g, managed rest g -> p_end p < g).
      { intros g Hg. apply (sorted_head_lt (p_start p) (p_end p) (ranges rest)); [assumption|apply managed_ranges; assumption]. }
      split; [apply managed_cons; left; assumption|]. split; [assumption|]. split.
      { constructor; [assumption|]. apply (Forall_InvPool_ext R); [|assumption].
        intros g Hg. symmetry. apply upd_other. specialize (Hnot g Hg). unfold in_pool in Hin. lia. }
      split; [cbn [ranges map]; rewrite Hs, He; reflexivity|].
      split; [cbn [sum_free]; lia|].
      intros g Hg HRg. apply managed_cons in Hg. destruct Hg as [Hg|Hg]; [apply Hlow; assumption|].
      specialize (Hnot g Hg). unfold in_pool in Hin. lia.
    + destruct T as (Hfree0 & Hfull).
      specialize (IH Hrest (sorted_tail _ _ Hsorted)).
      destruct (alloc_pools rest) as [[f rest']|].
      * destruct IH as (Hm & HR & Hall' & Hr & Hsf & Hlow).
        assert (Hnot: p_end p < f).
        { apply (sorted_head_lt (p_start p) (p_end p) (ranges rest)); [assumption|apply managed_ranges; assumption]. }
        split; [apply managed_cons; right; assumption|]. split; [assumption|]. split.
        { constructor; [|assumption]. apply (InvPool_ext R); [|assumption].
          intros g Hg. symmetry. apply upd_other. unfold in_pool in Hg. lia. }
        split; [cbn [ranges map]; fold (ranges rest'); fold (ranges rest); rewrite Hr; reflexivity|].
        split; [cbn [sum_free]; lia|].
        intros g Hg HRg. apply managed_cons in Hg. destruct Hg as [Hg|Hg]; [|apply Hlow; assumption].
        rewrite (Hfull g Hg) in HRg. discriminate.
      * destruct IH as (Hsf & Hfull'). split; [cbn [sum_free]; lia|].
        intros g Hg. apply managed_cons in Hg. destruct Hg as [Hg|Hg]; [apply Hfull|apply Hfull']; assumption.
Qed.

Lemma sum_free_le R ps : Forall (InvPool R) ps -> sum_free ps <= sum_n (ranges ps).
Proof.
  induction ps as [|p rest IH]; intros H; cbn; [lia|].
  inversion H as [|? ? Hp Hrest]; subst. specialize (IH Hrest).
  pose proof (InvPool_free_le R p Hp). unfold pool_n in *. fold (ranges rest). lia.
Qed.

(** AllocFrame *)
Lemma bitmap_alloc_spec R a :
  Inv R a ->
  match bitmap_alloc a with
  | (a', Some f) =>
      managed (a_pools a) f /\ R f = false /\ Inv (upd R f true) a' /\
      ranges (a_pools a') = ranges (a_pools a) /\
      a_total a' = a_total a /\ a_reserved a' = a_reserved a + 1 /\
      (forall g, managed (a_pools a) g -> R g = false -> f <= g)
  | (a', None) =>
      a' = a /\ a_reserved a = a_total a /\ (forall g, managed (a_pools a) g -> R g = true)
  end.
Proof.
  intros (Hall & Hsorted & Htot & Hlt & Hres). unfold bitmap_alloc.
  pose proof (alloc_pools_spec R (a_pools a) Hall Hsorted) as S.
  destruct (alloc_pools (a_pools a)) as [[f ps']|].
  - destruct S as (Hm & HR & Hall' & Hr & Hsf & Hlow).
    assert (Hinc: inc32 (a_reserved a) = a_reserved a + 1).
    { unfold inc32. apply w32_small. unfold two32 in *. lia. }
    repeat split; cbn [a_pools a_total a_reserved]; try assumption.
    + rewrite Hr. assumption.
    + rewrite Hr. assumption.
    + rewrite Hinc. lia.
  - destruct S as (Hsf & Hfull). repeat split; try assumption. lia.
Qed.

(** ---- addressing one frame of one pool (markFrame / FreeFrame) ---- *)
Lemma sub64_small a b : b <= a -> a < two64 -> sub64 a b = a - b.
Proof. intros H1 H2. unfold sub64, w64, two64 in *. lia. Qed.

Lemma pool_word R p f :
  InvPool R p -> in_pool p f ->
  let rel := sub64 f (p_start p) in
  rel = f - p_start p /\ rel < pool_n p /\
  exists w, nth_errorN (p_bitmap p) (N.shiftr rel 6) = Some w /\
            nth (N.to_nat (rel / 64)) (p_bitmap p) 0 = w /\
            N.shiftr rel 6 = rel / 64 /\ rel / 64 < N.of_nat (length (p_bitmap p)) /\
            bit_mask rel = 2 ^ (63 - rel mod 64) /\
            bitf (p_bitmap p) rel = R f.
Proof.
  intros (H1 & H2 & H3 & H4 & H5 & H6) Hin. unfold in_pool, pool_n, big in *. cbn zeta.
  assert (Hrel: sub64 f (p_start p) = f - p_start p) by (apply sub64_small; unfold two64; lia).
  rewrite Hrel. split; [reflexivity|]. split; [lia|].
  rewrite N.shiftr_div_pow2. change (2 ^ 6) with 64.
  assert (Hlt: (f - p_start p) / 64 < N.of_nat (length (p_bitmap p))) by lia.
  destruct (nth_errorN_lt (p_bitmap p) _ Hlt) as [w Hw]. exists w. split; [assumption|].
  apply nth_errorN_some in Hw. destruct Hw as [_ Hw].
  split; [apply nth_error_nth; assumption|]. split; [reflexivity|]. split; [assumption|].
  split; [apply bit_mask_eq|]. rewrite H5 by lia. f_equal. lia.
Qed.

Lemma pool_set_bit R p f w :
  InvPool R p -> in_pool p f -> R f = false ->
  let rel := sub64 f (p_start p) in
  nth (N.to_nat (rel / 64)) (p_bitmap p) 0 = w ->
  InvPool (upd R f true)
    (mkPool (p_start p) (p_end p) (dec32 (p_free p))
            (set_nth (N.to_nat (N.shiftr rel 6)) (N.lor w (bit_mask rel)) (p_bitmap p))) /\
  dec32 (p_free p) + 1 = p_free p.
Proof.
  intros Hinv Hin HR. cbn zeta. intros Hw.
  destruct (pool_word R p f Hinv Hin) as (Hrel & Hlt & w' & _ & _ & Hsh & Hlen & Hmask & Hbit).
  destruct Hinv as (H1 & H2 & H3 & H4 & H5 & H6).
  rewrite Hsh, Hmask. set (rel := sub64 f (p_start p)) in *.
  assert (Hbf: bitf (p_bitmap p) rel = false) by congruence.
  pose proof (cnt_set (bitf (p_bitmap p)) (N.to_nat (pool_n p)) rel ltac:(lia) Hbf) as Hcs.
  pose proof (cnt_le (bitf (p_bitmap p)) (N.to_nat (pool_n p))) as Hcl.
  assert (Hdec: dec32 (p_free p) + 1 = p_free p) by (unfold dec32, w32, two32 in *; lia).
  split; [|assumption].
  unfold InvPool, pool_n in *; cbn [p_start p_end p_free p_bitmap].
  repeat split; try assumption.
  - rewrite length_set_nth. assumption.
  - intros j Hj. rewrite (bitf_set (p_bitmap p) rel w Hlen Hw j). unfold upd. rewrite H5 by assumption.
    unfold in_pool in Hin.
    destruct (N.eqb_spec j rel) as [->|Hne].
    + replace (p_start p + rel) with f by lia. rewrite N.eqb_refl. apply orb_true_r.
    + destruct (N.eqb_spec (p_start p + j) f); [lia|apply orb_false_r].
  - rewrite (cnt_ext _ (fun j => bitf (p_bitmap p) j || (j =? rel))) by (intros; apply bitf_set; assumption).
    lia.
Qed.

Lemma pool_clear_bit R p f w :
  InvPool R p -> in_pool p f -> R f = true ->
  let rel := sub64 f (p_start p) in
  nth (N.to_nat (rel / 64)) (p_bitmap p) 0 = w ->
  InvPool (upd R f false)
    (mkPool (p_start p) (p_end p) (inc32 (p_free p))
            (set_nth (N.to_nat (N.shiftr rel 6)) (andnot w (bit_mask rel)) (p_bitmap p))) /\
  inc32 (p_free p) = p_free p + 1 /\ p_free p + 1 <= pool_n p.
Proof.
  intros Hinv Hin HR. cbn zeta. intros Hw.
  destruct (pool_word R p f Hinv Hin) as (Hrel & Hlt & w' & _ & _ & Hsh & Hlen & Hmask & Hbit).
  destruct Hinv as (H1 & H2 & H3 & H4 & H5 & H6).
  rewrite Hsh, Hmask. set (rel := sub64 f (p_start p)) in *.
  assert (Hbf: bitf (p_bitmap p) rel = true) by congruence.
  pose proof (cnt_clear (bitf (p_bitmap p)) (N.to_nat (pool_n p)) rel ltac:(lia) Hbf) as Hcs.
  pose proof (cnt_le (fun j => bitf (p_bitmap p) j && negb (j =? rel)) (N.to_nat (pool_n p))) as Hcl.
  assert (Hinc: inc32 (p_free p) = p_free p + 1) by (unfold inc32; apply w32_small; unfold two32 in *; lia).
  split; [|split; [assumption|lia]].
  unfold InvPool, pool_n in *; cbn [p_start p_end p_free p_bitmap].
  repeat split; try assumption.
  - rewrite length_set_nth. assumption.
  - intros j Hj. rewrite (bitf_clear (p_bitmap p) rel w Hlen Hw j). unfold upd. rewrite H5 by assumption.
    unfold in_pool in Hin.
    destruct (N.eqb_spec j rel) as [->|Hne].
    + replace (p_start p + rel) with f by lia. rewrite N.eqb_refl. apply andb_false_r.
    + destruct (N.eqb_spec (p_start p + j) f); [lia|apply andb_true_r].
  - rewrite (cnt_ext _ (fun j => bitf (p_bitmap p) j && negb (j =? rel))) by (intros; apply bitf_clear; assumption).
    lia.
Qed.

(** ---- poolForFrame / replacing one pool ---- *)
Lemma pool_for_frame_from_spec f : forall ps idx,
  match pool_for_frame_from idx ps f with
  | Some i => (idx <= i)%nat /\ exists p, nth_error ps (i - idx) = Some p /\ in_pool p f
  | None => forall p, In p ps -> ~ in_pool p f
  end.
Proof.
  induction ps as [|p rest IH]; intros idx; cbn [pool_for_frame_from].
  - intros p [].
  - destruct ((p_start p <=? f) && (f <=? p_end p)) eqn:E.
    + split; [lia|]. exists p. rewrite Nat.sub_diag. split; [reflexivity|unfold in_pool; lia].
    + specialize (IH (S idx)). destruct (pool_for_frame_from (S idx) rest f) as [i|].
      * destruct IH as (Hle & p' & Hn & Hin). split; [lia|]. exists p'. split; [|assumption].
        replace (i - idx)%nat with (S (i - S idx)) by lia. exact Hn.
      * intros q [<-|Hq]; [unfold in_pool; lia|apply IH; assumption].
Qed.

Lemma update_pool_split : forall ps i p p',
  nth_error ps i = Some p ->
  exists l1 l2, ps = l1 ++ p :: l2 /\ update_pool i p' ps = l1 ++ p' :: l2.
Proof.
  induction ps as [|q rest IH]; intros [|i] p p' H; cbn in H; try discriminate.
  - inversion H; subst. exists [], rest. split; reflexivity.
  - destruct (IH i p p' H) as (l1 & l2 & E1 & E2). exists (q :: l1), l2. cbn. rewrite <- E1, E2. split; reflexivity.
Qed.

Lemma sum_free_app l1 l2 : sum_free (l1 ++ l2) = sum_free l1 + sum_free l2.
Proof. induction l1 as [|p l1 IH]; cbn; [reflexivity|rewrite IH; lia]. Qed.

Lemma sorted_others l1 p l2 f :
  ranges_sorted (ranges (l1 ++ p :: l2)) -> in_pool p f ->
  forall q, In q (l1 ++ l2) -> ~ in_pool q f.
Proof.
  induction l1 as [|q0 l1 IH]; intros Hs Hin q Hq; cbn [app] in *.
  - cbn [ranges map] in Hs. fold (ranges l2) in Hs.
    assert (p_end p < f -> False) by (unfold in_pool in Hin; lia).
    intros Hqf. apply H. apply (sorted_head_lt (p_start p) (p_end p) (ranges l2)); [assumption|].
    apply managed_ranges. exists q. split; assumption.
  - cbn [ranges map] in Hs. fold (ranges (l1 ++ p :: l2)) in Hs.
    destruct Hq as [<-|Hq].
    + intros Hqf. unfold in_pool in *.
      assert (p_end q0 < f); [|lia].
      apply (sorted_head_lt (p_start q0) (p_end q0) (ranges (l1 ++ p :: l2))); [assumption|].
      apply managed_ranges. exists p. split; [apply in_or_app; right; left; reflexivity|assumption].
    + apply IH; [apply (sorted_tail _ _ Hs)|assumption|assumption].
Qed.

(** replacing the pool that holds [f] by one that differs only in the bit of [f] *)
Lemma Inv_update R a i p p' f v total' reserved' :
  Inv R a -> nth_error (a_pools a) i = Some p -> in_pool p f ->
  InvPool (upd R f v) p' -> p_start p' = p_start p -> p_end p' = p_end p ->
  total' = a_total a -> reserved' + p_free p' = a_reserved a + p_free p ->
  Inv (upd R f v) (mkBA total' reserved' (update_pool i p' (a_pools a))) /\
  ranges (update_pool i p' (a_pools a)) = ranges (a_pools a).
Proof.
  intros (Hall & Hsorted & Htot & Hlt & Hres) Hnth Hin Hp' Hs He Ht Hr.
  destruct (update_pool_split (a_pools a) i p p' Hnth) as (l1 & l2 & E1 & E2).
  rewrite E2. rewrite E1 in *.
  assert (Hranges: ranges (l1 ++ p' :: l2) = ranges (l1 ++ p :: l2)).
  { unfold ranges. rewrite !map_app. cbn [map]. rewrite Hs, He. reflexivity. }
  split; [|assumption].
  unfold Inv; cbn [a_pools a_total a_reserved]. rewrite Hranges.
  pose proof (sorted_others l1 p l2 f Hsorted Hin) as Hoth.
  apply Forall_app in Hall. destruct Hall as [Hall1 Hall2]. inversion Hall2 as [|? ? Hp Hall2']; subst.
  repeat split; try assumption; try lia.
  - apply Forall_app. split; [|constructor; [assumption|]].
    + rewrite Forall_forall in *. intros q Hq. apply (InvPool_ext R); [|apply Hall1; assumption].
      intros g Hg. symmetry. apply upd_other. intros ->. apply (Hoth q); [apply in_or_app; left; assumption|assumption].
    + rewrite Forall_forall in *. intros q Hq. apply (InvPool_ext R); [|apply Hall2'; assumption].
      intros g Hg. symmetry. apply upd_other. intros ->. apply (Hoth q); [apply in_or_app; right; assumption|assumption].
  - rewrite sum_free_app in *. cbn [sum_free] in *. lia.
Qed.

(** FreeFrame *)
Lemma bitmap_free_spec R a f :
  Inv R a ->
  match bitmap_free a f with
  | (a', FreeOk) =>
      managed (a_pools a) f /\ R f = true /\ Inv (upd R f false) a' /\
      ranges (a_pools a') = ranges (a_pools a) /\
      a_total a' = a_total a /\ a_reserved a' + 1 = a_reserved a
  | (a', FreeNotManaged) => a' = a /\ ~ managed (a_pools a) f
  | (a', FreeDoubleFree) => a' = a /\ managed (a_pools a) f /\ R f = false
  | (a', FreePanic) => False
  end.
Proof.
  intros Hinv. unfold bitmap_free, pool_for_frame.
  pose proof (pool_for_frame_from_spec f (a_pools a) 0%nat) as P.
  destruct (pool_for_frame_from 0 (a_pools a) f) as [i|].
  - destruct P as (_ & p & Hnth & Hin). rewrite Nat.sub_0_r in Hnth. rewrite Hnth.
    assert (Hpin: In p (a_pools a)) by (eapply nth_error_In; eassumption).
    assert (Hm: managed (a_pools a) f) by (exists p; split; assumption).
    assert (Hp: InvPool R p) by (destruct Hinv as (Hall & _); rewrite Forall_forall in Hall; apply Hall; assumption).
    destruct (pool_word R p f Hp Hin) as (Hrel & Hlt & w & Hw & Hnthw & Hsh & Hlen & Hmask & Hbit).
    rewrite Hw.
    assert (Htest: (N.land w (bit_mask (sub64 f (p_start p))) =? 0) = negb (R f)).
    { rewrite Hmask. rewrite (bitf_test (p_bitmap p) _ w Hnthw). rewrite Hbit. reflexivity. }
    rewrite Htest. destruct (R f) eqn:HR; cbn [negb].
    + destruct (pool_clear_bit R p f w Hp Hin HR Hnthw) as (Hp' & Hinc & Hle).
      assert (Hres1: 1 <= a_reserved a).
      { destruct Hinv as (Hall & Hsorted & Htot & Hlt32 & Hres).
        destruct (update_pool_split (a_pools a) i p p Hnth) as (l1 & l2 & E1 & _).
        pose proof (sum_free_le R (a_pools a) Hall) as Hsl.
        assert (sum_free (a_pools a) + 1 <= sum_n (ranges (a_pools a))).
        { rewrite E1 in *. apply Forall_app in Hall. destruct Hall as [Ha1 Ha2]. inversion Ha2 as [|? ? _ Ha2']; subst.
          pose proof (sum_free_le R l1 Ha1). pose proof (sum_free_le R l2 Ha2').
          rewrite sum_free_app. unfold ranges. rewrite map_app. cbn [map sum_free].
          assert (Hsn: forall x y, sum_n (x ++ y) = sum_n x + sum_n y).
          { induction x as [|[s e] x IHx]; intros y; cbn; [reflexivity|rewrite IHx; lia]. }
          rewrite Hsn. cbn [sum_n]. unfold ranges, pool_n in *. lia. }
        lia. }
      assert (Hdec: dec32 (a_reserved a) + 1 = a_reserved a).
      { destruct Hinv as (_ & _ & _ & Hlt32 & Hres). unfold dec32, w32, two32 in *. lia. }
      destruct (Inv_update R a i p _ f false (a_total a) (dec32 (a_reserved a)) Hinv Hnth Hin Hp' eq_refl eq_refl eq_refl) as [HI Hr].
      { cbn [p_free]. lia. }
      split; [assumption|]. split; [reflexivity|]. split; [exact HI|]. split; [exact Hr|]. split; [reflexivity|exact Hdec].
    + repeat split; assumption.
  - split; [reflexivity|]. intros (p & Hp & Hin). exact (P p Hp Hin).
Qed.

(** markFrame(poolForFrame(f), f, markReserved) on a frame that is managed and not yet reserved *)
Lemma mark_reserved_spec R a f :
  Inv R a -> managed (a_pools a) f -> R f = false ->
  exists a', mark_reserved a (pool_for_frame a f) f = Ok a' /\ Inv (upd R f true) a' /\
             ranges (a_pools a') = ranges (a_pools a) /\ a_total a' = a_total a /\
             a_reserved a' = a_reserved a + 1.
Proof.
  intros Hinv Hm HR. unfold mark_reserved, pool_for_frame.
  pose proof (pool_for_frame_from_spec f (a_pools a) 0%nat) as P.
  destruct (pool_for_frame_from 0 (a_pools a) f) as [i|].
  - destruct P as (_ & p & Hnth & Hin). rewrite Nat.sub_0_r in Hnth. rewrite Hnth.
    assert (Hpin: In p (a_pools a)) by (eapply nth_error_In; eassumption).
    assert (Hp: InvPool R p) by (destruct Hinv as (Hall & _); rewrite Forall_forall in Hall; apply Hall; assumption).
    assert (Hend: (p_end p <? f) = false) by (unfold in_pool in Hin; lia). rewrite Hend.
    destruct (pool_word R p f Hp Hin) as (Hrel & Hlt & w & Hw & Hnthw & Hsh & Hlen & Hmask & Hbit).
    rewrite Hw.
    destruct (pool_set_bit R p f w Hp Hin HR Hnthw) as (Hp' & Hdec).
    assert (Hinc: inc32 (a_reserved a) = a_reserved a + 1).
    { destruct Hinv as (Hall & Hsorted & Htot & Hlt32 & Hres).
      assert (1 <= sum_free (a_pools a)).
      { destruct (update_pool_split (a_pools a) i p p Hnth) as (l1 & l2 & E1 & _).
        rewrite E1, sum_free_app. cbn [sum_free]. lia. }
      unfold inc32. apply w32_small. unfold two32 in *. lia. }
    destruct (Inv_update R a i p _ f true (a_total a) (inc32 (a_reserved a)) Hinv Hnth Hin Hp' eq_refl eq_refl eq_refl) as [HI Hr].
    { cbn [p_free]. lia. }
    eexists. split; [reflexivity|]. split; [exact HI|]. split; [exact Hr|]. split; [reflexivity|exact Hinc].
  - exfalso. destruct Hm as (p & Hp & Hin). exact (P p Hp Hin).
Qed.
