(** C16 composed with C17: what the real terminal shows after bring-up.

    The calls bring-up makes on the active terminal, read off the trace of Hal/Model.v
    ([tty_ops]: Write and SetState calls, in order; the AttachTo call is the [attach] of Tty/Vt.v),
    are a history in the sense of C17.  By C17's refinement theorem the terminal model (Tty/Vt.v,
    vt.go with wrap-around and bounds checks) does not panic on it and ends as the reference
    terminal that has received exactly the delivered byte stream, which by C16_bringup is
    newest-[capacity](early log) ++ later log. *)
From Coq Require Import NArith ZArith List Bool Lia.
From FF Require Import Lib.Word Gen.Consts_kfmt Kfmt.Fmt Kfmt.Ring Kfmt.RingProofs Hal.Model Hal.Spec Hal.HalProofs.
From FF Require Tty.Vt Tty.VtSpec Tty.VtProofs.
Import ListNotations.
Local Open Scope N_scope.

Definition ev_ops (t : N) (e : event) : list Vt.op :=
  match e with
  | EvWrite t' b => if t' =? t then [Vt.OWrite b] else []
  | EvSetState t' s => if t' =? t then [Vt.OSetState s] else []
  | _ => []
  end.

(** the Write / SetState calls terminal [t] received, oldest first *)
Definition tty_ops (t : N) (tr : list event) : list Vt.op := flat_map (ev_ops t) (rev tr).

Section Geometry.
  Variables (w h sb tab fg bg : N).

  Lemma ref_ops_bytes (l : list event) (t : N) : forall r,
    fold_left (VtSpec.r_step w h sb tab fg bg) (flat_map (ev_ops t) l) r =
    fold_left (VtSpec.r_byte w h sb tab fg bg)
      (flat_map (fun e => match e with EvWrite t' b => if t' =? t then b else [] | _ => [] end) l) r.
  Proof.
    induction l as [|e l IH]; intros r; [reflexivity|].
    cbn [flat_map]. rewrite !fold_left_app, <- IH. f_equal.
    destruct e; try reflexivity; cbn [ev_ops]; destruct (_ =? t); reflexivity.
  Qed.

  Lemma ops_wf (l : list event) (t : N) :
    Forall (fun b => b < 256) (flat_map (fun e => match e with EvWrite t' b => if t' =? t then b else [] | _ => [] end) l) ->
    Forall (fun p => snd p < 256) (flat_map (fun e => match e with EvSetState t' s => [(t', s)] | _ => [] end) l) ->
    Forall VtSpec.op_wf (flat_map (ev_ops t) l).
  Proof.
    induction l as [|e l IH]; intros Hb Hs; [constructor|].
    cbn [flat_map] in *. apply Forall_app in Hb. destruct Hb as [Hb1 Hb2].
    apply Forall_app in Hs. destruct Hs as [Hs1 Hs2].
    apply Forall_app. split; [|apply IH; assumption].
    destruct e; try constructor; cbn [ev_ops].
    - destruct (t0 =? t); [|constructor]. constructor; [|constructor]. inversion Hs1; subst. assumption.
    - destruct (t0 =? t); [|constructor]. constructor; [|constructor]. exact Hb1.
  Qed.

  (** After any bring-up in which a console and a terminal came up: for every console geometry the
      terminal is attached to (w, h >= 1, the buffer representable in 32 bits), tab width, scrollback
      and default colours, provided the delivered stream consists of bytes, the terminal model run on
      the calls bring-up made does not panic and its contents, viewport and cursor are those of the
      reference terminal after receiving  newest-[capacity](early log) ++ later log. *)
  Lemma bringup_terminal_shows :
    forall (logo_off : bool) (pre : list logop) (sorted_list : list driver) (post : list logop),
      1 <= w -> 1 <= h -> tab <= 255 -> w * (h + sb) * 3 < two32 ->
      exists st a,
        scenario pre sorted_list post (set_logo_off init_hal logo_off) = Ok st /\
        abs_scenario pre sorted_list post init_abs = Ok a /\
        match h_console st, h_tty st with
        | Some c, Some t =>
            Forall (fun b => b < 256) (tty_bytes t (h_trace st)) ->
            exists v0 v,
              Vt.attach (Vt.new_vt tab sb) w h fg bg = Vt.Ok v0 /\
              Vt.run_ops v0 (tty_ops t (h_trace st)) = Vt.Ok v /\
              VtSpec.abs v =
                fold_left (VtSpec.r_byte w h sb tab fg bg) (lastn capacity (a_early a) ++ a_later a)
                          (VtSpec.r_init w h sb fg bg)
        | _, _ => True
        end.
  Proof.
    intros logo_off pre ds post Hw Hh Ht Hsz.
    destruct (bringup_full logo_off pre ds post) as [st [a (E1 & E2 & _ & _ & _ & Hm)]].
    exists st, a. split; [exact E1|]. split; [exact E2|].
    destruct (h_console st) as [c|]; [|exact I]. destruct (h_tty st) as [t|]; [|exact I].
    destruct Hm as (_ & _ & Hb & _ & _ & Hst). intros Hbytes.
    assert (WF : Forall VtSpec.op_wf (tty_ops t (h_trace st))).
    { apply ops_wf; [exact Hbytes|]. unfold states in Hst. rewrite Hst. constructor; [cbn; lia|constructor]. }
    destruct (VtProofs.vt_refines_thm w h sb tab fg bg _ Hw Hh Ht Hsz WF) as [v0 [v [A1 [A2 A3]]]].
    exists v0, v. split; [exact A1|]. split; [exact A2|].
    rewrite A3. unfold VtSpec.ref_run, tty_ops. rewrite ref_ops_bytes. fold (tty_bytes t (h_trace st)).
    rewrite Hb. reflexivity.
  Qed.
End Geometry.
