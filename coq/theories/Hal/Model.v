(** Model of kernel/hal/hal.go (DetectHardware / probe / onDriverInit / onConsoleInit /
    linkTTYToConsole) together with kfmt.Printf, kfmt.SetOutputSink and kfmt.GetOutputSink
    (kernel/kfmt/fmt.go), on top of the models of the ring buffer (Kfmt/Ring.v), the prefix writer
    (Kfmt/Prefix.v) and the formatter (Kfmt/Fmt.v).  Definitions only.

    Drivers are records; their Probe/DriverInit behaviour is data (does the probe find hardware, of
    which kind, name, version, does init fail and with which message, what does init write to the
    io.Writer it is given).  Calls made on drivers are recorded as a trace of events.
    The sorted driver list ([sort.Sort(drivers)]) is an input of [detect_hardware]: the theorems take
    "it is a sorted permutation of the registered list" as hypotheses and the harness checks them on
    every observed run.  The three format strings of probe() are regenerated from hal.go
    (Gen/Hal_strings.v). *)
From Coq Require Import NArith ZArith List Bool.
From FF Require Import Lib.Word Gen.Consts_kfmt Gen.Hal_strings Kfmt.Fmt Kfmt.Ring Kfmt.Prefix.
Import ListNotations.
Local Open Scope N_scope.

Inductive kind := KConsole | KTTY | KOther.

Record probed := mkProbed {
  p_kind : kind;
  p_name : list N;                       (* DriverName() *)
  p_major : Z; p_minor : Z; p_patch : Z; (* DriverVersion(): three uint16 *)
  p_init_err : option (list N);          (* DriverInit returns nil / &kernel.Error{Message: msg} *)
  p_log : list chunk;                    (* what DriverInit writes to the io.Writer it is given *)
  p_font : bool;                         (* a console that implements console.FontSetter *)
  p_logo : bool                          (* a console that implements console.LogoSetter *)
}.

Record driver := mkDriver {
  d_id : N;
  d_order : Z;                           (* DriverInfo.Order (int8) *)
  d_probe : option probed                (* Probe() returns nil / a driver *)
}.

Inductive sink := SRing | STTY (t : N).  (* outputSink == nil (early ring buffer) / a terminal *)

Inductive event :=
| EvProbe (d : N)
| EvInit (d : N)
| EvAttach (t c : N)                     (* t.AttachTo(c) *)
| EvSetState (t s : N)                   (* t.SetState(s) *)
| EvWrite (t : N) (bytes : list N)       (* bytes handed to t.Write *)
| EvSetLogo (c : N)                      (* c.SetLogo(...) *)
| EvSetFont (c : N).                     (* c.SetFont(...) *)

Record hal := mkHal {
  h_ring : ring;                         (* kfmt.earlyPrintBuffer *)
  h_sink : sink;                         (* kfmt.outputSink *)
  h_console : option N;                  (* devices.activeConsole *)
  h_tty : option N;                      (* devices.activeTTY *)
  h_active : list N;                     (* devices.activeDrivers *)
  h_numbuf : list N;                     (* kfmt.numFmtBuf *)
  h_trace : list event;                  (* newest first *)
  h_logo_off : bool                      (* the boot command line says consoleLogo=off *)
}.

Definition set_ring st r := mkHal r (h_sink st) (h_console st) (h_tty st) (h_active st) (h_numbuf st) (h_trace st) (h_logo_off st).
Definition set_sink st s := mkHal (h_ring st) s (h_console st) (h_tty st) (h_active st) (h_numbuf st) (h_trace st) (h_logo_off st).
Definition set_console st c := mkHal (h_ring st) (h_sink st) c (h_tty st) (h_active st) (h_numbuf st) (h_trace st) (h_logo_off st).
Definition set_tty st t := mkHal (h_ring st) (h_sink st) (h_console st) t (h_active st) (h_numbuf st) (h_trace st) (h_logo_off st).
Definition set_active st a := mkHal (h_ring st) (h_sink st) (h_console st) (h_tty st) a (h_numbuf st) (h_trace st) (h_logo_off st).
Definition set_numbuf st b := mkHal (h_ring st) (h_sink st) (h_console st) (h_tty st) (h_active st) b (h_trace st) (h_logo_off st).
Definition log_event st e := mkHal (h_ring st) (h_sink st) (h_console st) (h_tty st) (h_active st) (h_numbuf st) (e :: h_trace st) (h_logo_off st).

(** Write calls [cs] arriving at sink [s] *)
Definition deliver (s : sink) (cs : list chunk) (st : hal) : outcome hal :=
  match s with
  | SRing => rb <- ring_write (h_ring st) (concat cs) ;; Ok (set_ring st rb)
  | STTY t => Ok (match concat cs with [] => st | b => log_event st (EvWrite t b) end)
  end.

(** kfmt.Fprintf(w, format, args...) where w's Write calls end up in [k] *)
Definition fprintf_to (format : list N) (args : list arg) (st : hal) : outcome (list chunk * hal) :=
  r <- fprintf format args (h_numbuf st) ;; Ok (fst r, set_numbuf st (snd r)).

(** kfmt.Printf(format, args...) *)
Definition printf (format : list N) (args : list arg) (st : hal) : outcome hal :=
  r <- fprintf_to format args st ;; deliver (h_sink (snd r)) (fst r) (snd r).

(** kfmt.SetOutputSink(t) for a terminal t *)
Definition set_output_sink (t : N) (st : hal) : outcome hal :=
  let st := set_sink st (STTY t) in
  r <- drain drain_fuel (h_ring st) ;;
  deliver (STTY t) (fst r) (set_ring st (snd r)).

(** linkTTYToConsole *)
Definition link (st : hal) : outcome hal :=
  match h_tty st, h_console st with
  | Some t, Some c =>
      let st := log_event st (EvAttach t c) in
      st <- set_output_sink t st ;;
      Ok (log_event st (EvSetState t 1))
  | _, _ => Panic NilDeref
  end.

(** the part of onConsoleInit between [devices.activeConsole = cons] and the link: a console that
    supports logos gets one unless the boot command line says consoleLogo=off; a console that supports
    fonts gets one (the font named by consoleFont= if it exists, else the best fit - which font is not
    modelled, only that SetFont is called once and the function goes on) *)
Definition console_setup (id : N) (p : probed) (st : hal) : hal :=
  let st := if p_logo p && negb (h_logo_off st) then log_event st (EvSetLogo id) else st in
  if p_font p then log_event st (EvSetFont id) else st.

(** onDriverInit / onConsoleInit *)
Definition on_driver_init (id : N) (p : probed) (st : hal) : outcome hal :=
  match p_kind p with
  | KConsole =>
      match h_console st with
      | Some _ => Ok st
      | None =>
          let st := console_setup id p (set_console st (Some id)) in
          match h_tty st with Some _ => link st | None => Ok st end
      end
  | KTTY =>
      match h_tty st with
      | Some _ => Ok st
      | None =>
          let st := set_tty st (Some id) in
          match h_console st with Some _ => link st | None => Ok st end
      end
  | KOther => Ok st
  end.

(** one iteration of the loop in probe(); [bap] is w.bytesAfterPrefix *)
Definition probe_one (d : driver) (st : hal) (bap : N) : outcome (hal * N) :=
  let st := log_event st (EvProbe (d_id d)) in
  match d_probe d with
  | None => Ok (st, bap)
  | Some p =>
      (* strBuf.Reset(); Fprintf(&strBuf, "[hal] %s(%d.%d.%d): ", ...); w.Prefix = strBuf.Bytes() *)
      r <- fprintf_to hal_prefixFmt [AStr (p_name p); AInt U16 (p_major p); AInt U16 (p_minor p); AInt U16 (p_patch p)] st ;;
      let prefix := concat (fst r) in
      let st := snd r in
      let snk := h_sink st in                                    (* w.Sink = kfmt.GetOutputSink() *)
      let st := log_event st (EvInit (d_id d)) in                (* drv.DriverInit(&w) *)
      let '(o1, bap1) := prefix_writes prefix bap (p_log p) in
      st <- deliver snk o1 st ;;
      match p_init_err p with
      | Some msg =>
          r2 <- fprintf_to hal_failFmt [AStr msg] st ;;
          let '(o2, bap2) := prefix_writes prefix bap1 (fst r2) in
          st <- deliver snk o2 (snd r2) ;;
          Ok (st, bap2)
      | None =>
          r2 <- fprintf_to hal_okFmt [] st ;;
          let '(o2, bap2) := prefix_writes prefix bap1 (fst r2) in
          st <- deliver snk o2 (snd r2) ;;
          st <- on_driver_init (d_id d) p st ;;
          Ok (set_active st (h_active st ++ [d_id d]), bap2)
      end
  end.

Fixpoint probe_all (ds : list driver) (st : hal) (bap : N) : outcome hal :=
  match ds with
  | [] => Ok st
  | d :: r => x <- probe_one d st bap ;; probe_all r (fst x) (snd x)
  end.

(** DetectHardware, given the outcome of sort.Sort: [var w kfmt.PrefixWriter] starts with bytesAfterPrefix = 0 *)
Definition detect_hardware (sorted_list : list driver) (st : hal) : outcome hal :=
  probe_all sorted_list st 0.

Definition init_hal : hal := mkHal empty_ring SRing None None [] init_buf [] false.
Definition set_logo_off st b := mkHal (h_ring st) (h_sink st) (h_console st) (h_tty st) (h_active st) (h_numbuf st) (h_trace st) b.

(** ---- scenario = log output before, DetectHardware, log output after ---- *)
Inductive logop :=
| LBytes (b : list N)        (* kfmt.Printf("%s", []byte) *)
| LStr (b : list N)          (* kfmt.Printf("%s", string) *)
| LNum (v : Z).              (* kfmt.Printf("%8d\n", int64) *)

Definition run_logop (o : logop) (st : hal) : outcome hal :=
  match o with
  | LBytes b => printf [37; 115] [ABytes b] st
  | LStr b => printf [37; 115] [AStr b] st
  | LNum v => printf [37; 56; 100; 10] [AInt I64 v] st
  end.

Fixpoint run_logops (os : list logop) (st : hal) : outcome hal :=
  match os with
  | [] => Ok st
  | o :: r => st' <- run_logop o st ;; run_logops r st'
  end.

Definition scenario (pre : list logop) (sorted_list : list driver) (post : list logop) (st : hal) : outcome hal :=
  st <- run_logops pre st ;;
  st <- detect_hardware sorted_list st ;;
  run_logops post st.

(** ---- what an observer sees ---- *)
Definition probes (tr : list event) : list N :=
  flat_map (fun e => match e with EvProbe d => [d] | _ => [] end) (rev tr).
Definition inits (tr : list event) : list N :=
  flat_map (fun e => match e with EvInit d => [d] | _ => [] end) (rev tr).
Definition attaches (tr : list event) : list (N * N) :=
  flat_map (fun e => match e with EvAttach t c => [(t, c)] | _ => [] end) (rev tr).
Definition states (tr : list event) : list (N * N) :=
  flat_map (fun e => match e with EvSetState t s => [(t, s)] | _ => [] end) (rev tr).
Definition tty_bytes (t : N) (tr : list event) : list N :=
  flat_map (fun e => match e with EvWrite t' b => if t' =? t then b else [] | _ => [] end) (rev tr).
Definition logos (tr : list event) : list N :=
  flat_map (fun e => match e with EvSetLogo c => [c] | _ => [] end) (rev tr).
Definition fonts (tr : list event) : list N :=
  flat_map (fun e => match e with EvSetFont c => [c] | _ => [] end) (rev tr).
Definition other_tty_bytes (t : option N) (tr : list event) : list N :=
  flat_map (fun e => match e with
                     | EvWrite t' b => match t with Some t0 => if t' =? t0 then [] else b | None => b end
                     | _ => [] end) (rev tr).

(** ---- flat encoding for the correspondence driver ----
    case    = fontopt(0 none, 1-3 an existing font, 4 unknown) logoopt(0 none, 1 consoleLogo=off, 2 other) logops(pre) drivers sorted logops(post)
    logops  = count ops ; op = 0 len bytes | 1 len bytes | 2 value(64-bit pattern)
    drivers = count drivers ; driver = order(8-bit pattern) probe_ok kind(0 console 1 tty 2 other 3 console+FontSetter 4 console+LogoSetter 5 console+both) name(len bytes)
              major minor patch init_ok msg(len bytes) nlog chunks(len bytes)
    sorted  = count indices   (the order in which sort.Sort leaves the registered drivers)
    obs     = probes(count ids) inits(count ids) activeTTY+1|0 activeConsole+1|0 activeDrivers(count ids)
              attaches(count, pairs t c) states(count, pairs t s) logos(count ids) fonts(count ids) sink(0 | t+1) sinkbytes(count bytes)
              otherTTYbytes(count) ring(count bytes)         | 0xffff on panic / out of fuel *)
Definition enc_list (l : list N) : list N := N.of_nat (length l) :: l.
Definition enc_pairs (l : list (N * N)) : list N := N.of_nat (length l) :: flat_map (fun p => [fst p; snd p]) l.
Definition enc_opt (o : option N) : list N := match o with Some x => [x + 1] | None => [0] end.

Definition sext (bits : Z) (v : N) : Z :=
  let m := (2 ^ bits)%Z in let u := (Z.of_N v mod m)%Z in if (u <? m / 2)%Z then u else (u - m)%Z.

Fixpoint dec_chunks (n : nat) (l : list N) : list chunk * list N :=
  match n with
  | O => ([], l)
  | S n' => let '(c, r) := take_list l in let '(cs, r') := dec_chunks n' r in (c :: cs, r')
  end.

Fixpoint dec_logops (n : nat) (l : list N) : list logop * list N :=
  match n with
  | O => ([], l)
  | S n' =>
      match l with
      | 0 :: r => let '(b, r1) := take_list r in let '(os, r2) := dec_logops n' r1 in (LBytes b :: os, r2)
      | 1 :: r => let '(b, r1) := take_list r in let '(os, r2) := dec_logops n' r1 in (LStr b :: os, r2)
      | _ :: v :: r => let '(os, r2) := dec_logops n' r in (LNum (sext 64 v) :: os, r2)
      | _ => ([], [])
      end
  end.

Definition dec_driver (id : N) (l : list N) : driver * list N :=
  match l with
  | order :: pok :: k :: r =>
      let '(name, r1) := take_list r in
      match r1 with
      | maj :: mi :: pa :: iok :: r2 =>
          let '(msg, r3) := take_list r2 in
          match r3 with
          | nlog :: r4 =>
              let '(log, r5) := dec_chunks (N.to_nat nlog) r4 in
              let kd := if (k =? 0) || (3 <=? k) then KConsole else if k =? 1 then KTTY else KOther in
              let p := mkProbed kd name (Z.of_N (w16 maj)) (Z.of_N (w16 mi)) (Z.of_N (w16 pa))
                                (if iok =? 0 then Some msg else None) log
                                ((k =? 3) || (5 <=? k)) ((k =? 4) || (5 <=? k)) in
              (mkDriver id (sext 8 order) (if pok =? 0 then None else Some p), r5)
          | [] => (mkDriver id 0 None, [])
          end
      | _ => (mkDriver id 0 None, [])
      end
  | _ => (mkDriver id 0 None, [])
  end.

Fixpoint dec_drivers (n : nat) (id : N) (l : list N) : list driver * list N :=
  match n with
  | O => ([], l)
  | S n' => let '(d, r) := dec_driver id l in let '(ds, r') := dec_drivers n' (id + 1) r in (d :: ds, r')
  end.

Definition count_of (l : list N) : nat * list N :=
  match l with [] => (O, []) | n :: r => (N.to_nat n, r) end.

Definition pick (ds : list driver) (i : N) : list driver :=
  match nth_error ds (N.to_nat i) with Some d => [d] | None => [] end.

Definition observe (st : hal) : list N :=
  let tr := h_trace st in
  enc_list (probes tr) ++ enc_list (inits tr) ++ enc_opt (h_tty st) ++ enc_opt (h_console st)
  ++ enc_list (h_active st) ++ enc_pairs (attaches tr) ++ enc_pairs (states tr) ++ enc_list (logos tr) ++ enc_list (fonts tr)
  ++ (match h_sink st with SRing => [0; 0] | STTY t => (t + 1) :: enc_list (tty_bytes t tr) end)
  ++ [N.of_nat (length (other_tty_bytes (match h_sink st with SRing => None | STTY t => Some t end) tr))]
  ++ (match drain drain_fuel (h_ring st) with
      | Ok (cs, _) => enc_list (concat cs)
      | _ => [0xffff]
      end).

Definition run_case (l : list N) : list N :=
  let logo_off := match l with _ :: 1 :: _ => true | _ => false end in
  let l := skipn 2 l in
  let '(n1, l1) := count_of l in
  let '(pre, l2) := dec_logops n1 l1 in
  let '(n2, l3) := count_of l2 in
  let '(regs, l4) := dec_drivers n2 0 l3 in
  let '(idx, l5) := take_list l4 in
  let sorted_list := flat_map (pick regs) idx in
  let '(n3, l6) := count_of l5 in
  let '(post, _) := dec_logops n3 l6 in
  match scenario pre sorted_list post (set_logo_off init_hal logo_off) with
  | Ok st => observe st
  | _ => [0xffff]
  end.
