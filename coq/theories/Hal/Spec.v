(** Sink-agnostic description of what device bring-up logs and which devices become active,
    used to state C16's [bringup] theorem.  Definitions only.

    [abs] forgets the ring buffer, the output sink and the call trace of Hal/Model.v: it keeps the
    active console / terminal / drivers and splits everything that is logged into [a_early]
    (logged while the console/terminal pair was not yet complete) and [a_later] (logged afterwards).
    It performs the same formatting steps (kfmt.Fprintf model, PrefixWriter model) as the model. *)
From Coq Require Import NArith ZArith List Bool.
From FF Require Import Lib.Word Gen.Consts_kfmt Gen.Hal_strings Kfmt.Fmt Kfmt.Ring Kfmt.Prefix Hal.Model.
Import ListNotations.
Local Open Scope N_scope.

Record abs := mkAbs {
  a_console : option N;
  a_tty : option N;
  a_active : list N;
  a_early : list N;
  a_later : list N;
  a_numbuf : list N
}.

Definition is_some {A} (o : option A) : bool := match o with Some _ => true | None => false end.
Definition linked (a : abs) : bool := is_some (a_console a) && is_some (a_tty a).

(** [b] is logged *)
Definition abs_log (a : abs) (b : list N) : abs :=
  if linked a
  then mkAbs (a_console a) (a_tty a) (a_active a) (a_early a) (a_later a ++ b) (a_numbuf a)
  else mkAbs (a_console a) (a_tty a) (a_active a) (a_early a ++ b) (a_later a) (a_numbuf a).

Definition abs_numbuf (a : abs) (nb : list N) : abs :=
  mkAbs (a_console a) (a_tty a) (a_active a) (a_early a) (a_later a) nb.

Definition abs_fprintf (format : list N) (args : list arg) (a : abs) : outcome (list chunk * abs) :=
  r <- fprintf format args (a_numbuf a) ;; Ok (fst r, abs_numbuf a (snd r)).

Definition abs_printf (format : list N) (args : list arg) (a : abs) : outcome abs :=
  r <- abs_fprintf format args a ;; Ok (abs_log (snd r) (concat (fst r))).

(** a driver of kind [k] initialised successfully: only the first console / terminal is kept *)
Definition abs_init_ok (id : N) (k : kind) (a : abs) : abs :=
  let a' :=
    match k with
    | KConsole => match a_console a with
                  | Some _ => a
                  | None => mkAbs (Some id) (a_tty a) (a_active a) (a_early a) (a_later a) (a_numbuf a)
                  end
    | KTTY => match a_tty a with
              | Some _ => a
              | None => mkAbs (a_console a) (Some id) (a_active a) (a_early a) (a_later a) (a_numbuf a)
              end
    | KOther => a
    end in
  mkAbs (a_console a') (a_tty a') (a_active a' ++ [id]) (a_early a') (a_later a') (a_numbuf a').

Definition abs_probe_one (d : driver) (a : abs) (bap : N) : outcome (abs * N) :=
  match d_probe d with
  | None => Ok (a, bap)
  | Some p =>
      r <- abs_fprintf hal_prefixFmt [AStr (p_name p); AInt U16 (p_major p); AInt U16 (p_minor p); AInt U16 (p_patch p)] a ;;
      let prefix := concat (fst r) in
      let '(o1, bap1) := prefix_writes prefix bap (p_log p) in
      let a := abs_log (snd r) (concat o1) in
      match p_init_err p with
      | Some msg =>
          r2 <- abs_fprintf hal_failFmt [AStr msg] a ;;
          let '(o2, bap2) := prefix_writes prefix bap1 (fst r2) in
          Ok (abs_log (snd r2) (concat o2), bap2)
      | None =>
          r2 <- abs_fprintf hal_okFmt [] a ;;
          let '(o2, bap2) := prefix_writes prefix bap1 (fst r2) in
          Ok (abs_init_ok (d_id d) (p_kind p) (abs_log (snd r2) (concat o2)), bap2)
      end
  end.

Fixpoint abs_probe_all (ds : list driver) (a : abs) (bap : N) : outcome abs :=
  match ds with
  | [] => Ok a
  | d :: r => x <- abs_probe_one d a bap ;; abs_probe_all r (fst x) (snd x)
  end.

Definition abs_logop (o : logop) (a : abs) : outcome abs :=
  match o with
  | LBytes b => abs_printf [37; 115] [ABytes b] a
  | LStr b => abs_printf [37; 115] [AStr b] a
  | LNum v => abs_printf [37; 56; 100; 10] [AInt I64 v] a
  end.

Fixpoint abs_logops (os : list logop) (a : abs) : outcome abs :=
  match os with
  | [] => Ok a
  | o :: r => a' <- abs_logop o a ;; abs_logops r a'
  end.

Definition abs_scenario (pre : list logop) (sorted_list : list driver) (post : list logop) (a : abs) : outcome abs :=
  a <- abs_logops pre a ;;
  a <- abs_probe_all sorted_list a 0 ;;
  abs_logops post a.

Definition init_abs : abs := mkAbs None None [] [] [] init_buf.

(** ---- which drivers come up ---- *)
Definition ok_kind (d : driver) : option kind :=
  match d_probe d with
  | Some p => match p_init_err p with None => Some (p_kind p) | Some _ => None end
  | None => None
  end.
Definition init_ok (d : driver) : bool := is_some (ok_kind d).
Definition is_console (d : driver) : bool := match ok_kind d with Some KConsole => true | _ => false end.
Definition is_tty (d : driver) : bool := match ok_kind d with Some KTTY => true | _ => false end.
Definition first_id (f : driver -> bool) (ds : list driver) : option N :=
  match find f ds with Some d => Some (d_id d) | None => None end.
