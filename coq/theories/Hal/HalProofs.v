(** Proofs for C16: the model of device bring-up (Hal/Model.v) refines the sink-agnostic
    description Hal/Spec.v, with the early ring buffer handing over exactly its newest bytes. *)
From Coq Require Import NArith ZArith List Bool Lia Permutation Sorted.
From Coq Require Import ZifyBool ZifyN ZifyNat.
From FF Require Import Lib.Word Gen.Consts_kfmt Gen.Hal_strings Kfmt.Fmt Kfmt.FmtSpec Kfmt.FmtProofs Kfmt.FmtScanProofs
  Kfmt.Ring Kfmt.RingProofs Kfmt.Prefix Kfmt.PrefixProofs Hal.Model Hal.Spec.
Import ListNotations.
Local Open Scope N_scope.

(** ---- observers of the trace, one event at a time ---- *)
Ltac obs_cons := intros; match goal with |- ?f _ = _ => unfold f end; cbn [rev]; rewrite flat_map_app; cbn [flat_map]; rewrite app_nil_r; reflexivity.

Lemma probes_cons e tr : probes (e :: tr) = probes tr ++ match e with EvProbe d => [d] | _ => [] end.
Proof. unfold probes. cbn [rev]. rewrite flat_map_app. cbn [flat_map]. rewrite app_nil_r. reflexivity. Qed.
Lemma inits_cons e tr : inits (e :: tr) = inits tr ++ match e with EvInit d => [d] | _ => [] end.
Proof. unfold inits. cbn [rev]. rewrite flat_map_app. cbn [flat_map]. rewrite app_nil_r. reflexivity. Qed.
Lemma attaches_cons e tr : attaches (e :: tr) = attaches tr ++ match e with EvAttach t c => [(t, c)] | _ => [] end.
Proof. unfold attaches. cbn [rev]. rewrite flat_map_app. cbn [flat_map]. rewrite app_nil_r. reflexivity. Qed.
Lemma states_cons e tr : states (e :: tr) = states tr ++ match e with EvSetState t s => [(t, s)] | _ => [] end.
Proof. unfold states. cbn [rev]. rewrite flat_map_app. cbn [flat_map]. rewrite app_nil_r. reflexivity. Qed.
Lemma tty_bytes_cons t e tr :
  tty_bytes t (e :: tr) = tty_bytes t tr ++ match e with EvWrite t' b => if t' =? t then b else [] | _ => [] end.
Proof. unfold tty_bytes. cbn [rev]. rewrite flat_map_app. cbn [flat_map]. rewrite app_nil_r. reflexivity. Qed.
Lemma other_cons o e tr :
  other_tty_bytes o (e :: tr) = other_tty_bytes o tr ++
    match e with
    | EvWrite t' b => match o with Some t0 => if t' =? t0 then [] else b | None => b end
    | _ => [] end.
Proof. unfold other_tty_bytes. cbn [rev]. rewrite flat_map_app. cbn [flat_map]. rewrite app_nil_r. reflexivity. Qed.

Lemma no_bytes_tty tr t : other_tty_bytes None tr = [] -> tty_bytes t tr = [] /\ other_tty_bytes (Some t) tr = [].
Proof.
  unfold other_tty_bytes, tty_bytes. induction (rev tr) as [|e l IH]; intros H; [split; reflexivity|].
  cbn [flat_map] in *. apply app_eq_nil in H. destruct H as [H1 H2]. destruct (IH H2) as [I1 I2].
  rewrite I1, I2. destruct e; try (split; reflexivity). subst bytes. destruct (t0 =? t); split; reflexivity.
Qed.

(** ---- the refinement relation ---- *)
Definition R (st : hal) (a : abs) : Prop :=
  valid (h_ring st) /\ length (h_numbuf st) = buf_len /\ h_numbuf st = a_numbuf a /\
  h_console st = a_console a /\ h_tty st = a_tty a /\ h_active st = a_active a /\
  match a_console a, a_tty a with
  | Some c, Some t =>
      h_sink st = STTY t /\ contents (h_ring st) = [] /\
      tty_bytes t (h_trace st) = lastn capacity (a_early a) ++ a_later a /\
      other_tty_bytes (Some t) (h_trace st) = [] /\
      attaches (h_trace st) = [(t, c)] /\ states (h_trace st) = [(t, 1)]
  | _, _ =>
      h_sink st = SRing /\ contents (h_ring st) = lastn capacity (a_early a) /\ a_later a = [] /\
      other_tty_bytes None (h_trace st) = [] /\ attaches (h_trace st) = [] /\ states (h_trace st) = []
  end.

(** calls on drivers are only added by probe_one itself *)
Definition same_calls (st st' : hal) : Prop :=
  probes (h_trace st') = probes (h_trace st) /\ inits (h_trace st') = inits (h_trace st).

Lemma same_calls_refl st : same_calls st st. Proof. split; reflexivity. Qed.
Lemma same_calls_trans a b c : same_calls a b -> same_calls b c -> same_calls a c.
Proof. intros [A1 A2] [B1 B2]. split; congruence. Qed.

Lemma deliver_R st a cs : R st a ->
  exists st', deliver (h_sink st) cs st = Ok st' /\ R st' (abs_log a (concat cs)) /\ same_calls st st'.
Proof.
  intros (Hv & Hl & Hnb & Hc & Ht & Hact & Hm).
  unfold abs_log, linked.
  destruct (a_console a) as [c|] eqn:Ec; destruct (a_tty a) as [t|] eqn:Et; cbn [is_some andb].
  - destruct Hm as (Hs & Hcont & Hb & Ho & Hat & Hst). rewrite Hs. cbn [deliver].
    destruct (concat cs) as [|x b] eqn:Eb.
    + exists st. split; [reflexivity|]. split; [|apply same_calls_refl].
      unfold R. cbn [a_console a_tty a_active a_early a_later a_numbuf]. rewrite ?Ec, ?Et, app_nil_r. tauto.
    + eexists. split; [reflexivity|]. split.
      * unfold R. cbn [log_event h_ring h_numbuf h_console h_tty h_active h_sink h_trace a_console a_tty a_active a_early a_later a_numbuf].
        rewrite ?Ec, ?Et. repeat split; try assumption; try (destruct Hv; assumption).
        -- rewrite tty_bytes_cons, N.eqb_refl, Hb, app_assoc. reflexivity.
        -- rewrite other_cons, N.eqb_refl, Ho. reflexivity.
        -- rewrite attaches_cons, Hat. apply app_nil_r.
        -- rewrite states_cons, Hst. apply app_nil_r.
      * split; cbn [log_event h_trace]; [rewrite probes_cons | rewrite inits_cons]; apply app_nil_r.
  - destruct Hm as (Hs & Hcont & Hlat & Ho & Hat & Hst). rewrite Hs. cbn [deliver].
    destruct (write_spec (concat cs) (h_ring st) Hv) as [rb [Ew [Hv' Hc']]]. rewrite Ew. cbn [bind].
    eexists. split; [reflexivity|]. split; [|split; reflexivity].
    unfold R. cbn [set_ring h_ring h_numbuf h_console h_tty h_active h_sink h_trace a_console a_tty a_active a_early a_later a_numbuf].
    rewrite ?Ec, ?Et. repeat split; try assumption; try (destruct Hv'; assumption).
    rewrite Hc', Hcont. apply lastn_lastn_app.
  - destruct Hm as (Hs & Hcont & Hlat & Ho & Hat & Hst). rewrite Hs. cbn [deliver].
    destruct (write_spec (concat cs) (h_ring st) Hv) as [rb [Ew [Hv' Hc']]]. rewrite Ew. cbn [bind].
    eexists. split; [reflexivity|]. split; [|split; reflexivity].
    unfold R. cbn [set_ring h_ring h_numbuf h_console h_tty h_active h_sink h_trace a_console a_tty a_active a_early a_later a_numbuf].
    rewrite ?Ec, ?Et. repeat split; try assumption; try (destruct Hv'; assumption).
    rewrite Hc', Hcont. apply lastn_lastn_app.
  - destruct Hm as (Hs & Hcont & Hlat & Ho & Hat & Hst). rewrite Hs. cbn [deliver].
    destruct (write_spec (concat cs) (h_ring st) Hv) as [rb [Ew [Hv' Hc']]]. rewrite Ew. cbn [bind].
    eexists. split; [reflexivity|]. split; [|split; reflexivity].
    unfold R. cbn [set_ring h_ring h_numbuf h_console h_tty h_active h_sink h_trace a_console a_tty a_active a_early a_later a_numbuf].
    rewrite ?Ec, ?Et. repeat split; try assumption; try (destruct Hv'; assumption).
    rewrite Hc', Hcont. apply lastn_lastn_app.
Qed.

Lemma R_numbuf st a nb : R st a -> length nb = buf_len -> R (set_numbuf st nb) (abs_numbuf a nb).
Proof.
  intros (Hv & Hl & Hnb & Hc & Ht & Hact & Hm) Hlen. unfold R.
  cbn [set_numbuf abs_numbuf h_ring h_numbuf h_console h_tty h_active h_sink h_trace a_console a_tty a_active a_early a_later a_numbuf].
  repeat split; try assumption; try (destruct Hv; assumption).
Qed.

Lemma fprintf_to_R format args st a : R st a ->
  exists cs nb, fprintf_to format args st = Ok (cs, set_numbuf st nb) /\
                abs_fprintf format args a = Ok (cs, abs_numbuf a nb) /\ R (set_numbuf st nb) (abs_numbuf a nb).
Proof.
  intros HR. pose proof HR as (Hv & Hl & Hnb & _).
  destruct (fprintf_total format args (h_numbuf st) Hl) as [r [Er Hr]].
  exists (fst r), (snd r). unfold fprintf_to, abs_fprintf. rewrite <- Hnb, Er. cbn [bind].
  split; [reflexivity|]. split; [reflexivity|]. apply R_numbuf; assumption.
Qed.

Lemma printf_R format args st a : R st a ->
  exists st' a', printf format args st = Ok st' /\ abs_printf format args a = Ok a' /\ R st' a' /\ same_calls st st'.
Proof.
  intros HR. destruct (fprintf_to_R format args st a HR) as [cs [nb [E1 [E2 HR']]]].
  unfold printf, abs_printf. rewrite E1, E2. cbn [bind fst snd].
  destruct (deliver_R _ _ cs HR') as [st' [Ed [HR'' Hs]]].
  exists st', (abs_log (abs_numbuf a nb) (concat cs)). split; [exact Ed|]. split; [reflexivity|]. split; [exact HR''|].
  destruct Hs as [S1 S2]. split; [exact S1|exact S2].
Qed.

(** ---- the hand-over ---- *)
Lemma link_spec st t c early :
  valid (h_ring st) -> h_tty st = Some t -> h_console st = Some c ->
  contents (h_ring st) = early -> other_tty_bytes None (h_trace st) = [] ->
  attaches (h_trace st) = [] -> states (h_trace st) = [] ->
  exists st', link st = Ok st' /\
    valid (h_ring st') /\ contents (h_ring st') = [] /\ h_sink st' = STTY t /\
    h_tty st' = Some t /\ h_console st' = Some c /\ h_active st' = h_active st /\ h_numbuf st' = h_numbuf st /\
    tty_bytes t (h_trace st') = early /\ other_tty_bytes (Some t) (h_trace st') = [] /\
    attaches (h_trace st') = [(t, c)] /\ states (h_trace st') = [(t, 1)] /\ same_calls st st'.
Proof.
  intros Hv Ht Hc Hcont Ho Hat Hst. unfold link. rewrite Ht, Hc.
  unfold set_output_sink. cbn [set_sink log_event h_ring].
  destruct (drain_spec (h_ring st) Hv) as [cs [rb [Ed [Hcs [Hv' [He _]]]]]].
  rewrite Ed. cbn [bind fst snd deliver].
  destruct (no_bytes_tty (h_trace st) t Ho) as [Hb1 Hb2].
  destruct (concat cs) as [|x b] eqn:Eb; cbn [bind].
  - eexists. split; [reflexivity|].
    cbn [log_event set_ring h_ring h_sink h_tty h_console h_active h_numbuf h_trace].
    repeat split; try assumption; try reflexivity; try (destruct Hv'; assumption).
    all: cbn [set_sink log_event set_ring h_trace].
    + rewrite !tty_bytes_cons, Hb1. cbn [app]. rewrite <- Hcont, <- Hcs. reflexivity.
    + rewrite !other_cons, Hb2. reflexivity.
    + rewrite !attaches_cons, Hat. reflexivity.
    + rewrite !states_cons, Hst. reflexivity.
    + rewrite !probes_cons. cbn [app]. rewrite !app_nil_r. reflexivity.
    + rewrite !inits_cons. cbn [app]. rewrite !app_nil_r. reflexivity.
  - eexists. split; [reflexivity|].
    cbn [log_event set_ring h_ring h_sink h_tty h_console h_active h_numbuf h_trace].
    repeat split; try assumption; try reflexivity; try (destruct Hv'; assumption).
    all: cbn [set_sink log_event set_ring h_trace].
    + rewrite !tty_bytes_cons, Hb1, N.eqb_refl. cbn [app]. rewrite app_nil_r, <- Hcont, <- Hcs. reflexivity.
    + rewrite !other_cons, Hb2, N.eqb_refl. reflexivity.
    + rewrite !attaches_cons, Hat. reflexivity.
    + rewrite !states_cons, Hst. reflexivity.
    + rewrite !probes_cons. cbn [app]. rewrite !app_nil_r. reflexivity.
    + rewrite !inits_cons. cbn [app]. rewrite !app_nil_r. reflexivity.
Qed.

Lemma console_setup_facts id p st :
  let st' := console_setup id p st in
  h_ring st' = h_ring st /\ h_sink st' = h_sink st /\ h_console st' = h_console st /\ h_tty st' = h_tty st /\
  h_active st' = h_active st /\ h_numbuf st' = h_numbuf st /\ same_calls st st' /\
  (forall o, other_tty_bytes o (h_trace st') = other_tty_bytes o (h_trace st)) /\
  attaches (h_trace st') = attaches (h_trace st) /\ states (h_trace st') = states (h_trace st).
Proof.
  unfold console_setup, same_calls.
  destruct (p_logo p && negb (h_logo_off st)); destruct (p_font p);
    cbn [log_event h_ring h_sink h_console h_tty h_active h_numbuf h_trace];
    repeat split; try reflexivity; intros;
    rewrite ?probes_cons, ?inits_cons, ?other_cons, ?attaches_cons, ?states_cons; cbn [app]; rewrite ?app_nil_r; reflexivity.
Qed.

Lemma init_ok_R id p st a : R st a ->
  exists st', (st2 <- on_driver_init id p st ;; Ok (set_active st2 (h_active st2 ++ [id]))) = Ok st' /\
              R st' (abs_init_ok id (p_kind p) a) /\ same_calls st st'.
Proof.
  intros (Hv & Hl & Hnb & Hc & Ht & Hact & Hm).
  assert (Hsame : forall a', a_console a' = a_console a -> a_tty a' = a_tty a -> a_early a' = a_early a ->
            a_later a' = a_later a -> a_numbuf a' = a_numbuf a -> a_active a' = a_active a ++ [id] ->
            R (set_active st (h_active st ++ [id])) a').
  { intros a' E1 E2 E3 E4 E5 E6. unfold R.
    cbn [set_active h_ring h_numbuf h_console h_tty h_active h_sink h_trace].
    rewrite E1, E2, E3, E4, E5, E6, Hact. repeat split; try assumption; try (destruct Hv; assumption). }
  unfold on_driver_init, abs_init_ok. destruct (p_kind p).
  - (* console *)
    rewrite Hc. destruct (a_console a) as [c|] eqn:Ec.
    + cbn [bind]. eexists. split; [reflexivity|]. split; [|split; reflexivity]. apply Hsame; cbn; congruence.
    + destruct Hm as (Hs & Hcont & Hlat & Ho & Hat & Hst).
      destruct (console_setup_facts id p (set_console st (Some id))) as (F1 & F2 & F3 & F4 & F5 & F6 & F7 & F8 & F9 & F10).
      set (stc := console_setup id p (set_console st (Some id))) in *.
      cbn [set_console h_ring h_sink h_console h_tty h_active h_numbuf h_trace] in F1, F2, F3, F4, F5, F6, F8, F9, F10.
      assert (F7' : same_calls st stc) by exact F7.
      rewrite F4, Ht. destruct (a_tty a) as [t|] eqn:Et.
      * assert (Hvc : valid (h_ring stc)) by (rewrite F1; exact Hv).
        assert (Htc : h_tty stc = Some t) by (rewrite F4; exact Ht).
        assert (Hcc : contents (h_ring stc) = lastn capacity (a_early a)) by (rewrite F1; exact Hcont).
        assert (Hoc : other_tty_bytes None (h_trace stc) = []) by (rewrite F8; exact Ho).
        assert (Hatc : attaches (h_trace stc) = []) by (rewrite F9; exact Hat).
        assert (Hstc : states (h_trace stc) = []) by (rewrite F10; exact Hst).
        destruct (link_spec stc t id (lastn capacity (a_early a)) Hvc Htc F3 Hcc Hoc Hatc Hstc)
          as [st' (El & Hv' & Hc' & Hs' & Ht' & Hco' & Ha' & Hn' & Hb' & Ho' & Hat' & Hst' & Hsc')].
        rewrite El. cbn [bind]. eexists. split; [reflexivity|]. split.
        -- unfold R. cbn [set_active h_ring h_numbuf h_console h_tty h_active h_sink h_trace
                          a_console a_tty a_active a_early a_later a_numbuf] in *.
           rewrite Hlat, app_nil_r, Ha', Hn', F5, F6.
           repeat split; try assumption; try (destruct Hv'; assumption); congruence.
        -- eapply same_calls_trans; [exact F7'|]. destruct Hsc' as [S1 S2]. split; [exact S1|exact S2].
      * cbn [bind]. eexists. split; [reflexivity|]. split.
        -- unfold R. cbn [set_active h_ring h_numbuf h_console h_tty h_active h_sink h_trace
                          a_console a_tty a_active a_early a_later a_numbuf].
           rewrite F1, F2, F3, F4, F5, F6, F8, F9, F10.
           repeat split; try assumption; try (destruct Hv; assumption); congruence.
        -- destruct F7' as [S1 S2]. split; [exact S1|exact S2].
  - (* terminal *)
    rewrite Ht. destruct (a_tty a) as [t|] eqn:Et.
    + cbn [bind]. eexists. split; [reflexivity|]. split; [|split; reflexivity]. apply Hsame; cbn; congruence.
    + assert (Hm' : h_sink st = SRing /\ contents (h_ring st) = lastn capacity (a_early a) /\ a_later a = [] /\
                    other_tty_bytes None (h_trace st) = [] /\ attaches (h_trace st) = [] /\ states (h_trace st) = [])
        by (destruct (a_console a); exact Hm).
      destruct Hm' as (Hs & Hcont & Hlat & Ho & Hat & Hst).
      cbn [set_tty h_console]. rewrite Hc. destruct (a_console a) as [c|] eqn:Ec.
      * destruct (link_spec (set_tty st (Some id)) id c (lastn capacity (a_early a)) Hv eq_refl Hc Hcont Ho Hat Hst)
          as [st' (El & Hv' & Hc' & Hs' & Ht' & Hco' & Ha' & Hn' & Hb' & Ho' & Hat' & Hst' & Hsc')].
        rewrite El. cbn [bind]. eexists. split; [reflexivity|]. split.
        -- unfold R. cbn [set_active set_tty h_ring h_numbuf h_console h_tty h_active h_sink h_trace
                          a_console a_tty a_active a_early a_later a_numbuf] in *.
           rewrite Hlat, app_nil_r, Ha', Hn'. cbn [set_tty h_active h_numbuf].
           repeat split; try assumption; try (destruct Hv'; assumption); congruence.
        -- exact Hsc'.
      * cbn [bind]. eexists. split; [reflexivity|]. split; [|split; reflexivity].
        unfold R. cbn [set_active set_tty h_ring h_numbuf h_console h_tty h_active h_sink h_trace
                       a_console a_tty a_active a_early a_later a_numbuf].
        repeat split; try assumption; try (destruct Hv; assumption); congruence.
  - cbn [bind]. eexists. split; [reflexivity|]. split; [|split; reflexivity]. apply Hsame; reflexivity.
Qed.

Lemma deliver_sink s cs st st' : deliver s cs st = Ok st' -> h_sink st' = h_sink st.
Proof.
  unfold deliver. destruct s.
  - destruct (ring_write (h_ring st) (concat cs)); cbn [bind]; intros H; inversion H; reflexivity.
  - destruct (concat cs); intros H; inversion H; reflexivity.
Qed.

Lemma R_call st a e : (match e with EvProbe _ | EvInit _ | EvSetLogo _ | EvSetFont _ => True | _ => False end) -> R st a -> R (log_event st e) a.
Proof.
  intros He (Hv & Hl & Hnb & Hc & Ht & Hact & Hm). unfold R.
  cbn [log_event h_ring h_numbuf h_console h_tty h_active h_sink h_trace].
  repeat split; try assumption; try (destruct Hv; assumption).
  assert (Ht1 : forall t, tty_bytes t (e :: h_trace st) = tty_bytes t (h_trace st))
    by (intros t; rewrite tty_bytes_cons; destruct e; try contradiction; apply app_nil_r).
  assert (Ht2 : forall o, other_tty_bytes o (e :: h_trace st) = other_tty_bytes o (h_trace st))
    by (intros o; rewrite other_cons; destruct e; try contradiction; apply app_nil_r).
  assert (Ht3 : attaches (e :: h_trace st) = attaches (h_trace st))
    by (rewrite attaches_cons; destruct e; try contradiction; apply app_nil_r).
  assert (Ht4 : states (e :: h_trace st) = states (h_trace st))
    by (rewrite states_cons; destruct e; try contradiction; apply app_nil_r).
  destruct (a_console a), (a_tty a); rewrite ?Ht1, !Ht2, Ht3, Ht4; exact Hm.
Qed.

Lemma probe_one_R d st a bap : R st a ->
  exists st' a' bap', probe_one d st bap = Ok (st', bap') /\ abs_probe_one d a bap = Ok (a', bap') /\ R st' a' /\
    probes (h_trace st') = probes (h_trace st) ++ [d_id d] /\
    inits (h_trace st') = inits (h_trace st) ++ (match d_probe d with Some _ => [d_id d] | None => [] end).
Proof.
  intros HR. unfold probe_one, abs_probe_one.
  pose proof (R_call st a (EvProbe (d_id d)) I HR) as HR1.
  set (st1 := log_event st (EvProbe (d_id d))) in *.
  assert (Hp1 : probes (h_trace st1) = probes (h_trace st) ++ [d_id d]) by (unfold st1; cbn [log_event h_trace]; apply probes_cons).
  assert (Hi1 : inits (h_trace st1) = inits (h_trace st)) by (unfold st1; cbn [log_event h_trace]; rewrite inits_cons; apply app_nil_r).
  destruct (d_probe d) as [p|].
  2:{ exists st1, a, bap. split; [reflexivity|]. split; [reflexivity|]. split; [exact HR1|]. split; [exact Hp1|]. rewrite app_nil_r. exact Hi1. }
  destruct (fprintf_to_R hal_prefixFmt [AStr (p_name p); AInt U16 (p_major p); AInt U16 (p_minor p); AInt U16 (p_patch p)] st1 a HR1)
    as [cs [nb [E1 [E2 HR2]]]].
  rewrite E1, E2. cbn [bind fst snd].
  destruct (prefix_writes (concat cs) bap (p_log p)) as [o1 bap1] eqn:Ew1.
  pose proof (R_call _ _ (EvInit (d_id d)) I HR2) as HR3.
  set (st3 := log_event (set_numbuf st1 nb) (EvInit (d_id d))) in *.
  assert (Hp3 : probes (h_trace st3) = probes (h_trace st) ++ [d_id d])
    by (unfold st3; cbn [log_event set_numbuf h_trace]; rewrite probes_cons, app_nil_r; exact Hp1).
  assert (Hi3 : inits (h_trace st3) = inits (h_trace st) ++ [d_id d])
    by (unfold st3; cbn [log_event set_numbuf h_trace]; rewrite inits_cons; f_equal; exact Hi1).
  destruct (deliver_R st3 _ o1 HR3) as [st4 [Ed4 [HR4 [Sp4 Si4]]]].
  change (h_sink (set_numbuf st1 nb)) with (h_sink st3). rewrite Ed4. cbn [bind].
  pose proof (deliver_sink _ _ _ _ Ed4) as Hsk4.
  destruct (p_init_err p) as [msg|].
  - destruct (fprintf_to_R hal_failFmt [AStr msg] st4 _ HR4) as [cs2 [nb2 [F1 [F2 HR5]]]].
    rewrite F1, F2. cbn [bind fst snd].
    destruct (prefix_writes (concat cs) bap1 cs2) as [o2 bap2] eqn:Ew2.
    destruct (deliver_R (set_numbuf st4 nb2) _ o2 HR5) as [st6 [Ed6 [HR6 [Sp6 Si6]]]].
    change (h_sink (set_numbuf st4 nb2)) with (h_sink st4) in Ed6. rewrite Hsk4 in Ed6. rewrite Ed6. cbn [bind].
    eexists _, _, _. split; [reflexivity|]. split; [reflexivity|]. split; [exact HR6|].
    cbn [set_numbuf h_trace] in Sp6, Si6. split; congruence.
  - destruct (fprintf_to_R hal_okFmt [] st4 _ HR4) as [cs2 [nb2 [F1 [F2 HR5]]]].
    rewrite F1, F2. cbn [bind fst snd].
    destruct (prefix_writes (concat cs) bap1 cs2) as [o2 bap2] eqn:Ew2.
    destruct (deliver_R (set_numbuf st4 nb2) _ o2 HR5) as [st6 [Ed6 [HR6 [Sp6 Si6]]]].
    change (h_sink (set_numbuf st4 nb2)) with (h_sink st4) in Ed6. rewrite Hsk4 in Ed6. rewrite Ed6. cbn [bind].
    destruct (init_ok_R (d_id d) p st6 _ HR6) as [st7 [E7 [HR7 [Sp7 Si7]]]].
    destruct (on_driver_init (d_id d) p st6) as [st6'| |] eqn:Eo; cbn [bind] in E7; try discriminate.
    inversion E7; subst st7. cbn [bind].
    eexists _, _, _. split; [reflexivity|]. split; [reflexivity|]. split; [exact HR7|].
    cbn [set_numbuf h_trace] in Sp6, Si6. split; congruence.
Qed.

Lemma probe_all_R ds : forall st a bap, R st a ->
  exists st' a', probe_all ds st bap = Ok st' /\ abs_probe_all ds a bap = Ok a' /\ R st' a' /\
    probes (h_trace st') = probes (h_trace st) ++ map d_id ds /\
    inits (h_trace st') = inits (h_trace st) ++ map d_id (filter (fun d => is_some (d_probe d)) ds).
Proof.
  induction ds as [|d ds IH]; intros st a bap HR.
  - exists st, a. cbn [probe_all abs_probe_all map filter]. rewrite !app_nil_r. auto.
  - destruct (probe_one_R d st a bap HR) as [st1 [a1 [bap1 [E1 [E2 [HR1 [Hp1 Hi1]]]]]]].
    destruct (IH st1 a1 bap1 HR1) as [st2 [a2 [F1 [F2 [HR2 [Hp2 Hi2]]]]]].
    exists st2, a2. cbn [probe_all abs_probe_all]. rewrite E1, E2. cbn [bind fst snd].
    split; [exact F1|]. split; [exact F2|]. split; [exact HR2|]. split.
    + rewrite Hp2, Hp1, <- app_assoc. reflexivity.
    + rewrite Hi2, Hi1, <- app_assoc. cbn [filter map]. destruct (d_probe d); reflexivity.
Qed.

Lemma logops_R os : forall st a, R st a ->
  exists st' a', run_logops os st = Ok st' /\ abs_logops os a = Ok a' /\ R st' a' /\ same_calls st st'.
Proof.
  induction os as [|o os IH]; intros st a HR.
  - exists st, a. split; [reflexivity|]. split; [reflexivity|]. split; [exact HR|apply same_calls_refl].
  - assert (H1 : exists st1 a1, run_logop o st = Ok st1 /\ abs_logop o a = Ok a1 /\ R st1 a1 /\ same_calls st st1).
    { destruct o; apply printf_R; exact HR. }
    destruct H1 as [st1 [a1 [E1 [E2 [HR1 S1]]]]].
    destruct (IH st1 a1 HR1) as [st2 [a2 [F1 [F2 [HR2 S2]]]]].
    exists st2, a2. cbn [run_logops abs_logops]. rewrite E1, E2. cbn [bind].
    split; [exact F1|]. split; [exact F2|]. split; [exact HR2|]. eapply same_calls_trans; eassumption.
Qed.

Lemma scenario_R pre ds post st a : R st a ->
  exists st' a', scenario pre ds post st = Ok st' /\ abs_scenario pre ds post a = Ok a' /\ R st' a' /\
    probes (h_trace st') = probes (h_trace st) ++ map d_id ds /\
    inits (h_trace st') = inits (h_trace st) ++ map d_id (filter (fun d => is_some (d_probe d)) ds).
Proof.
  intros HR. unfold scenario, abs_scenario, detect_hardware.
  destruct (logops_R pre st a HR) as [st1 [a1 [E1 [E2 [HR1 [Sp1 Si1]]]]]].
  destruct (probe_all_R ds st1 a1 0 HR1) as [st2 [a2 [F1 [F2 [HR2 [Hp2 Hi2]]]]]].
  destruct (logops_R post st2 a2 HR2) as [st3 [a3 [G1 [G2 [HR3 [Sp3 Si3]]]]]].
  exists st3, a3. rewrite E1, E2. cbn [bind]. rewrite F1, F2. cbn [bind].
  split; [exact G1|]. split; [exact G2|]. split; [exact HR3|]. split; congruence.
Qed.

Lemma R_init b : R (set_logo_off init_hal b) init_abs.
Proof.
  unfold R, init_hal, init_abs, set_logo_off. cbn. repeat split; try reflexivity.
Qed.

(** ---- who becomes active (facts about the sink-agnostic description) ---- *)
Definition core (a : abs) := (a_console a, a_tty a, a_active a).

Lemma core_log a b : core (abs_log a b) = core a.
Proof. unfold abs_log. destruct (linked a); reflexivity. Qed.

Lemma core_fprintf f args a cs a' : abs_fprintf f args a = Ok (cs, a') -> core a' = core a.
Proof.
  unfold abs_fprintf. destruct (fprintf f args (a_numbuf a)); cbn [bind]; intros H; inversion H. reflexivity.
Qed.

Lemma core_printf f args a a' : abs_printf f args a = Ok a' -> core a' = core a.
Proof.
  unfold abs_printf. destruct (abs_fprintf f args a) as [[cs a1]| |] eqn:E; cbn [bind]; intros H; inversion H.
  cbn [fst snd]. rewrite core_log. eapply core_fprintf. exact E.
Qed.

Lemma core_logops os : forall a a', abs_logops os a = Ok a' -> core a' = core a.
Proof.
  induction os as [|o os IH]; intros a a' H; cbn [abs_logops] in H.
  - inversion H. reflexivity.
  - destruct (abs_logop o a) as [a1| |] eqn:E; cbn [bind] in H; try discriminate.
    rewrite (IH _ _ H). destruct o; eapply core_printf; exact E.
Qed.

Definition keep_first (o : option N) (b : bool) (id : N) : option N :=
  match o with Some c => Some c | None => if b then Some id else None end.

Lemma probe_one_core d a bap a1 bap1 : abs_probe_one d a bap = Ok (a1, bap1) ->
  core a1 = (keep_first (a_console a) (is_console d) (d_id d), keep_first (a_tty a) (is_tty d) (d_id d),
             a_active a ++ (if init_ok d then [d_id d] else [])).
Proof.
  unfold abs_probe_one, is_console, is_tty, init_ok, ok_kind.
  destruct (d_probe d) as [p|].
  2:{ intros H. inversion H. unfold core, keep_first. cbn [is_some]. rewrite app_nil_r.
      destruct (a_console a1), (a_tty a1); reflexivity. }
  destruct (abs_fprintf hal_prefixFmt _ a) as [[cs a2]| |] eqn:E1; cbn [bind]; try discriminate.
  cbn [fst snd]. destruct (prefix_writes (concat cs) bap (p_log p)) as [o1 b1].
  pose proof (core_fprintf _ _ _ _ _ E1) as C1.
  destruct (p_init_err p) as [msg|].
  - destruct (abs_fprintf hal_failFmt _ _) as [[cs2 a3]| |] eqn:E2; cbn [bind]; try discriminate.
    cbn [fst snd]. destruct (prefix_writes (concat cs) b1 cs2) as [o2 b2]. intros H. injection H as Ha Hb. subst a1.
    pose proof (core_fprintf _ _ _ _ _ E2) as C2. rewrite core_log, C2, core_log, C1.
    unfold core, keep_first. cbn [is_some]. rewrite app_nil_r. destruct (a_console a), (a_tty a); reflexivity.
  - destruct (abs_fprintf hal_okFmt _ _) as [[cs2 a3]| |] eqn:E2; cbn [bind]; try discriminate.
    cbn [fst snd]. destruct (prefix_writes (concat cs) b1 cs2) as [o2 b2]. intros H. injection H as Ha Hb. subst a1.
    pose proof (core_fprintf _ _ _ _ _ E2) as C2. rewrite core_log in C2.
    assert (C3 : core (abs_log a3 (concat o2)) = core a) by (rewrite core_log, C2, C1; reflexivity).
    unfold core in C3. inversion C3 as [[K1 K2 K3]].
    unfold abs_init_ok, core, keep_first. cbn [is_some].
    destruct (p_kind p); cbn [a_console a_tty a_active].
    + rewrite K1. destruct (a_console a); cbn [a_console a_tty a_active]; rewrite ?K1, ?K2, ?K3;
        destruct (a_tty a); reflexivity.
    + rewrite K2. destruct (a_tty a); cbn [a_console a_tty a_active]; rewrite ?K1, ?K2, ?K3;
        destruct (a_console a); reflexivity.
    + rewrite K1, K2, K3. destruct (a_console a), (a_tty a); reflexivity.
Qed.

Lemma probe_all_core ds : forall a bap a', abs_probe_all ds a bap = Ok a' ->
  core a' = (match a_console a with Some c => Some c | None => first_id is_console ds end,
             match a_tty a with Some t => Some t | None => first_id is_tty ds end,
             a_active a ++ map d_id (filter init_ok ds)).
Proof.
  induction ds as [|d ds IH]; intros a bap a' H; cbn [abs_probe_all] in H.
  - inversion H. unfold core, first_id. cbn [find filter map]. rewrite app_nil_r.
    destruct (a_console a'), (a_tty a'); reflexivity.
  - destruct (abs_probe_one d a bap) as [[a1 bap1]| |] eqn:E; cbn [bind] in H; try discriminate.
    cbn [fst snd] in H. rewrite (IH _ _ _ H).
    pose proof (probe_one_core _ _ _ _ _ E) as C. unfold core in C. inversion C as [[K1 K2 K3]].
    rewrite K1, K2, K3. unfold keep_first, first_id. cbn [find filter].
    f_equal; [f_equal|].
    + destruct (a_console a); [reflexivity|]. destruct (is_console d); reflexivity.
    + destruct (a_tty a); [reflexivity|]. destruct (is_tty d); reflexivity.
    + rewrite <- app_assoc. destruct (init_ok d); reflexivity.
Qed.

Lemma scenario_core pre ds post a : abs_scenario pre ds post init_abs = Ok a ->
  a_console a = first_id is_console ds /\ a_tty a = first_id is_tty ds /\ a_active a = map d_id (filter init_ok ds).
Proof.
  unfold abs_scenario. intros H.
  destruct (abs_logops pre init_abs) as [a1| |] eqn:E1; cbn [bind] in H; try discriminate.
  destruct (abs_probe_all ds a1 0) as [a2| |] eqn:E2; cbn [bind] in H; try discriminate.
  pose proof (core_logops _ _ _ E1) as C1. pose proof (probe_all_core _ _ _ _ E2) as C2. pose proof (core_logops _ _ _ H) as C3.
  unfold core in *. cbn [init_abs a_console a_tty a_active] in C1. injection C1 as K1 K2 K3.
  rewrite K1, K2, K3 in C2. cbn [app] in C2. rewrite C2 in C3. injection C3 as L1 L2 L3. auto.
Qed.

Lemma failed_never_active ds (d : driver) :
  NoDup (map d_id ds) -> In d ds -> init_ok d = false -> ~ In (d_id d) (map d_id (filter init_ok ds)).
Proof.
  induction ds as [|x ds IH]; intros Hnd Hin Hf; [destruct Hin|].
  cbn [map] in Hnd. inversion Hnd as [|? ? Hnotin Hnd']; subst. cbn [filter].
  destruct Hin as [->|Hin].
  - rewrite Hf. intros H. apply Hnotin. apply in_map_iff in H. destruct H as [y [Ey Hy]].
    apply filter_In in Hy. destruct Hy as [Hy _]. rewrite <- Ey. apply in_map. exact Hy.
  - destruct (init_ok x) eqn:Ex.
    + cbn [map]. intros [E|H]; [|exact (IH Hnd' Hin Hf H)].
      apply Hnotin. rewrite E. apply in_map. exact Hin.
    + exact (IH Hnd' Hin Hf).
Qed.

(** ---- the whole bring-up ---- *)
Lemma bringup b pre ds post :
  exists st a,
    scenario pre ds post (set_logo_off init_hal b) = Ok st /\ abs_scenario pre ds post init_abs = Ok a /\ R st a /\
    probes (h_trace st) = map d_id ds /\
    inits (h_trace st) = map d_id (filter (fun d => is_some (d_probe d)) ds) /\
    a_console a = first_id is_console ds /\ a_tty a = first_id is_tty ds /\
    a_active a = map d_id (filter init_ok ds).
Proof.
  destruct (scenario_R pre ds post (set_logo_off init_hal b) init_abs (R_init b)) as [st [a [E1 [E2 [HR [Hp Hi]]]]]].
  exists st, a. split; [exact E1|]. split; [exact E2|]. split; [exact HR|].
  split; [exact Hp|]. split; [exact Hi|]. apply (scenario_core pre ds post a E2).
Qed.

Lemma ring_boot : valid empty_ring /\ contents empty_ring = [] /\ capacity = N.to_nat (kfmt_ringBufferSize - 1).
Proof. split; [exact valid_empty|]. split; reflexivity. Qed.

Lemma probe_order :
  forall (logo_off : bool) (registered sorted_list : list driver) (pre post : list logop),
    Permutation registered sorted_list ->
    Sorted (fun a b => (d_order a <= d_order b)%Z) sorted_list ->
    exists st probed,
      scenario pre sorted_list post (set_logo_off init_hal logo_off) = Ok st /\
      probes (h_trace st) = map d_id probed /\
      Permutation registered probed /\
      Sorted (fun a b => (d_order a <= d_order b)%Z) probed /\
      inits (h_trace st) = map d_id (filter (fun d => is_some (d_probe d)) probed).
Proof.
  intros logo_off registered sorted_list pre post Hp Hs.
  destruct (bringup logo_off pre sorted_list post) as [st [a (E1 & _ & _ & Hpr & Hin & _)]].
  exists st, sorted_list. auto.
Qed.

Lemma bringup_full :
  forall (logo_off : bool) (pre : list logop) (sorted_list : list driver) (post : list logop),
    exists st a,
      scenario pre sorted_list post (set_logo_off init_hal logo_off) = Ok st /\
      abs_scenario pre sorted_list post init_abs = Ok a /\
      h_console st = first_id is_console sorted_list /\
      h_tty st = first_id is_tty sorted_list /\
      h_active st = map d_id (filter init_ok sorted_list) /\
      match h_console st, h_tty st with
      | Some c, Some t =>
          h_sink st = STTY t /\ contents (h_ring st) = [] /\
          tty_bytes t (h_trace st) = lastn capacity (a_early a) ++ a_later a /\
          other_tty_bytes (Some t) (h_trace st) = [] /\
          attaches (h_trace st) = [(t, c)] /\ states (h_trace st) = [(t, 1)]
      | _, _ =>
          h_sink st = SRing /\ contents (h_ring st) = lastn capacity (a_early a) /\ a_later a = [] /\
          other_tty_bytes None (h_trace st) = [] /\ attaches (h_trace st) = [] /\ states (h_trace st) = []
      end.
Proof.
  intros logo_off pre ds post.
  destruct (bringup logo_off pre ds post) as [st [a (E1 & E2 & HR & _ & _ & Hc & Ht & Ha)]].
  destruct HR as (_ & _ & _ & Rc & Rt & Ra & Rm).
  exists st, a. split; [exact E1|]. split; [exact E2|].
  rewrite Rc, Rt, Ra. split; [exact Hc|]. split; [exact Ht|]. split; [exact Ha|]. exact Rm.
Qed.

Lemma failed_never_active_full :
  forall (logo_off : bool) (pre : list logop) (sorted_list : list driver) (post : list logop) (st : hal) (d : driver),
    NoDup (map d_id sorted_list) -> In d sorted_list -> init_ok d = false ->
    scenario pre sorted_list post (set_logo_off init_hal logo_off) = Ok st ->
    ~ In (d_id d) (h_active st) /\ h_console st <> Some (d_id d) /\ h_tty st <> Some (d_id d).
Proof.
  intros logo_off pre ds post st d Hnd Hin Hf Hrun.
  destruct (bringup_full logo_off pre ds post) as [st' [a (E1 & _ & Hc & Ht & Ha & _)]].
  rewrite Hrun in E1. inversion E1; subst st'.
  assert (Hfirst : forall f, (forall x, f x = true -> init_ok x = true) -> first_id f ds <> Some (d_id d)).
  { intros f Hfx. unfold first_id. destruct (find f ds) as [x|] eqn:Ef; [|discriminate].
    apply find_some in Ef. destruct Ef as [Hx Hfxx]. intros E. inversion E as [Eid].
    assert (x = d).
    { clear - Hnd Hin Hx Eid. induction ds as [|y ds IH]; [destruct Hin|].
      cbn [map] in Hnd. inversion Hnd as [|? ? Hni Hnd']; subst.
      destruct Hin as [->|Hin], Hx as [->|Hx]; auto.
      - exfalso. apply Hni. rewrite <- Eid. apply in_map. exact Hx.
      - exfalso. apply Hni. rewrite Eid. apply in_map. exact Hin. }
    subst x. rewrite (Hfx d Hfxx) in Hf. discriminate. }
  split; [rewrite Ha; apply failed_never_active; assumption|]. split.
  - rewrite Hc. apply Hfirst. intros x Hx. unfold is_console, init_ok in *. destruct (ok_kind x); [reflexivity|discriminate].
  - rewrite Ht. apply Hfirst. intros x Hx. unfold is_tty, init_ok in *. destruct (ok_kind x); [reflexivity|discriminate].
Qed.

(** ---- a failed initialisation is reported on the log ---- *)
Lemma abs_log_log a x y : abs_log (abs_log a x) y = abs_log a (x ++ y).
Proof.
  unfold abs_log at 2. unfold abs_log at 2. destruct (linked a) eqn:E.
  - unfold abs_log, linked in *. cbn [a_console a_tty]. unfold linked in E. rewrite E.
    cbn [a_console a_tty a_active a_early a_later a_numbuf]. rewrite app_assoc. reflexivity.
  - unfold abs_log, linked in *. cbn [a_console a_tty]. rewrite E.
    cbn [a_console a_tty a_active a_early a_later a_numbuf]. rewrite app_assoc. reflexivity.
Qed.

Lemma abs_log_numbuf a x nb : abs_numbuf (abs_log a x) nb = abs_log (abs_numbuf a nb) x.
Proof. unfold abs_log, abs_numbuf, linked. cbn [a_console a_tty]. destruct (is_some (a_console a) && is_some (a_tty a)); reflexivity. Qed.

Lemma abs_numbuf_numbuf a n1 n2 : abs_numbuf (abs_numbuf a n1) n2 = abs_numbuf a n2.
Proof. reflexivity. Qed.

Lemma failed_reported (d : driver) (p : probed) (msg : list N) (a : abs) (bap : N) :
  d_probe d = Some p -> p_init_err p = Some msg -> length (a_numbuf a) = N.to_nat kfmt_numFmtBufLen ->
  exists prefix status nb nb1 bap',
    written (fprintf hal_prefixFmt [AStr (p_name p); AInt U16 (p_major p); AInt U16 (p_minor p); AInt U16 (p_patch p)] (a_numbuf a)) = Ok prefix /\
    written (fprintf hal_failFmt [AStr msg] nb1) = Ok status /\
    abs_probe_one d a bap =
      Ok (abs_log (abs_numbuf a nb) (inject prefix (bap =? 0) (concat (p_log p) ++ status)), bap').
Proof.
  intros Hp He Hl.
  destruct (fprintf_total hal_prefixFmt [AStr (p_name p); AInt U16 (p_major p); AInt U16 (p_minor p); AInt U16 (p_patch p)] (a_numbuf a) Hl)
    as [r [Er Hr]].
  destruct (prefix_writes (concat (fst r)) bap (p_log p)) as [o1 b1] eqn:E1.
  destruct (prefix_writes_spec (concat (fst r)) (p_log p) bap) as [P1 P2]. rewrite E1 in P1, P2. cbn [fst snd] in P1, P2.
  destruct (fprintf_total hal_failFmt [AStr msg] (snd r) Hr) as [r2 [Er2 Hr2]].
  destruct (prefix_writes (concat (fst r)) b1 (fst r2)) as [o2 b2] eqn:E2.
  destruct (prefix_writes_spec (concat (fst r)) (fst r2) b1) as [Q1 Q2]. rewrite E2 in Q1, Q2. cbn [fst snd] in Q1, Q2.
  exists (concat (fst r)), (concat (fst r2)), (snd r2), (snd r), b2.
  split; [unfold written; rewrite Er; reflexivity|]. split; [unfold written; rewrite Er2; reflexivity|].
  unfold abs_probe_one, abs_fprintf. rewrite Hp, Er. cbn [bind fst snd]. rewrite E1, He.
  assert (Hnb : a_numbuf (abs_log (abs_numbuf a (snd r)) (concat o1)) = snd r)
    by (unfold abs_log; destruct (linked (abs_numbuf a (snd r))); reflexivity).
  rewrite Hnb, Er2. cbn [bind fst snd]. rewrite E2.
  f_equal. f_equal.
  rewrite abs_log_numbuf, abs_log_log, abs_numbuf_numbuf. f_equal.
  rewrite inject_app, P1, Q1, P2. reflexivity.
Qed.
