(** kernel/hal/hal.go ([linkTTYToConsole], [onConsoleInit], [onDriverInit]) and device.DriverInfoList.Less against the
    Gallina translation regenerated from the sources on every run (Gen/Trans_hal.v; gen/gotrans/ext_hal.go).

    In the translation a driver / console / terminal value is a REFERENCE (a number, 0 = nil); the package variable
    [devices] is the pair of references [f_world_activeConsole] / [f_world_activeTTY] of the world record; every call
    on a reference ([AttachTo], [SetState], [SetLogo], [SetFont]) and [kfmt.SetOutputSink] is an event on the world's
    trace; which interfaces the value behind a reference implements is an oracle [o_impl]; what the two loops over the
    boot command line compute (disableLogo; the font selected by name) are parameters.
    The model (Hal/Model.v) identifies a device by its id [d]; here its reference is [d + 1]. *)
From Coq Require Import NArith ZArith String List Bool Lia.
From Coq Require Import ZifyBool ZifyN ZifyNat.
From FF Require Import Lib.Word Lib.GoOps Lib.GoOpsExt Lib.GoOpsHal Gen.Consts_device_tty Gen.Consts_kfmt Gen.Trans_hal.
From FF Require Import Kfmt.Fmt Kfmt.Ring Kfmt.Prefix Hal.Model.
Import ListNotations.
Local Open Scope N_scope.
Ltac Zify.zify_post_hook ::= Z.div_mod_to_equations.

(** ---- the abstraction ---- *)
Definition ref_of (o : option N) : N := match o with Some d => d + 1 | None => 0 end.

Definition to_w (tr : list gcall) (st : hal) : go_hal_world :=
  mk_go_hal_world tr (ref_of (h_console st)) (ref_of (h_tty st)).

(** the dynamic type of the driver [id] that Probe returned, as the model describes it *)
Definition impl_of (id : N) (p : probed) (r : N) (iface : string) : bool :=
  if r =? id + 1 then
    if String.eqb iface "console.Device" then match p_kind p with KConsole => true | _ => false end
    else if String.eqb iface "tty.Device" then match p_kind p with KTTY => true | _ => false end
    else if String.eqb iface "console.LogoSetter" then p_logo p
    else if String.eqb iface "console.FontSetter" then p_font p
    else false
  else false.

(** control calls, the common view of the model's events and the translation's events: (method, device, argument);
    the Writes a terminal receives are the business of the model's SetOutputSink / Printf, not of these functions *)
Definition ctl_of_event (e : event) : list (string * N * N) :=
  match e with
  | EvAttach t c => [("AttachTo"%string, t, c)]
  | EvSetState t s => [("SetState"%string, t, s)]
  | EvSetLogo c => [("SetLogo"%string, c, 0)]
  | EvSetFont c => [("SetFont"%string, c, 0)]
  | _ => []
  end.
Definition ctl_events (tr : list event) : list (string * N * N) := flat_map ctl_of_event tr.

Definition ctl_of_call (c : gcall) : list (string * N * N) :=
  match c with
  | GCall m [GNum a; GNum b] =>
      if String.eqb m "AttachTo" then [(m, a - 1, b - 1)]
      else if String.eqb m "SetState" then [(m, a - 1, b)]
      else if String.eqb m "SetLogo" then [(m, a - 1, 0)]
      else if String.eqb m "SetFont" then [(m, a - 1, 0)]
      else []
  | _ => []
  end.
Definition ctl_calls (tr : list gcall) : list (string * N * N) := flat_map ctl_of_call tr.

(** the terminals handed to kfmt.SetOutputSink, most recent first *)
Definition sink_of_call (c : gcall) : list N :=
  match c with GCall m [GNum a] => if String.eqb m "kfmt.SetOutputSink" then [a - 1] else [] | _ => [] end.
Definition sink_calls (tr : list gcall) : list N := flat_map sink_of_call tr.

(** ---- linkTTYToConsole ---- *)
Definition link_calls (t c : N) : list gcall :=
  [GCall "SetState" [GNum (t + 1); GNum tty_StateActive]; GCall "kfmt.SetOutputSink" [GNum (t + 1)];
   GCall "AttachTo" [GNum (t + 1); GNum (c + 1)]].

Lemma link_trans tr st t c : h_tty st = Some t -> h_console st = Some c ->
  go_hal_linkTTYToConsole (to_w tr st) = GOk (to_w (link_calls t c ++ tr) st, tt).
Proof.
  intros Ht Hc. unfold go_hal_linkTTYToConsole, to_w. rewrite Ht, Hc.
  cbn [ref_of f_world_activeTTY f_world_activeConsole f_world_trace set_f_world_trace].
  destruct (N.eqb_spec (t + 1) 0); [lia|]. reflexivity.
Qed.

Lemma link_nil_tty tr st : h_tty st = None -> go_hal_linkTTYToConsole (to_w tr st) = GPanic.
Proof. intros Ht. unfold go_hal_linkTTYToConsole, to_w. rewrite Ht. reflexivity. Qed.

(** the model's link: same devices, sink = the terminal, and its control events are Attach then SetState *)
Lemma link_model st st' t c : h_tty st = Some t -> h_console st = Some c -> link st = Ok st' ->
  h_tty st' = Some t /\ h_console st' = Some c /\ h_sink st' = STTY t /\ h_logo_off st' = h_logo_off st /\
  ctl_events (h_trace st') = [("SetState"%string, t, 1); ("AttachTo"%string, t, c)] ++ ctl_events (h_trace st).
Proof.
  intros Ht Hc. unfold link. rewrite Ht, Hc. unfold set_output_sink.
  destruct (drain drain_fuel _) as [[cs rb]| |] eqn:Ed; cbn [bind]; try discriminate.
  unfold deliver. cbn [bind fst snd]. intros E. injection E as <-.
  destruct (concat cs); cbn; rewrite ?Ht, ?Hc; repeat split; reflexivity.
Qed.

Lemma link_raw tr t c :
  go_hal_linkTTYToConsole (mk_go_hal_world tr (c + 1) (t + 1)) = GOk (mk_go_hal_world (link_calls t c ++ tr) (c + 1) (t + 1), tt).
Proof.
  unfold go_hal_linkTTYToConsole. cbn [f_world_activeTTY f_world_activeConsole f_world_trace set_f_world_trace].
  destruct (N.eqb_spec (t + 1) 0); [lia|]. reflexivity.
Qed.

(** ---- dynamic types ---- *)
Lemma gimpl_console id p : gimpl (impl_of id p) (id + 1) "console.Device" = match p_kind p with KConsole => true | _ => false end.
Proof. unfold gimpl, impl_of. destruct (N.eqb_spec (id + 1) 0); [lia|]. rewrite N.eqb_refl. reflexivity. Qed.
Lemma gimpl_tty id p : gimpl (impl_of id p) (id + 1) "tty.Device" = match p_kind p with KTTY => true | _ => false end.
Proof. unfold gimpl, impl_of. destruct (N.eqb_spec (id + 1) 0); [lia|]. rewrite N.eqb_refl. reflexivity. Qed.
Lemma gimpl_logo id p : gimpl (impl_of id p) (id + 1) "console.LogoSetter" = p_logo p.
Proof. unfold gimpl, impl_of. destruct (N.eqb_spec (id + 1) 0); [lia|]. rewrite N.eqb_refl. reflexivity. Qed.
Lemma gimpl_font id p : gimpl (impl_of id p) (id + 1) "console.FontSetter" = p_font p.
Proof. unfold gimpl, impl_of. destruct (N.eqb_spec (id + 1) 0); [lia|]. rewrite N.eqb_refl. reflexivity. Qed.

(** ---- onConsoleInit ---- *)
(** the model's onConsoleInit (the KConsole branch of [on_driver_init]) *)
Definition on_console_init (id : N) (p : probed) (st : hal) : outcome hal :=
  match h_console st with
  | Some _ => Ok st
  | None =>
      let st := console_setup id p (set_console st (Some id)) in
      match h_tty st with Some _ => link st | None => Ok st end
  end.

(** the model's TTY branch of [on_driver_init] *)
Definition on_tty_init (id : N) (st : hal) : outcome hal :=
  match h_tty st with
  | Some _ => Ok st
  | None =>
      let st := set_tty st (Some id) in
      match h_console st with Some _ => link st | None => Ok st end
  end.

Lemma on_driver_init_cases id p st :
  on_driver_init id p st =
  match p_kind p with KConsole => on_console_init id p st | KTTY => on_tty_init id st | KOther => Ok st end.
Proof. unfold on_driver_init, on_console_init, on_tty_init. destruct (p_kind p); reflexivity. Qed.

(** the calls the set-up part makes (most recent first): SetLogo unless switched off, then SetFont *)
Definition setup_calls (id : N) (p : probed) (off : bool) (lg fnt : N) : list gcall :=
  (if p_font p then [GCall "SetFont" [GNum (id + 1); GNum fnt]] else []) ++
  (if p_logo p && negb off then [GCall "SetLogo" [GNum (id + 1); GNum lg]] else []).

Lemma onConsoleInit_raw tr tref id p off d0 d1 ofb olb selfont :
  go_hal_onConsoleInit (mk_go_hal_world tr 0 tref) (id + 1) d0 d1 ofb (impl_of id p) olb off selfont =
  let calls := setup_calls id p off (olb d0 d1) (if selfont =? 0 then ofb d0 d1 else selfont) in
  if negb (tref =? 0)
  then match go_hal_linkTTYToConsole (mk_go_hal_world (calls ++ tr) (id + 1) tref) with
       | GOk (w, _) => GOk (w, tt) | GPanic => GPanic | GFuel => GFuel end
  else GOk (mk_go_hal_world (calls ++ tr) (id + 1) tref, tt).
Proof.
  unfold go_hal_onConsoleInit, setup_calls.
  cbn [f_world_activeTTY f_world_activeConsole f_world_trace set_f_world_trace set_f_world_activeConsole N.eqb negb].
  rewrite gimpl_logo, gimpl_font.
  assert (Hid : (id + 1 =? 0) = false) by (apply N.eqb_neq; lia).
  destruct (p_logo p), off, (p_font p), (selfont =? 0) eqn:Hs, (tref =? 0) eqn:Ht;
    repeat (cbn [f_world_activeTTY f_world_activeConsole f_world_trace set_f_world_trace set_f_world_activeConsole
                 negb andb app]; rewrite ?Hid, ?Ht, ?Hs); reflexivity.
Qed.

Lemma ctl_calls_app a b : ctl_calls (a ++ b) = ctl_calls a ++ ctl_calls b.
Proof. apply flat_map_app. Qed.
Lemma sink_calls_app a b : sink_calls (a ++ b) = sink_calls a ++ sink_calls b.
Proof. apply flat_map_app. Qed.

Definition sink_after (st : hal) (calls : list gcall) : sink :=
  match sink_calls calls with r :: _ => STTY r | [] => h_sink st end.

Lemma ctl_setup id p off lg fnt :
  ctl_calls (setup_calls id p off lg fnt) =
  (if p_font p then [("SetFont"%string, id, 0)] else []) ++ (if p_logo p && negb off then [("SetLogo"%string, id, 0)] else []).
Proof.
  unfold setup_calls. rewrite ctl_calls_app.
  destruct (p_font p), (p_logo p && negb off); cbn; rewrite ?N.add_sub; reflexivity.
Qed.

Lemma sink_setup id p off lg fnt : sink_calls (setup_calls id p off lg fnt) = [].
Proof. unfold setup_calls. destruct (p_font p), (p_logo p && negb off); reflexivity. Qed.

Lemma ctl_link t c : ctl_calls (link_calls t c) = [("SetState"%string, t, 1); ("AttachTo"%string, t, c)].
Proof. cbn. rewrite !N.add_sub. reflexivity. Qed.
Lemma sink_link t c : sink_calls (link_calls t c) = [t].
Proof. cbn. rewrite N.add_sub. reflexivity. Qed.

Theorem onConsoleInit_trans tr st st' id p d0 d1 ofb olb selfont :
  on_console_init id p st = Ok st' ->
  exists calls,
    go_hal_onConsoleInit (to_w tr st) (id + 1) d0 d1 ofb (impl_of id p) olb (h_logo_off st) selfont
      = GOk (to_w (calls ++ tr) st', tt) /\
    ctl_events (h_trace st') = ctl_calls calls ++ ctl_events (h_trace st) /\
    h_sink st' = sink_after st calls.
Proof.
  unfold on_console_init, to_w. destruct (h_console st) as [c|] eqn:Hc.
  - intros E. injection E as <-. exists []. rewrite Hc. split; [|split; reflexivity].
    unfold go_hal_onConsoleInit. cbn [ref_of f_world_activeConsole]. destruct (N.eqb_spec (c + 1) 0); [lia|]. reflexivity.
  - cbn [ref_of]. rewrite onConsoleInit_raw. cbv zeta.
    set (calls := setup_calls id p (h_logo_off st) (olb d0 d1) (if selfont =? 0 then ofb d0 d1 else selfont)).
    set (st2 := console_setup id p (set_console st (Some id))).
    assert (F : h_console st2 = Some id /\ h_tty st2 = h_tty st /\ h_sink st2 = h_sink st /\ h_logo_off st2 = h_logo_off st /\
                ctl_events (h_trace st2) = ctl_calls calls ++ ctl_events (h_trace st)).
    { unfold st2, calls, console_setup. rewrite ctl_setup. cbn [h_logo_off set_console].
      destruct (p_logo p), (h_logo_off st) eqn:Ho, (p_font p); cbn; rewrite ?Ho; repeat split; reflexivity. }
    destruct F as (F1 & F2 & F3 & F4 & F5). rewrite F2.
    destruct (h_tty st) as [t|] eqn:Ht; cbn [ref_of].
    + destruct (N.eqb_spec (t + 1) 0); [lia|]. cbn [negb]. rewrite link_raw.
      intros E. destruct (link_model st2 st' t id F2 F1 E) as (L1 & L2 & L3 & L4 & L5).
      exists (link_calls t id ++ calls). rewrite L1, L2. cbn [ref_of]. rewrite <- app_assoc. split; [reflexivity|]. split.
      * rewrite L5, F5, ctl_calls_app, ctl_link. rewrite <- app_assoc. reflexivity.
      * unfold sink_after. rewrite sink_calls_app, sink_link. exact L3.
    + cbn [N.eqb negb]. intros E. injection E as <-. exists calls. rewrite F1, F2. cbn [ref_of]. split; [reflexivity|]. split; [exact F5|].
      unfold sink_after, calls. rewrite sink_setup. exact F3.
Qed.

(** ---- onDriverInit: the type switch, the terminal branch ---- *)
Theorem onDriverInit_trans tr st st' id p info d0 d1 ofb olb selfont :
  on_driver_init id p st = Ok st' ->
  exists calls,
    go_hal_onDriverInit (to_w tr st) info (id + 1) d0 d1 ofb (impl_of id p) olb (h_logo_off st) selfont
      = GOk (to_w (calls ++ tr) st', tt) /\
    ctl_events (h_trace st') = ctl_calls calls ++ ctl_events (h_trace st) /\
    h_sink st' = sink_after st calls.
Proof.
  rewrite on_driver_init_cases. unfold go_hal_onDriverInit. rewrite gimpl_console, gimpl_tty.
  destruct (p_kind p).
  - intros E. destruct (onConsoleInit_trans tr st st' id p d0 d1 ofb olb selfont E) as [calls [T [C S]]].
    exists calls. rewrite T. repeat split; assumption.
  - unfold on_tty_init, to_w. destruct (h_tty st) as [t|] eqn:Ht; cbn [ref_of f_world_activeTTY].
    + intros E. injection E as <-. exists []. rewrite Ht. destruct (N.eqb_spec (t + 1) 0); [lia|].
      cbn [negb ref_of app]. repeat split; reflexivity.
    + cbn [N.eqb negb set_f_world_activeTTY f_world_trace f_world_activeConsole f_world_activeTTY].
      destruct (h_console st) as [c|] eqn:Hc; cbn [ref_of set_tty h_console].
      * destruct (N.eqb_spec (c + 1) 0); [lia|]. cbn [negb]. unfold set_f_world_activeTTY. cbn [f_world_trace f_world_activeConsole f_world_activeTTY].
        rewrite ?Hc. rewrite link_raw.
        intros E. destruct (link_model (set_tty st (Some id)) st' id c eq_refl Hc E) as (L1 & L2 & L3 & L4 & L5).
        exists (link_calls id c). rewrite L1, L2. cbn [ref_of]. split; [reflexivity|]. split.
        -- rewrite L5, ctl_link. reflexivity.
        -- unfold sink_after. rewrite sink_link. exact L3.
      * cbn [N.eqb negb]. unfold set_f_world_activeTTY. cbn [f_world_trace f_world_activeConsole f_world_activeTTY]. rewrite ?Hc.
        intros E. injection E as <-. exists []. cbn [h_console h_tty set_tty ref_of app]. rewrite Hc.
        repeat split; reflexivity.
  - intros E. injection E as <-. exists []. repeat split; reflexivity.
Qed.

(** ---- DriverInfoList.Less ---- *)
(** DetectOrder is an int8: its two's complement representative *)
Definition zi8 (z : Z) : N := Z.to_N (z mod 256).
Definition to_infos (l : list driver) : list go_device_DriverInfo :=
  map (fun d => mk_go_device_DriverInfo (zi8 (d_order d))) l.

Lemma gslt8 a b : (-128 <= a <= 127)%Z -> (-128 <= b <= 127)%Z -> gslt 8 (zi8 a) (zi8 b) = (a <? b)%Z.
Proof.
  intros Ha Hb. unfold gslt, gsbias, zi8. change (2 ^ (8 - 1)) with 128. change (2 ^ 8) with 256.
  destruct (Z.ltb_spec a b);
    [apply N.ltb_lt|apply N.ltb_ge]; lia.
Qed.

Theorem less_trans w (l : list driver) i j di dj :
  N.of_nat (length l) < 9223372036854775808 ->
  nth_error l i = Some di -> nth_error l j = Some dj ->
  (-128 <= d_order di <= 127)%Z -> (-128 <= d_order dj <= 127)%Z ->
  go_device_DriverInfoList_Less w (to_infos l) (N.of_nat i) (N.of_nat j) = GOk (w, (d_order di <? d_order dj)%Z).
Proof.
  intros Hl Hi Hj Ri Rj. unfold go_device_DriverInfoList_Less.
  assert (Li : (i < length l)%nat) by (apply nth_error_Some; congruence).
  assert (Lj : (j < length l)%nat) by (apply nth_error_Some; congruence).
  unfold gidxsA. rewrite !gisneg_small by (unfold two63; change (2 ^ 63) with 9223372036854775808; lia). unfold gidxA, to_infos.
  rewrite !Nat2N.id, !nth_error_map, Hi, Hj. cbn [option_map f_DriverInfo_Order].
  rewrite gslt8 by assumption. reflexivity.
Qed.

(** an index outside the list: Go's run-time panic *)
Theorem less_out_of_range w (l : list driver) i j :
  N.of_nat (length l) <= i -> go_device_DriverInfoList_Less w (to_infos l) i j = GPanic.
Proof.
  intros H. unfold go_device_DriverInfoList_Less, gidxsA. destruct (gisneg 64 i); [reflexivity|].
  unfold gidxA. replace (nth_error (to_infos l) (N.to_nat i)) with (@None go_device_DriverInfo); [reflexivity|].
  symmetry. apply nth_error_None. unfold to_infos. rewrite map_length. lia.
Qed.

(** ---- statements in the form of Props/C16_hal_trans.v ---- *)
Theorem link_is_translation tr st st' t c :
  h_tty st = Some t -> h_console st = Some c -> link st = Ok st' ->
  go_hal_linkTTYToConsole (to_w tr st) = GOk (to_w (link_calls t c ++ tr) st', tt) /\
  ctl_events (h_trace st') = ctl_calls (link_calls t c) ++ ctl_events (h_trace st) /\
  h_sink st' = sink_after st (link_calls t c).
Proof.
  intros Ht Hc E. destruct (link_model st st' t c Ht Hc E) as (L1 & L2 & L3 & L4 & L5).
  rewrite (link_trans tr st t c Ht Hc). unfold to_w. rewrite L1, L2, Ht, Hc. split; [reflexivity|]. split.
  - rewrite L5, ctl_link. reflexivity.
  - unfold sink_after. rewrite sink_link. exact L3.
Qed.

Theorem onTTYInit_is_translation tr st st' id p info d0 d1 ofb olb selfont :
  p_kind p = KTTY -> on_tty_init id st = Ok st' ->
  exists calls,
    go_hal_onDriverInit (to_w tr st) info (id + 1) d0 d1 ofb (impl_of id p) olb (h_logo_off st) selfont
      = GOk (to_w (calls ++ tr) st', tt) /\
    ctl_events (h_trace st') = ctl_calls calls ++ ctl_events (h_trace st) /\
    h_sink st' = sink_after st calls.
Proof.
  intros Hk E. apply onDriverInit_trans. rewrite on_driver_init_cases, Hk. exact E.
Qed.
