(** gen/gotrans, config "memstructs" (gen/gotrans/ext_mb.go): the bytes of a Go string that was assembled through its
    reflect.StringHeader (Data, Len), as the callee of a seam sees them.

    [ld n a] is the memory's load of n bytes at a (little-endian value; None = some byte is not mapped).
    No access at all for an empty string; otherwise ONE load of [len] bytes (so the string must lie in memory as a
    whole), returned as the list of its bytes.  Len is an int in Go; it is taken here as the unsigned number with the same
    bits (Go does not check a string header either: a "negative" length is simply a huge string). *)
From Coq Require Import NArith List.
From FF Require Import Lib.GoOps.
Import ListNotations.
Local Open Scope N_scope.

Fixpoint gbytes_le (n : nat) (v : N) : list N :=
  match n with
  | O => []
  | S n => v mod 256 :: gbytes_le n (v / 256)
  end.

Definition gldbytes (ld : N -> N -> option N) (data len : N) : option (list N) :=
  if len =? 0 then Some []
  else match gload ld len data with
       | Some v => Some (gbytes_le (N.to_nat len) v)
       | None => None
       end.
