(** Machine words as [N] with explicit wrap-around (DESIGN.md section 4). *)
From Coq Require Import NArith ZArith Lia List Bool.
From Coq Require Import ZifyBool ZifyN ZifyNat.
Import ListNotations.
Local Open Scope N_scope.

Ltac Zify.zify_post_hook ::= Z.div_mod_to_equations.

Definition two64 : N := 0x10000000000000000.
Definition two32 : N := 0x100000000.
Definition two16 : N := 0x10000.
Definition two8  : N := 0x100.

Definition w64 (x : N) : N := x mod two64.
Definition w32 (x : N) : N := x mod two32.
Definition w16 (x : N) : N := x mod two16.
Definition w8  (x : N) : N := x mod two8.

Definition add64 (a b : N) : N := w64 (a + b).
Definition sub64 (a b : N) : N := w64 (a + two64 - w64 b).
Definition mul64 (a b : N) : N := w64 (a * b).
Definition shl64 (a k : N) : N := w64 (N.shiftl a k).
Definition add32 (a b : N) : N := w32 (a + b).
Definition sub32 (a b : N) : N := w32 (a + two32 - w32 b).
Definition mul32 (a b : N) : N := w32 (a * b).

(** [x &^ m] for 64-bit words: clearing the bits of [m]. *)
Definition andnot (x m : N) : N := N.ldiff x m.

Lemma two64_eq : two64 = 2 ^ 64. Proof. reflexivity. Qed.
Lemma two32_eq : two32 = 2 ^ 32. Proof. reflexivity. Qed.

Lemma w64_lt x : w64 x < two64.
Proof. unfold w64. apply N.mod_lt. discriminate. Qed.

Lemma w64_small x : x < two64 -> w64 x = x.
Proof. intros H. unfold w64. apply N.mod_small; exact H. Qed.

Lemma w32_lt x : w32 x < two32.
Proof. unfold w32. apply N.mod_lt. discriminate. Qed.

Lemma w32_small x : x < two32 -> w32 x = x.
Proof. intros H. unfold w32. apply N.mod_small; exact H. Qed.

(** Clearing the low [k] bits is rounding down to a multiple of [2^k]. *)
Lemma ldiff_ones_mod (x k : N) : N.ldiff x (N.ones k) = x - x mod 2 ^ k.
Proof.
  rewrite N.ldiff_ones_r, N.shiftr_div_pow2, N.shiftl_mul_pow2.
  assert (Hnz: 2 ^ k <> 0) by (apply N.pow_nonzero; discriminate).
  pose proof (N.div_mod x (2 ^ k) Hnz) as H.
  generalize dependent (x / 2 ^ k). generalize (x mod 2 ^ k). generalize dependent (2 ^ k).
  intros p _ r q H. rewrite H at 1. rewrite N.add_sub. apply N.mul_comm.
Qed.

Lemma ones_pred_pow2 k : N.ones k = 2 ^ k - 1.
Proof. rewrite N.ones_equiv. lia. Qed.

Lemma andnot_pow2 (x k : N) : andnot x (2 ^ k - 1) = x - x mod 2 ^ k.
Proof. unfold andnot. rewrite <- ones_pred_pow2. apply ldiff_ones_mod. Qed.

Lemma land_ones_mod (x k : N) : N.land x (2 ^ k - 1) = x mod 2 ^ k.
Proof. rewrite <- ones_pred_pow2. apply N.land_ones. Qed.
