(** Facts relating the generated Go operations (Lib/GoOps.v) to the word operations of Lib/Word.v. *)
From Coq Require Import NArith Lia Bool.
From Coq Require Import ZifyBool ZifyN ZifyNat.
From FF Require Import Lib.Word Lib.GoOps.
Local Open Scope N_scope.

Lemma gw64 x : gw 64 x = w64 x.
Proof. reflexivity. Qed.

Lemma gw64_small x : x < two64 -> gw 64 x = x.
Proof. intros H. rewrite gw64. apply w64_small. exact H. Qed.

Lemma gsub64_small a b : b <= a -> a < two64 -> gsub 64 a b = a - b.
Proof.
  intros Hb Ha. unfold gsub. rewrite (gw64_small b) by lia. rewrite gw64. unfold w64.
  change (2 ^ 64) with two64. unfold two64 in *. lia.
Qed.

Lemma testbit_high x n : x < two64 -> 64 <= n -> N.testbit x n = false.
Proof.
  intros Hx Hn. destruct (N.eq_dec x 0) as [->|Hne]; [apply N.bits_0|].
  apply N.bits_above_log2. apply N.log2_lt_pow2; [lia|].
  apply N.lt_le_trans with (2 ^ 64); [exact Hx|]. apply N.pow_le_mono_r; lia.
Qed.

(** [x & ^m] on uint64 is [x &^ m]. *)
Lemma land_gnot64 x m : x < two64 -> m < two64 -> N.land x (gnot 64 m) = N.ldiff x m.
Proof.
  intros Hx Hm. unfold gnot. rewrite (gw64_small m Hm). apply N.bits_inj. intros n.
  rewrite N.land_spec, N.lxor_spec, N.ldiff_spec.
  destruct (N.lt_ge_cases n 64) as [Hn|Hn].
  - rewrite N.ones_spec_low by exact Hn. destruct (N.testbit m n), (N.testbit x n); reflexivity.
  - rewrite N.ones_spec_high by exact Hn. rewrite (testbit_high x n Hx Hn). reflexivity.
Qed.
