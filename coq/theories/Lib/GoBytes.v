(** gen/gotrans, byte-memory mode (gen/gotrans/ext_mem.go, config key mem.bytes): a []byte OVERLAID on raw memory through
    reflect.SliceHeader{Len: int(n), Cap: int(n), Data: a} is a WINDOW of the byte memory: its start address and its
    length (= capacity).  The memory itself and its two operations (store one byte; Go's copy = memmove of the shorter
    length) are named by the config; here only the windows.

    Addresses are unbounded naturals (N), as in Kernel/MemUtil.v: a window that would wrap around the 2^64 address space
    is outside what these operators describe. *)
From Coq Require Import NArith.
Local Open Scope N_scope.

Definition gwin : Type := (N * N)%type.   (* start address, length *)

(** the overlay: Len and Cap are int(n); for n >= 2^63 that int is negative - the real code then holds a slice of negative
    length, which Go's unsigned bounds checks do not catch (a fatal fault follows); the translation stops with a panic *)
Definition gwoverlay (addr n : N) : option gwin := if n <? 2 ^ 63 then Some (addr, n) else None.

(** w[i] = v : bounds-checked *)
Definition gwset {M : Type} (set : M -> nat -> N -> M) (m : M) (w : gwin) (i v : N) : option M :=
  if i <? snd w then Some (set m (N.to_nat (fst w + i)) v) else None.

(** w[i:] and w[:i] : 0 <= i <= len(w) = cap(w) *)
Definition gwfrom (w : gwin) (i : N) : option gwin := if i <=? snd w then Some (fst w + i, snd w - i) else None.
Definition gwto (w : gwin) (i : N) : option gwin := if i <=? snd w then Some (fst w, i) else None.

(** copy(d, s) *)
Definition gwcopy {M : Type} (cp : M -> nat -> nat -> nat -> nat -> M) (m : M) (d s : gwin) : M :=
  cp m (N.to_nat (fst d)) (N.to_nat (snd d)) (N.to_nat (fst s)) (N.to_nat (snd s)).
