(** gen/gotrans, config "visitors" (gen/gotrans/ext_visitor.go): a closure literal passed to a VISITOR function.

    Go:     Visit(func(item *T) bool { body })        -- the visitor calls the closure on item after item, in order,
                                                          and stops as soon as the closure returns false
    Coq:    gvisit (fun item st => body') items st0    -- [items] is an extra parameter of the translated function: the
                                                          sequence the visitor presents

    The closure body gets the current item and the loop-carried state (the receiver record and the captured variables
    it assigns) and returns the new state with the closure's boolean result: [true] = go on with the next item,
    [false] = stop.  A Go run-time panic inside the body ends everything ([GPanic]).  The recursion is on the list: no
    fuel is involved ([GFuel] can only come out of an inner fuelled loop of the body).

    That the visitor function really behaves like this (one call per item, in order, no call after the first [false])
    and what the items are is its own contract, NOT covered by a tie made with this operator. *)
From Coq Require Import List.
From FF Require Import Lib.GoOps.
Import ListNotations.

Fixpoint gvisit {A St : Type} (step : A -> St -> gres (St * bool)) (l : list A) (s : St) : gres St :=
  match l with
  | [] => GOk s
  | x :: l' =>
      match step x s with
      | GOk (s', true) => gvisit step l' s'
      | GOk (s', false) => GOk s'
      | GPanic => GPanic
      | GFuel => GFuel
      end
  end.

(** The pure counterpart for bodies that cannot panic: [f item st = (st', continue?)]. *)
Fixpoint visit_pure {A St : Type} (f : A -> St -> St * bool) (l : list A) (s : St) : St :=
  match l with
  | [] => s
  | x :: l' => let '(s', go) := f x s in if go then visit_pure f l' s' else s'
  end.

Lemma gvisit_nil {A St} (step : A -> St -> gres (St * bool)) s : gvisit step [] s = GOk s.
Proof. reflexivity. Qed.

Lemma gvisit_next {A St} (step : A -> St -> gres (St * bool)) x l s s' :
  step x s = GOk (s', true) -> gvisit step (x :: l) s = gvisit step l s'.
Proof. intros H. cbn [gvisit]. rewrite H. reflexivity. Qed.

Lemma gvisit_stop {A St} (step : A -> St -> gres (St * bool)) x l s s' :
  step x s = GOk (s', false) -> gvisit step (x :: l) s = GOk s'.
Proof. intros H. cbn [gvisit]. rewrite H. reflexivity. Qed.

Lemma gvisit_panic {A St} (step : A -> St -> gres (St * bool)) x l s :
  step x s = GPanic -> gvisit step (x :: l) s = GPanic.
Proof. intros H. cbn [gvisit]. rewrite H. reflexivity. Qed.

(** A body that always succeeds visits like its pure counterpart. *)
Lemma gvisit_pure {A St} (step : A -> St -> gres (St * bool)) (f : A -> St -> St * bool) :
  (forall x s, step x s = GOk (f x s)) -> forall l s, gvisit step l s = GOk (visit_pure f l s).
Proof.
  intros H. induction l as [|x l IH]; intros s; [reflexivity|].
  cbn [gvisit visit_pure]. rewrite H. destruct (f x s) as [s' [|]]; [apply IH|reflexivity].
Qed.

(** Simulation: a relation between the translation's state and a model state that every step preserves carries
    over to the whole visit.  [mstep] is the model's step with the same continue/stop convention. *)
Lemma gvisit_sim {A B St M} (R : St -> M -> Prop) (ab : B -> A)
      (step : A -> St -> gres (St * bool)) (mstep : B -> M -> M * bool) :
  (forall x s m, R s m -> exists s', step (ab x) s = GOk (s', snd (mstep x m)) /\ R s' (fst (mstep x m))) ->
  forall l s m, R s m -> exists s', gvisit step (map ab l) s = GOk s' /\ R s' (visit_pure mstep l m).
Proof.
  intros H. induction l as [|x l IH]; intros s m HR; [exists s; split; [reflexivity|exact HR]|].
  cbn [map gvisit visit_pure]. destruct (H x s m HR) as [s' [E HR']]. rewrite E.
  destruct (mstep x m) as [m' [|]]; cbn [fst snd] in *.
  - apply IH. exact HR'.
  - exists s'. split; [reflexivity|exact HR'].
Qed.
