(** Facts about the extended-mode operations of Lib/GoOps.v (the meaning gen/gotrans gives to loops,
    Go int, stores, slicing and copy): how [gloop] unfolds, that the signed operations agree with the
    unsigned ones on non-negative ints, and list-level specifications of [gset], [gslice], [gcopy]. *)
From Coq Require Import NArith ZArith Lia List Bool.
From Coq Require Import ZifyBool ZifyN ZifyNat.
From FF Require Import Lib.GoOps.
Import ListNotations.
Local Open Scope N_scope.
Ltac Zify.zify_post_hook ::= Z.div_mod_to_equations.

(** ---- gloop ---- *)
Lemma gloop_S {St R} fuel (step : St -> gres (gctl St R)) s :
  gloop (S fuel) step s =
  match step s with
  | GOk (GNext s') => gloop fuel step s'
  | GOk (GBreak s') => GOk (inl s')
  | GOk (GRet r) => GOk (inr r)
  | GPanic => GPanic
  | GFuel => GFuel
  end.
Proof. reflexivity. Qed.

Lemma gloop_next {St R} fuel (step : St -> gres (gctl St R)) s s' :
  step s = GOk (GNext s') -> gloop (S fuel) step s = gloop fuel step s'.
Proof. intros H. rewrite gloop_S, H. reflexivity. Qed.

Lemma gloop_break {St R} fuel (step : St -> gres (gctl St R)) s s' :
  step s = GOk (GBreak s') -> gloop (S fuel) step s = GOk (inl s').
Proof. intros H. rewrite gloop_S, H. reflexivity. Qed.

Lemma gloop_ret {St R} fuel (step : St -> gres (gctl St R)) s r :
  step s = GOk (GRet r) -> gloop (S fuel) step s = GOk (inr r).
Proof. intros H. rewrite gloop_S, H. reflexivity. Qed.

Lemma gloop_panic {St R} fuel (step : St -> gres (gctl St R)) s :
  step s = GPanic -> gloop (S fuel) step s = GPanic.
Proof. intros H. rewrite gloop_S, H. reflexivity. Qed.

(** a loop that ends (in whatever way) with some fuel ends the same way with more *)
Lemma gloop_more_fuel {St R} (step : St -> gres (gctl St R)) f1 : forall s f2,
  (f1 <= f2)%nat -> gloop f1 step s <> GFuel -> gloop f2 step s = gloop f1 step s.
Proof.
  induction f1 as [|f1 IH]; intros s f2 Hle Hne; [exfalso; apply Hne; reflexivity|].
  destruct f2 as [|f2]; [lia|]. rewrite !gloop_S in *.
  destruct (step s) as [[s'|s'|r]| |]; try reflexivity. apply IH; [lia|exact Hne].
Qed.

(** ---- Go int: non-negative values ---- *)
Definition two63 : N := 2 ^ 63.

Lemma gsbias64 x : gsbias 64 x = (x + 9223372036854775808) mod 18446744073709551616.
Proof. reflexivity. Qed.

Lemma gslt_small a b : a < two63 -> b < two63 -> gslt 64 a b = (a <? b).
Proof.
  unfold two63, gslt. rewrite !gsbias64. intros Ha Hb. change (2 ^ 63) with 9223372036854775808 in *.
  destruct (N.ltb_spec a b); destruct (N.ltb_spec ((a + 9223372036854775808) mod 18446744073709551616)
    ((b + 9223372036854775808) mod 18446744073709551616)); try reflexivity; lia.
Qed.

Lemma gsle_small a b : a < two63 -> b < two63 -> gsle 64 a b = (a <=? b).
Proof.
  unfold two63, gsle. rewrite !gsbias64. intros Ha Hb. change (2 ^ 63) with 9223372036854775808 in *.
  destruct (N.leb_spec a b); destruct (N.leb_spec ((a + 9223372036854775808) mod 18446744073709551616)
    ((b + 9223372036854775808) mod 18446744073709551616)); try reflexivity; lia.
Qed.

(** a negative int (representative >= 2^63) is below every non-negative one *)
Lemma gslt_neg_nonneg a b : two63 <= a -> a < 2 ^ 64 -> b < two63 -> gslt 64 a b = true.
Proof.
  unfold two63, gslt. rewrite !gsbias64. intros Ha Ha' Hb.
  change (2 ^ 63) with 9223372036854775808 in *. change (2 ^ 64) with 18446744073709551616 in *.
  apply N.ltb_lt. lia.
Qed.

Lemma gslt_nonneg_neg a b : a < two63 -> two63 <= b -> b < 2 ^ 64 -> gslt 64 a b = false.
Proof.
  unfold two63, gslt. rewrite !gsbias64. intros Ha Hb Hb'.
  change (2 ^ 63) with 9223372036854775808 in *. change (2 ^ 64) with 18446744073709551616 in *.
  apply N.ltb_ge. lia.
Qed.

Lemma gslt_neg_neg a b : two63 <= a -> a < 2 ^ 64 -> two63 <= b -> b < 2 ^ 64 -> gslt 64 a b = (a <? b).
Proof.
  unfold two63, gslt. rewrite !gsbias64. intros Ha Ha' Hb Hb'.
  change (2 ^ 63) with 9223372036854775808 in *. change (2 ^ 64) with 18446744073709551616 in *.
  destruct (N.ltb_spec a b); [apply N.ltb_lt|apply N.ltb_ge]; lia.
Qed.

Lemma gisneg_small x : x < two63 -> gisneg 64 x = false.
Proof. unfold two63, gisneg. intros H. change (2 ^ (64 - 1)) with (2 ^ 63). apply N.leb_gt. exact H. Qed.

Lemma gisneg_big x : two63 <= x -> gisneg 64 x = true.
Proof. unfold two63, gisneg. intros H. change (2 ^ (64 - 1)) with (2 ^ 63). apply N.leb_le. exact H. Qed.

Lemma gidxs_small l i : i < two63 -> gidxs 64 l i = gidx l i.
Proof. intros H. unfold gidxs. rewrite gisneg_small by exact H. reflexivity. Qed.

Lemma gsets_small l i v : i < two63 -> gsets 64 l i v = gset l i v.
Proof. intros H. unfold gsets. rewrite gisneg_small by exact H. reflexivity. Qed.

Lemma gslices_small l lo hi : lo < two63 -> hi < two63 -> gslices 64 l lo hi = gslice l lo hi.
Proof. intros H1 H2. unfold gslices. rewrite !gisneg_small by assumption. reflexivity. Qed.

Lemma gw64_small' x : x < 2 ^ 64 -> gw 64 x = x.
Proof. intros H. unfold gw. apply N.mod_small. exact H. Qed.

(** ---- reads and stores ---- *)
Lemma glen_length l : glen l = N.of_nat (length l).
Proof. reflexivity. Qed.

Lemma gidx_some l i : i < glen l -> gidx l i = Some (nth (N.to_nat i) l 0).
Proof.
  unfold gidx, glen. intros H. apply nth_error_nth'. lia.
Qed.

Lemma gidx_none l i : glen l <= i -> gidx l i = None.
Proof. unfold gidx, glen. intros H. apply nth_error_None. lia. Qed.

Lemma gset_some l i v : i < glen l ->
  gset l i v = Some (firstn (N.to_nat i) l ++ v :: skipn (S (N.to_nat i)) l).
Proof. intros H. unfold gset. destruct (N.ltb_spec i (glen l)); [reflexivity|lia]. Qed.

Lemma gset_none l i v : glen l <= i -> gset l i v = None.
Proof. intros H. unfold gset. destruct (N.ltb_spec i (glen l)); [lia|reflexivity]. Qed.

Lemma upd_length {A} (v : A) : forall n (l : list A), (n < length l)%nat ->
  length (firstn n l ++ v :: skipn (S n) l) = length l.
Proof.
  induction n as [|n IH]; intros [|x l] H; cbn [length] in *; try lia.
  - reflexivity.
  - change (S (length (firstn n l ++ v :: skipn (S n) l)) = S (length l)). f_equal. apply IH. lia.
Qed.

Lemma gset_length l i v l' : gset l i v = Some l' -> length l' = length l.
Proof.
  unfold gset, glen. destruct (N.ltb_spec i (N.of_nat (length l))) as [H|H]; [|discriminate].
  intros E. injection E as <-. apply upd_length. lia.
Qed.

Lemma gset_nth l i v l' j : gset l i v = Some l' ->
  nth j l' 0 = if Nat.eqb j (N.to_nat i) then v else nth j l 0.
Proof.
  unfold gset, glen. destruct (N.ltb_spec i (N.of_nat (length l))) as [H|H]; [|discriminate].
  intros E. injection E as <-.
  destruct (Nat.eqb_spec j (N.to_nat i)) as [->|Hne].
  - rewrite app_nth2; rewrite firstn_length; [|lia].
    replace (N.to_nat i - Nat.min (N.to_nat i) (length l))%nat with 0%nat by lia. reflexivity.
  - destruct (Nat.lt_ge_cases j (N.to_nat i)) as [Hlt|Hge].
    + rewrite app_nth1 by (rewrite firstn_length; lia).
      rewrite <- (firstn_skipn (N.to_nat i) l) at 2. rewrite app_nth1 by (rewrite firstn_length; lia). reflexivity.
    + rewrite app_nth2; rewrite firstn_length; [|lia].
      replace (Nat.min (N.to_nat i) (length l)) with (N.to_nat i) by lia.
      destruct (j - N.to_nat i)%nat as [|q] eqn:Eq; [lia|]. cbn [nth].
      rewrite <- (firstn_skipn (S (N.to_nat i)) l) at 2.
      rewrite app_nth2; rewrite firstn_length; [|lia].
      f_equal. lia.
Qed.

(** ---- slicing, copy ---- *)
Lemma skipn_seq' : forall s a len, skipn s (seq a len) = seq (a + s) (len - s).
Proof.
  induction s as [|s IH]; intros a len.
  - rewrite Nat.add_0_r, Nat.sub_0_r. reflexivity.
  - destruct len as [|len]; [reflexivity|]. cbn [seq skipn]. rewrite IH. f_equal; lia.
Qed.

Lemma firstn_seq' : forall n a len, (n <= len)%nat -> firstn n (seq a len) = seq a n.
Proof.
  induction n as [|n IH]; intros a len H; [reflexivity|].
  destruct len as [|len]; [lia|]. cbn [seq firstn]. f_equal. apply IH. lia.
Qed.

Lemma firstn_skipn_seq len a s n : (s + n <= len)%nat -> firstn n (skipn s (seq a len)) = seq (a + s) n.
Proof. intros H. rewrite skipn_seq'. apply firstn_seq'. lia. Qed.

Lemma map_seq_shift_add {A} (f : nat -> A) a : forall n b,
  map f (seq (a + b) n) = map (fun k => f (a + k)%nat) (seq b n).
Proof.
  induction n as [|n IH]; intros b; [reflexivity|].
  cbn [seq map]. f_equal. rewrite <- IH. f_equal. f_equal. lia.
Qed.

(** slicing a table [map f (seq 0 len)] *)
Lemma gslice_map_seq (f : nat -> N) len lo hi : lo <= hi -> hi <= N.of_nat len ->
  gslice (map f (seq 0 len)) lo hi = Some (map (fun k => f (N.to_nat lo + k)%nat) (seq 0 (N.to_nat (hi - lo)))).
Proof.
  intros H1 H2. unfold gslice, glen. rewrite map_length, seq_length.
  destruct (N.leb_spec lo hi); [|lia]. destruct (N.leb_spec hi (N.of_nat len)); [|lia]. cbn [andb].
  f_equal. rewrite skipn_map, firstn_map, firstn_skipn_seq by lia. cbn [Nat.add].
  rewrite <- (Nat.add_0_r (N.to_nat lo)) at 1. apply map_seq_shift_add.
Qed.

Lemma gcopy_short dst src : (length src <= length dst)%nat -> gcopy dst src = src ++ skipn (length src) dst.
Proof.
  intros H. unfold gcopy. rewrite Nat.min_r by exact H. rewrite firstn_all. reflexivity.
Qed.

Lemma gsub64_small' a b : b <= a -> a < 2 ^ 64 -> gsub 64 a b = a - b.
Proof.
  intros Hb Ha. unfold gsub, gw. change (2 ^ 64) with 18446744073709551616 in *. lia.
Qed.
