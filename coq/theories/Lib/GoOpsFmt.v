(** Meaning of the Go constructs that gen/gotrans translates only under the config key "fmtx"
    (gen/gotrans/ext_fmt.go; used for kernel/kfmt/fmt.go, property C15):
    values of type interface{} as a tagged union, unsigned division, sign extension. *)
From Coq Require Import NArith Bool List String.
From FF Require Import Lib.GoOps.
Local Open Scope N_scope.

(** a value of type interface{}: its dynamic type and, for the built-in types the kernel's printf knows, its
    value.  Integers are the representative in [0, 2^bits) (two's complement for the signed types), a string
    and a []byte are the list of their bytes; [GAOther] is any other dynamic type, including the nil interface. *)
Inductive gany : Type :=
| GAU8 (n : N) | GAU16 (n : N) | GAU32 (n : N) | GAU64 (n : N) | GAUptr (n : N)
| GAI8 (n : N) | GAI16 (n : N) | GAI32 (n : N) | GAI64 (n : N) | GAInt (n : N)
| GABool (b : bool) | GAStr (s : list N) | GABytes (s : list N) | GAOther.

(** the single-value type assertion v.(T): [None] = the run-time panic of a failed assertion *)
Definition gas_u8 (v : gany) : option N := match v with GAU8 n => Some n | _ => None end.
Definition gas_u16 (v : gany) : option N := match v with GAU16 n => Some n | _ => None end.
Definition gas_u32 (v : gany) : option N := match v with GAU32 n => Some n | _ => None end.
Definition gas_u64 (v : gany) : option N := match v with GAU64 n => Some n | _ => None end.
Definition gas_uptr (v : gany) : option N := match v with GAUptr n => Some n | _ => None end.
Definition gas_i8 (v : gany) : option N := match v with GAI8 n => Some n | _ => None end.
Definition gas_i16 (v : gany) : option N := match v with GAI16 n => Some n | _ => None end.
Definition gas_i32 (v : gany) : option N := match v with GAI32 n => Some n | _ => None end.
Definition gas_i64 (v : gany) : option N := match v with GAI64 n => Some n | _ => None end.
Definition gas_int (v : gany) : option N := match v with GAInt n => Some n | _ => None end.
Definition gas_bool (v : gany) : option bool := match v with GABool b => Some b | _ => None end.
Definition gas_str (v : gany) : option (list N) := match v with GAStr s => Some s | _ => None end.
Definition gas_bytes (v : gany) : option (list N) := match v with GABytes s => Some s | _ => None end.

(** a / b and a % b on unsigned integers: [None] = the run-time panic "integer divide by zero" *)
Definition gdiv (a b : N) : option N := if b =? 0 then None else Some (a / b).
Definition gmod (a b : N) : option N := if b =? 0 then None else Some (a mod b).

(** conversion of a signed integer of [from] bits to a wider signed type of [to] bits: sign extension *)
Definition gsext (from to x : N) : N := if gisneg from x then x + (2 ^ to - 2 ^ from) else x.

(** an interface-typed reference passed to a seam: 1 = non-nil, 0 = nil *)
Definition gref (b : bool) : N := if b then 1 else 0.
