(** Meaning of the constructs gen/gotrans translates under the config key "hal" (gen/gotrans/ext_hal.go; kernel/hal).
    A REFERENCE (an interface or pointer value) is a number, 0 = nil.  Whether the value behind a reference
    implements a named interface is answered by an oracle that is a parameter of the translated functions. *)
From Coq Require Import NArith Bool String.
Local Open Scope N_scope.

(** x.(I) / case I: the nil interface implements nothing *)
Definition gimpl (o : N -> string -> bool) (x : N) (iface : string) : bool :=
  if x =? 0 then false else o x iface.
