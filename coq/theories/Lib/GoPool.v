(** Meaning of the "pool pointer" mode of gen/gotrans (config "poolptr", gen/gotrans/ext_c13trans.go).

    A Go struct [S] owns a slice [pool []*T]; every [*T] the translated code handles was taken from that
    slice (or made by [new(T)] and appended to it at once), objects never move in it and no entry is nil.
    Under that assumption a [*T] is determined by its POSITION in the slice, so the translation models
      - a value of type [*T] as [option N] (nil = [None], the pointer stored at [pool[i]] = [Some i]),
      - the slice as the list of the pointees,
      - [p.f] as a read of field [f] of element [i] ([gderef]; nil or a position beyond the list: panic),
      - [p.f = e] as the replacement of element [i] by the element with field [f] changed ([gpstore]),
      - [pool[i]] as a bounds check that yields [Some i] ([gpoolat]).
    [p.index] or any other field of the pointee is an ordinary field: nothing relates it to the position. *)
From Coq Require Import NArith List Bool.
From FF Require Import Lib.GoOps.
Local Open Scope N_scope.

(** [*p] : the pointee *)
Definition gderef {A} (l : list A) (p : option N) : option A :=
  match p with None => None | Some i => gidxA l i end.

(** [*p = v] : the pool with the pointee replaced *)
Definition gpstore {A} (l : list A) (p : option N) (v : A) : option (list A) :=
  match p with None => None | Some i => gsetA l i v end.

(** [pool[i]] for an unsigned index [i]: the pointer stored there *)
Definition gpoolat {A} (l : list A) (i : N) : option (option N) :=
  if i <? glenA l then Some (Some i) else None.

(** [p == nil] *)
Definition gisnil (p : option N) : bool := match p with None => true | Some _ => false end.

(** [pool = append(pool, p)] for a [p] fresh from [new(T)] with pointee [v]: the pointer to it *)
Definition gpnewptr {A} (l : list A) : option N := Some (glenA l).
Definition gpappend {A} (l : list A) (v : A) : list A := l ++ v :: nil.

(** an array literal [n]byte{a, b, ..} with fewer than [n] elements: the rest is zero *)
Definition gpad (n : N) (l : list N) : list N := l ++ repeat 0 (N.to_nat n - length l).
