(** Model of sysReserve / sysMap / sysAlloc in kernel/goruntime/bootstrap.go - the three functions that
    replace the Go runtime's address-space primitives.  Definitions only.

    Built ON TOP of the model of vmm.EarlyReserveRegion in Vmm/Region.v ([early_reserve], proved in
    Vmm/RegionProofs.v / Props/C07.v): [earlyReserveRegionFn] is that function.  The other seams are oracles:
    [mapFn] fails at the k-th call of one invocation ([fail = Some k]), [mm.AllocFrame] is a list of
    answers ([Some frame] / [None] = error; an exhausted list = error), [memsetFn] calls are recorded.
    All seam calls of one invocation are recorded IN ORDER as a trace of events.

    uintptr arithmetic is explicit: [(size + PageSize - 1) & ^(PageSize - 1)] is [rt_round_up] (an addition
    and a subtraction modulo 2^64), the address rounding of sysMap is Region's [round_up], [page+1] and
    [page << PageShift] wrap.  The two explicit panics are outcomes.

    [chk] = the test [regionSize < size] that the `fix:` commit recorded in known_findings/C07.json added to each
    of the three functions; [chk = false] is the code before that commit (kept to state what was wrong,
    Props/C07_goruntime.v: C07_rt_unchecked_refuted).  The model of the current code is [chk = true]. *)
From Coq Require Import NArith List Bool.
From FF Require Import Lib.Word Gen.Consts_mm_vmm Vmm.Region.
Import ListNotations.
Local Open Scope N_scope.

(** [(size + mm.PageSize - 1) & ^(mm.PageSize - 1)], evaluated left to right on uintptr. *)
Definition rt_round_up (size : N) : N := andnot (sub64 (add64 size PageSize) 1) (PageSize - 1).

(** vmm.FlagPresent | vmm.FlagNoExecute | vmm.FlagCopyOnWrite  and  vmm.FlagPresent | vmm.FlagNoExecute | vmm.FlagRW *)
Definition cow_flags : N := N.lor (N.lor vmm_FlagPresent vmm_FlagNoExecute) vmm_FlagCopyOnWrite.
Definition alloc_flags : N := N.lor (N.lor vmm_FlagPresent vmm_FlagNoExecute) vmm_FlagRW.

(** seam calls, in the order they are made *)
Inductive ev :=
| EAlloc (r : option N)            (* mm.AllocFrame() -> frame / error *)
| EMap (page frame flags : N)      (* mapFn(page, frame, flags) *)
| EMemset (addr val size : N).     (* memsetFn(addr, val, size) *)

Inductive outcome :=
| Ret (p : N)                      (* returned pointer (0 = nil) *)
| PanicErr                         (* panic(err), err a kernel.Error pointer *)
| PanicNotReserved.                (* panic("sysMap should only be called with reserved=true") *)

Definition fails_at (fail : option N) (k : N) : bool :=
  match fail with Some j => j =? k | None => false end.

(** ---- sysReserve: -> new cursor, outcome, value left in *reserved ---- *)
Definition sys_reserve (chk : bool) (last size : N) : N * outcome * bool :=
  let rs := rt_round_up size in
  if chk && (rs <? size) then (last, PanicErr, false) else
  match early_reserve last rs with
  | (l, None) => (l, PanicErr, false)
  | (l, Some a) => (l, Ret a, true)
  end.

(** ---- sysMap ----
    The loop [for page := PageFromAddress(start); pageCount > 0; pageCount, page = pageCount-1, page+1]
    calls mapFn(page, ReservedZeroedFrame, flags) and returns 0 at the first error: with the seam failing
    at call [k] exactly [min (k+1) count] calls are made (closed form, as [map_loop] in Vmm/Region.v). *)
Definition zero_loop (page zf count : N) (fail : option N) : list ev * bool :=
  let n := match fail with Some k => if k <? count then k + 1 else count | None => count end in
  (map (fun i => EMap (w64 (page + N.of_nat i)) zf cow_flags) (seq 0 (N.to_nat n)),
   match fail with Some k => negb (k <? count) | None => true end).

(** -> new value of *sysStat, outcome, trace *)
Definition sys_map (chk : bool) (zf stat addr size : N) (reserved : bool) (fail : option N) : N * outcome * list ev :=
  if negb reserved then (stat, PanicNotReserved, []) else
  let start := andnot (add64 addr (PageSize - 1)) (PageSize - 1) in
  let rs := rt_round_up size in
  if chk && (rs <? size) then (stat, Ret 0, []) else
  let '(t, ok) := zero_loop (page_of_addr start) zf (N.shiftr rs PageShift) fail in
  if ok then (add64 stat rs, Ret start, t) else (stat, Ret 0, t).

(** ---- sysAlloc ----
    One round of the loop: AllocFrame; mapFn(page, frame, flags); memsetFn(page.Address(), 0, PageSize).
    Structural recursion on the allocator's answers (every round consumes one); [k] = number of mapFn
    calls made so far. *)
Fixpoint alloc_loop (page count : N) (frames : list (option N)) (k : N) (fail : option N) : list ev * bool :=
  if count =? 0 then ([], true) else
  match frames with
  | [] | None :: _ => ([EAlloc None], false)
  | Some f :: rest =>
      if fails_at fail k then ([EAlloc (Some f); EMap page f alloc_flags], false)
      else
        let '(t, ok) := alloc_loop (w64 (page + 1)) (count - 1) rest (k + 1) fail in
        (EAlloc (Some f) :: EMap page f alloc_flags :: EMemset (shl64 page PageShift) 0 PageSize :: t, ok)
  end.

(** -> new cursor, new value of *sysStat, outcome, trace, address handed out by earlyReserveRegionFn
    (the local [regionStartAddr]; [None] = not called or it failed) *)
Definition sys_alloc (chk : bool) (last stat size : N) (frames : list (option N)) (fail : option N)
  : N * N * outcome * list ev * option N :=
  let rs := rt_round_up size in
  if chk && (rs <? size) then (last, stat, Ret 0, [], None) else
  match early_reserve last rs with
  | (l, None) => (l, stat, Ret 0, [], None)
  | (l, Some a) =>
      let '(t, ok) := alloc_loop (page_of_addr a) (N.shiftr rs PageShift) frames 0 fail in
      if ok then (l, add64 stat rs, Ret a, t, Some a) else (l, stat, Ret 0, t, Some a)
  end.

(** ---- histories ----  state = (reservation cursor of package vmm, the caller's stat counter) *)
Inductive rop :=
| RSysReserve (size : N)
| RSysMap (addr size : N) (reserved : bool) (fail : option N)
| RSysAlloc (size : N) (frames : list (option N)) (fail : option N).

Record rres := mk_rres {
  r_out : outcome;
  r_flag : bool;             (* sysReserve: *reserved afterwards (false before the call) *)
  r_trace : list ev;
  r_rsv : option N;          (* region obtained from earlyReserveRegionFn during this call *)
  r_size : N                 (* its size in bytes (the local regionSize) *)
}.

Definition rstate : Type := (N * N)%type.

Definition rstep (chk : bool) (zf : N) (st : rstate) (o : rop) : rstate * rres :=
  let '(last, stat) := st in
  match o with
  | RSysReserve s =>
      let '(l, out, fl) := sys_reserve chk last s in
      ((l, stat), mk_rres out fl [] (match out with Ret a => Some a | _ => None end) (rt_round_up s))
  | RSysMap a s r fail =>
      let '(stat', out, t) := sys_map chk zf stat a s r fail in
      ((last, stat'), mk_rres out false t None 0)
  | RSysAlloc s frames fail =>
      let '(l, stat', out, t, rsv) := sys_alloc chk last stat s frames fail in
      ((l, stat'), mk_rres out false t rsv (rt_round_up s))
  end.

Fixpoint rrun (chk : bool) (zf : N) (st : rstate) (ops : list rop) : list (rstate * rres) :=
  match ops with
  | [] => []
  | o :: rest => let '(st', r) := rstep chk zf st o in (st', r) :: rrun chk zf st' rest
  end.

(** ---- flat encoding for the correspondence driver ----
    case = start :: zeroFrame :: stat0 :: ops      (start 0 = the kernel's initial cursor)
    op   = 0 size | 1 addr size reserved failcode | 2 size failcode n e1 .. en
    failcode 0 = never, k+1 = mapFn fails at its call number k ; e = 0 allocator error, f+1 = frame f
    observation per op:
      sysReserve:        code ret flag cursor
      sysMap / sysAlloc: code ret stat cursor nEvents, then kind a b c per event
    code 0 = returned, 1 = panic with a kernel.Error, 2 = panic with a string *)
Definition dec_frame (e : N) : option N := if e =? 0 then None else Some (e - 1).

Fixpoint split_at (n : N) (l : list N) : list N * list N :=
  match l with
  | [] => ([], [])
  | x :: rest => if n =? 0 then ([], l) else let '(a, b) := split_at (n - 1) rest in (x :: a, b)
  end.

Fixpoint dec_rops (fuel : nat) (l : list N) : list rop :=
  match fuel with O => [] | S fuel =>
  match l with
  | 0 :: s :: rest => RSysReserve s :: dec_rops fuel rest
  | 1 :: a :: s :: r :: c :: rest => RSysMap a s (negb (r =? 0)) (dec_fail c) :: dec_rops fuel rest
  | 2 :: s :: c :: n :: rest =>
      let '(es, rest') := split_at n rest in
      RSysAlloc s (map dec_frame es) (dec_fail c) :: dec_rops fuel rest'
  | _ => []
  end end.

Definition enc_out (o : outcome) : list N :=
  match o with Ret p => [0; p] | PanicErr => [1; 0] | PanicNotReserved => [2; 0] end.

Definition enc_ev (e : ev) : list N :=
  match e with
  | EAlloc None => [1; 0; 0; 0]
  | EAlloc (Some f) => [1; 1; f; 0]
  | EMap p f fl => [2; p; f; fl]
  | EMemset a v s => [3; a; v; s]
  end.

Definition enc_step (o : rop) (sr : rstate * rres) : list N :=
  let '((last, stat), r) := sr in
  match o with
  | RSysReserve _ => enc_out (r_out r) ++ [if r_flag r then 1 else 0; last]
  | _ => enc_out (r_out r) ++ [stat; last; N.of_nat (length (r_trace r))] ++ flat_map enc_ev (r_trace r)
  end.

Fixpoint enc_run (ops : list rop) (rs : list (rstate * rres)) : list N :=
  match ops, rs with
  | o :: ops', r :: rs' => enc_step o r ++ enc_run ops' rs'
  | _, _ => []
  end.

Definition run_case_gen (chk : bool) (l : list N) : list N :=
  match l with
  | start :: zf :: stat :: rest =>
      let l0 := if start =? 0 then vmm_earlyReserveInitial else start in
      let ops := dec_rops (length rest) rest in
      enc_run ops (rrun chk zf (l0, stat) ops)
  | _ => []
  end.

Definition run_case (l : list N) : list N := run_case_gen true l.
