(** Proofs about Goruntime/Boot.v (sysReserve / sysMap / sysAlloc), composed with the theorems about
    EarlyReserveRegion in Vmm/RegionProofs.v (C07). *)
From Coq Require Import NArith ZArith Lia List Bool.
From Coq Require Import ZifyBool ZifyN ZifyNat.
From FF Require Import Lib.Word Gen.Consts_mm_vmm Vmm.Region Vmm.RegionProofs Goruntime.Boot.
Import ListNotations.
Local Open Scope N_scope.
Ltac Zify.zify_post_hook ::= Z.div_mod_to_equations.

(** ---- the rounding expressions, word for word ---- *)

(** [(size + PageSize - 1)]: an addition and a subtraction modulo 2^64 give [size + 4095] modulo 2^64. *)
Lemma rt_round_up_eq s : s < two64 -> rt_round_up s = round_up s.
Proof.
  intros Hs. unfold rt_round_up, round_up. f_equal.
  unfold sub64, add64, w64. rewrite PageSize_val. unfold two64 in *. lia.
Qed.

Lemma start_addr_eq a : andnot (add64 a (PageSize - 1)) (PageSize - 1) = round_up a.
Proof. reflexivity. Qed.

Lemma temp_val : vmm_tempMappingAddr = 0xffffff7ffffff000.
Proof. reflexivity. Qed.

Lemma shiftr_round_up s : s + 4095 < two64 -> N.shiftr (round_up s) PageShift = ceil_pages s.
Proof.
  intros H. rewrite N.shiftr_div_pow2. change (2 ^ PageShift) with 4096. rewrite (round_up_nowrap s H).
  apply N.div_mul. discriminate.
Qed.

Lemma page_of_round_up a : a + 4095 < two64 -> page_of_addr (round_up a) = ceil_pages a.
Proof.
  intros H. rewrite (round_up_nowrap a H).
  assert (Hm: (ceil_pages a * 4096) mod 4096 = 0) by (apply N.mod_mul; discriminate).
  assert (Hl: ceil_pages a * 4096 < two64) by (unfold ceil_pages, two64 in *; lia).
  destruct (page_of_addr_aligned _ Hm Hl) as [P1 _]. rewrite P1. apply N.div_mul. discriminate.
Qed.

Lemma cow_flags_val : cow_flags = N.lor (N.lor vmm_FlagPresent vmm_FlagNoExecute) vmm_FlagCopyOnWrite /\ N.land cow_flags vmm_FlagRW = 0.
Proof. split; reflexivity. Qed.

Lemma alloc_flags_val : alloc_flags = N.lor (N.lor vmm_FlagPresent vmm_FlagNoExecute) vmm_FlagRW.
Proof. reflexivity. Qed.

(** ---- the reservation made by sysReserve / sysAlloc is the reservation EarlyReserveRegion makes for the raw size ---- *)

Lemma early_reserve_rounded last s :
  s + 4095 < two64 -> early_reserve last (round_up s) = early_reserve last s.
Proof.
  intros H. unfold early_reserve. rewrite (round_up_idem s H).
  pose proof (round_up_ge s H) as (H1 & _ & _).
  replace (round_up s <? round_up s) with false by (symmetry; apply N.ltb_irrefl).
  replace (round_up s <? s) with false by (symmetry; apply N.ltb_ge; exact H1).
  reflexivity.
Qed.

Lemma reserve_spec_wrap last s :
  last <= vmm_tempMappingAddr -> two64 <= s + 4095 -> reserve_spec last s = None.
Proof.
  intros Hl H. unfold reserve_spec.
  destruct (N.leb_spec (ceil_pages s * 4096) last) as [H2|H2]; [|reflexivity].
  exfalso. rewrite temp_val in Hl. unfold ceil_pages, two64 in *. lia.
Qed.

Lemma reserve_spec_some last s a len :
  last <= vmm_tempMappingAddr -> reserve_spec last s = Some (a, len) ->
  s + 4095 < two64 /\ len = ceil_pages s * 4096 /\ a + len = last /\ round_up s = len.
Proof.
  intros Hl. unfold reserve_spec.
  destruct (N.leb_spec (ceil_pages s * 4096) last) as [H|H]; [|discriminate].
  intros E; injection E as <- <-.
  assert (Hs: s + 4095 < two64) by (rewrite temp_val in Hl; unfold ceil_pages, two64 in *; lia).
  repeat split; try lia. apply round_up_nowrap; exact Hs.
Qed.

Lemma sys_reserve_spec last s :
  s < two64 -> last <= vmm_tempMappingAddr ->
  sys_reserve true last s =
    match reserve_spec last s with
    | Some (a, _) => (a, Ret a, true)
    | None => (last, PanicErr, false)
    end.
Proof.
  intros Hs Hl. unfold sys_reserve. rewrite (rt_round_up_eq s Hs), (round_up_ltb s Hs). cbn [andb].
  destruct (N.leb_spec two64 (s + 4095)) as [H|H].
  - rewrite (reserve_spec_wrap last s Hl H). reflexivity.
  - rewrite (early_reserve_rounded last s H), (early_reserve_spec last s Hs Hl).
    destruct (reserve_spec last s) as [[a len]|]; reflexivity.
Qed.

(** ---- sysMap ---- *)

(** [n] consecutive pages from [page], every one to the zero frame with the copy-on-write flags *)
Definition zero_calls (page zf n : N) : list ev :=
  map (fun i => EMap (page + N.of_nat i) zf cow_flags) (seq 0 (N.to_nat n)).

Lemma zero_loop_calls page zf count n fail :
  page + n <= two64 ->
  n = match fail with Some k => if k <? count then k + 1 else count | None => count end ->
  fst (zero_loop page zf count fail) = zero_calls page zf n.
Proof.
  intros Hb Hn. unfold zero_loop, zero_calls. cbn [fst]. rewrite <- Hn.
  apply map_ext_in. intros i Hi. apply in_seq in Hi. rewrite w64_small by lia. reflexivity.
Qed.

Lemma sys_map_not_reserved chk zf stat addr size fail :
  sys_map chk zf stat addr size false fail = (stat, PanicNotReserved, []).
Proof. reflexivity. Qed.

Lemma sys_map_wrap zf stat addr size fail :
  size < two64 -> two64 <= size + 4095 ->
  sys_map true zf stat addr size true fail = (stat, Ret 0, []).
Proof.
  intros Hs H. unfold sys_map. cbn [negb]. rewrite (rt_round_up_eq size Hs), (round_up_ltb size Hs).
  apply N.leb_le in H. rewrite H. reflexivity.
Qed.

Lemma ceil_pages_bound s : s + 4095 < two64 -> ceil_pages s <= 0x10000000000000.
Proof. intros H. unfold ceil_pages, two64 in *. lia. Qed.

Lemma sys_map_ok zf stat addr size fail :
  addr + 4095 < two64 -> size + 4095 < two64 ->
  (forall k, fail = Some k -> ceil_pages size <= k) ->
  sys_map true zf stat addr size true fail =
    (add64 stat (ceil_pages size * 4096), Ret (ceil_pages addr * 4096), zero_calls (ceil_pages addr) zf (ceil_pages size)).
Proof.
  intros Ha Hs Hf. unfold sys_map. cbn [negb].
  assert (Hs': size < two64) by lia.
  rewrite (rt_round_up_eq size Hs'), (round_up_ltb size Hs'), start_addr_eq.
  replace (two64 <=? size + 4095) with false by (symmetry; apply N.leb_gt; exact Hs). cbn [andb].
  rewrite (shiftr_round_up size Hs), (page_of_round_up addr Ha).
  pose proof (ceil_pages_bound _ Ha) as B1. pose proof (ceil_pages_bound _ Hs) as B2.
  pose proof (zero_loop_calls (ceil_pages addr) zf (ceil_pages size) (ceil_pages size) fail) as Hc.
  destruct (zero_loop (ceil_pages addr) zf (ceil_pages size) fail) as [t ok] eqn:E.
  cbn [fst] in Hc. rewrite Hc.
  2:{ unfold two64. lia. }
  2:{ destruct fail as [k|]; [|reflexivity]. specialize (Hf k eq_refl).
      replace (k <? ceil_pages size) with false by (symmetry; apply N.ltb_ge; exact Hf). reflexivity. }
  assert (Hok: ok = true).
  { unfold zero_loop in E. injection E as _ <-. destruct fail as [k|]; [|reflexivity].
    specialize (Hf k eq_refl). apply negb_true_iff. apply N.ltb_ge. exact Hf. }
  rewrite Hok, (round_up_nowrap size Hs), (round_up_nowrap addr Ha). reflexivity.
Qed.

Lemma sys_map_fail zf stat addr size k :
  addr + 4095 < two64 -> size + 4095 < two64 -> k < ceil_pages size ->
  sys_map true zf stat addr size true (Some k) = (stat, Ret 0, zero_calls (ceil_pages addr) zf (k + 1)).
Proof.
  intros Ha Hs Hk. unfold sys_map. cbn [negb].
  assert (Hs': size < two64) by lia.
  rewrite (rt_round_up_eq size Hs'), (round_up_ltb size Hs'), start_addr_eq.
  replace (two64 <=? size + 4095) with false by (symmetry; apply N.leb_gt; exact Hs). cbn [andb].
  rewrite (shiftr_round_up size Hs), (page_of_round_up addr Ha).
  pose proof (ceil_pages_bound _ Ha) as B1. pose proof (ceil_pages_bound _ Hs) as B2.
  pose proof (zero_loop_calls (ceil_pages addr) zf (ceil_pages size) (k + 1) (Some k)) as Hc.
  destruct (zero_loop (ceil_pages addr) zf (ceil_pages size) (Some k)) as [t ok] eqn:E.
  cbn [fst] in Hc. rewrite Hc.
  2:{ unfold two64. lia. }
  2:{ replace (k <? ceil_pages size) with true by (symmetry; apply N.ltb_lt; exact Hk). reflexivity. }
  assert (Hok: ok = false).
  { unfold zero_loop in E. injection E as _ <-. apply negb_false_iff. apply N.ltb_lt. exact Hk. }
  rewrite Hok. reflexivity.
Qed.

(** Whatever the arguments and whether or not the round-up is checked: every mapping sysMap asks for names
    the zero frame with exactly Present|NoExecute|CopyOnWrite - never FlagRW (C06's zero-frame clause). *)
Lemma sys_map_zero_frame_readonly chk zf stat addr size r fail e :
  In e (snd (sys_map chk zf stat addr size r fail)) ->
  exists page, e = EMap page zf cow_flags.
Proof.
  unfold sys_map. destruct (negb r); [intros []|].
  destruct (chk && _); [intros []|].
  unfold zero_loop.
  match goal with |- context [if ?b then _ else _] => destruct b end; cbn [snd];
    intros Hin; apply in_map_iff in Hin as (i & <- & _); eauto.
Qed.

(** ---- sysAlloc ---- *)

(** the rounds of the loop: allocate a frame, map the next page to it, clear that page *)
Fixpoint rounds (page : N) (fs : list N) : list ev :=
  match fs with
  | [] => []
  | f :: rest => EAlloc (Some f) :: EMap page f alloc_flags :: EMemset (page * 4096) 0 4096 :: rounds (page + 1) rest
  end.

Definition maps_of (t : list ev) : list (N * N * N) :=
  flat_map (fun e => match e with EMap p f fl => [(p, f, fl)] | _ => [] end) t.
Definition memsets_of (t : list ev) : list (N * N * N) :=
  flat_map (fun e => match e with EMemset a v s => [(a, v, s)] | _ => [] end) t.
Definition allocs_of (t : list ev) : list (option N) :=
  flat_map (fun e => match e with EAlloc r => [r] | _ => [] end) t.

Fixpoint pages_frames (page : N) (fs : list N) : list (N * N * N) :=
  match fs with [] => [] | f :: rest => (page, f, alloc_flags) :: pages_frames (page + 1) rest end.

Lemma rounds_maps page fs : maps_of (rounds page fs) = pages_frames page fs.
Proof. revert page. induction fs as [|f rest IH]; intros page; cbn; [reflexivity|]. f_equal. apply IH. Qed.

Lemma rounds_allocs page fs : allocs_of (rounds page fs) = map Some fs.
Proof. revert page. induction fs as [|f rest IH]; intros page; cbn; [reflexivity|]. f_equal. apply IH. Qed.

Fixpoint page_clears (page : N) (n : nat) : list (N * N * N) :=
  match n with O => [] | S n => (page * 4096, 0, 4096) :: page_clears (page + 1) n end.

Lemma rounds_memsets page fs : memsets_of (rounds page fs) = page_clears page (length fs).
Proof. revert page. induction fs as [|f rest IH]; intros page; cbn; [reflexivity|]. f_equal. apply IH. Qed.

Lemma pages_frames_nth page fs i f :
  nth_error fs i = Some f -> nth_error (pages_frames page fs) i = Some (page + N.of_nat i, f, alloc_flags).
Proof.
  revert page i. induction fs as [|g rest IH]; intros page i H; destruct i as [|i]; cbn in *; try discriminate.
  - injection H as <-. rewrite N.add_0_r. reflexivity.
  - rewrite (IH (page + 1) i H). do 3 f_equal. lia.
Qed.

Lemma pages_frames_length page fs : length (pages_frames page fs) = length fs.
Proof. revert page. induction fs as [|g rest IH]; intros page; cbn; [reflexivity|]. f_equal. apply IH. Qed.

Lemma alloc_loop_zero page frames k fail : alloc_loop page 0 frames k fail = ([], true).
Proof. destruct frames; reflexivity. Qed.

Lemma alloc_loop_app fs : forall page count rest k fail,
  N.of_nat (length fs) <= count -> page + count <= 0x10000000000000 ->
  (forall j, fail = Some j -> j < k \/ k + N.of_nat (length fs) <= j) ->
  alloc_loop page count (map Some fs ++ rest) k fail =
    let '(t, ok) := alloc_loop (page + N.of_nat (length fs)) (count - N.of_nat (length fs)) rest (k + N.of_nat (length fs)) fail in
    (rounds page fs ++ t, ok).
Proof.
  induction fs as [|f fs IH]; intros page count rest k fail Hc Hb Hf.
  - cbn [length map app rounds N.of_nat]. rewrite !N.add_0_r, N.sub_0_r.
    destruct (alloc_loop page count rest k fail); reflexivity.
  - cbn [length] in *. cbn [map app alloc_loop].
    replace (count =? 0) with false by (symmetry; apply N.eqb_neq; lia).
    assert (Hk: fails_at fail k = false).
    { destruct fail as [j|]; [|reflexivity]. cbn. apply N.eqb_neq. destruct (Hf j eq_refl); lia. }
    rewrite Hk. rewrite (w64_small (page + 1)) by (unfold two64; lia).
    rewrite (IH (page + 1) (count - 1) rest (k + 1) fail); try lia.
    2:{ intros j Hj. destruct (Hf j Hj); lia. }
    replace (page + 1 + N.of_nat (length fs)) with (page + N.of_nat (S (length fs))) by lia.
    replace (count - 1 - N.of_nat (length fs)) with (count - N.of_nat (S (length fs))) by lia.
    replace (k + 1 + N.of_nat (length fs)) with (k + N.of_nat (S (length fs))) by lia.
    destruct (alloc_loop _ _ rest _ fail) as [t ok].
    cbn [rounds app]. rewrite PageSize_val.
    replace (shl64 page PageShift) with (page * 4096); [reflexivity|].
    unfold shl64. rewrite N.shiftl_mul_pow2. change (2 ^ PageShift) with 4096. rewrite w64_small; [reflexivity|unfold two64; lia].
Qed.

(** What sysAlloc does, given what the reservation of C07 is for this cursor and size. *)
Section SysAlloc.
  Variables (last stat s a len : N).
  Hypothesis Hs : s < two64.
  Hypothesis Hstart : WFstart last.
  Hypothesis Hres : reserve_spec last s = Some (a, len).

  Lemma sys_alloc_unfold frames fail :
    sys_alloc true last stat s frames fail =
      let '(t, ok) := alloc_loop (a / 4096) (ceil_pages s) frames 0 fail in
      if ok then (a, add64 stat len, Ret a, t, Some a) else (a, stat, Ret 0, t, Some a).
  Proof.
    destruct Hstart as [Hm Hl].
    destruct (reserve_spec_some last s a len Hl Hres) as (Hn & Hlen & Hsum & Hr).
    unfold sys_alloc. rewrite (rt_round_up_eq s Hs), (round_up_ltb s Hs).
    replace (two64 <=? s + 4095) with false by (symmetry; apply N.leb_gt; exact Hn). cbn [andb].
    rewrite (early_reserve_rounded last s Hn), (early_reserve_spec last s Hs Hl), Hres.
    rewrite (shiftr_round_up s Hn), Hr.
    rewrite PageSize_val in Hm.
    assert (Ha: a mod 4096 = 0) by lia.
    assert (Hlt: a < two64) by (rewrite temp_val in Hl; unfold two64; lia).
    destruct (page_of_addr_aligned a Ha Hlt) as [P1 _]. rewrite P1. reflexivity.
  Qed.

  Lemma sys_alloc_bounds : a / 4096 + ceil_pages s <= 0x10000000000000 /\ a mod 4096 = 0 /\ len = ceil_pages s * 4096.
  Proof.
    destruct Hstart as [Hm Hl].
    destruct (reserve_spec_some last s a len Hl Hres) as (Hn & Hlen & Hsum & Hr).
    rewrite PageSize_val in Hm. rewrite temp_val in Hl. lia.
  Qed.

  (** every frame request is answered and no mapping fails: the region is mapped page by page to exactly
      the frames handed out, each page cleared right after it is mapped *)
  Lemma sys_alloc_ok fs rest fail :
    N.of_nat (length fs) = ceil_pages s ->
    (forall k, fail = Some k -> ceil_pages s <= k) ->
    sys_alloc true last stat s (map Some fs ++ rest) fail = (a, add64 stat len, Ret a, rounds (a / 4096) fs, Some a).
  Proof.
    intros Hn Hf. rewrite sys_alloc_unfold. destruct sys_alloc_bounds as (B & _ & _).
    rewrite alloc_loop_app; try lia.
    2:{ intros j Hj. right. specialize (Hf j Hj). lia. }
    rewrite Hn, N.sub_diag, alloc_loop_zero, app_nil_r. reflexivity.
  Qed.

  (** the allocator fails at round j (error answer or nothing left): j pages stay mapped, 0 is returned *)
  Lemma sys_alloc_oom fs tail fail :
    N.of_nat (length fs) < ceil_pages s ->
    (tail = [] \/ exists rest, tail = None :: rest) ->
    (forall k, fail = Some k -> N.of_nat (length fs) <= k) ->
    sys_alloc true last stat s (map Some fs ++ tail) fail = (a, stat, Ret 0, rounds (a / 4096) fs ++ [EAlloc None], Some a).
  Proof.
    intros Hn Ht Hf. rewrite sys_alloc_unfold. destruct sys_alloc_bounds as (B & _ & _).
    rewrite alloc_loop_app; try lia.
    2:{ intros j Hj. right. specialize (Hf j Hj). lia. }
    assert (E: alloc_loop (a / 4096 + N.of_nat (length fs)) (ceil_pages s - N.of_nat (length fs)) tail (0 + N.of_nat (length fs)) fail = ([EAlloc None], false)).
    { destruct Ht as [->|[rest ->]]; cbn [alloc_loop];
        replace (ceil_pages s - N.of_nat (length fs) =? 0) with false by (symmetry; apply N.eqb_neq; lia); reflexivity. }
    rewrite E. reflexivity.
  Qed.

  (** mapping call k fails: k pages stay mapped, frame k was taken from the allocator, 0 is returned *)
  Lemma sys_alloc_map_fail fs f rest :
    N.of_nat (length fs) < ceil_pages s ->
    sys_alloc true last stat s (map Some fs ++ Some f :: rest) (Some (N.of_nat (length fs))) =
      (a, stat, Ret 0, rounds (a / 4096) fs ++ [EAlloc (Some f); EMap (a / 4096 + N.of_nat (length fs)) f alloc_flags], Some a).
  Proof.
    intros Hn. rewrite sys_alloc_unfold. destruct sys_alloc_bounds as (B & _ & _).
    rewrite alloc_loop_app; try lia.
    2:{ intros j Hj. injection Hj as <-. right. lia. }
    cbn [alloc_loop].
    replace (ceil_pages s - N.of_nat (length fs) =? 0) with false by (symmetry; apply N.eqb_neq; lia).
    cbn [fails_at]. rewrite N.add_0_l, N.eqb_refl. reflexivity.
  Qed.
End SysAlloc.

Lemma sys_alloc_no_fit last stat s frames fail :
  s < two64 -> last <= vmm_tempMappingAddr -> reserve_spec last s = None ->
  sys_alloc true last stat s frames fail = (last, stat, Ret 0, [], None).
Proof.
  intros Hs Hl Hres. unfold sys_alloc. rewrite (rt_round_up_eq s Hs), (round_up_ltb s Hs).
  destruct (N.leb_spec two64 (s + 4095)) as [H|H]; [reflexivity|]. cbn [andb].
  rewrite (early_reserve_rounded last s H), (early_reserve_spec last s Hs Hl), Hres. reflexivity.
Qed.

Lemma sys_alloc_reserves last stat s frames fail :
  s < two64 -> last <= vmm_tempMappingAddr ->
  let '(l, _, _, _, rsv) := sys_alloc true last stat s frames fail in
  match reserve_spec last s with
  | Some (a, _) => l = a /\ rsv = Some a
  | None => l = last /\ rsv = None
  end.
Proof.
  intros Hs Hl. unfold sys_alloc. rewrite (rt_round_up_eq s Hs), (round_up_ltb s Hs).
  destruct (N.leb_spec two64 (s + 4095)) as [H|H].
  - cbn [andb]. rewrite (reserve_spec_wrap last s Hl H). split; reflexivity.
  - cbn [andb]. rewrite (early_reserve_rounded last s H), (early_reserve_spec last s Hs Hl).
    destruct (reserve_spec last s) as [[a len]|]; [|split; reflexivity].
    destruct (alloc_loop _ _ frames 0 fail) as [t ok]. destruct ok; split; reflexivity.
Qed.

(** Sizes within a page of 2^64: all three refuse, nothing is reserved, mapped or counted. *)
Lemma rt_wrap_rejected zf last stat addr s frames fail :
  s < two64 -> two64 <= s + 4095 ->
  sys_reserve true last s = (last, PanicErr, false) /\
  sys_alloc true last stat s frames fail = (last, stat, Ret 0, [], None) /\
  sys_map true zf stat addr s true fail = (stat, Ret 0, []).
Proof.
  intros Hs H. split; [|split].
  - unfold sys_reserve. rewrite (rt_round_up_eq s Hs), (round_up_ltb s Hs). apply N.leb_le in H. rewrite H. reflexivity.
  - unfold sys_alloc. rewrite (rt_round_up_eq s Hs), (round_up_ltb s Hs). apply N.leb_le in H. rewrite H. reflexivity.
  - apply sys_map_wrap; assumption.
Qed.

(** ---- histories: the reservations of a sysReserve / sysMap / sysAlloc history ARE the reservations of the
    EarlyReserveRegion history obtained by forgetting everything but the sizes ---- *)
Definition rop_size (o : rop) : N :=
  match o with RSysReserve s | RSysMap _ s _ _ | RSysAlloc s _ _ => s end.

Definition WFrop (o : rop) : Prop := rop_size o < two64.

Definition rt_abs1 (o : rop) : list op :=
  match o with
  | RSysReserve s | RSysAlloc s _ _ => [Reserve s]
  | RSysMap _ _ _ _ => []
  end.

Definition rt_abs (ops : list rop) : list op := flat_map rt_abs1 ops.

(** the regions as the calls themselves report them: (address obtained, regionSize, requested size) *)
Fixpoint rt_regions (zf : N) (st : rstate) (ops : list rop) : list (N * N * N) :=
  match ops with
  | [] => []
  | o :: rest =>
      let '(st', r) := rstep true zf st o in
      match r_rsv r with
      | Some a => (a, r_size r, rop_size o) :: rt_regions zf st' rest
      | None => rt_regions zf st' rest
      end
  end.

Lemma WFop_abs ops : Forall WFrop ops -> Forall WFop (rt_abs ops).
Proof.
  induction 1 as [|o rest Ho _ IH]; cbn; [constructor|].
  apply Forall_app. split; [|exact IH].
  destruct o; cbn; repeat constructor; exact Ho.
Qed.

Lemma reserve_step_le last s :
  s < two64 -> last <= vmm_tempMappingAddr -> fst (step last (Reserve s)) <= last.
Proof.
  intros Hs Hl. rewrite step_cursor by assumption. cbn [op_region]. unfold reserve_spec.
  destruct (N.leb_spec (ceil_pages s * 4096) last); lia.
Qed.

Lemma rt_regions_eq zf ops : forall last stat,
  Forall WFrop ops -> last <= vmm_tempMappingAddr ->
  rt_regions zf (last, stat) ops = regions last (rt_abs ops).
Proof.
  induction ops as [|o rest IH]; intros last stat Hwf Hl; [reflexivity|].
  inversion Hwf as [|? ? Ho Hrest]; subst. unfold WFrop in Ho.
  cbn [rt_regions rt_abs flat_map]. fold (rt_abs rest).
  destruct o as [s|ad s r fail|s frames fail]; cbn [rop_size] in Ho.
  - (* sysReserve *)
    cbn [rstep rt_abs1 app regions]. rewrite (sys_reserve_spec last s Ho Hl).
    rewrite (step_cursor last (Reserve s) Ho Hl). cbn [op_region].
    destruct (reserve_spec last s) as [[a len]|] eqn:E; cbn [r_rsv r_size rop_size].
    + destruct (reserve_spec_some last s a len Hl E) as (Hn & Hlen & Hsum & Hr).
      rewrite (rt_round_up_eq s Ho), Hr. f_equal. apply IH; [assumption|lia].
    + apply IH; assumption.
  - (* sysMap: no reservation, cursor untouched *)
    cbn [rstep rt_abs1 app]. destruct (sys_map true zf stat ad s r fail) as [[stat' out] t].
    cbn [r_rsv]. apply IH; assumption.
  - (* sysAlloc *)
    cbn [rstep rt_abs1 app regions].
    pose proof (sys_alloc_reserves last stat s frames fail Ho Hl) as Hr.
    destruct (sys_alloc true last stat s frames fail) as [[[[l stat'] out] t] rsv].
    rewrite (step_cursor last (Reserve s) Ho Hl). cbn [op_region r_rsv r_size rop_size].
    destruct (reserve_spec last s) as [[a len]|] eqn:E; destruct Hr as [-> ->].
    + destruct (reserve_spec_some last s a len Hl E) as (Hn & Hlen & Hsum & Hrr).
      rewrite (rt_round_up_eq s Ho), Hrr. f_equal. apply IH; [assumption|lia].
    + apply IH; assumption.
Qed.

Lemma rt_history zf l0 stat ops :
  WFstart l0 -> Forall WFrop ops ->
  let regs := rt_regions zf (l0, stat) ops in
  regs = regions l0 (rt_abs ops) /\
  Forall region_ok regs /\ Forall (below l0) regs /\
  ForallOrdPairs (fun earlier later => below (fst (fst earlier)) later) regs.
Proof.
  intros Hst Hwf. cbv zeta. rewrite (rt_regions_eq zf ops l0 stat Hwf (proj2 Hst)).
  split; [reflexivity|]. exact (regions_inv (rt_abs ops) l0 (WFop_abs ops Hwf) Hst).
Qed.

(** what the caller of sysReserve sees *)
Lemma sys_reserve_result zf last stat s :
  s < two64 -> last <= vmm_tempMappingAddr ->
  rstep true zf (last, stat) (RSysReserve s) =
    match op_region last (Reserve s) with
    | Some (a, len, _) => ((a, stat), mk_rres (Ret a) true [] (Some a) len)
    | None => ((last, stat), mk_rres PanicErr false [] None (rt_round_up s))
    end.
Proof.
  intros Hs Hl. cbn [rstep op_region]. rewrite (sys_reserve_spec last s Hs Hl).
  destruct (reserve_spec last s) as [[a len]|] eqn:E; [|reflexivity].
  destruct (reserve_spec_some last s a len Hl E) as (Hn & Hlen & Hsum & Hr).
  rewrite (rt_round_up_eq s Hs), Hr. reflexivity.
Qed.

(** Along every history the cursor stays page aligned and at or below the temporary-mapping page, so the
    per-call statements (which assume exactly that of the cursor they start from) apply to every call. *)
Lemma rstep_wf zf last stat o :
  WFstart last -> WFrop o -> WFstart (fst (fst (rstep true zf (last, stat) o))).
Proof.
  intros Hst Ho. pose proof Hst as [Hm Hl]. unfold WFrop in Ho.
  assert (Hres: forall s a len, s < two64 -> reserve_spec last s = Some (a, len) -> WFstart a).
  { intros s a len Hs E. destruct (reserve_spec_ok last s a len Hs Hm Hl E) as (Hok & Hsum & Hle).
    unfold region_ok in Hok. split; [tauto|lia]. }
  destruct o as [s|ad s r fail|s frames fail]; cbn [rop_size] in Ho; cbn [rstep].
  - rewrite (sys_reserve_spec last s Ho Hl).
    destruct (reserve_spec last s) as [[a len]|] eqn:E; cbn [fst]; [exact (Hres s a len Ho E)|exact Hst].
  - destruct (sys_map true zf stat ad s r fail) as [[stat' out] t]. exact Hst.
  - pose proof (sys_alloc_reserves last stat s frames fail Ho Hl) as Hr.
    destruct (sys_alloc true last stat s frames fail) as [[[[l stat'] out] t] rsv]. cbn [fst].
    destruct (reserve_spec last s) as [[a len]|] eqn:E; destruct Hr as [-> _]; [exact (Hres s a len Ho E)|exact Hst].
Qed.

Lemma rrun_wf zf ops : forall last stat,
  WFstart last -> Forall WFrop ops ->
  Forall (fun sr => WFstart (fst (fst sr))) (rrun true zf (last, stat) ops).
Proof.
  induction ops as [|o rest IH]; intros last stat Hst Hwf; cbn [rrun]; [constructor|].
  inversion Hwf as [|? ? Ho Hrest]; subst.
  pose proof (rstep_wf zf last stat o Hst Ho) as Hn.
  destruct (rstep true zf (last, stat) o) as [[l' stat'] r]. cbn [fst] in Hn.
  constructor; [exact Hn|]. apply IH; assumption.
Qed.

Lemma rounds_calls page fs :
  maps_of (rounds page fs) = pages_frames page fs /\
  length (pages_frames page fs) = length fs /\
  (forall i f, nth_error fs i = Some f ->
     nth_error (pages_frames page fs) i = Some (page + N.of_nat i, f, alloc_flags)) /\
  memsets_of (rounds page fs) = page_clears page (length fs) /\
  allocs_of (rounds page fs) = map Some fs /\
  alloc_flags = N.lor (N.lor vmm_FlagPresent vmm_FlagNoExecute) vmm_FlagRW.
Proof.
  exact (conj (rounds_maps page fs) (conj (pages_frames_length page fs) (conj (pages_frames_nth page fs)
        (conj (rounds_memsets page fs) (conj (rounds_allocs page fs) alloc_flags_val))))).
Qed.

Lemma sys_map_zero_frame_readonly_flags chk zf stat addr size r fail e :
  In e (snd (sys_map chk zf stat addr size r fail)) ->
  (exists page, e = EMap page zf cow_flags) /\
  cow_flags = N.lor (N.lor vmm_FlagPresent vmm_FlagNoExecute) vmm_FlagCopyOnWrite /\
  N.land cow_flags vmm_FlagRW = 0.
Proof.
  intros H. exact (conj (sys_map_zero_frame_readonly chk zf stat addr size r fail e H) cow_flags_val).
Qed.

(** "a request that does not fit fails with an error and reserves nothing", for the two reserving calls *)
Definition no_fit_fails (chk : bool) : Prop :=
  forall last stat s frames fail, s < two64 -> WFstart last -> reserve_spec last s = None ->
    sys_reserve chk last s = (last, PanicErr, false) /\
    sys_alloc chk last stat s frames fail = (last, stat, Ret 0, [], None).

Lemma rt_no_fit_fails : no_fit_fails true.
Proof.
  intros last stat s frames fail Hs Hst Hres. split.
  - rewrite (sys_reserve_spec last s Hs (proj2 Hst)), Hres. reflexivity.
  - exact (sys_alloc_no_fit last stat s frames fail Hs (proj2 Hst) Hres).
Qed.

(** without the check (the code before the fix) the statement is false *)
Lemma rt_unchecked_witness :
  let last := vmm_earlyReserveInitial in let s := 0xffffffffffffffff in
  WFstart last /\ s < two64 /\ reserve_spec last s = None /\
  sys_reserve false last s = (last, Ret last, true) /\
  sys_alloc false last 0 s [] None = (last, 0, Ret last, [], Some last) /\
  sys_map false 5 0 0xffffff7fffffd000 s true None = (0, Ret 0xffffff7fffffd000, []).
Proof. cbv zeta. repeat split; vm_compute; try reflexivity. intros H; discriminate H. Qed.

Lemma rt_unchecked_refuted :
  ~ no_fit_fails false /\
  (let last := vmm_earlyReserveInitial in let s := 0xffffffffffffffff in
   WFstart last /\ s < two64 /\ reserve_spec last s = None /\
   sys_reserve false last s = (last, Ret last, true) /\
   sys_alloc false last 0 s [] None = (last, 0, Ret last, [], Some last) /\
   sys_map false 5 0 0xffffff7fffffd000 s true None = (0, Ret 0xffffff7fffffd000, [])).
Proof.
  split; [|exact rt_unchecked_witness].
  intros H. destruct rt_unchecked_witness as (Hst & Hs & Hres & Hr & _).
  destruct (H _ 0 _ [] None Hs Hst Hres) as [H1 _]. rewrite Hr in H1. discriminate H1.
Qed.
