(** The hand-written model of the Go runtime's address-space primitives (Goruntime/Boot.v: [sys_reserve], [sys_map],
    [sys_alloc], current code = [chk := true]) IS the Gallina translation that gen/gotrans regenerates from
    kernel/goruntime/bootstrap.go on every run (Gen/Trans_goruntime_boot.v: sysReserve, sysMap, sysAlloc).

    The functions have no receiver; the translation threads the record [world] = the trace of the calls through
    the seams [earlyReserveRegionFn], [mapFn], [memsetFn], [mm.AllocFrame] and the runtime's [mSysStatInc], most
    recent first, with oracles for what they return.  unsafe.Pointer <-> uintptr conversions are identities on
    64-bit numbers; [*reserved = true] is an extra result; [panic(..)] is GPanic.  The model records the
    mapFn / AllocFrame / memsetFn calls as its events [ev], takes the reservation from a cursor [last] with
    [early_reserve], lets mapFn fail at its call number [fail], reads mm.AllocFrame's answers from a list, and
    treats mSysStatInc as an addition to the caller's counter; the oracles below are exactly that environment. *)
From Coq Require Import NArith ZArith String List Bool Lia.
From Coq Require Import ZifyBool ZifyN ZifyNat.
From FF Require Import Lib.Word Lib.GoOps Lib.GoOpsExt Lib.GoOpsProofs Gen.Consts_mm_vmm Gen.Trans_goruntime_boot.
From FF Require Import Vmm.Region Vmm.RegionProofs Goruntime.Boot.
Import ListNotations.
Local Open Scope N_scope.
Ltac Zify.zify_post_hook ::= Z.div_mod_to_equations.

Notation W := mk_go_goruntime_world (only parsing).

(** ---- events and oracles ---- *)
Definition ev_of (e : ev) : gcall :=
  match e with
  | EAlloc _ => GCall "mm.AllocFrame" []
  | EMap p f fl => GCall "mapFn" [GNum p; GNum f; GNum fl]
  | EMemset a v s => GCall "memsetFn" [GNum a; GNum v; GNum s]
  end.
Definition ev_reserve (sz : N) : gcall := GCall "earlyReserveRegionFn" [GNum sz].
Definition ev_stat (ptr sz : N) : gcall := GCall "mSysStatInc" [GNum ptr; GNum sz].

Definition is_call (nm : string) (c : gcall) : bool := match c with GCall n _ => String.eqb n nm end.
Definition count_ev (nm : string) (tr : list gcall) : nat := length (filter (is_call nm) tr).

(** EarlyReserveRegion with the cursor at [last] *)
Definition o_reserve (last : N) (tr : list gcall) : N * option string :=
  match tr with
  | GCall _ [GNum s] :: _ =>
      match early_reserve last s with
      | (_, Some a) => (a, None)
      | (_, None) => (0, Some "errEarlyReserveNoSpace"%string)
      end
  | _ => (0, None)
  end.

(** mapFn failing at its call number [fail] (0-based) after [n0] earlier calls *)
Definition o_map (fail : option N) (n0 : nat) (tr : list gcall) : option string :=
  match fail with
  | Some k => if N.of_nat (count_ev "mapFn" tr) =? N.of_nat n0 + k + 1 then Some "errMap"%string else None
  | None => None
  end.

(** mm.AllocFrame answering from the list [frames] after [n0] earlier calls *)
Definition o_alloc (frames : list (option N)) (n0 : nat) (tr : list gcall) : N * option string :=
  match nth_error frames (count_ev "mm.AllocFrame" tr - n0 - 1) with
  | Some (Some f) => (f, None)
  | _ => (0, Some "errAllocFrame"%string)
  end.

(** ---- arithmetic ---- *)
Lemma rt_round_trans size :
  N.land (gsub 64 (gw 64 (size + mm_PageSize)) 1) (gnot 64 (gsub 64 mm_PageSize 1)) = rt_round_up size.
Proof.
  unfold rt_round_up, PageSize.
  assert (E: gsub 64 mm_PageSize 1 = mm_PageSize - 1) by reflexivity. rewrite E.
  change (gsub 64 (gw 64 (size + mm_PageSize)) 1) with (sub64 (add64 size mm_PageSize) 1).
  apply land_gnot64; [unfold sub64; apply w64_lt|reflexivity].
Qed.

Lemma page_of_addr_trans a : a < two64 -> go_mm_PageFromAddress a = page_of_addr a.
Proof.
  intros Ha. unfold go_mm_PageFromAddress, page_of_addr, PageSize, PageShift.
  assert (E: gw 64 (gsub 64 mm_PageSize 1) = mm_PageSize - 1) by reflexivity.
  rewrite E, land_gnot64 by (try exact Ha; reflexivity).
  assert (H: N.shiftr (N.ldiff a (mm_PageSize - 1)) mm_PageShift < two64).
  { rewrite N.shiftr_div_pow2.
    assert (H1: N.ldiff a (mm_PageSize - 1) <= a).
    { change (mm_PageSize - 1) with (2 ^ 12 - 1). fold (andnot a (2 ^ 12 - 1)). rewrite andnot_pow2. lia. }
    change (2 ^ mm_PageShift) with 4096. lia. }
  rewrite gw64_small by exact H. unfold andnot. reflexivity.
Qed.

Lemma rt_round_lt size : rt_round_up size < two64.
Proof.
  unfold rt_round_up. pose proof (w64_lt (add64 size PageSize + two64 - w64 1)).
  assert (andnot (sub64 (add64 size PageSize) 1) (PageSize - 1) <= sub64 (add64 size PageSize) 1)
    by (unfold PageSize; change (mm_PageSize - 1) with (2 ^ 12 - 1); rewrite andnot_pow2; lia).
  unfold sub64 in *. lia.
Qed.

Lemma early_reserve_lt last s l a : last < two64 -> early_reserve last s = (l, Some a) -> a < two64.
Proof.
  intros Hl E. unfold early_reserve in E. destruct (round_up s <? s); [discriminate|].
  destruct (last <? round_up s); [discriminate|]. injection E as _ <-. lia.
Qed.

(** ---- sysReserve ---- *)
Theorem sysReserve_is_translation last ptr size r0 tr0 :
  last < two64 ->
  go_goruntime_sysReserve (W tr0) ptr size r0 (o_reserve last) =
  match sys_reserve true last size with
  | (_, Ret a, fl) => GOk (W (ev_reserve (rt_round_up size) :: tr0), (a, fl))
  | (_, _, _) => GPanic
  end.
Proof.
  intros Hl. cbv delta [go_goruntime_sysReserve sys_reserve]. cbv beta zeta.
  rewrite rt_round_trans. set (rs := rt_round_up size). cbn [andb].
  destruct (rs <? size); [reflexivity|].
  unfold set_f_world_trace; cbn [f_world_trace]. unfold o_reserve.
  destruct (early_reserve last rs) as [l [a|]] eqn:E; cbv iota beta; cbn [gerr_eqb negb]; [|reflexivity].
  rewrite gw64_small by exact (early_reserve_lt _ _ _ _ Hl E). reflexivity.
Qed.

(** ---- sysMap ---- *)
Lemma count_ev_cons nm c tr : count_ev nm (c :: tr) = ((if is_call nm c then 1 else 0) + count_ev nm tr)%nat.
Proof. unfold count_ev. cbn [filter]. destruct (is_call nm c); reflexivity. Qed.

Definition evz (page zf : N) (i n : nat) : list gcall :=
  rev (map (fun j => ev_of (EMap (w64 (page + N.of_nat j)) zf cow_flags)) (seq i n)).

Lemma evz_S page zf i n : evz page zf i (S n) = evz page zf (S i) n ++ [ev_of (EMap (w64 (page + N.of_nat i)) zf cow_flags)].
Proof. unfold evz. cbn [seq map rev]. reflexivity. Qed.

Lemma count_shift_lt size : N.shiftr (rt_round_up size) PageShift < two64.
Proof.
  rewrite N.shiftr_div_pow2. pose proof (rt_round_lt size). unfold PageShift. change (2 ^ mm_PageShift) with 4096. lia.
Qed.

Definition sys_map_res (zf ptr addr size : N) (fail : option N) (tr0 : list gcall)
  : gres (go_goruntime_world * N) :=
  let start := andnot (add64 addr (PageSize - 1)) (PageSize - 1) in
  let rs := rt_round_up size in
  if rs <? size then GOk (W tr0, 0) else
  let '(t, ok) := zero_loop (page_of_addr start) zf (N.shiftr rs PageShift) fail in
  GOk (W ((if ok then [ev_stat ptr rs] else []) ++ rev (map ev_of t) ++ tr0), if ok then start else 0).

Theorem sysMap_is_translation zf ptr addr size reserved fail tr0 fuel :
  addr < two64 -> (N.to_nat (N.shiftr (rt_round_up size) PageShift) < fuel)%nat ->
  go_goruntime_sysMap fuel (W tr0) addr size reserved ptr zf (o_map fail (count_ev "mapFn" tr0)) =
  if negb reserved then GPanic else sys_map_res zf ptr addr size fail tr0.
Proof.
  intros Ha Hfuel. cbv delta [go_goruntime_sysMap]. cbv beta zeta.
  destruct reserved; cbn [negb]; [|reflexivity].
  rewrite rt_round_trans. unfold sys_map_res.
  set (rs := rt_round_up size) in *.
  assert (Estart : N.land (gw 64 (gw 64 addr + gw 64 (gsub 64 mm_PageSize 1))) (gnot 64 (gw 64 (gsub 64 mm_PageSize 1))) =
                   andnot (add64 addr (PageSize - 1)) (PageSize - 1)).
  { rewrite (gw64_small addr Ha). unfold PageSize.
    assert (E: gw 64 (gsub 64 mm_PageSize 1) = mm_PageSize - 1) by reflexivity. rewrite E.
    change (gw 64 (addr + (mm_PageSize - 1))) with (add64 addr (mm_PageSize - 1)).
    apply land_gnot64; [unfold add64; apply w64_lt|reflexivity]. }
  rewrite Estart. set (start := andnot (add64 addr (PageSize - 1)) (PageSize - 1)).
  assert (Hstart : start < two64).
  { unfold start. pose proof (w64_lt (addr + (PageSize - 1))).
    assert (andnot (add64 addr (PageSize - 1)) (PageSize - 1) <= add64 addr (PageSize - 1))
      by (unfold PageSize; change (mm_PageSize - 1) with (2 ^ 12 - 1); rewrite andnot_pow2; lia).
    unfold add64 in *. lia. }
  destruct (rs <? size); [reflexivity|].
  rewrite (page_of_addr_trans start Hstart).
  set (page := page_of_addr start). change mm_PageShift with PageShift. set (count := N.shiftr rs PageShift) in *.
  assert (Hc : count < two64) by apply count_shift_lt.
  assert (Hpage : page < two64).
  { unfold page, page_of_addr. rewrite N.shiftr_div_pow2.
    assert (H1: andnot start (PageSize - 1) <= start) by (unfold PageSize; change (mm_PageSize - 1) with (2 ^ 12 - 1); rewrite andnot_pow2; lia).
    unfold PageShift. change (2 ^ mm_PageShift) with 4096. lia. }
  change (N.lor (N.lor vmm_FlagPresent vmm_FlagNoExecute) vmm_FlagCopyOnWrite) with cow_flags.
  set (n0 := count_ev "mapFn" tr0).
  match goal with |- context [gloop fuel ?f0 _] => set (step := f0) end.
  assert (L : forall m i tr fu, (i + m = N.to_nat count)%nat -> count_ev "mapFn" tr = (n0 + i)%nat -> (m < fu)%nat ->
            gloop fu step (W tr, w64 (page + N.of_nat i), count - N.of_nat i) =
            if match fail with Some k => (N.of_nat i <=? k) && (k <? count) | None => false end
            then GOk (inr (W (evz page zf i (N.to_nat (match fail with Some k => k | None => 0 end) + 1 - i) ++ tr), 0))
            else GOk (inl (W (evz page zf i m ++ tr), w64 (page + count), 0))).
  { induction m as [|m IH]; intros i tr fu Hi Hcnt Hfu; (destruct fu as [|fu]; [lia|]).
    - assert (Ec : N.of_nat i = count) by lia.
      replace (match fail with Some k => (N.of_nat i <=? k) && (k <? count) | None => false end) with false
        by (destruct fail as [k|]; [|reflexivity]; destruct (N.leb_spec (N.of_nat i) k); destruct (N.ltb_spec k count); cbn [andb]; try reflexivity; lia).
      cbn [evz seq map rev app].
      rewrite gloop_break with (s' := (W tr, w64 (page + N.of_nat i), count - N.of_nat i)).
      + rewrite Ec. replace (count - count) with 0 by lia. reflexivity.
      + unfold step. replace (count - N.of_nat i) with 0 by lia. reflexivity.
    - assert (Hlt : N.of_nat i < count) by lia.
      rewrite gloop_S. unfold step at 1. cbv beta iota zeta. unfold set_f_world_trace; cbn [f_world_trace].
      destruct (N.ltb_spec 0 (count - N.of_nat i)); [|lia].
      set (ev := GCall "mapFn" [GNum (w64 (page + N.of_nat i)); GNum zf; GNum cow_flags]).
      assert (Eev : ev = ev_of (EMap (w64 (page + N.of_nat i)) zf cow_flags)) by reflexivity.
      assert (Ecnt : count_ev "mapFn" (ev :: tr) = S (n0 + i)) by (rewrite count_ev_cons, Hcnt; reflexivity).
      assert (Eom : o_map fail n0 (ev :: tr) =
                    match fail with Some k => if N.of_nat i =? k then Some "errMap"%string else None | None => None end).
      { unfold o_map. rewrite Ecnt. destruct fail as [k|]; [|reflexivity].
        destruct (N.eqb_spec (N.of_nat (S (n0 + i))) (N.of_nat n0 + k + 1)); destruct (N.eqb_spec (N.of_nat i) k); try reflexivity; lia. }
      rewrite !Eom. clear Eom.
      assert (N1 : gsub 64 (count - N.of_nat i) 1 = count - N.of_nat (S i))
        by (rewrite gsub64_small' by (unfold two64 in *; change (2 ^ 64) with 18446744073709551616; lia); lia).
      assert (N2 : gw 64 (w64 (page + N.of_nat i) + 1) = w64 (page + N.of_nat (S i))).
      { change (gw 64) with w64. unfold w64, two64. rewrite N.add_mod_idemp_l by discriminate. f_equal. lia. }
      destruct fail as [k|].
      + destruct (N.eqb_spec (N.of_nat i) k) as [Ek|Ek].
        * subst k. cbn [gerr_eqb negb].
          destruct (N.leb_spec (N.of_nat i) (N.of_nat i)); [|lia]. destruct (N.ltb_spec (N.of_nat i) count); [|lia]. cbn [andb].
          replace (N.to_nat (N.of_nat i) + 1 - i)%nat with 1%nat by lia.
          rewrite evz_S. cbn [evz seq map rev app]. rewrite <- Eev. reflexivity.
        * cbn [gerr_eqb negb]. rewrite N1, N2.
          rewrite (IH (S i) (ev :: tr) fu ltac:(lia) ltac:(rewrite Ecnt; lia) ltac:(lia)).
          replace ((N.of_nat (S i) <=? k) && (k <? count)) with ((N.of_nat i <=? k) && (k <? count))
            by (destruct (N.leb_spec (N.of_nat i) k); destruct (N.leb_spec (N.of_nat (S i)) k); try reflexivity; lia).
          destruct ((N.of_nat i <=? k) && (k <? count)) eqn:Ec.
          -- assert (Hk : (i < N.to_nat k)%nat) by (apply andb_true_iff in Ec; destruct Ec as [E1 _]; apply N.leb_le in E1; lia).
             replace (N.to_nat k + 1 - i)%nat with (S (N.to_nat k + 1 - S i)) by lia.
             rewrite evz_S, <- app_assoc. cbn [app]. rewrite <- Eev. reflexivity.
          -- rewrite evz_S, <- app_assoc. cbn [app]. rewrite <- Eev. reflexivity.
      + cbn [gerr_eqb negb]. rewrite N1, N2.
        rewrite (IH (S i) (ev :: tr) fu ltac:(lia) ltac:(rewrite Ecnt; lia) ltac:(lia)).
        rewrite evz_S, <- app_assoc. cbn [app]. rewrite <- Eev. reflexivity. }
  specialize (L (N.to_nat count) 0%nat tr0 fuel ltac:(lia) ltac:(unfold n0; lia) Hfuel).
  cbn [N.of_nat] in L. rewrite !N.add_0_r, N.sub_0_r in L. rewrite (w64_small page Hpage) in L.
  rewrite L. clear L.
  assert (ME : rev (map ev_of (fst (zero_loop page zf count fail))) =
               evz page zf 0 (N.to_nat (match fail with Some k => if k <? count then k + 1 else count | None => count end))).
  { unfold zero_loop, evz. cbn [fst]. rewrite map_map. reflexivity. }
  unfold zero_loop in *. cbn [fst] in ME.
  rewrite (gw64_small rs) by apply rt_round_lt. rewrite (gw64_small start Hstart).
  unfold set_f_world_trace; cbn [f_world_trace].
  destruct fail as [k|].
  - destruct (N.ltb_spec k count) as [A|A].
    + destruct (N.leb_spec 0 k); [|lia]. cbn [andb negb]. cbv iota beta.
      rewrite ME. replace (N.to_nat k + 1 - 0)%nat with (N.to_nat (k + 1)) by lia. reflexivity.
    + rewrite andb_false_r. cbn [negb]. cbv iota beta. rewrite ME. reflexivity.
  - cbv iota beta. rewrite ME. reflexivity.
Qed.

(** ---- sysAlloc ---- *)
Definition sys_alloc_res (last ptr size : N) (frames : list (option N)) (fail : option N) (tr0 : list gcall)
  : gres (go_goruntime_world * N) :=
  let rs := rt_round_up size in
  if rs <? size then GOk (W tr0, 0) else
  match early_reserve last rs with
  | (_, None) => GOk (W (ev_reserve rs :: tr0), 0)
  | (_, Some a) =>
      let '(t, ok) := alloc_loop (page_of_addr a) (N.shiftr rs PageShift) frames 0 fail in
      GOk (W ((if ok then [ev_stat ptr rs] else []) ++ rev (map ev_of t) ++ ev_reserve rs :: tr0), if ok then a else 0)
  end.

Lemma nth_error_skipn0 {A} : forall k (l : list A), nth_error l k = nth_error (skipn k l) 0.
Proof. induction k as [|k IH]; intros [|x l]; try reflexivity. cbn [nth_error skipn]. apply IH. Qed.

Lemma skipn_S_tl {A} : forall k (l : list A) x r, skipn k l = x :: r -> skipn (S k) l = r.
Proof.
  induction k as [|k IH]; intros [|y l] x r E; try discriminate.
  - injection E as _ <-. reflexivity.
  - cbn [skipn] in *. eapply IH. exact E.
Qed.

Theorem sysAlloc_is_translation last ptr size frames fail tr0 fuel :
  last < two64 -> (N.to_nat (N.shiftr (rt_round_up size) PageShift) < fuel)%nat ->
  go_goruntime_sysAlloc fuel (W tr0) size ptr (o_reserve last) (o_map fail (count_ev "mapFn" tr0))
    (o_alloc frames (count_ev "mm.AllocFrame" tr0)) =
  sys_alloc_res last ptr size frames fail tr0.
Proof.
  intros Hl Hfuel. cbv delta [go_goruntime_sysAlloc]. cbv beta zeta.
  rewrite rt_round_trans. unfold sys_alloc_res. set (rs := rt_round_up size) in *.
  destruct (rs <? size); [reflexivity|].
  unfold set_f_world_trace; cbn [f_world_trace]. unfold o_reserve at 1.
  destruct (early_reserve last rs) as [l [a|]] eqn:Eres; cbv iota beta; cbn [gerr_eqb negb]; [|reflexivity].
  assert (Ha : a < two64) by exact (early_reserve_lt _ _ _ _ Hl Eres).
  rewrite (page_of_addr_trans a Ha).
  set (page0 := page_of_addr a). change mm_PageShift with PageShift. set (count := N.shiftr rs PageShift) in *.
  assert (Hc : count < two64) by apply count_shift_lt.
  assert (Hpage0 : page0 < two64).
  { unfold page0, page_of_addr. rewrite N.shiftr_div_pow2.
    assert (H1: andnot a (PageSize - 1) <= a) by (unfold PageSize; change (mm_PageSize - 1) with (2 ^ 12 - 1); rewrite andnot_pow2; lia).
    unfold PageShift. change (2 ^ mm_PageShift) with 4096. lia. }
  change (N.lor (N.lor vmm_FlagPresent vmm_FlagNoExecute) vmm_FlagRW) with alloc_flags.
  set (n0m := count_ev "mapFn" tr0). set (n0a := count_ev "mm.AllocFrame" tr0).
  set (tr1 := GCall "earlyReserveRegionFn" [GNum rs] :: tr0).
  match goal with |- context [gloop fuel ?f0 _] => set (step := f0) end.
  assert (L : forall m page fr k tr fu, N.of_nat m < two64 -> page < two64 -> skipn k frames = fr ->
            count_ev "mapFn" tr = (n0m + k)%nat -> count_ev "mm.AllocFrame" tr = (n0a + k)%nat -> (m < fu)%nat ->
            gloop fu step (W tr, page, N.of_nat m) =
            let '(t, ok) := alloc_loop page (N.of_nat m) fr (N.of_nat k) fail in
            if ok then GOk (inl (W (rev (map ev_of t) ++ tr), w64 (page + N.of_nat m), 0))
            else GOk (inr (W (rev (map ev_of t) ++ tr), 0))).
  { induction m as [|m IH]; intros page fr k tr fu Hm Hp Hfr Hcm Hca Hfu; (destruct fu as [|fu]; [lia|]).
    - cbn [N.of_nat]. destruct fr; cbn [alloc_loop N.eqb]; cbn [map rev app];
        (rewrite gloop_break with (s' := (W tr, page, 0)); [rewrite N.add_0_r, (w64_small page Hp); reflexivity|reflexivity]).
    - rewrite gloop_S. unfold step at 1. cbv beta iota zeta. unfold set_f_world_trace; cbn [f_world_trace].
      destruct (N.ltb_spec 0 (N.of_nat (S m))); [|lia].
      set (evA := GCall "mm.AllocFrame" []).
      assert (EcA : count_ev "mm.AllocFrame" (evA :: tr) = S (n0a + k)) by (rewrite count_ev_cons, Hca; reflexivity).
      assert (EoA : o_alloc frames n0a (evA :: tr) =
                    match fr with Some f :: _ => (f, None) | _ => (0, Some "errAllocFrame"%string) end).
      { unfold o_alloc. rewrite EcA. replace (S (n0a + k) - n0a - 1)%nat with k by lia.
        rewrite nth_error_skipn0, Hfr. destruct fr as [|[f|] r]; reflexivity. }
      rewrite EoA. clear EoA.
      replace (alloc_loop page (N.of_nat (S m)) fr (N.of_nat k) fail) with
        (match fr with
         | [] | None :: _ => ([EAlloc None], false)
         | Some f :: rest =>
             if fails_at fail (N.of_nat k) then ([EAlloc (Some f); EMap page f alloc_flags], false)
             else let '(t, ok) := alloc_loop (w64 (page + 1)) (N.of_nat (S m) - 1) rest (N.of_nat k + 1) fail in
                  (EAlloc (Some f) :: EMap page f alloc_flags :: EMemset (shl64 page PageShift) 0 PageSize :: t, ok)
         end)
        by (destruct fr as [|[f|] r]; cbn [alloc_loop]; destruct (N.eqb_spec (N.of_nat (S m)) 0); try lia; reflexivity).
      destruct fr as [|[f|] rest]; cbv iota beta; cbn [gerr_eqb negb map rev app ev_of]; try reflexivity.
      set (evM := GCall "mapFn" [GNum page; GNum f; GNum alloc_flags]).
      assert (EcM : count_ev "mapFn" (evM :: evA :: tr) = S (n0m + k)) by (rewrite !count_ev_cons, Hcm; reflexivity).
      assert (EoM : o_map fail n0m (evM :: evA :: tr) = if fails_at fail (N.of_nat k) then Some "errMap"%string else None).
      { unfold o_map, fails_at. rewrite EcM. destruct fail as [j|]; [|reflexivity].
        destruct (N.eqb_spec (N.of_nat (S (n0m + k))) (N.of_nat n0m + j + 1)); destruct (N.eqb_spec j (N.of_nat k)); try reflexivity; lia. }
      rewrite !EoM. clear EoM.
      destruct (fails_at fail (N.of_nat k)); cbn [gerr_eqb negb map rev app ev_of]; [reflexivity|].
      assert (EA : go_mm_Page_Address page = shl64 page PageShift).
      { unfold go_mm_Page_Address, shl64. change (gw 64) with w64. unfold w64, two64. apply N.mod_mod. discriminate. }
      rewrite EA.
      set (evS := GCall "memsetFn" [GNum (shl64 page PageShift); GNum 0; GNum mm_PageSize]).
      rewrite (gsub64_small' (N.of_nat (S m))) by (unfold two64 in Hm; try change (2 ^ 64) with 18446744073709551616; lia).
      change (gw 64 (page + 1)) with (w64 (page + 1)).
      replace (N.of_nat (S m) - 1) with (N.of_nat m) by lia.
      replace (N.of_nat k + 1) with (N.of_nat (S k)) by lia.
      rewrite (IH (w64 (page + 1)) rest (S k) (evS :: evM :: evA :: tr) fu ltac:(lia) (w64_lt _) (skipn_S_tl _ _ _ _ Hfr)
                 ltac:(rewrite count_ev_cons, EcM; unfold evS; cbn; lia) ltac:(rewrite 2 count_ev_cons, EcA; unfold evS, evM; cbn; lia) ltac:(lia)).
      destruct (alloc_loop (w64 (page + 1)) (N.of_nat m) rest (N.of_nat (S k)) fail) as [t ok].
      cbn [map rev ev_of]. rewrite <- !app_assoc. cbn [app].
      replace (w64 (w64 (page + 1) + N.of_nat m)) with (w64 (page + N.of_nat (S m)))
        by (unfold w64, two64; rewrite N.add_mod_idemp_l by discriminate; f_equal; lia).
      destruct ok; reflexivity. }
  assert (Em : N.of_nat (N.to_nat count) = count) by apply N2Nat.id.
  specialize (L (N.to_nat count) page0 frames 0%nat tr1 fuel ltac:(rewrite N2Nat.id; exact Hc) Hpage0 eq_refl
                ltac:(unfold tr1; rewrite count_ev_cons; cbn; fold n0m; lia)
                ltac:(unfold tr1; rewrite count_ev_cons; cbn; fold n0a; lia) Hfuel).
  rewrite Em in L. cbn [N.of_nat] in L. rewrite L. clear L.
  destruct (alloc_loop page0 count frames 0 fail) as [t ok].
  rewrite (gw64_small rs) by apply rt_round_lt. rewrite (gw64_small a Ha).
  unfold set_f_world_trace; cbn [f_world_trace].
  destruct ok; reflexivity.
Qed.

(** ---- the same, stated on the outputs of the model's functions ---- *)
(** did sysMap / sysAlloc map every page (and hence call mSysStatInc)? *)
Definition map_ok (zf addr size : N) (fail : option N) : bool :=
  let rs := rt_round_up size in
  negb (rs <? size) &&
  snd (zero_loop (page_of_addr (andnot (add64 addr (PageSize - 1)) (PageSize - 1))) zf (N.shiftr rs PageShift) fail).

Definition alloc_ok (last size : N) (frames : list (option N)) (fail : option N) : bool :=
  let rs := rt_round_up size in
  negb (rs <? size) &&
  match early_reserve last rs with
  | (_, Some a) => snd (alloc_loop (page_of_addr a) (N.shiftr rs PageShift) frames 0 fail)
  | (_, None) => false
  end.

Theorem sysMap_vs_model zf stat ptr addr size reserved fail tr0 fuel :
  addr < two64 -> (N.to_nat (N.shiftr (rt_round_up size) PageShift) < fuel)%nat ->
  let '(stat', out, t) := sys_map true zf stat addr size reserved fail in
  let ok := map_ok zf addr size fail in
  match out with
  | Ret p =>
      go_goruntime_sysMap fuel (W tr0) addr size reserved ptr zf (o_map fail (count_ev "mapFn" tr0)) =
        GOk (W ((if ok then [ev_stat ptr (rt_round_up size)] else []) ++ rev (map ev_of t) ++ tr0), p) /\
      stat' = (if ok then add64 stat (rt_round_up size) else stat)
  | _ => go_goruntime_sysMap fuel (W tr0) addr size reserved ptr zf (o_map fail (count_ev "mapFn" tr0)) = GPanic
  end.
Proof.
  intros Ha Hf. rewrite (sysMap_is_translation zf ptr addr size reserved fail tr0 fuel Ha Hf).
  unfold sys_map, sys_map_res, map_ok. destruct reserved; cbn [negb andb]; [|reflexivity].
  destruct (rt_round_up size <? size); cbn [negb andb]; [split; reflexivity|].
  destruct (zero_loop _ _ _ _) as [t ok]. cbn [snd]. destruct ok; split; reflexivity.
Qed.

Theorem sysAlloc_vs_model last stat ptr size frames fail tr0 fuel :
  last < two64 -> (N.to_nat (N.shiftr (rt_round_up size) PageShift) < fuel)%nat ->
  let '(l, stat', out, t, rsv) := sys_alloc true last stat size frames fail in
  let ok := alloc_ok last size frames fail in
  match out with
  | Ret p =>
      go_goruntime_sysAlloc fuel (W tr0) size ptr (o_reserve last) (o_map fail (count_ev "mapFn" tr0))
        (o_alloc frames (count_ev "mm.AllocFrame" tr0)) =
        GOk (W ((if ok then [ev_stat ptr (rt_round_up size)] else []) ++ rev (map ev_of t) ++
                (if rt_round_up size <? size then [] else [ev_reserve (rt_round_up size)]) ++ tr0), p) /\
      stat' = (if ok then add64 stat (rt_round_up size) else stat)
  | _ => False
  end.
Proof.
  intros Hl Hf. rewrite (sysAlloc_is_translation last ptr size frames fail tr0 fuel Hl Hf).
  unfold sys_alloc, sys_alloc_res, alloc_ok. cbn [andb].
  destruct (rt_round_up size <? size); cbn [negb andb]; [split; reflexivity|].
  destruct (early_reserve last (rt_round_up size)) as [l [a|]]; [|split; reflexivity].
  destruct (alloc_loop _ _ _ _ _) as [t ok]. cbn [snd]. destruct ok; split; reflexivity.
Qed.
