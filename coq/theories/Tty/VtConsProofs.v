(** C18: an ideal (cell-level) console driven by the calls of the reference terminal stays equal to
    the reference terminal's viewport (reference level), and the model of vt.go makes exactly those
    calls (Tty/VtProofs.v) — hence the model + console composition of Tty/VtCons.v is in sync. *)
From Coq Require Import NArith ZArith List Bool Lia.
From Coq Require Import ZifyBool ZifyN ZifyNat.
From FF Require Import Lib.Word Gen.Consts_device_tty Console.Grid
     Tty.Vt Tty.VtSpec Tty.VtConsSpec Tty.ListFacts Tty.VtProofs Tty.VtCons.
Import ListNotations.
Local Open Scope N_scope.
Ltac Zify.zify_post_hook ::= Z.div_mod_to_equations.

(** ---- calls on a grid ---- *)
Lemma calls_rel_app g a b g'' :
  calls_rel g (a ++ b) g'' <-> exists g', calls_rel g a g' /\ calls_rel g' b g''.
Proof.
  revert g. induction a as [|c a IH]; intros g; cbn [app].
  - split.
    + intros H. exists g. split; [constructor|exact H].
    + intros (g' & H1 & H2). inversion H1; subst. exact H2.
  - split.
    + intros H. inversion H as [|g0 c0 junk cs g0' H1]; subst.
      apply IH in H1 as (g' & H1 & H2). exists g'. split; [econstructor; exact H1|exact H2].
    + intros (g' & H1 & H2). inversion H1 as [|g0 c0 junk cs g0' H1']; subst.
      econstructor. apply IH. exists g'. split; [exact H1'|exact H2].
Qed.

Lemma calls_rel_nil g g' : calls_rel g [] g' -> g' = g.
Proof. intros H. now inversion H. Qed.

Lemma apply_call_dims junk (g : cgrid) c : gw (apply_call junk g c) = gw g /\ gh (apply_call junk g c) = gh g.
Proof.
  destruct c as [ch f b x y|x y wd ht f b|d n]; cbn [apply_call].
  - apply g_write_dims.
  - apply g_fill_dims.
  - destruct (dir_of d); [apply g_scroll_dims|auto].
Qed.

Lemma calls_rel_dims g cs g' : calls_rel g cs g' -> gw g' = gw g /\ gh g' = gh g.
Proof.
  induction 1 as [g|g c junk cs g' H IH]; [auto|].
  destruct (apply_call_dims junk g c) as (A & B). rewrite <- A, <- B. exact IH.
Qed.

Lemma apply_write_cell junk (g : cgrid) ch f b x0 y0 x y :
  1 <= x0 <= gw g -> 1 <= y0 <= gh g ->
  gcell (apply_call junk g (CWrite ch f b x0 y0)) x y =
  if (x =? x0) && (y =? y0) then (ch, f, b) else gcell g x y.
Proof.
  intros Hx Hy. cbn [apply_call]. unfold g_write.
  replace (in_grid g x0 y0) with true; [reflexivity|].
  unfold in_grid. symmetry. rewrite !andb_true_iff, !N.leb_le. lia.
Qed.

(** the pair of calls of a line feed on the last viewport line: scroll up by one, clear the last line *)
Lemma apply_lf_cells j1 j2 (g : cgrid) w h fg bg x y :
  gw g = w -> gh g = h -> 1 <= w -> 1 <= h -> 1 <= x <= w -> 1 <= y <= h ->
  gcell (apply_call j2 (apply_call j1 g (CScroll console_ScrollDirUp 1)) (CFill 1 h w 1 fg bg)) x y =
  if y <? h then gcell g x (y + 1) else (32, fg, bg).
Proof.
  intros Gw Gh Hw Hh Hx Hy.
  cbn [apply_call]. unfold dir_of. rewrite N.eqb_refl.
  unfold g_scroll. replace (scroll_ok g 1) with true
    by (unfold scroll_ok; symmetry; rewrite andb_true_iff, !N.leb_le; lia).
  unfold g_fill. cbn [gcell gw gh].
  match goal with |- (if ?c then _ else _) = _ => destruct c eqn:F end.
  - apply in_fill_spec in F. cbn [gw gh] in F. rewrite Gw, Gh in F. unfold clamp1 in F.
    destruct (N.eqb_spec 1 0); [lia|]. destruct (N.eqb_spec h 0); [lia|].
    destruct (N.leb_spec h h); [|lia].
    destruct (N.ltb_spec y h); [|reflexivity].
    destruct (N.leb_spec w 1); lia.
  - destruct (N.ltb_spec y h) as [A|A].
    + rewrite Gh. destruct (N.leb_spec (y + 1) h); [reflexivity|lia].
    + exfalso. assert (T : in_fill (mkGrid (gw g) (gh g)
               (fun x0 y0 : N => if y0 + 1 <=? gh g then gcell g x0 (y0 + 1) else j1 x0 y0)) 1 h w 1 x y = true);
        [|congruence].
      apply in_fill_spec. cbn [gw gh]. rewrite Gw, Gh. unfold clamp1.
      destruct (N.eqb_spec 1 0); [lia|]. destruct (N.eqb_spec h 0); [lia|].
      destruct (N.leb_spec h h); [|lia]. destruct (N.leb_spec w 1); lia.
Qed.

Section RefLevel.
Variables (w h s tab fg bg : N).
Hypothesis Hw : 1 <= w.
Hypothesis Hh : 1 <= h.

(** ---- invariant of the reference terminal ---- *)
Definition RInv (r : rterm) : Prop :=
  length (r_lines r) = N.to_nat (h + s) /\
  (forall i, i < h + s -> length (nth (N.to_nat i) (r_lines r) []) = N.to_nat w) /\
  1 <= r_x r <= w /\ 1 <= r_y r <= h /\ r_view r + h <= h + s /\
  (forall i j, r_view r + h <= i -> i < h + s -> j < w -> lcell (r_lines r) i j = (32, fg, bg)).

Lemma r_cell_lcell r x y : r_cell r x y = lcell (r_lines r) (r_view r + y - 1) (x - 1).
Proof. reflexivity. Qed.

Lemma lcell_upd ls i0 j0 c i j :
  (N.to_nat i0 < length ls)%nat -> (N.to_nat j0 < length (nth (N.to_nat i0) ls []))%nat ->
  lcell (upd ls (N.to_nat i0) (fun ln => upd ln (N.to_nat j0) (fun _ => c))) i j =
  if (i =? i0) && (j =? j0) then c else lcell ls i j.
Proof.
  intros Hi Hj. unfold lcell.
  destruct (N.eqb_spec i i0) as [->|Ni]; cbn [andb].
  - rewrite upd_nth_same by assumption.
    destruct (N.eqb_spec j j0) as [->|Nj].
    + now rewrite upd_nth_same.
    + rewrite upd_nth_other by lia. reflexivity.
  - rewrite upd_nth_other by lia. reflexivity.
Qed.

Lemma rinv_cursor r x y :
  RInv r -> 1 <= x <= w -> 1 <= y <= h -> RInv (mkR (r_lines r) (r_view r) x y).
Proof. intros (L & LW & _ & _ & V & B) Hx Hy. unfold RInv. cbn [r_lines r_view r_x r_y]. auto 10. Qed.

Lemma rinv_put r c : RInv r -> RInv (r_put r c).
Proof.
  intros (L & LW & X & Y & V & B). unfold RInv, r_put. cbn [r_lines r_view r_x r_y].
  split; [now rewrite upd_length|]. split; [|split; [exact X|split; [exact Y|split; [exact V|]]]].
  - intros i Hi. destruct (N.eq_dec i (r_view r + r_y r - 1)) as [->|Ne].
    + rewrite upd_nth_same by lia. rewrite upd_length. apply LW. lia.
    + rewrite upd_nth_other by lia. now apply LW.
  - intros i j Hi1 Hi2 Hj. rewrite lcell_upd; [|lia|rewrite LW; lia].
    destruct (N.eqb_spec i (r_view r + r_y r - 1)); [lia|]. cbn [andb]. now apply B.
Qed.

Lemma r_cell_put r c x y : RInv r -> 1 <= y ->
  r_cell (r_put r c) x y = if (x =? r_x r) && (y =? r_y r) then c else
                           if x =? 0 then r_cell (r_put r c) x y else r_cell r x y.
Proof.
  intros (L & LW & X & Y & V & B) Hy.
  destruct (N.eqb_spec x 0) as [->|Nx].
  { destruct (N.eqb_spec 0 (r_x r)); [lia|]. reflexivity. }
  rewrite !r_cell_lcell. unfold r_put at 1 2. cbn [r_lines r_view].
  rewrite lcell_upd; [|lia|rewrite LW; lia].
  destruct (N.eqb_spec (r_view r + y - 1) (r_view r + r_y r - 1));
    destruct (N.eqb_spec y (r_y r)); try lia;
    destruct (N.eqb_spec (x - 1) (r_x r - 1)); destruct (N.eqb_spec x (r_x r)); try lia; reflexivity.
Qed.

Lemma rinv_lf r : RInv r -> RInv (r_lf w h s fg bg r).
Proof.
  intros (L & LW & X & Y & V & B). unfold r_lf.
  destruct (N.ltb_spec (r_y r) h) as [A|A].
  - unfold RInv. cbn [r_lines r_view r_x r_y]. repeat split; try assumption; lia.
  - destruct (N.ltb_spec (r_view r + h) (h + s)) as [C|C].
    + unfold RInv. cbn [r_lines r_view r_x r_y]. repeat split; try assumption; try lia.
      intros i j Hi1 Hi2 Hj. apply B; lia.
    + unfold RInv. cbn [r_lines r_view r_x r_y].
      pose proof (scroll_rows (r_lines r) (blank_line w fg bg) (h + s) (r_view r) L ltac:(lia)) as Hrow.
      split; [apply scroll_length; [assumption|lia]|].
      split; [|split; [lia|split; [lia|split; [lia|intros; lia]]]].
      intros i Hi. rewrite Hrow by assumption.
      destruct (N.ltb_spec i (r_view r)); [now apply LW|].
      destruct (N.ltb_spec i (h + s - 1)); [apply LW; lia|].
      unfold blank_line. now rewrite repeat_length.
Qed.

(** after a line feed on the last viewport line every viewport line shows what the next one
    showed, and the last line is blank *)
Lemma r_cell_lf_last r x y : RInv r -> r_y r = h -> 1 <= x <= w -> 1 <= y <= h ->
  r_cell (r_lf w h s fg bg r) x y = if y <? h then r_cell r x (y + 1) else (32, fg, bg).
Proof.
  intros (L & LW & X & Y & V & B) Ey Hx Hy. unfold r_lf.
  destruct (N.ltb_spec (r_y r) h) as [A|_]; [lia|].
  destruct (N.ltb_spec (r_view r + h) (h + s)) as [C|C].
  - rewrite !r_cell_lcell. cbn [r_lines r_view].
    destruct (N.ltb_spec y h) as [D|D].
    + f_equal. lia.
    + replace (r_view r + 1 + y - 1) with (r_view r + h) by lia. apply B; lia.
  - rewrite !r_cell_lcell. cbn [r_lines r_view]. unfold lcell.
    rewrite (scroll_rows (r_lines r) (blank_line w fg bg) (h + s) (r_view r) L) by lia.
    destruct (N.ltb_spec (r_view r + y - 1) (r_view r)); [lia|].
    destruct (N.ltb_spec (r_view r + y - 1) (h + s - 1)); destruct (N.ltb_spec y h); try lia.
    + do 2 f_equal. lia.
    + unfold blank_line. rewrite nth_repeat_lt by lia. reflexivity.
Qed.

Lemma r_cell_lf_next r x y : r_y r < h -> r_cell (r_lf w h s fg bg r) x y = r_cell r x y.
Proof.
  intros A. unfold r_lf. destruct (N.ltb_spec (r_y r) h); [reflexivity|lia].
Qed.

(** ---- the console stays equal to the viewport ---- *)
Definition Sync (act : bool) (r : rterm) (g : cgrid) : Prop :=
  gw g = w /\ gh g = h /\
  (act = true -> forall x y, 1 <= x <= w -> 1 <= y <= h -> gcell g x y = r_cell r x y).

Lemma sync_cursor act r g x y : Sync act r g -> Sync act (mkR (r_lines r) (r_view r) x y) g.
Proof. intros H. exact H. Qed.

Lemma sync_put act r g c g' :
  RInv r -> Sync act r g -> calls_rel g (e_put act r c) g' -> Sync act (r_put r c) g'.
Proof.
  intros I (Gw & Gh & S) H. pose proof I as (L & LW & X & Y & V & B). unfold e_put in H.
  destruct act.
  - inversion H as [|g0 c0 junk cs g0' H1]; subst. apply calls_rel_nil in H1. subst g'.
    destruct c as [[ch f] b]. cbn [write_call].
    destruct (apply_call_dims junk g (CWrite ch f b (r_x r) (r_y r))) as (A1 & A2).
    split; [congruence|]. split; [congruence|]. intros _ x y Hx Hy.
    rewrite apply_write_cell by lia. rewrite r_cell_put by (assumption || lia).
    destruct ((x =? r_x r) && (y =? r_y r)); [reflexivity|].
    destruct (N.eqb_spec x 0); [lia|]. now apply S.
  - apply calls_rel_nil in H. subst g'. split; [assumption|]. split; [assumption|]. discriminate.
Qed.

Lemma sync_lf act r g g' :
  RInv r -> Sync act r g -> calls_rel g (e_lf w h fg bg act r) g' -> Sync act (r_lf w h s fg bg r) g'.
Proof.
  intros I (Gw & Gh & S) H. pose proof I as (L & LW & X & Y & V & B). unfold e_lf in H.
  destruct (N.ltb_spec (r_y r) h) as [A|A].
  - apply calls_rel_nil in H. subst g'. split; [assumption|]. split; [assumption|].
    intros Ha x y Hx Hy. rewrite r_cell_lf_next by assumption. now apply S.
  - destruct act.
    + inversion H as [|g0 c0 j1 cs g0' H1]; subst.
      inversion H1 as [|g1 c1 j2 cs1 g1' H2]; subst. apply calls_rel_nil in H2. subst g'.
      assert (Ey : r_y r = h) by lia. rewrite Ey.
      match goal with |- Sync _ _ ?G => assert (D : gw G = w /\ gh G = h) end.
      { destruct (apply_call_dims j2 (apply_call j1 g (CScroll console_ScrollDirUp 1)) (CFill 1 h w 1 fg bg)) as (A1 & A2).
        destruct (apply_call_dims j1 g (CScroll console_ScrollDirUp 1)) as (A3 & A4). split; congruence. }
      split; [apply D|]. split; [apply D|]. intros _ x y Hx Hy.
      rewrite apply_lf_cells by assumption. rewrite r_cell_lf_last by assumption.
      destruct (N.ltb_spec y h); [|reflexivity]. apply S; [reflexivity|lia|lia].
    + apply calls_rel_nil in H. subst g'. split; [assumption|]. split; [assumption|]. discriminate.
Qed.

Lemma rinv_putc r c : RInv r -> RInv (r_putc w h s fg bg r c).
Proof.
  intros I. unfold r_putc. pose proof (rinv_put r c I) as I1.
  destruct (N.ltb_spec (r_x r) w) as [A|A].
  - pose proof I as (_ & _ & X & Y & _). apply (rinv_cursor (r_put r c)); [exact I1| |exact Y].
    unfold r_put. cbn [r_x]. lia.
  - now apply rinv_lf.
Qed.

Lemma sync_putc act r g c g' :
  RInv r -> Sync act r g -> calls_rel g (e_putc w h fg bg act r c) g' -> Sync act (r_putc w h s fg bg r c) g'.
Proof.
  intros I S H. unfold e_putc in H. apply calls_rel_app in H as (g1 & H1 & H2).
  pose proof (sync_put act r g c g1 I S H1) as S1. unfold r_putc.
  destruct (N.ltb_spec (r_x r) w) as [A|A].
  - apply calls_rel_nil in H2. subst g'. exact S1.
  - apply (sync_lf act (r_put r c) g1); [now apply rinv_put|exact S1|exact H2].
Qed.

Lemma rinv_iter n : forall r, RInv r -> RInv (iter_n n (fun r => r_putc w h s fg bg r (blank fg bg)) r).
Proof. induction n as [|n IH]; intros r I; cbn [iter_n]; [exact I|]. apply IH. now apply rinv_putc. Qed.

Lemma sync_iter act n : forall r g g',
  RInv r -> Sync act r g -> calls_rel g (e_iter w h s fg bg act n r) g' ->
  Sync act (iter_n n (fun r => r_putc w h s fg bg r (blank fg bg)) r) g'.
Proof.
  induction n as [|n IH]; intros r g g' I S H; cbn [e_iter iter_n] in *.
  - apply calls_rel_nil in H. now subst.
  - apply calls_rel_app in H as (g1 & H1 & H2).
    apply (IH _ g1); [now apply rinv_putc| |exact H2]. now apply (sync_putc act r g).
Qed.

Lemma rinv_byte r b : RInv r -> RInv (r_byte w h s tab fg bg r b).
Proof.
  intros I. pose proof I as (_ & _ & X & Y & _). unfold r_byte.
  destruct (b =? 13); [apply rinv_cursor; [exact I|lia|exact Y]|].
  destruct (b =? 10); [now apply rinv_lf|].
  destruct (b =? 8).
  { destruct (N.ltb_spec 1 (r_x r)); [|exact I]. apply rinv_put. apply rinv_cursor; [exact I|lia|exact Y]. }
  destruct (b =? 9); [now apply rinv_iter|]. now apply rinv_putc.
Qed.

Lemma sync_byte act r g b g' :
  RInv r -> Sync act r g -> calls_rel g (e_byte w h s tab fg bg act r b) g' ->
  Sync act (r_byte w h s tab fg bg r b) g'.
Proof.
  intros I S H. pose proof I as (_ & _ & X & Y & _). unfold e_byte in H. unfold r_byte.
  destruct (b =? 13); [apply calls_rel_nil in H; subst; exact S|].
  destruct (b =? 10); [now apply (sync_lf act r g)|].
  destruct (b =? 8).
  { destruct (N.ltb_spec 1 (r_x r)).
    - apply (sync_put act _ g); [apply rinv_cursor; [exact I|lia|exact Y]|exact S|exact H].
    - apply calls_rel_nil in H. subst. exact S. }
  destruct (b =? 9); [now apply (sync_iter act _ r g)|]. now apply (sync_putc act r g).
Qed.

Lemma rinv_bytes bs : forall r, RInv r -> RInv (fold_left (r_byte w h s tab fg bg) bs r).
Proof. induction bs as [|b t IH]; intros r I; cbn [fold_left]; [exact I|]. apply IH. now apply rinv_byte. Qed.

Lemma sync_bytes act bs : forall r g g',
  RInv r -> Sync act r g -> calls_rel g (e_bytes w h s tab fg bg act r bs) g' ->
  Sync act (fold_left (r_byte w h s tab fg bg) bs r) g'.
Proof.
  induction bs as [|b t IH]; intros r g g' I S H; cbn [e_bytes fold_left] in *.
  - apply calls_rel_nil in H. now subst.
  - apply calls_rel_app in H as (g1 & H1 & H2).
    apply (IH _ g1); [now apply rinv_byte| |exact H2]. now apply (sync_byte act r g).
Qed.

End RefLevel.

(** ---- the activation redraw, from ANY console content ---- *)
Definition is_at (c : ccall) (x y : N) : bool :=
  match c with CWrite _ _ _ x' y' => (x' =? x) && (y' =? y) | _ => false end.

Lemma writes_result (F : N -> N -> cell) (w h : N) cs : forall (g g' : cgrid),
  gw g = w -> gh g = h ->
  Forall (fun c => exists x y, 1 <= x <= w /\ 1 <= y <= h /\ c = write_call (F x y) x y) cs ->
  calls_rel g cs g' ->
  forall x y, gcell g' x y = if existsb (fun c => is_at c x y) cs then F x y else gcell g x y.
Proof.
  induction cs as [|c t IH]; intros g g' Gw Gh HF H x y.
  - apply calls_rel_nil in H. now subst.
  - inversion HF as [|c' t' (x0 & y0 & Hx0 & Hy0 & Ec) HF' Eq]. subst c' t'.
    inversion H as [|g0 c0 junk cs g0' H1 Eg Ec0 Eg']. subst g0 c0 cs g0'. subst c.
    destruct (apply_call_dims junk g (write_call (F x0 y0) x0 y0)) as (A1 & A2).
    rewrite Gw in A1. rewrite Gh in A2. rewrite (IH _ g' A1 A2 HF' H1 x y).
    cbn [existsb]. destruct (existsb (fun c => is_at c x y) t); [now rewrite orb_true_r|].
    rewrite orb_false_r. destruct (F x0 y0) as [[ch f] b] eqn:EF. cbn [write_call is_at].
    rewrite apply_write_cell by lia.
    replace (x0 =? x) with (x =? x0) by apply N.eqb_sym.
    replace (y0 =? y) with (y =? y0) by apply N.eqb_sym.
    destruct ((x =? x0) && (y =? y0)) eqn:E; [|reflexivity].
    apply andb_true_iff in E as (E1 & E2). apply N.eqb_eq in E1. apply N.eqb_eq in E2. subst x y.
    now rewrite EF.
Qed.

Lemma seqN_in x a n : a <= x < a + n -> In x (seqN a n).
Proof.
  intros H. unfold seqN. apply in_map_iff. exists (N.to_nat x). split; [lia|]. apply in_seq. lia.
Qed.

Lemma redraw_result w h r (g g' : cgrid) :
  gw g = w -> gh g = h -> calls_rel g (e_redraw w h r) g' ->
  gw g' = w /\ gh g' = h /\ forall x y, 1 <= x <= w -> 1 <= y <= h -> gcell g' x y = r_cell r x y.
Proof.
  intros Gw Gh H. destruct (calls_rel_dims _ _ _ H) as (D1 & D2).
  split; [congruence|]. split; [congruence|]. intros x y Hx Hy.
  rewrite (writes_result (r_cell r) w h (e_redraw w h r) g g' Gw Gh); [| |exact H].
  - replace (existsb (fun c => is_at c x y) (e_redraw w h r)) with true; [reflexivity|].
    symmetry. apply existsb_exists. exists (write_call (r_cell r x y) x y). split.
    + unfold e_redraw. apply in_flat_map. exists y. split; [apply seqN_in; lia|].
      apply in_map_iff. exists x. split; [reflexivity|apply seqN_in; lia].
    + destruct (r_cell r x y) as [[ch f] b]. cbn [write_call is_at]. now rewrite !N.eqb_refl.
  - unfold e_redraw. apply Forall_forall. intros c Hc. apply in_flat_map in Hc as (y0 & Hy0 & Hc).
    apply in_map_iff in Hc as (x0 & <- & Hx0). apply in_seqN in Hy0. apply in_seqN in Hx0.
    exists x0, y0. repeat split; lia.
Qed.

Section RefLevel2.
Variables (w h s tab fg bg : N).
Hypothesis Hw : 1 <= w.
Hypothesis Hh : 1 <= h.

Notation RInv := (RInv w h s fg bg).
Notation Sync := (Sync w h).

Lemma rinv_step r o : RInv r -> RInv (r_step w h s tab fg bg r o).
Proof.
  intros I. destruct o as [w0 h0 f0 b0|bs|b|x y|s']; cbn [r_step]; try exact I.
  - now apply rinv_bytes.
  - now apply rinv_byte.
  - pose proof I as (_ & _ & X & Y & _). unfold r_set_cursor. apply rinv_cursor; [exact I| |].
    + unfold clamp. destruct (N.ltb_spec x 1); [lia|]. destruct (N.ltb_spec w x); lia.
    + unfold clamp. destruct (N.ltb_spec y 1); [lia|]. destruct (N.ltb_spec h y); lia.
Qed.

(** one API call keeps the console equal to the viewport of an active terminal; activation
    establishes it whatever the console showed *)
Lemma sync_step st r g o g' :
  RInv r -> gw g = w -> gh g = h ->
  (st = tty_StateActive -> Sync true r g) ->
  calls_rel g (e_step w h s tab fg bg st r o) g' ->
  Sync (st_step st o =? tty_StateActive) (r_step w h s tab fg bg r o) g'.
Proof.
  intros I Gw Gh S H.
  assert (S0 : Sync (st =? tty_StateActive) r g).
  { destruct (N.eqb_spec st tty_StateActive) as [E|E]; [now apply S|].
    split; [assumption|]. split; [assumption|]. discriminate. }
  destruct o as [w0 h0 f0 b0|bs|b|x y|s']; cbn [r_step e_step st_step] in *.
  - apply calls_rel_nil in H. subst g'. exact S0.
  - now apply (sync_bytes w h s tab fg bg Hw Hh _ bs r g).
  - now apply (sync_byte w h s tab fg bg Hw Hh _ r g).
  - apply calls_rel_nil in H. subst g'. exact S0.
  - destruct (N.eqb_spec st s') as [->|Ne].
    + apply calls_rel_nil in H. subst g'. exact S0.
    + destruct (N.eqb_spec s' tty_StateActive) as [->|Na].
      * destruct (redraw_result w h r g g' Gw Gh H) as (A & B & C).
        split; [exact A|]. split; [exact B|]. intros _. exact C.
      * apply calls_rel_nil in H. subst g'. split; [assumption|]. split; [assumption|]. discriminate.
Qed.

(** every expected call lies inside the grid *)
Lemma in_grid_put act r c : RInv r -> Forall (call_in_grid w h) (e_put act r c).
Proof.
  intros (_ & _ & X & Y & _). unfold e_put. destruct act; [|constructor].
  constructor; [|constructor]. destruct c as [[ch f] b]. cbn [write_call call_in_grid]. lia.
Qed.

Lemma in_grid_lf act r : RInv r -> Forall (call_in_grid w h) (e_lf w h fg bg act r).
Proof.
  intros (_ & _ & X & Y & _). unfold e_lf. destruct (N.ltb_spec (r_y r) h); [constructor|].
  destruct act; [|constructor]. repeat constructor; cbn [call_in_grid]; lia.
Qed.

Lemma in_grid_putc act r c : RInv r -> Forall (call_in_grid w h) (e_putc w h fg bg act r c).
Proof.
  intros I. unfold e_putc. apply Forall_app. split; [now apply in_grid_put|].
  destruct (r_x r <? w); [constructor|]. apply in_grid_lf. now apply rinv_put.
Qed.

Lemma in_grid_iter act n : forall r, RInv r -> Forall (call_in_grid w h) (e_iter w h s fg bg act n r).
Proof.
  induction n as [|n IH]; intros r I; cbn [e_iter]; [constructor|].
  apply Forall_app. split; [now apply in_grid_putc|]. apply IH. now apply rinv_putc.
Qed.

Lemma in_grid_byte act r b : RInv r -> Forall (call_in_grid w h) (e_byte w h s tab fg bg act r b).
Proof.
  intros I. pose proof I as (_ & _ & X & Y & _). unfold e_byte.
  destruct (b =? 13); [constructor|]. destruct (b =? 10); [now apply in_grid_lf|].
  destruct (b =? 8).
  { destruct (N.ltb_spec 1 (r_x r)); [|constructor]. apply in_grid_put. apply rinv_cursor; [exact I|lia|exact Y]. }
  destruct (b =? 9); [now apply in_grid_iter|]. now apply in_grid_putc.
Qed.

Lemma in_grid_bytes act bs : forall r, RInv r -> Forall (call_in_grid w h) (e_bytes w h s tab fg bg act r bs).
Proof.
  induction bs as [|b t IH]; intros r I; cbn [e_bytes]; [constructor|].
  apply Forall_app. split; [now apply in_grid_byte|]. apply IH. now apply (rinv_byte w h s tab fg bg Hw Hh).
Qed.

Lemma in_grid_step st r o : RInv r -> Forall (call_in_grid w h) (e_step w h s tab fg bg st r o).
Proof.
  intros I. destruct o as [w0 h0 f0 b0|bs|b|x y|s']; cbn [e_step]; try constructor.
  - now apply in_grid_bytes.
  - now apply in_grid_byte.
  - destruct (st =? s'); [constructor|]. destruct (s' =? tty_StateActive); [|constructor].
    unfold e_redraw. apply Forall_forall. intros c Hc. apply in_flat_map in Hc as (y0 & Hy0 & Hc).
    apply in_map_iff in Hc as (x0 & <- & Hx0). apply in_seqN in Hy0. apply in_seqN in Hx0.
    destruct (r_cell r x0 y0) as [[ch f] b]. cbn [write_call call_in_grid]. lia.
Qed.

(** an inactive terminal that is not being activated expects no call at all *)
Lemma silent_putc r c : e_putc w h fg bg false r c = [].
Proof.
  unfold e_putc, e_put, e_lf. cbn [app]. destruct (r_x r <? w); [reflexivity|].
  destruct (r_y (r_put r c) <? h); reflexivity.
Qed.

Lemma silent_byte r b : e_byte w h s tab fg bg false r b = [].
Proof.
  unfold e_byte. destruct (b =? 13); [reflexivity|].
  destruct (b =? 10); [unfold e_lf; destruct (r_y r <? h); reflexivity|].
  destruct (b =? 8); [destruct (1 <? r_x r); reflexivity|].
  destruct (b =? 9); [|apply silent_putc].
  generalize (N.to_nat tab). intros n. revert r. induction n as [|n IH]; intros r; cbn [e_iter]; [reflexivity|].
  now rewrite silent_putc, IH.
Qed.

Lemma silent_bytes bs : forall r, e_bytes w h s tab fg bg false r bs = [].
Proof.
  induction bs as [|b t IH]; intros r; cbn [e_bytes]; [reflexivity|]. now rewrite silent_byte, IH.
Qed.

Lemma silent_step st r o :
  st <> tty_StateActive -> (forall s', o = OSetState s' -> s' <> tty_StateActive) ->
  e_step w h s tab fg bg st r o = [].
Proof.
  intros Hs Ho.
  destruct o as [w0 h0 f0 b0|bs|b|x y|s']; cbn [e_step]; try reflexivity.
  - destruct (N.eqb_spec st tty_StateActive); [contradiction|]. apply silent_bytes.
  - destruct (N.eqb_spec st tty_StateActive); [contradiction|]. apply silent_byte.
  - destruct (st =? s'); [reflexivity|].
    destruct (N.eqb_spec s' tty_StateActive) as [E|E]; [|reflexivity].
    exfalso. now apply (Ho s').
Qed.

End RefLevel2.

(** ---- histories: expected calls of a whole run ---- *)
Fixpoint e_run (w h s tab fg bg : N) (st : N) (r : rterm) (ops : list op) : list ccall :=
  match ops with
  | [] => []
  | o :: t => e_step w h s tab fg bg st r o ++
              e_run w h s tab fg bg (st_step st o) (r_step w h s tab fg bg r o) t
  end.

Section Histories.
Variables (w h s tab fg bg : N).
Hypothesis Hw : 1 <= w.
Hypothesis Hh : 1 <= h.

Notation RInv := (RInv w h s fg bg).
Notation Sync := (Sync w h).

Lemma sync_run ops : forall st r g g',
  RInv r -> gw g = w -> gh g = h -> (st = tty_StateActive -> Sync true r g) ->
  calls_rel g (e_run w h s tab fg bg st r ops) g' ->
  Sync (fold_left st_step ops st =? tty_StateActive) (fold_left (r_step w h s tab fg bg) ops r) g'.
Proof.
  induction ops as [|o t IH]; intros st r g g' I Gw Gh S H; cbn [e_run fold_left] in *.
  - apply calls_rel_nil in H. subst g'.
    destruct (N.eqb_spec st tty_StateActive) as [E|E]; [now apply S|].
    split; [assumption|]. split; [assumption|]. discriminate.
  - apply calls_rel_app in H as (g1 & H1 & H2).
    pose proof (sync_step w h s tab fg bg Hw Hh st r g o g1 I Gw Gh S H1) as (Gw1 & Gh1 & S1).
    apply (IH _ _ g1); [now apply rinv_step|exact Gw1|exact Gh1| |exact H2].
    intros E. split; [exact Gw1|]. split; [exact Gh1|]. intros _. apply S1. now apply N.eqb_eq.
Qed.

Lemma in_grid_run ops : forall st r, RInv r -> Forall (call_in_grid w h) (e_run w h s tab fg bg st r ops).
Proof.
  induction ops as [|o t IH]; intros st r I; cbn [e_run]; [constructor|].
  apply Forall_app. split; [now apply in_grid_step|]. apply IH. now apply rinv_step.
Qed.

Lemma silent_run ops : forall st r,
  st <> tty_StateActive -> (forall s', In (OSetState s') ops -> s' <> tty_StateActive) ->
  e_run w h s tab fg bg st r ops = [] /\ fold_left st_step ops st <> tty_StateActive.
Proof.
  induction ops as [|o t IH]; intros st r Hs Ho; cbn [e_run fold_left]; [auto|].
  rewrite silent_step; [|exact Hs|intros s' ->; apply Ho; now left]. cbn [app].
  apply IH.
  - destruct o; cbn [st_step]; try exact Hs. apply Ho. now left.
  - intros s' Hi. apply Ho. now right.
Qed.

End Histories.

(** ---- the model of vt.go composed with the console ---- *)
Section ModelLevel.
Variables (w h s tab fg bg : N).
Hypothesis Hw : 1 <= w.
Hypothesis Hh : 1 <= h.
Hypothesis Hsz : w * (h + s) * 3 < two32.

Lemma rinv_of_model v r : InvVT w h s tab fg bg v -> R w h s v r -> RInv w h s fg bg r.
Proof.
  intros (G & (DL & DY & DV & DB) & (CX & CO)) ((LR & EV & EY) & EX).
  destruct LR as (L & LW & LC). unfold RInv. rewrite EX, EY, EV.
  split; [exact L|]. split; [exact LW|]. split; [exact CX|]. split; [exact DY|]. split; [exact DV|].
  intros i j Hi1 Hi2 Hj. rewrite LC by assumption. now apply DB.
Qed.

Lemma r_cell_v_cell v r x y : InvVT w h s tab fg bg v -> R w h s v r ->
  1 <= x <= w -> 1 <= y <= h -> r_cell r x y = v_cell v x y.
Proof.
  intros (G & (DL & DY & DV & DB) & (CX & CO)) ((LR & EV & EY) & EX) Hx Hy.
  destruct G as (_ & Gvw & _). destruct LR as (L & LW & LC).
  rewrite r_cell_lcell, EV. rewrite LC by lia. unfold v_cell, off. now rewrite Gvw.
Qed.

Lemma run_sim18 ops : forall v r,
  InvVT w h s tab fg bg v -> R w h s v r -> Forall op_wf ops ->
  exists v', run_ops v ops = Ok v' /\ InvVT w h s tab fg bg v' /\
    R w h s v' (fold_left (r_step w h s tab fg bg) ops r) /\
    st v' = fold_left st_step ops (st v) /\
    trace v' = rev (e_run w h s tab fg bg (st v) r ops) ++ trace v.
Proof.
  induction ops as [|o t IH]; intros v r I RR WF.
  - exists v. cbn [run_ops fold_left e_run rev app]. auto.
  - inversion WF as [|? ? WFo WFt]; subst.
    destruct (step_sim w h s tab fg bg Hw Hh Hsz v r o I RR WFo) as (v1 & res & E & I1 & R1 & S1 & T1).
    destruct (IH v1 _ I1 R1 WFt) as (v2 & E2 & I2 & R2 & S2 & T2).
    exists v2. cbn [run_ops fold_left e_run]. rewrite E. cbn [bind fst].
    split; [exact E2|]. split; [exact I2|]. split; [exact R2|]. split; [now rewrite S2, S1|].
    rewrite T2, T1, S1. now rewrite rev_app_distr, app_assoc.
Qed.

Lemma new_state_inactive : tty_newState <> tty_StateActive.
Proof. intros E. discriminate E. Qed.

End ModelLevel.

(** ---- the C18 statements ---- *)
Theorem sync_inv_thm :
  forall w h sb tab fg bg ops (g0 : cgrid),
    1 <= w -> 1 <= h -> tab <= 255 -> w * (h + sb) * 3 < two32 -> Forall op_wf ops ->
    gw g0 = w -> gh g0 = h ->
    exists v0 v, attach (new_vt tab sb) w h fg bg = Ok v0 /\ run_ops v0 ops = Ok v /\
      forall g, calls_rel g0 (rev (trace v)) g -> st v = tty_StateActive -> shows g v.
Proof.
  intros w h sb tab fg bg ops g0 Hw Hh Ht Hsz WF Gw Gh.
  destruct (attach_sim w h sb tab fg bg Hw Hh Hsz) as (v0 & E0 & I0 & R0 & S0 & T0).
  destruct (run_sim18 w h sb tab fg bg Hw Hh Hsz ops v0 _ I0 R0 WF) as (v & E & I & RR & S & T).
  exists v0, v. split; [exact E0|]. split; [exact E|]. intros g H Ha.
  rewrite T, T0, app_nil_r, rev_involutive in H.
  pose proof (rinv_of_model w h sb tab fg bg v0 _ I0 R0) as RI0.
  destruct (sync_run w h sb tab fg bg Hw Hh ops (st v0) _ g0 g RI0 Gw Gh) as (Gw' & Gh' & SY); [|exact H|].
  { rewrite S0. intros E1. now apply new_state_inactive in E1. }
  rewrite <- S in SY. destruct I as (G & D & C). pose proof G as (_ & Gvw & Gvh & _).
  split; [congruence|]. split; [congruence|]. intros x y Hx Hy. rewrite Gvw in Hx. rewrite Gvh in Hy.
  rewrite SY; [|now apply N.eqb_eq|exact Hx|exact Hy].
  apply (r_cell_v_cell w h sb tab fg bg); try assumption. exact (conj G (conj D C)).
Qed.

Theorem activate_redraws_thm :
  forall w h sb tab fg bg ops,
    1 <= w -> 1 <= h -> tab <= 255 -> w * (h + sb) * 3 < two32 -> Forall op_wf ops ->
    exists v0 v, attach (new_vt tab sb) w h fg bg = Ok v0 /\ run_ops v0 ops = Ok v /\
      (st v <> tty_StateActive ->
       exists v' calls, set_state v tty_StateActive = Ok v' /\ st v' = tty_StateActive /\
         trace v' = rev calls ++ trace v /\
         forall g g' : cgrid, gw g = w -> gh g = h -> calls_rel g calls g' -> shows g' v').
Proof.
  intros w h sb tab fg bg ops Hw Hh Ht Hsz WF.
  destruct (attach_sim w h sb tab fg bg Hw Hh Hsz) as (v0 & E0 & I0 & R0 & S0 & T0).
  destruct (run_sim18 w h sb tab fg bg Hw Hh Hsz ops v0 _ I0 R0 WF) as (v & E & I & RR & S & T).
  exists v0, v. split; [exact E0|]. split; [exact E|]. intros Hs.
  destruct (set_state_sim w h sb tab fg bg Hw Hh Hsz v _ tty_StateActive I RR) as (v' & E' & I' & R' & S' & T').
  destruct (N.eqb_spec (st v) tty_StateActive) as [|_]; [contradiction|].
  rewrite N.eqb_refl in T'.
  exists v', (e_redraw w h (fold_left (r_step w h sb tab fg bg) ops (r_init w h sb fg bg))).
  split; [exact E'|]. split; [exact S'|]. split; [exact T'|].
  intros g g' Gw Gh H. destruct (redraw_result w h _ g g' Gw Gh H) as (A & B & C).
  destruct I' as (G' & D' & C'). pose proof G' as (_ & Gvw & Gvh & _).
  split; [congruence|]. split; [congruence|]. intros x y Hx Hy. rewrite Gvw in Hx. rewrite Gvh in Hy.
  rewrite C by assumption.
  apply (r_cell_v_cell w h sb tab fg bg); try assumption. exact (conj G' (conj D' C')).
Qed.

Theorem inactive_silent_thm :
  forall w h sb tab fg bg ops1 ops2,
    1 <= w -> 1 <= h -> tab <= 255 -> w * (h + sb) * 3 < two32 ->
    Forall op_wf ops1 -> Forall op_wf ops2 ->
    (forall s', In (OSetState s') ops2 -> s' <> tty_StateActive) ->
    exists v0 v1 v2, attach (new_vt tab sb) w h fg bg = Ok v0 /\
      run_ops v0 ops1 = Ok v1 /\ run_ops v1 ops2 = Ok v2 /\
      (st v1 <> tty_StateActive -> trace v2 = trace v1 /\ st v2 <> tty_StateActive).
Proof.
  intros w h sb tab fg bg ops1 ops2 Hw Hh Ht Hsz WF1 WF2 NA.
  destruct (attach_sim w h sb tab fg bg Hw Hh Hsz) as (v0 & E0 & I0 & R0 & S0 & T0).
  destruct (run_sim18 w h sb tab fg bg Hw Hh Hsz ops1 v0 _ I0 R0 WF1) as (v1 & E1 & I1 & R1 & S1 & T1).
  destruct (run_sim18 w h sb tab fg bg Hw Hh Hsz ops2 v1 _ I1 R1 WF2) as (v2 & E2 & I2 & R2 & S2 & T2).
  exists v0, v1, v2. split; [exact E0|]. split; [exact E1|]. split; [exact E2|]. intros Hs.
  destruct (silent_run w h sb tab fg bg ops2 (st v1) (fold_left (r_step w h sb tab fg bg) ops1 (r_init w h sb fg bg)) Hs NA) as (A & B).
  rewrite A in T2. split; [exact T2|]. now rewrite S2.
Qed.

Theorem in_grid_thm :
  forall w h sb tab fg bg ops,
    1 <= w -> 1 <= h -> tab <= 255 -> w * (h + sb) * 3 < two32 -> Forall op_wf ops ->
    exists v0 v, attach (new_vt tab sb) w h fg bg = Ok v0 /\ run_ops v0 ops = Ok v /\
      Forall (call_in_grid w h) (trace v).
Proof.
  intros w h sb tab fg bg ops Hw Hh Ht Hsz WF.
  destruct (attach_sim w h sb tab fg bg Hw Hh Hsz) as (v0 & E0 & I0 & R0 & S0 & T0).
  destruct (run_sim18 w h sb tab fg bg Hw Hh Hsz ops v0 _ I0 R0 WF) as (v & E & I & RR & S & T).
  exists v0, v. split; [exact E0|]. split; [exact E|].
  rewrite T, T0, app_nil_r. apply Forall_rev.
  apply (in_grid_run w h sb tab fg bg Hw Hh). apply (rinv_of_model w h sb tab fg bg v0); assumption.
Qed.

(** the executable composition used by the correspondence driver is one instance of [calls_rel] *)
Lemma apply_calls_rel cs : forall g, calls_rel g cs (apply_calls g cs).
Proof.
  induction cs as [|c t IH]; intros g; cbn [apply_calls]; [constructor|].
  econstructor. apply IH.
Qed.
