(** C18: an ideal (cell-level) console driven by the calls of the reference terminal stays equal to
    the reference terminal's viewport (reference level), and the model of vt.go makes exactly those
    calls (Tty/VtProofs.v) — hence the model + console composition of Tty/VtCons.v is in sync. *)
From Coq Require Import NArith ZArith List Bool Lia.
From Coq Require Import ZifyBool ZifyN ZifyNat.
From FF Require Import Lib.Word Gen.Consts_device_tty Console.Grid
     Tty.Vt Tty.VtSpec Tty.VtConsSpec Tty.ListFacts Tty.VtProofs Tty.VtCons.
Import ListNotations.
Local Open Scope N_scope.
Ltac Zify.zify_post_hook ::= Z.div_mod_to_equations.

(** ---- calls on a grid ---- *)
Lemma calls_rel_app g a b g'' :
  calls_rel g (a ++ b) g'' <-> exists g', calls_rel g a g' /\ calls_rel g' b g''.
Proof.
  revert g. induction a as [|c a IH]; intros g; cbn [app].
  - split.
    + intros H. exists g. split; [constructor|exact H].
    + intros (g' & H1 & H2). inversion H1; subst. exact H2.
  - split.
    + intros H. inversion H as [|g0 c0 junk cs g0' H1]; subst.
      apply IH in H1 as (g' & H1 & H2). exists g'. split; [econstructor; exact H1|exact H2].
    + intros (g' & H1 & H2). inversion H1 as [|g0 c0 junk cs g0' H1']; subst.
      econstructor. apply IH. exists g'. split; [exact H1'|exact H2].
Qed.

Lemma calls_rel_nil g g' : calls_rel g [] g' -> g' = g.
Proof. intros H. now inversion H. Qed.

Lemma apply_call_dims junk (g : cgrid) c : gw (apply_call junk g c) = gw g /\ gh (apply_call junk g c) = gh g.
Proof.
  destruct c as [ch f b x y|x y wd ht f b|d n]; cbn [apply_call].
  - apply g_write_dims.
  - apply g_fill_dims.
  - destruct (dir_of d); [apply g_scroll_dims|auto].
Qed.

Lemma calls_rel_dims g cs g' : calls_rel g cs g' -> gw g' = gw g /\ gh g' = gh g.
Proof.
  induction 1 as [g|g c junk cs g' H IH]; [auto|].
  destruct (apply_call_dims junk g c) as (A & B). rewrite <- A, <- B. exact IH.
Qed.

Lemma apply_write_cell junk (g : cgrid) ch f b x0 y0 x y :
  1 <= x0 <= gw g -> 1 <= y0 <= gh g ->
  gcell (apply_call junk g (CWrite ch f b x0 y0)) x y =
  if (x =? x0) && (y =? y0) then (ch, f, b) else gcell g x y.
Proof.
  intros Hx Hy. cbn [apply_call]. unfold g_write.
  replace (in_grid g x0 y0) with true; [reflexivity|].
  unfold in_grid. symmetry. rewrite !andb_true_iff, !N.leb_le. lia.
Qed.

(** the pair of calls of a line feed on the last viewport line: scroll up by one, clear the last line *)
Lemma apply_lf_cells j1 j2 (g : cgrid) w h fg bg x y :
  gw g = w -> gh g = h -> 1 <= w -> 1 <= h -> 1 <= x <= w -> 1 <= y <= h ->
  gcell (apply_call j2 (apply_call j1 g (CScroll console_ScrollDirUp 1)) (CFill 1 h w 1 fg bg)) x y =
  if y <? h then gcell g x (y + 1) else (32, fg, bg).
Proof.
  intros Gw Gh Hw Hh Hx Hy.
  cbn [apply_call]. unfold dir_of. rewrite N.eqb_refl.
  unfold g_scroll. replace (scroll_ok g 1) with true
    by (unfold scroll_ok; symmetry; rewrite andb_true_iff, !N.leb_le; lia).
  unfold g_fill. cbn [gcell gw gh].
  match goal with |- (if ?c then _ else _) = _ => destruct c eqn:F end.
  - apply in_fill_spec in F. cbn [gw gh] in F. rewrite Gw, Gh in F. unfold clamp1 in F.
    destruct (N.eqb_spec 1 0); [lia|]. destruct (N.eqb_spec h 0); [lia|].
    destruct (N.leb_spec h h); [|lia].
    destruct (N.ltb_spec y h); [|reflexivity].
    destruct (N.leb_spec w 1); lia.
  - destruct (N.ltb_spec y h) as [A|A].
    + rewrite Gh. destruct (N.leb_spec (y + 1) h); [reflexivity|lia].
    + exfalso. assert (T : in_fill (mkGrid (gw g) (gh g)
               (fun x0 y0 : N => if y0 + 1 <=? gh g then gcell g x0 (y0 + 1) else j1 x0 y0)) 1 h w 1 x y = true);
        [|congruence].
      apply in_fill_spec. cbn [gw gh]. rewrite Gw, Gh. unfold clamp1.
      destruct (N.eqb_spec 1 0); [lia|]. destruct (N.eqb_spec h 0); [lia|].
      destruct (N.leb_spec h h); [|lia]. destruct (N.leb_spec w 1); lia.
Qed.

Section RefLevel.
Variables (w h s tab fg bg : N).
Hypothesis Hw : 1 <= w.
Hypothesis Hh : 1 <= h.

(** ---- invariant of the reference terminal ---- *)
Definition RInv (r : rterm) : Prop :=
  length (r_lines r) = N.to_nat (h + s) /\
  (forall i, i < h + s -> length (nth (N.to_nat i) (r_lines r) []) = N.to_nat w) /\
  1 <= r_x r <= w /\ 1 <= r_y r <= h /\ r_view r + h <= h + s /\
  (forall i j, r_view r + h <= i -> i < h + s -> j < w -> lcell (r_lines r) i j = (32, fg, bg)).

Lemma r_cell_lcell r x y : r_cell r x y = lcell (r_lines r) (r_view r + y - 1) (x - 1).
Proof. reflexivity. Qed.

Lemma lcell_upd ls i0 j0 c i j :
  (N.to_nat i0 < length ls)%nat -> (N.to_nat j0 < length (nth (N.to_nat i0) ls []))%nat ->
  lcell (upd ls (N.to_nat i0) (fun ln => upd ln (N.to_nat j0) (fun _ => c))) i j =
  if (i =? i0) && (j =? j0) then c else lcell ls i j.
Proof.
  intros Hi Hj. unfold lcell.
  destruct (N.eqb_spec i i0) as [->|Ni]; cbn [andb].
  - rewrite upd_nth_same by assumption.
    destruct (N.eqb_spec j j0) as [->|Nj].
    + now rewrite upd_nth_same.
    + rewrite upd_nth_other by lia. reflexivity.
  - rewrite upd_nth_other by lia. reflexivity.
Qed.

Lemma rinv_cursor r x y :
  RInv r -> 1 <= x <= w -> 1 <= y <= h -> RInv (mkR (r_lines r) (r_view r) x y).
Proof. intros (L & LW & _ & _ & V & B) Hx Hy. unfold RInv. cbn [r_lines r_view r_x r_y]. auto 10. Qed.

Lemma rinv_put r c : RInv r -> RInv (r_put r c).
Proof.
  intros (L & LW & X & Y & V & B). unfold RInv, r_put. cbn [r_lines r_view r_x r_y].
  split; [now rewrite upd_length|]. split; [|split; [exact X|split; [exact Y|split; [exact V|]]]].
  - intros i Hi. destruct (N.eq_dec i (r_view r + r_y r - 1)) as [->|Ne].
    + rewrite upd_nth_same by lia. rewrite upd_length. apply LW. lia.
    + rewrite upd_nth_other by lia. now apply LW.
  - intros i j Hi1 Hi2 Hj. rewrite lcell_upd; [|lia|rewrite LW; lia].
    destruct (N.eqb_spec i (r_view r + r_y r - 1)); [lia|]. cbn [andb]. now apply B.
Qed.

Lemma r_cell_put r c x y : RInv r -> 1 <= y ->
  r_cell (r_put r c) x y = if (x =? r_x r) && (y =? r_y r) then c else
                           if x =? 0 then r_cell (r_put r c) x y else r_cell r x y.
Proof.
  intros (L & LW & X & Y & V & B) Hy.
  destruct (N.eqb_spec x 0) as [->|Nx].
  { destruct (N.eqb_spec 0 (r_x r)); [lia|]. reflexivity. }
  rewrite !r_cell_lcell. unfold r_put at 1 2. cbn [r_lines r_view].
  rewrite lcell_upd; [|lia|rewrite LW; lia].
  destruct (N.eqb_spec (r_view r + y - 1) (r_view r + r_y r - 1));
    destruct (N.eqb_spec y (r_y r)); try lia;
    destruct (N.eqb_spec (x - 1) (r_x r - 1)); destruct (N.eqb_spec x (r_x r)); try lia; reflexivity.
Qed.

Lemma rinv_lf r : RInv r -> RInv (r_lf w h s fg bg r).
Proof.
  intros (L & LW & X & Y & V & B). unfold r_lf.
  destruct (N.ltb_spec (r_y r) h) as [A|A].
  - unfold RInv. cbn [r_lines r_view r_x r_y]. repeat split; try assumption; lia.
  - destruct (N.ltb_spec (r_view r + h) (h + s)) as [C|C].
    + unfold RInv. cbn [r_lines r_view r_x r_y]. repeat split; try assumption; try lia.
      intros i j Hi1 Hi2 Hj. apply B; lia.
    + unfold RInv. cbn [r_lines r_view r_x r_y].
      pose proof (scroll_rows h s (r_lines r) (blank_line w fg bg) (r_view r) L ltac:(lia)) as Hrow.
      split; [apply scroll_length; [assumption|lia]|].
      split; [|split; [lia|split; [lia|split; [lia|intros; lia]]]].
      intros i Hi. rewrite Hrow by assumption.
      destruct (N.ltb_spec i (r_view r)); [now apply LW|].
      destruct (N.ltb_spec i (h + s - 1)); [apply LW; lia|].
      unfold blank_line. now rewrite repeat_length.
Qed.

(** after a line feed on the last viewport line every viewport line shows what the next one
    showed, and the last line is blank *)
Lemma r_cell_lf_last r x y : RInv r -> r_y r = h -> 1 <= x <= w -> 1 <= y <= h ->
  r_cell (r_lf w h s fg bg r) x y = if y <? h then r_cell r x (y + 1) else (32, fg, bg).
Proof.
  intros (L & LW & X & Y & V & B) Ey Hx Hy. unfold r_lf.
  destruct (N.ltb_spec (r_y r) h) as [A|_]; [lia|].
  destruct (N.ltb_spec (r_view r + h) (h + s)) as [C|C].
  - rewrite !r_cell_lcell. cbn [r_lines r_view].
    destruct (N.ltb_spec y h) as [D|D].
    + f_equal. lia.
    + replace (r_view r + 1 + y - 1) with (r_view r + h) by lia. apply B; lia.
  - rewrite !r_cell_lcell. cbn [r_lines r_view]. unfold lcell.
    rewrite (scroll_rows h s (r_lines r) (blank_line w fg bg) (r_view r) L) by lia.
    destruct (N.ltb_spec (r_view r + y - 1) (r_view r)); [lia|].
    destruct (N.ltb_spec (r_view r + y - 1) (h + s - 1)); destruct (N.ltb_spec y h); try lia.
    + do 2 f_equal. lia.
    + unfold blank_line. rewrite nth_repeat_lt by lia. reflexivity.
Qed.

Lemma r_cell_lf_next r x y : r_y r < h -> r_cell (r_lf w h s fg bg r) x y = r_cell r x y.
Proof.
  intros A. unfold r_lf. destruct (N.ltb_spec (r_y r) h); [reflexivity|lia].
Qed.

(** ---- the console stays equal to the viewport ---- *)
Definition Sync (act : bool) (r : rterm) (g : cgrid) : Prop :=
  gw g = w /\ gh g = h /\
  (act = true -> forall x y, 1 <= x <= w -> 1 <= y <= h -> gcell g x y = r_cell r x y).

Lemma sync_cursor act r g x y : Sync act r g -> Sync act (mkR (r_lines r) (r_view r) x y) g.
Proof. intros H. exact H. Qed.

Lemma sync_put act r g c g' :
  RInv r -> Sync act r g -> calls_rel g (e_put act r c) g' -> Sync act (r_put r c) g'.
Proof.
  intros I (Gw & Gh & S) H. pose proof I as (L & LW & X & Y & V & B). unfold e_put in H.
  destruct act.
  - inversion H as [|g0 c0 junk cs g0' H1]; subst. apply calls_rel_nil in H1. subst g'.
    destruct c as [[ch f] b]. cbn [write_call].
    destruct (apply_call_dims junk g (CWrite ch f b (r_x r) (r_y r))) as (A1 & A2).
    split; [congruence|]. split; [congruence|]. intros _ x y Hx Hy.
    rewrite apply_write_cell by lia. rewrite r_cell_put by (assumption || lia).
    destruct ((x =? r_x r) && (y =? r_y r)); [reflexivity|].
    destruct (N.eqb_spec x 0); [lia|]. now apply S.
  - apply calls_rel_nil in H. subst g'. split; [assumption|]. split; [assumption|]. discriminate.
Qed.

Lemma sync_lf act r g g' :
  RInv r -> Sync act r g -> calls_rel g (e_lf w h fg bg act r) g' -> Sync act (r_lf w h s fg bg r) g'.
Proof.
  intros I (Gw & Gh & S) H. pose proof I as (L & LW & X & Y & V & B). unfold e_lf in H.
  destruct (N.ltb_spec (r_y r) h) as [A|A].
  - apply calls_rel_nil in H. subst g'. split; [assumption|]. split; [assumption|].
    intros Ha x y Hx Hy. rewrite r_cell_lf_next by assumption. now apply S.
  - destruct act.
    + inversion H as [|g0 c0 j1 cs g0' H1]; subst.
      inversion H1 as [|g1 c1 j2 cs1 g1' H2]; subst. apply calls_rel_nil in H2. subst g'.
      assert (Ey : r_y r = h) by lia. rewrite Ey.
      match goal with |- Sync _ _ ?G => assert (D : gw G = w /\ gh G = h) end.
      { destruct (apply_call_dims j2 (apply_call j1 g (CScroll console_ScrollDirUp 1)) (CFill 1 h w 1 fg bg)) as (A1 & A2).
        destruct (apply_call_dims j1 g (CScroll console_ScrollDirUp 1)) as (A3 & A4). split; congruence. }
      split; [apply D|]. split; [apply D|]. intros _ x y Hx Hy.
      rewrite apply_lf_cells by assumption. rewrite r_cell_lf_last by assumption.
      destruct (N.ltb_spec y h); [|reflexivity]. apply S; [reflexivity|lia|lia].
    + apply calls_rel_nil in H. subst g'. split; [assumption|]. split; [assumption|]. discriminate.
Qed.

Lemma rinv_putc r c : RInv r -> RInv (r_putc w h s fg bg r c).
Proof.
  intros I. unfold r_putc. pose proof (rinv_put r c I) as I1.
  destruct (N.ltb_spec (r_x r) w) as [A|A].
  - pose proof I as (_ & _ & X & Y & _). apply (rinv_cursor (r_put r c)); [exact I1| |exact Y].
    unfold r_put. cbn [r_x]. lia.
  - now apply rinv_lf.
Qed.

Lemma sync_putc act r g c g' :
  RInv r -> Sync act r g -> calls_rel g (e_putc w h fg bg act r c) g' -> Sync act (r_putc w h s fg bg r c) g'.
Proof.
  intros I S H. unfold e_putc in H. apply calls_rel_app in H as (g1 & H1 & H2).
  pose proof (sync_put act r g c g1 I S H1) as S1. unfold r_putc.
  destruct (N.ltb_spec (r_x r) w) as [A|A].
  - apply calls_rel_nil in H2. subst g'. exact S1.
  - apply (sync_lf act (r_put r c) g1); [now apply rinv_put|exact S1|exact H2].
Qed.

Lemma rinv_iter n : forall r, RInv r -> RInv (iter_n n (fun r => r_putc w h s fg bg r (blank fg bg)) r).
Proof. induction n as [|n IH]; intros r I; cbn [iter_n]; [exact I|]. apply IH. now apply rinv_putc. Qed.

Lemma sync_iter act n : forall r g g',
  RInv r -> Sync act r g -> calls_rel g (e_iter w h s fg bg act n r) g' ->
  Sync act (iter_n n (fun r => r_putc w h s fg bg r (blank fg bg)) r) g'.
Proof.
  induction n as [|n IH]; intros r g g' I S H; cbn [e_iter iter_n] in *.
  - apply calls_rel_nil in H. now subst.
  - apply calls_rel_app in H as (g1 & H1 & H2).
    apply (IH _ g1); [now apply rinv_putc| |exact H2]. now apply (sync_putc act r g).
Qed.

Lemma rinv_byte r b : RInv r -> RInv (r_byte w h s tab fg bg r b).
Proof.
  intros I. pose proof I as (_ & _ & X & Y & _). unfold r_byte.
  destruct (b =? 13); [apply rinv_cursor; [exact I|lia|exact Y]|].
  destruct (b =? 10); [now apply rinv_lf|].
  destruct (b =? 8).
  { destruct (N.ltb_spec 1 (r_x r)); [|exact I]. apply rinv_put. apply rinv_cursor; [exact I|lia|exact Y]. }
  destruct (b =? 9); [now apply rinv_iter|]. now apply rinv_putc.
Qed.

Lemma sync_byte act r g b g' :
  RInv r -> Sync act r g -> calls_rel g (e_byte w h s tab fg bg act r b) g' ->
  Sync act (r_byte w h s tab fg bg r b) g'.
Proof.
  intros I S H. pose proof I as (_ & _ & X & Y & _). unfold e_byte in H. unfold r_byte.
  destruct (b =? 13); [apply calls_rel_nil in H; subst; exact S|].
  destruct (b =? 10); [now apply (sync_lf act r g)|].
  destruct (b =? 8).
  { destruct (N.ltb_spec 1 (r_x r)).
    - apply (sync_put act _ g); [apply rinv_cursor; [exact I|lia|exact Y]|exact S|exact H].
    - apply calls_rel_nil in H. subst. exact S. }
  destruct (b =? 9); [now apply (sync_iter act _ r g)|]. now apply (sync_putc act r g).
Qed.

Lemma rinv_bytes bs : forall r, RInv r -> RInv (fold_left (r_byte w h s tab fg bg) bs r).
Proof. induction bs as [|b t IH]; intros r I; cbn [fold_left]; [exact I|]. apply IH. now apply rinv_byte. Qed.

Lemma sync_bytes act bs : forall r g g',
  RInv r -> Sync act r g -> calls_rel g (e_bytes w h s tab fg bg act r bs) g' ->
  Sync act (fold_left (r_byte w h s tab fg bg) bs r) g'.
Proof.
  induction bs as [|b t IH]; intros r g g' I S H; cbn [e_bytes fold_left] in *.
  - apply calls_rel_nil in H. now subst.
  - apply calls_rel_app in H as (g1 & H1 & H2).
    apply (IH _ g1); [now apply rinv_byte| |exact H2]. now apply (sync_byte act r g).
Qed.

End RefLevel.
