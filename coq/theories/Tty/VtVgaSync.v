(** C18 down to the text-mode framebuffer: the terminal model (Tty/Vt.v) driving the model of
    VgaTextConsole (Console/Vga.v, proved to refine Console/Grid.v in Console/VgaProofs.v by the
    C19 development).  Every console call of the terminal's trace is executed by the driver model
    on a 16-bit framebuffer; when the terminal is active every element of the framebuffer is the
    text-mode encoding of the viewport cell it displays. *)
From Coq Require Import NArith ZArith List Bool Lia.
From Coq Require Import ZifyBool ZifyN ZifyNat.
From FF Require Import Lib.Word Gen.Consts_device_video_console.
From FF Require Import Console.Mem Console.Grid Console.Vga Console.VgaProofs.
From FF Require Import Gen.Consts_device_tty Tty.Vt Tty.VtSpec Tty.VtConsSpec Tty.VtProofs Tty.VtCons Tty.VtConsProofs.
Import ListNotations.
Local Open Scope N_scope.
Ltac Zify.zify_post_hook ::= Z.div_mod_to_equations.

(** the driver executing one console call / a sequence of calls *)
Definition vga_apply (c : vga) (m : fbuf) (k : ccall) : res :=
  match k with
  | CWrite ch f b x y => vga_write c m ch f b x y
  | CFill x y wd ht f b => vga_fill c m x y wd ht f b
  | CScroll d n => vga_scroll c m d n
  end.

Fixpoint vga_apply_calls (c : vga) (m : fbuf) (cs : list ccall) : res :=
  match cs with
  | [] => Mem.Ok m
  | k :: r => match vga_apply c m k with
              | Mem.Ok m' => vga_apply_calls c m' r
              | bad => bad
              end
  end.

(** the 16-bit value that displays a cell: [((bg<<4|fg)<<8)|ch], colours above the palette shown
    in the console's default colour *)
Definition enc (cl : cell) : N :=
  let '(ch, f, b) := cl in cell16 (text_colour vga_defaultBg b) (text_colour vga_defaultFg f) ch.

(** ---- every 16-bit value displays some cell ---- *)
Lemma lor_disjoint a r k : r < 2 ^ k -> N.lor (a * 2 ^ k) r = a * 2 ^ k + r.
Proof.
  intros H.
  assert (L : N.land (a * 2 ^ k) r = 0).
  { apply N.bits_inj_0. intros n. rewrite N.land_spec. destruct (N.lt_ge_cases n k) as [A|A].
    - now rewrite N.mul_pow2_bits_low by assumption.
    - rewrite <- (N.mod_small r (2 ^ k)) by assumption.
      rewrite N.mod_pow2_bits_high by assumption. apply andb_false_r. }
  rewrite <- N.lxor_lor by exact L. symmetry. now apply N.add_nocarry_lxor.
Qed.

Lemma cell16_value b f ch : b < 16 -> f < 16 -> ch < 256 -> cell16 b f ch = b * 4096 + f * 256 + ch.
Proof.
  intros Hb Hf Hc. unfold cell16, attr16.
  rewrite !N.shiftl_mul_pow2. change (2 ^ 4) with 16. change (2 ^ 8) with 256.
  assert (E1 : w16 (b * 16) = b * 16) by (unfold w16, two16; apply N.mod_small; lia). rewrite E1.
  pose proof (lor_disjoint b f 4 ltac:(change (2 ^ 4) with 16; lia)) as L1. change (2 ^ 4) with 16 in L1.
  rewrite L1.
  assert (E2 : w16 ((b * 16 + f) * 256) = (b * 16 + f) * 256) by (unfold w16, two16; apply N.mod_small; lia).
  rewrite E2.
  pose proof (lor_disjoint (b * 16 + f) ch 8 ltac:(change (2 ^ 8) with 256; lia)) as L2. change (2 ^ 8) with 256 in L2.
  rewrite L2. lia.
Qed.

Definition dec (n : N) : cell := (n mod 256, (n / 256) mod 16, n / 4096).

Lemma max_colour : vga_maxColorIndex = 15.
Proof. reflexivity. Qed.

Lemma enc_dec n : n < two16 -> enc (dec n) = n.
Proof.
  intros H. unfold two16 in H. unfold enc, dec, text_colour. rewrite max_colour.
  destruct (N.ltb_spec 15 (n / 4096)); [lia|]. destruct (N.ltb_spec 15 ((n / 256) mod 16)); [lia|].
  rewrite cell16_value by lia. lia.
Qed.

(** ---- the driver refines the abstract console, call by call ---- *)
Definition Rel (c : vga) (m : fbuf) (g : cgrid) : Prop :=
  gw g = Vga.vw c /\ gh g = Vga.vh c /\
  forall x y, 1 <= x <= Vga.vw c -> 1 <= y <= Vga.vh c -> load m (cell_idx c x y) = enc (gcell g x y).

Definition call_ok (k : ccall) : Prop :=
  match k with
  | CWrite _ _ _ x y => x < two32 /\ y < two32
  | CFill _ _ _ _ f b => f <= vga_maxColorIndex /\ b <= vga_maxColorIndex
  | CScroll d n => n < two32 /\ VgaProofs.dir_of d <> None
  end.

Lemma dir_of_same d : VtCons.dir_of d = VgaProofs.dir_of d.
Proof. reflexivity. Qed.

Lemma in_grid_same {A B} (g : grid A) (g' : grid B) x y :
  gw g = gw g' -> gh g = gh g' -> in_grid g x y = in_grid g' x y.
Proof. intros E1 E2. unfold in_grid. now rewrite E1, E2. Qed.

Lemma vga_apply_refines c m g k :
  vga_wf c m -> Rel c m g -> call_ok k ->
  exists m', vga_apply c m k = Mem.Ok m' /\ vga_wf c m' /\ Rel c m' (apply_call (gcell g) g k).
Proof.
  intros Hwf (Gw & Gh & RC) Hk. destruct k as [ch f b x y|x y wd ht f b|d n]; cbn [vga_apply apply_call call_ok] in *.
  - destruct Hk as (Hx & Hy).
    destruct (vga_write_refines c m ch f b x y Hwf Hx Hy) as (m' & E & Hwf' & (D1 & D2 & GE)).
    exists m'. split; [exact E|]. split; [exact Hwf'|].
    destruct (g_write_dims g x y (ch, f, b)) as (A1 & A2).
    split; [congruence|]. split; [congruence|]. intros cx cy Hcx Hcy.
    specialize (GE cx cy). cbn [vga_grid gcell gw gh] in GE.
    rewrite GE by (apply in_grid_spec; cbn [vga_grid gw gh]; lia).
    unfold g_write. rewrite (in_grid_same (vga_grid c m) g x y) by (cbn [vga_grid gw gh]; congruence).
    destruct (in_grid g x y); cbn [gcell vga_grid].
    + destruct ((cx =? x) && (cy =? y)); [reflexivity|]. now apply RC.
    + now apply RC.
  - destruct Hk as (Hf & Hb).
    destruct (vga_fill_refines c m x y wd ht f b Hwf) as (m' & E & Hwf' & (D1 & D2 & GE)).
    exists m'. split; [exact E|]. split; [exact Hwf'|].
    split; [exact Gw|]. split; [exact Gh|]. intros cx cy Hcx Hcy.
    specialize (GE cx cy). cbn [vga_grid gcell gw gh g_fill] in GE.
    rewrite GE by (apply in_grid_spec; cbn [vga_grid gw gh]; lia).
    cbn [g_fill gcell].
    replace (in_fill (vga_grid c m) x y wd ht cx cy) with (in_fill g x y wd ht cx cy)
      by (unfold in_fill; cbn [vga_grid gw gh]; now rewrite Gw, Gh).
    destruct (in_fill g x y wd ht cx cy).
    + unfold enc, text_colour. destruct (N.ltb_spec vga_maxColorIndex b); [lia|].
      destruct (N.ltb_spec vga_maxColorIndex f); [lia|]. reflexivity.
    + now apply RC.
  - destruct Hk as (Hn & Hd). rewrite dir_of_same.
    destruct (VgaProofs.dir_of d) as [dd|] eqn:Ed; [|congruence].
    destruct (vga_scroll_refines c m d dd n Hwf Hn Ed) as (m' & E & Hwf' & (D1 & D2 & GE)).
    exists m'. split; [exact E|]. split; [exact Hwf'|].
    destruct (g_scroll_dims g dd n (gcell g)) as (A1 & A2).
    split; [congruence|]. split; [congruence|]. intros cx cy Hcx Hcy.
    specialize (GE cx cy). cbn [vga_grid gcell gw gh] in GE.
    rewrite GE by (apply in_grid_spec; cbn [vga_grid gw gh]; lia).
    unfold g_scroll, scroll_ok. cbn [vga_grid gh gw gcell]. rewrite Gh.
    destruct ((1 <=? n) && (n <=? Vga.vh c)) eqn:So; cbn [gcell]; [|now apply RC].
    apply andb_true_iff in So as (S1 & S2). apply N.leb_le in S1. apply N.leb_le in S2.
    destruct dd.
    + destruct (N.leb_spec (cy + n) (Vga.vh c)); apply RC; lia.
    + destruct (N.ltb_spec n cy); apply RC; lia.
Qed.

Lemma vga_apply_calls_refines c cs : forall m g,
  vga_wf c m -> Rel c m g -> Forall call_ok cs ->
  exists m', vga_apply_calls c m cs = Mem.Ok m' /\ vga_wf c m' /\ Rel c m' (apply_calls g cs).
Proof.
  induction cs as [|k t IH]; intros m g Hwf HR HF; cbn [vga_apply_calls apply_calls].
  - exists m. auto.
  - inversion HF as [|? ? Hk Ht]; subst.
    destruct (vga_apply_refines c m g k Hwf HR Hk) as (m1 & E1 & Hwf1 & HR1). rewrite E1.
    apply IH; assumption.
Qed.

(** calls of the terminal are acceptable to the driver: coordinates fit 32 bits, the fill colours
    are the console's own default colours *)
Lemma call_in_grid_ok w h k :
  w < two32 -> h < two32 -> call_in_grid w h k ->
  (forall x y wd ht f b, k = CFill x y wd ht f b -> f = vga_defaultFg /\ b = vga_defaultBg) ->
  call_ok k.
Proof.
  intros Hw Hh H HF. destruct k as [ch f b x y|x y wd ht f b|d n]; cbn [call_in_grid call_ok] in *.
  - lia.
  - destruct (HF _ _ _ _ _ _ eq_refl) as (-> & ->). split; discriminate.
  - destruct H as (-> & Hn). split; [lia|]. discriminate.
Qed.

(** ---- the only Fill the terminal ever issues uses its default colours ---- *)
Definition fill_cols (fg bg : N) (k : ccall) : Prop :=
  match k with CFill _ _ _ _ f b => f = fg /\ b = bg | _ => True end.

Section FillCols.
Variables (w h s tab fg bg : N).

Lemma fc_put act r c : Forall (fill_cols fg bg) (e_put act r c).
Proof. unfold e_put. destruct act; [|constructor]. destruct c as [[ch f] b]. repeat constructor. Qed.

Lemma fc_lf act r : Forall (fill_cols fg bg) (e_lf w h fg bg act r).
Proof.
  unfold e_lf. destruct (r_y r <? h); [constructor|]. destruct act; [|constructor].
  repeat constructor.
Qed.

Lemma fc_putc act r c : Forall (fill_cols fg bg) (e_putc w h fg bg act r c).
Proof.
  unfold e_putc. apply Forall_app. split; [apply fc_put|]. destruct (r_x r <? w); [constructor|apply fc_lf].
Qed.

Lemma fc_iter act n : forall r, Forall (fill_cols fg bg) (e_iter w h s fg bg act n r).
Proof.
  induction n as [|n IH]; intros r; cbn [e_iter]; [constructor|].
  apply Forall_app. split; [apply fc_putc|apply IH].
Qed.

Lemma fc_byte act r b : Forall (fill_cols fg bg) (e_byte w h s tab fg bg act r b).
Proof.
  unfold e_byte. destruct (b =? 13); [constructor|]. destruct (b =? 10); [apply fc_lf|].
  destruct (b =? 8); [destruct (1 <? r_x r); [apply fc_put|constructor]|].
  destruct (b =? 9); [apply fc_iter|apply fc_putc].
Qed.

Lemma fc_bytes act bs : forall r, Forall (fill_cols fg bg) (e_bytes w h s tab fg bg act r bs).
Proof.
  induction bs as [|b t IH]; intros r; cbn [e_bytes]; [constructor|].
  apply Forall_app. split; [apply fc_byte|apply IH].
Qed.

Lemma fc_step st r o : Forall (fill_cols fg bg) (e_step w h s tab fg bg st r o).
Proof.
  destruct o as [w0 h0 f0 b0|bs|b|x y|s']; cbn [e_step]; try constructor.
  - apply fc_bytes.
  - apply fc_byte.
  - destruct (st =? s'); [constructor|]. destruct (s' =? tty_StateActive); [|constructor].
    unfold e_redraw. apply Forall_forall. intros k Hk. apply in_flat_map in Hk as (y0 & _ & Hk).
    apply in_map_iff in Hk as (x0 & <- & _). destruct (r_cell r x0 y0) as [[ch f] b]. exact I.
Qed.

Lemma fc_run ops : forall st r, Forall (fill_cols fg bg) (e_run w h s tab fg bg st r ops).
Proof.
  induction ops as [|o t IH]; intros st r; cbn [e_run]; [constructor|].
  apply Forall_app. split; [apply fc_step|apply IH].
Qed.
End FillCols.

(** ---- C18 for the text-mode console, down to the framebuffer ---- *)
Theorem sync_text_thm :
  forall w h sb tab (ops : list op) (m0 : fbuf),
    1 <= w -> 1 <= h -> tab <= 255 -> w * (h + sb) * 3 < two32 -> Forall op_wf ops ->
    vga_wf (mkVga w h) m0 -> (forall i, i < flen m0 -> load m0 i < two16) ->
    exists v0 v m,
      attach (new_vt tab sb) w h vga_defaultFg vga_defaultBg = Ok v0 /\ run_ops v0 ops = Ok v /\
      vga_apply_calls (mkVga w h) m0 (rev (trace v)) = Mem.Ok m /\
      (st v = tty_StateActive ->
       forall x y, 1 <= x <= w -> 1 <= y <= h ->
         load m (cell_idx (mkVga w h) x y) = enc (v_cell v x y)).
Proof.
  intros w h sb tab ops m0 Hw Hh Ht Hsz WF Hwf H16.
  set (c := mkVga w h) in *.
  set (g0 := mkGrid w h (fun x y => dec (load m0 (cell_idx c x y))) : cgrid).
  destruct (sync_inv_thm w h sb tab vga_defaultFg vga_defaultBg ops g0 Hw Hh Ht Hsz WF eq_refl eq_refl)
    as (v0 & v & E0 & E & SY).
  (* the same run, with the call-level facts *)
  destruct (attach_sim w h sb tab vga_defaultFg vga_defaultBg Hw Hh Hsz) as (v0' & E0' & I0 & R0 & S0 & T0).
  assert (v0' = v0) by congruence. subst v0'.
  destruct (run_sim18 w h sb tab vga_defaultFg vga_defaultBg Hw Hh Hsz ops v0 _ I0 R0 WF) as (v' & E' & I & RR & S & T).
  assert (v' = v) by congruence. subst v'.
  assert (TR : rev (trace v) = e_run w h sb tab vga_defaultFg vga_defaultBg (st v0) (r_init w h sb vga_defaultFg vga_defaultBg) ops).
  { rewrite T, T0, app_nil_r. apply rev_involutive. }
  pose proof (w_small w h sb Hw Hh Hsz) as Hw32. pose proof (hs_small w h sb Hw Hh Hsz) as Hh32.
  assert (OK : Forall call_ok (rev (trace v))).
  { rewrite TR.
    pose proof (in_grid_run w h sb tab vga_defaultFg vga_defaultBg Hw Hh ops (st v0) _
                  (rinv_of_model w h sb tab vga_defaultFg vga_defaultBg v0 _ I0 R0)) as IG.
    pose proof (fc_run w h sb tab vga_defaultFg vga_defaultBg ops (st v0) (r_init w h sb vga_defaultFg vga_defaultBg)) as FC.
    rewrite Forall_forall in *. intros k Hk. apply (call_in_grid_ok w h k); [lia|lia|now apply IG|].
    intros x y wd ht f b ->. exact (FC _ Hk). }
  assert (R0' : Rel c m0 g0).
  { split; [reflexivity|]. split; [reflexivity|]. intros x y Hx Hy. unfold g0. cbn [gcell].
    symmetry. apply enc_dec. apply H16. now apply (cell_idx_lt c m0). }
  destruct (vga_apply_calls_refines c (rev (trace v)) m0 g0 Hwf R0' OK) as (m & Em & Hwfm & (_ & _ & RC)).
  exists v0, v, m. split; [exact E0|]. split; [exact E|]. split; [exact Em|].
  intros Ha x y Hx Hy. rewrite RC by assumption.
  destruct (SY _ (apply_calls_rel (rev (trace v)) g0) Ha) as (_ & _ & SC).
  destruct I as ((_ & Gvw & Gvh & _) & _). rewrite SC; [reflexivity|lia|lia].
Qed.
