(** Every cell of the reference terminal holds bytes (character, foreground, background < 256) as
    long as the default colours and the written bytes are bytes; hence every console call the
    terminal is expected to make carries bytes.  Needed to run the calls through the framebuffer
    driver model (glyph index and palette index in range). *)
From Coq Require Import NArith ZArith List Bool Lia.
From Coq Require Import ZifyBool ZifyN ZifyNat.
From FF Require Import Lib.Word Gen.Consts_device_tty Console.Grid
     Tty.Vt Tty.VtSpec Tty.VtConsSpec Tty.ListFacts Tty.VtProofs Tty.VtCons Tty.VtConsProofs.
Import ListNotations.
Local Open Scope N_scope.
Ltac Zify.zify_post_hook ::= Z.div_mod_to_equations.

Definition small_cell (c : cell) : Prop := let '(ch, f, b) := c in ch < 256 /\ f < 256 /\ b < 256.

Definition call_small (k : ccall) : Prop :=
  match k with
  | CWrite ch f b _ _ => ch < 256 /\ f < 256 /\ b < 256
  | CFill _ _ _ _ f b => f < 256 /\ b < 256
  | CScroll _ _ => True
  end.

Section Small.
Variables (w h s tab fg bg : N).
Hypothesis Hw : 1 <= w.
Hypothesis Hh : 1 <= h.
Hypothesis Hfg : fg < 256.
Hypothesis Hbg : bg < 256.

Notation RInv := (RInv w h s fg bg).

Definition Small (r : rterm) : Prop :=
  forall i j, i < h + s -> j < w -> small_cell (lcell (r_lines r) i j).

Lemma small_blank : small_cell (blank fg bg).
Proof. unfold blank, small_cell. lia. Qed.

Lemma small_cursor r x y : Small r -> Small (mkR (r_lines r) (r_view r) x y).
Proof. intros H. exact H. Qed.

Lemma small_put r c : RInv r -> Small r -> small_cell c -> Small (r_put r c).
Proof.
  intros (L & LW & X & Y & V & B) S Hc i j Hi Hj. unfold r_put. cbn [r_lines].
  rewrite (lcell_upd w h Hw Hh); [|lia|rewrite LW; lia].
  destruct ((i =? r_view r + r_y r - 1) && (j =? r_x r - 1)); [exact Hc|now apply S].
Qed.

Lemma small_lf r : RInv r -> Small r -> Small (r_lf w h s fg bg r).
Proof.
  intros (L & LW & X & Y & V & B) S. unfold r_lf.
  destruct (r_y r <? h); [exact S|]. destruct (N.ltb_spec (r_view r + h) (h + s)) as [C|C]; [exact S|].
  intros i j Hi Hj. cbn [r_lines]. unfold lcell.
  rewrite (scroll_rows (r_lines r) (blank_line w fg bg) (h + s) (r_view r) L) by lia.
  destruct (N.ltb_spec i (r_view r)); [now apply S|].
  destruct (N.ltb_spec i (h + s - 1)); [apply (S (i + 1) j); lia|].
  unfold blank_line. rewrite nth_repeat_lt by lia. apply small_blank.
Qed.

Lemma small_putc r c : RInv r -> Small r -> small_cell c -> Small (r_putc w h s fg bg r c).
Proof.
  intros I S Hc. unfold r_putc. pose proof (small_put r c I S Hc) as S1.
  destruct (r_x r <? w); [exact S1|]. apply small_lf; [now apply rinv_put|exact S1].
Qed.

Lemma small_iter n : forall r, RInv r -> Small r -> Small (iter_n n (fun r => r_putc w h s fg bg r (blank fg bg)) r).
Proof.
  induction n as [|n IH]; intros r I S; cbn [iter_n]; [exact S|].
  apply IH; [now apply rinv_putc|]. apply small_putc; [exact I|exact S|apply small_blank].
Qed.

Lemma small_byte r b : RInv r -> Small r -> b < 256 -> Small (r_byte w h s tab fg bg r b).
Proof.
  intros I S Hb. pose proof I as (_ & _ & X & Y & _). unfold r_byte.
  destruct (b =? 13); [exact S|]. destruct (b =? 10); [now apply small_lf|].
  destruct (b =? 8).
  { destruct (N.ltb_spec 1 (r_x r)); [|exact S].
    apply small_put; [apply rinv_cursor; [exact I|lia|exact Y]|exact S|apply small_blank]. }
  destruct (b =? 9); [now apply small_iter|].
  apply small_putc; [exact I|exact S|]. cbn. lia.
Qed.

Lemma small_bytes bs : forall r, RInv r -> Small r -> Forall (fun b => b < 256) bs ->
  Small (fold_left (r_byte w h s tab fg bg) bs r).
Proof.
  induction bs as [|b t IH]; intros r I S HF; cbn [fold_left]; [exact S|].
  inversion HF as [|? ? Hb Ht]; subst.
  apply IH; [now apply rinv_byte|now apply small_byte|exact Ht].
Qed.

Lemma small_step r o : RInv r -> Small r -> op_wf o -> Small (r_step w h s tab fg bg r o).
Proof.
  intros I S WF. destruct o as [w0 h0 f0 b0|bs|b|x y|s']; cbn [r_step op_wf] in *; try exact S.
  - now apply small_bytes.
  - now apply small_byte.
Qed.

Lemma small_init : Small (r_init w h s fg bg).
Proof.
  intros i j Hi Hj. unfold r_init, lcell. cbn [r_lines].
  rewrite nth_repeat_lt by lia. unfold blank_line. rewrite nth_repeat_lt by lia. apply small_blank.
Qed.

(** ---- the expected calls carry bytes ---- *)
Lemma cs_put act r c : small_cell c -> Forall call_small (e_put act r c).
Proof.
  intros Hc. unfold e_put. destruct act; [|constructor]. destruct c as [[ch f] b].
  constructor; [exact Hc|constructor].
Qed.

Lemma cs_lf act r : Forall call_small (e_lf w h fg bg act r).
Proof.
  unfold e_lf. destruct (r_y r <? h); [constructor|]. destruct act; [|constructor].
  repeat constructor; assumption.
Qed.

Lemma cs_putc act r c : small_cell c -> Forall call_small (e_putc w h fg bg act r c).
Proof.
  intros Hc. unfold e_putc. apply Forall_app. split; [now apply cs_put|].
  destruct (r_x r <? w); [constructor|apply cs_lf].
Qed.

Lemma cs_iter act n : forall r, Forall call_small (e_iter w h s fg bg act n r).
Proof.
  induction n as [|n IH]; intros r; cbn [e_iter]; [constructor|].
  apply Forall_app. split; [apply cs_putc; apply small_blank|apply IH].
Qed.

Lemma cs_byte act r b : b < 256 -> Forall call_small (e_byte w h s tab fg bg act r b).
Proof.
  intros Hb. unfold e_byte. destruct (b =? 13); [constructor|]. destruct (b =? 10); [apply cs_lf|].
  destruct (b =? 8); [destruct (1 <? r_x r); [apply cs_put; apply small_blank|constructor]|].
  destruct (b =? 9); [apply cs_iter|]. apply cs_putc. cbn. lia.
Qed.

Lemma cs_bytes act bs : forall r, Forall (fun b => b < 256) bs ->
  Forall call_small (e_bytes w h s tab fg bg act r bs).
Proof.
  induction bs as [|b t IH]; intros r HF; cbn [e_bytes]; [constructor|].
  inversion HF as [|? ? Hb Ht]; subst. apply Forall_app. split; [now apply cs_byte|now apply IH].
Qed.

Lemma cs_step st r o : RInv r -> Small r -> op_wf o -> Forall call_small (e_step w h s tab fg bg st r o).
Proof.
  intros I S WF. destruct o as [w0 h0 f0 b0|bs|b|x y|s']; cbn [e_step op_wf] in *; try constructor.
  - now apply cs_bytes.
  - now apply cs_byte.
  - destruct (st =? s'); [constructor|]. destruct (s' =? tty_StateActive); [|constructor].
    pose proof I as (_ & _ & _ & _ & V & _).
    unfold e_redraw. apply Forall_forall. intros k Hk. apply in_flat_map in Hk as (y0 & Hy0 & Hk).
    apply in_map_iff in Hk as (x0 & <- & Hx0). apply in_seqN in Hy0. apply in_seqN in Hx0.
    rewrite r_cell_lcell. pose proof (S (r_view r + y0 - 1) (x0 - 1) ltac:(lia) ltac:(lia)) as Sc.
    destruct (lcell (r_lines r) (r_view r + y0 - 1) (x0 - 1)) as [[ch f] b]. exact Sc.
Qed.

Lemma cs_run ops : forall st r, RInv r -> Small r -> Forall op_wf ops ->
  Forall call_small (e_run w h s tab fg bg st r ops) /\
  Small (fold_left (r_step w h s tab fg bg) ops r).
Proof.
  induction ops as [|o t IH]; intros st r I S WF; cbn [e_run fold_left]; [split; [constructor|exact S]|].
  inversion WF as [|? ? WFo WFt]; subst.
  destruct (IH (st_step st o) (r_step w h s tab fg bg r o)) as (A & B);
    [now apply rinv_step|now apply small_step|exact WFt|].
  split; [|exact B]. apply Forall_app. split; [now apply cs_step|exact A].
Qed.

End Small.
