(** The reference terminal of property C17, written from the property text (not from vt.go):
    [h + sb] lines of [w] cells, a viewport of [h] lines starting at line [view], a cursor
    [(x, y)] that is 1-based and relative to the viewport.  Definitions only.

    The only thing shared with the model (Tty/Vt.v) is the type [op] naming the API calls, and the
    abstraction function [abs] at the end of this file that reads a model state as a reference
    terminal. *)
From Coq Require Import NArith List Bool.
From FF Require Import Tty.Vt.
Import ListNotations.
Local Open Scope N_scope.

Definition cell : Type := (N * N * N)%type.      (* character, foreground, background *)

Record rterm := mkR {
  r_lines : list (list cell);
  r_view : N;
  r_x : N;
  r_y : N
}.

(** apply [f] to element [i] of a list (nothing happens if there is no such element) *)
Fixpoint upd {A} (l : list A) (i : nat) (f : A -> A) : list A :=
  match l, i with
  | [], _ => []
  | a :: r, O => f a :: r
  | a :: r, S i => a :: upd r i f
  end.

Fixpoint iter_n {A} (n : nat) (f : A -> A) (a : A) : A :=
  match n with O => a | S n => iter_n n f (f a) end.

Section Ref.
  Variables (w h sb tab fg bg : N).

  Definition blank : cell := (32, fg, bg).
  Definition blank_line : list cell := repeat blank (N.to_nat w).

  Definition r_init : rterm := mkR (repeat blank_line (N.to_nat (h + sb))) 0 1 1.

  (** store a cell at the cursor *)
  Definition r_put (r : rterm) (c : cell) : rterm :=
    mkR (upd (r_lines r) (N.to_nat (r_view r + r_y r - 1))
             (fun line => upd line (N.to_nat (r_x r - 1)) (fun _ => c)))
        (r_view r) (r_x r) (r_y r).

  (** line feed: to the start of the next line; on the last viewport line the viewport first
      moves down through the scrollback and, once that is used up, the viewport's lines scroll up
      by one (its first line is dropped) and its last line is blank. *)
  Definition r_lf (r : rterm) : rterm :=
    if r_y r <? h then mkR (r_lines r) (r_view r) 1 (r_y r + 1)
    else if r_view r + h <? h + sb then mkR (r_lines r) (r_view r + 1) 1 (r_y r)
    else mkR (firstn (N.to_nat (r_view r)) (r_lines r)
              ++ skipn (S (N.to_nat (r_view r))) (r_lines r) ++ [blank_line])
             (r_view r) 1 (r_y r).

  (** store a cell and advance, wrapping to the next line after the last column *)
  Definition r_putc (r : rterm) (c : cell) : rterm :=
    let r' := r_put r c in
    if r_x r <? w then mkR (r_lines r') (r_view r') (r_x r + 1) (r_y r') else r_lf r'.

  Definition r_byte (r : rterm) (b : N) : rterm :=
    if b =? 13 then mkR (r_lines r) (r_view r) 1 (r_y r)                     (* CR *)
    else if b =? 10 then r_lf r                                               (* LF *)
    else if b =? 8 then                                                       (* BS *)
      if 1 <? r_x r then r_put (mkR (r_lines r) (r_view r) (r_x r - 1) (r_y r)) blank else r
    else if b =? 9 then iter_n (N.to_nat tab) (fun r => r_putc r blank) r     (* TAB *)
    else r_putc r (b, fg, bg).

  Definition clamp (lo hi v : N) : N := if v <? lo then lo else if hi <? v then hi else v.

  Definition r_set_cursor (r : rterm) (x y : N) : rterm :=
    mkR (r_lines r) (r_view r) (clamp 1 w x) (clamp 1 h y).

  (** API calls after the terminal has been attached; a state change does not concern the
      terminal's contents *)
  Definition r_step (r : rterm) (o : op) : rterm :=
    match o with
    | OWrite bs => fold_left r_byte bs r
    | OWriteByte b => r_byte r b
    | OSetCursor x y => r_set_cursor r x y
    | OSetState _ => r
    | OAttach _ _ _ _ => r
    end.

  Definition ref_run (ops : list op) : rterm := fold_left r_step ops r_init.
End Ref.

(** ---- reading a model state as a reference terminal ---- *)
Definition nthN (d : list N) (o : N) : N := nth (N.to_nat o) d 0.
Definition cellN (d : list N) (o : N) : cell := (nthN d o, nthN d (o + 1), nthN d (o + 2)).

(** line [i], column [j] (both 0-based) lives at byte offset [(i * width + j) * 3] *)
Definition abs_lines (v : vt) : list (list cell) :=
  map (fun i => map (fun j => cellN (data v) ((i * vw v + j) * 3)) (seqN 0 (vw v))) (seqN 0 (th v)).

Definition abs (v : vt) : rterm := mkR (abs_lines v) (vy v) (cx v) (cy v).

(** which histories the property quantifies over: bytes, 32-bit coordinates, 8-bit states, no
    re-attachment *)
Definition op_wf (o : op) : Prop :=
  match o with
  | OWrite bs => Forall (fun b => b < 256) bs
  | OWriteByte b => b < 256
  | OSetCursor x y => x < 0x100000000 /\ y < 0x100000000
  | OSetState s => s < 256
  | OAttach _ _ _ _ => False
  end.
