(** Simulation between the model of vt.go (Tty/Vt.v) and the reference terminal (Tty/VtSpec.v),
    with the console calls the model emits (Tty/VtConsSpec.v).  Used by Props/C17.v and C18.v. *)
From Coq Require Import NArith ZArith List Bool Lia.
From Coq Require Import ZifyBool ZifyN ZifyNat.
From FF Require Import Lib.Word Gen.Consts_device_tty Tty.Vt Tty.VtSpec Tty.VtConsSpec Tty.ListFacts.
Import ListNotations.
Local Open Scope N_scope.
Ltac Zify.zify_post_hook ::= Z.div_mod_to_equations.

Lemma sub32_1 a : 1 <= a -> a < two32 -> sub32 a 1 = a - 1.
Proof. unfold sub32, w32, two32. intros. lia. Qed.


(** ---- the two loops of lf on plain lists ---- *)
Lemma copy_down_spec d S0 E T :
  S0 <= E -> E + T <= N.of_nat (length d) ->
  exists d1, copy_down d S0 E T = Some d1 /\ length d1 = length d /\
    forall o, nthN d1 o = if o <? S0 then nthN d o else if o <? E then nthN d (o + T) else nthN d o.
Proof.
  intros HSE HL. unfold copy_down. destruct (N.leb_spec E S0) as [A|A].
  - exists d. split; [reflexivity|]. split; [reflexivity|]. intros o.
    destruct (N.ltb_spec o S0); [reflexivity|]. destruct (N.ltb_spec o E); [lia|reflexivity].
  - rewrite lenN_length. destruct (N.ltb_spec (N.of_nat (length d)) (E + T)) as [B|B]; [lia|].
    eexists; split; [reflexivity|]. rewrite !takeN_firstn, !dropN_skipn. split.
    + rewrite !app_length, !firstn_length, !skipn_length. lia.
    + intros o. unfold nthN. rewrite nth_app3, !firstn_length, !skipn_length.
      destruct (N.ltb_spec o S0) as [C|C].
      * destruct (Nat.ltb_spec (N.to_nat o) (Nat.min (N.to_nat S0) (length d))); [|lia].
        apply nth_firstn_lt. lia.
      * destruct (Nat.ltb_spec (N.to_nat o) (Nat.min (N.to_nat S0) (length d))); [lia|].
        destruct (N.ltb_spec o E) as [D|D].
        -- match goal with |- context [Nat.ltb ?a ?b] => destruct (Nat.ltb_spec a b); [|lia] end.
           rewrite nth_firstn_lt by lia. rewrite nth_skipn_add. f_equal. lia.
        -- match goal with |- context [Nat.ltb ?a ?b] => destruct (Nat.ltb_spec a b); [lia|] end.
           rewrite nth_skipn_add. f_equal. lia.
Qed.

Lemma blank_range_spec d1 E k fg bg :
  1 <= k -> E + k * 3 <= N.of_nat (length d1) ->
  exists d2, blank_range d1 E (k * 3) fg bg = Some d2 /\ length d2 = length d1 /\
    forall o, nthN d2 o = if o <? E then nthN d1 o
                          else if o <? E + k * 3
                               then match (o - E) mod 3 with 0 => 32 | 1 => fg | _ => bg end
                               else nthN d1 o.
Proof.
  intros Hk HL. unfold blank_range.
  replace ((k * 3 + 2) / 3) with k by lia.
  destruct (N.eqb_spec k 0); [lia|]. rewrite lenN_length.
  destruct (N.ltb_spec (N.of_nat (length d1)) (E + k * 3)); [lia|].
  eexists; split; [reflexivity|]. rewrite !takeN_firstn, !dropN_skipn. split.
  - rewrite !app_length, !firstn_length, !skipn_length, blank_cells_length. lia.
  - intros o. unfold nthN. rewrite nth_app3, !firstn_length, blank_cells_length.
    destruct (N.ltb_spec o E) as [C|C].
    + match goal with |- context [Nat.ltb ?a ?b] => destruct (Nat.ltb_spec a b); [|lia] end.
      apply nth_firstn_lt. lia.
    + match goal with |- context [Nat.ltb ?a ?b] => destruct (Nat.ltb_spec a b); [lia|] end.
      destruct (N.ltb_spec o (E + k * 3)) as [D|D].
      * match goal with |- context [Nat.ltb ?a ?b] => destruct (Nat.ltb_spec a b); [|lia] end.
        rewrite blank_cells_nth by lia.
        replace (N.to_nat o - Nat.min (N.to_nat E) (length d1))%nat with (N.to_nat (o - E)) by lia.
        assert (M : ((N.to_nat (o - E)) mod 3)%nat = N.to_nat ((o - E) mod 3)).
        { generalize (o - E). intros q. change 3%nat with (N.to_nat 3). now rewrite <- N2Nat.inj_mod. }
        rewrite M. pose proof (N.mod_upper_bound (o - E) 3 ltac:(lia)) as U.
        assert (Q : (o - E) mod 3 = 0 \/ (o - E) mod 3 = 1 \/ (o - E) mod 3 = 2) by lia.
        destruct Q as [Q|[Q|Q]]; rewrite Q; reflexivity.
      * match goal with |- context [Nat.ltb ?a ?b] => destruct (Nat.ltb_spec a b); [lia|] end.
        rewrite nth_skipn_add. f_equal. lia.
Qed.

Section Geometry.
Variables (w h s tab fg bg : N).
Hypothesis Hw : 1 <= w.
Hypothesis Hh : 1 <= h.
Hypothesis Hsz : w * (h + s) * 3 < two32.

Definition size : N := w * (h + s) * 3.
Definition off (i j : N) : N := (i * w + j) * 3.
Definition rowoff (i : N) : N := i * (w * 3).

Lemma w3_small : w * 3 < two32.
Proof. nia. Qed.
Lemma hs3_small : (h + s) * 3 < two32.
Proof. nia. Qed.
Lemma hs_small : h + s < two32.
Proof. pose proof hs3_small. lia. Qed.
Lemma w_small : w < two32.
Proof. pose proof w3_small. lia. Qed.

Lemma off_rowoff i j : off i j = rowoff i + j * 3.
Proof. unfold off, rowoff. lia. Qed.

Lemma rowoff_mono a b : a <= b -> rowoff a <= rowoff b.
Proof. unfold rowoff. intros. nia. Qed.

Lemma rowoff_S a : rowoff (a + 1) = rowoff a + w * 3.
Proof. unfold rowoff. lia. Qed.

Lemma rowoff_total : rowoff (h + s) = size.
Proof. unfold rowoff, size. lia. Qed.

Lemma off_row_lt i j r : j < w -> i < r -> off i j + 3 <= rowoff r.
Proof.
  intros Hj Hi. rewrite off_rowoff. pose proof (rowoff_mono (i + 1) r ltac:(lia)) as M.
  rewrite rowoff_S in M. lia.
Qed.

Lemma off_row_ge i j r : r <= i -> rowoff r <= off i j.
Proof. intros Hi. rewrite off_rowoff. pose proof (rowoff_mono r i Hi). lia. Qed.

Lemma off_lt i j : i < h + s -> j < w -> off i j + 3 <= size.
Proof. intros. rewrite <- rowoff_total. now apply off_row_lt. Qed.

Lemma off_inj i j i' j' : j < w -> j' < w -> off i j = off i' j' -> i = i' /\ j = j'.
Proof.
  intros Hj Hj' E.
  destruct (N.lt_trichotomy i i') as [L|[->|L]].
  - pose proof (off_row_lt i j i' Hj L). pose proof (off_row_ge i' j' i' ltac:(lia)). lia.
  - split; [reflexivity|]. unfold off in E. lia.
  - pose proof (off_row_lt i' j' i Hj' L). pose proof (off_row_ge i j i ltac:(lia)). lia.
Qed.

Lemma off_S i j : off i (j + 1) = off i j + 3.
Proof. unfold off. lia. Qed.

Lemma off_next_row i j : off (i + 1) j = off i j + w * 3.
Proof. unfold off. lia. Qed.

(** the uint32 expression of updateDataOffset never wraps inside the buffer *)
Lemma udo_val vy0 cy0 cx0 : 1 <= cx0 <= w -> 1 <= cy0 <= h -> vy0 + h <= h + s ->
  w32 (w32 (w32 (vy0 + sub32 cy0 1) * w32 (w * 3)) + w32 (sub32 cx0 1 * 3)) = off (vy0 + cy0 - 1) (cx0 - 1).
Proof.
  intros Hx Hy Hv. pose proof w3_small. pose proof hs_small. pose proof w_small.
  rewrite !sub32_1 by lia.
  pose proof (off_lt (vy0 + cy0 - 1) (cx0 - 1) ltac:(lia) ltac:(lia)) as B.
  rewrite off_rowoff in B. unfold rowoff in B. unfold size in B.
  rewrite (w32_small (vy0 + (cy0 - 1))) by lia.
  rewrite (w32_small (w * 3)) by lia.
  rewrite (w32_small ((cx0 - 1) * 3)) by lia.
  replace (vy0 + (cy0 - 1)) with (vy0 + cy0 - 1) by lia.
  rewrite (w32_small ((vy0 + cy0 - 1) * (w * 3))) by lia.
  rewrite w32_small by lia.
  rewrite off_rowoff. reflexivity.
Qed.

(** ---- invariant (DESIGN.md A.4) ---- *)
Definition Geo (v : vt) : Prop :=
  attached v = true /\ vw v = w /\ vh v = h /\ tw v = w /\ th v = h + s /\ tabw v = tab /\
  dfg v = fg /\ dbg v = bg /\ cfg v = fg /\ cbg v = bg.

Definition Dyn (v : vt) : Prop :=
  length (data v) = N.to_nat size /\ 1 <= cy v <= h /\ vy v + h <= h + s /\
  (forall i j, vy v + h <= i -> i < h + s -> j < w -> cellN (data v) (off i j) = (32, fg, bg)).

Definition Cur (v : vt) : Prop :=
  1 <= cx v <= w /\ doff v = off (vy v + cy v - 1) (cx v - 1).

Definition InvVT (v : vt) : Prop := Geo v /\ Dyn v /\ Cur v.

(** ---- relation with a reference terminal ---- *)
Definition lcell (ls : list (list cell)) (i j : N) : cell :=
  nth (N.to_nat j) (nth (N.to_nat i) ls []) (0, 0, 0).

Definition LinesRel (d : list N) (ls : list (list cell)) : Prop :=
  length ls = N.to_nat (h + s) /\
  (forall i, i < h + s -> length (nth (N.to_nat i) ls []) = N.to_nat w) /\
  (forall i j, i < h + s -> j < w -> lcell ls i j = cellN d (off i j)).

Definition Rl (v : vt) (r : rterm) : Prop :=
  LinesRel (data v) (r_lines r) /\ r_view r = vy v /\ r_y r = cy v.

Definition R (v : vt) (r : rterm) : Prop := Rl v r /\ r_x r = cx v.



(** ---- data-level facts about the model's stores ---- *)
Lemma three_stores (v : vt) b (K : vt -> outcome vt) :
  doff v + 3 <= N.of_nat (length (data v)) -> doff v + 3 <= two32 ->
  exists d', length d' = length (data v) /\
    (forall j, nthN d' j = if j =? doff v then b else if j =? doff v + 1 then cfg v
                           else if j =? doff v + 2 then cbg v else nthN (data v) j) /\
    bind (store v (doff v) b) (fun v =>
    bind (store v (w64 (doff v + 1)) (cfg v)) (fun v =>
    bind (store v (w64 (doff v + 2)) (cbg v)) K)) = K (set_data v d').
Proof.
  intros HL H32.
  assert (W1 : w64 (doff v + 1) = doff v + 1) by (apply w64_small; unfold two64, two32 in *; lia).
  assert (W2 : w64 (doff v + 2) = doff v + 2) by (apply w64_small; unfold two64, two32 in *; lia).
  destruct (setN_spec (data v) (doff v) b ltac:(lia)) as (d1 & E1 & L1 & P1).
  destruct (setN_spec d1 (doff v + 1) (cfg v) ltac:(lia)) as (d2 & E2 & L2 & P2).
  destruct (setN_spec d2 (doff v + 2) (cbg v) ltac:(lia)) as (d3 & E3 & L3 & P3).
  exists d3. split; [lia|]. split.
  - intros j. rewrite P3, P2, P1.
    destruct (N.eqb_spec j (doff v)); destruct (N.eqb_spec j (doff v + 1)); destruct (N.eqb_spec j (doff v + 2)); try reflexivity; lia.
  - unfold store at 1. rewrite E1. cbn [bind].
    unfold store at 1. cbn [doff set_data data cfg]. rewrite W1, E2. cbn [bind].
    unfold store at 1. cbn [doff set_data data cbg]. rewrite W2, E3. cbn [bind]. reflexivity.
Qed.

Lemma cell_after_stores d d' i0 j0 b f g : j0 < w ->
  (forall j, nthN d' j = if j =? off i0 j0 then b else if j =? off i0 j0 + 1 then f
                         else if j =? off i0 j0 + 2 then g else nthN d j) ->
  forall i j, j < w -> cellN d' (off i j) = if (i =? i0) && (j =? j0) then (b, f, g) else cellN d (off i j).
Proof.
  intros Hj0 P i j Hj. unfold cellN. rewrite !P.
  destruct (N.eqb_spec i i0) as [->|Ni]; [destruct (N.eqb_spec j j0) as [->|Nj]|]; cbn [andb].
  - repeat match goal with |- context [?a =? ?b] => destruct (N.eqb_spec a b); try lia end. reflexivity.
  - assert (off i0 j <> off i0 j0) by (intros E; apply off_inj in E; [lia|assumption|assumption]).
    unfold off in *.
    repeat match goal with |- context [?a =? ?b] => destruct (N.eqb_spec a b); try lia end. reflexivity.
  - assert (off i j <> off i0 j0) by (intros E; apply off_inj in E; [lia|assumption|assumption]).
    unfold off in *.
    repeat match goal with |- context [?a =? ?b] => destruct (N.eqb_spec a b); try lia end. reflexivity.
Qed.

Lemma scroll_cells d v0 :
  length d = N.to_nat size -> v0 + h = h + s ->
  exists d2,
    match copy_down d (rowoff v0) (rowoff (v0 + h - 1)) (w * 3) with
    | Some d1 => blank_range d1 (rowoff (v0 + h - 1)) (w * 3) fg bg
    | None => None
    end = Some d2 /\ length d2 = N.to_nat size /\
    forall i j, i < h + s -> j < w ->
      cellN d2 (off i j) = if i <? v0 then cellN d (off i j)
                           else if i <? h + s - 1 then cellN d (off (i + 1) j) else (32, fg, bg).
Proof.
  intros HL Hv.
  assert (HE : rowoff (v0 + h - 1) + w * 3 = size).
  { rewrite <- rowoff_S, <- rowoff_total. f_equal. lia. }
  assert (HSE : rowoff v0 <= rowoff (v0 + h - 1)) by (apply rowoff_mono; lia).
  destruct (copy_down_spec d (rowoff v0) (rowoff (v0 + h - 1)) (w * 3) HSE ltac:(lia)) as (d1 & E1 & L1 & P1).
  rewrite E1.
  destruct (blank_range_spec d1 (rowoff (v0 + h - 1)) w fg bg Hw ltac:(lia)) as (d2 & E2 & L2 & P2).
  exists d2. split; [exact E2|]. split; [lia|].
  intros i j Hi Hj. unfold cellN.
  destruct (N.ltb_spec i v0) as [A|A].
  - pose proof (off_row_lt i j v0 Hj A).
    rewrite !P2, !P1.
    repeat match goal with |- context [?a <? ?b] => destruct (N.ltb_spec a b); try lia end. reflexivity.
  - pose proof (off_row_ge i j v0 A).
    destruct (N.ltb_spec i (h + s - 1)) as [B|B].
    + pose proof (off_row_lt i j (v0 + h - 1) Hj ltac:(lia)).
      rewrite !P2, !P1, off_next_row.
      repeat match goal with |- context [?a <? ?b] => destruct (N.ltb_spec a b); try lia end.
      replace (off i j + 1 + w * 3) with (off i j + w * 3 + 1) by lia.
      replace (off i j + 2 + w * 3) with (off i j + w * 3 + 2) by lia. reflexivity.
    + assert (i = v0 + h - 1) by lia. subst i.
      rewrite !P2. rewrite off_rowoff.
      repeat match goal with |- context [?a <? ?b] => destruct (N.ltb_spec a b); try lia end.
      replace ((rowoff (v0 + h - 1) + j * 3 - rowoff (v0 + h - 1)) mod 3) with 0 by lia.
      replace ((rowoff (v0 + h - 1) + j * 3 + 1 - rowoff (v0 + h - 1)) mod 3) with 1 by lia.
      replace ((rowoff (v0 + h - 1) + j * 3 + 2 - rowoff (v0 + h - 1)) mod 3) with 2 by lia.
      reflexivity.
Qed.

(** ---- list-of-lines facts (reference side) ---- *)
Lemma linesrel_put d d' ls i0 j0 c :
  LinesRel d ls -> i0 < h + s -> j0 < w ->
  (forall i j, i < h + s -> j < w ->
     cellN d' (off i j) = if (i =? i0) && (j =? j0) then c else cellN d (off i j)) ->
  LinesRel d' (upd ls (N.to_nat i0) (fun ln => upd ln (N.to_nat j0) (fun _ => c))).
Proof.
  intros (L & LW & LC) Hi0 Hj0 Hd. split; [|split].
  - now rewrite upd_length.
  - intros i Hi. destruct (N.eq_dec i i0) as [->|Ne].
    + rewrite upd_nth_same by lia. rewrite upd_length. now apply LW.
    + rewrite upd_nth_other by lia. now apply LW.
  - intros i j Hi Hj. rewrite Hd by assumption. unfold lcell.
    destruct (N.eqb_spec i i0) as [->|Ne]; cbn [andb].
    + rewrite upd_nth_same by lia.
      destruct (N.eqb_spec j j0) as [->|Nj].
      * rewrite upd_nth_same; [reflexivity|]. rewrite LW by assumption. lia.
      * rewrite upd_nth_other by lia. now apply LC.
    + rewrite upd_nth_other by lia. now apply LC.
Qed.

Lemma linesrel_scroll d d' ls v0 :
  LinesRel d ls -> v0 + h = h + s ->
  (forall i j, i < h + s -> j < w ->
     cellN d' (off i j) = if i <? v0 then cellN d (off i j)
                          else if i <? h + s - 1 then cellN d (off (i + 1) j) else (32, fg, bg)) ->
  LinesRel d' (firstn (N.to_nat v0) ls ++ skipn (S (N.to_nat v0)) ls ++ [blank_line w fg bg]).
Proof.
  intros (L & LW & LC) Hv Hd.
  pose proof (scroll_rows ls (blank_line w fg bg) (h + s) v0 L ltac:(lia)) as Hrow.
  split; [|split].
  - apply scroll_length; [assumption|lia].
  - intros i Hi. rewrite Hrow by assumption.
    destruct (N.ltb_spec i v0); [now apply LW|].
    destruct (N.ltb_spec i (h + s - 1)); [apply LW; lia|].
    unfold blank_line. now rewrite repeat_length.
  - intros i j Hi Hj. rewrite Hd by assumption. unfold lcell. rewrite Hrow by assumption.
    destruct (N.ltb_spec i v0); [now apply LC|].
    destruct (N.ltb_spec i (h + s - 1)); [apply (LC (i + 1) j); lia|].
    unfold blank_line. rewrite nth_repeat_lt by lia. reflexivity.
Qed.

Lemma lines_ext (l1 l2 : list (list cell)) :
  length l1 = N.to_nat (h + s) -> length l2 = N.to_nat (h + s) ->
  (forall i, i < h + s -> length (nth (N.to_nat i) l1 []) = N.to_nat w) ->
  (forall i, i < h + s -> length (nth (N.to_nat i) l2 []) = N.to_nat w) ->
  (forall i j, i < h + s -> j < w -> lcell l1 i j = lcell l2 i j) -> l1 = l2.
Proof.
  intros L1 L2 W1 W2 E.
  apply nth_ext with (d := []) (d' := []); [lia|].
  intros n Hn. specialize (W1 (N.of_nat n) ltac:(lia)). specialize (W2 (N.of_nat n) ltac:(lia)).
  rewrite Nat2N.id in W1, W2.
  apply nth_ext with (d := (0, 0, 0)) (d' := (0, 0, 0)); [lia|].
  intros m Hm. specialize (E (N.of_nat n) (N.of_nat m) ltac:(lia) ltac:(lia)).
  unfold lcell in E. now rewrite !Nat2N.id in E.
Qed.

Lemma linesrel_unique d l1 l2 : LinesRel d l1 -> LinesRel d l2 -> l1 = l2.
Proof.
  intros (L1 & W1 & C1) (L2 & W2 & C2). apply lines_ext; auto.
  intros i j Hi Hj. now rewrite C1, C2.
Qed.

Lemma linesrel_abs v : vw v = w -> th v = h + s -> LinesRel (data v) (abs_lines v).
Proof.
  intros Ew Et. unfold abs_lines. rewrite Ew, Et. split; [|split].
  - now rewrite map_length, seqN_length.
  - intros i Hi. rewrite nth_map_seqN by assumption. now rewrite map_length, seqN_length.
  - intros i j Hi Hj. unfold lcell. rewrite nth_map_seqN by assumption.
    rewrite nth_map_seqN by assumption. reflexivity.
Qed.

Lemma linesrel_init : LinesRel (blank_cells (w * (h + s)) fg bg) (repeat (blank_line w fg bg) (N.to_nat (h + s))).
Proof.
  split; [|split].
  - now rewrite repeat_length.
  - intros i Hi. rewrite nth_repeat_lt by lia. unfold blank_line. now rewrite repeat_length.
  - intros i j Hi Hj. unfold lcell. rewrite nth_repeat_lt by lia. unfold blank_line.
    rewrite nth_repeat_lt by lia. unfold off. rewrite blank_cells_cell; [reflexivity|]. nia.
Qed.


(** ---- simulation of the primitives ---- *)
Ltac vsimpl :=
  cbn [update_data_offset set_doff set_cx set_cy set_vy set_data set_trace set_st emit
       data cx cy vy doff st trace attached vw vh tw th sb tabw dfg dbg cfg cbg active].
Ltac vsimpl_in H :=
  cbn [update_data_offset set_doff set_cx set_cy set_vy set_data set_trace set_st emit
       data cx cy vy doff st trace attached vw vh tw th sb tabw dfg dbg cfg cbg active] in H.

Lemma active_emit v c : active (emit v c) = active v.
Proof. reflexivity. Qed.

Lemma lf_sim v r : Geo v -> Dyn v -> Rl v r ->
  exists v', lf v true = Ok v' /\ Geo v' /\ Dyn v' /\ Cur v' /\
             R v' (r_lf w h s fg bg r) /\ st v' = st v /\
             trace v' = rev (e_lf w h fg bg (active v) r) ++ trace v.
Proof.
  intros G (DL & DY & DV & DB) (LR & EV & EY).
  pose proof G as (Ga & Gvw & Gvh & Gtw & Gth & Gtab & Gdfg & Gdbg & Gcfg & Gcbg).
  pose proof hs3_small. pose proof w3_small. pose proof w_small.
  unfold lf. vsimpl. rewrite Gvh.
  unfold r_lf, e_lf. rewrite EY, EV.
  destruct (N.ltb_spec (cy v) h) as [A|A].
  - (* the cursor moves to the next viewport line *)
    rewrite (w32_small (cy v + 1)) by lia.
    destruct (N.leb_spec (cy v + 1) h); [|lia].
    cbn [bind]. eexists. split; [reflexivity|].
    split; [exact G|]. split; [|split; [|split; [|split]]].
    + unfold Dyn. vsimpl. repeat split; try assumption; lia.
    + unfold Cur. vsimpl. split; [lia|]. rewrite Gvw. apply udo_val; lia.
    + unfold R, Rl. vsimpl. cbn [r_lines r_view r_x r_y]. split; [split; [exact LR|split; assumption || reflexivity]|reflexivity].
    + reflexivity.
    + reflexivity.
  - assert (Ecy : cy v = h) by lia.
    rewrite (w32_small (cy v + 1)) by lia.
    destruct (N.leb_spec (cy v + 1) h); [lia|].
    rewrite Gth. rewrite (w32_small (vy v + h)) by lia.
    destruct (N.ltb_spec (vy v + h) (h + s)) as [B|B].
    + (* the viewport moves down through the scrollback *)
      rewrite (w32_small (vy v + 1)) by lia. cbn [bind].
      eexists. split; [reflexivity|].
      split; [|split; [|split; [|split; [|split]]]].
      * destruct (active _); exact G.
      * unfold Dyn. destruct (active _); vsimpl; (split; [assumption|]); (split; [lia|]); (split; [lia|]);
          intros i j Hi1 Hi2 Hj; apply DB; lia.
      * unfold Cur. destruct (active _); vsimpl; (split; [lia|]); rewrite Gvw; apply udo_val; lia.
      * unfold R, Rl. destruct (active _); vsimpl; cbn [r_lines r_view r_x r_y];
          (split; [split; [exact LR|split; assumption || reflexivity]|reflexivity]).
      * destruct (active _); reflexivity.
      * unfold active at 1. vsimpl. fold (active v). destruct (active v); vsimpl; [|reflexivity].
        cbn [rev app]. rewrite Gtw, Gdfg, Gdbg. reflexivity.
    + (* the viewport's lines scroll up inside the buffer *)
      assert (Evy : vy v + h = h + s) by lia.
      unfold scroll_buffer. vsimpl. rewrite Gvw, Gvh, Gdfg, Gdbg.
      rewrite (w32_small (w * 3)) by lia. rewrite (w32_small (vy v + h)) by lia.
      rewrite sub32_1 by lia.
      destruct (scroll_cells (data v) (vy v) DL Evy) as (d2 & E2 & L2 & P2).
      unfold rowoff in E2.
      destruct (copy_down (data v) (vy v * (w * 3)) ((vy v + h - 1) * (w * 3)) (w * 3)) as [d1|]; [|discriminate].
      rewrite E2. cbn [bind].
      eexists. split; [reflexivity|].
      split; [|split; [|split; [|split; [|split]]]].
      * destruct (active _); exact G.
      * unfold Dyn. destruct (active _); vsimpl; (split; [assumption|]); (split; [lia|]); (split; [lia|]);
          intros i j Hi1 Hi2 Hj; lia.
      * unfold Cur. destruct (active _); vsimpl; (split; [lia|]); rewrite Gvw; apply udo_val; lia.
      * unfold R, Rl. destruct (active _); vsimpl; cbn [r_lines r_view r_x r_y];
          (split; [split; [|split; reflexivity || assumption]|reflexivity]);
          apply (linesrel_scroll (data v)); assumption.
      * destruct (active _); reflexivity.
      * unfold active at 1. vsimpl. fold (active v). destruct (active v); vsimpl; [|reflexivity].
        cbn [rev app]. rewrite Gtw, Gdfg, Gdbg. reflexivity.
Qed.


Lemma do_write_sim v r b adv : Geo v -> Dyn v -> Cur v -> R v r ->
  exists v', do_write v b adv = Ok v' /\ Geo v' /\ Dyn v' /\ Cur v' /\
    R v' (if adv then r_putc w h s fg bg r (b, fg, bg) else r_put r (b, fg, bg)) /\ st v' = st v /\
    trace v' = rev (if adv then e_putc w h fg bg (active v) r (b, fg, bg)
                    else e_put (active v) r (b, fg, bg)) ++ trace v.
Proof.
  intros G D C ((LR & EV & EY) & EX).
  pose proof D as (DL & DY & DV & DB). pose proof C as (CX & CO).
  pose proof G as (Ga & Gvw & Gvh & Gtw & Gth & Gtab & Gdfg & Gdbg & Gcfg & Gcbg).
  pose proof hs3_small. pose proof w3_small. pose proof w_small.
  set (row := vy v + cy v - 1) in *. set (col := cx v - 1) in *.
  assert (Hrow : row < h + s) by (unfold row; lia).
  assert (Hcol : col < w) by (unfold col; lia).
  pose proof (off_lt row col Hrow Hcol) as Hoff. unfold size in Hoff.
  set (v0 := if active v then emit v (CWrite b (cfg v) (cbg v) (cx v) (cy v)) else v).
  assert (F0d : data v0 = data v) by (unfold v0; destruct (active v); reflexivity).
  assert (F0o : doff v0 = doff v) by (unfold v0; destruct (active v); reflexivity).
  assert (F0f : cfg v0 = cfg v) by (unfold v0; destruct (active v); reflexivity).
  assert (F0b : cbg v0 = cbg v) by (unfold v0; destruct (active v); reflexivity).
  assert (F0x : cx v0 = cx v) by (unfold v0; destruct (active v); reflexivity).
  assert (F0y : cy v0 = cy v) by (unfold v0; destruct (active v); reflexivity).
  assert (F0v : vy v0 = vy v) by (unfold v0; destruct (active v); reflexivity).
  assert (F0s : st v0 = st v) by (unfold v0; destruct (active v); reflexivity).
  assert (F0w : vw v0 = vw v) by (unfold v0; destruct (active v); reflexivity).
  assert (G0 : Geo v0) by (unfold v0; destruct (active v); exact G).
  assert (F0t : trace v0 = rev (e_put (active v) r (b, fg, bg)) ++ trace v).
  { unfold v0, e_put. destruct (active v); [|reflexivity].
    cbn [emit set_trace trace write_call rev app]. rewrite EX, EY, Gcfg, Gcbg. reflexivity. }
  set (K := fun v3 : vt =>
              if adv then
                let v4 := set_cx (set_doff v3 (w64 (doff v3 + 3))) (w32 (cx v3 + 1)) in
                if vw v4 <? cx v4 then lf v4 true else Ok v4
              else Ok v3).
  change (do_write v b adv) with
    (bind (store v0 (doff v0) b) (fun v1 =>
     bind (store v1 (w64 (doff v1 + 1)) (cfg v1)) (fun v2 =>
     bind (store v2 (w64 (doff v2 + 2)) (cbg v2)) K))).
  destruct (three_stores v0 b K) as (d' & L' & P' & EQ).
  { rewrite F0d, F0o, CO, DL. fold row col. unfold size. lia. }
  { rewrite F0o, CO. fold row col. unfold two32 in *. lia. }
  rewrite EQ. clear EQ.
  rewrite F0o, F0f, F0b, CO, Gcfg, Gcbg, F0d in P'. fold row col in P'.
  pose proof (cell_after_stores (data v) d' row col b fg bg Hcol P') as CS.
  rewrite F0d in L'.
  assert (D1 : forall v1, data v1 = d' -> cy v1 = cy v -> vy v1 = vy v -> Dyn v1).
  { intros v1 E1 E2 E3. unfold Dyn. rewrite E1, E2, E3. split; [lia|]. split; [lia|]. split; [lia|].
    intros i j Hi1 Hi2 Hj. rewrite CS by assumption.
    destruct (N.eqb_spec i row); [unfold row in *; lia|]. cbn [andb]. now apply DB. }
  assert (LR1 : LinesRel d' (r_lines (r_put r (b, fg, bg)))).
  { unfold r_put. cbn [r_lines]. rewrite EV, EY, EX. fold row col.
    apply (linesrel_put (data v)); try assumption. intros i j _ Hj. now apply CS. }
  unfold K. destruct adv.
  - (* store and advance *)
    cbn zeta. vsimpl. rewrite F0w, Gvw, F0o, F0x, CO. fold row col.
    rewrite (w64_small (off row col + 3)) by (unfold two64, two32 in *; lia).
    rewrite (w32_small (cx v + 1)) by lia.
    unfold r_putc, e_putc. rewrite EX.
    destruct (N.ltb_spec w (cx v + 1)) as [A|A].
    + (* wrap after the last column *)
      destruct (N.ltb_spec (cx v) w) as [B|_]; [lia|].
      match goal with |- context [lf ?a true] => set (v1 := a) end.
      destruct (lf_sim v1 (r_put r (b, fg, bg))) as (v' & E & G' & D' & C' & R' & S' & T').
      * exact G0.
      * apply D1; unfold v1; vsimpl; assumption || reflexivity.
      * split; [exact LR1|]. unfold r_put, v1. cbn [r_view r_y]. vsimpl. rewrite F0v, F0y. split; assumption.
      * exists v'. split; [exact E|]. split; [exact G'|]. split; [exact D'|]. split; [exact C'|].
        split; [exact R'|]. split; [rewrite S'; unfold v1; vsimpl; exact F0s|].
        rewrite T'. unfold v1 at 2. vsimpl. rewrite F0t. rewrite rev_app_distr, <- app_assoc.
        replace (active v1) with (active v); [reflexivity|].
        unfold v1, active. vsimpl. now rewrite F0s.
    + destruct (N.ltb_spec (cx v) w) as [B|B]; [|lia].
      eexists. split; [reflexivity|]. split; [exact G0|]. split; [apply D1; vsimpl; assumption || reflexivity|].
      split; [|split; [|split]].
      * unfold Cur. vsimpl. rewrite F0y, F0v. fold row. split; [lia|].
        unfold col. replace (cx v + 1 - 1) with (cx v - 1 + 1) by lia. now rewrite off_S.
      * unfold R, Rl. vsimpl. cbn [r_lines r_view r_x r_y]. rewrite F0y, F0v.
        split; [split; [exact LR1|split; assumption]|reflexivity].
      * vsimpl. exact F0s.
      * vsimpl. rewrite F0t, app_nil_r. reflexivity.
  - (* store only *)
    eexists. split; [reflexivity|]. split; [exact G0|]. split; [apply D1; vsimpl; assumption || reflexivity|].
    split; [|split; [|split]].
    + unfold Cur. vsimpl. rewrite F0x, F0y, F0v, F0o. exact C.
    + unfold R, Rl. vsimpl. rewrite F0x, F0y, F0v. unfold r_put at 2 3 4. cbn [r_view r_x r_y].
      split; [split; [exact LR1|split; assumption]|assumption].
    + vsimpl. exact F0s.
    + vsimpl. exact F0t.
Qed.


Lemma set_cursor_sim v r x y : Geo v -> Dyn v -> R v r ->
  Geo (set_cursor_position v x y) /\ Dyn (set_cursor_position v x y) /\ Cur (set_cursor_position v x y) /\
  R (set_cursor_position v x y) (r_set_cursor w h r x y) /\
  st (set_cursor_position v x y) = st v /\ trace (set_cursor_position v x y) = trace v.
Proof.
  intros G (DL & DY & DV & DB) ((LR & EV & EY) & EX).
  pose proof G as (Ga & Gvw & Gvh & Gtw & Gth & Gtab & Gdfg & Gdbg & Gcfg & Gcbg).
  unfold set_cursor_position. rewrite Ga. cbn [negb]. rewrite Gvw, Gvh.
  fold (clamp 1 w x). fold (clamp 1 h y).
  assert (CX : 1 <= clamp 1 w x <= w).
  { unfold clamp. destruct (N.ltb_spec x 1); [lia|]. destruct (N.ltb_spec w x); lia. }
  assert (CY : 1 <= clamp 1 h y <= h).
  { unfold clamp. destruct (N.ltb_spec y 1); [lia|]. destruct (N.ltb_spec h y); lia. }
  split; [exact G|]. split; [|split; [|split; [|split]]].
  - unfold Dyn. vsimpl. repeat split; try assumption; lia.
  - unfold Cur. vsimpl. split; [assumption|]. rewrite Gvw. now apply udo_val.
  - unfold R, Rl, r_set_cursor. vsimpl. cbn [r_lines r_view r_x r_y].
    split; [split; [exact LR|split; assumption || reflexivity]|reflexivity].
  - reflexivity.
  - reflexivity.
Qed.

Lemma cr_sim v r : Geo v -> Dyn v -> R v r ->
  Geo (cr v) /\ Dyn (cr v) /\ Cur (cr v) /\ R (cr v) (mkR (r_lines r) (r_view r) 1 (r_y r)) /\
  st (cr v) = st v /\ trace (cr v) = trace v.
Proof.
  intros G (DL & DY & DV & DB) ((LR & EV & EY) & EX).
  pose proof G as (Ga & Gvw & Gvh & Gtw & Gth & Gtab & Gdfg & Gdbg & Gcfg & Gcbg).
  unfold cr. split; [exact G|]. split; [|split; [|split; [|split]]].
  - unfold Dyn. vsimpl. repeat split; try assumption; lia.
  - unfold Cur. vsimpl. split; [lia|]. rewrite Gvw. apply udo_val; lia.
  - unfold R, Rl. vsimpl. cbn [r_lines r_view r_x r_y].
    split; [split; [exact LR|split; assumption]|reflexivity].
  - reflexivity.
  - reflexivity.
Qed.

Lemma active_st v v' : st v' = st v -> active v' = active v.
Proof. unfold active. now intros ->. Qed.

Lemma tab_sim n : forall v r, InvVT v -> R v r ->
  exists v', repeat_do n (fun v => do_write v 32 true) v = Ok v' /\ InvVT v' /\
    R v' (iter_n n (fun r => r_putc w h s fg bg r (blank fg bg)) r) /\ st v' = st v /\
    trace v' = rev (e_iter w h s fg bg (active v) n r) ++ trace v.
Proof.
  induction n as [|n IH]; intros v r I RR.
  - exists v. cbn [repeat_do iter_n e_iter rev app]. auto.
  - destruct I as (G & D & C).
    destruct (do_write_sim v r 32 true G D C RR) as (v1 & E1 & G1 & D1 & C1 & R1 & S1 & T1).
    destruct (IH v1 _ (conj G1 (conj D1 C1)) R1) as (v2 & E2 & I2 & R2 & S2 & T2).
    exists v2. cbn [repeat_do iter_n e_iter]. rewrite E1. cbn [bind].
    split; [exact E2|]. split; [exact I2|]. split; [exact R2|]. split; [congruence|].
    rewrite T2, T1, (active_st _ _ S1). unfold blank. now rewrite rev_app_distr, app_assoc.
Qed.

Lemma write_byte_sim v r b : InvVT v -> R v r ->
  exists v', write_byte v b = Ok (v', 0) /\ InvVT v' /\ R v' (r_byte w h s tab fg bg r b) /\
    st v' = st v /\ trace v' = rev (e_byte w h s tab fg bg (active v) r b) ++ trace v.
Proof.
  intros (G & D & C) RR.
  pose proof G as (Ga & Gvw & Gvh & Gtw & Gth & Gtab & Gdfg & Gdbg & Gcfg & Gcbg).
  pose proof RR as ((LR & EV & EY) & EX). pose proof C as (CX & CO).
  pose proof w_small.
  unfold write_byte, r_byte, e_byte. rewrite Ga. cbn [negb].
  destruct (N.eqb_spec b 13).
  { destruct (cr_sim v r G D RR) as (G1 & D1 & C1 & R1 & S1 & T1).
    cbn [bind]. eexists. split; [reflexivity|].
    split; [exact (conj G1 (conj D1 C1))|]. split; [exact R1|]. split; [exact S1|exact T1]. }
  destruct (N.eqb_spec b 10).
  { destruct D as (DL & DY & DV & DB).
    destruct (lf_sim v r G (conj DL (conj DY (conj DV DB))) (conj LR (conj EV EY))) as (v' & E & G' & D' & C' & R' & S' & T').
    rewrite E. cbn [bind]. exists v'. split; [reflexivity|].
    split; [exact (conj G' (conj D' C'))|]. split; [exact R'|]. split; [exact S'|exact T']. }
  destruct (N.eqb_spec b 8).
  { rewrite EX. destruct (N.ltb_spec 1 (cx v)) as [A|A].
    - rewrite sub32_1 by lia.
      destruct (set_cursor_sim v r (cx v - 1) (cy v) G D RR) as (G1 & D1 & C1 & R1 & S1 & T1).
      assert (RS : r_set_cursor w h r (cx v - 1) (cy v) = mkR (r_lines r) (r_view r) (cx v - 1) (r_y r)).
      { unfold r_set_cursor, clamp. destruct D as (_ & DY & _).
        destruct (N.ltb_spec (cx v - 1) 1); [lia|]. destruct (N.ltb_spec w (cx v - 1)); [lia|].
        destruct (N.ltb_spec (cy v) 1); [lia|]. destruct (N.ltb_spec h (cy v)); [lia|]. now rewrite EY. }
      rewrite RS in R1.
      destruct (do_write_sim _ _ 32 false G1 D1 C1 R1) as (v' & E & G' & D' & C' & R' & S' & T').
      rewrite E. cbn [bind]. exists v'. split; [reflexivity|]. split; [exact (conj G' (conj D' C'))|].
      split; [exact R'|]. split; [congruence|]. rewrite T', T1, (active_st _ _ S1). reflexivity.
    - cbn [bind]. exists v. split; [reflexivity|].
      split; [exact (conj G (conj D C))|]. split; [exact RR|]. split; reflexivity. }
  destruct (N.eqb_spec b 9).
  { rewrite Gtab.
    destruct (tab_sim (N.to_nat tab) v r (conj G (conj D C)) RR) as (v' & E & I' & R' & S' & T').
    rewrite E. cbn [bind]. exists v'. split; [reflexivity|].
    split; [exact I'|]. split; [exact R'|]. split; [exact S'|exact T']. }
  destruct (do_write_sim v r b true G D C RR) as (v' & E & G' & D' & C' & R' & S' & T').
  rewrite E. cbn [bind]. exists v'. split; [reflexivity|].
  split; [exact (conj G' (conj D' C'))|]. split; [exact R'|]. split; [exact S'|exact T'].
Qed.

Lemma write_sim bs : forall v r c, InvVT v -> R v r ->
  exists v', write v bs c = Ok (v', c + N.of_nat (length bs), 0) /\ InvVT v' /\
    R v' (fold_left (r_byte w h s tab fg bg) bs r) /\ st v' = st v /\
    trace v' = rev (e_bytes w h s tab fg bg (active v) r bs) ++ trace v.
Proof.
  induction bs as [|b t IH]; intros v r c I RR.
  - exists v. cbn [write length fold_left e_bytes rev app]. replace (c + N.of_nat 0) with c by lia. auto.
  - destruct (write_byte_sim v r b I RR) as (v1 & E1 & I1 & R1 & S1 & T1).
    destruct (IH v1 _ (c + 1) I1 R1) as (v2 & E2 & I2 & R2 & S2 & T2).
    exists v2. cbn [write fold_left e_bytes]. rewrite E1. cbn [bind N.eqb]. rewrite E2.
    split; [do 3 f_equal; cbn [length]; lia|]. split; [exact I2|]. split; [exact R2|]. split; [congruence|].
    rewrite T2, T1, (active_st _ _ S1). now rewrite rev_app_distr, app_assoc.
Qed.

(** ---- the activation redraw ---- *)
Lemma redraw_row_ok row y : row < h + s ->
  forall n x0 v, length (data v) = N.to_nat size -> 1 <= x0 -> x0 - 1 + N.of_nat n <= w ->
  redraw_row v (seqN x0 (N.of_nat n)) (off row (x0 - 1)) y =
  Ok (set_trace v (rev (map (fun x => write_call (cellN (data v) (off row (x - 1))) x y) (seqN x0 (N.of_nat n))) ++ trace v)).
Proof.
  intros Hrow. induction n as [|n IH]; intros x0 v DL Hx Hn.
  - cbn [N.of_nat]. rewrite seqN_0. cbn [redraw_row map rev app]. destruct v; reflexivity.
  - rewrite seqN_cons by lia. replace (N.of_nat (S n) - 1) with (N.of_nat n) by lia.
    cbn [redraw_row map].
    pose proof (off_lt row (x0 - 1) Hrow ltac:(lia)) as B. unfold size in *.
    rewrite (w32_small (off row (x0 - 1) + 1)) by lia.
    rewrite (w32_small (off row (x0 - 1) + 2)) by lia.
    rewrite (w32_small (off row (x0 - 1) + 3)) by lia.
    rewrite !getN_some by lia.
    rewrite <- off_S. replace (x0 - 1 + 1) with (x0 + 1 - 1) by lia.
    rewrite IH; [|vsimpl; assumption|lia|lia].
    vsimpl. unfold cellN at 2. cbn [write_call rev]. rewrite <- app_assoc. reflexivity.
Qed.

Definition redraw_calls (d : list N) (vy0 : N) (ys : list N) : list ccall :=
  flat_map (fun y => map (fun x => write_call (cellN d (off (vy0 + y - 1) (x - 1))) x y) (seqN 1 w)) ys.

Lemma redraw_rows_ok : forall n y0 v, Geo v -> Dyn v -> 1 <= y0 -> y0 - 1 + N.of_nat n <= h ->
  redraw_rows v (seqN y0 (N.of_nat n)) =
  Ok (set_trace v (rev (redraw_calls (data v) (vy v) (seqN y0 (N.of_nat n))) ++ trace v)).
Proof.
  induction n as [|n IH]; intros y0 v G D Hy Hn.
  - cbn [N.of_nat]. rewrite seqN_0. cbn [redraw_rows redraw_calls flat_map rev app]. destruct v; reflexivity.
  - pose proof G as (Ga & Gvw & Gvh & Gtw & Gth & Gtab & Gdfg & Gdbg & Gcfg & Gcbg).
    pose proof D as (DL & DY & DV & DB).
    pose proof hs3_small. pose proof w3_small. pose proof w_small.
    rewrite seqN_cons by lia. replace (N.of_nat (S n) - 1) with (N.of_nat n) by lia.
    cbn [redraw_rows redraw_calls flat_map]. rewrite Gvw.
    rewrite sub32_1 by lia. rewrite (w32_small (w * 3)) by lia.
    rewrite (w32_small (y0 - 1 + vy v)) by lia.
    pose proof (off_lt (vy v + y0 - 1) 0 ltac:(lia) ltac:(lia)) as B. unfold size in B.
    rewrite off_rowoff in B. unfold rowoff in B.
    replace (y0 - 1 + vy v) with (vy v + y0 - 1) by lia.
    rewrite w32_small by lia.
    replace ((vy v + y0 - 1) * (w * 3)) with (off (vy v + y0 - 1) (1 - 1)) by (unfold off; lia).
    replace w with (N.of_nat (N.to_nat w)) at 1 by lia.
    rewrite redraw_row_ok; [|lia|assumption|lia|lia].
    cbn [bind]. rewrite IH; [|exact G|exact D|lia|lia].
    vsimpl. rewrite N2Nat.id. fold (redraw_calls (data v) (vy v) (seqN (y0 + 1) (N.of_nat n))).
    rewrite rev_app_distr, <- app_assoc. reflexivity.
Qed.

Lemma redraw_calls_ref v r : Geo v -> Dyn v -> R v r ->
  redraw_calls (data v) (vy v) (seqN 1 h) = e_redraw w h r.
Proof.
  intros G (DL & DY & DV & DB) ((LR & EV & EY) & EX). destruct LR as (L & LW & LC).
  unfold redraw_calls, e_redraw. rewrite !flat_map_concat_map. f_equal. apply map_ext_in. intros y Hy. apply in_seqN in Hy.
  apply map_ext_in. intros x Hx. apply in_seqN in Hx. f_equal.
  unfold r_cell. rewrite EV. specialize (LC (vy v + y - 1) (x - 1) ltac:(lia) ltac:(lia)).
  unfold lcell in LC. now rewrite LC.
Qed.

Lemma set_state_sim v r s' : InvVT v -> R v r ->
  exists v', set_state v s' = Ok v' /\ InvVT v' /\ R v' r /\ st v' = s' /\
    trace v' = rev (if st v =? s' then [] else if s' =? tty_StateActive then e_redraw w h r else []) ++ trace v.
Proof.
  intros (G & D & C) RR. pose proof G as (Ga & _).
  unfold set_state. destruct (N.eqb_spec (st v) s') as [E|E].
  - exists v. split; [reflexivity|]. split; [exact (conj G (conj D C))|]. split; [exact RR|].
    split; [exact E|reflexivity].
  - vsimpl. rewrite Ga, andb_true_r.
    destruct (N.eqb_spec s' tty_StateActive) as [A|A].
    + pose proof G as (_ & _ & Gvh & _). cbn [vh set_st]. rewrite Gvh.
      pose proof (redraw_rows_ok (N.to_nat h) 1 (set_st v s') G D ltac:(lia) ltac:(lia)) as RD.
      rewrite N2Nat.id in RD. rewrite RD. clear RD.
      eexists. split; [reflexivity|]. vsimpl.
      rewrite (redraw_calls_ref v r G D RR).
      split; [exact (conj G (conj D C))|]. split; [exact RR|]. split; reflexivity.
    + eexists. split; [reflexivity|]. vsimpl.
      split; [exact (conj G (conj D C))|]. split; [exact RR|]. split; reflexivity.
Qed.


(** ---- NewVT + AttachTo ---- *)
Lemma attach_sim :
  exists v0, attach (new_vt tab s) w h fg bg = Ok v0 /\ InvVT v0 /\ R v0 (r_init w h s fg bg) /\
             st v0 = tty_newState /\ trace v0 = [].
Proof.
  pose proof hs3_small. pose proof w3_small.
  assert (HP : w * (h + s) < two32) by (unfold two32 in *; nia).
  unfold attach, new_vt. cbn [sb tabw doff st trace].
  rewrite (w32_small (h + s)) by lia. rewrite (w32_small (w * (h + s))) by lia.
  rewrite (w32_small (w * (h + s) * 3)) by assumption.
  rewrite N.mod_mul by lia. cbn [N.eqb]. rewrite N.div_mul by lia.
  eexists. split; [reflexivity|]. split; [|split; [|split; reflexivity]].
  - split; [|split].
    + unfold Geo. cbn. repeat split; reflexivity.
    + unfold Dyn. vsimpl. split; [|split; [|split]].
      * rewrite blank_cells_length. unfold size. lia.
      * lia.
      * lia.
      * intros i j Hi1 Hi2 Hj. unfold off. rewrite blank_cells_cell; [reflexivity|]. nia.
    + unfold Cur. vsimpl. split; [lia|]. unfold off. lia.
  - unfold R, Rl, r_init. vsimpl. cbn [r_lines r_view r_x r_y].
    split; [split; [apply linesrel_init|split; reflexivity]|reflexivity].
Qed.

(** ---- one API call ---- *)
Lemma step_sim v r o : InvVT v -> R v r -> op_wf o ->
  exists v' res, step v o = Ok (v', res) /\ InvVT v' /\ R v' (r_step w h s tab fg bg r o) /\
    st v' = st_step (st v) o /\
    trace v' = rev (e_step w h s tab fg bg (st v) r o) ++ trace v.
Proof.
  intros I RR WF. destruct o as [w0 h0 f0 b0|bs|b|x y|s']; cbn [op_wf] in WF; [contradiction|..];
    cbn [step r_step st_step e_step].
  - destruct (write_sim bs v r 0 I RR) as (v' & E & I' & R' & S' & T').
    rewrite E. cbn [bind]. do 2 eexists. split; [reflexivity|]. auto.
  - destruct (write_byte_sim v r b I RR) as (v' & E & I' & R' & S' & T').
    rewrite E. cbn [bind]. do 2 eexists. split; [reflexivity|]. auto.
  - destruct I as (G & D & C).
    destruct (set_cursor_sim v r x y G D RR) as (G1 & D1 & C1 & R1 & S1 & T1).
    do 2 eexists. split; [reflexivity|]. split; [exact (conj G1 (conj D1 C1))|]. auto.
  - destruct (set_state_sim v r s' I RR) as (v' & E & I' & R' & S' & T').
    rewrite E. cbn [bind]. do 2 eexists. split; [reflexivity|]. auto.
Qed.

Lemma run_sim ops : forall v r, InvVT v -> R v r -> Forall op_wf ops ->
  exists v', run_ops v ops = Ok v' /\ InvVT v' /\ R v' (fold_left (r_step w h s tab fg bg) ops r).
Proof.
  induction ops as [|o t IH]; intros v r I RR WF.
  - exists v. auto.
  - inversion WF as [|? ? WFo WFt]; subst.
    destruct (step_sim v r o I RR WFo) as (v1 & res & E & I1 & R1 & _).
    destruct (IH v1 _ I1 R1 WFt) as (v2 & E2 & I2 & R2).
    exists v2. cbn [run_ops fold_left]. rewrite E. cbn [bind fst]. auto.
Qed.

Lemma R_abs v r : Geo v -> R v r -> abs v = r.
Proof.
  intros (Ga & Gvw & Gvh & Gtw & Gth & _) ((LR & EV & EY) & EX).
  destruct r as [ls vw0 x0 y0]. cbn [r_lines r_view r_x r_y] in *. subst. unfold abs. f_equal.
  apply (linesrel_unique (data v)); [|assumption]. now apply linesrel_abs.
Qed.

End Geometry.

(** ---- the C17 statements ---- *)
Theorem vt_refines_thm :
  forall w h sb tab fg bg ops,
    1 <= w -> 1 <= h -> tab <= 255 -> w * (h + sb) * 3 < two32 -> Forall op_wf ops ->
    exists v0 v, attach (new_vt tab sb) w h fg bg = Ok v0 /\ run_ops v0 ops = Ok v /\
                 abs v = ref_run w h sb tab fg bg ops.
Proof.
  intros w h sb tab fg bg ops Hw Hh Ht Hsz WF.
  destruct (attach_sim w h sb tab fg bg Hw Hh Hsz) as (v0 & E0 & I0 & R0 & _).
  destruct (run_sim w h sb tab fg bg Hw Hh Hsz ops v0 _ I0 R0 WF) as (v & E & I & RR).
  exists v0, v. split; [exact E0|]. split; [exact E|].
  apply (R_abs w h sb tab fg bg Hw Hh Hsz); [apply I|exact RR].
Qed.

Theorem vt_in_bounds_thm :
  forall w h sb tab fg bg ops,
    1 <= w -> 1 <= h -> tab <= 255 -> w * (h + sb) * 3 < two32 -> Forall op_wf ops ->
    exists v0 v, attach (new_vt tab sb) w h fg bg = Ok v0 /\ run_ops v0 ops = Ok v /\
                 InvVT w h sb tab fg bg v /\
                 1 <= cx v <= w /\ 1 <= cy v <= h /\ vy v + h <= h + sb /\
                 length (data v) = N.to_nat (w * (h + sb) * 3) /\
                 doff v + 2 < N.of_nat (length (data v)).
Proof.
  intros w h sb tab fg bg ops Hw Hh Ht Hsz WF.
  destruct (attach_sim w h sb tab fg bg Hw Hh Hsz) as (v0 & E0 & I0 & R0 & _).
  destruct (run_sim w h sb tab fg bg Hw Hh Hsz ops v0 _ I0 R0 WF) as (v & E & I & RR).
  exists v0, v. split; [exact E0|]. split; [exact E|]. split; [exact I|].
  destruct I as (G & (DL & DY & DV & DB) & (CX & CO)).
  split; [exact CX|]. split; [exact DY|]. split; [exact DV|]. split; [exact DL|].
  rewrite CO, DL.
  pose proof (off_lt w h sb Hw Hh Hsz (vy v + cy v - 1) (cx v - 1) ltac:(lia) ltac:(lia)). unfold size in *. lia.
Qed.


Theorem vt_step_thm :
  forall w h sb tab fg bg (v : vt) (r : rterm) (o : op),
    1 <= w -> 1 <= h -> w * (h + sb) * 3 < two32 ->
    InvVT w h sb tab fg bg v -> R w h sb v r -> op_wf o ->
    exists v' res,
      step v o = Ok (v', res) /\ InvVT w h sb tab fg bg v' /\
      R w h sb v' (r_step w h sb tab fg bg r o) /\ abs v' = r_step w h sb tab fg bg r o.
Proof.
  intros w h sb tab fg bg v r o Hw Hh Hsz I RR WF.
  destruct (step_sim w h sb tab fg bg Hw Hh Hsz v r o I RR WF) as (v' & res & E & I' & R' & _).
  exists v', res. split; [exact E|]. split; [exact I'|]. split; [exact R'|].
  apply (R_abs w h sb tab fg bg Hw Hh Hsz); [apply I'|exact R'].
Qed.

Theorem vt_write_result_thm :
  forall w h sb tab fg bg (v : vt) (r : rterm) (bs : list N),
    1 <= w -> 1 <= h -> w * (h + sb) * 3 < two32 ->
    InvVT w h sb tab fg bg v -> R w h sb v r ->
    exists v', write v bs 0 = Ok (v', N.of_nat (length bs), 0).
Proof.
  intros w h sb tab fg bg v r bs Hw Hh Hsz I RR.
  destruct (write_sim w h sb tab fg bg Hw Hh Hsz bs v r 0 I RR) as (v' & E & _).
  exists v'. exact E.
Qed.
