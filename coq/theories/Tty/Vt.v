(** Model of kernel/device/tty/vt.go : NewVT, AttachTo, SetState, SetCursorPosition, Write,
    WriteByte, doWrite, cr, lf, updateDataOffset.    Definitions only.

    - [data] is the Go slice [t.data] : a [list N] of bytes; every access is bounds-checked and
      an out-of-range index is the explicit outcome [PanicOOB] (the Go run-time panic).
    - uint32 fields and uint32 expressions wrap with [w32]/[sub32]; [dataOffset] is a [uint]
      (64 bit) and wraps with [w64].
    - calls made on the attached console are recorded in [trace] (most recent first). *)
From Coq Require Import NArith List Bool.
From FF Require Import Lib.Word Gen.Consts_device_tty.
Import ListNotations.
Local Open Scope N_scope.

Inductive outcome (A : Type) : Type :=
| Ok (a : A)
| PanicOOB.
Arguments Ok {A} a.
Arguments PanicOOB {A}.

Definition bind {A B} (o : outcome A) (f : A -> outcome B) : outcome B :=
  match o with Ok a => f a | PanicOOB => PanicOOB end.

(** ---- bounds-checked slice primitives (index is an [N]; no [nat] of the size of the buffer) ---- *)
Fixpoint getN (l : list N) (i : N) : option N :=
  match l with
  | [] => None
  | x :: r => if i =? 0 then Some x else getN r (N.pred i)
  end.

Fixpoint setN (l : list N) (i v : N) : option (list N) :=
  match l with
  | [] => None
  | x :: r => if i =? 0 then Some (v :: r)
              else match setN r (N.pred i) v with Some r' => Some (x :: r') | None => None end
  end.

Fixpoint takeN (n : N) (l : list N) : list N :=
  match l with
  | [] => []
  | x :: r => if n =? 0 then [] else x :: takeN (N.pred n) r
  end.

Fixpoint dropN (n : N) (l : list N) : list N :=
  match l with
  | [] => []
  | _ :: r => if n =? 0 then l else dropN (N.pred n) r
  end.

Definition lenN (l : list N) : N := fold_left (fun a _ => N.succ a) l 0.

(** [n] cells  (' ', fg, bg) *)
Definition blank_cells (n fg bg : N) : list N := N.iter n (fun l => 32 :: fg :: bg :: l) [].

(** The loop  [for offset := s; offset < e; offset++ { data[offset] = data[offset+stride] }]
    as one pass.  Reads are always ahead of the writes ([stride >= 0]) so the loop is a plain
    forward move; the largest index touched is [e-1+stride], and indices only grow, so the loop
    panics iff it runs at all and that index is out of range.  (Tty/VtLoops.v proves this
    summary equal to the byte-by-byte loop.) *)
Definition copy_down (d : list N) (s e stride : N) : option (list N) :=
  if e <=? s then Some d
  else if lenN d <? e + stride then None
  else Some (takeN s d ++ takeN (e - s) (dropN (s + stride) d) ++ dropN e d).

(** The loop  [for offset := e; offset < e+stride; offset += 3 { data[offset+0..2] = ' ', fg, bg }]:
    [ceil(stride/3)] iterations of three stores each. *)
Definition blank_range (d : list N) (e stride fg bg : N) : option (list N) :=
  let k := (stride + 2) / 3 in
  if k =? 0 then Some d
  else if lenN d <? e + k * 3 then None
  else Some (takeN e d ++ blank_cells k fg bg ++ dropN (e + k * 3) d).

(** ---- console calls ---- *)
Inductive ccall :=
| CWrite (ch fg bg x y : N)
| CFill (x y width height fg bg : N)
| CScroll (dir lines : N).

(** ---- the VT struct ---- *)
Record vt := mkVT {
  attached : bool;        (* t.cons != nil *)
  vw : N; vh : N;         (* viewportWidth, viewportHeight *)
  tw : N; th : N;         (* termWidth, termHeight *)
  sb : N;                 (* scrollback *)
  tabw : N;               (* tabWidth (uint8) *)
  dfg : N; dbg : N; cfg : N; cbg : N;
  cx : N; cy : N;         (* cursorX, cursorY (1-based) *)
  vy : N;                 (* viewportY *)
  doff : N;               (* dataOffset (uint) *)
  st : N;                 (* state (uint8) *)
  data : list N;
  trace : list ccall      (* console calls, most recent first *)
}.

Definition set_cx (v : vt) (x : N) : vt :=
  mkVT (attached v) (vw v) (vh v) (tw v) (th v) (sb v) (tabw v) (dfg v) (dbg v) (cfg v) (cbg v)
       x (cy v) (vy v) (doff v) (st v) (data v) (trace v).
Definition set_cy (v : vt) (y : N) : vt :=
  mkVT (attached v) (vw v) (vh v) (tw v) (th v) (sb v) (tabw v) (dfg v) (dbg v) (cfg v) (cbg v)
       (cx v) y (vy v) (doff v) (st v) (data v) (trace v).
Definition set_vy (v : vt) (y : N) : vt :=
  mkVT (attached v) (vw v) (vh v) (tw v) (th v) (sb v) (tabw v) (dfg v) (dbg v) (cfg v) (cbg v)
       (cx v) (cy v) y (doff v) (st v) (data v) (trace v).
Definition set_doff (v : vt) (o : N) : vt :=
  mkVT (attached v) (vw v) (vh v) (tw v) (th v) (sb v) (tabw v) (dfg v) (dbg v) (cfg v) (cbg v)
       (cx v) (cy v) (vy v) o (st v) (data v) (trace v).
Definition set_st (v : vt) (s : N) : vt :=
  mkVT (attached v) (vw v) (vh v) (tw v) (th v) (sb v) (tabw v) (dfg v) (dbg v) (cfg v) (cbg v)
       (cx v) (cy v) (vy v) (doff v) s (data v) (trace v).
Definition set_data (v : vt) (d : list N) : vt :=
  mkVT (attached v) (vw v) (vh v) (tw v) (th v) (sb v) (tabw v) (dfg v) (dbg v) (cfg v) (cbg v)
       (cx v) (cy v) (vy v) (doff v) (st v) d (trace v).
Definition set_trace (v : vt) (t : list ccall) : vt :=
  mkVT (attached v) (vw v) (vh v) (tw v) (th v) (sb v) (tabw v) (dfg v) (dbg v) (cfg v) (cbg v)
       (cx v) (cy v) (vy v) (doff v) (st v) (data v) t.

Definition emit (v : vt) (c : ccall) : vt := set_trace v (c :: trace v).
Definition active (v : vt) : bool := st v =? tty_StateActive.

(** NewVT(tabWidth, scrollback) *)
Definition new_vt (tab scrollback : N) : vt :=
  mkVT false 0 0 0 0 scrollback tab 0 0 0 0 tty_newCursorX tty_newCursorY 0 0 tty_newState [] [].

(** AttachTo(cons) for a non-nil console reporting [Dimensions(Characters) = (w, h)] and
    [DefaultColors() = (fg, bg)].  dataOffset is NOT recomputed (as in the Go code). *)
Definition attach (v : vt) (w h fg bg : N) : outcome vt :=
  let th' := w32 (h + sb v) in
  let len := w32 (w32 (w * th') * 3) in
  (* for i := 0; i < len; i += 3 { data[i], data[i+1], data[i+2] = ... } *)
  if len mod 3 =? 0 then
    Ok (mkVT true w h w th' (sb v) (tabw v) fg bg fg bg 1 1 0 (doff v) (st v)
             (blank_cells (len / 3) fg bg) (trace v))
  else PanicOOB.

(** updateDataOffset: uint32 arithmetic, converted to uint *)
Definition update_data_offset (v : vt) : vt :=
  set_doff v (w32 (w32 (w32 (vy v + sub32 (cy v) 1) * w32 (vw v * 3)) + w32 (sub32 (cx v) 1 * 3))).

Definition set_cursor_position (v : vt) (x y : N) : vt :=
  if negb (attached v) then v else
  let x := if x <? 1 then 1 else if vw v <? x then vw v else x in
  let y := if y <? 1 then 1 else if vh v <? y then vh v else y in
  update_data_offset (set_cy (set_cx v x) y).

Definition cr (v : vt) : vt := update_data_offset (set_cx v 1).

Definition store (v : vt) (i b : N) : outcome vt :=
  match setN (data v) i b with
  | Some d => Ok (set_data v d)
  | None => PanicOOB
  end.

(** the "scroll contents up and clear the last line" branch of lf *)
Definition scroll_buffer (v : vt) : outcome vt :=
  let stride := w32 (vw v * 3) in
  let s := vy v * stride in
  let e := sub32 (w32 (vy v + vh v)) 1 * stride in
  match copy_down (data v) s e stride with
  | None => PanicOOB
  | Some d =>
      match blank_range d e stride (dfg v) (dbg v) with
      | None => PanicOOB
      | Some d' => Ok (set_data v d')
      end
  end.

Definition lf (v : vt) (withCR : bool) : outcome vt :=
  let v := if withCR then set_cx v 1 else v in
  bind (if w32 (cy v + 1) <=? vh v then Ok (set_cy v (w32 (cy v + 1)))
        else
          bind (if w32 (vy v + vh v) <? th v then Ok (set_vy v (w32 (vy v + 1)))
                else scroll_buffer v)
               (fun v => Ok (if active v
                             then emit (emit v (CScroll console_ScrollDirUp 1))
                                       (CFill 1 (cy v) (tw v) 1 (dfg v) (dbg v))
                             else v)))
       (fun v => Ok (update_data_offset v)).

Definition do_write (v : vt) (b : N) (advance : bool) : outcome vt :=
  let v := if active v then emit v (CWrite b (cfg v) (cbg v) (cx v) (cy v)) else v in
  bind (store v (doff v) b) (fun v =>
  bind (store v (w64 (doff v + 1)) (cfg v)) (fun v =>
  bind (store v (w64 (doff v + 2)) (cbg v)) (fun v =>
  if advance then
    let v := set_cx (set_doff v (w64 (doff v + 3))) (w32 (cx v + 1)) in
    if vw v <? cx v then lf v true else Ok v
  else Ok v))).

Fixpoint repeat_do (n : nat) (f : vt -> outcome vt) (v : vt) : outcome vt :=
  match n with
  | O => Ok v
  | S n => bind (f v) (repeat_do n f)
  end.

(** WriteByte: result 1 = io.ErrClosedPipe, 0 = nil *)
Definition write_byte (v : vt) (b : N) : outcome (vt * N) :=
  if negb (attached v) then Ok (v, 1) else
  bind (if b =? 13 then Ok (cr v)
        else if b =? 10 then lf v true
        else if b =? 8 then
          if 1 <? cx v then do_write (set_cursor_position v (sub32 (cx v) 1) (cy v)) 32 false
          else Ok v
        else if b =? 9 then repeat_do (N.to_nat (tabw v)) (fun v => do_write v 32 true) v
        else do_write v b true)
       (fun v => Ok (v, 0)).

(** Write: -> (count, err) *)
Fixpoint write (v : vt) (bs : list N) (count : N) : outcome (vt * N * N) :=
  match bs with
  | [] => Ok (v, count, 0)
  | b :: r =>
      bind (write_byte v b) (fun p =>
        let '(v', err) := p in
        if err =? 0 then write v' r (count + 1) else Ok (v', count, err))
  end.

(** the activation redraw of SetState *)
Definition seqN (start len : N) : list N := map N.of_nat (seq (N.to_nat start) (N.to_nat len)).

Fixpoint redraw_row (v : vt) (xs : list N) (offset y : N) : outcome vt :=
  match xs with
  | [] => Ok v
  | x :: r =>
      match getN (data v) offset, getN (data v) (w32 (offset + 1)), getN (data v) (w32 (offset + 2)) with
      | Some a, Some b, Some c => redraw_row (emit v (CWrite a b c x y)) r (w32 (offset + 3)) y
      | _, _, _ => PanicOOB
      end
  end.

Fixpoint redraw_rows (v : vt) (ys : list N) : outcome vt :=
  match ys with
  | [] => Ok v
  | y :: r =>
      bind (redraw_row v (seqN 1 (vw v)) (w32 (w32 (sub32 y 1 + vy v) * w32 (vw v * 3))) y)
           (fun v => redraw_rows v r)
  end.

Definition set_state (v : vt) (s : N) : outcome vt :=
  if st v =? s then Ok v else
  let v := set_st v s in
  if (s =? tty_StateActive) && attached v then redraw_rows v (seqN 1 (vh v)) else Ok v.

(** ---- histories ---- *)
Inductive op :=
| OAttach (w h fg bg : N)
| OWrite (bs : list N)
| OWriteByte (b : N)
| OSetCursor (x y : N)
| OSetState (s : N).

(** one API call: new state and the values it returned *)
Definition step (v : vt) (o : op) : outcome (vt * list N) :=
  match o with
  | OAttach w h fg bg => bind (attach v w h fg bg) (fun v => Ok (v, []))
  | OWrite bs => bind (write v bs 0) (fun p => let '(v, n, err) := p in Ok (v, [n; err]))
  | OWriteByte b => bind (write_byte v b) (fun p => let '(v, err) := p in Ok (v, [err]))
  | OSetCursor x y => Ok (set_cursor_position v x y, [])
  | OSetState s => bind (set_state v s) (fun v => Ok (v, []))
  end.

Fixpoint run_ops (v : vt) (ops : list op) : outcome vt :=
  match ops with
  | [] => Ok v
  | o :: r => bind (step v o) (fun p => run_ops (fst p) r)
  end.

(** ---- flat encoding for the correspondence driver ----
    case = tab :: scrollback :: ops
    op   = 0 w h fg bg | 1 n b1..bn | 2 b | 3 x y | 4 s
    observation per op = returned values ++ [cx; cy; vy; doff; st; len data; sum1; sum2 of data;
                                             #console calls of this op; sum1; sum2 of their encoding]
    a panic ends the case with the single number 0xdead. *)
Definition ck_mod : N := 4294967291.
Definition ck_step (s : N * N) (x : N) : N * N :=
  let a := fst s + x + 1 in (a, snd s + a).
(** sum of (x+1) and sum of the prefix sums, both reduced modulo [ck_mod] once at the end
    (the Go side reduces at every step; the residues are the same) *)
Definition cksum (l : list N) : N * N :=
  let '(a, b) := fold_left ck_step l (0, 0) in (a mod ck_mod, b mod ck_mod).

Definition enc_call (c : ccall) : list N :=
  match c with
  | CWrite ch fg bg x y => [0; ch; fg; bg; x; y]
  | CFill x y w h fg bg => [1; x; y; w; h; fg; bg]
  | CScroll d n => [2; d; n]
  end.

Definition observe (v : vt) : list N :=
  let '(a, b) := cksum (data v) in
  let calls := rev (trace v) in
  let '(c, d) := cksum (flat_map enc_call calls) in
  [cx v; cy v; vy v; doff v; st v; lenN (data v); a; b; N.of_nat (length calls); c; d].

Fixpoint dec_ops (fuel : nat) (l : list N) : list op :=
  match fuel with O => [] | S fuel =>
  match l with
  | 0 :: w :: h :: fg :: bg :: rest => OAttach w h fg bg :: dec_ops fuel rest
  | 1 :: n :: rest => OWrite (firstn (N.to_nat n) rest) :: dec_ops fuel (skipn (N.to_nat n) rest)
  | 2 :: b :: rest => OWriteByte b :: dec_ops fuel rest
  | 3 :: x :: y :: rest => OSetCursor x y :: dec_ops fuel rest
  | 4 :: s :: rest => OSetState s :: dec_ops fuel rest
  | _ => []
  end end.

Fixpoint run_obs (v : vt) (ops : list op) : list N :=
  match ops with
  | [] => []
  | o :: r =>
      match step (set_trace v []) o with
      | Ok (v', res) => res ++ observe v' ++ run_obs v' r
      | PanicOOB => [0xdead]
      end
  end.

Definition run_case (l : list N) : list N :=
  match l with
  | tab :: scrollback :: rest => run_obs (new_vt tab scrollback) (dec_ops (length rest) rest)
  | _ => []
  end.
