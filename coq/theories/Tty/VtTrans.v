(** The loop-free methods of tty.VT as modelled by hand in Tty/Vt.v ARE the Gallina translation that
    gen/gotrans regenerates from kernel/device/tty/vt.go on every run (Gen/Trans_tty_vt.v): State,
    CursorPosition, updateDataOffset (the uint32 arithmetic of the buffer offset, widened to uint),
    SetCursorPosition (clamping, parallel assignment, recomputation of the offset) and cr.
    The methods with loops and console calls (AttachTo, SetState, Write, WriteByte, doWrite, lf) are
    outside the subset of this (first) mode of the translator; they are tied by the extended mode in
    Tty/VtFullTrans.v (Gen/Trans_tty_vt_full.v), which also re-proves the five methods below for the
    record with the console trace. *)
From Coq Require Import NArith Lia List Bool.
From FF Require Import Lib.Word Lib.GoOps Gen.Trans_tty_vt Gen.Consts_device_tty Tty.Vt.
Local Open Scope N_scope.

Definition to_go (v : vt) : go_tty_VT :=
  mk_go_tty_VT (attached v) (tw v) (th v) (vw v) (vh v) (sb v) (data v) (tabw v) (dfg v) (cfg v) (dbg v) (cbg v)
               (cx v) (cy v) (vy v) (doff v) (st v).

Lemma doff_eq vy cy vw cx :
  gw 64 (gw 32 (gw 32 (gw 32 (vy + gsub 32 cy 1) * gw 32 (vw * 3)) + gw 32 (gsub 32 cx 1 * 3))) =
  w32 (w32 (w32 (vy + sub32 cy 1) * w32 (vw * 3)) + w32 (sub32 cx 1 * 3)).
Proof.
  change (gsub 32 cy 1) with (sub32 cy 1). change (gsub 32 cx 1) with (sub32 cx 1).
  change (gw 32) with w32. unfold gw. apply N.mod_small.
  pose proof (N.mod_lt (w32 (w32 (vy + sub32 cy 1) * w32 (vw * 3)) + w32 (sub32 cx 1 * 3)) two32 ltac:(discriminate)) as H.
  unfold w32 at 1. change (2 ^ 64) with (two32 * two32). unfold two32 in *. lia.
Qed.

Theorem state_is_translation v : go_tty_VT_State (to_go v) = Some (to_go v, st v).
Proof. reflexivity. Qed.

Theorem cursorPosition_is_translation v : go_tty_VT_CursorPosition (to_go v) = Some (to_go v, (cx v, cy v)).
Proof. reflexivity. Qed.

Theorem updateDataOffset_is_translation v :
  go_tty_VT_updateDataOffset (to_go v) = Some (to_go (update_data_offset v), tt).
Proof.
  unfold go_tty_VT_updateDataOffset, update_data_offset, set_doff, to_go.
  cbn [f_VT_cons f_VT_termWidth f_VT_termHeight f_VT_viewportWidth f_VT_viewportHeight f_VT_scrollback f_VT_data
       f_VT_tabWidth f_VT_defaultFg f_VT_curFg f_VT_defaultBg f_VT_curBg f_VT_cursorX f_VT_cursorY f_VT_viewportY
       f_VT_dataOffset f_VT_state
       attached Vt.vw Vt.vh Vt.tw Vt.th Vt.sb tabw dfg dbg cfg cbg Vt.cx Vt.cy Vt.vy doff st data trace].
  rewrite doff_eq. reflexivity.
Qed.

Theorem cr_is_translation v : go_tty_VT_cr (to_go v) = Some (to_go (cr v), tt).
Proof.
  unfold go_tty_VT_cr, cr.
  change (gw 32 1) with 1.
  pose proof (updateDataOffset_is_translation (set_cx v 1)) as H.
  unfold to_go, set_cx in *.
  cbn [f_VT_cons f_VT_termWidth f_VT_termHeight f_VT_viewportWidth f_VT_viewportHeight f_VT_scrollback f_VT_data
       f_VT_tabWidth f_VT_defaultFg f_VT_curFg f_VT_defaultBg f_VT_curBg f_VT_cursorX f_VT_cursorY f_VT_viewportY
       f_VT_dataOffset f_VT_state
       attached Vt.vw Vt.vh Vt.tw Vt.th Vt.sb tabw dfg dbg cfg cbg Vt.cx Vt.cy Vt.vy doff st data trace] in *.
  rewrite H. reflexivity.
Qed.

Theorem setCursorPosition_is_translation v x y :
  go_tty_VT_SetCursorPosition (to_go v) x y = Some (to_go (set_cursor_position v x y), tt).
Proof.
  destruct (attached v) eqn:E.
  2:{ unfold go_tty_VT_SetCursorPosition, set_cursor_position.
      change (f_VT_cons (to_go v)) with (attached v). rewrite E. reflexivity. }
  unfold go_tty_VT_SetCursorPosition, set_cursor_position.
  change (gw 32 1) with 1.
  assert (K: forall X Y, match go_tty_VT_updateDataOffset (to_go (set_cy (set_cx v X) Y)) with
                         | None => None | Some (v_t, _) => Some (v_t, tt) end =
                         Some (to_go (update_data_offset (set_cy (set_cx v X) Y)), tt)).
  { intros X Y. rewrite updateDataOffset_is_translation. reflexivity. }
  replace (negb (f_VT_cons (to_go v))) with false
    by (change (f_VT_cons (to_go v)) with (attached v); rewrite E; reflexivity).
  rewrite E. cbn [negb].
  change (f_VT_viewportWidth (to_go v)) with (vw v).
  change (f_VT_viewportHeight (to_go v)) with (vh v).
  destruct (x <? 1); destruct (vw v <? x); destruct (y <? 1); destruct (vh v <? y); exact (K _ _).
Qed.
